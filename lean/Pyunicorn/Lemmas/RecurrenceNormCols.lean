import Pyunicorn.Lemmas.RecurrenceRound3
import Mathlib.Tactic.Choose
/-!
Round 4 (C07): the multi-column bridge.  `normalizeSeries` (`normalize_time_series` on an `(n, d)`
array, column by column) *is* the row-wise affine map `affRow μ σ` with `μ_j`, `σ_j` the mean and
standard deviation of column `j`; hence the distance of two normalised state vectors is the
weighted distance `distW` of the raw ones (`dist_affRow`).
-/
namespace Pyunicorn.Recurrence

theorem mapM_some_spec {α β : Type} (f : α → Option β) (l : List α) (r : List β)
    (h : l.mapM f = some r) :
    r.length = l.length ∧ ∀ i (hi : i < l.length), f l[i] = r[i]? := by
  induction l generalizing r with
  | nil =>
    simp only [List.mapM_nil, pure, Option.some.injEq] at h
    subst h; simp
  | cons a t ih =>
    rw [List.mapM_cons] at h
    cases hf : f a with
    | none => simp [hf] at h
    | some y =>
      cases ht : t.mapM f with
      | none => simp [hf, ht] at h
      | some ys =>
        simp only [hf, ht, bind, Option.bind, pure, Option.some.injEq] at h
        subst h
        obtain ⟨h1, h2⟩ := ih ys ht
        refine ⟨by simp [h1], ?_⟩
        intro i hi
        cases i with
        | zero => simp [hf]
        | succ i => simpa using h2 i (by simpa using hi)

theorem colOf_getD (series : List (List V)) (j i : Nat) :
    (colOf series j).getD i none = (series.getD i []).getD j none := by
  unfold colOf
  by_cases hi : i < series.length
  · simp [List.getD_eq_getElem?_getD, hi]
  · simp [List.getD_eq_getElem?_getD, Nat.not_lt.mp hi]

theorem colOf_length (series : List (List V)) (j : Nat) : (colOf series j).length = series.length := by
  simp [colOf]

/-- **`normalize_time_series` on an `(n, d)` array is the row-wise affine map**: with `μ_j`, `σ_j`
the mean and the (positive, rational) standard deviation of column `j`, every stored row is
`affRow μ σ` of the given row -/
theorem normalizeSeries_eq_affRow (series S : List (List V)) (d : Nat)
    (hne : series ≠ []) (hrect : ∀ r ∈ series, r.length = d)
    (h : normalizeSeries series = some S)
    (hvar : ∀ j, j < d → ∃ v, varV (colOf series j) = some v ∧ v ≠ 0) :
    ∃ mu sd : List Rat, mu.length = d ∧ sd.length = d ∧ (∀ s ∈ sd, 0 < s) ∧
      (∀ j, j < d → meanV (colOf series j) = some (mu.getD j 0) ∧
          varV (colOf series j) = some (sd.getD j 0 * sd.getD j 0)) ∧
      S = series.map (affRow mu sd) := by
  have hd : (series.headD []).length = d := by
    cases series with
    | nil => exact absurd rfl hne
    | cons r t => simpa using hrect r (by simp)
  unfold normalizeSeries at h
  simp only [hd] at h
  cases hc : (List.range d).mapM (fun j => normalizeCol (colOf series j)) with
  | none => simp [hc] at h
  | some cols =>
    simp only [hc, Option.map_some, Option.some.injEq] at h
    obtain ⟨hlen, hcol⟩ := mapM_some_spec _ _ _ hc
    simp only [List.length_range] at hlen hcol
    have key : ∀ j, j < d → ∃ p : Rat × Rat, meanV (colOf series j) = some p.1 ∧ 0 < p.2 ∧
        varV (colOf series j) = some (p.2 * p.2) ∧
        cols.getD j [] = (colOf series j).map (affV p.1 p.2) := by
      intro j hj
      obtain ⟨v, hv, hv0⟩ := hvar j hj
      have hn : normalizeCol (colOf series j) = some (cols.getD j []) := by
        have := hcol j hj
        simp only [List.getElem_range] at this
        rw [this]
        simp [List.getD_eq_getElem?_getD, hlen, hj]
      obtain ⟨mu, sd, h1, h2, h3, h4⟩ := normalizeCol_spec _ _ v hn hv hv0
      exact ⟨(mu, sd), h1, h2, by rw [hv, h3], h4⟩
    choose! g hg using key
    refine ⟨(List.range d).map (fun j => (g j).1), (List.range d).map (fun j => (g j).2),
      by simp, by simp, ?_, ?_, ?_⟩
    · intro s hs
      obtain ⟨j, hj, rfl⟩ := List.mem_map.mp hs
      exact (hg j (List.mem_range.mp hj)).2.1
    · intro j hj
      have := hg j hj
      simp [List.getD_eq_getElem?_getD, hj, this.1, this.2.2.1]
    · subst h
      apply List.ext_getElem
      · simp [tab]
      · intro i h1 h2
        have hi : i < series.length := by simpa [tab] using h1
        have hri : (series[i]).length = d := hrect _ (List.getElem_mem hi)
        simp only [tab, List.getElem_map, List.getElem_range]
        apply List.ext_getElem
        · simp [affRow, hri]
        · intro j h3 h4
          have hj : j < d := by simpa using h3
          simp only [List.getElem_map, List.getElem_range, affRow, List.getElem_zipWith,
            List.getElem_zip]
          rw [(hg j hj).2.2.2]
          have : ((colOf series j).map (affV (g j).1 (g j).2)).getD i none
              = affV (g j).1 (g j).2 ((colOf series j).getD i none) := by
            have hic : i < (colOf series j).length := by rw [colOf_length]; exact hi
            simp [List.getD_eq_getElem?_getD, hic]
          rw [this, colOf_getD]
          simp [List.getD_eq_getElem?_getD, hi, hri, hj]

/-- **distances of the normalised multi-column series** are the weighted distances of the given
rows (`σ_j` the standard deviation of column `j`) -/
theorem normalizeSeries_dist (m : Metric) (series S : List (List V)) (d : Nat)
    (hne : series ≠ []) (hrect : ∀ r ∈ series, r.length = d)
    (h : normalizeSeries series = some S)
    (hvar : ∀ j, j < d → ∃ v, varV (colOf series j) = some v ∧ v ≠ 0) :
    ∃ sd : List Rat, sd.length = d ∧ (∀ s ∈ sd, 0 < s) ∧
      (∀ j, j < d → varV (colOf series j) = some (sd.getD j 0 * sd.getD j 0)) ∧
      S.length = series.length ∧
      ∀ i k, i < series.length → k < series.length →
        dist m (rowOf S i) (rowOf S k) = distW m sd (rowOf series i) (rowOf series k) := by
  obtain ⟨mu, sd, hmu, hsd, hpos, hstat, hS⟩ := normalizeSeries_eq_affRow series S d hne hrect h hvar
  refine ⟨sd, hsd, hpos, fun j hj => (hstat j hj).2, by simp [hS], ?_⟩
  intro i k hi hk
  have hrow : ∀ t, t < series.length → rowOf S t = affRow mu sd (rowOf series t) := by
    intro t ht
    simp [rowOf, hS, List.getD_eq_getElem?_getD, ht]
  rw [hrow i hi, hrow k hk]
  exact dist_affRow m mu sd hpos (by rw [hmu, hsd]) _ _

end Pyunicorn.Recurrence
