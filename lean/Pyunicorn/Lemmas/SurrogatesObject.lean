import Pyunicorn.Model.SurrogatesObject
import Pyunicorn.Lemmas.SurrogatesCompose
import Pyunicorn.Lemmas.SurrogatesKernel
import Pyunicorn.Lemmas.SurrogatesPerm
/-!
Round 3 (C15): `RecurrencePlot.twin_surrogates` as a whole, and a `Surrogates` object over every
history of `normalize_original_data` / `embedding = …` / `twins` / `twin_surrogates` calls
(`Model/SurrogatesObject.lean`).
-/
namespace Pyunicorn.Surrogates

/-! ### `RecurrencePlot.twin_surrogates` -/

/-- the walk only looks at `tw[k]` for `k < N`: the extra trailing list `_twins_r` appends is never read -/
theorem walkRep_append (N : Nat) (tw extra : List (List Nat)) (pick : Nat → Nat → Nat) (ns c : Nat)
    (h : tw.length = N) : walkRep N (tw ++ extra) pick ns c = walkRep N tw pick ns c := by
  have hnext : ∀ k c, k < N → next N (tw ++ extra) pick k c = next N tw pick k c := by
    intro k c hk
    unfold next
    rw [List.getElem?_append_left (by omega)]
  have hfrom : ∀ f k c, walkFrom N (tw ++ extra) pick f k c = walkFrom N tw pick f k c := by
    intro f
    induction f with
    | zero => intro k c; rfl
    | succ f ih =>
      intro k c
      unfold walkFrom
      by_cases hk : k < N
      · simp only [hk, if_true, hnext k c hk, ih]
      · simp only [hk, if_false]
  have hrow : ∀ c, walkRow N (tw ++ extra) pick c = walkRow N tw pick c := by
    intro c; unfold walkRow; rw [hfrom]
  unfold walkRep
  induction ns generalizing c with
  | zero => rfl
  | succ ns ih =>
    simp only [List.replicate_succ, walkRows, hrow]
    cases walkRow N tw pick c with
    | none => rfl
    | some p => simp only [ih]

/-- what `RecurrencePlot.twin_surrogates` guarantees for one surrogate trajectory `traj`: an index path
`l` of length `N` through original states, every step allowed w.r.t. the twins of the object's
recurrence matrix, and `traj[i] = embedding[l[i]]` -/
def TrajSpec (N md : Nat) (R : List (List Bool)) (emb traj : List (List Rat)) : Prop :=
  ∃ l, l.length = N ∧ (∀ k ∈ l, k < N) ∧
    (∀ i a b, l[i]? = some a → l[i+1]? = some b →
      Succ N (twinLists N md (isTwin R (rowCounts R))) a b) ∧
    gather emb l = some traj

theorem rpTwinSurrogates_spec {pick : Nat → Nat → Nat} (hp : GoodPick pick) (md ns : Nat)
    (R : List (List Bool)) (emb : List (List Rat)) (hR : R.length = emb.length) :
    ∃ out, rpTwinSurrogates md ns R emb pick = some out ∧ out.length = ns ∧
      ∀ traj ∈ out, TrajSpec emb.length md R emb traj := by
  unfold rpTwinSurrogates rpTwins twinsR
  rw [hR, walkRep_append _ _ _ _ _ _ (twinLists_length _ _ _)]
  obtain ⟨ls, c', hw, hlen, hall⟩ :=
    walkRep_spec hp (twinLists_wf emb.length md (isTwin R (rowCounts R))) ns 0
  rw [hw]
  simp only
  obtain ⟨out, hout, holen, _⟩ := mapM_option_spec (gather emb) ls (fun l hl =>
    gather_isSome_of_lt emb l (hall l hl).2.1)
  refine ⟨out, hout, by omega, ?_⟩
  intro traj htraj
  obtain ⟨l, hl, hg⟩ := mapM_option_mem _ _ _ hout traj htraj
  obtain ⟨h1, h2, h3⟩ := hall l hl
  exact ⟨l, h1, h2, h3, hg⟩

/-! ### a `Surrogates` object over a history of calls -/

/-- invariant of the objects reachable under the code's policy: rows of the data have length `n`;
no cache entry is newer than the mutation counter; an entry made under the current counter holds the
twins of the embedding stored now -/
def SObj.Inv (n : Nat) (o : SObj) : Prop :=
  (∀ r ∈ o.data, r.length = n) ∧
  (∀ kv ∈ o.cache, kv.1.1 ≤ o.mutEmb) ∧
  (∀ kv ∈ o.cache, kv.1.1 = o.mutEmb →
    ∃ e, o.emb = some e ∧ kv.2 = e.map (twinsS kv.1.2.2.1 kv.1.2.2.2))

/-- admissible calls: normalisation keeps the row length, draws are in range -/
def Op.Ok (n : Nat) : Op → Prop
  | .normalize d => ∀ r ∈ d, r.length = n
  | .twinSurr _ _ _ _ pick => GoodPick pick
  | _ => True

theorem inv_fresh (data : List (List Rat)) (n : Nat) (h : ∀ r ∈ data, r.length = n) :
    (SObj.fresh data).Inv n := by
  refine ⟨h, ?_, ?_⟩ <;> intro kv hkv <;> simp [SObj.fresh] at hkv

theorem lookup_mem {κ β : Type} [BEq κ] [LawfulBEq κ] (l : List (κ × β)) (k : κ) (v : β)
    (h : l.lookup k = some v) : (k, v) ∈ l := by
  induction l with
  | nil => simp at h
  | cons kv l ih =>
    obtain ⟨k', v'⟩ := kv
    rw [List.lookup_cons] at h
    by_cases hk : (k == k') = true
    · simp only [hk] at h
      cases h
      have := eq_of_beq hk
      subst this
      exact List.mem_cons_self
    · have : (k == k') = false := by simpa using hk
      simp only [this] at h
      exact List.mem_cons_of_mem _ (ih h)

theorem lookup_none {κ β : Type} [BEq κ] [LawfulBEq κ] (l : List (κ × β)) (k : κ)
    (h : ∀ kv ∈ l, kv.1 ≠ k) : l.lookup k = none := by
  induction l with
  | nil => rfl
  | cons kv l ih =>
    obtain ⟨k', v'⟩ := kv
    rw [List.lookup_cons]
    have hne : (k == k') = false := by
      have := h (k', v') List.mem_cons_self
      simp only [ne_eq] at this
      simpa using fun e : k = k' => this e.symm
    simp only [hne]
    exact ih (fun kv hkv => h kv (List.mem_cons_of_mem _ hkv))

theorem inv_setEmbedding (n : Nat) (o : SObj) (e : List (List (List Rat))) (hi : o.Inv n) :
    (o.setEmbedding e).Inv n := by
  obtain ⟨h1, h2, _⟩ := hi
  refine ⟨h1, ?_, ?_⟩
  · intro kv hkv
    have := h2 kv hkv
    simp only [SObj.setEmbedding]
    omega
  · intro kv hkv heq
    have := h2 kv hkv
    simp only [SObj.setEmbedding] at heq
    omega

theorem key_code (o : SObj) (thr : Rat) (md : Nat) :
    o.key Policy.code thr md = (o.mutEmb, o.normalized, thr, md) := rfl

theorem inv_twinsCall (n : Nat) (o : SObj) (thr : Rat) (md : Nat) (hi : o.Inv n) :
    (o.twinsCall Policy.code thr md).2.Inv n := by
  unfold SObj.twinsCall
  cases hl : o.cache.lookup (o.key Policy.code thr md) with
  | some v => exact hi
  | none =>
    cases he : o.emb with
    | none => exact hi
    | some e =>
      obtain ⟨h1, h2, h3⟩ := hi
      refine ⟨h1, ?_, ?_⟩
      · intro kv hkv
        simp only [List.mem_cons] at hkv
        rcases hkv with rfl | hkv
        · simp [key_code]
        · exact h2 kv hkv
      · intro kv hkv heq
        simp only [List.mem_cons] at hkv
        rcases hkv with rfl | hkv
        · exact ⟨e, rfl, by simp [key_code]⟩
        · obtain ⟨e', he', hv⟩ := h3 kv hkv heq
          rw [he] at he'
          exact ⟨e', he', hv⟩

/-- cache coherence: `twins()` returns the twins of the embedding the object holds *now* -/
theorem twinsCall_of_inv (n : Nat) (o : SObj) (thr : Rat) (md : Nat) (e : List (List (List Rat)))
    (hi : o.Inv n) (he : o.emb = some e) :
    (o.twinsCall Policy.code thr md).1 = some (e.map (twinsS thr md)) := by
  unfold SObj.twinsCall
  cases hl : o.cache.lookup (o.key Policy.code thr md) with
  | some v =>
    have hmem := lookup_mem _ _ _ hl
    obtain ⟨e', he', hv⟩ := hi.2.2 _ hmem (by simp [key_code])
    rw [he] at he'
    cases he'
    simp only [key_code] at hv
    simp [hv]
  | none => simp [he]

theorem twinSurr_code (o : SObj) (dim delay : Nat) (thr : Rat) (md : Nat)
    (pick : Nat → Nat → Nat) :
    o.twinSurr Policy.code dim delay thr md pick =
      match o.data.mapM (embed · dim delay) with
      | none => (none, o)
      | some embs =>
        match (o.setEmbedding embs).twinsCall Policy.code thr md with
        | (none, o2) => (none, o2)
        | (some tw, o2) =>
          match walkRows ((o.data.headD []).length - (dim - 1) * delay) pick tw 0 with
          | none => (none, o2)
          | some (idx, _) => (rowsM gather o.data idx, o2) := by
  unfold SObj.twinSurr
  simp only [Policy.code, if_true]
  cases o.data.mapM (embed · dim delay) <;> rfl

theorem inv_twinSurr (n : Nat) (o : SObj) (dim delay : Nat) (thr : Rat) (md : Nat)
    (pick : Nat → Nat → Nat) (hi : o.Inv n) :
    (o.twinSurr Policy.code dim delay thr md pick).2.Inv n := by
  rw [twinSurr_code]
  cases hE : o.data.mapM (embed · dim delay) with
  | none => exact hi
  | some embs =>
    simp only
    have h2 := inv_twinsCall n _ thr md (inv_setEmbedding n o embs hi)
    generalize (o.setEmbedding embs).twinsCall Policy.code thr md = r at h2
    obtain ⟨r1, r2⟩ := r
    cases r1 with
    | none => exact h2
    | some tw =>
      simp only
      cases walkRows ((o.data.headD []).length - (dim - 1) * delay) pick tw 0 with
      | none => exact h2
      | some p => exact h2

theorem inv_step (n : Nat) (o : SObj) (op : Op) (hi : o.Inv n) (ho : op.Ok n) :
    (o.step Policy.code op).2.Inv n := by
  cases op with
  | normalize d =>
    obtain ⟨_, h2, h3⟩ := hi
    exact ⟨ho, h2, h3⟩
  | setEmbedding e => exact inv_setEmbedding n o e hi
  | twins thr md => exact inv_twinsCall n o thr md hi
  | twinSurr dim delay thr md pick => exact inv_twinSurr n o dim delay thr md pick hi

theorem inv_run (n : Nat) (o : SObj) (ops : List Op) (hi : o.Inv n) (ho : ∀ op ∈ ops, op.Ok n) :
    (SObj.run Policy.code o ops).2.Inv n := by
  induction ops generalizing o with
  | nil => exact hi
  | cons op rest ih =>
    simp only [SObj.run]
    exact ih _ (inv_step n o op hi (ho op List.mem_cons_self))
      (fun op' h' => ho op' (List.mem_cons_of_mem _ h'))

/-- on a reachable object `twin_surrogates` is the stateless method applied to the data held now -/
theorem twinSurr_eq_of_inv (n : Nat) (o : SObj) (dim delay : Nat) (thr : Rat) (md : Nat)
    (pick : Nat → Nat → Nat) (hi : o.Inv n) :
    (o.twinSurr Policy.code dim delay thr md pick).1 = twinSurrogates o.data dim delay thr md pick := by
  rw [twinSurr_code]
  unfold twinSurrogates
  cases hE : o.data.mapM (embed · dim delay) with
  | none => rfl
  | some embs =>
    simp only
    have hmiss : (o.setEmbedding embs).cache.lookup ((o.setEmbedding embs).key Policy.code thr md)
        = none := by
      apply lookup_none
      intro kv hkv hk
      have := hi.2.1 kv hkv
      rw [key_code] at hk
      have : kv.1.1 = o.mutEmb + 1 := by rw [hk]; rfl
      omega
    have hcall : (o.setEmbedding embs).twinsCall Policy.code thr md
        = (some (embs.map (twinsS thr md)),
            { o.setEmbedding embs with cache :=
                ((o.setEmbedding embs).key Policy.code thr md, embs.map (twinsS thr md))
                  :: (o.setEmbedding embs).cache }) := by
      unfold SObj.twinsCall
      rw [hmiss]
      rfl
    rw [hcall]
    simp only
    cases walkRows ((o.data.headD []).length - (dim - 1) * delay) pick (embs.map (twinsS thr md)) 0 with
    | none => rfl
    | some p => rfl

theorem twinSurr_after_history {pick : Nat → Nat → Nat} (hp : GoodPick pick) (n dim delay : Nat)
    (thr : Rat) (md : Nat) (hd : 1 ≤ dim) (hfit : (dim - 1) * delay ≤ n)
    (data : List (List Rat)) (hrows : ∀ r ∈ data, r.length = n)
    (ops : List Op) (hops : ∀ op ∈ ops, op.Ok n) :
    ∃ out, ((SObj.run Policy.code (SObj.fresh data) ops).2.twinSurr Policy.code dim delay thr md pick).1
        = some out ∧
      List.Forall₂ (RowSpec (n - (dim - 1) * delay) dim delay thr md) out
        (SObj.run Policy.code (SObj.fresh data) ops).2.data := by
  have hi := inv_run n _ ops (inv_fresh data n hrows) hops
  rw [twinSurr_eq_of_inv n _ dim delay thr md pick hi]
  exact twinSurrogates_spec hp n dim delay thr md hd hfit _ hi.1

end Pyunicorn.Surrogates
