import Pyunicorn.Model.LineIdx
/-! Lemmas for the subscript model of `_line_dist` (C20, round 4).  Core Lean only. -/
namespace Pyunicorn.LineIdx
open Pyunicorn.Generated.StructC20Py

/-- the subscript lies inside buffers of the sizes the callers pass: `R` is `n × n`, `M` and `hist`
have `n` entries, `E` is `n × dim`; `R` is only subscripted when `dim = 0`, `E` only when
`dim ≠ 0`, `M` only with missing-value handling -/
def Ev.within (mv : Bool) (n dim : Int) : Ev → Prop
  | .R I j => dim = 0 ∧ 0 ≤ I ∧ I < n ∧ 0 ≤ j ∧ j < n
  | .M i => mv = true ∧ 0 ≤ i ∧ i < n
  | .E r c => dim ≠ 0 ∧ 0 ≤ r ∧ r < n ∧ 0 ≤ c ∧ c < dim
  | .H i => 0 ≤ i ∧ i < n

/-- loop invariant of the inner loop after `c` iterations: the line length is between 0 and `c`,
a raised missing-value flag means no line is being followed, and without missing-value handling the
flag is never raised -/
def Inv (mv : Bool) (s : St) (c : Int) : Prop :=
  0 ≤ s.k ∧ s.k ≤ c ∧ (s.flag = true → s.k = 0) ∧ (mv = false → s.flag = false)

theorem mem_ints {n x : Int} : x ∈ ints n ↔ 0 ≤ x ∧ x < n := by
  unfold ints
  simp only [List.mem_map, List.mem_range]
  constructor
  · rintro ⟨a, ha, rfl⟩; omega
  · rintro ⟨h0, h1⟩
    exact ⟨x.toNat, by omega, by omega⟩

theorem length_ints (n : Int) : ((ints n).length : Int) = if 0 ≤ n then n else 0 := by
  unfold ints
  simp only [List.length_map, List.length_range]
  split <;> omega

theorem pointEvents_within {mv : Bool} {n dim I j : Int} (hI0 : 0 ≤ I) (hI : I < n) (hj0 : 0 ≤ j)
    (hj : j < n) : ∀ e ∈ pointEvents dim I j, e.within mv n dim := by
  unfold pointEvents
  split
  · rename_i hd
    intro e he
    simp only [List.mem_singleton] at he
    subst he
    exact ⟨hd, hI0, hI, hj0, hj⟩
  · rename_i hd
    intro e he
    simp only [List.mem_flatMap, List.mem_range, List.mem_cons, List.not_mem_nil, or_false] at he
    obtain ⟨l, hl, rfl | rfl⟩ := he
    · exact ⟨hd, hI0, hI, by omega, by omega⟩
    · exact ⟨hd, hj0, hj, by omega, by omega⟩

theorem count_spec {n dim : Int} (mv ln : Bool) (s : St) (c : Int) (hinv : Inv mv s c) (hc : c ≤ n)
    (hf : s.flag = false) :
    (∀ e ∈ (count ln s).1, e.within mv n dim) ∧ Inv mv (count ln s).2 (c + 1)
      ∧ (count ln s).2.flag = false := by
  obtain ⟨h0, h1, h2, h3⟩ := hinv
  unfold count
  split
  · refine ⟨by simp, ⟨by simp; omega, by simp; omega, by simp [hf], by simp [hf]⟩, by simp [hf]⟩
  · split
    · refine ⟨?_, ⟨by simp, by simp; omega, by simp, by simp [hf]⟩, by simp [hf]⟩
      intro e he
      simp only [List.mem_singleton] at he
      subst he
      simp only [Ev.within, ld_hist_idx]
      omega
    · dsimp only
      exact ⟨by simp, ⟨h0, by omega, h2, h3⟩, hf⟩

theorem step_spec {n dim : Int} (mv : Bool) (line : Int → Int → Bool) (miss : Int → Bool)
    (I j : Int) (s : St) (c : Int) (hinv : Inv mv s c) (hc : c ≤ n)
    (hI0 : 0 ≤ I) (hI : I < n) (hj0 : 0 ≤ j) (hj : j < n) :
    (∀ e ∈ (step mv dim line miss I j s).1, e.within mv n dim)
      ∧ Inv mv (step mv dim line miss I j s).2 (c + 1) := by
  have hp := pointEvents_within (mv := mv) (dim := dim) hI0 hI hj0 hj
  obtain ⟨h0, h1, h2, h3⟩ := hinv
  unfold step
  cases mv with
  | false =>
    have hf : s.flag = false := h3 rfl
    obtain ⟨a, b, _⟩ := count_spec (n := n) (dim := dim) false (line I j) s c ⟨h0, h1, h2, h3⟩ hc hf
    simp only [Bool.false_eq_true, if_false]
    refine ⟨?_, b⟩
    intro e he
    simp only [List.mem_append] at he
    rcases he with he | he
    · exact hp e he
    · exact a e he
  | true =>
    simp only [if_true]
    have hM : ∀ e ∈ (if miss I then [Ev.M I] else [Ev.M I, Ev.M j]), e.within true n dim := by
      intro e he
      split at he
      · simp only [List.mem_singleton] at he; subst he; exact ⟨rfl, hI0, hI⟩
      · simp only [List.mem_cons, List.not_mem_nil, or_false] at he
        rcases he with rfl | rfl
        · exact ⟨rfl, hI0, hI⟩
        · exact ⟨rfl, hj0, hj⟩
    -- the state after the missing-value test
    generalize hs1 : (if (miss I || miss j) = true then (⟨0, true⟩ : St)
        else if (s.flag && !line I j) = true then ⟨s.k, false⟩ else s) = s1
    have hinv1 : Inv true s1 c := by
      subst hs1
      split
      · exact ⟨by simp, by simp; omega, by simp, by simp⟩
      · split
        · exact ⟨h0, h1, by simp, by simp⟩
        · exact ⟨h0, h1, h2, h3⟩
    split
    · rename_i hfl
      dsimp only
      refine ⟨?_, ?_⟩
      · intro e he
        simp only [List.mem_append] at he
        rcases he with he | he
        · exact hp e he
        · exact hM e he
      · obtain ⟨a0, a1, a2, a3⟩ := hinv1
        exact ⟨a0, by omega, a2, a3⟩
    · rename_i hfl
      have hf : s1.flag = false := by simpa using hfl
      obtain ⟨a, b, _⟩ := count_spec (n := n) (dim := dim) true (line I j) s1 c hinv1 hc hf
      refine ⟨?_, b⟩
      intro e he
      simp only [List.mem_append] at he
      rcases he with (he | he) | he
      · exact hp e he
      · exact hM e he
      · exact a e he

/-- the inner loop: from the invariant at `c`, over `js` (all inside the geometry), with room for
`js.length` further iterations -/
theorem inner_spec {n dim : Int} (mv : Bool) (line : Int → Int → Bool) (miss : Int → Bool)
    (Iof : Int → Int) (js : List Int) :
    ∀ (s : St) (c : Int), Inv mv s c → c + js.length ≤ n →
      (∀ j ∈ js, 0 ≤ Iof j ∧ Iof j < n ∧ 0 ≤ j ∧ j < n) →
      (∀ e ∈ (rowGo (fun j s => step mv dim line miss (Iof j) j s) js s).1, e.within mv n dim)
        ∧ Inv mv (rowGo (fun j s => step mv dim line miss (Iof j) j s) js s).2 (c + js.length) := by
  induction js with
  | nil =>
    intro s c hinv _ _
    simp only [rowGo, List.not_mem_nil, false_imp_iff, implies_true, List.length_nil, true_and]
    simpa using hinv
  | cons j js ih =>
    intro s c hinv hc hgeo
    obtain ⟨g0, g1, g2, g3⟩ := hgeo j (by simp)
    simp only [List.length_cons] at hc
    obtain ⟨a, b⟩ := step_spec (n := n) (dim := dim) mv line miss (Iof j) j s c hinv (by omega)
      g0 g1 g2 g3
    obtain ⟨a', b'⟩ := ih _ (c + 1) b (by omega) (fun j' hj' => hgeo j' (by simp [hj']))
    simp only [rowGo]
    refine ⟨?_, ?_⟩
    · intro e he
      simp only [List.mem_append] at he
      rcases he with he | he
      · exact a e he
      · exact a' e he
    · simp only [List.length_cons]
      have : c + ((js.length + 1 : Nat) : Int) = c + 1 + (js.length : Int) := by omega
      rw [this]
      exact b'

/-- what the index functions of a wrapper must satisfy (for buffers of `n = n_time` rows): every
row index `I` and column `j` of the inner loop lies in `[0, n)`, and the inner loop has at most
`n` iterations (`0 ≤ n` whenever the outer loop is entered) -/
def Geo (w : LDWrap) (n : Int) : Prop :=
  ∀ i, 0 ≤ i → i < ld_outer (ld_N n w.skip) →
    0 ≤ n ∧ ld_inner w.i2J i (ld_N n w.skip) ≤ n ∧
    ∀ j, 0 ≤ j → j < ld_inner w.i2J i (ld_N n w.skip) →
      0 ≤ ld_I w.ij2I i j (ld_N n w.skip) ∧ ld_I w.ij2I i j (ld_N n w.skip) < n ∧ j < n

theorem rowEnd_spec {n dim : Int} (mv : Bool) (s : St) (c : Int) (hinv : Inv mv s c) (hc : c ≤ n) :
    (∀ e ∈ (rowEnd s).1, e.within mv n dim) ∧ (rowEnd s).2 = ⟨0, false⟩ := by
  obtain ⟨h0, h1, h2, _⟩ := hinv
  unfold rowEnd
  split
  · rename_i h
    refine ⟨?_, rfl⟩
    intro e he
    simp only [List.mem_singleton] at he
    subst he
    simp only [Ev.within, ld_hist_idx]
    omega
  · rename_i h
    refine ⟨by simp, ?_⟩
    have : s.k = 0 := by
      cases hf : s.flag with
      | true => exact h2 hf
      | false =>
        apply Classical.byContradiction
        intro hk
        exact h ⟨hk, hf⟩
    rw [this]

theorem row_spec {n dim : Int} (w : LDWrap) (hgeo : Geo w n) (line : Int → Int → Bool)
    (miss : Int → Bool) (i : Int) (hi0 : 0 ≤ i) (hi : i < ld_outer (ld_N n w.skip)) :
    (∀ e ∈ (row w (ld_N n w.skip) dim line miss i ⟨0, false⟩).1, e.within w.mv n dim)
      ∧ (row w (ld_N n w.skip) dim line miss i ⟨0, false⟩).2 = ⟨0, false⟩ := by
  obtain ⟨hn, hJ, hg⟩ := hgeo i hi0 hi
  have hlen := length_ints (ld_inner w.i2J i (ld_N n w.skip))
  have hinv0 : Inv w.mv ⟨0, false⟩ 0 := ⟨by simp, by simp, by simp, by simp⟩
  obtain ⟨a, b⟩ := inner_spec (n := n) (dim := dim) w.mv line miss
    (fun j => ld_I w.ij2I i j (ld_N n w.skip)) (ints (ld_inner w.i2J i (ld_N n w.skip)))
    ⟨0, false⟩ 0 hinv0 (by rw [hlen]; split <;> omega)
    (fun j hj => by
      obtain ⟨j0, j1⟩ := mem_ints.mp hj
      obtain ⟨g0, g1, g2⟩ := hg j j0 j1
      exact ⟨g0, g1, j0, g2⟩)
  obtain ⟨a', b'⟩ := rowEnd_spec (n := n) (dim := dim) w.mv _ _ b (by rw [hlen]; split <;> omega)
  unfold row
  refine ⟨?_, b'⟩
  intro e he
  simp only [List.mem_append] at he
  rcases he with he | he
  · exact a e he
  · exact a' e he

theorem outer_spec {n dim : Int} (w : LDWrap) (hgeo : Geo w n) (line : Int → Int → Bool)
    (miss : Int → Bool) (is : List Int)
    (his : ∀ i ∈ is, 0 ≤ i ∧ i < ld_outer (ld_N n w.skip)) :
    (∀ e ∈ (rowGo (fun i s => row w (ld_N n w.skip) dim line miss i s) is ⟨0, false⟩).1,
        e.within w.mv n dim)
      ∧ (rowGo (fun i s => row w (ld_N n w.skip) dim line miss i s) is ⟨0, false⟩).2 = ⟨0, false⟩ := by
  induction is with
  | nil => simp [rowGo]
  | cons i is ih =>
    obtain ⟨i0, i1⟩ := his i (by simp)
    obtain ⟨a, b⟩ := row_spec (n := n) (dim := dim) w hgeo line miss i i0 i1
    obtain ⟨a', b'⟩ := ih (fun i' hi' => his i' (by simp [hi']))
    simp only [rowGo]
    rw [b]
    refine ⟨?_, b'⟩
    intro e he
    simp only [List.mem_append] at he
    rcases he with he | he
    · exact a e he
    · exact a' e he

end Pyunicorn.LineIdx
