import Pyunicorn.Lemmas.EventsFl

/-!
# C16 round 5 — power-of-two changes of the time unit commute with IEEE rounding

`rn53s (2^j · x) = 2^j · rn53s x` for every rational `x` and integer `j` (the model has no under- /
overflow).  Hence the *rounded* path of `event_synchronization` (`esR rn53s`) returns bit-identical
values when every time stamp, the lag and the window are multiplied by `2^j` — for **all** doubles,
not only lattice data (`esR_scale`, `esR_pow2`).
-/

namespace Pyunicorn.Events
open Pyunicorn.Similarity

/-- the binary exponent is not too small: `x < 2^(e+1)` -/
theorem lt_twoPow_binExp_succ (x : ℚ) (hx : 0 < x) : x < twoPow (binExp x + 1) := by
  unfold binExp
  simp only
  split
  · have hn : 0 < x.num := Rat.num_pos.2 hx
    have hd : x.den ≠ 0 := x.den_nz
    have a1 : x.num.toNat < 2 ^ (Nat.log2 x.num.toNat + 1) := Nat.lt_log2_self
    have a2 : 2 ^ (Nat.log2 x.den) ≤ x.den := Nat.log2_self_le hd
    have a1q : (x.num : ℚ) < (2 : ℚ) ^ (Nat.log2 x.num.toNat + 1) := by
      have : ((x.num.toNat : Nat) : ℚ) < ((2 ^ (Nat.log2 x.num.toNat + 1) : Nat) : ℚ) := by
        exact_mod_cast a1
      have e : ((x.num.toNat : Nat) : ℚ) = (x.num : ℚ) := by
        have : ((x.num.toNat : Nat) : Int) = x.num := Int.toNat_of_nonneg (le_of_lt hn)
        exact_mod_cast congrArg (fun z : Int => (z : ℚ)) this
      rw [e] at this
      simpa using this
    have a2q : (2 : ℚ) ^ (Nat.log2 x.den) ≤ (x.den : ℚ) := by
      have : ((2 ^ (Nat.log2 x.den) : Nat) : ℚ) ≤ ((x.den : Nat) : ℚ) := by exact_mod_cast a2
      simpa using this
    rw [twoPow_eq_zpow]
    have hdq : (0 : ℚ) < (x.den : ℚ) := by exact_mod_cast Nat.pos_of_ne_zero hd
    have hx' : x = (x.num : ℚ) / (x.den : ℚ) := (Rat.num_div_den x).symm
    have e1 : ((Nat.log2 x.num.toNat : Int) - (Nat.log2 x.den : Int) + 1)
        = ((Nat.log2 x.num.toNat + 1 : Nat) : Int) - ((Nat.log2 x.den : Nat) : Int) := by
      push_cast; ring
    rw [e1, zpow_sub₀ (by norm_num : (2 : ℚ) ≠ 0), zpow_natCast, zpow_natCast]
    conv_lhs => rw [hx']
    have hp : (0 : ℚ) < (2 : ℚ) ^ (Nat.log2 x.den) := by positivity
    rw [div_lt_div_iff₀ hdq hp]
    have hnq : (0 : ℚ) < (x.num : ℚ) := by exact_mod_cast hn
    calc (x.num : ℚ) * (2 : ℚ) ^ (Nat.log2 x.den)
        ≤ (x.num : ℚ) * (x.den : ℚ) := mul_le_mul_of_nonneg_left a2q (le_of_lt hnq)
      _ < (2 : ℚ) ^ (Nat.log2 x.num.toNat + 1) * (x.den : ℚ) :=
          mul_lt_mul_of_pos_right a1q hdq
  · rename_i h
    rw [sub_add_cancel]
    exact lt_of_not_ge h

/-- the binary exponent is determined by `2^e ≤ x < 2^(e+1)` -/
theorem binExp_unique (x : ℚ) (hx : 0 < x) (e : ℤ) (h1 : (2 : ℚ) ^ e ≤ x) (h2 : x < (2 : ℚ) ^ (e + 1)) :
    binExp x = e := by
  have b1 := twoPow_binExp_le x hx
  have b2 := lt_twoPow_binExp_succ x hx
  rw [twoPow_eq_zpow] at b1 b2
  by_contra hne
  rcases lt_or_gt_of_ne hne with h | h
  · have : (2 : ℚ) ^ (binExp x + 1) ≤ (2 : ℚ) ^ e := zpow_le_zpow_right₀ (by norm_num) (by omega)
    linarith
  · have : (2 : ℚ) ^ (e + 1) ≤ (2 : ℚ) ^ (binExp x) := zpow_le_zpow_right₀ (by norm_num) (by omega)
    linarith

theorem binExp_scale (x : ℚ) (hx : 0 < x) (j : ℤ) : binExp ((2 : ℚ) ^ j * x) = binExp x + j := by
  have hj : (0 : ℚ) < (2 : ℚ) ^ j := by positivity
  have b1 := twoPow_binExp_le x hx
  have b2 := lt_twoPow_binExp_succ x hx
  rw [twoPow_eq_zpow] at b1 b2
  apply binExp_unique _ (mul_pos hj hx)
  · rw [add_comm, zpow_add₀ (by norm_num)]
    exact mul_le_mul_of_nonneg_left b1 (le_of_lt hj)
  · have : binExp x + j + 1 = j + (binExp x + 1) := by ring
    rw [this, zpow_add₀ (by norm_num)]
    exact mul_lt_mul_of_pos_left b2 hj

theorem rn53_scale (x : ℚ) (j : ℤ) : rn53 ((2 : ℚ) ^ j * x) = (2 : ℚ) ^ j * rn53 x := by
  have hj : (0 : ℚ) < (2 : ℚ) ^ j := by positivity
  unfold rn53
  by_cases hx : x ≤ 0
  · have : (2 : ℚ) ^ j * x ≤ 0 := mul_nonpos_of_nonneg_of_nonpos (le_of_lt hj) hx
    rw [if_pos hx, if_pos this, mul_zero]
  · have hx0 : 0 < x := lt_of_not_ge hx
    have : ¬ ((2 : ℚ) ^ j * x ≤ 0) := not_le.2 (mul_pos hj hx0)
    rw [if_neg hx, if_neg this]
    simp only
    rw [binExp_scale x hx0 j, twoPow_eq_zpow, twoPow_eq_zpow]
    have e : binExp x + j - 52 = j + (binExp x - 52) := by ring
    rw [e, zpow_add₀ (by norm_num)]
    have hu : (0 : ℚ) < (2 : ℚ) ^ (binExp x - 52) := by positivity
    have : (2 : ℚ) ^ j * x / ((2 : ℚ) ^ j * (2 : ℚ) ^ (binExp x - 52))
        = x / (2 : ℚ) ^ (binExp x - 52) := by field_simp
    rw [this]
    ring

/-- **IEEE rounding commutes with a power-of-two change of unit** -/
theorem rn53s_scale (x : ℚ) (j : ℤ) : rn53s ((2 : ℚ) ^ j * x) = (2 : ℚ) ^ j * rn53s x := by
  have hj : (0 : ℚ) < (2 : ℚ) ^ j := by positivity
  unfold rn53s
  by_cases hx : x < 0
  · have : (2 : ℚ) ^ j * x < 0 := mul_neg_of_pos_of_neg hj hx
    rw [if_pos hx, if_pos this]
    have e : -((2 : ℚ) ^ j * x) = (2 : ℚ) ^ j * (-x) := by ring
    rw [e, rn53_scale]
    ring
  · have : ¬ ((2 : ℚ) ^ j * x < 0) := not_lt.2 (mul_nonneg (le_of_lt hj) (not_lt.1 hx))
    rw [if_neg hx, if_neg this, rn53_scale]

/-! ### the rounded path under a change of unit with which `fl` commutes -/

/-- an inner event with time and gap multiplied by `k` -/
def scEv (k : ℚ) (e : Ev) : Ev := (k * e.1, k * e.2)

section scale
variable (fl : ℚ → ℚ) (k : ℚ) (hk : 0 < k) (hfl : ∀ x, fl (k * x) = k * fl x)

include hfl in
theorem diffR_scale (l : List ℚ) : diffR fl (l.map (k * ·)) = (diffR fl l).map (k * ·) := by
  unfold diffR
  rw [← List.map_drop, List.zipWith_map, List.map_zipWith]
  congr 1
  funext a b
  rw [← hfl]
  congr 1
  ring

include hk hfl in
theorem minGapsR_scale (l : List ℚ) :
    minGapsR fl (l.map (k * ·)) = (minGapsR fl l).map (k * ·) := by
  unfold minGapsR
  rw [diffR_scale fl k hfl, ← List.map_drop, ← List.map_dropLast, List.zipWith_map,
    List.map_zipWith]
  congr 1
  funext a b
  exact min_mul_left k a b hk

include hk hfl in
theorem innerEventsR_scale (l : List ℚ) :
    innerEventsR fl (l.map (k * ·)) = (innerEventsR fl l).map (scEv k) := by
  unfold innerEventsR inner
  rw [minGapsR_scale fl k hk hfl, ← List.map_drop, ← List.map_dropLast, List.zip_map]
  rfl

include hfl in
theorem dst2R_scale (p q : Ev) : dst2R fl (scEv k p) (scEv k q) = k * dst2R fl p q := by
  simp only [dst2R, scEv]
  have e : k * p.1 - k * q.1 = k * (p.1 - q.1) := by ring
  rw [e, hfl]
  ring

include hk in
theorem tau2_scale (tm : Option ℚ) (p q : Ev) :
    tau2 (tm.map (k * ·)) (scEv k p) (scEv k q) = k * tau2 tm p q := by
  simp only [tau2, scEv]
  rw [min_mul_left k _ _ hk, capTau_aff k hk]

include hk hfl in
theorem axyR_scale (tm : Option ℚ) (p q : Ev) :
    axyR fl (tm.map (k * ·)) (scEv k p) (scEv k q) = axyR fl tm p q := by
  simp only [axyR, dst2R_scale fl k hfl, tau2_scale k hk]
  have h1 : 0 < k * dst2R fl p q ↔ 0 < dst2R fl p q := by
    constructor
    · intro h; by_contra hc; nlinarith
    · intro h; exact mul_pos hk h
  have h2 : k * dst2R fl p q ≤ k * tau2 tm p q ↔ dst2R fl p q ≤ tau2 tm p q := by
    constructor
    · intro h; exact le_of_mul_le_mul_left h hk
    · intro h; exact mul_le_mul_of_nonneg_left h (le_of_lt hk)
  simp only [h1, h2]

include hk hfl in
theorem ayxR_scale (tm : Option ℚ) (p q : Ev) :
    ayxR fl (tm.map (k * ·)) (scEv k p) (scEv k q) = ayxR fl tm p q := by
  simp only [ayxR, dst2R_scale fl k hfl, tau2_scale k hk]
  have h1 : k * dst2R fl p q < 0 ↔ dst2R fl p q < 0 := by
    constructor
    · intro h; by_contra hc; nlinarith
    · intro h; exact mul_neg_of_pos_of_neg hk h
  have h2 : -(k * tau2 tm p q) ≤ k * dst2R fl p q ↔ -(tau2 tm p q) ≤ dst2R fl p q := by
    rw [← mul_neg]
    constructor
    · intro h; exact le_of_mul_le_mul_left h hk
    · intro h; exact mul_le_mul_of_nonneg_left h (le_of_lt hk)
  simp only [h1, h2]

include hk hfl in
theorem eqtR_scale (p q : Ev) : eqtR fl (scEv k p) (scEv k q) = eqtR fl p q := by
  simp only [eqtR, dst2R_scale fl k hfl]
  have h : k * dst2R fl p q = 0 ↔ dst2R fl p q = 0 := by
    constructor
    · intro h
      rcases mul_eq_zero.1 h with h | h
      · exact absurd h (ne_of_gt hk)
      · exact h
    · intro h; rw [h, mul_zero]
  simp only [h]

include hk hfl in
theorem countXYR_scale (tm : Option ℚ) (xs ys : List Ev) :
    countXYR fl (tm.map (k * ·)) (xs.map (scEv k)) (ys.map (scEv k)) = countXYR fl tm xs ys := by
  unfold countXYR dblxyR
  rw [count2_map (scEv k) (axyR fl tm) _ xs ys (axyR_scale fl k hk hfl tm),
    count2_map (scEv k) (eqtR fl) _ xs ys (eqtR_scale fl k hk hfl)]
  congr 3
  apply count2_map
  intro p q
  simp only [List.any_map, Function.comp_def, axyR_scale fl k hk hfl, ayxR_scale fl k hk hfl]

include hk hfl in
theorem countYXR_scale (tm : Option ℚ) (xs ys : List Ev) :
    countYXR fl (tm.map (k * ·)) (xs.map (scEv k)) (ys.map (scEv k)) = countYXR fl tm xs ys := by
  unfold countYXR dblyxR
  rw [count2_map (scEv k) (ayxR fl tm) _ xs ys (ayxR_scale fl k hk hfl tm),
    count2_map (scEv k) (eqtR fl) _ xs ys (eqtR_scale fl k hk hfl)]
  congr 3
  apply count2_map
  intro p q
  simp only [List.any_map, Function.comp_def, axyR_scale fl k hk hfl, ayxR_scale fl k hk hfl]

include hk hfl in
/-- **change of the time unit on the rounded path**: if `fl` commutes with the multiplication by
`k > 0`, multiplying all event times, the lag and the window by `k` leaves guards, counts and norm
unchanged -/
theorem esR_scale (ex ey : List ℚ) (tm : Option ℚ) (lag : ℚ) :
    esR fl (ex.map (k * ·)) (ey.map (k * ·)) (tm.map (k * ·)) (k * lag) = esR fl ex ey tm lag := by
  have hy : ((ey.map (k * ·)).map fun t => fl (t + k * lag))
      = (ey.map fun t => fl (t + lag)).map (k * ·) := by
    simp only [List.map_map]
    apply List.map_congr_left
    intro t _
    simp only [Function.comp_def]
    rw [← hfl]
    congr 1
    ring
  unfold esR
  simp only [hy, List.length_map, innerEventsR_scale fl k hk hfl,
    countXYR_scale fl k hk hfl, countYXR_scale fl k hk hfl]

end scale

/-- **power-of-two change of the time unit in IEEE double, for all doubles**: the rounded path
returns the same guards, counts and norm (hence bit-identical strengths) -/
theorem esR_pow2 (j : ℤ) (ex ey : List ℚ) (tm : Option ℚ) (lag : ℚ) :
    esR rn53s (ex.map ((2 : ℚ) ^ j * ·)) (ey.map ((2 : ℚ) ^ j * ·)) (tm.map ((2 : ℚ) ^ j * ·))
      ((2 : ℚ) ^ j * lag) = esR rn53s ex ey tm lag :=
  esR_scale rn53s ((2 : ℚ) ^ j) (by positivity) (fun x => rn53s_scale x j) ex ey tm lag

theorem select_map (f : ℚ → ℚ) (ts : List ℚ) (b : List Bool) :
    select (ts.map f) b = (select ts b).map f := by
  induction ts generalizing b with
  | nil => simp [select]
  | cons t r ih =>
    cases b with
    | nil => simp [select]
    | cons c bs =>
      simp only [List.map_cons, select]
      split
      · simp [ih]
      · exact ih bs

/-! ### exchanging the two series on the rounded path (lag `0`) -/

section swap
variable (fl : ℚ → ℚ) (hodd : ∀ x, fl (-x) = -(fl x))
include hodd

theorem dst2R_swap (p q : Ev) : dst2R fl q p = -(dst2R fl p q) := by
  simp only [dst2R]
  have e : q.1 - p.1 = -(p.1 - q.1) := by ring
  rw [e, hodd]
  ring

theorem axyR_swap (tm : Option ℚ) (p q : Ev) : axyR fl tm q p = ayxR fl tm p q := by
  simp only [axyR, ayxR, dst2R_swap fl hodd p q, tau2_swap tm p q]
  have h1 : 0 < -(dst2R fl p q) ↔ dst2R fl p q < 0 := neg_pos
  have h2 : -(dst2R fl p q) ≤ tau2 tm p q ↔ -(tau2 tm p q) ≤ dst2R fl p q := neg_le
  simp only [h1, h2]

theorem ayxR_swap (tm : Option ℚ) (p q : Ev) : ayxR fl tm q p = axyR fl tm p q := by
  simp only [axyR, ayxR, dst2R_swap fl hodd p q, tau2_swap tm p q]
  have h1 : -(dst2R fl p q) < 0 ↔ 0 < dst2R fl p q := neg_lt_zero
  have h2 : -(tau2 tm p q) ≤ -(dst2R fl p q) ↔ dst2R fl p q ≤ tau2 tm p q := neg_le_neg_iff
  simp only [h1, h2]

theorem eqtR_swap (p q : Ev) : eqtR fl q p = eqtR fl p q := by
  simp only [eqtR, dst2R_swap fl hodd p q, neg_eq_zero]

theorem dblxyR_swap (tm : Option ℚ) (xs ys : List Ev) :
    dblxyR fl tm ys xs = dblyxR fl tm xs ys := by
  unfold dblxyR dblyxR
  rw [← count2_swap]
  apply count2_congr
  intro p q
  have h1 : (fun q' => ayxR fl tm q q') = (fun p' => axyR fl tm p' q) := by
    funext x; exact ayxR_swap fl hodd tm x q
  have h2 : (fun p' => ayxR fl tm p' p) = (fun q' => axyR fl tm p q') := by
    funext x; exact ayxR_swap fl hodd tm p x
  rw [axyR_swap fl hodd tm p q, h1, h2, Bool.or_comm]

theorem dblyxR_swap (tm : Option ℚ) (xs ys : List Ev) :
    dblyxR fl tm ys xs = dblxyR fl tm xs ys := by
  unfold dblxyR dblyxR
  rw [← count2_swap]
  apply count2_congr
  intro p q
  have h1 : (fun q' => axyR fl tm q q') = (fun p' => ayxR fl tm p' q) := by
    funext x; exact axyR_swap fl hodd tm x q
  have h2 : (fun p' => axyR fl tm p' p) = (fun q' => ayxR fl tm p q') := by
    funext x; exact axyR_swap fl hodd tm p x
  rw [ayxR_swap fl hodd tm p q, h1, h2, Bool.or_comm]

theorem countXYR_swap (tm : Option ℚ) (xs ys : List Ev) :
    countXYR fl tm ys xs = countYXR fl tm xs ys := by
  unfold countXYR countYXR
  rw [dblxyR_swap fl hodd, count2_flip (axyR fl tm) (ayxR fl tm) xs ys (axyR_swap fl hodd tm),
    count2_flip (eqtR fl) (eqtR fl) xs ys (eqtR_swap fl hodd)]

theorem countYXR_swap (tm : Option ℚ) (xs ys : List Ev) :
    countYXR fl tm ys xs = countXYR fl tm xs ys := by
  unfold countXYR countYXR
  rw [dblyxR_swap fl hodd, count2_flip (ayxR fl tm) (axyR fl tm) xs ys (ayxR_swap fl hodd tm),
    count2_flip (eqtR fl) (eqtR fl) xs ys (eqtR_swap fl hodd)]

/-- **exchange on the rounded path at lag `0`**: for an odd rounding (`fl(-x) = -fl(x)`) that
leaves the event times themselves unchanged (they are doubles), exchanging the series exchanges
the two counts — whatever the subtractions inside round to -/
theorem esR_exchange_lag0 (ex ey : List ℚ) (tm : Option ℚ)
    (hid : ∀ t ∈ ex ++ ey, fl (t + 0) = t) :
    esR fl ey ex tm 0 = match esR fl ex ey tm 0 with
      | .nan => .nan | .zero => .zero | .val a b n => .val b a n := by
  have hx : (ex.map fun t => fl (t + 0)) = ex := by
    conv => rhs; rw [← List.map_id ex]
    exact List.map_congr_left (fun t ht => hid t (List.mem_append_left _ ht))
  have hy : (ey.map fun t => fl (t + 0)) = ey := by
    conv => rhs; rw [← List.map_id ey]
    exact List.map_congr_left (fun t ht => hid t (List.mem_append_right _ ht))
  unfold esR
  simp only [hx, hy]
  by_cases h1 : ex.length = 0 ∨ ey.length = 0
  · have h1' : ey.length = 0 ∨ ex.length = 0 := h1.symm
    rw [if_pos h1, if_pos h1']
  · have h1' : ¬(ey.length = 0 ∨ ex.length = 0) := fun h => h1 h.symm
    by_cases h2 : ex.length = 1 ∨ ex.length = 2 ∨ ey.length = 1 ∨ ey.length = 2
    · have h2' : ey.length = 1 ∨ ey.length = 2 ∨ ex.length = 1 ∨ ex.length = 2 := by omega
      rw [if_neg h1, if_neg h1', if_pos h2, if_pos h2']
    · have h2' : ¬(ey.length = 1 ∨ ey.length = 2 ∨ ex.length = 1 ∨ ex.length = 2) := by omega
      rw [if_neg h1, if_neg h1', if_neg h2, if_neg h2']
      show ESRes.val _ _ _ = ESRes.val _ _ _
      congr 1
      · exact countXYR_swap fl hodd tm _ _
      · exact countYXR_swap fl hodd tm _ _
      · exact Nat.mul_comm _ _

end swap

end Pyunicorn.Events
