import Pyunicorn.Lemmas.NsiCompConn
/-!
Round 5c: the component loop with copy-back (`perComponent`) stores at every node the value of the
node's own component (`perNode`) — for every undirected network, every measure `f` of the
sub-networks and every value `single` for isolated nodes.  Until now this was a per-case flag of the
driver (`pernode=1`).

* `copyBack_*`           — `for j, node in enumerate(nodes): result[node] = vals[j]` on a list of
                           distinct nodes inside the result: length kept, entries outside `nodes`
                           kept, entry `node` = `vals[position of node]`
* `compNodes_eq_of_mem`  — components of an undirected network are equivalence classes: the
                           component of a member is the same list
* `compList_overlap`     — two entries of `connected_components()` that share a node are equal
* `compNodes_mem_compList` — the component of every node is an entry (the one of its smallest node)
* `foldComp_spec`        — the fold over any list of node lists in which overlapping entries are
                           equal: every listed node carries the value of its list
* `perComponent_eq_perNode`, `perComponent_none` — the result
-/
namespace Pyunicorn.Nsi

/-! ### lists: `getD` after `set` -/

theorem getD_set_self (l : List Rat) (i : Nat) (x : Rat) (hi : i < l.length) :
    (l.set i x).getD i 0 = x := by
  simp [List.getD_eq_getElem?_getD, hi]

theorem getD_set_other (l : List Rat) (i a : Nat) (x : Rat) (h : i ≠ a) :
    (l.set i x).getD a 0 = l.getD a 0 := by
  simp [List.getD_eq_getElem?_getD, h]

theorem getD_eq_getElem (nodes : List Nat) (i : Nat) (hi : i < nodes.length) :
    nodes.getD i 0 = nodes[i] := by
  simp [List.getD_eq_getElem?_getD, hi]

theorem getD_mem (nodes : List Nat) (i : Nat) (hi : i < nodes.length) : nodes.getD i 0 ∈ nodes := by
  rw [getD_eq_getElem nodes i hi]; exact List.getElem_mem hi

theorem getD_inj (nodes : List Nat) (hnd : nodes.Nodup) (i j : Nat) (hi : i < nodes.length)
    (hj : j < nodes.length) (h : nodes.getD i 0 = nodes.getD j 0) : i = j := by
  rw [getD_eq_getElem nodes i hi, getD_eq_getElem nodes j hj] at h
  exact (List.Nodup.getElem_inj_iff hnd).mp h

/-! ### the copy-back loop -/

/-- the first `m` rounds of the copy-back loop -/
def copyBackUpTo (res : List Rat) (nodes : List Nat) (vals : List Rat) (m : Nat) : List Rat :=
  (List.range m).foldl (fun r j => r.set (nodes.getD j 0) (vals.getD j 0)) res

theorem copyBackUpTo_succ (res : List Rat) (nodes : List Nat) (vals : List Rat) (m : Nat) :
    copyBackUpTo res nodes vals (m + 1)
      = (copyBackUpTo res nodes vals m).set (nodes.getD m 0) (vals.getD m 0) := by
  unfold copyBackUpTo
  rw [List.range_succ, List.foldl_append]
  rfl

theorem copyBackUpTo_spec (res : List Rat) (nodes : List Nat) (vals : List Rat)
    (hnd : nodes.Nodup) (hlt : ∀ x ∈ nodes, x < res.length) (m : Nat) (hm : m ≤ nodes.length) :
    (copyBackUpTo res nodes vals m).length = res.length ∧
    (∀ j, j < m → (copyBackUpTo res nodes vals m).getD (nodes.getD j 0) 0 = vals.getD j 0) ∧
    (∀ a, (∀ j, j < m → nodes.getD j 0 ≠ a) →
      (copyBackUpTo res nodes vals m).getD a 0 = res.getD a 0) := by
  induction m with
  | zero =>
    refine ⟨rfl, ?_, ?_⟩
    · intro j hj; omega
    · intro a _; rfl
  | succ m ih =>
    obtain ⟨hl, hin, hout⟩ := ih (by omega)
    have hmlt : m < nodes.length := by omega
    rw [copyBackUpTo_succ]
    refine ⟨by rw [List.length_set, hl], ?_, ?_⟩
    · intro j hj
      by_cases hjm : j = m
      · subst hjm
        apply getD_set_self
        rw [hl]; exact hlt _ (getD_mem nodes j hmlt)
      · have hj' : j < m := by omega
        have hne : nodes.getD m 0 ≠ nodes.getD j 0 := fun e =>
          hjm (getD_inj nodes hnd m j hmlt (by omega) e).symm
        rw [getD_set_other _ _ _ _ hne]
        exact hin j hj'
    · intro a ha
      rw [getD_set_other _ _ _ _ (ha m (by omega))]
      exact hout a (fun j hj => ha j (by omega))

theorem copyBack_length (res : List Rat) (nodes : List Nat) (vals : List Rat)
    (hnd : nodes.Nodup) (hlt : ∀ x ∈ nodes, x < res.length) :
    (copyBack res nodes vals).length = res.length :=
  (copyBackUpTo_spec res nodes vals hnd hlt nodes.length (Nat.le_refl _)).1

/-- a node of the component receives the entry at its position in the component -/
theorem copyBack_mem (res : List Rat) (nodes : List Nat) (vals : List Rat)
    (hnd : nodes.Nodup) (hlt : ∀ x ∈ nodes, x < res.length) (a : Nat) (ha : a ∈ nodes) :
    (copyBack res nodes vals).getD a 0 = vals.getD (nodes.idxOf a) 0 := by
  have h := (copyBackUpTo_spec res nodes vals hnd hlt nodes.length (Nat.le_refl _)).2.1
    (nodes.idxOf a) (List.idxOf_lt_length_iff.mpr ha)
  rw [getD_idxOf nodes a ha] at h
  exact h

/-- every other entry of the result is left alone -/
theorem copyBack_not_mem (res : List Rat) (nodes : List Nat) (vals : List Rat)
    (hnd : nodes.Nodup) (hlt : ∀ x ∈ nodes, x < res.length) (a : Nat) (ha : a ∉ nodes) :
    (copyBack res nodes vals).getD a 0 = res.getD a 0 :=
  (copyBackUpTo_spec res nodes vals hnd hlt nodes.length (Nat.le_refl _)).2.2 a
    (fun j hj e => ha (e ▸ getD_mem nodes j hj))

/-! ### components of an undirected network are equivalence classes -/

theorem reach_of_mem {G : Gr} {a x : Nat} (ha : a < G.n) (hx : x ∈ compNodes G a) :
    ∃ k, Walk G a x k :=
  (reach_iff_walk G a x ha).mp ((mem_compNodes G a x).mp hx).2

/-- the component of a member of a component is the same node list -/
theorem compNodes_eq_of_mem (G : Gr) (hsym : ∀ i j, G.adj i j = G.adj j i) (a x : Nat)
    (ha : a < G.n) (hx : x ∈ compNodes G a) : compNodes G x = compNodes G a := by
  have hxn : x < G.n := compNodes_lt G a x hx
  obtain ⟨k, wax⟩ := reach_of_mem ha hx
  unfold compNodes
  apply List.filter_congr
  intro b _
  rw [Bool.eq_iff_iff, reach_iff_walk G x b hxn, reach_iff_walk G a b ha]
  constructor
  · rintro ⟨m, w⟩; exact ⟨_, walk_append wax w⟩
  · rintro ⟨m, w⟩; exact ⟨_, walk_append (walk_reverse hsym wax) w⟩

theorem compNodes_ne_nil (G : Gr) (a : Nat) (ha : a < G.n) : compNodes G a ≠ [] :=
  List.ne_nil_of_mem (self_mem_compNodes G a ha)

/-- an entry of `connected_components()` is the component of a node (its first) -/
theorem mem_compList (G : Gr) (c : List Nat) :
    c ∈ compList G ↔ ∃ a, a < G.n ∧ c = compNodes G a ∧ (compNodes G a).head? = some a := by
  unfold compList
  rw [List.mem_filterMap]
  constructor
  · rintro ⟨a, har, h⟩
    have ha := List.mem_range.mp har
    by_cases hh : (compNodes G a).head? = some a
    · simp only [hh, if_true] at h
      exact ⟨a, ha, (Option.some.inj h).symm, hh⟩
    · simp only [hh, if_false] at h
      exact absurd h (by simp)
  · rintro ⟨a, ha, hc, hh⟩
    refine ⟨a, List.mem_range.mpr ha, ?_⟩
    simp only [hh, if_true, hc]

/-- the component of every node is listed: it is the component of its smallest (= first) node -/
theorem compNodes_mem_compList (G : Gr) (hsym : ∀ i j, G.adj i j = G.adj j i) (a : Nat)
    (ha : a < G.n) : compNodes G a ∈ compList G := by
  cases hh : (compNodes G a).head? with
  | none =>
    exact absurd (List.head?_eq_none_iff.mp hh) (compNodes_ne_nil G a ha)
  | some m =>
    have hm : m ∈ compNodes G a := List.mem_of_head? hh
    have he := compNodes_eq_of_mem G hsym a m ha hm
    exact (mem_compList G _).mpr ⟨m, compNodes_lt G a m hm, he.symm, by rw [he]; exact hh⟩

/-- two listed components that share a node are the same list -/
theorem compList_overlap (G : Gr) (hsym : ∀ i j, G.adj i j = G.adj j i) (c1 c2 : List Nat)
    (h1 : c1 ∈ compList G) (h2 : c2 ∈ compList G) (x : Nat) (hx1 : x ∈ c1) (hx2 : x ∈ c2) :
    c1 = c2 := by
  obtain ⟨a1, ha1, e1, _⟩ := (mem_compList G c1).mp h1
  obtain ⟨a2, ha2, e2, _⟩ := (mem_compList G c2).mp h2
  subst e1; subst e2
  rw [← compNodes_eq_of_mem G hsym a1 x ha1 hx1, ← compNodes_eq_of_mem G hsym a2 x ha2 hx2]

/-! ### the fold over the components -/

/-- one round of the component loop -/
def compStep (G : Gr) (single : Nat → Rat) (f : Gr → Option (List Rat))
    (acc : Option (List Rat)) (nodes : List Nat) : Option (List Rat) :=
  match acc with
  | none => none
  | some res =>
    if nodes.length < 2 then some (res.set (nodes.getD 0 0) (single (nodes.getD 0 0)))
    else match f (subGr G nodes) with
      | none => none
      | some vals => some (copyBack res nodes vals)

theorem perComponent_eq_foldl (G : Gr) (single : Nat → Rat) (f : Gr → Option (List Rat)) :
    perComponent G single f
      = (compList G).foldl (compStep G single f) (some (List.replicate G.n 0)) := rfl

/-- the value the loop stores for the nodes of the node list `nodes` -/
def compValue (G : Gr) (single : Nat → Rat) (f : Gr → Option (List Rat)) (nodes : List Nat)
    (a : Nat) : Option Rat :=
  if nodes.length < 2 then some (single (nodes.getD 0 0))
  else match f (subGr G nodes) with
    | none => none
    | some vals => some (vals.getD (nodes.idxOf a) 0)

theorem foldl_compStep_none (G : Gr) (single : Nat → Rat) (f : Gr → Option (List Rat))
    (L : List (List Nat)) : L.foldl (compStep G single f) none = none := by
  induction L with
  | nil => rfl
  | cons c L ih => exact ih

/-- a short non-empty node list is one node -/
theorem short_list (nodes : List Nat) (hne : nodes ≠ []) (hlen : nodes.length < 2) (a : Nat)
    (ha : a ∈ nodes) : nodes.getD 0 0 = a := by
  match nodes, hne, hlen, ha with
  | [x], _, _, ha => simp at ha; simp [ha]
  | _ :: _ :: _, _, hlen, _ => exact absurd hlen (by simp)

/-- one round: length kept, entries outside the list kept, the nodes of the list carry the value
of the list -/
theorem compStep_spec (G : Gr) (single : Nat → Rat) (f : Gr → Option (List Rat))
    (res res1 : List Rat) (c : List Nat) (hne : c ≠ []) (hnd : c.Nodup)
    (hlt : ∀ x ∈ c, x < res.length) (h : compStep G single f (some res) c = some res1) :
    res1.length = res.length ∧
    (∀ a, a ∉ c → res1.getD a 0 = res.getD a 0) ∧
    (∀ a, a ∈ c → compValue G single f c a = some (res1.getD a 0)) := by
  unfold compStep at h
  simp only at h
  by_cases hlen : c.length < 2
  · rw [if_pos hlen] at h
    have h := Option.some.inj h
    subst h
    have h0 : c.getD 0 0 ∈ c := getD_mem c 0 (List.length_pos_iff.mpr hne)
    refine ⟨List.length_set, ?_, ?_⟩
    · intro a ha
      exact getD_set_other _ _ _ _ (fun e => ha (e ▸ h0))
    · intro a ha
      have e := short_list c hne hlen a ha
      unfold compValue
      rw [if_pos hlen, e, getD_set_self _ _ _ (hlt a ha)]
  · rw [if_neg hlen] at h
    cases hf : f (subGr G c) with
    | none => rw [hf] at h; exact absurd h (by simp)
    | some vals =>
      rw [hf] at h
      have h := Option.some.inj h
      subst h
      refine ⟨copyBack_length res c vals hnd hlt, ?_, ?_⟩
      · intro a ha; exact copyBack_not_mem res c vals hnd hlt a ha
      · intro a ha
        unfold compValue
        rw [if_neg hlen, hf, copyBack_mem res c vals hnd hlt a ha]

/-- **the fold.**  `L`: non-empty duplicate-free node lists inside the result, overlapping ones
equal.  If the loop over `L` ends with `res`, every node of every list carries the value of its
list, all other entries are those of the start. -/
theorem foldComp_spec (G : Gr) (single : Nat → Rat) (f : Gr → Option (List Rat))
    (L : List (List Nat)) (res0 res : List Rat)
    (hne : ∀ c ∈ L, c ≠ []) (hnd : ∀ c ∈ L, c.Nodup) (hlt : ∀ c ∈ L, ∀ x ∈ c, x < res0.length)
    (hov : ∀ c1 ∈ L, ∀ c2 ∈ L, ∀ x, x ∈ c1 → x ∈ c2 → c1 = c2)
    (h : L.foldl (compStep G single f) (some res0) = some res) :
    res.length = res0.length ∧
    (∀ a, (∀ c ∈ L, a ∉ c) → res.getD a 0 = res0.getD a 0) ∧
    (∀ c ∈ L, ∀ a ∈ c, compValue G single f c a = some (res.getD a 0)) := by
  induction L generalizing res0 with
  | nil =>
    have h := Option.some.inj h
    subst h
    exact ⟨rfl, fun _ _ => rfl, fun c hc => absurd hc (by simp)⟩
  | cons c L ih =>
    rw [List.foldl_cons] at h
    cases hs : compStep G single f (some res0) c with
    | none => rw [hs, foldl_compStep_none] at h; exact absurd h (by simp)
    | some res1 =>
      rw [hs] at h
      have hcL : c ∈ c :: L := List.mem_cons_self
      obtain ⟨hl1, hout1, hin1⟩ := compStep_spec G single f res0 res1 c (hne c hcL) (hnd c hcL)
        (hlt c hcL) hs
      obtain ⟨hl, hout, hin⟩ := ih res1
        (fun c' hc' => hne c' (List.mem_cons_of_mem _ hc'))
        (fun c' hc' => hnd c' (List.mem_cons_of_mem _ hc'))
        (fun c' hc' x hx => by rw [hl1]; exact hlt c' (List.mem_cons_of_mem _ hc') x hx)
        (fun c1 h1 c2 h2 => hov c1 (List.mem_cons_of_mem _ h1) c2 (List.mem_cons_of_mem _ h2)) h
      refine ⟨by rw [hl, hl1], ?_, ?_⟩
      · intro a ha
        rw [hout a (fun c' hc' => ha c' (List.mem_cons_of_mem _ hc')), hout1 a (ha c hcL)]
      · intro c' hc' a ha
        by_cases hex : ∃ c'' ∈ L, a ∈ c''
        · obtain ⟨c'', hc'', ha''⟩ := hex
          have e : c' = c'' := hov c' hc' c'' (List.mem_cons_of_mem _ hc'') a ha ha''
          rw [e]; exact hin c'' hc'' a ha''
        · have hno : ∀ c'' ∈ L, a ∉ c'' := fun c'' hc'' ha'' => hex ⟨c'', hc'', ha''⟩
          rcases List.mem_cons.mp hc' with e | hc'L
          · subst e
            rw [hout a hno]; exact hin1 a ha
          · exact absurd ha (hno c' hc'L)

/-! ### the result -/

/-- `perNode` is the value of the node's own component -/
theorem perNode_eq_compValue (G : Gr) (single : Nat → Rat) (f : Gr → Option (List Rat)) (a : Nat)
    (ha : a < G.n) : perNode G single f a = compValue G single f (compNodes G a) a := by
  unfold perNode compValue
  simp only
  by_cases hlen : (compNodes G a).length < 2
  · rw [if_pos hlen, if_pos hlen,
      short_list _ (compNodes_ne_nil G a ha) hlen a (self_mem_compNodes G a ha)]
  · rw [if_neg hlen, if_neg hlen]
    cases f (subGr G (compNodes G a)) <;> rfl

/-- **`perComponent` = `perNode`.**  On every undirected network, for every measure `f` of the
sub-networks and every value `single` of isolated nodes: if the component loop with copy-back
returns `res`, then `res` has one entry per node and entry `a` is the value of `a`'s own
component at `a`'s position in it. -/
theorem perComponent_eq_perNode (G : Gr) (hsym : ∀ i j, G.adj i j = G.adj j i)
    (single : Nat → Rat) (f : Gr → Option (List Rat)) (res : List Rat)
    (h : perComponent G single f = some res) :
    res.length = G.n ∧ ∀ a, a < G.n → perNode G single f a = some (res.getD a 0) := by
  rw [perComponent_eq_foldl] at h
  have hmem : ∀ c ∈ compList G, ∃ a, a < G.n ∧ c = compNodes G a := fun c hc => by
    obtain ⟨a, ha, e, _⟩ := (mem_compList G c).mp hc
    exact ⟨a, ha, e⟩
  obtain ⟨hl, _, hin⟩ := foldComp_spec G single f (compList G) (List.replicate G.n 0) res
    (fun c hc => by obtain ⟨a, ha, e⟩ := hmem c hc; rw [e]; exact compNodes_ne_nil G a ha)
    (fun c hc => by obtain ⟨a, _, e⟩ := hmem c hc; rw [e]; exact compNodes_nodup G a)
    (fun c hc x hx => by
      obtain ⟨a, _, e⟩ := hmem c hc
      rw [List.length_replicate]; rw [e] at hx; exact compNodes_lt G a x hx)
    (fun c1 h1 c2 h2 x hx1 hx2 => compList_overlap G hsym c1 c2 h1 h2 x hx1 hx2) h
  refine ⟨by rw [hl, List.length_replicate], ?_⟩
  intro a ha
  rw [perNode_eq_compValue G single f a ha]
  exact hin _ (compNodes_mem_compList G hsym a ha) a (self_mem_compNodes G a ha)

/-- the loop fails only where the measure of some component fails: if `perComponent` returns
`none`, `perNode` is `none` at some node -/
theorem foldComp_none (G : Gr) (single : Nat → Rat) (f : Gr → Option (List Rat))
    (L : List (List Nat)) (res0 : List Rat) (hne : ∀ c ∈ L, c ≠ [])
    (h : L.foldl (compStep G single f) (some res0) = none) :
    ∃ c ∈ L, ¬ c.length < 2 ∧ f (subGr G c) = none := by
  induction L generalizing res0 with
  | nil => exact absurd h (by simp)
  | cons c L ih =>
    rw [List.foldl_cons] at h
    cases hs : compStep G single f (some res0) c with
    | none =>
      refine ⟨c, List.mem_cons_self, ?_⟩
      unfold compStep at hs
      simp only at hs
      by_cases hlen : c.length < 2
      · rw [if_pos hlen] at hs; exact absurd hs (by simp)
      · rw [if_neg hlen] at hs
        cases hf : f (subGr G c) with
        | none => exact ⟨hlen, rfl⟩
        | some vals => rw [hf] at hs; exact absurd hs (by simp)
    | some res1 =>
      rw [hs] at h
      obtain ⟨c', hc', hr⟩ := ih res1 (fun c' hc' => hne c' (List.mem_cons_of_mem _ hc')) h
      exact ⟨c', List.mem_cons_of_mem _ hc', hr⟩

theorem perComponent_none (G : Gr) (single : Nat → Rat) (f : Gr → Option (List Rat))
    (h : perComponent G single f = none) : ∃ a, a < G.n ∧ perNode G single f a = none := by
  rw [perComponent_eq_foldl] at h
  obtain ⟨c, hc, hlen, hf⟩ := foldComp_none G single f (compList G) _
    (fun c hc => by
      obtain ⟨a, ha, e, _⟩ := (mem_compList G c).mp hc
      rw [e]; exact compNodes_ne_nil G a ha) h
  obtain ⟨a, ha, e, _⟩ := (mem_compList G c).mp hc
  subst e
  refine ⟨a, ha, ?_⟩
  unfold perNode
  simp only
  rw [if_neg hlen, hf]

/-! ### the two measures the wrapper serves, and the split -/

/-- the measure the wrapper of `nsi_newman_betweenness` applies to a component -/
def newmanCompF (ends : Bool) : Gr → Option (List Rat) := fun H => newmanAll H ends

/-- the value the wrapper of `nsi_newman_betweenness` gives an isolated node -/
def newmanSingle (G : Gr) (ends : Bool) : Nat → Rat := fun a => if ends then G.w a * G.w a else 0

/-- the measure the wrapper of `nsi_arenas_betweenness` applies to a component (the twinness
matrix is the sub-network's own) -/
def arenasCompF (twin excl : Bool) : Gr → Option (List Rat) := fun H =>
  let sg : Nat → Nat → Rat := if twin then fun a b => eval H [a, b] M.nsiTwinness else fun _ _ => 1
  match arenasAll H sg excl with
  | some (l, true) => some l
  | _ => none

theorem newmanWrapped_eq (G : Gr) (ends : Bool) :
    newmanWrapped G ends = perComponent G (newmanSingle G ends) (newmanCompF ends) := rfl

theorem arenasWrapped_eq (G : Gr) (twin excl : Bool) :
    arenasWrapped G twin excl = perComponent G (fun _ => 0) (arenasCompF twin excl) := rfl

/-- if the per-node values are node-splitting invariant, so is what the loop returns -/
theorem perComponent_split_of_perNode (G : Gr) (hsym : ∀ i j, G.adj i j = G.adj j i) (v : Nat)
    (p : Rat) (single single' : Nat → Rat) (f : Gr → Option (List Rat)) (r r' : List Rat)
    (hr : perComponent G single f = some r)
    (hr' : perComponent (split G v p) single' f = some r')
    (hinv : ∀ a, a < G.n + 1 →
      perNode (split G v p) single' f a = perNode G single f (collapse G.n v a))
    (hv : v < G.n) (a : Nat) (ha : a < G.n + 1) :
    r'.getD a 0 = r.getD (collapse G.n v a) 0 := by
  have h1 := (perComponent_eq_perNode G hsym single f r hr).2 _ (collapse_lt_n G.n v a hv ha)
  have h2 := (perComponent_eq_perNode (split G v p) (split_adj_symm G v p hsym) single' f r' hr').2
    a ha
  rw [hinv a ha, h1] at h2
  exact (Option.some.inj h2).symm

end Pyunicorn.Nsi
