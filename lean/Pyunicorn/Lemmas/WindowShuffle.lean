import Pyunicorn.Lemmas.Window
/-! Lemmas about the model of `numpy.random.shuffle` (masked rejection sampling +
Fisher–Yates) and of the column loop of `shuffled_anomaly()` (round 4). -/
namespace Pyunicorn.Window

/-! ### the swap -/

theorem swapAt_length {α : Type} (xs : List α) (i j : Nat) : (swapAt xs i j).length = xs.length := by
  unfold swapAt
  split <;> simp

theorem swapAt_perm {α : Type} (xs : List α) (i j : Nat) : (swapAt xs i j).Perm xs := by
  unfold swapAt
  split
  · rename_i a b ha hb
    obtain ⟨hi, rfl⟩ := List.getElem?_eq_some_iff.1 ha
    obtain ⟨hj, rfl⟩ := List.getElem?_eq_some_iff.1 hb
    have h := (Array.swap_perm (xs := xs.toArray) (i := i) (j := j) (by simpa using hi)
      (by simpa using hj)).toList
    simpa [Array.swap] using h
  · exact List.Perm.refl _

/-- inside the array the swap is the double assignment `x[i], x[j] = x[j], x[i]` -/
theorem swapAt_inbounds {α : Type} (xs : List α) (i j : Nat) (hi : i < xs.length) (hj : j < xs.length) :
    swapAt xs i j = (xs.set i xs[j]).set j xs[i] := by
  simp [swapAt, List.getElem?_eq_getElem hi, List.getElem?_eq_getElem hj]

/-! ### the bit mask -/

/-- one smearing step keeps all bits set and doubles the run of ones below the top bit -/
theorem smear_step (m h w s : Nat) (hlt : m < 2 ^ (h + 1))
    (hrun : ∀ i, i ≤ h → h < i + w → m.testBit i = true) (hs : s = w) :
    (m ||| (m >>> s)) < 2 ^ (h + 1)
      ∧ ∀ i, i ≤ h → h < i + 2 * w → (m ||| (m >>> s)).testBit i = true := by
  subst hs
  constructor
  · apply Nat.or_lt_two_pow hlt
    exact Nat.lt_of_le_of_lt (Nat.shiftRight_le _ _) hlt
  · intro i hi hw
    rw [Nat.testBit_or, Nat.testBit_shiftRight]
    by_cases h1 : h < i + s
    · simp [hrun i hi h1]
    · have : m.testBit (s + i) = true := hrun (s + i) (by omega) (by omega)
      simp [this]

/-- `bitMask max` is the all-ones number of the same bit length (64-bit operands) -/
theorem bitMask_eq (max : Nat) (h0 : max ≠ 0) (h64 : max < 2 ^ 64) :
    bitMask max = 2 ^ (max.log2 + 1) - 1 := by
  have hlt : max < 2 ^ (max.log2 + 1) := Nat.lt_log2_self
  have hh : max.log2 < 64 := (Nat.log2_lt h0).2 h64
  have htop : ∀ i, i ≤ max.log2 → max.log2 < i + 1 → max.testBit i = true := by
    intro i hi hw
    have : i = max.log2 := by omega
    subst this
    exact Nat.testBit_log2 h0
  obtain ⟨l1, r1⟩ := smear_step max max.log2 1 1 hlt htop rfl
  obtain ⟨l2, r2⟩ := smear_step _ max.log2 2 2 l1 r1 rfl
  obtain ⟨l3, r3⟩ := smear_step _ max.log2 4 4 l2 r2 rfl
  obtain ⟨l4, r4⟩ := smear_step _ max.log2 8 8 l3 r3 rfl
  obtain ⟨l5, r5⟩ := smear_step _ max.log2 16 16 l4 r4 rfl
  obtain ⟨l6, r6⟩ := smear_step _ max.log2 32 32 l5 r5 rfl
  have hdef : bitMask max = _ := rfl
  simp only [bitMask, List.foldl_cons, List.foldl_nil]
  apply Nat.eq_of_testBit_eq
  intro i
  rw [Nat.testBit_two_pow_sub_one]
  by_cases hi : i < max.log2 + 1
  · simp only [hi, decide_true]
    exact r6 i (by omega) (by omega)
  · simp only [hi, decide_false]
    apply Nat.testBit_lt_two_pow
    exact Nat.lt_of_lt_of_le l6 (Nat.pow_le_pow_right (by omega) (by omega))

/-- every value `≤ max` passes the mask unchanged -/
theorem and_bitMask_of_le (max j : Nat) (h0 : max ≠ 0) (h64 : max < 2 ^ 64) (hj : j ≤ max) :
    j &&& bitMask max = j := by
  rw [bitMask_eq max h0 h64, Nat.and_two_pow_sub_one_eq_mod]
  exact Nat.mod_eq_of_lt (Nat.lt_of_le_of_lt hj Nat.lt_log2_self)

/-- the mask is the *smallest* all-ones number `≥ max`: fewer than half of the masked values
are rejected -/
theorem bitMask_bounds (max : Nat) (h0 : max ≠ 0) (h64 : max < 2 ^ 64) :
    max ≤ bitMask max ∧ bitMask max + 1 ≤ 2 * max := by
  rw [bitMask_eq max h0 h64]
  have hlt : max < 2 ^ (max.log2 + 1) := Nat.lt_log2_self
  have hle : 2 ^ max.log2 ≤ max := Nat.log2_self_le h0
  have : 2 ^ (max.log2 + 1) = 2 * 2 ^ max.log2 := by rw [Nat.pow_succ]; omega
  omega

/-! ### `random_interval` -/

theorem go32_spec (max : Nat) (ds : List Nat) (v : Nat) (r : List Nat)
    (h : randomInterval.go32 max ds = some (v, r)) :
    v ≤ max ∧ r.length < ds.length ∧ r <:+ ds := by
  induction ds with
  | nil => simp [randomInterval.go32] at h
  | cons d ds ih =>
    simp only [randomInterval.go32] at h
    split at h
    · rename_i hle
      simp only [Option.some.injEq, Prod.mk.injEq] at h
      obtain ⟨rfl, rfl⟩ := h
      exact ⟨hle, by simp, List.suffix_cons _ _⟩
    · obtain ⟨a, b, c⟩ := ih h
      exact ⟨a, by simp; omega, c.trans (List.suffix_cons _ _)⟩

theorem go64_spec (max fuel : Nat) (ds : List Nat) (v : Nat) (r : List Nat)
    (h : randomInterval.go64 max fuel ds = some (v, r)) :
    v ≤ max ∧ r <:+ ds := by
  induction fuel generalizing ds with
  | zero => simp [randomInterval.go64] at h
  | succ fuel ih =>
    simp only [randomInterval.go64] at h
    split at h
    · simp at h
    · rename_i d ds' hn
      have hsuf : ds' <:+ ds := by
        unfold nextUint64 at hn
        split at hn
        · simp only [Option.some.injEq, Prod.mk.injEq] at hn
          obtain ⟨_, rfl⟩ := hn
          exact (List.suffix_cons _ _).trans (List.suffix_cons _ _)
        · simp at hn
      split at h
      · rename_i hle
        simp only [Option.some.injEq, Prod.mk.injEq] at h
        obtain ⟨rfl, rfl⟩ := h
        exact ⟨hle, hsuf⟩
      · obtain ⟨a, c⟩ := ih _ h
        exact ⟨a, c.trans hsuf⟩

/-- whatever the stream: the value lies in `[0, max]` and the stream left over is a suffix -/
theorem randomInterval_spec (max : Nat) (ds : List Nat) (v : Nat) (r : List Nat)
    (h : randomInterval max ds = some (v, r)) : v ≤ max ∧ r <:+ ds := by
  unfold randomInterval at h
  split at h
  · simp only [Option.some.injEq, Prod.mk.injEq] at h
    obtain ⟨rfl, rfl⟩ := h
    exact ⟨Nat.zero_le _, List.suffix_refl _⟩
  · split at h
    · obtain ⟨a, _, c⟩ := go32_spec max ds v r h
      exact ⟨a, c⟩
    · exact go64_spec max _ ds v r h

/-- a draw whose masked value is `≤ max` is accepted, any other one is skipped -/
theorem randomInterval_cons (max d : Nat) (ds : List Nat) (h0 : max ≠ 0) (h32 : max ≤ 0xffffffff) :
    randomInterval max (d :: ds)
      = if d &&& bitMask max ≤ max then some (d &&& bitMask max, ds) else randomInterval max ds := by
  simp only [randomInterval, h0, h32, if_false, if_true, randomInterval.go32]

/-- every index `j ≤ max` is produced by the draw `j` itself: no index is unreachable -/
theorem randomInterval_hits (max j : Nat) (ds : List Nat) (h0 : max ≠ 0) (h32 : max ≤ 0xffffffff)
    (hj : j ≤ max) : randomInterval max (j :: ds) = some (j, ds) := by
  have h64 : max < 2 ^ 64 := by omega
  rw [randomInterval_cons max j ds h0 h32, and_bitMask_of_le max j h0 h64 hj, if_pos hj]

/-! ### the Fisher–Yates loop -/

theorem shuffleRaw_spec {α : Type} (i : Nat) (xs : List α) (ds : List Nat) (ys : List α) (r : List Nat)
    (h : shuffleRaw i xs ds = some (ys, r)) :
    ys.Perm xs ∧ ys.length = xs.length ∧ r <:+ ds := by
  induction i generalizing xs ds with
  | zero =>
    simp only [shuffleRaw, Option.some.injEq, Prod.mk.injEq] at h
    obtain ⟨rfl, rfl⟩ := h
    exact ⟨List.Perm.refl _, rfl, List.suffix_refl _⟩
  | succ i ih =>
    simp only [shuffleRaw] at h
    split at h
    · simp at h
    · rename_i j ds' hr
      obtain ⟨a, b, c⟩ := ih _ _ h
      exact ⟨a.trans (swapAt_perm _ _ _), by rw [b, swapAt_length],
        c.trans (randomInterval_spec _ _ _ _ hr).2⟩

theorem npShuffle_spec {α : Type} (xs : List α) (ds : List Nat) (ys : List α) (r : List Nat)
    (h : npShuffle xs ds = some (ys, r)) :
    ys.Perm xs ∧ ys.length = xs.length ∧ r <:+ ds :=
  shuffleRaw_spec _ xs ds ys r h

/-- arrays of length 0 or 1 are returned unchanged and no number is drawn -/
theorem npShuffle_short {α : Type} (xs : List α) (ds : List Nat) (h : xs.length ≤ 1) :
    npShuffle xs ds = some (xs, ds) := by
  have : xs.length - 1 = 0 := by omega
  simp [npShuffle, this, shuffleRaw]

/-! ### columns -/

theorem column_length (A : Mat) (j : Nat) : (column A j).length = A.length := by simp [column]

theorem setColumn_length (S : Mat) (j : Nat) (col : Vec) (h : col.length = S.length) :
    (setColumn S j col).length = S.length := by simp [setColumn, h]

theorem setColumn_rows (S : Mat) (j : Nat) (col : Vec) (n : Nat) (h : ∀ r ∈ S, r.length = n) :
    ∀ r ∈ setColumn S j col, r.length = n := by
  intro r hr
  obtain ⟨t, ht, rfl⟩ := List.getElem_of_mem hr
  simp only [setColumn, List.getElem_zipWith, List.length_set]
  exact h _ (List.getElem_mem _)

theorem column_setColumn_same (S : Mat) (j : Nat) (col : Vec) (n : Nat) (hj : j < n)
    (h : ∀ r ∈ S, r.length = n) (hl : col.length = S.length) :
    column (setColumn S j col) j = col := by
  apply List.ext_getElem
  · simp [column, setColumn, hl]
  · intro t h1 h2
    simp only [column, setColumn, List.getElem_map, List.getElem_zipWith]
    have : j < (S[t]'(by simpa [column, setColumn, hl] using h1)).length := by
      rw [h _ (List.getElem_mem _)]; exact hj
    simp [List.getD_eq_getElem?_getD, this]

theorem column_setColumn_other (S : Mat) (j j' : Nat) (col : Vec) (hne : j' ≠ j)
    (hl : col.length = S.length) :
    column (setColumn S j col) j' = column S j' := by
  apply List.ext_getElem
  · simp [column, setColumn, hl]
  · intro t h1 h2
    simp only [column, setColumn, List.getElem_map, List.getElem_zipWith]
    simp [List.getD_eq_getElem?_getD, Ne.symm hne]

/-- the column loop: shape kept, the processed columns are rearrangements of the columns of
`A`, the other columns are untouched, the stream left over is a suffix -/
theorem shuffleColumns_spec (A : Mat) (n : Nat) (k j0 : Nat) (S : Mat) (ds : List Nat) (S' : Mat)
    (r : List Nat) (hS : S.length = A.length) (hrows : ∀ row ∈ S, row.length = n) (hk : j0 + k ≤ n)
    (h : shuffleColumns A k j0 S ds = some (S', r)) :
    S'.length = A.length ∧ (∀ row ∈ S', row.length = n)
      ∧ (∀ j, j0 ≤ j → j < j0 + k → (column S' j).Perm (column A j))
      ∧ (∀ j, (j < j0 ∨ j0 + k ≤ j) → column S' j = column S j)
      ∧ r <:+ ds := by
  induction k generalizing j0 S ds with
  | zero =>
    simp only [shuffleColumns, Option.some.injEq, Prod.mk.injEq] at h
    obtain ⟨rfl, rfl⟩ := h
    exact ⟨hS, hrows, fun j a b => by omega, fun _ _ => rfl, List.suffix_refl _⟩
  | succ k ih =>
    simp only [shuffleColumns] at h
    split at h
    · simp at h
    · rename_i col ds' hc
      obtain ⟨p1, p2, p3⟩ := npShuffle_spec _ _ _ _ hc
      have hl : col.length = S.length := by rw [p2, column_length, hS]
      obtain ⟨a, b, c, d, e⟩ := ih (j0 + 1) (setColumn S j0 col) ds'
        (by rw [setColumn_length _ _ _ hl, hS]) (setColumn_rows _ _ _ _ hrows) (by omega) h
      refine ⟨a, b, ?_, ?_, e.trans p3⟩
      · intro j h1 h2
        by_cases hj : j = j0
        · subst hj
          rw [d j (Or.inl (by omega)), column_setColumn_same S j col n (by omega) hrows hl]
          exact p1
        · exact c j (by omega) (by omega)
      · intro j hj
        rw [d j (by omega), column_setColumn_other S j0 j col (by omega) hl]

/-- two result arrays that agree on the first `j` entries of every row -/
def AgreeUpTo (n j : Nat) (S1 S2 : Mat) : Prop :=
  List.Forall₂ (fun r1 r2 => r1.length = n ∧ r2.length = n ∧ r1.take j = r2.take j) S1 S2

theorem setColumn_agree (n j : Nat) (S1 S2 : Mat) (col : Vec) (hj : j < n)
    (h : AgreeUpTo n j S1 S2) : AgreeUpTo n (j + 1) (setColumn S1 j col) (setColumn S2 j col) := by
  unfold AgreeUpTo at *
  induction h generalizing col with
  | nil => simp [setColumn]
  | cons hab _ ih =>
    cases col with
    | nil => simp [setColumn]
    | cons v vs =>
      simp only [setColumn, List.zipWith_cons_cons]
      refine List.Forall₂.cons ⟨by simp [hab.1], by simp [hab.2.1], ?_⟩ (ih vs)
      rw [List.take_set, List.take_set]
      rename_i r1 r2 _ _
      apply List.ext_getElem?
      intro m
      simp only [List.getElem?_set, List.getElem?_take]
      by_cases hm : j = m
      · subst hm; simp [hab.1, hab.2.1, hj]
      · simp only [hm, if_false]
        by_cases hm2 : m < j
        · have := congrArg (fun l => l[m]?) hab.2.2
          simp only [List.getElem?_take, hm2, if_true] at this
          simp [show m < j + 1 by omega, this]
        · have : ¬ m < j + 1 := by omega
          simp [this]

/-- **the content of `np.empty` does not matter** -/
theorem shuffleColumns_agree (A : Mat) (n : Nat) (k j0 : Nat) (S1 S2 : Mat) (ds : List Nat)
    (hk : j0 + k ≤ n) (h : AgreeUpTo n j0 S1 S2) :
    match shuffleColumns A k j0 S1 ds, shuffleColumns A k j0 S2 ds with
    | some (R1, r1), some (R2, r2) => AgreeUpTo n (j0 + k) R1 R2 ∧ r1 = r2
    | none, none => True
    | _, _ => False := by
  induction k generalizing j0 S1 S2 ds with
  | zero => simpa [shuffleColumns] using h
  | succ k ih =>
    simp only [shuffleColumns]
    cases hc : npShuffle (column A j0) ds with
    | none => trivial
    | some p =>
      obtain ⟨col, ds'⟩ := p
      have := ih (j0 + 1) _ _ ds' (by omega) (setColumn_agree n j0 S1 S2 col (by omega) h)
      simpa [Nat.add_assoc, Nat.add_comm 1 k] using this

theorem agree_full_eq (n : Nat) (S1 S2 : Mat) (h : AgreeUpTo n n S1 S2) : S1 = S2 := by
  unfold AgreeUpTo at h
  induction h with
  | nil => rfl
  | cons hab _ ih =>
    obtain ⟨h1, h2, h3⟩ := hab
    rw [List.take_of_length_le (by omega), List.take_of_length_le (by omega)] at h3
    rw [h3, ih]

theorem agree_zero (n : Nat) (S1 S2 : Mat) (hl : S1.length = S2.length)
    (h1 : ∀ r ∈ S1, r.length = n) (h2 : ∀ r ∈ S2, r.length = n) : AgreeUpTo n 0 S1 S2 := by
  unfold AgreeUpTo
  induction S1 generalizing S2 with
  | nil =>
    cases S2 with
    | nil => exact List.Forall₂.nil
    | cons _ _ => simp at hl
  | cons a S1 ih =>
    cases S2 with
    | nil => simp at hl
    | cons b S2 =>
      refine List.Forall₂.cons ⟨h1 _ (by simp), h2 _ (by simp), by simp⟩
        (ih S2 (by simpa using hl) (fun r hr => h1 r (by simp [hr])) (fun r hr => h2 r (by simp [hr])))

end Pyunicorn.Window
