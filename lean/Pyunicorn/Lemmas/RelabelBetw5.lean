import Pyunicorn.Lemmas.RelabelNet
import Pyunicorn.Lemmas.NetBetwAsm
/-! C04, round 5: shortest-path / interregional / n.s.i. betweenness of C03's model.  The
*definition* `nsiBetweennessDef` (weighted shortest-path counts by recursion over the last link,
pair dependencies, sums over sources and targets) commutes with renumbering when the node weights,
the source mask and the target list are renumbered with the nodes; the kernel model
`nsiBetweenness` (Brandes-type forward / backward sweeps over the flattened neighbour lists)
inherits this wherever C03's open obligation `sweepDiff = contribDef` holds. -/
namespace Pyunicorn.Relabel
open Pyunicorn.Net Pyunicorn.NetBetw

variable {n : Nat} {idx : Nat → Nat}

section defn
variable (h : IsPerm n idx) (a : Adj) (w : Nat → Rat) (d d' : DistFn)
  (hd : Renumbered n idx d d')
include h hd

omit h in
theorem isPred_relabel (j i l : Nat) (hj : j < n) (hi : i < n) (hl : l < n) :
    isPred (mat a idx) d' j i l = isPred a d (idx j) (idx i) (idx l) := by
  unfold isPred
  rw [hd j i hj hi, hd j l hj hl]
  rfl

theorem sigLev_relabel (j : Nat) (hj : j < n) (lvl l : Nat) (hl : l < n) :
    sigLev n (mat a idx) (vec w idx) d' j lvl l = sigLev n a w d (idx j) lvl (idx l) := by
  induction lvl generalizing l with
  | zero =>
    simp only [sigLev]
    rw [ite_eq_relabel h hl hj]
    rfl
  | succ lvl ih =>
    simp only [sigLev]
    rw [hd j l hj hl]
    congr 1
    show w (idx l) * _ = w (idx l) * _
    congr 1
    apply sumToQ_relabel h _
      (fun i => if isPred a d (idx j) i (idx l) then sigLev n a w d (idx j) lvl i else 0)
    intro i hi
    rw [isPred_relabel a d d' hd j i l hj hi hl, ih i hi]

theorem sigma_relabel (j l : Nat) (hj : j < n) (hl : l < n) :
    sigma n (mat a idx) (vec w idx) d' j l = sigma n a w d (idx j) (idx l) := by
  unfold sigma
  rw [hd j l hj hl]
  cases d (idx j) (idx l) with
  | none => rfl
  | some k => exact sigLev_relabel h a w d d' hd j hj k l hl

theorem sigThruLev_relabel (j v : Nat) (hj : j < n) (hv : v < n) (lvl s : Nat) (hs : s < n) :
    sigThruLev n (mat a idx) (vec w idx) d' j v lvl s
      = sigThruLev n a w d (idx j) (idx v) lvl (idx s) := by
  induction lvl generalizing s with
  | zero =>
    simp only [sigThruLev]
    rw [ite_eq_relabel h hs hv, sigLev_relabel h a w d d' hd j hj 0 s hs]
  | succ lvl ih =>
    simp only [sigThruLev]
    rw [ite_eq_relabel h hs hv, sigLev_relabel h a w d d' hd j hj (lvl + 1) s hs, hd j s hj hs]
    congr 1
    congr 1
    show w (idx s) * _ = w (idx s) * _
    congr 1
    apply sumToQ_relabel h _
      (fun i => if isPred a d (idx j) i (idx s) then sigThruLev n a w d (idx j) (idx v) lvl i else 0)
    intro i hi
    rw [isPred_relabel a d d' hd j i s hj hi hs, ih i hi]

theorem sigmaThru_relabel (j v s : Nat) (hj : j < n) (hv : v < n) (hs : s < n) :
    sigmaThru n (mat a idx) (vec w idx) d' j v s = sigmaThru n a w d (idx j) (idx v) (idx s) := by
  unfold sigmaThru
  rw [hd j s hj hs]
  cases d (idx j) (idx s) with
  | none => rfl
  | some k => exact sigThruLev_relabel h a w d d' hd j v hj hv k s hs

theorem pairDep_relabel (j v s : Nat) (hj : j < n) (hv : v < n) (hs : s < n) :
    pairDep n (mat a idx) (vec w idx) d' j v s = pairDep n a w d (idx j) (idx v) (idx s) := by
  unfold pairDep
  rw [sigmaThru_relabel h a w d d' hd j v s hj hv hs, sigma_relabel h a w d d' hd j s hj hs]

omit h hd in
theorem excess_relabel (isSrc : List Bool) (l : Nat) (hl : l < n) :
    excess (vec w idx) (nodeList n idx false isSrc) l = excess w isSrc (idx l) := by
  unfold excess
  rw [nodeList_getD n idx false isSrc l hl]
  rfl

/-- contribution of the paths ending in target `j` to node `v` -/
theorem contribDef_relabel (isSrc : List Bool) (j v : Nat) (hj : j < n) (hv : v < n) :
    contribDef n (mat a idx) (vec w idx) d' (nodeList n idx false isSrc) j v
      = contribDef n a w d isSrc (idx j) (idx v) := by
  unfold contribDef
  rw [ite_eq_relabel h hv hj]
  congr 1
  apply sumToQ_relabel h _ (fun s =>
    if s != idx v && (d (idx j) s).isSome then excess w isSrc s * pairDep n a w d (idx j) (idx v) s
    else 0)
  intro s hs
  rw [h.bne_eq hs hv, hd j s hj hs, excess_relabel w isSrc s hs,
    pairDep_relabel h a w d d' hd j v s hj hv hs]

/-- `betweenness_times_w[v]` with the target list renumbered through the inverse permutation -/
theorem betwTimesWDef_relabel (isSrc : List Bool) (targets : List Nat)
    (ht : ∀ k ∈ targets, k < n) (v : Nat) (hv : v < n) :
    betwTimesWDef n (mat a idx) (vec w idx) d' (nodeList n idx false isSrc) (nodes n idx targets) v
      = betwTimesWDef n a w d isSrc targets (idx v) := by
  unfold betwTimesWDef nodes
  rw [List.map_map]
  congr 1
  apply List.map_congr_left
  intro k hk
  have hi := h.idx_inv (ht k hk)
  show vec w idx (inv n idx k) * _ = _
  rw [contribDef_relabel h a w d d' hd isSrc (inv n idx k) v hi.2 hv]
  unfold vec
  rw [hi.1]

/-- **the published definition of (n.s.i. / interregional) betweenness** commutes with renumbering:
node weights `w[idx]`, source mask `isSrc[idx]`, target list through the inverse permutation -/
theorem nsiBetweennessDef_relabel (isSrc : List Bool) (targets : List Nat)
    (ht : ∀ k ∈ targets, k < n) :
    nsiBetweennessDef n (mat a idx) (vec w idx) d' (nodeList n idx false isSrc) (nodes n idx targets)
      = nodeList n idx 0 (nsiBetweennessDef n a w d isSrc targets) := by
  unfold nsiBetweennessDef
  conv_rhs => unfold nodeList
  apply List.map_congr_left
  intro v hv
  have hv' := List.mem_range.mp hv
  rw [getD_map_range n _ 0 (idx v) (h.lt hv'),
    betwTimesWDef_relabel h a w d d' hd isSrc targets ht v hv']
  rfl

end defn

/-- the kernel model wherever C03's open obligation (`sweepDiff = contribDef`: the two Brandes
sweeps compute the contribution of one target) holds for both numberings -/
theorem nsiBetweenness_relabel_of_sweeps (h : IsPerm n idx) (a : Adj) (w : Nat → Rat)
    (isSrc : List Bool) (targets : List Nat) (ht : ∀ k ∈ targets, k < n)
    (hk : ∀ j, j ∈ targets → ∀ l, l < n →
      sweepDiff n a w isSrc j l = contribDef n a w (dist n a) isSrc j l)
    (hk' : ∀ j, j ∈ nodes n idx targets → ∀ l, l < n →
      sweepDiff n (mat a idx) (vec w idx) (nodeList n idx false isSrc) j l
        = contribDef n (mat a idx) (vec w idx) (dist n (mat a idx)) (nodeList n idx false isSrc) j l) :
    nsiBetweenness n (mat a idx) (vec w idx) (nodeList n idx false isSrc) (nodes n idx targets)
      = nodeList n idx 0 (nsiBetweenness n a w isSrc targets) := by
  rw [nsiBetweenness_assembly n a w isSrc targets (dist n a) hk,
    nsiBetweenness_assembly n (mat a idx) (vec w idx) _ _ (dist n (mat a idx)) hk']
  exact nsiBetweennessDef_relabel h a w (dist n a) (dist n (mat a idx)) (dist_renumbered h a)
    isSrc targets ht

end Pyunicorn.Relabel
