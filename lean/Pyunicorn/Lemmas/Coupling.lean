import Pyunicorn.Model.Coupling
/-! Helper lemmas for C10 (core Lean only). -/
namespace Pyunicorn.Coupling

/-! ### `rabs`, `wrap8` -/

theorem rabs_nonneg (x : Rat) : 0 ≤ rabs x := by
  unfold rabs; split <;> grind

theorem rabs_zero : rabs 0 = 0 := by decide

theorem rabs_eq_zero {x : Rat} (h : rabs x = 0) : x = 0 := by
  unfold rabs at h; split at h <;> grind

theorem rabs_neg (x : Rat) : rabs (-x) = rabs x := by
  unfold rabs; split <;> split <;> grind

theorem wrap8_id {z : Int} (h1 : -128 ≤ z) (h2 : z ≤ 127) : wrap8 z = z := by
  unfold wrap8; omega

theorem wrap8_range (z : Int) : -128 ≤ wrap8 z ∧ wrap8 z ≤ 127 := by
  unfold wrap8; omega

/-! ### sums -/

theorem sumTo_congr {n : Nat} {f g : Nat → Rat} (h : ∀ k, k < n → f k = g k) :
    sumTo n f = sumTo n g := by
  induction n with
  | zero => rfl
  | succ n ih =>
    simp only [sumTo]
    rw [ih (fun k hk => h k (by omega)), h n (by omega)]

theorem countTo_congr {n : Nat} {p q : Nat → Bool} (h : ∀ k, k < n → p k = q k) :
    countTo n p = countTo n q := by
  induction n with
  | zero => rfl
  | succ n ih =>
    simp only [countTo]
    rw [ih (fun k hk => h k (by omega)), h n (by omega)]

theorem countTo_le (n : Nat) (p : Nat → Bool) : countTo n p ≤ n := by
  induction n with
  | zero => simp [countTo]
  | succ n ih => simp only [countTo]; split <;> omega

/-! ### the `abs`-maximum scan -/

theorem absmaxScan_zero (c : Nat → Rat) : absmaxScan c 0 = (0, 0) := rfl

theorem absmaxScan_succ (c : Nat → Rat) (n : Nat) :
    absmaxScan c (n + 1) =
      if rabs (c n) > rabs (absmaxScan c n).1 then (c n, n) else absmaxScan c n := rfl

/-- Loop invariant of the `tau` loop of `_cross_correlation_max`: after `n ≥ 1` iterations
the state is `(c a, a)` where `a` is the **least** index `< n` maximising `|c|`. -/
theorem absmaxScan_inv (c : Nat → Rat) (n : Nat) :
    ∃ a, a ≤ n ∧
      absmaxScan c (n + 1) = (c a, a) ∧
      (∀ t, t ≤ n → rabs (c t) ≤ rabs (c a)) ∧
      (∀ t, t < a → rabs (c t) < rabs (c a)) := by
  induction n with
  | zero =>
    refine ⟨0, Nat.le_refl _, ?_, ?_, ?_⟩
    · rw [absmaxScan_succ, absmaxScan_zero]
      by_cases h : rabs (c 0) > rabs 0
      · rw [if_pos h]
      · rw [if_neg h]
        have h0 : rabs (c 0) = 0 := by
          have := rabs_nonneg (c 0)
          simp only [rabs_zero] at h
          grind
        rw [rabs_eq_zero h0]
    · intro t ht
      have : t = 0 := by omega
      subst this; exact Rat.le_refl
    · intro t ht; omega
  | succ n ih =>
    obtain ⟨a, han, hst, hmax, hfirst⟩ := ih
    rw [absmaxScan_succ c (n + 1), hst]
    by_cases hgt : rabs (c (n + 1)) > rabs (c a)
    · refine ⟨n + 1, Nat.le_refl _, ?_, ?_, ?_⟩
      · rw [if_pos hgt]
      · intro t ht
        by_cases htn : t = n + 1
        · subst htn; exact Rat.le_refl
        · have := hmax t (by omega); grind
      · intro t ht
        have := hmax t (by omega); grind
    · refine ⟨a, by omega, ?_, ?_, hfirst⟩
      · rw [if_neg hgt]
      · intro t ht
        by_cases htn : t = n + 1
        · subst htn; grind
        · exact hmax t (by omega)

/-! ### the reversed lag index of `_cross_correlation_all` -/

theorem ccAllRow_entry (c : Nat → Rat) (tauMax cr n lag : Nat) (hn : n ≤ tauMax + 1) :
    ccAllRow c tauMax cr n lag =
      if tauMax + 1 ≤ lag + n ∧ lag ≤ tauMax then c (tauMax - lag) / (cr : Rat) else 0 := by
  induction n with
  | zero =>
    simp only [ccAllRow]
    split
    · omega
    · rfl
  | succ n ih =>
    simp only [ccAllRow, upd]
    by_cases hl : lag = tauMax - n
    · have h1 : tauMax + 1 ≤ lag + (n + 1) ∧ lag ≤ tauMax := by omega
      have h2 : tauMax - lag = n := by omega
      simp only [hl, if_true]
      rw [if_pos (by omega)]
      congr 2
      omega
    · rw [if_neg hl, ih (by omega)]
      by_cases hc : tauMax + 1 ≤ lag + n ∧ lag ≤ tauMax
      · rw [if_pos hc, if_pos (by omega)]
      · rw [if_neg hc, if_neg (by omega)]

/-! ### increment walks (histograms) -/

theorem incWalk_apply (idx : Nat → Nat) (n : Nat) (H : Nat → Nat) (t : Nat) :
    incWalk idx n H t = H t + countTo n (fun k => decide (idx k = t)) := by
  induction n with
  | zero => simp [incWalk, countTo]
  | succ n ih =>
    by_cases h : idx n = t
    · subst h
      simp only [incWalk, inc, countTo, decide_true, if_true]
      rw [ih]; omega
    · have h' : ¬ t = idx n := fun e => h e.symm
      simp only [incWalk, inc, countTo, h, decide_false, if_neg h']
      rw [ih]; simp

theorem accum_eq (step i : Nat) : accum step i = i * step := by
  induction i with
  | zero => simp [accum]
  | succ i ih => simp only [accum, ih, Nat.succ_mul]

/-- the flat index `a * nb + b` identifies the pair `(a, b)` when `b, b' < nb` -/
theorem flat_index_inj {nb a b a' b' : Nat} (hb : b < nb) (hb' : b' < nb)
    (h : a * nb + b = a' * nb + b') : a = a' ∧ b = b' := by
  have h1 : (a * nb + b) / nb = a := by
    rw [Nat.mul_comm, Nat.mul_add_div (by omega), Nat.div_eq_of_lt hb]; rfl
  have h2 : (a' * nb + b') / nb = a' := by
    rw [Nat.mul_comm, Nat.mul_add_div (by omega), Nat.div_eq_of_lt hb']; rfl
  have : a = a' := by rw [← h1, ← h2, h]
  subst this
  exact ⟨rfl, by omega⟩

/-- counting a disjoint case split -/
theorem countTo_add_split (n : Nat) (p : Nat → Bool) (q : Nat → Bool) :
    countTo n (fun k => p k && q k) + countTo n (fun k => p k && !q k) = countTo n p := by
  induction n with
  | zero => rfl
  | succ n ih =>
    simp only [countTo]
    by_cases hp : p n = true <;> by_cases hq : q n = true <;> simp [hp, hq] <;> omega

end Pyunicorn.Coupling
