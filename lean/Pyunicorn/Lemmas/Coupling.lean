import Pyunicorn.Model.Coupling
/-! Helper lemmas for C10 (core Lean only). -/
namespace Pyunicorn.Coupling

/-! ### `rabs`, `wrap8` -/

theorem rabs_nonneg (x : Rat) : 0 ≤ rabs x := by
  unfold rabs; split <;> grind

theorem rabs_zero : rabs 0 = 0 := by decide

theorem rabs_eq_zero {x : Rat} (h : rabs x = 0) : x = 0 := by
  unfold rabs at h; split at h <;> grind

theorem rabs_neg (x : Rat) : rabs (-x) = rabs x := by
  unfold rabs; split <;> split <;> grind

theorem wrap8_id {z : Int} (h1 : -128 ≤ z) (h2 : z ≤ 127) : wrap8 z = z := by
  unfold wrap8; omega

theorem wrap8_range (z : Int) : -128 ≤ wrap8 z ∧ wrap8 z ≤ 127 := by
  unfold wrap8; omega

/-! ### sums -/

theorem sumTo_congr {n : Nat} {f g : Nat → Rat} (h : ∀ k, k < n → f k = g k) :
    sumTo n f = sumTo n g := by
  induction n with
  | zero => rfl
  | succ n ih =>
    simp only [sumTo]
    rw [ih (fun k hk => h k (by omega)), h n (by omega)]

theorem countTo_congr {n : Nat} {p q : Nat → Bool} (h : ∀ k, k < n → p k = q k) :
    countTo n p = countTo n q := by
  induction n with
  | zero => rfl
  | succ n ih =>
    simp only [countTo]
    rw [ih (fun k hk => h k (by omega)), h n (by omega)]

theorem countTo_le (n : Nat) (p : Nat → Bool) : countTo n p ≤ n := by
  induction n with
  | zero => simp [countTo]
  | succ n ih => simp only [countTo]; split <;> omega

/-! ### the `abs`-maximum scan -/

theorem absmaxScan_zero (c : Nat → Rat) : absmaxScan c 0 = (0, 0) := rfl

theorem absmaxScan_succ (c : Nat → Rat) (n : Nat) :
    absmaxScan c (n + 1) =
      if rabs (c n) > rabs (absmaxScan c n).1 then (c n, n) else absmaxScan c n := rfl

/-- Loop invariant of the `tau` loop of `_cross_correlation_max`: after `n ≥ 1` iterations
the state is `(c a, a)` where `a` is the **least** index `< n` maximising `|c|`. -/
theorem absmaxScan_inv (c : Nat → Rat) (n : Nat) :
    ∃ a, a ≤ n ∧
      absmaxScan c (n + 1) = (c a, a) ∧
      (∀ t, t ≤ n → rabs (c t) ≤ rabs (c a)) ∧
      (∀ t, t < a → rabs (c t) < rabs (c a)) := by
  induction n with
  | zero =>
    refine ⟨0, Nat.le_refl _, ?_, ?_, ?_⟩
    · rw [absmaxScan_succ, absmaxScan_zero]
      by_cases h : rabs (c 0) > rabs 0
      · rw [if_pos h]
      · rw [if_neg h]
        have h0 : rabs (c 0) = 0 := by
          have := rabs_nonneg (c 0)
          simp only [rabs_zero] at h
          grind
        rw [rabs_eq_zero h0]
    · intro t ht
      have : t = 0 := by omega
      subst this; exact Rat.le_refl
    · intro t ht; omega
  | succ n ih =>
    obtain ⟨a, han, hst, hmax, hfirst⟩ := ih
    rw [absmaxScan_succ c (n + 1), hst]
    by_cases hgt : rabs (c (n + 1)) > rabs (c a)
    · refine ⟨n + 1, Nat.le_refl _, ?_, ?_, ?_⟩
      · rw [if_pos hgt]
      · intro t ht
        by_cases htn : t = n + 1
        · subst htn; exact Rat.le_refl
        · have := hmax t (by omega); grind
      · intro t ht
        have := hmax t (by omega); grind
    · refine ⟨a, by omega, ?_, ?_, hfirst⟩
      · rw [if_neg hgt]
      · intro t ht
        by_cases htn : t = n + 1
        · subst htn; grind
        · exact hmax t (by omega)

/-! ### the reversed lag index of `_cross_correlation_all` -/

theorem ccAllRow_entry (c : Nat → Rat) (tauMax cr n lag : Nat) (hn : n ≤ tauMax + 1) :
    ccAllRow c tauMax cr n lag =
      if tauMax + 1 ≤ lag + n ∧ lag ≤ tauMax then c (tauMax - lag) / (cr : Rat) else 0 := by
  induction n with
  | zero =>
    simp only [ccAllRow]
    split
    · omega
    · rfl
  | succ n ih =>
    simp only [ccAllRow, upd]
    by_cases hl : lag = tauMax - n
    · have h1 : tauMax + 1 ≤ lag + (n + 1) ∧ lag ≤ tauMax := by omega
      have h2 : tauMax - lag = n := by omega
      simp only [hl, if_true]
      rw [if_pos (by omega)]
      congr 2
      omega
    · rw [if_neg hl, ih (by omega)]
      by_cases hc : tauMax + 1 ≤ lag + n ∧ lag ≤ tauMax
      · rw [if_pos hc, if_pos (by omega)]
      · rw [if_neg hc, if_neg (by omega)]

/-! ### increment walks (histograms) -/

theorem incWalk_apply (idx : Nat → Nat) (n : Nat) (H : Nat → Nat) (t : Nat) :
    incWalk idx n H t = H t + countTo n (fun k => decide (idx k = t)) := by
  induction n with
  | zero => simp [incWalk, countTo]
  | succ n ih =>
    by_cases h : idx n = t
    · subst h
      simp only [incWalk, inc, countTo, decide_true, if_true]
      rw [ih]; omega
    · have h' : ¬ t = idx n := fun e => h e.symm
      simp only [incWalk, inc, countTo, h, decide_false, if_neg h']
      rw [ih]; simp

theorem accum_eq (step i : Nat) : accum step i = i * step := by
  induction i with
  | zero => simp [accum]
  | succ i ih => simp only [accum, ih, Nat.succ_mul]

/-- the flat index `a * nb + b` identifies the pair `(a, b)` when `b, b' < nb` -/
theorem flat_index_inj {nb a b a' b' : Nat} (hb : b < nb) (hb' : b' < nb)
    (h : a * nb + b = a' * nb + b') : a = a' ∧ b = b' := by
  have h1 : (a * nb + b) / nb = a := by
    rw [Nat.mul_comm, Nat.mul_add_div (by omega), Nat.div_eq_of_lt hb]; rfl
  have h2 : (a' * nb + b') / nb = a' := by
    rw [Nat.mul_comm, Nat.mul_add_div (by omega), Nat.div_eq_of_lt hb']; rfl
  have : a = a' := by rw [← h1, ← h2, h]
  subst this
  exact ⟨rfl, by omega⟩

/-- counting a disjoint case split -/
theorem countTo_add_split (n : Nat) (p : Nat → Bool) (q : Nat → Bool) :
    countTo n (fun k => p k && q k) + countTo n (fun k => p k && !q k) = countTo n p := by
  induction n with
  | zero => rfl
  | succ n ih =>
    simp only [countTo]
    by_cases hp : p n = true <;> by_cases hq : q n = true <;> simp [hp, hq] <;> omega

/-! ### `_symmetrize_by_absmax` -/

/-- the pair `p` touches cell `(a, b)` -/
def Touches (i j a b : Nat) : Prop := (a = i ∧ b = j) ∨ (a = j ∧ b = i)

/-- what the loop body does to the two cells of the pair `(i, j)`, as a relation between
the state `st` before and the state `r` after -/
def SymResult (st : SymState) (i j : Nat) (r : SymState) : Prop :=
  if rabs (st.1 i j) > rabs (st.1 j i) then
    r.1 i j = st.1 i j ∧ r.1 j i = st.1 i j ∧ r.2 i j = st.2 i j ∧ r.2 j i = wrap8 (-(st.2 i j))
  else
    r.1 i j = st.1 j i ∧ r.1 j i = st.1 j i ∧ r.2 j i = st.2 j i ∧ r.2 i j = wrap8 (-(st.2 j i))

/-- two states agree on the two cells of the pair `(i, j)` -/
def AgreeOn (i j : Nat) (s t : SymState) : Prop :=
  s.1 i j = t.1 i j ∧ s.1 j i = t.1 j i ∧ s.2 i j = t.2 i j ∧ s.2 j i = t.2 j i

theorem SymResult.of_agree {st st' r r' : SymState} {i j : Nat}
    (h : SymResult st i j r) (hs : AgreeOn i j st' st) (hr : AgreeOn i j r' r) :
    SymResult st' i j r' := by
  obtain ⟨a1, a2, a3, a4⟩ := hs
  obtain ⟨b1, b2, b3, b4⟩ := hr
  unfold SymResult at h ⊢
  rw [a1, a2, a3, a4, b1, b2, b3, b4]
  exact h

theorem symStep_other (st : SymState) (i j a b : Nat) (h : ¬ Touches i j a b) :
    (symStep st (i, j)).1 a b = st.1 a b ∧ (symStep st (i, j)).2 a b = st.2 a b := by
  unfold Touches at h
  unfold symStep
  simp only
  split
  · have : ¬ (a = j ∧ b = i) := fun e => h (Or.inr e)
    simp [upd2, this]
  · have : ¬ (a = i ∧ b = j) := fun e => h (Or.inl e)
    simp [upd2, this]

theorem symStep_pair (st : SymState) (i j : Nat) (hij : i ≠ j) :
    SymResult st i j (symStep st (i, j)) := by
  unfold SymResult symStep
  simp only
  by_cases h : rabs (st.1 i j) > rabs (st.1 j i)
  · have h1 : ¬ (i = j ∧ j = i) := fun e => hij e.1
    simp [h, upd2, h1]
  · have h1 : ¬ (j = i ∧ i = j) := fun e => hij e.2
    simp [h, upd2, h1]

theorem symRow_other (i n : Nat) (st : SymState) (a b : Nat)
    (h : ∀ j, j < n → i < j → ¬ Touches i j a b) :
    (symRow i n st).1 a b = st.1 a b ∧ (symRow i n st).2 a b = st.2 a b := by
  induction n with
  | zero => exact ⟨rfl, rfl⟩
  | succ n ih =>
    have ih' := ih (fun j hj => h j (by omega))
    simp only [symRow]
    split
    · rename_i hin
      have := symStep_other (symRow i n st) i n a b (h n (by omega) hin)
      exact ⟨this.1.trans ih'.1, this.2.trans ih'.2⟩
    · exact ih'

theorem symRow_agree (i n : Nat) (st : SymState) (a b : Nat)
    (h : ∀ j, j < n → i < j → ¬ (Touches i j a b ∨ Touches i j b a)) :
    AgreeOn a b (symRow i n st) st := by
  have h1 := symRow_other i n st a b (fun j hj hij e => h j hj hij (Or.inl e))
  have h2 := symRow_other i n st b a (fun j hj hij e => h j hj hij (Or.inr e))
  exact ⟨h1.1, h2.1, h1.2, h2.2⟩

theorem symRow_pair (i n : Nat) (st : SymState) (j : Nat) (hij : i < j) (hjn : j < n) :
    SymResult st i j (symRow i n st) := by
  induction n with
  | zero => omega
  | succ n ih =>
    simp only [symRow]
    by_cases hj : j = n
    · subst hj
      rw [if_pos hij]
      have hag : AgreeOn i j (symRow i j st) st :=
        symRow_agree i j st i j (fun j' hj' _ e => by unfold Touches at e; omega)
      have hs := symStep_pair (symRow i j st) i j (by omega)
      exact hs.of_agree ⟨hag.1.symm, hag.2.1.symm, hag.2.2.1.symm, hag.2.2.2.symm⟩
        ⟨rfl, rfl, rfl, rfl⟩
    · have ih' := ih (by omega)
      split
      · have o1 := symStep_other (symRow i n st) i n i j (by unfold Touches; omega)
        have o2 := symStep_other (symRow i n st) i n j i (by unfold Touches; omega)
        exact ih'.of_agree ⟨rfl, rfl, rfl, rfl⟩ ⟨o1.1, o2.1, o1.2, o2.2⟩
      · exact ih'

theorem symAll_other (N n : Nat) (st : SymState) (a b : Nat)
    (h : ∀ i j, i < n → j < N → i < j → ¬ Touches i j a b) :
    (symAll N n st).1 a b = st.1 a b ∧ (symAll N n st).2 a b = st.2 a b := by
  induction n with
  | zero => exact ⟨rfl, rfl⟩
  | succ n ih =>
    have ih' := ih (fun i j hi => h i j (by omega))
    simp only [symAll]
    have := symRow_other n N (symAll N n st) a b (fun j hj hnj => h n j (by omega) hj hnj)
    exact ⟨this.1.trans ih'.1, this.2.trans ih'.2⟩

theorem symAll_pair (N n : Nat) (st : SymState) (i j : Nat) (hij : i < j) (hjN : j < N)
    (hin : i < n) : SymResult st i j (symAll N n st) := by
  induction n with
  | zero => omega
  | succ n ih =>
    simp only [symAll]
    by_cases hi : i = n
    · subst hi
      have o1 := symAll_other N i st i j (fun i' j' hi' _ hij' => by unfold Touches; omega)
      have o2 := symAll_other N i st j i (fun i' j' hi' _ hij' => by unfold Touches; omega)
      have hs := symRow_pair i N (symAll N i st) j hij hjN
      exact hs.of_agree ⟨o1.1.symm, o2.1.symm, o1.2.symm, o2.2.symm⟩ ⟨rfl, rfl, rfl, rfl⟩
    · have ih' := ih (by omega)
      have hag := symRow_agree n N (symAll N n st) i j
        (fun j' _ _ e => by unfold Touches at e; omega)
      exact ih'.of_agree ⟨rfl, rfl, rfl, rfl⟩ hag

/-! ### symbols and histograms of the C routines -/

theorem symbolOf_lt (s rmin x : Rat) (nb : Nat) (hnb : 0 < nb) : symbolOf s rmin nb x < nb := by
  unfold symbolOf
  simp only
  split
  · rename_i hr
    rw [Int.toNat_lt' hnb, Rat.floor_lt_iff]
    have h1 : (0 : Rat) < (nb : Rat) := by exact_mod_cast hnb
    have h2 : 0 < (1 - s * (x - rmin)) * (nb : Rat) := Rat.mul_pos (by grind) h1
    have h3 : (((nb : Nat) : Int) : Rat) = (nb : Rat) := rfl
    rw [h3]
    grind
  · omega

/-- for a sample inside the range the symbol is the index of its equal-width bin:
`a ≤ rescaled * n_bins < a + 1` -/
theorem symbolOf_bin (s rmin x : Rat) (nb : Nat) (h0 : 0 ≤ s * (x - rmin)) (h1 : s * (x - rmin) < 1) :
    ((symbolOf s rmin nb x : Nat) : Rat) ≤ s * (x - rmin) * (nb : Rat) ∧
      s * (x - rmin) * (nb : Rat) < ((symbolOf s rmin nb x : Nat) : Rat) + 1 := by
  unfold symbolOf
  simp only [h1, if_true]
  have hnn : (0 : Rat) ≤ s * (x - rmin) * (nb : Rat) :=
    Rat.mul_nonneg h0 (by exact_mod_cast Nat.zero_le nb)
  have hf : 0 ≤ (s * (x - rmin) * (nb : Rat)).floor := by
    rw [Rat.le_floor_iff]; simpa using hnn
  have hc : (((s * (x - rmin) * (nb : Rat)).floor.toNat : Nat) : Rat)
      = (((s * (x - rmin) * (nb : Rat)).floor : Int) : Rat) := by
    have e : (((s * (x - rmin) * (nb : Rat)).floor.toNat : Nat) : Int)
        = (s * (x - rmin) * (nb : Rat)).floor := Int.toNat_of_nonneg hf
    have e2 := congrArg (fun z : Int => (z : Rat)) e
    exact e2
  rw [hc]
  have a := Rat.floor_le (s * (x - rmin) * (nb : Rat))
  have b := @Rat.lt_floor (s * (x - rmin) * (nb : Rat))
  exact ⟨a, by grind⟩

/-- the sample that attains the range maximum (`rescaled ≥ 1`) goes to the last bin -/
theorem symbolOf_top (s rmin x : Rat) (nb : Nat) (h1 : ¬ s * (x - rmin) < 1) :
    symbolOf s rmin nb x = nb - 1 := by
  unfold symbolOf; simp only [h1, if_false]

theorem countTo_zero {n : Nat} {p : Nat → Bool} (h : ∀ k, k < n → p k = false) : countTo n p = 0 := by
  induction n with
  | zero => rfl
  | succ n ih =>
    simp only [countTo]
    rw [ih (fun k hk => h k (by omega)), h n (by omega)]; rfl

theorem hist2dFlat_entry (symbA symbB : Nat → Nat) (n nb i j a b : Nat) (hb : b < nb)
    (hB : ∀ t, symbB t < nb) :
    hist2dFlat symbA symbB n nb i j (a * nb + b) =
      countTo n (fun k => decide (symbA (i * n + k) = a) && decide (symbB (j * n + k) = b)) := by
  unfold hist2dFlat
  rw [incWalk_apply, Nat.zero_add, accum_eq, accum_eq]
  apply countTo_congr
  intro k _
  rw [← Bool.decide_and]
  apply decide_eq_decide.mpr
  constructor
  · intro h; exact flat_index_inj (hB _) hb h
  · intro h; rw [h.1, h.2]

theorem histFlat_high (symb : Nat → Nat) (n nb N t : Nat) (hs : ∀ u, symb u < nb)
    (h : N * nb ≤ t) : histFlat symb n nb N t = 0 := by
  induction N with
  | zero => rfl
  | succ N ih =>
    have e : (N + 1) * nb = N * nb + nb := Nat.succ_mul N nb
    simp only [histFlat]
    rw [incWalk_apply, ih (by omega), accum_eq, accum_eq, Nat.zero_add]
    apply countTo_zero
    intro k _
    have := hs (N * n + k)
    exact decide_eq_false (by omega)

theorem histFlat_entry (symb : Nat → Nat) (n nb N i a : Nat) (hs : ∀ u, symb u < nb)
    (hi : i < N) (ha : a < nb) :
    histFlat symb n nb N (i * nb + a) = countTo n (fun k => decide (symb (i * n + k) = a)) := by
  induction N with
  | zero => omega
  | succ N ih =>
    simp only [histFlat]
    rw [incWalk_apply, accum_eq, accum_eq]
    by_cases hiN : i = N
    · subst hiN
      rw [histFlat_high symb n nb i _ hs (by omega), Nat.zero_add]
      apply countTo_congr
      intro k _
      apply decide_eq_decide.mpr
      constructor <;> intro h <;> omega
    · rw [ih (by omega)]
      have e1 : (i + 1) * nb ≤ N * nb := Nat.mul_le_mul_right nb (by omega)
      have e2 : (i + 1) * nb = i * nb + nb := Nat.succ_mul i nb
      have : countTo n (fun k => decide (N * nb + symb (N * n + k) = i * nb + a)) = 0 := by
        apply countTo_zero
        intro k _
        exact decide_eq_false (by omega)
      rw [this]; rfl

/-- `Σ_{b < m} f b` -/
def sumNatTo : Nat → (Nat → Nat) → Nat
  | 0, _ => 0
  | m+1, f => sumNatTo m f + f m

theorem sumNatTo_add (m : Nat) (f g : Nat → Nat) :
    sumNatTo m (fun b => f b + g b) = sumNatTo m f + sumNatTo m g := by
  induction m with
  | zero => rfl
  | succ m ih => simp only [sumNatTo, ih]; omega

theorem sumNatTo_indicator (m s c : Nat) :
    sumNatTo m (fun b => if s = b then c else 0) = if s < m then c else 0 := by
  induction m with
  | zero => rfl
  | succ m ih =>
    simp only [sumNatTo, ih]
    by_cases h1 : s < m
    · have : ¬ s = m := by omega
      simp [h1, this]; omega
    · by_cases h2 : s = m
      · simp [h2]
      · have : ¬ s < m + 1 := by omega
        simp [h1, h2, this]

theorem sumNatTo_zero (m : Nat) : sumNatTo m (fun _ => 0) = 0 := by
  induction m with
  | zero => rfl
  | succ m ih => simp only [sumNatTo, ih]

/-- summing the counts of a partition by symbol gives the unpartitioned count -/
theorem count_partition (n nb : Nat) (p : Nat → Bool) (s : Nat → Nat) (hs : ∀ k, s k < nb) :
    sumNatTo nb (fun b => countTo n (fun k => p k && decide (s k = b))) = countTo n p := by
  induction n with
  | zero => exact sumNatTo_zero nb
  | succ n ih =>
    simp only [countTo]
    rw [sumNatTo_add, ih]
    congr 1
    by_cases hp : p n = true
    · simp only [hp, Bool.true_and, decide_eq_true_eq, if_true]
      rw [sumNatTo_indicator, if_pos (hs n)]
    · have hp' : p n = false := by simpa using hp
      simp only [hp', Bool.false_and]
      exact sumNatTo_zero nb

theorem sumNatTo_congr {m : Nat} {f g : Nat → Nat} (h : ∀ b, b < m → f b = g b) :
    sumNatTo m f = sumNatTo m g := by
  induction m with
  | zero => rfl
  | succ m ih =>
    simp only [sumNatTo]
    rw [ih (fun b hb => h b (by omega)), h m (by omega)]

theorem countTo_true (n : Nat) : countTo n (fun _ => true) = n := by
  induction n with
  | zero => rfl
  | succ n ih => simp only [countTo, ih]; rfl

/-! ### the mirrored result matrix of `_mutual_information` -/

theorem flat_ne {N a b c d : Nat} (hb : b < N) (hd : d < N) (h : a ≠ c ∨ b ≠ d) :
    a * N + b ≠ c * N + d := fun e => by
  have := flat_index_inj hb hd e; omega

theorem miRow_succ {α : Type} (val : Nat → Nat → α) (N i j : Nat) (M : Nat → α) :
    miRow val N i (j + 1) M =
      if i = j then miRow val N i j M
      else upd (upd (miRow val N i j M) (i * N + j) (val i j)) (j * N + i) (val i j) := by
  simp only [miRow, accum_eq, Nat.add_comm i (j * N)]

theorem miRow_other {α : Type} (val : Nat → Nat → α) (N i n : Nat) (M : Nat → α) (t : Nat)
    (h : ∀ j, j < n → j ≠ i → t ≠ i * N + j ∧ t ≠ j * N + i) : miRow val N i n M t = M t := by
  induction n with
  | zero => rfl
  | succ n ih =>
    rw [miRow_succ]
    have ih' := ih (fun j hj => h j (by omega))
    by_cases hin : i = n
    · rw [if_pos hin]; exact ih'
    · rw [if_neg hin]
      have := h n (by omega) (fun e => hin e.symm)
      simp only [upd, if_neg this.1, if_neg this.2]
      exact ih'

theorem miRow_entry {α : Type} (val : Nat → Nat → α) (N i n : Nat) (M : Nat → α) (j : Nat)
    (hjn : j < n) (hji : j ≠ i) (hn : n ≤ N) (hi : i < N) :
    miRow val N i n M (i * N + j) = val i j ∧ miRow val N i n M (j * N + i) = val i j := by
  induction n with
  | zero => omega
  | succ n ih =>
    rw [miRow_succ]
    by_cases hj : j = n
    · subst hj
      rw [if_neg (fun e => hji e.symm)]
      simp only [upd]
      constructor
      · split <;> simp
      · simp
    · have ih' := ih (by omega) (by omega)
      by_cases hin : i = n
      · rw [if_pos hin]; exact ih'
      · rw [if_neg hin]
        have n1 : i * N + j ≠ i * N + n := flat_ne (by omega) (by omega) (Or.inr hj)
        have n2 : i * N + j ≠ n * N + i := flat_ne (by omega) hi (Or.inl hin)
        have n3 : j * N + i ≠ i * N + n := flat_ne hi (by omega) (Or.inl hji)
        have n4 : j * N + i ≠ n * N + i := flat_ne hi hi (Or.inl hj)
        simp only [upd, if_neg n1, if_neg n2, if_neg n3, if_neg n4]
        exact ih'

theorem miFlat_entry {α : Type} (zero : α) (val : Nat → Nat → α) (N n a b : Nat) (hn : n ≤ N)
    (ha : a < n) (hb : b < a) :
    miFlat zero val N n (a * N + b) = val a b ∧ miFlat zero val N n (b * N + a) = val a b := by
  induction n with
  | zero => omega
  | succ n ih =>
    simp only [miFlat]
    by_cases han : a = n
    · subst han
      exact miRow_entry val N a (a + 1) _ b (by omega) (by omega) (by omega) (by omega)
    · have ih' := ih (by omega) (by omega)
      have o1 := miRow_other val N n (n + 1) (miFlat zero val N n) (a * N + b) (fun j hj hjn =>
        ⟨flat_ne (by omega) (by omega) (Or.inl han), flat_ne (by omega) (by omega) (Or.inr (by omega))⟩)
      have o2 := miRow_other val N n (n + 1) (miFlat zero val N n) (b * N + a) (fun j hj hjn =>
        ⟨flat_ne (by omega) (by omega) (Or.inl (by omega)), flat_ne (by omega) (by omega) (Or.inr han)⟩)
      rw [o1, o2]; exact ih'

theorem miFlat_diag {α : Type} (zero : α) (val : Nat → Nat → α) (N n a : Nat) (hn : n ≤ N)
    (ha : a < N) : miFlat zero val N n (a * N + a) = zero := by
  induction n with
  | zero => rfl
  | succ n ih =>
    simp only [miFlat]
    rw [miRow_other val N n (n + 1) _ (a * N + a) (fun j hj hjn => by
      by_cases e : a = n
      · subst e
        exact ⟨flat_ne ha (by omega) (Or.inr (fun e => hjn e.symm)),
               flat_ne ha ha (Or.inl (fun e => hjn e.symm))⟩
      · exact ⟨flat_ne ha (by omega) (Or.inl e), flat_ne ha (by omega) (Or.inr e)⟩)]
    exact ih (by omega)

end Pyunicorn.Coupling
