import Pyunicorn.Lemmas.VisibilityBetw
import Pyunicorn.Lemmas.NetPaths
/-!
Round 4: **`pathLen` (the specification the closeness / betweenness theorems of C14 are stated
with) is the result of the breadth-first search** `Pyunicorn.Net.dist` — property C03's model of
`Network.path_lengths()` (`graph.distances()`): frontier BFS with early exit and fuel `n`,
compared with the implementation by C03's correspondence and, for visibility graphs, by the
`pl` request of `harness/c14.py`.  C03's lemmas are imported, not repeated; both sides are
characterised by walks (`ReachLe`: at most `k` links; `Net.Walk`: exactly `k` links).
-/
namespace Pyunicorn.Visibility
open Pyunicorn Pyunicorn.Net

theorem reachLe_of_walk (N : Nat) (A : List (List Bool)) (i : Nat) (hi : i < N) :
    ∀ v m, Walk N (adjFn A) i v m → v < N → ReachLe N A i v m := by
  intro v m w
  induction w with
  | nil => intro _; exact .here 0 hi
  | snoc _ hw ha ih => intro hv; exact .step _ _ _ (ih hw) hv ha

theorem walk_of_reachLe (N : Nat) (A : List (List Bool)) (i v k : Nat)
    (h : ReachLe N A i v k) : ∃ m, m ≤ k ∧ Walk N (adjFn A) i v m := by
  induction h with
  | here k _ => exact ⟨0, Nat.zero_le _, .nil i⟩
  | step u v k hu _ ha ih =>
    obtain ⟨m, hm, w⟩ := ih
    exact ⟨m + 1, by omega, .snoc w hu.lt ha⟩

/-- finite BFS distances are smaller than the number of nodes (as `dist_lt` of
`Properties/C03.lean`, from the same lemmas) -/
theorem lev_lt (n : Nat) (a : Adj) (i j k : Nat) (hj : j < n)
    (h : lev n a i n j = some k) : k < n := by
  obtain ⟨e, he, hE⟩ := exists_levelEmpty n a i
  have hk := lev_exact n a i h
  apply Classical.byContradiction
  intro hc
  obtain ⟨r, hr⟩ := Nat.exists_eq_add_of_le (show e ≤ k by omega)
  have hEk : LevelEmpty n a i k := by
    rw [hr]
    clear hr hk h hc
    induction r with
    | zero => exact hE
    | succ r ih => exact levelEmpty_succ n a i ih
  exact hEk j hj hk

/-- **`pathLen` = the BFS of C03's model of `path_lengths()`** -/
theorem pathLen_eq_dist (N : Nat) (A : List (List Bool)) (i j : Nat) (hi : i < N) (hj : j < N) :
    pathLen N A i j = dist N (adjFn A) i j := by
  rw [dist_eq_lev N (adjFn A) i hi j hj]
  obtain ⟨hs, hn⟩ := pathLen_spec N A i j hi hj
  cases hp : pathLen N A i j with
  | some d =>
    obtain ⟨hd, hr, hmin⟩ := hs d hp
    obtain ⟨m, hm, w⟩ := walk_of_reachLe N A i j d hr
    have hmd : m = d := by
      by_contra hne
      exact hmin m (by omega) (reachLe_of_walk N A i hi j m w hj)
    subst hmd
    symm
    rw [lev_some_iff]
    exact ⟨by omega, w, fun k hk wk => hmin k hk (reachLe_of_walk N A i hi j k wk hj)⟩
  | none =>
    cases hl : lev N (adjFn A) i N j with
    | none => rfl
    | some k =>
      have hk := lev_lt N (adjFn A) i j k hj hl
      obtain ⟨_, w, _⟩ := (lev_some_iff N (adjFn A) i N j k).mp hl
      exact absurd (reachLe_of_walk N A i hi j k w hj) (hn hp k hk)

end Pyunicorn.Visibility
