import Pyunicorn.Model.Events
/-! C16: order-statistic facts about the model of `np.quantile` (method `linear`)
(core Lean only). -/
namespace Pyunicorn.Events

/-- `np.sort` as the model's `quantile` uses it -/
def sortedOf (a : List Rat) : List Rat := a.mergeSort (fun x y => decide (x ≤ y))

theorem sortedOf_perm (a : List Rat) : (sortedOf a).Perm a := List.mergeSort_perm _ _

theorem sortedOf_length (a : List Rat) : (sortedOf a).length = a.length :=
  (sortedOf_perm a).length_eq

theorem sortedOf_pairwise (a : List Rat) : (sortedOf a).Pairwise (· ≤ ·) := by
  have := List.pairwise_mergeSort (le := fun x y : Rat => decide (x ≤ y))
    (fun x y z hxy hyz => by simp only [decide_eq_true_eq] at *; exact Rat.le_trans hxy hyz)
    (fun x y => by
      simp only [Bool.or_eq_true, decide_eq_true_eq]
      exact Rat.le_total) a
  simpa [sortedOf] using this

theorem sorted_getElem_le (s : List Rat) (hs : s.Pairwise (· ≤ ·)) (i j : Nat) (hj : j < s.length)
    (hij : i ≤ j) : s[i]'(by omega) ≤ s[j] := by
  by_cases h : i = j
  · subst h; exact Rat.le_refl
  · exact (List.pairwise_iff_getElem.1 hs) i j (by omega) hj (by omega)

/-- in a sorted list with `s[k] ≤ v`, only the `n-1-k` entries after index `k` can exceed `v` -/
theorem countP_gt_le_of_sorted (s : List Rat) (hs : s.Pairwise (· ≤ ·)) (k : Nat)
    (hk : k < s.length) (v : Rat) (hv : s[k] ≤ v) :
    s.countP (fun d => decide (d > v)) ≤ s.length - 1 - k := by
  have hsplit := List.take_append_drop (k + 1) s
  have h0 : (s.take (k + 1)).countP (fun d => decide (d > v)) = 0 := by
    rw [List.countP_eq_zero]
    intro d hd
    rw [List.mem_take_iff_getElem] at hd
    obtain ⟨j, hj, rfl⟩ := hd
    have := sorted_getElem_le s hs j k hk (by omega)
    simp only [decide_eq_true_eq]
    grind
  have h1 : (s.drop (k + 1)).countP (fun d => decide (d > v)) ≤ (s.drop (k + 1)).length :=
    List.countP_le_length
  calc s.countP (fun d => decide (d > v))
      = (s.take (k + 1) ++ s.drop (k + 1)).countP (fun d => decide (d > v)) := by rw [hsplit]
    _ = (s.take (k + 1)).countP _ + (s.drop (k + 1)).countP _ := List.countP_append
    _ ≤ s.length - 1 - k := by rw [h0]; simp only [List.length_drop] at h1; omega

/-- in a sorted list with `v ≤ s[k]`, only the `k` entries before index `k` can be below `v` -/
theorem countP_lt_le_of_sorted (s : List Rat) (hs : s.Pairwise (· ≤ ·)) (k : Nat)
    (hk : k < s.length) (v : Rat) (hv : v ≤ s[k]) :
    s.countP (fun d => decide (d < v)) ≤ k := by
  have hsplit := List.take_append_drop k s
  have h0 : (s.drop k).countP (fun d => decide (d < v)) = 0 := by
    rw [List.countP_eq_zero]
    intro d hd
    rw [List.mem_drop_iff_getElem] at hd
    obtain ⟨j, hj, rfl⟩ := hd
    have := sorted_getElem_le s hs k (k + j) (by omega) (by omega)
    simp only [decide_eq_true_eq]
    grind
  have h1 : (s.take k).countP (fun d => decide (d < v)) ≤ (s.take k).length :=
    List.countP_le_length
  calc s.countP (fun d => decide (d < v))
      = (s.take k ++ s.drop k).countP (fun d => decide (d < v)) := by rw [hsplit]
    _ = (s.take k).countP _ + (s.drop k).countP _ := List.countP_append
    _ ≤ k := by rw [h0]; simp only [List.length_take] at h1; omega

/-- the lower index `⌊(n-1)q⌋` of the model's `quantile` -/
def qLo (n : Nat) (q : Rat) : Nat := (((n : Rat) - 1) * q).floor.toNat
/-- the upper index -/
def qHi (n : Nat) (q : Rat) : Nat := Nat.min (qLo n q + 1) (n - 1)

theorem quantile_eq (a : List Rat) (q : Rat) :
    quantile a q = (sortedOf a).getD (qLo a.length q) 0 +
      ((sortedOf a).getD (qHi a.length q) 0 - (sortedOf a).getD (qLo a.length q) 0) *
        (((a.length : Rat) - 1) * q - (qLo a.length q : Rat)) := by
  simp only [quantile, sortedOf, qLo, qHi, List.length_mergeSort]

/-- facts about the virtual index `h = (n-1)q` for `n ≥ 1`, `0 ≤ q ≤ 1` -/
theorem qLo_facts (n : Nat) (q : Rat) (hn : 1 ≤ n) (h0 : 0 ≤ q) (h1 : q ≤ 1) :
    qLo n q ≤ n - 1 ∧ (qLo n q : Rat) ≤ ((n : Rat) - 1) * q ∧
      ((n : Rat) - 1) * q < (qLo n q : Rat) + 1 := by
  have hn' : (0 : Rat) ≤ (n : Rat) - 1 := by
    have : ((1 : Nat) : Rat) ≤ (n : Rat) := Rat.natCast_le_natCast.2 hn
    grind
  have hh0 : (0 : Rat) ≤ ((n : Rat) - 1) * q := Rat.mul_nonneg hn' h0
  have hh1 : ((n : Rat) - 1) * q ≤ (n : Rat) - 1 := by
    have := Rat.mul_le_mul_of_nonneg_left h1 hn'
    grind
  have hf0 : (0 : Int) ≤ (((n : Rat) - 1) * q).floor := Rat.le_floor_iff.2 (by simpa using hh0)
  have hcast : ((qLo n q : Nat) : Int) = (((n : Rat) - 1) * q).floor := Int.toNat_of_nonneg hf0
  have hcastR : (qLo n q : Rat) = (((((n : Rat) - 1) * q).floor : Int) : Rat) := by
    rw [← hcast, Rat.intCast_natCast]
  have hle := Rat.floor_le (((n : Rat) - 1) * q)
  have hlt := Rat.lt_floor_add_one (((n : Rat) - 1) * q)
  refine ⟨?_, by rw [hcastR]; exact hle, ?_⟩
  · have : (((n : Rat) - 1) * q).floor ≤ ((n - 1 : Nat) : Int) := by
      have h2 : ((((n : Rat) - 1) * q).floor : Rat) ≤ (((n - 1 : Nat) : Int) : Rat) := by
        have e : (((n - 1 : Nat) : Int) : Rat) = (n : Rat) - 1 := by
          rw [Rat.intCast_natCast]
          have : ((n - 1 : Nat) : Rat) + ((1 : Nat) : Rat) = (n : Rat) := by
            rw [← Rat.natCast_add]; congr 1; omega
          grind
        rw [e]
        exact Rat.le_trans hle hh1
      exact Rat.intCast_le_intCast.1 h2
    omega
  · rw [hcastR]
    have e : (((((n : Rat) - 1) * q).floor + 1 : Int) : Rat)
        = (((((n : Rat) - 1) * q).floor : Int) : Rat) + 1 := by
      rw [Rat.intCast_add]; rfl
    rw [← e]; exact hlt

/-- **the `q`-quantile lies between the two neighbouring order statistics** -/
theorem quantile_bracket (a : List Rat) (q : Rat) (hne : a ≠ []) (h0 : 0 ≤ q) (h1 : q ≤ 1) :
    ∃ (hlo : qLo a.length q < (sortedOf a).length) (hhi : qHi a.length q < (sortedOf a).length),
      (sortedOf a)[qLo a.length q] ≤ quantile a q ∧ quantile a q ≤ (sortedOf a)[qHi a.length q] := by
  have hn : 1 ≤ a.length := by
    cases a with
    | nil => exact absurd rfl hne
    | cons _ _ => simp
  obtain ⟨f1, f2, f3⟩ := qLo_facts a.length q hn h0 h1
  have hl := sortedOf_length a
  have hlo : qLo a.length q < (sortedOf a).length := by omega
  have hhi : qHi a.length q < (sortedOf a).length := by
    simp only [qHi, Nat.min_def]; split <;> omega
  refine ⟨hlo, hhi, ?_⟩
  have hle : (sortedOf a)[qLo a.length q] ≤ (sortedOf a)[qHi a.length q] :=
    sorted_getElem_le _ (sortedOf_pairwise a) _ _ hhi (by simp only [qHi, Nat.min_def]; split <;> omega)
  rw [quantile_eq]
  simp only [List.getD_eq_getElem?_getD, List.getElem?_eq_getElem hlo,
    List.getElem?_eq_getElem hhi, Option.getD_some]
  have hd : 0 ≤ (sortedOf a)[qHi a.length q] - (sortedOf a)[qLo a.length q] := by grind
  have hg0 : 0 ≤ ((a.length : Rat) - 1) * q - (qLo a.length q : Rat) := by grind
  have hg1 : ((a.length : Rat) - 1) * q - (qLo a.length q : Rat) ≤ 1 := by grind
  have m0 := Rat.mul_nonneg hd hg0
  have m1 := Rat.mul_le_mul_of_nonneg_left hg1 hd
  constructor <;> grind

/-- if the virtual index `(n-1)q` is the integer `k`, the quantile is the order statistic `k` -/
theorem quantile_at_order_statistic (a : List Rat) (q : Rat) (k : Nat)
    (hk : ((a.length : Rat) - 1) * q = (k : Rat)) : quantile a q = (sortedOf a).getD k 0 := by
  have hlo : qLo a.length q = k := by
    simp only [qLo, hk]
    rw [← Rat.intCast_natCast, Rat.floor_intCast]
    simp
  rw [quantile_eq, hlo, hk]
  grind

end Pyunicorn.Events
