import Pyunicorn.Lemmas.NsiCompArenas
/-!
Round 5: the sub-network of a component of an undirected network is connected, so the
absorbing-walk systems the wrapper of `nsi_arenas_betweenness` solves on it are regular
(`arenas_regular`), and the wrapper theorem needs no regularity hypothesis.
-/
namespace Pyunicorn.Nsi

theorem walk_snoc {G : Gr} {a b k : Nat} (w : Walk G a b k) (c : Nat) (hc : c < G.n)
    (hbc : G.adj b c = true) : Walk G a c (k + 1) := by
  induction w with
  | nil a ha => exact Walk.cons a c c 0 ha hbc (Walk.nil c hc)
  | cons a x b k ha hax _ ih => exact Walk.cons a x c (k + 1) ha hax (ih hbc)

theorem walk_reverse {G : Gr} (hsym : ∀ i j, G.adj i j = G.adj j i) {a b k : Nat}
    (w : Walk G a b k) : Walk G b a k := by
  induction w with
  | nil a ha => exact Walk.nil a ha
  | cons a x b k ha hax _ ih => exact walk_snoc ih a ha (by rw [hsym x a]; exact hax)

theorem walk_append {G : Gr} {a b c k m : Nat} (w : Walk G a b k) (w' : Walk G b c m) :
    Walk G a c (k + m) := by
  induction w with
  | nil a _ => rw [Nat.zero_add]; exact w'
  | cons a x b k ha hax _ ih =>
    rw [show k + 1 + m = (k + m) + 1 by omega]
    exact Walk.cons a x c (k + m) ha hax (ih w')

theorem reach_iff_walk (G : Gr) (a b : Nat) (ha : a < G.n) :
    (bfsDist G a b).isSome = true ↔ ∃ k, Walk G a b k := by
  have hd := bfsDist_isDist G a b ha
  constructor
  · intro h
    cases hb : bfsDist G a b with
    | none => rw [hb] at h; simp at h
    | some d => rw [hb] at hd; exact ⟨d, hd.1⟩
  · rintro ⟨k, wk⟩
    cases hb : bfsDist G a b with
    | none => rw [hb] at hd; exact absurd wk (hd k)
    | some d => rfl

/-- a component is closed under links -/
theorem compNodes_closed (G : Gr) (a : Nat) (ha : a < G.n) (x : Nat) (hx : x ∈ compNodes G a)
    (b : Nat) (hb : b < G.n) (hxb : G.adj x b = true) : b ∈ compNodes G a := by
  obtain ⟨_, hr⟩ := (mem_compNodes G a x).mp hx
  obtain ⟨k, wk⟩ := (reach_iff_walk G a x ha).mp hr
  exact (mem_compNodes G a b).mpr ⟨hb, (reach_iff_walk G a b ha).mpr ⟨k + 1, walk_snoc wk b hb hxb⟩⟩

theorem getD_idxOf (nodes : List Nat) (x : Nat) (hx : x ∈ nodes) :
    nodes.getD (nodes.idxOf x) 0 = x := by
  have h : nodes.idxOf x < nodes.length := List.idxOf_lt_length_iff.mpr hx
  simp [List.getD_eq_getElem?_getD, h]

/-- a walk of `G` that starts inside a link-closed node list is a walk of its sub-network -/
theorem walk_to_sub (G : Gr) (nodes : List Nat)
    (hclosed : ∀ x ∈ nodes, ∀ b, b < G.n → G.adj x b = true → b ∈ nodes) {x y k : Nat}
    (w : Walk G x y k) (hx : x ∈ nodes) :
    Walk (subGr G nodes) (nodes.idxOf x) (nodes.idxOf y) k := by
  induction w with
  | nil x _ => exact Walk.nil _ (List.idxOf_lt_length_iff.mpr hx)
  | cons x b y k _ hxb w ih =>
    have hb : b ∈ nodes := hclosed x hx b w.start_lt hxb
    refine Walk.cons _ (nodes.idxOf b) _ k (List.idxOf_lt_length_iff.mpr hx) ?_ (ih hb)
    show G.adj (nodes.getD (nodes.idxOf x) 0) (nodes.getD (nodes.idxOf b) 0) = true
    rw [getD_idxOf nodes x hx, getD_idxOf nodes b hb]; exact hxb

/-- **the sub-network of a component of an undirected network is connected** -/
theorem subGr_comp_connected (G : Gr) (hsym : ∀ i j, G.adj i j = G.adj j i) (a : Nat)
    (ha : a < G.n) : Connected (subGr G (compNodes G a)) := by
  intro i j hi hj
  set nodes := compNodes G a with hnodes
  have hi' : i < nodes.length := hi
  have hj' : j < nodes.length := hj
  have hnd : nodes.Nodup := compNodes_nodup G a
  have hxm : nodes.getD i 0 ∈ nodes := by
    have : nodes.getD i 0 = nodes[i] := by simp [List.getD_eq_getElem?_getD, hi']
    rw [this]; exact List.getElem_mem hi'
  have hym : nodes.getD j 0 ∈ nodes := by
    have : nodes.getD j 0 = nodes[j] := by simp [List.getD_eq_getElem?_getD, hj']
    rw [this]; exact List.getElem_mem hj'
  obtain ⟨k1, w1⟩ := (reach_iff_walk G a _ ha).mp ((mem_compNodes G a _).mp hxm).2
  obtain ⟨k2, w2⟩ := (reach_iff_walk G a _ ha).mp ((mem_compNodes G a _).mp hym).2
  have w := walk_append (walk_reverse hsym w1) w2
  have ws := walk_to_sub G nodes (fun x hx b hb hxb => compNodes_closed G a ha x hx b hb hxb) w hxm
  have ei : nodes.idxOf (nodes.getD i 0) = i :=
    ((getD_eq_v_iff _ nodes hnd hxm i hi').mp rfl).symm
  have ej : nodes.idxOf (nodes.getD j 0) = j :=
    ((getD_eq_v_iff _ nodes hnd hym j hj').mp rfl).symm
  rw [ei, ej] at ws
  exact ⟨_, ws⟩

/-- the split copy of an undirected network is undirected -/
theorem split_adj_symm (G : Gr) (v : Nat) (p : Rat) (hsym : ∀ i j, G.adj i j = G.adj j i)
    (i j : Nat) : (split G v p).adj i j = (split G v p).adj j i := by
  rw [split_adj_eq, split_adj_eq, hsym (collapse G.n v i) (collapse G.n v j)]
  by_cases h1 : i = G.n <;> by_cases h2 : j = G.n <;> by_cases h3 : i = v <;>
    by_cases h4 : j = v <;> simp [h1, h2, h3, h4]

end Pyunicorn.Nsi
