import Pyunicorn.Lemmas.Visibility
import Mathlib.Tactic.Linarith
import Mathlib.Tactic.FieldSimp
import Mathlib.Tactic.Ring
import Mathlib.Algebra.Order.Field.Rat
import Mathlib.Data.List.Nodup
import Mathlib.Data.List.Range
/-! Helper lemmas for C14, part 2: the geometric criterion (ordered-field arithmetic). -/
namespace Pyunicorn.Visibility

/-- slope form ⇔ chord form, for `ta < tk`, `ta < tb` -/
theorem slope_lt_iff_chord (xa xk xb ta tk tb : Rat) (hk : ta < tk) (hb : ta < tb) :
    (xk - xa) / (tk - ta) < (xb - xa) / (tb - ta) ↔
      xk < xa + (xb - xa) * ((tk - ta) / (tb - ta)) := by
  have p : 0 < tk - ta := by linarith
  have q : 0 < tb - ta := by linarith
  rw [div_lt_div_iff₀ p q, ← sub_lt_iff_lt_add', ← mul_div_assoc, lt_div_iff₀ q]

/-- the chord seen from the right end is the same line -/
theorem chord_symm (xa xb ta tk tb : Rat) (hb : ta < tb) :
    xa + (xb - xa) * ((tk - ta) / (tb - ta)) = xb + (xa - xb) * ((tb - tk) / (tb - ta)) := by
  have q : tb - ta ≠ 0 := by linarith
  field_simp
  ring

theorem scale_slope (a c xk xi b d tk ti : Rat) (hc : c ≠ 0) :
    ((a * xk + b) - (a * xi + b)) / ((c * tk + d) - (c * ti + d))
      = (a / c) * ((xk - xi) / (tk - ti)) := by
  by_cases h : tk - ti = 0
  · have : (c * tk + d) - (c * ti + d) = 0 := by
      have : (c * tk + d) - (c * ti + d) = c * (tk - ti) := by ring
      rw [this, h, mul_zero]
    rw [this, h]; simp
  · have h2 : c * tk + d - (c * ti + d) ≠ 0 := by
      have : (c * tk + d) - (c * ti + d) = c * (tk - ti) := by ring
      rw [this]; exact mul_ne_zero hc h
    field_simp
    ring

/-! ### the geometric predicates of the property statement -/

/-- sample `k` is present and lies strictly below the straight line joining the
(present) samples `a` and `b` -/
def BelowChord (x : List Val) (t : List Rat) (a b k : Nat) : Prop :=
  ∃ xa xb xk : Rat, valAt x a = some xa ∧ valAt x b = some xb ∧ valAt x k = some xk ∧
    xk < xa + (xb - xa) * ((tAt t k - tAt t a) / (tAt t b - tAt t a))

/-- natural visibility of `a < b`: both present, every intermediate sample present
and strictly below the chord -/
def NVisible (x : List Val) (t : List Rat) (a b : Nat) : Prop :=
  valAt x a ≠ none ∧ valAt x b ≠ none ∧ ∀ k, a < k → k < b → BelowChord x t a b k

/-- horizontal visibility of `a < b`: both present, every intermediate sample
present and strictly below both -/
def HVisible (x : List Val) (a b : Nat) : Prop :=
  ∃ xa xb : Rat, valAt x a = some xa ∧ valAt x b = some xb ∧
    ∀ k, a < k → k < b → ∃ xk : Rat, valAt x k = some xk ∧ xk < xa ∧ xk < xb

theorem vlt_slope_iff (x : List Val) (t : List Rat) (a b k : Nat)
    (hk : tAt t a < tAt t k) (hb : tAt t a < tAt t b) :
    vlt (slopeVal x t a k) (slopeVal x t a b) = true ↔ BelowChord x t a b k := by
  unfold slopeVal BelowChord
  cases hxa : valAt x a with
  | none => cases valAt x k <;> cases valAt x b <;> simp [vlt, vsub, vdivR]
  | some xa =>
    cases hxk : valAt x k with
    | none => cases valAt x b <;> simp [vlt, vsub, vdivR]
    | some xk =>
      cases hxb : valAt x b with
      | none => simp [vlt, vsub, vdivR]
      | some xb =>
        simp only [vlt, vsub, vdivR, Option.map_some, decide_eq_true_eq, Option.some.injEq]
        rw [slope_lt_iff_chord xa xk xb _ _ _ hk hb]
        constructor
        · intro h; exact ⟨xa, xb, xk, rfl, rfl, rfl, h⟩
        · rintro ⟨_, _, _, rfl, rfl, rfl, h⟩; exact h

theorem masked_nanMask_of_some (x : List Val) (k : Nat) (v : Rat) (h : valAt x k = some v) :
    masked (some (nanMask x)) k = false := by
  unfold valAt at h
  cases hk : x[k]? with
  | none => rw [hk] at h; cases h
  | some w =>
    rw [hk] at h
    simp only [Option.join_some] at h
    simp [masked, nanMask, List.getD, List.getElem?_map, hk, h]

theorem masked_nanMask_lt (x : List Val) (k : Nat) (h : k < x.length) :
    masked (some (nanMask x)) k = false ↔ valAt x k ≠ none := by
  rw [valAt_lt x k h]
  simp only [masked, nanMask, List.getD, List.getElem?_map, List.getElem?_eq_getElem h,
    Option.map_some, Option.getD_some]
  cases x[k] <;> simp

theorem vlt_cmin_iff (v : Val) (xa xb : Rat) :
    vlt v (cmin (some xa) (some xb)) = true ↔ ∃ xk : Rat, v = some xk ∧ xk < xa ∧ xk < xb := by
  cases v with
  | none => simp [vlt]
  | some xk =>
    simp only [cmin, vlt, decide_eq_true_eq, Option.some.injEq, exists_eq_left']
    by_cases h : xb < xa
    · simp only [h, if_true, decide_eq_true_eq]
      constructor
      · intro h1; exact ⟨by linarith, h1⟩
      · intro h1; exact h1.2
    · simp only [h, if_false, decide_eq_true_eq]
      constructor
      · intro h1; exact ⟨h1, by linarith⟩
      · intro h1; exact h1.1

/-! ### positive affine maps -/

/-- `x ↦ a·x + b` on a sample (NaN stays NaN) -/
def affV (a b : Rat) (v : Val) : Val := v.map (fun r => a * r + b)
/-- `t ↦ c·t + d` -/
def affT (c d : Rat) (r : Rat) : Rat := c * r + d
def scaleV (r : Rat) (v : Val) : Val := v.map (fun s => r * s)

def mapE {α β : Type} (f : α → β) : Except Err α → Except Err β
  | .ok v => .ok (f v)
  | .error e => .error e

theorem rd_map {α β : Type} (f : α → β) (l : List α) (k : Nat) :
    rd (l.map f) k = mapE f (rd l k) := by
  simp only [rd, List.getElem?_map]
  cases l[k]? <;> rfl

theorem vlt_scale (r : Rat) (hr : 0 < r) (u v : Val) :
    vlt (scaleV r u) (scaleV r v) = vlt u v := by
  cases u <;> cases v <;> simp [vlt, scaleV, mul_lt_mul_iff_right₀ hr]

theorem vlt_aff (a b : Rat) (ha : 0 < a) (u v : Val) :
    vlt (affV a b u) (affV a b v) = vlt u v := by
  cases u <;> cases v <;> simp [vlt, affV, mul_lt_mul_iff_right₀ ha]

theorem cmin_aff (a b : Rat) (ha : 0 < a) (u v : Val) :
    cmin (affV a b u) (affV a b v) = affV a b (cmin u v) := by
  simp only [cmin, vlt_aff a b ha]
  split <;> rfl

theorem slope_affine (x : List Val) (t : List Rat) (a b c d : Rat) (hc : c ≠ 0) (i k : Nat) :
    slope (x.map (affV a b)) (t.map (affT c d)) i k = mapE (scaleV (a / c)) (slope x t i k) := by
  simp only [slope, rd_map]
  cases rd x k with
  | error e => rfl
  | ok xk =>
    cases rd x i with
    | error e => rfl
    | ok xi =>
      cases rd t k with
      | error e => rfl
      | ok tk =>
        cases rd t i with
        | error e => rfl
        | ok ti =>
          simp only [mapE, bind_ok, affT]
          have hz : (c * tk + d - (c * ti + d) = 0) ↔ (tk - ti = 0) := by
            have : c * tk + d - (c * ti + d) = c * (tk - ti) := by ring
            rw [this, mul_eq_zero]
            constructor
            · rintro (h | h)
              · exact absurd h hc
              · exact h
            · intro h; exact Or.inr h
          by_cases h0 : tk - ti = 0
          · rw [if_pos (hz.mpr h0), if_pos h0]
          · rw [if_neg (fun h => h0 (hz.mp h)), if_neg h0]
            congr 1
            cases xk with
            | none => cases xi <;> rfl
            | some xk =>
              cases xi with
              | none => rfl
              | some xi =>
                simp only [vsub, vdivR, affV, scaleV, Option.map_some]
                rw [scale_slope a c xk xi b d tk ti hc]

theorem scan_congr (c1 c2 : Nat → Except Err Bool) (h : ∀ k, c1 k = c2 k) (j f k : Nat) :
    scan c1 j f k = scan c2 j f k := by
  have : c1 = c2 := funext h
  rw [this]

theorem condN_affine (x : List Val) (t : List Rat) (mv : Option (List Bool)) (a b c d : Rat)
    (ha : 0 < a) (hc : 0 < c) (i : Nat) (test : Val) (k : Nat) :
    condN (x.map (affV a b)) (t.map (affT c d)) mv i (scaleV (a / c) test) k
      = condN x t mv i test k := by
  have hr : 0 < a / c := div_pos ha hc
  have key : (do let s ← mapE (scaleV (a / c)) (slope x t i k)
                 Except.ok (vlt s (scaleV (a / c) test)) : Except Err Bool)
      = (do let s ← slope x t i k
            Except.ok (vlt s test)) := by
    cases slope x t i k with
    | error e => rfl
    | ok s => simp only [mapE, bind_ok, vlt_scale _ hr]
  simp only [condN, slope_affine x t a b c d (ne_of_gt hc), key]

theorem farN_affine (x : List Val) (t : List Rat) (mv : Option (List Bool)) (a b c d : Rat)
    (ha : 0 < a) (hc : 0 < c) (i j : Nat) :
    farN (x.map (affV a b)) (t.map (affT c d)) mv i j = farN x t mv i j := by
  simp only [farN, slope_affine x t a b c d (ne_of_gt hc)]
  cases slope x t i j with
  | error e => rfl
  | ok test =>
    simp only [mapE, bind_ok]
    rw [scan_congr _ _ (condN_affine x t mv a b c d ha hc i test)]

theorem farH_affine (x : List Val) (a b : Rat) (ha : 0 < a) (i j : Nat) :
    farH (x.map (affV a b)) i j = farH x i j := by
  simp only [farH, rd_map]
  cases rd x i with
  | error e => rfl
  | ok xi =>
    cases rd x j with
    | error e => rfl
    | ok xj =>
      simp only [mapE, bind_ok, cmin_aff a b ha]
      rw [scan_congr (condH (x.map (affV a b)) (affV a b (cmin xi xj))) (condH x (cmin xi xj))]
      intro k
      simp only [condH, rd_map]
      cases rd x k with
      | error e => rfl
      | ok xk => simp only [mapE, bind_ok, vlt_aff a b ha]

theorem filterE_congr {α : Type} (f g : α → Except Err Bool) (h : ∀ a, f a = g a) (l : List α) :
    filterE f l = filterE g l := by
  have : f = g := funext h
  rw [this]

/-! ### time reversal -/

/-- timings of the time-reversed series: `c - t`, read backwards -/
def revT (c : Rat) (t : List Rat) : List Rat := t.reverse.map (fun r => c - r)

theorem valAt_reverse (x : List Val) (N k : Nat) (hx : x.length = N) (hk : k < N) :
    valAt x.reverse k = valAt x (N - 1 - k) := by
  simp only [valAt]
  rw [List.getElem?_reverse (by omega), hx]

theorem tAt_revT (c : Rat) (t : List Rat) (N k : Nat) (ht : t.length = N) (hk : k < N) :
    tAt (revT c t) k = c - tAt t (N - 1 - k) := by
  have h1 : N - 1 - k < t.length := by omega
  simp only [tAt, revT, List.getD, List.getElem?_map]
  rw [List.getElem?_reverse (by omega), ht, List.getElem?_eq_getElem h1]
  simp

theorem belowChord_reverse (x : List Val) (t : List Rat) (c : Rat) (N a b k : Nat)
    (hx : x.length = N) (ht : t.length = N) (hak : a < k) (hkb : k < b) (hb : b < N)
    (hinc : tAt t a < tAt t b) :
    BelowChord x.reverse (revT c t) (N - 1 - b) (N - 1 - a) (N - 1 - k)
      ↔ BelowChord x t a b k := by
  unfold BelowChord
  rw [valAt_reverse x N _ hx (by omega), valAt_reverse x N _ hx (by omega),
    valAt_reverse x N _ hx (by omega), tAt_revT c t N _ ht (by omega),
    tAt_revT c t N _ ht (by omega), tAt_revT c t N _ ht (by omega)]
  have e1 : N - 1 - (N - 1 - b) = b := by omega
  have e2 : N - 1 - (N - 1 - a) = a := by omega
  have e3 : N - 1 - (N - 1 - k) = k := by omega
  rw [e1, e2, e3]
  have key : ∀ xa xb : Rat,
      xb + (xa - xb) * ((c - tAt t k - (c - tAt t b)) / (c - tAt t a - (c - tAt t b)))
        = xa + (xb - xa) * ((tAt t k - tAt t a) / (tAt t b - tAt t a)) := by
    intro xa xb
    rw [chord_symm xa xb (tAt t a) (tAt t k) (tAt t b) hinc]
    congr 2
    have h1 : c - tAt t k - (c - tAt t b) = tAt t b - tAt t k := by ring
    have h2 : c - tAt t a - (c - tAt t b) = tAt t b - tAt t a := by ring
    rw [h1, h2]
  constructor
  · rintro ⟨xb, xa, xk, h1, h2, h3, h4⟩
    exact ⟨xa, xb, xk, h2, h1, h3, by rw [← key]; exact h4⟩
  · rintro ⟨xa, xb, xk, h1, h2, h3, h4⟩
    exact ⟨xb, xa, xk, h2, h1, h3, by rw [key]; exact h4⟩

/-- the criterion seen from the right end is the criterion seen from the left end -/
theorem nvisible_reverse (x : List Val) (t : List Rat) (c : Rat) (N a b : Nat)
    (hx : x.length = N) (ht : t.length = N) (hab : a < b) (hb : b < N)
    (hinc : tAt t a < tAt t b) :
    NVisible x.reverse (revT c t) (N - 1 - b) (N - 1 - a) ↔ NVisible x t a b := by
  unfold NVisible
  rw [valAt_reverse x N _ hx (by omega), valAt_reverse x N _ hx (by omega)]
  have e1 : N - 1 - (N - 1 - b) = b := by omega
  have e2 : N - 1 - (N - 1 - a) = a := by omega
  rw [e1, e2]
  constructor
  · rintro ⟨h1, h2, h3⟩
    refine ⟨h2, h1, fun k hk1 hk2 => ?_⟩
    have := h3 (N - 1 - k) (by omega) (by omega)
    exact (belowChord_reverse x t c N a b k hx ht hk1 hk2 hb hinc).mp this
  · rintro ⟨h1, h2, h3⟩
    refine ⟨h2, h1, fun k' hk1 hk2 => ?_⟩
    have hk : k' = N - 1 - (N - 1 - k') := by omega
    rw [hk]
    exact (belowChord_reverse x t c N a b (N - 1 - k') hx ht (by omega) (by omega) hb hinc).mpr
      (h3 (N - 1 - k') (by omega) (by omega))

theorem hvisible_reverse (x : List Val) (N a b : Nat) (hx : x.length = N) (hab : a < b)
    (hb : b < N) : HVisible x.reverse (N - 1 - b) (N - 1 - a) ↔ HVisible x a b := by
  unfold HVisible
  rw [valAt_reverse x N _ hx (by omega), valAt_reverse x N _ hx (by omega)]
  have e1 : N - 1 - (N - 1 - b) = b := by omega
  have e2 : N - 1 - (N - 1 - a) = a := by omega
  rw [e1, e2]
  constructor
  · rintro ⟨xb, xa, h1, h2, h3⟩
    refine ⟨xa, xb, h2, h1, fun k hk1 hk2 => ?_⟩
    obtain ⟨xk, h4, h5, h6⟩ := h3 (N - 1 - k) (by omega) (by omega)
    rw [valAt_reverse x N _ hx (by omega)] at h4
    have e3 : N - 1 - (N - 1 - k) = k := by omega
    rw [e3] at h4
    exact ⟨xk, h4, h6, h5⟩
  · rintro ⟨xa, xb, h1, h2, h3⟩
    refine ⟨xb, xa, h2, h1, fun k' hk1 hk2 => ?_⟩
    obtain ⟨xk, h4, h5, h6⟩ := h3 (N - 1 - k') (by omega) (by omega)
    rw [valAt_reverse x N _ hx (by omega)]
    exact ⟨xk, h4, h6, h5⟩

/-- two write logs characterised by predicates that are exchanged by the index
reversal give mirrored matrices -/
theorem mirror_of_iff (N : Nat) (log log' : List (Nat × Nat)) (V V' : Nat → Nat → Prop)
    (h : ∀ a b, (a, b) ∈ log ↔ a < b ∧ b < N ∧ V a b)
    (h' : ∀ a b, (a, b) ∈ log' ↔ a < b ∧ b < N ∧ V' a b)
    (hV : ∀ a b, a < b → b < N → (V' (N - 1 - b) (N - 1 - a) ↔ V a b))
    (a b : Nat) (ha : a < N) (hb : b < N) :
    entry log' a b = entry log (N - 1 - a) (N - 1 - b) := by
  have hmem : ∀ a b, a < N → b < N → ((a, b) ∈ log' ↔ (N - 1 - b, N - 1 - a) ∈ log) := by
    intro a b ha hb
    rw [h, h']
    constructor
    · rintro ⟨h1, h2, h3⟩
      refine ⟨by omega, by omega, ?_⟩
      have := hV (N - 1 - b) (N - 1 - a) (by omega) (by omega)
      have e1 : N - 1 - (N - 1 - b) = b := by omega
      have e2 : N - 1 - (N - 1 - a) = a := by omega
      rw [e1, e2] at this
      exact this.mp h3
    · rintro ⟨h1, h2, h3⟩
      refine ⟨by omega, by omega, ?_⟩
      have := hV (N - 1 - b) (N - 1 - a) (by omega) (by omega)
      have e1 : N - 1 - (N - 1 - b) = b := by omega
      have e2 : N - 1 - (N - 1 - a) = a := by omega
      rw [e1, e2] at this
      exact this.mpr h3
  rw [Bool.eq_iff_iff]
  simp only [entry, Bool.or_eq_true, List.contains_iff_mem]
  rw [hmem a b ha hb, hmem b a hb ha]
  exact Or.comm

theorem map_range_rev {α : Type} (N : Nat) (f : Nat → α) :
    (List.range N).map (fun b => f (N - 1 - b)) = ((List.range N).map f).reverse := by
  apply List.ext_getElem
  · simp
  · intro i h1 h2
    simp only [List.length_map, List.length_range] at h1
    simp [List.getElem_reverse]

theorem adjMat_row (N : Nat) (log : List (Nat × Nat)) (a : Nat) (ha : a < N) :
    (adjMat N log).getD a [] = (List.range N).map (entry log a) := by
  simp [adjMat, List.getD, List.getElem?_map, List.getElem?_range ha]

/-- mirrored matrices exchange retarded and advanced degree -/
theorem retDeg_mirror (N : Nat) (log log' : List (Nat × Nat))
    (hm : ∀ a b, a < N → b < N → entry log' a b = entry log (N - 1 - a) (N - 1 - b))
    (hd : ∀ a, entry log a a = false) (a : Nat) (ha : a < N) :
    retDeg (adjMat N log') a = advDeg (adjMat N log) (N - 1 - a) := by
  have hrow : (List.range N).map (entry log' a)
      = ((List.range N).map (entry log (N - 1 - a))).reverse := by
    rw [← map_range_rev]
    apply List.map_congr_left
    intro b hb
    exact hm a b ha (List.mem_range.mp hb)
  simp only [retDeg, advDeg, adjMat_row N log' a ha, adjMat_row N log (N - 1 - a) (by omega), hrow]
  rw [List.take_reverse, List.count_reverse]
  simp only [List.length_map, List.length_range]
  have hlen : N - 1 - a < ((List.range N).map (entry log (N - 1 - a))).length := by simp; omega
  rw [List.drop_eq_getElem_cons hlen]
  have hz : ((List.range N).map (entry log (N - 1 - a)))[N - 1 - a] = false := by
    simp [hd]
  rw [hz, List.count_cons]
  have e : N - 1 - a + 1 = N - a := by omega
  simp [e]

theorem advDeg_mirror (N : Nat) (log log' : List (Nat × Nat))
    (hm : ∀ a b, a < N → b < N → entry log' a b = entry log (N - 1 - a) (N - 1 - b))
    (hd' : ∀ a, entry log' a a = false) (a : Nat) (ha : a < N) :
    advDeg (adjMat N log') a = retDeg (adjMat N log) (N - 1 - a) := by
  have hm' : ∀ a b, a < N → b < N → entry log a b = entry log' (N - 1 - a) (N - 1 - b) := by
    intro a b ha hb
    rw [hm _ _ (by omega) (by omega)]
    have e1 : N - 1 - (N - 1 - a) = a := by omega
    have e2 : N - 1 - (N - 1 - b) = b := by omega
    rw [e1, e2]
  have := retDeg_mirror N log' log hm' hd' (N - 1 - a) (by omega)
  have e1 : N - 1 - (N - 1 - a) = a := by omega
  rw [e1] at this
  exact this.symm

/-! ### the clustering loops visit every pair once -/
theorem retPairs_nodup (i : Nat) : (retPairs i).Nodup := by
  unfold retPairs
  rw [List.nodup_flatMap]
  refine ⟨fun j _ => ?_, ?_⟩
  · exact (List.nodup_range).map_on (fun a _ b _ h => by simpa using h)
  · refine List.Pairwise.imp_of_mem ?_ (List.nodup_range (n := i))
    intro a b _ _ hab
    simp only [Function.onFun, List.disjoint_left, List.mem_map, List.mem_range]
    rintro ⟨_, _⟩ ⟨k, _, h1⟩ ⟨k', _, h2⟩
    simp only [Prod.mk.injEq] at h1 h2
    exact hab (by omega)

theorem advPairs_nodup (N i : Nat) : (advPairs N i).Nodup := by
  unfold advPairs
  rw [List.nodup_flatMap]
  refine ⟨fun j _ => ?_, ?_⟩
  · exact (List.nodup_range' (step := 1)).map_on (fun a _ b _ h => by simpa using h)
  · refine List.Pairwise.imp_of_mem ?_ (List.nodup_range' (s := i + 1) (n := N - (i + 1)) (step := 1))
    intro a b _ _ hab
    simp only [Function.onFun, List.disjoint_left, List.mem_map]
    rintro ⟨_, _⟩ ⟨k, _, h1⟩ ⟨k', _, h2⟩
    simp only [Prod.mk.injEq] at h1 h2
    exact hab (by omega)

/-- the future pairs of `N-1-a` are the mirrored past pairs of `a` -/
theorem advPairs_perm (N a : Nat) (ha : a < N) :
    (advPairs N (N - 1 - a)).Perm ((retPairs a).map fun p => (N - 1 - p.2, N - 1 - p.1)) := by
  rw [List.perm_ext_iff_of_nodup (advPairs_nodup _ _)]
  · rintro ⟨j', k'⟩
    rw [advPairs_mem]
    simp only [List.mem_map, Prod.mk.injEq, Prod.exists]
    constructor
    · rintro ⟨h1, h2, h3⟩
      refine ⟨N - 1 - k', N - 1 - j', (retPairs_mem a _ _).mpr ⟨by omega, by omega⟩, by omega,
        by omega⟩
    · rintro ⟨j, k, hm, rfl, rfl⟩
      rw [retPairs_mem] at hm
      omega
  · refine (retPairs_nodup a).map_on ?_
    rintro ⟨j, k⟩ h1 ⟨j2, k2⟩ h2 h
    rw [retPairs_mem] at h1 h2
    simp only [Prod.mk.injEq] at h ⊢
    omega

/-- mirrored symmetric matrices exchange the retarded and advanced clustering counters -/
theorem retCount_mirror (N : Nat) (A A' : List (List Bool))
    (hm : ∀ i j, i < N → j < N → Mat.at A' i j = Mat.at A (N - 1 - i) (N - 1 - j))
    (hs : ∀ i j, i < N → j < N → Mat.at A i j = Mat.at A j i) (a : Nat) (ha : a < N) :
    retCount A' a = advCount A N (N - 1 - a) := by
  rw [advCount, (advPairs_perm N a ha).countP_eq, List.countP_map, retCount]
  apply List.countP_congr
  rintro ⟨j, k⟩ hmem
  rw [retPairs_mem] at hmem
  simp only [tri, Function.comp]
  rw [hm a j ha (by omega), hm j k (by omega) (by omega), hm k a (by omega) ha,
    hs (N - 1 - a) (N - 1 - k) (by omega) (by omega), hs (N - 1 - k) (N - 1 - j) (by omega) (by omega),
    hs (N - 1 - j) (N - 1 - a) (by omega) (by omega)]
  cases Mat.at A (N - 1 - a) (N - 1 - j) <;> cases Mat.at A (N - 1 - j) (N - 1 - k) <;>
    cases Mat.at A (N - 1 - k) (N - 1 - a) <;> rfl

theorem mat_adjMat (N : Nat) (log : List (Nat × Nat)) (i j : Nat) (hi : i < N) (hj : j < N) :
    Mat.at (adjMat N log) i j = entry log i j := by
  unfold Mat.at
  rw [adjMat_row N log i hi]
  simp [hj]

end Pyunicorn.Visibility
