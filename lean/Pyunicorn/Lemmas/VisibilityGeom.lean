import Pyunicorn.Lemmas.Visibility
import Mathlib.Tactic.Linarith
import Mathlib.Tactic.FieldSimp
import Mathlib.Tactic.Ring
import Mathlib.Algebra.Order.Field.Rat
/-! Helper lemmas for C14, part 2: the geometric criterion (ordered-field arithmetic). -/
namespace Pyunicorn.Visibility

/-- slope form ⇔ chord form, for `ta < tk`, `ta < tb` -/
theorem slope_lt_iff_chord (xa xk xb ta tk tb : Rat) (hk : ta < tk) (hb : ta < tb) :
    (xk - xa) / (tk - ta) < (xb - xa) / (tb - ta) ↔
      xk < xa + (xb - xa) * ((tk - ta) / (tb - ta)) := by
  have p : 0 < tk - ta := by linarith
  have q : 0 < tb - ta := by linarith
  rw [div_lt_div_iff₀ p q, ← sub_lt_iff_lt_add', ← mul_div_assoc, lt_div_iff₀ q]

/-- the chord seen from the right end is the same line -/
theorem chord_symm (xa xb ta tk tb : Rat) (hb : ta < tb) :
    xa + (xb - xa) * ((tk - ta) / (tb - ta)) = xb + (xa - xb) * ((tb - tk) / (tb - ta)) := by
  have q : tb - ta ≠ 0 := by linarith
  field_simp
  ring

theorem scale_slope (a c xk xi b d tk ti : Rat) (hc : c ≠ 0) :
    ((a * xk + b) - (a * xi + b)) / ((c * tk + d) - (c * ti + d))
      = (a / c) * ((xk - xi) / (tk - ti)) := by
  by_cases h : tk - ti = 0
  · have : (c * tk + d) - (c * ti + d) = 0 := by
      have : (c * tk + d) - (c * ti + d) = c * (tk - ti) := by ring
      rw [this, h, mul_zero]
    rw [this, h]; simp
  · have h2 : c * tk + d - (c * ti + d) ≠ 0 := by
      have : (c * tk + d) - (c * ti + d) = c * (tk - ti) := by ring
      rw [this]; exact mul_ne_zero hc h
    field_simp
    ring

/-! ### the geometric predicates of the property statement -/

/-- sample `k` is present and lies strictly below the straight line joining the
(present) samples `a` and `b` -/
def BelowChord (x : List Val) (t : List Rat) (a b k : Nat) : Prop :=
  ∃ xa xb xk : Rat, valAt x a = some xa ∧ valAt x b = some xb ∧ valAt x k = some xk ∧
    xk < xa + (xb - xa) * ((tAt t k - tAt t a) / (tAt t b - tAt t a))

/-- natural visibility of `a < b`: both present, every intermediate sample present
and strictly below the chord -/
def NVisible (x : List Val) (t : List Rat) (a b : Nat) : Prop :=
  valAt x a ≠ none ∧ valAt x b ≠ none ∧ ∀ k, a < k → k < b → BelowChord x t a b k

/-- horizontal visibility of `a < b`: both present, every intermediate sample
present and strictly below both -/
def HVisible (x : List Val) (a b : Nat) : Prop :=
  ∃ xa xb : Rat, valAt x a = some xa ∧ valAt x b = some xb ∧
    ∀ k, a < k → k < b → ∃ xk : Rat, valAt x k = some xk ∧ xk < xa ∧ xk < xb

theorem vlt_slope_iff (x : List Val) (t : List Rat) (a b k : Nat)
    (hk : tAt t a < tAt t k) (hb : tAt t a < tAt t b) :
    vlt (slopeVal x t a k) (slopeVal x t a b) = true ↔ BelowChord x t a b k := by
  unfold slopeVal BelowChord
  cases hxa : valAt x a with
  | none => cases valAt x k <;> cases valAt x b <;> simp [vlt, vsub, vdivR]
  | some xa =>
    cases hxk : valAt x k with
    | none => cases valAt x b <;> simp [vlt, vsub, vdivR]
    | some xk =>
      cases hxb : valAt x b with
      | none => simp [vlt, vsub, vdivR]
      | some xb =>
        simp only [vlt, vsub, vdivR, Option.map_some, decide_eq_true_eq, Option.some.injEq]
        rw [slope_lt_iff_chord xa xk xb _ _ _ hk hb]
        constructor
        · intro h; exact ⟨xa, xb, xk, rfl, rfl, rfl, h⟩
        · rintro ⟨_, _, _, rfl, rfl, rfl, h⟩; exact h

theorem masked_nanMask_of_some (x : List Val) (k : Nat) (v : Rat) (h : valAt x k = some v) :
    masked (some (nanMask x)) k = false := by
  unfold valAt at h
  cases hk : x[k]? with
  | none => rw [hk] at h; cases h
  | some w =>
    rw [hk] at h
    simp only [Option.join_some] at h
    simp [masked, nanMask, List.getD, List.getElem?_map, hk, h]

theorem masked_nanMask_lt (x : List Val) (k : Nat) (h : k < x.length) :
    masked (some (nanMask x)) k = false ↔ valAt x k ≠ none := by
  rw [valAt_lt x k h]
  simp only [masked, nanMask, List.getD, List.getElem?_map, List.getElem?_eq_getElem h,
    Option.map_some, Option.getD_some]
  cases x[k] <;> simp

theorem vlt_cmin_iff (v : Val) (xa xb : Rat) :
    vlt v (cmin (some xa) (some xb)) = true ↔ ∃ xk : Rat, v = some xk ∧ xk < xa ∧ xk < xb := by
  cases v with
  | none => simp [vlt]
  | some xk =>
    simp only [cmin, vlt, decide_eq_true_eq, Option.some.injEq, exists_eq_left']
    by_cases h : xb < xa
    · simp only [h, if_true, decide_eq_true_eq]
      constructor
      · intro h1; exact ⟨by linarith, h1⟩
      · intro h1; exact h1.2
    · simp only [h, if_false, decide_eq_true_eq]
      constructor
      · intro h1; exact ⟨h1, by linarith⟩
      · intro h1; exact h1.1

end Pyunicorn.Visibility
