import Pyunicorn.Model.Nsi
import Mathlib.Tactic.Ring
import Mathlib.Algebra.Order.Field.Rat
/-! Pull-back lemmas for the split graph and the push-forward lemma for weighted sums. -/
namespace Pyunicorn.Nsi

theorem collapse_lt (n v k : Nat) (hk : k < n) : collapse n v k = k := by
  simp [collapse]; omega

theorem collapse_self (n v : Nat) : collapse n v n = v := by simp [collapse]

theorem collapse_eq_iff (n v i j : Nat) (hv : v < n) (hij : i ≠ j) :
    collapse n v i = collapse n v j ↔ (i = n ∧ j = v) ∨ (i = v ∧ j = n) := by
  unfold collapse
  constructor
  · intro h
    by_cases hi : i = n <;> by_cases hj : j = n <;> simp [hi, hj] at h ⊢ <;> omega
  · rintro (⟨rfl, rfl⟩ | ⟨rfl, rfl⟩)
    · have : ¬ j = i := fun h => hij h.symm
      simp [this]
    · have : ¬ i = j := hij
      simp [this]

/-- `A⁺` of the split graph is the pull-back of `A⁺` along the collapse map -/
theorem aplus_split (G : Gr) (v : Nat) (p : Rat) (hv : v < G.n) (i j : Nat) :
    aplus (split G v p) i j = aplus G (collapse G.n v i) (collapse G.n v j) := by
  by_cases hij : i = j
  · subst hij; simp [aplus]
  · have hc := collapse_eq_iff G.n v i j hv hij
    unfold aplus
    simp only [hij, false_or, split]
    by_cases hs : (i = G.n ∧ j = v) ∨ (i = v ∧ j = G.n)
    · have hnn : ¬ (i = G.n ∧ j = G.n) := by omega
      have : collapse G.n v i = collapse G.n v j := hc.mpr hs
      simp [hnn, hs, this]
    · have hnn : ¬ (i = G.n ∧ j = G.n) := by
        rintro ⟨rfl, rfl⟩; exact hij rfl
      have hne : ¬ collapse G.n v i = collapse G.n v j := fun h => hs (hc.mp h)
      simp [hnn, hs, hne]

/-- distances with unit self-distance pull back as well (by definition of `split`, which
gives the twins distance 1; the tie to igraph's distances is the correspondence) -/
theorem dplus_split (G : Gr) (v : Nat) (p : Rat) (i j : Nat) :
    dplus (split G v p) i j = dplus G (collapse G.n v i) (collapse G.n v j) := by
  unfold dplus
  by_cases hij : i = j
  · subst hij; simp
  · simp only [hij, if_false, split]

theorem var_map (env : List Nat) (n v i : Nat) (hv : v < n) :
    var (env.map (collapse n v)) i = collapse n v (var env i) := by
  unfold var
  by_cases hi : i < env.length
  · simp [List.getD_eq_getElem?_getD, hi]
  · have h0 : collapse n v 0 = 0 := by simp [collapse]; omega
    simp [List.getD_eq_getElem?_getD, List.getElem?_eq_none (Nat.le_of_not_lt hi), h0]

/-! ### sums -/

theorem sum_update (g : Nat → Rat) (a : Rat) (v n : Nat) (hv : v < n) :
    ((List.range n).map fun k => if k = v then a else g k).sum
      = ((List.range n).map g).sum - g v + a := by
  induction n with
  | zero => omega
  | succ n ih =>
    simp only [List.range_succ, List.map_append, List.sum_append, List.map_cons, List.map_nil,
      List.sum_cons, List.sum_nil, add_zero]
    by_cases hvn : v = n
    · subst hvn
      have : ((List.range v).map fun k => if k = v then a else g k) = (List.range v).map g := by
        apply List.map_congr_left
        intro k hk
        have := List.mem_range.mp hk
        simp; omega
      rw [this]; simp
    · have hv' : v < n := by omega
      rw [ih hv']
      have : ¬ n = v := fun h => hvn h.symm
      simp [this]; ring

/-- **push-forward lemma**: a node-weighted sum over the split graph of a function that
factors through the collapse map equals the node-weighted sum over the original graph. -/
theorem pushforward (G : Gr) (v : Nat) (p : Rat) (hv : v < G.n) (F : Nat → Rat) :
    ((List.range (split G v p).n).map fun k => (split G v p).w k * F (collapse G.n v k)).sum
      = ((List.range G.n).map fun k => G.w k * F k).sum := by
  have hn : (split G v p).n = G.n + 1 := rfl
  rw [hn, List.range_succ, List.map_append, List.sum_append]
  simp only [List.map_cons, List.map_nil, List.sum_cons, List.sum_nil, add_zero, collapse_self]
  have h1 : ((List.range G.n).map fun k => (split G v p).w k * F (collapse G.n v k))
      = (List.range G.n).map fun k => if k = v then (1 - p) * G.w v * F v else G.w k * F k := by
    apply List.map_congr_left
    intro k hk
    have hk' := List.mem_range.mp hk
    have hne : ¬ k = G.n := by omega
    rw [collapse_lt _ _ _ hk']
    by_cases hkv : k = v
    · subst hkv; simp [split, hne]
    · simp [split, hne, hkv]
  rw [h1, sum_update (fun k => G.w k * F k) _ v G.n hv]
  simp [split]; ring

/-! ### maxima -/

theorem foldl_max_ge (l : List Rat) (x : Rat) : x ≤ l.foldl max x ∧ ∀ y ∈ l, y ≤ l.foldl max x := by
  induction l generalizing x with
  | nil => simp
  | cons a t ih =>
    simp only [List.foldl_cons, List.mem_cons]
    obtain ⟨h1, h2⟩ := ih (max x a)
    refine ⟨le_trans (le_max_left _ _) h1, ?_⟩
    rintro y (rfl | hy)
    · exact le_trans (le_max_right _ _) h1
    · exact h2 y hy

theorem foldl_max_mem (l : List Rat) (x : Rat) : l.foldl max x = x ∨ l.foldl max x ∈ l := by
  induction l generalizing x with
  | nil => simp
  | cons a t ih =>
    simp only [List.foldl_cons, List.mem_cons]
    rcases ih (max x a) with h | h
    · rcases max_choice x a with hm | hm
      · left; rw [h, hm]
      · right; left; rw [h, hm]
    · right; right; exact h

theorem maxList_le_iff (l : List Rat) (hl : l ≠ []) :
    (∀ y ∈ l, y ≤ maxList l) ∧ maxList l ∈ l := by
  cases l with
  | nil => exact absurd rfl hl
  | cons x t =>
    simp only [maxList]
    obtain ⟨h1, h2⟩ := foldl_max_ge t x
    constructor
    · intro y hy
      rcases List.mem_cons.mp hy with rfl | hy
      · exact h1
      · exact h2 y hy
    · rcases foldl_max_mem t x with h | h
      · rw [h]; simp
      · exact List.mem_cons_of_mem _ h

/-- lists with the same elements have the same maximum -/
theorem maxList_congr (l₁ l₂ : List Rat) (h : ∀ y, y ∈ l₁ ↔ y ∈ l₂) : maxList l₁ = maxList l₂ := by
  by_cases h1 : l₁ = []
  · subst h1
    have : l₂ = [] := by
      cases l₂ with
      | nil => rfl
      | cons a t => exact absurd ((h a).mpr (by simp)) (by simp)
    rw [this]
  · have h2 : l₂ ≠ [] := by
      intro h2; subst h2
      cases l₁ with
      | nil => exact h1 rfl
      | cons a t => exact absurd ((h a).mp (by simp)) (by simp)
    obtain ⟨a1, a2⟩ := maxList_le_iff l₁ h1
    obtain ⟨b1, b2⟩ := maxList_le_iff l₂ h2
    exact le_antisymm (b1 _ ((h _).mp a2)) (a1 _ ((h _).mpr b2))

theorem max_pushforward (n v : Nat) (hv : v < n) (F : Nat → Rat) :
    maxList ((List.range (n + 1)).map fun k => F (collapse n v k))
      = maxList ((List.range n).map F) := by
  apply maxList_congr
  intro y
  simp only [List.mem_map, List.mem_range]
  constructor
  · rintro ⟨k, hk, rfl⟩
    by_cases hkn : k = n
    · subst hkn; exact ⟨v, hv, by simp [collapse]⟩
    · exact ⟨k, by omega, by rw [collapse_lt _ _ _ (by omega)]⟩
  · rintro ⟨k, hk, rfl⟩
    exact ⟨k, by omega, by rw [collapse_lt _ _ _ hk]⟩

end Pyunicorn.Nsi
