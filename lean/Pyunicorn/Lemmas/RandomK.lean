import Pyunicorn.Lemmas.RandomF
/-!
C17, round 5: the igraph-backed generators `Network.ErdosRenyi` / `Network.WattsStrogatz` — pyunicorn's
part is the choice of the igraph call and `np.array(graph.get_adjacency(type=2).data)`; for the simple
graph igraph returns (its contract) that matrix is `linkAny es` (`fromEdges n es`).  Counting lemma:
the ones of the adjacency matrix of a simple graph are twice its links.
-/
namespace Pyunicorn.Random

/-- the incidence counts of a graph on `n` nodes add up to twice the number of links -/
theorem rsum_inc (n : Nat) (es : List (Nat × Nat)) (hb : ∀ e ∈ es, e.1 < n ∧ e.2 < n) :
    rsum (fun v => inc es v) n = 2 * (es.length : Int) := by
  induction es with
  | nil => simp only [inc]; rw [rsum_zero]; rfl
  | cons e es ih =>
    have h1 : (fun v => inc (e :: es) v)
        = fun v => ((if v = e.1 then (1 : Int) else 0) + (if v = e.2 then (1 : Int) else 0)) + inc es v := by
      funext v; simp only [inc, eq_comm]
    rw [h1, rsum_add, rsum_add, rsum_single, rsum_single, ih (fun f hf => hb f (List.mem_cons_of_mem _ hf))]
    have := hb e (List.mem_cons_self)
    simp only [this.1, this.2, if_true, List.length_cons]
    omega

/-- number of ones of the adjacency matrix of a simple graph = twice its number of links -/
theorem total_linkAny (n : Nat) (es : List (Nat × Nat)) (hs : SimpleEdges n es) :
    total (linkAny es) n n = 2 * (es.length : Int) := by
  unfold total
  rw [rsum_congr n (fun v _ => deg_linkAny n es hs v)]
  exact rsum_inc n es (fun e he => ⟨(hs.1 e he).1, (hs.1 e he).2.1⟩)
end Pyunicorn.Random
