import Pyunicorn.Lemmas.MpiProto
/-! Error agreement between the protocol model of `utils/mpi.py` and its communicator-free
specification (round 5, core Lean only): a `KeyError` / "already in queue" raised by
`get_result` / `submit_call` in a world with slaves is exactly the error the specification
prescribes for the master program. -/
namespace Pyunicorn.MpiProto
open Pyunicorn.Mpi (lookup)

variable {α β : Type}

/-- the error recorded so far is one the specification prescribes for the whole program
(`outOfOrder`, the per-slave FIFO restriction, has no counterpart in the specification) -/
def ErrOk (f : α → β) (prog0 : List (Op α)) (st : State α β) : Prop :=
  ∀ e, st.err = some e → e ≠ .outOfOrder → specRun f ([], []) prog0 = .error e

theorem lookup_none_of_isSome_false {γ : Type} (k : Nat) (l : List (Nat × γ))
    (h : (lookup k l).isSome = false) : lookup k l = none := by
  cases hl : lookup k l with
  | none => rfl
  | some v => rw [hl] at h; cases h

/-- a pending id has an entry in the queue of the slave it is assigned to -/
theorem squeue_ne_nil (f : α → β) (prog0 : List (Op α)) (st : State α β) (h : Inv f prog0 st)
    (id src : Nat) (hsrc : lookup id st.assigned = some src) : st.squeue src ≠ [] := by
  have hK := h.K id
  rw [hsrc] at hK
  have hmem := (lookup_isSome_iff id st.queue).mp hK.symm
  obtain ⟨x, hx, hxid⟩ := List.mem_map.mp hmem
  have hx' : x ∈ st.queue.filter (fun y => lookup y.1 st.assigned == some src) := by
    apply List.mem_filter.mpr
    refine ⟨hx, ?_⟩
    have hxid' : x.1 = id := hxid
    simp [hxid', hsrc]
  rw [← h.G src] at hx'
  intro e
  rw [e] at hx'
  cases hx'

/-- what a raising `get_result(id)` means: `KeyError` ⇔ `id` is not pending -/
theorem getStep_err (f : α → β) (prog0 : List (Op α)) (st st' : State α β) (id : Nat)
    (rest : List (Op α)) (h : Inv f prog0 st) (hfin : st.finished = false) (herr0 : st.err = none)
    (hstep : getStep st id rest = some st') (e : Err) (he : st'.err = some e)
    (hne : e ≠ .outOfOrder) : e = .keyError ∧ lookup id st.queue = none := by
  have hav : st.available = true := by rw [h.avail, hfin]; rfl
  unfold getStep at hstep
  split at hstep
  · rename_i hnone
    cases hstep
    have : e = .keyError := by
      have : some Err.keyError = some e := he
      exact (Option.some.inj this).symm
    refine ⟨this, lookup_none_of_isSome_false id st.queue ?_⟩
    rw [← h.K id, hnone]; rfl
  · rename_i src hsrc
    rw [if_pos hav] at hstep
    split at hstep
    · rename_i hsq
      exact absurd hsq (squeue_ne_nil f prog0 st h id src hsrc)
    · split at hstep
      · cases hstep
        have : some Err.outOfOrder = some e := he
        exact absurd (Option.some.inj this).symm hne
      · split at hstep
        · cases hstep
        · cases hstep
          have : st.err = some e := he
          rw [herr0] at this; cases this

/-- a master step that raises `KeyError` / "already in queue" happens exactly where the
specification of the remaining program raises the same -/
theorem masterStep_err (f : α → β) (prog0 : List (Op α)) (st st' : State α β)
    (h : Inv f prog0 st) (hstep : masterStep f st = some st') (e : Err) (he : st'.err = some e)
    (hne : e ≠ .outOfOrder) : specRun f (st.queue, st.got) st.prog = .error e := by
  unfold masterStep at hstep
  split at hstep
  · cases hstep
  · rename_i hguard
    have hfin : st.finished = false := by
      cases hf : st.finished with
      | false => rfl
      | true => exact absurd (Or.inl hf) hguard
    have herr0 : st.err = none := by
      cases he0 : st.err with
      | none => rfl
      | some x => exact absurd (Or.inr (by rw [he0]; rfl)) hguard
    split at hstep
    · cases hstep
      have : st.err = some e := he
      rw [herr0] at this; cases this
    · rename_i id p est sl rest hprog
      split at hstep
      · rename_i hdup
        cases hstep
        have hE : e = .alreadyQueued := by
          have : some Err.alreadyQueued = some e := he
          exact (Option.some.inj this).symm
        have hq : (lookup id st.queue).isSome = true := by rw [← h.K id]; exact hdup
        rw [hprog, hE]
        simp [specRun, specStep, hq]
      · split at hstep <;>
        · cases hstep
          have : st.err = some e := he
          rw [herr0] at this; cases this
    · rename_i id rest hprog
      obtain ⟨hE, hq⟩ := getStep_err f prog0 st st' id rest h hfin herr0 hstep e he hne
      rw [hprog, hE]
      simp [specRun, specStep, hq]
    · rename_i rest hprog
      split at hstep
      · cases hstep
        have : st.err = some e := he
        rw [herr0] at this; cases this
      · rename_i x t hq
        obtain ⟨_, hq'⟩ := getStep_err f prog0 st st' x.1 rest h hfin herr0 hstep e he hne
        rw [hq] at hq'
        simp [lookup] at hq'

theorem slaveStep_err (f : α → β) (st st' : State α β) (s : Nat)
    (hstep : slaveStep f st s = some st') : st'.err = st.err := by
  unfold slaveStep at hstep
  repeat' split at hstep
  all_goals first | (cases hstep; rfl) | cases hstep

theorem errOk_step (f : α → β) (prog0 : List (Op α)) (st st' : State α β) (c : Nat)
    (h : Inv f prog0 st) (ho : ErrOk f prog0 st) (hstep : step f st c = some st') :
    ErrOk f prog0 st' := by
  unfold step at hstep
  split at hstep
  · intro e he hne
    have hS := masterStep_err f prog0 st st' h hstep e he hne
    have herr0 : st.err = none := by
      unfold masterStep at hstep
      split at hstep
      · cases hstep
      · rename_i hguard
        cases he0 : st.err with
        | none => rfl
        | some x => exact absurd (Or.inr (by rw [he0]; rfl)) hguard
    rw [← h.S herr0]
    exact hS
  · intro e he hne
    rw [slaveStep_err f st st' c hstep] at he
    exact ho e he hne

theorem errOk_run (f : α → β) (prog0 : List (Op α)) (cs : List Nat) (st : State α β)
    (h : Inv f prog0 st) (ho : ErrOk f prog0 st) : ErrOk f prog0 (run f st cs) := by
  unfold run
  induction cs generalizing st with
  | nil => simpa [runSched] using ho
  | cons c t ih =>
    simp only [runSched]
    split
    · exact ih st h ho
    · rename_i st' hst
      exact ih st' (inv_step f prog0 st st' c h hst) (errOk_step f prog0 st st' c h ho hst)

theorem errOk_init (f : α → β) (size : Nat) (prog : List (Op α)) :
    ErrOk f prog (init (β := β) size prog) := by
  intro e he; simp [init] at he

/-! ### single-process mode: every error is the specification's error -/

def ErrOkS (f : α → β) (prog0 : List (Op α)) (st : State α β) : Prop :=
  ∀ e, st.err = some e → specRun f ([], []) prog0 = .error e

theorem getStep_err_serial (f : α → β) (prog0 : List (Op α)) (st st' : State α β) (id : Nat)
    (rest : List (Op α)) (h : SInv f prog0 st) (herr0 : st.err = none)
    (hstep : getStep st id rest = some st') (e : Err) (he : st'.err = some e) :
    e = .keyError ∧ lookup id st.queue = none := by
  have hav := h.avail
  unfold getStep at hstep
  split at hstep
  · rename_i hnone
    cases hstep
    have : e = .keyError := by
      have : some Err.keyError = some e := he
      exact (Option.some.inj this).symm
    refine ⟨this, lookup_none_of_isSome_false id st.queue ?_⟩
    rw [← h.K id, hnone]; rfl
  · rename_i src hsrc
    rw [hav] at hstep
    simp only [Bool.false_eq_true, if_false] at hstep
    split at hstep
    · rename_i hres
      have hK := h.K id
      rw [hsrc] at hK
      obtain ⟨p, hp⟩ := Option.isSome_iff_exists.mp hK.symm
      rw [h.Rs id p hp] at hres
      cases hres
    · cases hstep
      have : st.err = some e := he
      rw [herr0] at this; cases this

theorem masterStep_err_serial (f : α → β) (prog0 : List (Op α)) (st st' : State α β)
    (h : SInv f prog0 st) (hstep : masterStep f st = some st') (e : Err) (he : st'.err = some e) :
    specRun f (st.queue, st.got) st.prog = .error e := by
  unfold masterStep at hstep
  split at hstep
  · cases hstep
  · rename_i hguard
    have herr0 : st.err = none := by
      cases he0 : st.err with
      | none => rfl
      | some x => exact absurd (Or.inr (by rw [he0]; rfl)) hguard
    split at hstep
    · cases hstep
      have : st.err = some e := he
      rw [herr0] at this; cases this
    · rename_i id p est sl rest hprog
      split at hstep
      · rename_i hdup
        cases hstep
        have hE : e = .alreadyQueued := by
          have : some Err.alreadyQueued = some e := he
          exact (Option.some.inj this).symm
        have hq : (lookup id st.queue).isSome = true := by rw [← h.K id]; exact hdup
        rw [hprog, hE]
        simp [specRun, specStep, hq]
      · split at hstep <;>
        · cases hstep
          have : st.err = some e := he
          rw [herr0] at this; cases this
    · rename_i id rest hprog
      obtain ⟨hE, hq⟩ := getStep_err_serial f prog0 st st' id rest h herr0 hstep e he
      rw [hprog, hE]
      simp [specRun, specStep, hq]
    · rename_i rest hprog
      split at hstep
      · cases hstep
        have : st.err = some e := he
        rw [herr0] at this; cases this
      · rename_i x t hq
        obtain ⟨_, hq'⟩ := getStep_err_serial f prog0 st st' x.1 rest h herr0 hstep e he
        rw [hq] at hq'
        simp [lookup] at hq'

theorem errOkS_step (f : α → β) (prog0 : List (Op α)) (st st' : State α β) (c : Nat)
    (h : SInv f prog0 st) (ho : ErrOkS f prog0 st) (hstep : step f st c = some st') :
    ErrOkS f prog0 st' := by
  unfold step at hstep
  split at hstep
  · intro e he
    have hS := masterStep_err_serial f prog0 st st' h hstep e he
    have herr0 : st.err = none := by
      unfold masterStep at hstep
      split at hstep
      · cases hstep
      · rename_i hguard
        cases he0 : st.err with
        | none => rfl
        | some x => exact absurd (Or.inr (by rw [he0]; rfl)) hguard
    rw [← h.S herr0]
    exact hS
  · intro e he
    rw [slaveStep_err f st st' c hstep] at he
    exact ho e he

theorem errOkS_run (f : α → β) (prog0 : List (Op α)) (cs : List Nat) (st : State α β)
    (h : SInv f prog0 st) (ho : ErrOkS f prog0 st) : ErrOkS f prog0 (run f st cs) := by
  unfold run
  induction cs generalizing st with
  | nil => simpa [runSched] using ho
  | cons c t ih =>
    simp only [runSched]
    split
    · exact ih st h ho
    · rename_i st' hst
      exact ih st' (sinv_step f prog0 st st' c h hst) (errOkS_step f prog0 st st' c h ho hst)

end Pyunicorn.MpiProto
