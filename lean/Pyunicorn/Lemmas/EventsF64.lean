import Pyunicorn.Model.Events
import Pyunicorn.Lemmas.SimilarityIeee
import Pyunicorn.Lemmas.EventsF32
import Pyunicorn.Lemmas.Events
import Mathlib.Data.Nat.Sqrt
import Mathlib.Tactic.Linarith
import Mathlib.Tactic.Ring
import Mathlib.Tactic.FieldSimp
import Mathlib.Tactic.Positivity
import Mathlib.Tactic.NormNum
/-! C16 (round 4): the float64 event-synchronisation strengths
`count / np.sqrt((lx-2)*(ly-2))` under a rounding model — `sqrt53 n` (the double nearest to
`√n`, from the integer square root of `n·4⁵⁴`), one correctly rounded division (`rn53`).
Main result `strengthF64_range`: for half-integer counts with `count² ≤ n ≤ 2⁴⁸` the double
returned lies in `[0, 1]` (rounding of the square root and of the quotient included). -/
namespace Pyunicorn.Events
open Pyunicorn.Similarity

/- the next two lemmas are those of `Lemmas/WindowIeee.lean` (C13), repeated here because that
file imports C13's generated sources -/
theorem roundHalfEven_ge_floor (y : ℚ) : y.floor ≤ roundHalfEven y := by
  unfold roundHalfEven
  simp only
  split
  · exact le_refl _
  · split
    · omega
    · split <;> omega

/-- rounding to 53 bits never falls below an integer `q ≤ x` as long as `x < 2⁵³` -/
theorem rn53_ge_nat (x : ℚ) (q : Nat) (hq : (q : ℚ) ≤ x) (hq0 : 0 < q) (hx : x < 2 ^ 53) :
    (q : ℚ) ≤ rn53 x := by
  have hq1 : (1 : ℚ) ≤ (q : ℚ) := by exact_mod_cast hq0
  have hx0 : 0 < x := by linarith
  unfold rn53
  rw [if_neg (not_le.2 hx0)]
  simp only
  have hle := twoPow_binExp_le x hx0
  rw [twoPow_eq_zpow] at hle
  have he : binExp x ≤ 52 := by
    by_contra hcon
    have h53 : (53 : ℤ) ≤ binExp x := by omega
    have : (2 : ℚ) ^ (53 : ℤ) ≤ (2 : ℚ) ^ (binExp x) :=
      zpow_le_zpow_right₀ (by norm_num) h53
    have e : (2 : ℚ) ^ (53 : ℤ) = 2 ^ 53 := by norm_num
    rw [e] at this
    linarith
  obtain ⟨n, hn⟩ := Int.eq_ofNat_of_zero_le (by omega : 0 ≤ 52 - binExp x)
  have hexp : binExp x - 52 = -(n : ℤ) := by omega
  rw [twoPow_eq_zpow, hexp, zpow_neg, zpow_natCast]
  have hp : (0 : ℚ) < 2 ^ n := by positivity
  have hdiv : x / ((2 : ℚ) ^ n)⁻¹ = x * 2 ^ n := by
    rw [div_eq_mul_inv, inv_inv]
  rw [hdiv]
  -- the grid point below
  have hm : (((q * 2 ^ n : Nat) : ℤ) : ℚ) ≤ x * 2 ^ n := by
    push_cast
    exact mul_le_mul_of_nonneg_right hq (le_of_lt hp)
  have hfl : ((q * 2 ^ n : Nat) : ℤ) ≤ (x * 2 ^ n).floor := Rat.le_floor_iff.2 hm
  have hr := roundHalfEven_ge_floor (x * 2 ^ n)
  have hz : ((q * 2 ^ n : Nat) : ℤ) ≤ roundHalfEven (x * 2 ^ n) := le_trans hfl hr
  have hzq : (((q * 2 ^ n : Nat) : ℤ) : ℚ) ≤ ((roundHalfEven (x * 2 ^ n) : ℤ) : ℚ) := by
    exact_mod_cast hz
  have hinv : (0 : ℚ) < ((2 : ℚ) ^ n)⁻¹ := inv_pos.2 hp
  calc (q : ℚ) = (((q * 2 ^ n : Nat) : ℤ) : ℚ) * ((2 : ℚ) ^ n)⁻¹ := by
        push_cast
        field_simp
    _ ≤ ((roundHalfEven (x * 2 ^ n) : ℤ) : ℚ) * ((2 : ℚ) ^ n)⁻¹ :=
        mul_le_mul_of_nonneg_right hzq (le_of_lt hinv)

theorem rn53_nonneg (x : ℚ) : 0 ≤ rn53 x := by
  unfold rn53
  split
  · exact le_refl _
  · rename_i hx
    have hx0 : 0 < x := lt_of_not_ge hx
    simp only
    have hu := twoPow_pos (binExp x - 52)
    have : 0 ≤ roundHalfEven (x / twoPow (binExp x - 52)) :=
      roundHalfEven_nonneg _ (le_of_lt (div_pos hx0 hu))
    have hq : (0 : ℚ) ≤ ((roundHalfEven (x / twoPow (binExp x - 52)) : Int) : ℚ) := by
      exact_mod_cast this
    exact mul_nonneg hq (le_of_lt hu)

/-- rounding to 53 bits never passes a power of two -/
theorem rn53_le_two_pow (x : ℚ) (k : ℕ) (h : x ≤ 2 ^ k) : rn53 x ≤ 2 ^ k := by
  unfold rn53
  split
  · positivity
  · rename_i hx
    have hx0 : 0 < x := lt_of_not_ge hx
    simp only
    set e := binExp x with he
    have hu := twoPow_pos (e - 52)
    have hle : twoPow e ≤ 2 ^ k := le_trans (twoPow_binExp_le x hx0) h
    have he0 : e ≤ k := by
      by_contra hc
      have hc' : (k : Int) + 1 ≤ e := by omega
      rw [twoPow_eq_zpow] at hle
      have h1 : (2 : ℚ) ^ ((k : Int) + 1) ≤ (2 : ℚ) ^ e := zpow_le_zpow_right₀ (by norm_num) hc'
      have e2 : (2 : ℚ) ^ ((k : Int) + 1) = 2 ^ k * 2 := by
        rw [zpow_add₀ (by norm_num), zpow_natCast]; norm_num
      have h3 : (0 : ℚ) < 2 ^ k := by positivity
      linarith
    obtain ⟨j, hj⟩ := Int.eq_ofNat_of_zero_le (by omega : 0 ≤ (k : Int) + 52 - e)
    have hinv : (2 : ℚ) ^ k / twoPow (e - 52) = (((2 ^ j : ℕ) : Int) : ℚ) := by
      rw [twoPow_eq_zpow]
      have : (e - 52 : Int) = (k : Int) - (j : Int) := by omega
      rw [this, zpow_sub₀ (by norm_num), zpow_natCast, zpow_natCast]
      push_cast
      field_simp
    have hdiv : x / twoPow (e - 52) ≤ (((2 ^ j : ℕ) : Int) : ℚ) := by
      rw [← hinv]; exact div_le_div_of_nonneg_right h (le_of_lt hu)
    have hr := roundHalfEven_le_int _ _ hdiv
    have hrq : ((roundHalfEven (x / twoPow (e - 52)) : Int) : ℚ) ≤ (((2 ^ j : ℕ) : Int) : ℚ) := by
      exact_mod_cast hr
    calc ((roundHalfEven (x / twoPow (e - 52)) : Int) : ℚ) * twoPow (e - 52)
        ≤ (((2 ^ j : ℕ) : Int) : ℚ) * twoPow (e - 52) :=
          mul_le_mul_of_nonneg_right hrq (le_of_lt hu)
      _ = 2 ^ k := by rw [← hinv]; field_simp

/-- one rounding loses at most the fraction `2⁻⁵³` -/
theorem rn53_ge_mul (x : ℚ) (hx : 0 ≤ x) : x * (1 - 1 / 2 ^ 53) ≤ rn53 x := by
  have h := abs_le.1 (rn53_err x hx)
  linarith [h.1]

theorem rn53_le_mul (x : ℚ) (hx : 0 ≤ x) : rn53 x ≤ x * (1 + 1 / 2 ^ 53) := by
  have h := abs_le.1 (rn53_err x hx)
  linarith [h.2]

theorem rn53s_of_nonneg (x : ℚ) (hx : 0 ≤ x) : rn53s x = rn53 x := by
  unfold rn53s
  rw [if_neg (not_lt.2 hx)]

/-! ### the integer square root at 54 binary places -/

theorem sqrtFloor_nonneg (n : ℕ) : 0 ≤ sqrtFloor n := by
  unfold sqrtFloor
  positivity

theorem four_pow_bits : ((4 ^ sqrtBits : ℕ) : ℚ) = ((2 ^ sqrtBits : ℕ) : ℚ) ^ 2 := by
  unfold sqrtBits; norm_num

theorem sqrtFloor_sq_le (n : ℕ) : sqrtFloor n ^ 2 ≤ (n : ℚ) := by
  unfold sqrtFloor
  have h := Nat.sqrt_le' (n * 4 ^ sqrtBits)
  have hq : ((Nat.sqrt (n * 4 ^ sqrtBits) : ℕ) : ℚ) ^ 2 ≤ (n : ℚ) * ((2 ^ sqrtBits : ℕ) : ℚ) ^ 2 := by
    rw [← four_pow_bits]; exact_mod_cast h
  have hD : (0 : ℚ) < ((2 ^ sqrtBits : ℕ) : ℚ) ^ 2 := by positivity
  rw [div_pow, div_le_iff₀ hD]
  exact hq

theorem lt_sqrtFloor_succ_sq (n : ℕ) : (n : ℚ) < (sqrtFloor n + 1 / 2 ^ 54) ^ 2 := by
  unfold sqrtFloor
  have h := Nat.lt_succ_sqrt' (n * 4 ^ sqrtBits)
  have hq : (n : ℚ) * ((2 ^ sqrtBits : ℕ) : ℚ) ^ 2
      < (((Nat.sqrt (n * 4 ^ sqrtBits) : ℕ) : ℚ) + 1) ^ 2 := by
    rw [← four_pow_bits]; exact_mod_cast h
  have hD : (0 : ℚ) < ((2 ^ sqrtBits : ℕ) : ℚ) := by positivity
  have e : ((Nat.sqrt (n * 4 ^ sqrtBits) : ℕ) : ℚ) / ((2 ^ sqrtBits : ℕ) : ℚ) + 1 / 2 ^ 54
      = (((Nat.sqrt (n * 4 ^ sqrtBits) : ℕ) : ℚ) + 1) / ((2 ^ sqrtBits : ℕ) : ℚ) := by
    unfold sqrtBits; push_cast; ring
  rw [e, div_pow, lt_div_iff₀ (by positivity)]
  exact hq

theorem sqrtFloor_le_sticky (n : ℕ) : sqrtFloor n ≤ sqrtSticky n := by
  unfold sqrtSticky
  simp only
  split
  · exact le_refl _
  · have : (0 : ℚ) ≤ 1 / ((2 ^ (sqrtBits + 1) : ℕ) : ℚ) := by positivity
    linarith

theorem sqrtSticky_le (n : ℕ) : sqrtSticky n ≤ sqrtFloor n + 1 / 2 ^ 55 := by
  unfold sqrtSticky
  simp only
  split
  · have : (0 : ℚ) ≤ 1 / 2 ^ 55 := by positivity
    linarith
  · unfold sqrtBits; norm_num

/-- perfect squares: the sticky value is the exact root -/
theorem sqrtSticky_square (k : ℕ) : sqrtSticky (k * k) = (k : ℚ) := by
  have hN : k * k * 4 ^ sqrtBits = (k * 2 ^ sqrtBits) ^ 2 := by
    unfold sqrtBits; ring
  have hs : Nat.sqrt (k * k * 4 ^ sqrtBits) = k * 2 ^ sqrtBits := by
    rw [hN, Nat.sqrt_eq']
  unfold sqrtSticky sqrtFloor
  simp only
  rw [hs, if_pos (by rw [hN]; ring)]
  have hD : ((2 ^ sqrtBits : ℕ) : ℚ) ≠ 0 := by positivity
  push_cast
  field_simp

theorem sqrt53_ge (n : ℕ) : sqrtFloor n * (1 - 1 / 2 ^ 53) ≤ sqrt53 n := by
  unfold sqrt53
  have h0 := sqrtFloor_nonneg n
  have h1 := sqrtFloor_le_sticky n
  have h2 := rn53_ge_mul (sqrtSticky n) (le_trans h0 h1)
  have h3 : sqrtFloor n * (1 - 1 / 2 ^ 53) ≤ sqrtSticky n * (1 - 1 / 2 ^ 53) :=
    mul_le_mul_of_nonneg_right h1 (by norm_num)
  linarith

theorem sqrt53_square (k : ℕ) (hk : k < 2 ^ 53) : (k : ℚ) ≤ sqrt53 (k * k) := by
  unfold sqrt53
  rw [sqrtSticky_square]
  rcases Nat.eq_zero_or_pos k with h0 | hpos
  · subst h0; simpa using rn53_nonneg 0
  · exact rn53_ge_nat (k : ℚ) k (le_refl _) hpos (by exact_mod_cast hk)

theorem one_le_sqrtFloor (n : ℕ) (hn : 1 ≤ n) : 1 ≤ sqrtFloor n := by
  unfold sqrtFloor
  have h : 2 ^ sqrtBits ≤ Nat.sqrt (n * 4 ^ sqrtBits) := by
    rw [Nat.le_sqrt']
    calc (2 ^ sqrtBits) ^ 2 = 1 * 4 ^ sqrtBits := by unfold sqrtBits; norm_num
      _ ≤ n * 4 ^ sqrtBits := Nat.mul_le_mul_right _ hn
  have hD : (0 : ℚ) < ((2 ^ sqrtBits : ℕ) : ℚ) := by positivity
  rw [le_div_iff₀ hD, one_mul]
  exact_mod_cast h

theorem sqrt53_pos (n : ℕ) (hn : 1 ≤ n) : 0 < sqrt53 n := by
  have h1 := one_le_sqrtFloor n hn
  have h2 := sqrt53_ge n
  have : (0 : ℚ) < sqrtFloor n * (1 - 1 / 2 ^ 53) := by
    apply mul_pos (by linarith) (by norm_num)
  linarith

/-! ### the quotient stays in `[0, 1]` -/

theorem le_of_sq_le_sq_nonneg (c s : ℚ) (hs : 0 ≤ s) (h : c ^ 2 ≤ s ^ 2) : c ≤ s := by
  by_contra hcon
  have : s < c := lt_of_not_ge hcon
  nlinarith

theorem sqrtFloor_le_pow (n : ℕ) (hn : n ≤ 2 ^ 48) : sqrtFloor n ≤ 2 ^ 24 := by
  have h0 := sqrtFloor_nonneg n
  have h2 := sqrtFloor_sq_le n
  have hq : (n : ℚ) ≤ 2 ^ 48 := by exact_mod_cast hn
  by_contra hcon
  have : (2 : ℚ) ^ 24 < sqrtFloor n := lt_of_not_ge hcon
  nlinarith

/-- a half-integer whose square stays *strictly* below `n` stays below the rounded root:
`c² ≤ n - 1/4` leaves a gap of `1/(8√n) ≥ 2⁻²⁷` under `√n`, the root is cut off at `2⁻⁵⁴` and
rounded by at most `2⁻⁵³` relative -/
theorem le_sqrt53_of_gap (c : ℚ) (n : ℕ) (hgap : c ^ 2 ≤ (n : ℚ) - 1 / 4) (hn : n ≤ 2 ^ 48) :
    c ≤ sqrt53 n := by
  have hb0 := sqrtFloor_nonneg n
  have hb2 := sqrtFloor_sq_le n
  have hlt := lt_sqrtFloor_succ_sq n
  have hs := sqrt53_ge n
  have hb24 := sqrtFloor_le_pow n hn
  have hq : (n : ℚ) ≤ 2 ^ 48 := by exact_mod_cast hn
  set b := sqrtFloor n with hb
  have e1 : (b + 1 / 2 ^ 54) ^ 2 = b ^ 2 + 2 * (1 / 2 ^ 54) * b + (1 / 2 ^ 54) ^ 2 := by ring
  have e2 : (b * (1 - 1 / 2 ^ 53)) ^ 2 = b ^ 2 * (1 - 1 / 2 ^ 53) ^ 2 := by ring
  have hb48 : b ^ 2 ≤ 2 ^ 48 := le_trans hb2 hq
  have key : c ^ 2 ≤ (b * (1 - 1 / 2 ^ 53)) ^ 2 := by
    rw [e2]
    rw [e1] at hlt
    norm_num at hlt hb24 hb48 ⊢
    linarith
  have hpos : 0 ≤ b * (1 - 1 / 2 ^ 53) := mul_nonneg hb0 (by norm_num)
  exact le_trans (le_of_sq_le_sq_nonneg _ _ hpos key) hs

theorem count_le_sqrt53 (c : ℚ) (n : ℕ) (hhalf : ∃ k : ℕ, c = (k : ℚ) / 2)
    (hsq : c ^ 2 ≤ (n : ℚ)) (hn : n ≤ 2 ^ 48) : c ≤ sqrt53 n := by
  obtain ⟨k, rfl⟩ := hhalf
  have hk : k * k ≤ 4 * n := by
    have : ((k * k : ℕ) : ℚ) ≤ ((4 * n : ℕ) : ℚ) := by
      push_cast
      have e : ((k : ℚ) / 2) ^ 2 = (k : ℚ) * k / 4 := by ring
      rw [e] at hsq
      linarith
    exact_mod_cast this
  rcases Nat.lt_or_eq_of_le hk with hlt | heq
  · -- strictly below: a gap of 1/4 in the squares
    apply le_sqrt53_of_gap _ _ _ hn
    have h1 : ((k * k + 1 : ℕ) : ℚ) ≤ ((4 * n : ℕ) : ℚ) := by exact_mod_cast hlt
    push_cast at h1
    have e : ((k : ℚ) / 2) ^ 2 = (k : ℚ) * k / 4 := by ring
    rw [e]
    linarith
  · -- `n` is the square of the integer `k / 2`
    obtain ⟨j, hj | hj⟩ := Nat.even_or_odd' k
    · subst hj
      have hn' : n = j * j := by
        have : 4 * (j * j) = 4 * n := by rw [← heq]; ring
        omega
      subst hn'
      have hj53 : j < 2 ^ 53 := by
        by_contra hcon
        have h1 : 2 ^ 53 ≤ j := Nat.le_of_not_lt hcon
        have h2 : 2 ^ 53 * 2 ^ 53 ≤ j * j := Nat.mul_le_mul h1 h1
        omega
      have := sqrt53_square j hj53
      have e : ((2 * j : ℕ) : ℚ) / 2 = (j : ℚ) := by push_cast; ring
      rw [e]; exact this
    · exfalso
      subst hj
      have : (2 * j + 1) * (2 * j + 1) = 4 * (j * j + j) + 1 := by ring
      omega

/-- **the float64 strengths lie in `[0, 1]`**: for a half-integer count `c ≥ 0` with
`c² ≤ n` (theorem `es_range`) and `1 ≤ n ≤ 2⁴⁸`, the double `c / np.sqrt(n)` — correctly
rounded square root, correctly rounded division — is in `[0, 1]` -/
theorem strengthF64_range (c : ℚ) (n : ℕ) (hc0 : 0 ≤ c) (hhalf : ∃ k : ℕ, c = (k : ℚ) / 2)
    (hsq : c ^ 2 ≤ (n : ℚ)) (hn1 : 1 ≤ n) (hn : n ≤ 2 ^ 48) :
    0 ≤ strengthF64 c n ∧ strengthF64 c n ≤ 1 := by
  have hs := sqrt53_pos n hn1
  have hle := count_le_sqrt53 c n hhalf hsq hn
  have hq0 : 0 ≤ c / sqrt53 n := div_nonneg hc0 (le_of_lt hs)
  have hq1 : c / sqrt53 n ≤ 2 ^ 0 := by
    rw [pow_zero, div_le_one hs]; exact hle
  unfold strengthF64
  rw [rn53s_of_nonneg _ hq0]
  refine ⟨rn53_nonneg _, ?_⟩
  have := rn53_le_two_pow _ 0 hq1
  simpa using this

/-- relative accuracy of the model quotient: within `2⁻⁵³` of the exact quotient by the rounded root -/
theorem strengthF64_err (c : ℚ) (n : ℕ) (hc0 : 0 ≤ c) (hn1 : 1 ≤ n) :
    |strengthF64 c n - c / sqrt53 n| ≤ c / sqrt53 n / 2 ^ 53 := by
  have hs := sqrt53_pos n hn1
  have hq0 : 0 ≤ c / sqrt53 n := div_nonneg hc0 (le_of_lt hs)
  unfold strengthF64
  rw [rn53s_of_nonneg _ hq0]
  exact rn53_err _ hq0

/-- the rounded root squared is within `2⁻⁵⁰` relative of `n` (generous constants) -/
theorem sqrt53_sq_bounds (n : ℕ) (hn1 : 1 ≤ n) :
    (n : ℚ) * (1 - 1 / 2 ^ 51) ≤ sqrt53 n ^ 2 ∧ sqrt53 n ^ 2 ≤ (n : ℚ) * (1 + 1 / 2 ^ 50) := by
  have hb1 := one_le_sqrtFloor n hn1
  have hb2 := sqrtFloor_sq_le n
  have hlt := lt_sqrtFloor_succ_sq n
  have hst1 := sqrtFloor_le_sticky n
  have hst2 := sqrtSticky_le n
  have hs0 : 0 ≤ sqrtSticky n := by linarith
  have hlo := rn53_ge_mul _ hs0
  have hhi := rn53_le_mul _ hs0
  have hn1q : (1 : ℚ) ≤ (n : ℚ) := by exact_mod_cast hn1
  unfold sqrt53
  set b := sqrtFloor n
  set t := sqrtSticky n
  set r := rn53 t
  have hr0 : 0 ≤ r := rn53_nonneg _
  -- lower: r ≥ b(1-ε), and b ≥ (b+η)(1-η) since b ≥ 1
  have hlow : (b + 1 / 2 ^ 54) * (1 - 1 / 2 ^ 52) ≤ r := by nlinarith
  have hup : r ≤ b * (1 + 1 / 2 ^ 52) := by nlinarith
  have hlow0 : 0 ≤ (b + 1 / 2 ^ 54) * (1 - 1 / 2 ^ 52) := by
    apply mul_nonneg (by linarith) (by norm_num)
  constructor
  · have h1 : ((b + 1 / 2 ^ 54) * (1 - 1 / 2 ^ 52)) ^ 2 ≤ r ^ 2 := pow_le_pow_left₀ hlow0 hlow 2
    have h2 : ((b + 1 / 2 ^ 54) * (1 - 1 / 2 ^ 52)) ^ 2
        = (b + 1 / 2 ^ 54) ^ 2 * (1 - 1 / 2 ^ 52) ^ 2 := by ring
    have h3 : (n : ℚ) * (1 - 1 / 2 ^ 52) ^ 2 ≤ (b + 1 / 2 ^ 54) ^ 2 * (1 - 1 / 2 ^ 52) ^ 2 :=
      mul_le_mul_of_nonneg_right (le_of_lt hlt) (by positivity)
    have h4 : (n : ℚ) * (1 - 1 / 2 ^ 51) ≤ (n : ℚ) * (1 - 1 / 2 ^ 52) ^ 2 := by
      apply mul_le_mul_of_nonneg_left _ (by linarith)
      norm_num
    linarith
  · have h1 : r ^ 2 ≤ (b * (1 + 1 / 2 ^ 52)) ^ 2 := pow_le_pow_left₀ hr0 hup 2
    have h2 : (b * (1 + 1 / 2 ^ 52)) ^ 2 = b ^ 2 * (1 + 1 / 2 ^ 52) ^ 2 := by ring
    have h3 : b ^ 2 * (1 + 1 / 2 ^ 52) ^ 2 ≤ (n : ℚ) * (1 + 1 / 2 ^ 52) ^ 2 :=
      mul_le_mul_of_nonneg_right hb2 (by positivity)
    have h4 : (n : ℚ) * (1 + 1 / 2 ^ 52) ^ 2 ≤ (n : ℚ) * (1 + 1 / 2 ^ 50) := by
      apply mul_le_mul_of_nonneg_left _ (by linarith)
      norm_num
    linarith

/-- the symmetrised float64 entries of `directed` / `mean` / `max` / `min` stay in `[0, 1]`
(the sum of two doubles in `[0,1]` is rounded once and halved exactly) -/
theorem symmOpF64_range (s : Symm) (hs : s = .directed ∨ s = .mean ∨ s = .max ∨ s = .min)
    (a b : ℚ) (ha : 0 ≤ a ∧ a ≤ 1) (hb : 0 ≤ b ∧ b ≤ 1) :
    0 ≤ symmOpF64 s a b ∧ symmOpF64 s a b ≤ 1 := by
  rcases hs with rfl | rfl | rfl | rfl
  · exact ha
  · simp only [symmOpF64]
    have h0 : 0 ≤ a + b := by linarith
    rw [rn53s_of_nonneg _ h0]
    have h1 := rn53_nonneg (a + b)
    have h2 := rn53_le_two_pow (a + b) 1 (by norm_num; linarith)
    constructor
    · positivity
    · norm_num at h2; linarith
  · simp only [symmOpF64]
    exact ⟨le_trans ha.1 (le_max_left _ _), max_le ha.2 hb.2⟩
  · simp only [symmOpF64]
    exact ⟨le_min ha.1 hb.1, le_trans (min_le_left _ _) ha.2⟩

/-! ### the counts are half-integers -/

theorem countXY_half (tm : Option ℚ) (xs ys : List Ev) :
    ∃ k : ℕ, countXY tm xs ys = (k : ℚ) / 2 := by
  have h := dblxy_le tm xs ys
  refine ⟨2 * count2 (axy tm) xs ys + count2 eqt xs ys - dblxy tm xs ys, ?_⟩
  unfold countXY
  rw [Nat.cast_sub (by omega)]
  push_cast
  ring

theorem countYX_half (tm : Option ℚ) (xs ys : List Ev) :
    ∃ k : ℕ, countYX tm xs ys = (k : ℚ) / 2 := by
  have h := dblyx_le tm xs ys
  refine ⟨2 * count2 (ayx tm) xs ys + count2 eqt xs ys - dblyx tm xs ys, ?_⟩
  unfold countYX
  rw [Nat.cast_sub (by omega)]
  push_cast
  ring

/-- what the counting branch of `event_synchronization` returns: half-integer counts and the
norm `(lx-2)(ly-2) ≥ 1` -/
theorem es_val_facts (ex ey : List ℚ) (tm : Option ℚ) (lag : ℚ) (a b : ℚ) (n : ℕ)
    (h : es ex ey tm lag = .val a b n) :
    n = (ex.length - 2) * (ey.length - 2) ∧ 1 ≤ n ∧
      (∃ k : ℕ, a = (k : ℚ) / 2) ∧ (∃ k : ℕ, b = (k : ℚ) / 2) := by
  unfold es at h
  simp only at h
  split at h
  · cases h
  · rename_i h0
    split at h
    · cases h
    · rename_i h12
      injection h with h1 h2 h3
      simp only [List.length_map] at h0 h12 h3
      have hx : 3 ≤ ex.length := by omega
      have hy : 3 ≤ ey.length := by omega
      refine ⟨h3.symm, ?_, ?_, ?_⟩
      · rw [← h3]
        exact Nat.mul_pos (by omega) (by omega)
      · rw [← h1]; exact countXY_half _ _ _
      · rw [← h2]; exact countYX_half _ _ _

end Pyunicorn.Events
