import Pyunicorn.Model.Events
import Pyunicorn.Lemmas.SimilarityIeee
/-! C16 (round 3): the float32 quotient `np.float32(count) / denominator` of the coincidence
rates — `rn24` (round to nearest even, 24-bit significand) keeps a rate inside `[0,1]`, fixes
`0` and `1`, and moves it by at most `2⁻²⁴` relative. -/
namespace Pyunicorn.Events
open Pyunicorn.Similarity

theorem twoPow_sub23 (e : Int) : twoPow (e - 23) = twoPow e / 2 ^ 23 := by
  rw [twoPow_eq_zpow, twoPow_eq_zpow, zpow_sub₀ (by norm_num : (2 : ℚ) ≠ 0)]
  norm_num

/-- rounding to the nearest integer never passes an integer -/
theorem roundHalfEven_le_int (x : ℚ) (m : Int) (h : x ≤ (m : ℚ)) : roundHalfEven x ≤ m := by
  have h1 := Rat.floor_le x
  have h2 := Rat.lt_floor_add_one x
  have hf : x.floor ≤ m := by
    have : ((x.floor : Int) : ℚ) ≤ (m : ℚ) := le_trans h1 h
    exact_mod_cast this
  unfold roundHalfEven
  simp only
  split
  · exact hf
  · rename_i hr
    have hlt : x.floor < m := by
      rcases lt_or_eq_of_le hf with hlt | heq
      · exact hlt
      · exfalso
        apply hr
        have : x = (x.floor : ℚ) := le_antisymm (by rw [heq]; exact h) h1
        rw [← this] ; norm_num
    split
    · omega
    · split <;> omega

theorem roundHalfEven_nonneg (x : ℚ) (h : 0 ≤ x) : 0 ≤ roundHalfEven x := by
  have hf : 0 ≤ x.floor := by
    have := Rat.le_floor_iff.2 (show ((0 : Int) : ℚ) ≤ x by simpa using h)
    exact this
  unfold roundHalfEven
  simp only
  split
  · exact hf
  · split
    · omega
    · split <;> omega

theorem rn24_nonneg (x : ℚ) : 0 ≤ rn24 x := by
  unfold rn24
  split
  · exact le_refl _
  · rename_i hx
    have hx0 : 0 < x := lt_of_not_ge hx
    simp only
    have hu := twoPow_pos (binExp x - 23)
    have : 0 ≤ roundHalfEven (x / twoPow (binExp x - 23)) :=
      roundHalfEven_nonneg _ (le_of_lt (div_pos hx0 hu))
    have hq : (0 : ℚ) ≤ ((roundHalfEven (x / twoPow (binExp x - 23)) : Int) : ℚ) := by
      exact_mod_cast this
    exact mul_nonneg hq (le_of_lt hu)

/-- **a rate stays a rate**: the float32 nearest to a value in `[0,1]` lies in `[0,1]` -/
theorem rn24_le_one (x : ℚ) (h1 : x ≤ 1) : rn24 x ≤ 1 := by
  unfold rn24
  split
  · norm_num
  · rename_i hx
    have hx0 : 0 < x := lt_of_not_ge hx
    simp only
    set e := binExp x with he
    have hu := twoPow_pos (e - 23)
    -- 2^e ≤ x ≤ 1, hence e ≤ 0
    have hle : twoPow e ≤ 1 := le_trans (twoPow_binExp_le x hx0) h1
    have he0 : e ≤ 0 := by
      by_contra hc
      have hc' : 1 ≤ e := by omega
      rw [twoPow_eq_zpow] at hle
      have : (2 : ℚ) ^ (1 : Int) ≤ (2 : ℚ) ^ e := zpow_le_zpow_right₀ (by norm_num) hc'
      norm_num at this
      linarith
    -- 1 / ulp = 2^(23 - e) is an integer
    have hk : (0 : Int) ≤ 23 - e := by omega
    have hinv : 1 / twoPow (e - 23) = (((2 : Int) ^ (23 - e).toNat : Int) : ℚ) := by
      rw [twoPow_eq_zpow]
      have : (e - 23 : Int) = -(((23 - e).toNat : Nat) : Int) := by
        rw [Int.toNat_of_nonneg hk]; ring
      rw [this, zpow_neg, zpow_natCast]
      push_cast
      field_simp
    have hdiv : x / twoPow (e - 23) ≤ (((2 : Int) ^ (23 - e).toNat : Int) : ℚ) := by
      rw [← hinv, div_eq_mul_one_div]
      calc x * (1 / twoPow (e - 23)) ≤ 1 * (1 / twoPow (e - 23)) :=
            mul_le_mul_of_nonneg_right h1 (by positivity)
        _ = 1 / twoPow (e - 23) := one_mul _
    have hr := roundHalfEven_le_int _ _ hdiv
    have hrq : ((roundHalfEven (x / twoPow (e - 23)) : Int) : ℚ)
        ≤ (((2 : Int) ^ (23 - e).toNat : Int) : ℚ) := by exact_mod_cast hr
    calc ((roundHalfEven (x / twoPow (e - 23)) : Int) : ℚ) * twoPow (e - 23)
        ≤ (((2 : Int) ^ (23 - e).toNat : Int) : ℚ) * twoPow (e - 23) :=
          mul_le_mul_of_nonneg_right hrq (le_of_lt hu)
      _ = 1 := by rw [← hinv]; field_simp

/-- **relative error of the float32 quotient**: `|rn24 x − x| ≤ x · 2⁻²⁴` for `x ≥ 0` -/
theorem rn24_err (x : ℚ) (hx : 0 ≤ x) : |rn24 x - x| ≤ x / 2 ^ 24 := by
  unfold rn24
  split
  · have : x = 0 := le_antisymm (by assumption) hx
    subst this; simp
  · rename_i hpos
    have hx0 : 0 < x := lt_of_not_ge hpos
    simp only
    set ulp := twoPow (binExp x - 23) with hulp
    have hup : 0 < ulp := twoPow_pos _
    have hr := roundHalfEven_err (x / ulp)
    have hle : ulp ≤ x / 2 ^ 23 := by
      rw [hulp, twoPow_sub23]
      exact div_le_div_of_nonneg_right (twoPow_binExp_le x hx0) (by positivity)
    have key : ((roundHalfEven (x / ulp) : Int) : ℚ) * ulp - x
        = (((roundHalfEven (x / ulp) : Int) : ℚ) - x / ulp) * ulp := by
      field_simp
    rw [key, abs_mul, abs_of_pos hup]
    calc |((roundHalfEven (x / ulp) : Int) : ℚ) - x / ulp| * ulp ≤ (1 / 2) * ulp :=
          mul_le_mul_of_nonneg_right hr (le_of_lt hup)
      _ ≤ (1 / 2) * (x / 2 ^ 23) := mul_le_mul_of_nonneg_left hle (by norm_num)
      _ = x / 2 ^ 24 := by ring

/-- `0` and `1` are float32 numbers -/
theorem rn24_zero_one : rn24 0 = 0 ∧ rn24 1 = 1 := by
  constructor <;> decide +kernel

end Pyunicorn.Events
