import Pyunicorn.Model.AccessMi
/-! helper lemmas of C20 round 5c: what `Data.normalize_time_series_array` does to a column that
holds a non-finite value (core Lean only) -/
namespace Pyunicorn.Access

def XR.isFin : XR → Bool
  | .fin _ => true
  | _ => false

theorem tabX_at (R C : Nat) (f : Nat → Nat → XR) {t j : Nat} (ht : t < R) (hj : j < C) :
    (tabX R C f).at t j = f t j := by
  simp [tabX, XData.at, List.getD_eq_getElem?_getD, ht, hj]

theorem colOf_tabX (R C : Nat) (f : Nat → Nat → XR) {j : Nat} (hj : j < C) :
    colOf (tabX R C f) R j = (List.range R).map fun t => f t j := by
  unfold colOf
  apply List.map_congr_left
  intro t ht
  exact tabX_at R C f (List.mem_range.1 ht) hj

theorem XR.add_nan_left (b : XR) : XR.add .nan b = .nan := by cases b <;> rfl
theorem XR.add_nan_right (a : XR) : XR.add a .nan = .nan := by cases a <;> rfl

theorem foldl_add_nan (xs : List XR) : xs.foldl XR.add .nan = .nan := by
  induction xs with
  | nil => rfl
  | cons x t ih => simp [List.foldl_cons, XR.add_nan_left, ih]

/-- a sum with a NaN term is NaN -/
theorem foldl_add_mem_nan (xs : List XR) (acc : XR) (h : XR.nan ∈ xs) :
    xs.foldl XR.add acc = .nan := by
  induction xs generalizing acc with
  | nil => cases h
  | cons x t ih =>
    rw [List.foldl_cons]
    rcases List.mem_cons.1 h with h | h
    · rw [← h, XR.add_nan_right, foldl_add_nan]
    · exact ih _ h

/-- a sum with a non-finite term is not finite -/
theorem foldl_add_nonfin (xs : List XR) (acc : XR)
    (h : acc.isFin = false ∨ ∃ x ∈ xs, x.isFin = false) : (xs.foldl XR.add acc).isFin = false := by
  induction xs generalizing acc with
  | nil =>
    rcases h with h | ⟨x, hx, _⟩
    · exact h
    · cases hx
  | cons y t ih =>
    rw [List.foldl_cons]
    apply ih
    rcases h with h | ⟨x, hx, hf⟩
    · left; cases acc <;> cases y <;> simp_all [XR.isFin, XR.add]
    · rcases List.mem_cons.1 hx with rfl | hx
      · left; cases acc <;> cases x <;> simp_all [XR.isFin, XR.add]
      · exact Or.inr ⟨x, hx, hf⟩

theorem foldl_add_pinf (xs : List XR) (acc : XR) (h : xs.foldl XR.add acc = .pinf) :
    acc = .pinf ∨ .pinf ∈ xs := by
  induction xs generalizing acc with
  | nil => exact Or.inl h
  | cons y t ih =>
    rw [List.foldl_cons] at h
    rcases ih _ h with h' | h'
    · cases acc <;> cases y <;> simp_all [XR.add]
    · exact Or.inr (List.mem_cons_of_mem _ h')

theorem foldl_add_ninf (xs : List XR) (acc : XR) (h : xs.foldl XR.add acc = .ninf) :
    acc = .ninf ∨ .ninf ∈ xs := by
  induction xs generalizing acc with
  | nil => exact Or.inl h
  | cons y t ih =>
    rw [List.foldl_cons] at h
    rcases ih _ h with h' | h'
    · cases acc <;> cases y <;> simp_all [XR.add]
    · exact Or.inr (List.mem_cons_of_mem _ h')

/-- centring a column that holds a non-finite value produces a NaN in it: the mean is NaN or an
infinity that the column itself holds, and `inf - inf = NaN` -/
theorem centred_has_nan (col : List XR) (hne : col ≠ []) (h : ∃ x ∈ col, x.isFin = false) :
    ∃ x ∈ col, XR.sub x (meanX col) = .nan := by
  have hS := foldl_add_nonfin col (.fin 0) (Or.inr h)
  have hlen : ¬ ((col.length : Nat) : Rat) < 0 := by
    have : (0 : Rat) ≤ ((col.length : Nat) : Rat) := by exact_mod_cast Nat.zero_le _
    exact Rat.not_lt.2 this
  obtain ⟨x0, hx0⟩ := List.exists_mem_of_ne_nil _ hne
  unfold meanX
  cases hs : col.foldl XR.add (.fin 0) with
  | fin r => rw [hs] at hS; cases hS
  | nan => exact ⟨x0, hx0, by cases x0 <;> rfl⟩
  | pinf =>
    rcases foldl_add_pinf col _ hs with h' | h'
    · cases h'
    · exact ⟨.pinf, h', by simp [XR.divNp, hlen, XR.sub]⟩
  | ninf =>
    rcases foldl_add_ninf col _ hs with h' | h'
    · cases h'
    · exact ⟨.ninf, h', by simp [XR.divNp, hlen, XR.sub]⟩

theorem XR.divNp_nan_right (a : XR) : XR.divNp a .nan = .nan := by cases a <;> rfl

/-- the three statements of `Data.normalize_time_series_array` as array operations -/
def centreX (T N : Nat) (a : XData) : XData :=
  tabX T N fun t j => XR.sub (a.at t j) (meanX (colOf a T j))
def scaleX (sq : XR → XR) (T N : Nat) (a : XData) : XData :=
  tabX T N fun t j => XR.divNp (a.at t j) (sq (meanX ((colOf a T j).map fun x => XR.mul x x)))
def zeroNanX (T N : Nat) (a : XData) : XData :=
  tabX T N fun t j => if (a.at t j).isNan then .fin 0 else a.at t j

/-- the statements as they stand in the source at the time of writing (the generated
`normalize_steps` is compared with this list in `Properties/C20.lean`) -/
def normalizeSteps3 : List String :=
  ["time_series_array -= time_series_array.mean(axis=0)",
   "time_series_array /= np.sqrt((time_series_array * time_series_array.conjugate()).mean(axis=0))",
   "time_series_array[np.isnan(time_series_array)] = 0"]

theorem normalizeX_eq (sq : XR → XR) (T N : Nat) (a : XData) :
    normalizeX normalizeSteps3 sq T N a = some (zeroNanX T N (scaleX sq T N (centreX T N a))) := rfl

/-- the normalised array holds no NaN -/
theorem zeroNanX_no_nan (T N : Nat) (b : XData) {t j : Nat} (ht : t < T) (hj : j < N) :
    ((zeroNanX T N b).at t j).isNan = false := by
  rw [zeroNanX, tabX_at _ _ _ ht hj]
  split
  · rfl
  · simp_all

/-- **a column that holds `+inf`, `-inf` or NaN anywhere normalises to zeros** (for every square
root that maps NaN to NaN): centring turns one of its entries into NaN (`centred_has_nan`), so the
mean of squares, its root and every quotient are NaN, and NaN is replaced by 0 -/
theorem normalize_nonfinite_column (sq : XR → XR) (hsq : sq .nan = .nan) (T N : Nat) (a : XData)
    {j : Nat} (hj : j < N) (h : ∃ t, t < T ∧ (a.at t j).isFin = false) {t : Nat} (ht : t < T) :
    (zeroNanX T N (scaleX sq T N (centreX T N a))).at t j = .fin 0 := by
  rw [zeroNanX, tabX_at _ _ _ ht hj]
  suffices hn : (scaleX sq T N (centreX T N a)).at t j = .nan by rw [hn]; rfl
  rw [scaleX, tabX_at _ _ _ ht hj]
  have hm : meanX ((colOf (centreX T N a) T j).map fun x => XR.mul x x) = .nan := by
    rw [centreX, colOf_tabX _ _ _ hj]
    obtain ⟨t0, ht0, hf⟩ := h
    have hmem : a.at t0 j ∈ colOf a T j := List.mem_map.2 ⟨t0, List.mem_range.2 ht0, rfl⟩
    obtain ⟨x, hx, hnan⟩ := centred_has_nan (colOf a T j) (List.ne_nil_of_mem hmem)
      ⟨_, hmem, hf⟩
    obtain ⟨t1, ht1, rfl⟩ := List.mem_map.1 hx
    unfold meanX at hnan ⊢
    rw [foldl_add_mem_nan]
    · rfl
    · exact List.mem_map.2 ⟨_, List.mem_map.2 ⟨t1, ht1, rfl⟩, by rw [hnan]; rfl⟩
  rw [hm, hsq, XR.divNp_nan_right]

end Pyunicorn.Access
