import Mathlib.Analysis.Fourier.ZMod
import Mathlib.Analysis.SpecialFunctions.Complex.Arg
/-! C15, discrete-Fourier half: `numpy.fft.rfft` / `numpy.fft.irfft` modelled with Mathlib's
`ZMod.dft`. `irfft` of an arbitrary half spectrum is a real series whose `rfft` gives the half
spectrum back (DC / Nyquist bins: their real parts), hence Fourier surrogates built by
`irfft (|rfft x| · exp(i·angle(rfft R)))` have the amplitude spectrum of `x` at every bin. -/

namespace Pyunicorn.Surrogates.DFT
open ZMod
variable {n : ℕ} [NeZero n]

/-- `numpy.fft.rfft` of a real series of length `n`, bin `f`
(`A_f = Σ_t a_t·exp(-2πi·t·f/n)`, see `rfft_eq_sum`). -/
noncomputable def rfft (x : ZMod n → ℝ) (f : ℕ) : ℂ := 𝓕 (fun t => (x t : ℂ)) (f : ZMod n)

/-- The Hermitian extension `numpy.fft.irfft(Z, n)` works with: bins `0 … n/2` are given, the
imaginary part of the DC bin and (for even `n`) of the Nyquist bin is ignored, the remaining bins
are the conjugates. -/
noncomputable def hermExt (n : ℕ) (Z : ℕ → ℂ) (k : ZMod n) : ℂ :=
  if 2 * k.val < n then (if k.val = 0 then (((Z 0).re : ℝ) : ℂ) else Z k.val)
  else if 2 * k.val = n then (((Z k.val).re : ℝ) : ℂ)
  else (starRingEnd ℂ) (Z (n - k.val))

/-- `numpy.fft.irfft(Z, n)`. -/
noncomputable def irfft (Z : ℕ → ℂ) (t : ZMod n) : ℝ := (𝓕⁻ (hermExt n Z) t).re

theorem conj_stdAddChar (j : ZMod n) :
    (starRingEnd ℂ) (stdAddChar j) = stdAddChar (-j) := by
  rw [stdAddChar_apply, stdAddChar_apply, AddChar.map_neg_eq_inv, Circle.coe_inv_eq_conj]

theorem invDFT_conj (W : ZMod n → ℂ) (hW : ∀ k, W (-k) = (starRingEnd ℂ) (W k)) (t : ZMod n) :
    (starRingEnd ℂ) (𝓕⁻ W t) = 𝓕⁻ W t := by
  simp only [invDFT_apply, smul_eq_mul, map_mul, map_sum, map_inv₀, Complex.conj_natCast,
    conj_stdAddChar, ← hW]
  congr 1
  exact Fintype.sum_equiv (Equiv.neg _) _ _ (fun j => by simp)

theorem invDFT_im_eq_zero (W : ZMod n → ℂ) (hW : ∀ k, W (-k) = (starRingEnd ℂ) (W k))
    (t : ZMod n) : (𝓕⁻ W t).im = 0 :=
  Complex.conj_eq_iff_im.mp (invDFT_conj W hW t)

theorem hermExt_neg (Z : ℕ → ℂ) (k : ZMod n) :
    hermExt n Z (-k) = (starRingEnd ℂ) (hermExt n Z k) := by
  have hn : 0 < n := Nat.pos_of_ne_zero (NeZero.ne n)
  by_cases hk : k = 0
  · subst hk
    simp [hermExt, hn]
  · have hv : k.val ≠ 0 := by rwa [Ne, ZMod.val_eq_zero]
    have hlt : k.val < n := ZMod.val_lt k
    have hneg : (-k).val = n - k.val := by rw [ZMod.neg_val, if_neg hk]
    unfold hermExt
    rw [hneg]
    rcases lt_trichotomy (2 * k.val) n with h | h | h
    · have h1 : ¬ 2 * (n - k.val) < n := by omega
      have h2 : ¬ 2 * (n - k.val) = n := by omega
      have h3 : n - (n - k.val) = k.val := by omega
      rw [if_neg h1, if_neg h2, if_pos h, if_neg hv, h3]
    · have h1 : ¬ 2 * (n - k.val) < n := by omega
      have h2 : 2 * (n - k.val) = n := by omega
      have h3 : n - k.val = k.val := by omega
      rw [if_neg h1, if_pos h2, if_neg (by omega), if_pos h, h3, Complex.conj_ofReal]
    · have h1 : 2 * (n - k.val) < n := by omega
      have h2 : ¬ (n - k.val = 0) := by omega
      rw [if_pos h1, if_neg h2, if_neg (by omega), if_neg (by omega), Complex.conj_conj]

theorem irfft_coe (Z : ℕ → ℂ) :
    (fun t => ((irfft (n := n) Z t : ℝ) : ℂ)) = 𝓕⁻ (hermExt n Z) := by
  funext t
  exact Complex.conj_eq_iff_re.mp (invDFT_conj _ (hermExt_neg Z) t)

theorem dft_irfft (Z : ℕ → ℂ) :
    𝓕 (fun t => ((irfft (n := n) Z t : ℝ) : ℂ)) = hermExt n Z := by
  rw [irfft_coe, LinearEquiv.apply_symm_apply]

theorem rfft_irfft_eq (Z : ℕ → ℂ) (f : ℕ) :
    rfft (irfft (n := n) Z) f = hermExt n Z (f : ZMod n) := by
  unfold rfft
  rw [dft_irfft]

theorem rfft_irfft (Z : ℕ → ℂ) (f : ℕ) (h0 : 0 < f) (h2 : 2 * f < n) :
    rfft (irfft (n := n) Z) f = Z f := by
  have hv : (f : ZMod n).val = f := ZMod.val_natCast_of_lt (by omega)
  rw [rfft_irfft_eq, hermExt, hv, if_pos h2, if_neg (by omega)]

theorem rfft_irfft_dc (Z : ℕ → ℂ) :
    rfft (irfft (n := n) Z) 0 = (((Z 0).re : ℝ) : ℂ) := by
  have hn : 0 < n := Nat.pos_of_ne_zero (NeZero.ne n)
  rw [rfft_irfft_eq]
  simp [hermExt, hn]

theorem rfft_irfft_nyquist (Z : ℕ → ℂ) (f : ℕ) (h : 2 * f = n) :
    rfft (irfft (n := n) Z) f = (((Z f).re : ℝ) : ℂ) := by
  have hn : 0 < n := Nat.pos_of_ne_zero (NeZero.ne n)
  have hv : (f : ZMod n).val = f := ZMod.val_natCast_of_lt (by omega)
  rw [rfft_irfft_eq, hermExt, hv, if_neg (by omega), if_pos h]

theorem dft_real_neg (x : ZMod n → ℝ) (k : ZMod n) :
    𝓕 (fun t => (x t : ℂ)) (-k) = (starRingEnd ℂ) (𝓕 (fun t => (x t : ℂ)) k) := by
  simp only [dft_apply, smul_eq_mul, map_sum, map_mul, conj_stdAddChar, Complex.conj_ofReal,
    mul_neg, neg_neg]

theorem rfft_dc_im (x : ZMod n → ℝ) : (rfft x 0).im = 0 := by
  have h := dft_real_neg x (0 : ZMod n)
  rw [neg_zero] at h
  unfold rfft
  rw [Nat.cast_zero]
  exact Complex.conj_eq_iff_im.mp h.symm

omit [NeZero n] in
theorem natCast_neg_self_of_two_mul (f : ℕ) (h : 2 * f = n) : -(f : ZMod n) = f := by
  rw [neg_eq_iff_add_eq_zero]
  have : ((2 * f : ℕ) : ZMod n) = 0 := by rw [h, ZMod.natCast_self]
  rw [← this]; push_cast; ring

theorem rfft_nyquist_im (x : ZMod n → ℝ) (f : ℕ) (h : 2 * f = n) : (rfft x f).im = 0 := by
  have h' := dft_real_neg x (f : ZMod n)
  rw [natCast_neg_self_of_two_mul f h] at h'
  exact Complex.conj_eq_iff_im.mp h'.symm

theorem fourier_surrogate_amplitude (x : ZMod n → ℝ) (Z : ℕ → ℂ) (f : ℕ) (h0 : 0 < f)
    (h2 : 2 * f < n) (hZ : ‖Z f‖ = ‖rfft x f‖) :
    ‖rfft (irfft (n := n) Z) f‖ = ‖rfft x f‖ := by
  rw [rfft_irfft Z f h0 h2, hZ]

theorem unit_phase_of_real (w : ℂ) (hw : w.im = 0) :
    Complex.exp (Complex.arg w * Complex.I) = 1 ∨
      Complex.exp (Complex.arg w * Complex.I) = -1 := by
  rcases le_or_gt 0 w.re with h | h
  · left
    rw [Complex.arg_eq_zero_iff.mpr ⟨h, hw⟩]
    simp
  · right
    rw [Complex.arg_eq_pi_iff.mpr ⟨h, hw⟩, Complex.exp_pi_mul_I]

theorem norm_re_real_mul_unit_phase (a : ℝ) (ha : 0 ≤ a) (w : ℂ) (hw : w.im = 0) :
    ‖((((a : ℂ) * Complex.exp (Complex.arg w * Complex.I)).re : ℝ) : ℂ)‖ = a := by
  rcases unit_phase_of_real w hw with h | h <;> rw [h] <;> simp [abs_of_nonneg ha]

theorem true_spectrum_all_bins (x R : ZMod n → ℝ) (f : ℕ) (h2 : 2 * f ≤ n) :
    ‖rfft (irfft (n := n) (fun g => ((‖rfft x g‖ : ℝ) : ℂ) *
        Complex.exp (Complex.arg (rfft R g) * Complex.I))) f‖ = ‖rfft x f‖ := by
  rcases Nat.eq_zero_or_pos f with h0 | h0
  · subst h0
    rw [rfft_irfft_dc]
    exact norm_re_real_mul_unit_phase _ (norm_nonneg _) _ (rfft_dc_im R)
  · rcases Nat.lt_or_eq_of_le h2 with h | h
    · rw [rfft_irfft _ f h0 h, norm_mul, Complex.norm_exp_ofReal_mul_I, mul_one,
        Complex.norm_real, norm_norm]
    · rw [rfft_irfft_nyquist _ f h]
      exact norm_re_real_mul_unit_phase _ (norm_nonneg _) _ (rfft_nyquist_im R f h)

theorem rfft_eq_sum (x : ZMod n → ℝ) (f : ℕ) :
    rfft x f = ∑ t : ZMod n, (x t : ℂ) *
      Complex.exp (-(2 * Real.pi * Complex.I * (t.val : ℂ) * (f : ℂ) / (n : ℂ))) := by
  unfold rfft
  rw [dft_apply]
  refine Finset.sum_congr rfl (fun t _ => ?_)
  have hc : (-(t * (f : ZMod n))) = (((-((t.val : ℤ) * (f : ℤ)) : ℤ)) : ZMod n) := by
    push_cast
    rw [ZMod.natCast_zmod_val]
  rw [hc, stdAddChar_coe, smul_eq_mul, mul_comm]
  congr 2
  push_cast
  ring

/-- non-vacuity: length 5, bin 2 -/
example (Z : ℕ → ℂ) : rfft (irfft (n := 5) Z) 2 = Z 2 :=
  rfft_irfft Z 2 (by decide) (by decide)

/-- non-vacuity: length 4, Nyquist bin 2 and DC bin -/
example (x R : ZMod 4 → ℝ) :
    ‖rfft (irfft (n := 4) (fun g => ((‖rfft x g‖ : ℝ) : ℂ) *
        Complex.exp (Complex.arg (rfft R g) * Complex.I))) 2‖ = ‖rfft x 2‖ :=
  true_spectrum_all_bins x R 2 (by decide)

end Pyunicorn.Surrogates.DFT
