import Pyunicorn.Model.Coupling3
import Pyunicorn.Lemmas.Coupling2
import Mathlib.Algebra.BigOperators.Group.Finset.Basic
/-!
Lemmas for the round-3 part of the C10 model (`Model/Coupling3.lean`): pair loops / `only_tri`,
`_calculate_mi`, sums over a permuted index (surrogate draws), residual vectors of the Gaussian
estimators and the bound `|partial correlation| ≤ 1`.
-/
namespace Pyunicorn.Coupling

/-! ### pair loops -/

theorem pairRow_apply {α : Type} (val : Nat → Nat → α) (ot i n : Nat) (M : Nat → Nat → α)
    (a b : Nat) :
    pairRow val ot i n M a b = if a = i ∧ b < n ∧ (i + 1) * ot ≤ b then val i b else M a b := by
  induction n with
  | zero => simp [pairRow]
  | succ n ih =>
    simp only [pairRow]
    by_cases hc : (i + 1) * ot ≤ n
    · rw [if_pos hc]
      simp only [upd2]
      by_cases hab : a = i ∧ b = n
      · obtain ⟨ha, hb⟩ := hab
        subst ha hb
        rw [if_pos ⟨rfl, rfl⟩, if_pos ⟨rfl, by omega, hc⟩]
      · rw [if_neg hab, ih]
        by_cases h1 : a = i ∧ b < n ∧ (i + 1) * ot ≤ b
        · rw [if_pos h1, if_pos ⟨h1.1, by omega, h1.2.2⟩]
        · rw [if_neg h1, if_neg]
          rintro ⟨h2, h3, h4⟩
          by_cases e : b = n
          · exact hab ⟨h2, e⟩
          · exact h1 ⟨h2, by omega, h4⟩
    · rw [if_neg hc, ih]
      by_cases h1 : a = i ∧ b < n ∧ (i + 1) * ot ≤ b
      · rw [if_pos h1, if_pos ⟨h1.1, by omega, h1.2.2⟩]
      · rw [if_neg h1, if_neg]
        rintro ⟨h2, h3, h4⟩
        by_cases e : b = n
        · subst e; exact hc h4
        · exact h1 ⟨h2, by omega, h4⟩

theorem pairAll_apply {α : Type} (zero : α) (val : Nat → Nat → α) (ot N n a b : Nat) :
    pairAll zero val ot N n a b =
      if a < n ∧ b < N ∧ (a + 1) * ot ≤ b then val a b else zero := by
  induction n with
  | zero => simp [pairAll]
  | succ n ih =>
    simp only [pairAll]
    rw [pairRow_apply, ih]
    by_cases e : a = n
    · subst e
      by_cases h : b < N ∧ (a + 1) * ot ≤ b
      · rw [if_pos ⟨rfl, h.1, h.2⟩, if_pos ⟨by omega, h.1, h.2⟩]
      · rw [if_neg (fun hh => h ⟨hh.2.1, hh.2.2⟩), if_neg (fun hh => by omega),
          if_neg (fun hh => h ⟨hh.2.1, hh.2.2⟩)]
    · rw [if_neg (fun hh => e hh.1)]
      by_cases h : a < n ∧ b < N ∧ (a + 1) * ot ≤ b
      · rw [if_pos h, if_pos ⟨by omega, h.2.1, h.2.2⟩]
      · rw [if_neg h, if_neg (fun hh => h ⟨by omega, hh.2.1, hh.2.2⟩)]

/-- one slice of `corrmat` after the pair loops: with `only_tri` the strict upper triangle, without
it every cell `i, j < N` -/
theorem pairMat_apply (val : Nat → Nat → Rat) (onlyTri : Bool) (N a b : Nat) :
    pairMat val onlyTri N a b =
      if onlyTri then (if a < b ∧ b < N then val a b else 0)
      else (if a < N ∧ b < N then val a b else 0) := by
  unfold pairMat
  cases onlyTri
  · simp only [Bool.false_eq_true, if_false, pairAll_apply, Nat.sub_zero, Nat.mul_zero, Nat.zero_le,
      and_true]
  · simp only [if_true, pairAll_apply, Nat.mul_one]
    by_cases h : a < b ∧ b < N
    · rw [if_pos h, if_pos ⟨by omega, h.2, by omega⟩]
    · rw [if_neg h, if_neg (fun hh => h ⟨by omega, hh.2.1⟩)]

/-! ### `_calculate_mi` -/

theorem pureMiMaxScan_eq (c : Nat → Rat) (tauMax n : Nat) :
    pureMiMaxScan c tauMax n =
      ((maxScan c n).1, if 0 < (maxScan c n).1 then ((maxScan c n).2 : Int) - (tauMax : Int) else 0) ∧
      0 ≤ (maxScan c n).1 := by
  induction n with
  | zero => simp [pureMiMaxScan, maxScan]
  | succ n ih =>
    obtain ⟨h1, h2⟩ := ih
    have hs : maxScan c (n + 1) = if c n > (maxScan c n).1 then (c n, n) else maxScan c n := rfl
    have hp : pureMiMaxScan c tauMax (n + 1) =
        if c n > (pureMiMaxScan c tauMax n).1 then (c n, (n : Int) - (tauMax : Int))
        else pureMiMaxScan c tauMax n := rfl
    rw [hp, hs, h1]
    by_cases hgt : c n > (maxScan c n).1
    · simp only [hgt, if_true]
      have : 0 < c n := lt_of_le_of_lt h2 hgt
      simp [this, le_of_lt this]
    · simp only [hgt, if_false]
      exact ⟨trivial, h2⟩

theorem pureMiHist_counts (S : Nat → Nat → Nat → Nat) (tauMax cr bins i j t a b : Nat)
    (hb : b < bins) (hS : ∀ k, S t j k < bins) :
    pureMiHist S tauMax cr bins i j t (fun _ => 0) (a * bins + b) =
      countTo cr (fun k => decide (S tauMax i k = a) && decide (S t j k = b)) := by
  unfold pureMiHist
  rw [incWalk_apply, Nat.zero_add]
  apply countTo_congr
  intro k _
  rw [← Bool.decide_and]
  apply decide_eq_decide.mpr
  constructor
  · intro h; exact flat_index_inj (hS k) hb h
  · intro h; rw [h.1, h.2]

/-- after the entropy loop every cell the walk can have touched is `0` again: each
`(i, j, t)` starts from an empty histogram -/
theorem pureMiReset_clean (S : Nat → Nat → Nat → Nat) (tauMax cr bins i j t : Nat)
    (hS : ∀ t i k, S t i k < bins) (c : Nat) :
    pureMiReset bins (pureMiHist S tauMax cr bins i j t (fun _ => 0)) c = 0 := by
  unfold pureMiReset
  split
  · rfl
  · rename_i h
    unfold pureMiHist
    rw [incWalk_apply, Nat.zero_add]
    apply countTo_zero
    intro k _
    simp only [decide_eq_false_iff_not]
    intro e
    apply h
    rw [← e]
    have h1 := hS tauMax i k
    have h2 := hS t j k
    calc S tauMax i k * bins + S t j k < S tauMax i k * bins + bins := by omega
      _ = (S tauMax i k + 1) * bins := by rw [Nat.add_mul, Nat.one_mul]
      _ ≤ bins * bins := Nat.mul_le_mul_right _ h1

/-! ### sums over a permuted index -/

theorem sumTo_eq_finset (n : Nat) (f : Nat → Rat) : sumTo n f = ∑ k ∈ Finset.range n, f k := by
  induction n with
  | zero => simp [sumTo]
  | succ n ih => rw [sumTo, ih, Finset.sum_range_succ]

/-- `π` maps `0 … n-1` injectively into itself (a draw of `numpy.random.permutation` /
`numpy.random.shuffle`) -/
def PermOn (π : Nat → Nat) (n : Nat) : Prop :=
  (∀ s, s < n → π s < n) ∧ ∀ s s', s < n → s' < n → π s = π s' → s = s'

theorem sumTo_perm (n : Nat) (f : Nat → Rat) (π : Nat → Nat) (hπ : PermOn π n) :
    sumTo n (fun s => f (π s)) = sumTo n f := by
  obtain ⟨hmap, hinj⟩ := hπ
  have hinj' : Set.InjOn π (Finset.range n : Set Nat) := by
    intro s hs s' hs' e
    exact hinj s s' (Finset.mem_range.mp hs) (Finset.mem_range.mp hs') e
  have him : (Finset.range n).image π = Finset.range n := by
    apply Finset.eq_of_subset_of_card_le
    · intro u hu
      obtain ⟨s, hs, rfl⟩ := Finset.mem_image.mp hu
      exact Finset.mem_range.mpr (hmap s (Finset.mem_range.mp hs))
    · rw [Finset.card_image_of_injOn hinj']
  rw [sumTo_eq_finset, sumTo_eq_finset]
  calc ∑ k ∈ Finset.range n, f (π k) = ∑ u ∈ (Finset.range n).image π, f u :=
        (Finset.sum_image hinj').symm
    _ = ∑ u ∈ Finset.range n, f u := by rw [him]

theorem meanTo_perm (n : Nat) (f : Nat → Rat) (π : Nat → Nat) (hπ : PermOn π n) :
    meanTo n (fun s => f (π s)) = meanTo n f := by
  unfold meanTo; rw [sumTo_perm n f π hπ]

theorem covTo_perm (n : Nat) (f g : Nat → Rat) (π : Nat → Nat) (hπ : PermOn π n) :
    covTo n (fun s => f (π s)) (fun s => g (π s)) = covTo n f g := by
  unfold covTo
  simp only [meanTo_perm n f π hπ, meanTo_perm n g π hπ]
  exact sumTo_perm n (fun k => (f k - meanTo n f) * (g k - meanTo n g)) π hπ

/-- Pearson's coefficient does not depend on the order in which the sample times are drawn -/
theorem pearsonSq_perm (n : Nat) (f g : Nat → Rat) (π : Nat → Nat) (hπ : PermOn π n) :
    pearsonSq n (fun s => f (π s)) (fun s => g (π s)) = pearsonSq n f g := by
  unfold pearsonSq
  simp only [covTo_perm n f g π hπ, covTo_perm n f f π hπ, covTo_perm n g g π hπ]

/-! ### residual vectors (`x -= Q Qᵀ x`) and the bound on the partial correlation -/

/-- residual of row `a` after the rows in `zs` have been projected out one after the other (the last
element of the list first); a confound without residual variance is skipped -/
def resid (n : Nat) (r : Nat → Nat → Rat) : List Nat → Nat → (Nat → Rat)
  | [], a => r a
  | w :: zs, a =>
    let d := dotTo n (resid n r zs w) (resid n r zs w)
    if d = 0 then resid n r zs a
    else fun k => resid n r zs a k - dotTo n (resid n r zs a) (resid n r zs w) / d * resid n r zs w k

theorem dotTo_comm (n : Nat) (u v : Nat → Rat) : dotTo n u v = dotTo n v u := by
  unfold dotTo; apply sumTo_congr; intro k _; ring

theorem dotTo_sub_smul (n : Nat) (a b w : Nat → Rat) (c e : Rat) :
    dotTo n (fun k => a k - c * w k) (fun k => b k - e * w k) =
      dotTo n a b - e * dotTo n a w - c * dotTo n w b + c * e * dotTo n w w := by
  unfold dotTo
  have : (fun k => (a k - c * w k) * (b k - e * w k)) =
      fun k => (a k * b k + (-e) * (a k * w k)) + ((-c) * (w k * b k) + (c * e) * (w k * w k)) := by
    funext k; ring
  rw [this, sumTo_add, sumTo_add, sumTo_add, sumTo_mul_left, sumTo_mul_left, sumTo_mul_left]
  ring

/-- the inner-product recursion `pcovG` on a Gram matrix computes the inner products of the
residual vectors -/
theorem pcovG_eq_resid (n : Nat) (r : Nat → Nat → Rat) (zs : List Nat) (a b : Nat) :
    pcovG (fun a b => dotTo n (r a) (r b)) zs a b = dotTo n (resid n r zs a) (resid n r zs b) := by
  induction zs generalizing a b with
  | nil => rfl
  | cons w zs ih =>
    simp only [pcovG, resid, ih]
    by_cases hd : dotTo n (resid n r zs w) (resid n r zs w) = 0
    · rw [if_pos hd, if_pos hd, if_pos hd]
    · rw [if_neg hd, if_neg hd, if_neg hd, dotTo_sub_smul, dotTo_comm n (resid n r zs w) (resid n r zs b)]
      field_simp
      ring

/-- `-1 ≤ sign(c)·c²/(va·vb) ≤ 1` from Cauchy–Schwarz -/
theorem signedSq_bounded (c va vb : Rat) (ha : 0 < va) (hb : 0 < vb) (hcs : c * c ≤ va * vb) :
    -1 ≤ sgn c * (c * c) / (va * vb) ∧ sgn c * (c * c) / (va * vb) ≤ 1 := by
  have hd : 0 < va * vb := mul_pos ha hb
  have hq0 : 0 ≤ c * c / (va * vb) := div_nonneg (mul_self_nonneg _) (le_of_lt hd)
  have hq1 : c * c / (va * vb) ≤ 1 := by rw [div_le_one hd]; exact hcs
  have hs := sgn_abs_le c
  rw [mul_div_assoc]
  constructor <;> nlinarith

theorem dotTo_self_nonneg (n : Nat) (u : Nat → Rat) : 0 ≤ dotTo n u u := sumTo_sq_nonneg n u

/-- **`|partial correlation| ≤ 1`** for the Gaussian estimators: on the Gram matrix of any rows,
for any list of confounds (regular or not) -/
theorem parCorrSqG_bounded (n : Nat) (r : Nat → Nat → Rat) (zs : List Nat) (a b : Nat) :
    -1 ≤ parCorrSqG (fun a b => dotTo n (r a) (r b)) zs a b ∧
      parCorrSqG (fun a b => dotTo n (r a) (r b)) zs a b ≤ 1 := by
  unfold parCorrSqG
  simp only [pcovG_eq_resid]
  split
  · constructor <;> norm_num
  · rename_i h
    have hx : dotTo n (resid n r zs a) (resid n r zs a) ≠ 0 := fun e => h (Or.inl e)
    have hy : dotTo n (resid n r zs b) (resid n r zs b) ≠ 0 := fun e => h (Or.inr e)
    exact signedSq_bounded _ _ _ (lt_of_le_of_ne (dotTo_self_nonneg _ _) (Ne.symm hx))
      (lt_of_le_of_ne (dotTo_self_nonneg _ _) (Ne.symm hy))
      (sumTo_cauchy_schwarz n (resid n r zs a) (resid n r zs b))

end Pyunicorn.Coupling
