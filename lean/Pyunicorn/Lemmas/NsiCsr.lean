import Mathlib.Algebra.BigOperators.Group.List.Basic
import Pyunicorn.Model.NsiCsr
import Pyunicorn.Lemmas.NsiIdx
/-!
C20 round 5e — lemmas on the construction of the CSR arguments (`Model/NsiCsr.lean`):
the offsets the kernel computes are the prefix sums of `k`, a row's segment of `flat_neighbors` is
the list of its non-zero columns, and a column index occurs in it as often as the entry says.
-/
namespace Pyunicorn.NsiCsr
open Pyunicorn.NsiIdx

/-- the kernel's `offsets` are the prefix sums of `k` -/
theorem offsets_fold (k : List Nat) (m : Nat) (hm : m ≤ k.length) :
    (List.range m).foldlM (fun (acc : List Nat) i => do
      let ki ← k[i]?
      let prev ← acc[i]?
      some (acc ++ [prev + ki])) [0]
    = some ((List.range (m + 1)).map fun i => (k.take i).sum) := by
  induction m with
  | zero => simp
  | succ m ih =>
    rw [List.range_succ, List.foldlM_append, ih (by omega)]
    have hk : k[m]? = some k[m] := List.getElem?_eq_getElem (by omega)
    simp [hk, List.range_succ]
    exact (List.sum_take_succ k m (by omega)).symm

theorem offsets_eq (N : Nat) (k : List Nat) (h : N ≤ k.length) :
    offsets N k = some ((List.range N).map fun i => (k.take i).sum) := by
  unfold offsets
  cases N with
  | zero => simp
  | succ n =>
    simp only [Nat.add_sub_cancel, Nat.succ_ne_zero, if_false]
    exact offsets_fold k n (by omega)

theorem nzFrom_length (c : Nat) (r : List Nat) (h : ∀ x ∈ r, x ≤ 1) : (nzFrom c r).length = r.sum := by
  induction r generalizing c with
  | nil => simp [nzFrom]
  | cons x r ih =>
    have hx : x ≤ 1 := h x (by simp)
    have := ih (c + 1) (fun y hy => h y (by simp [hy]))
    rcases Nat.le_one_iff_eq_zero_or_eq_one.mp hx with rfl | rfl <;> simp [nzFrom, this] <;> omega

theorem nzFrom_lt (c : Nat) (r : List Nat) : ∀ x ∈ nzFrom c r, x < c + r.length := by
  induction r generalizing c with
  | nil => simp [nzFrom]
  | cons y r ih =>
    intro x hx
    simp only [nzFrom] at hx
    split at hx
    · rcases List.mem_cons.mp hx with rfl | hx
      · simp
      · have := ih (c + 1) x hx; simp; omega
    · have := ih (c + 1) x hx; simp; omega

theorem nzFrom_count (c : Nat) (r : List Nat) (h : ∀ x ∈ r, x ≤ 1) (l : Nat) :
    (nzFrom c r).count l = if l < c then 0 else r.getD (l - c) 0 := by
  induction r generalizing c with
  | nil => simp [nzFrom]
  | cons x r ih =>
    have hx : x ≤ 1 := h x (by simp)
    have ih' := ih (c + 1) (fun y hy => h y (by simp [hy]))
    by_cases h1 : l < c
    · have : l < c + 1 := by omega
      rcases Nat.le_one_iff_eq_zero_or_eq_one.mp hx with rfl | rfl
      · simp [nzFrom, ih', h1, this]
      · have : c ≠ l := by omega
        simp [nzFrom, ih', h1, List.count_cons, this]; omega
    · by_cases h2 : l = c
      · subst h2
        rcases Nat.le_one_iff_eq_zero_or_eq_one.mp hx with rfl | rfl <;>
          simp [nzFrom, ih', List.count_cons]
      · have h3 : ¬ l < c + 1 := by omega
        have h4 : l - c = (l - (c + 1)) + 1 := by omega
        have h5 : c ≠ l := by omega
        rcases Nat.le_one_iff_eq_zero_or_eq_one.mp hx with rfl | rfl <;>
          simp [nzFrom, ih', h1, h3, h4, List.count_cons, h5]

/-- position `(lengths of the first i lists) + u` of a flattened list of lists -/
theorem flatten_getElem? (L : List (List Nat)) (i u : Nat) (hu : u < (L.getD i []).length) :
    L.flatten[((L.take i).map List.length).sum + u]? = (L.getD i [])[u]? := by
  induction L generalizing i with
  | nil => simp at hu
  | cons a L ih =>
    cases i with
    | zero =>
      simp only [List.getD_cons_zero] at hu
      simp [List.getElem?_append_left hu]
    | succ i =>
      simp only [List.getD_cons_succ] at hu
      have := ih i hu
      simp only [List.take_succ_cons, List.map_cons, List.sum_cons, List.flatten_cons,
        List.getD_cons_succ]
      rw [List.getElem?_append_right (by omega)]
      have e : a.length + ((L.take i).map List.length).sum + u - a.length
          = ((L.take i).map List.length).sum + u := by omega
      rw [e]; exact this

/-- counting by positions = `count` -/
theorem filter_range_count (M : List Nat) (l : Nat) :
    ((List.range M.length).filter fun u => M[u]? == some l).length = M.count l := by
  induction M using List.reverseRecOn with
  | nil => simp
  | append_singleton M x ih =>
    simp only [List.length_append, List.length_singleton, List.range_succ, List.filter_append,
      List.count_append]
    have e : (List.range M.length).filter (fun u => (M ++ [x])[u]? == some l)
        = (List.range M.length).filter (fun u => M[u]? == some l) := by
      apply List.filter_congr
      intro u hu
      rw [List.getElem?_append_left (List.mem_range.mp hu)]
    rw [e, ih]
    by_cases hx : x = l <;> simp [hx, List.count_cons]

theorem map_range_getD (r : List Nat) : (List.range r.length).map (fun i => r.getD i 0) = r := by
  apply List.ext_getElem
  · simp
  · intro i h1 h2
    simp only [List.getElem_map, List.getElem_range, List.getD_eq_getElem?_getD]
    rw [List.getElem?_eq_getElem h2]; rfl

theorem sum_take_le (k : List Nat) (j : Nat) : (k.take j).sum ≤ k.sum := by
  have := List.sum_take_add_sum_drop k j
  omega

/-- a legal adjacency, as propositions -/
structure Adj (A : List (List Nat)) : Prop where
  sq : ∀ r ∈ A, r.length = A.length
  bin : ∀ r ∈ A, ∀ x ∈ r, x ≤ 1
  sym : ∀ i, i < A.length → ∀ j, j < A.length → (A.getD i []).getD j 0 = (A.getD j []).getD i 0

theorem adjOK_iff (A : List (List Nat)) (h : adjOK A = true) : Adj A := by
  simp only [adjOK, Bool.and_eq_true, List.all_eq_true, decide_eq_true_eq, List.mem_range] at h
  exact ⟨fun r hr => (h.1 r hr).1, fun r hr => (h.1 r hr).2, h.2⟩

theorem lens_eq (A : List (List Nat)) (h : Adj A) :
    (A.map (nzFrom 0)).map List.length = rowSums A := by
  simp only [rowSums, List.map_map]
  apply List.map_congr_left
  intro r hr
  exact nzFrom_length 0 r (h.bin r hr)

theorem getD_rows (A : List (List Nat)) (i : Nat) (hi : i < A.length) :
    (A.map (nzFrom 0)).getD i [] = nzFrom 0 (A.getD i []) ∧ (rowSums A).getD i 0 = (A.getD i []).sum
    ∧ A.getD i [] ∈ A := by
  simp [rowSums, List.getD_eq_getElem?_getD, hi]

/-- slots of node `i` pointing to `l` = the entry `A[i][l]` -/
theorem cnt_build (A : List (List Nat)) (h : Adj A) (off : List Nat)
    (hoff : ∀ i, i < A.length → off.getD i 0 = ((rowSums A).take i).sum) (i l : Nat)
    (hi : i < A.length) :
    cnt off (rowSums A) (nzCols A) i l = (A.getD i []).getD l 0 := by
  obtain ⟨g1, g2, g3⟩ := getD_rows A i hi
  have hlen : (nzFrom 0 (A.getD i [])).length = (rowSums A).getD i 0 := by
    rw [g2]; exact nzFrom_length 0 _ (h.bin _ g3)
  unfold cnt cntUpTo
  rw [hoff i hi, ← hlen]
  have e : (List.range (nzFrom 0 (A.getD i [])).length).filter
        (fun u => (nzCols A)[((rowSums A).take i).sum + u]? == some l)
      = (List.range (nzFrom 0 (A.getD i [])).length).filter
        (fun u => (nzFrom 0 (A.getD i []))[u]? == some l) := by
    apply List.filter_congr
    intro u hu
    have hu' := List.mem_range.mp hu
    have := flatten_getElem? (A.map (nzFrom 0)) i u (by rw [g1]; exact hu')
    rw [g1, List.map_take, lens_eq A h] at this
    simp only [nzCols]
    rw [this]
  rw [e, filter_range_count, nzFrom_count 0 _ (h.bin _ g3)]
  simp

/-- **the constructed arguments satisfy the kernel's contract** -/
theorem build_csrOK (A : List (List Nat)) (h : Adj A) (tg : Option (List Nat))
    (ht : ∀ t, tg = some t → ∀ j ∈ t, j < A.length) :
    csrOK (build A tg).N (build A tg).k (build A tg).nbr (build A tg).wlen (build A tg).slen
      (build A tg).targets = true := by
  have hk : (rowSums A).length = A.length := by simp [rowSums]
  have hoffs := offsets_eq A.length (rowSums A) (Nat.le_of_eq hk.symm)
  simp only [build, csrOK, hoffs]
  have hoff : ∀ i, i < A.length →
      ((List.range A.length).map fun i => ((rowSums A).take i).sum).getD i 0
        = ((rowSums A).take i).sum := by
    intro i hi
    simp [List.getD_eq_getElem?_getD, hi]
  simp only [Bool.and_eq_true, decide_eq_true_iff, List.all_eq_true, List.mem_range]
  refine ⟨⟨⟨⟨⟨⟨⟨by simp, decide_eq_true (Nat.le_of_eq hk.symm)⟩, decide_eq_true (Nat.le_refl _)⟩, decide_eq_true (Nat.le_refl _)⟩, ?_⟩, ?_⟩, ?_⟩, ?_⟩
  · intro j hj
    apply decide_eq_true
    cases tg with
    | none => simpa using hj
    | some t => exact ht t rfl j hj
  · intro i hi
    apply decide_eq_true
    rw [hoff i hi]
    have hl : (nzCols A).length = (rowSums A).sum := by
      simp only [nzCols, List.length_flatten, lens_eq A h]
    have : (rowSums A).getD i 0 = (rowSums A)[i]'(by omega) := by
      simp [List.getD_eq_getElem?_getD, hk, hi]
    rw [hl, this, ← List.sum_take_succ _ _ (by omega)]
    exact sum_take_le _ _
  · intro x hx
    apply decide_eq_true
    simp only [nzCols, List.mem_flatten, List.mem_map] at hx
    obtain ⟨_, ⟨r, hr, rfl⟩, hx⟩ := hx
    have := nzFrom_lt 0 r x hx
    rw [h.sq r hr] at this
    omega
  · intro l hl
    apply decide_eq_true
    have e : (List.range A.length).map (fun i => cnt ((List.range A.length).map fun i =>
          ((rowSums A).take i).sum) (rowSums A) (nzCols A) i l)
        = (List.range A.length).map (fun i => (A.getD l []).getD i 0) := by
      apply List.map_congr_left
      intro i hi
      have hi' := List.mem_range.mp hi
      rw [cnt_build A h _ hoff i l hi', h.sym i hi' l hl]
    obtain ⟨_, g2, g3⟩ := getD_rows A l hl
    rw [e, g2]
    have := map_range_getD (A.getD l [])
    rw [h.sq _ g3] at this
    rw [this]

end Pyunicorn.NsiCsr
