import Mathlib.Algebra.BigOperators.Group.List.Basic
import Pyunicorn.Model.NsiCsr
import Pyunicorn.Lemmas.NsiIdx
/-!
C20 round 5e — lemmas on the construction of the CSR arguments (`Model/NsiCsr.lean`):
the offsets the kernel computes are the prefix sums of `k`, a row's segment of `flat_neighbors` is
the list of its non-zero columns, and a column index occurs in it as often as the entry says.
-/
namespace Pyunicorn.NsiCsr
open Pyunicorn.NsiIdx

/-- the kernel's `offsets` are the prefix sums of `k` -/
theorem offsets_fold (k : List Nat) (m : Nat) (hm : m ≤ k.length) :
    (List.range m).foldlM (fun (acc : List Nat) i => do
      let ki ← k[i]?
      let prev ← acc[i]?
      some (acc ++ [prev + ki])) [0]
    = some ((List.range (m + 1)).map fun i => (k.take i).sum) := by
  induction m with
  | zero => simp
  | succ m ih =>
    rw [List.range_succ, List.foldlM_append, ih (by omega)]
    have hk : k[m]? = some k[m] := List.getElem?_eq_getElem (by omega)
    simp [hk, List.range_succ]
    exact (List.sum_take_succ k m (by omega)).symm

theorem offsets_eq (N : Nat) (k : List Nat) (h : N ≤ k.length) :
    offsets N k = some ((List.range N).map fun i => (k.take i).sum) := by
  unfold offsets
  cases N with
  | zero => simp
  | succ n =>
    simp only [Nat.add_sub_cancel, Nat.succ_ne_zero, if_false]
    exact offsets_fold k n (by omega)

theorem nzFrom_length (c : Nat) (r : List Nat) (h : ∀ x ∈ r, x ≤ 1) : (nzFrom c r).length = r.sum := by
  induction r generalizing c with
  | nil => simp [nzFrom]
  | cons x r ih =>
    have hx : x ≤ 1 := h x (by simp)
    have := ih (c + 1) (fun y hy => h y (by simp [hy]))
    rcases Nat.le_one_iff_eq_zero_or_eq_one.mp hx with rfl | rfl <;> simp [nzFrom, this] <;> omega

theorem nzFrom_lt (c : Nat) (r : List Nat) : ∀ x ∈ nzFrom c r, x < c + r.length := by
  induction r generalizing c with
  | nil => simp [nzFrom]
  | cons y r ih =>
    intro x hx
    simp only [nzFrom] at hx
    split at hx
    · rcases List.mem_cons.mp hx with rfl | hx
      · simp
      · have := ih (c + 1) x hx; simp; omega
    · have := ih (c + 1) x hx; simp; omega

theorem nzFrom_count (c : Nat) (r : List Nat) (h : ∀ x ∈ r, x ≤ 1) (l : Nat) :
    (nzFrom c r).count l = if l < c then 0 else r.getD (l - c) 0 := by
  induction r generalizing c with
  | nil => simp [nzFrom]
  | cons x r ih =>
    have hx : x ≤ 1 := h x (by simp)
    have ih' := ih (c + 1) (fun y hy => h y (by simp [hy]))
    by_cases h1 : l < c
    · have : l < c + 1 := by omega
      rcases Nat.le_one_iff_eq_zero_or_eq_one.mp hx with rfl | rfl
      · simp [nzFrom, ih', h1, this]
      · have : c ≠ l := by omega
        simp [nzFrom, ih', h1, List.count_cons, this]; omega
    · by_cases h2 : l = c
      · subst h2
        rcases Nat.le_one_iff_eq_zero_or_eq_one.mp hx with rfl | rfl <;>
          simp [nzFrom, ih', List.count_cons]
      · have h3 : ¬ l < c + 1 := by omega
        have h4 : l - c = (l - (c + 1)) + 1 := by omega
        have h5 : c ≠ l := by omega
        rcases Nat.le_one_iff_eq_zero_or_eq_one.mp hx with rfl | rfl <;>
          simp [nzFrom, ih', h1, h3, h4, List.count_cons, h5]

/-- position `(lengths of the first i lists) + u` of a flattened list of lists -/
theorem flatten_getElem? (L : List (List Nat)) (i u : Nat) (hu : u < (L.getD i []).length) :
    L.flatten[((L.take i).map List.length).sum + u]? = (L.getD i [])[u]? := by
  induction L generalizing i with
  | nil => simp at hu
  | cons a L ih =>
    cases i with
    | zero =>
      simp only [List.getD_cons_zero] at hu
      simp [List.getElem?_append_left hu]
    | succ i =>
      simp only [List.getD_cons_succ] at hu
      have := ih i hu
      simp only [List.take_succ_cons, List.map_cons, List.sum_cons, List.flatten_cons,
        List.getD_cons_succ]
      rw [List.getElem?_append_right (by omega)]
      have e : a.length + ((L.take i).map List.length).sum + u - a.length
          = ((L.take i).map List.length).sum + u := by omega
      rw [e]; exact this

/-- counting by positions = `count` -/
theorem filter_range_count (M : List Nat) (l : Nat) :
    ((List.range M.length).filter fun u => M[u]? == some l).length = M.count l := by
  induction M using List.reverseRecOn with
  | nil => simp
  | append_singleton M x ih =>
    simp only [List.length_append, List.length_singleton, List.range_succ, List.filter_append,
      List.count_append]
    have e : (List.range M.length).filter (fun u => (M ++ [x])[u]? == some l)
        = (List.range M.length).filter (fun u => M[u]? == some l) := by
      apply List.filter_congr
      intro u hu
      rw [List.getElem?_append_left (List.mem_range.mp hu)]
    rw [e, ih]
    by_cases hx : x = l <;> simp [hx, List.count_cons]

end Pyunicorn.NsiCsr
