import Pyunicorn.Lemmas.Random
import Pyunicorn.Lemmas.RandomB
import Pyunicorn.Lemmas.RandomF
/-!
C17, round 4: termination of the rewiring loops as a statement about the stream of draws.

* every accepted rewiring can be undone by the next draw (`geoAccept_reverse`, `cross_reverse`), so
  "an admissible swap exists" is an *invariant* of the loops (`geoRun_keeps`, `crossRun_keeps`);
* a block of draws that offers every pair of indices makes at least one rewiring
  (`geoRun_block_progress`, `crossRun_block_progress`);
* hence a stream that consists of `iterations` such blocks completes the run (Properties/C17.lean).
-/
namespace Pyunicorn.Random
open Pyunicorn.Generated.StructC17

/-- a block of draws offers every pair of indices below `E` -/
def Covers (E : Nat) (block : List (Nat × Nat)) : Prop :=
  ∀ p q, p < E → q < E → (p, q) ∈ block

/-! ### geographical rewiring -/

/-- **an accepted rewiring is reversible**: right after `(s,t),(k,l) ↦ (s,l),(k,t)` the pair
`(s,l),(k,t)` passes the `if` (the four disjointness tests, the two "new link absent" tests, the
degree condition and C1 / C2 are symmetric under the exchange `t ↔ l`) -/
theorem geoAccept_reverse (c : GeoCfg) (A : Adj) (s t k l : Nat) (hst : s ≠ t) (hkl : k ≠ l)
    (acc : geoAccept c A s t k l = true) : geoAccept c (rewire A s t k l) s l k t = true := by
  have acc' := acc
  simp only [geoAccept, Bool.and_eq_true, bne_iff_ne, ne_eq, Bool.not_eq_true'] at acc'
  obtain ⟨⟨⟨⟨⟨⟨hsk, hsl⟩, htk⟩, htl⟩, hAsl, hAtk⟩, hdeg⟩, hlen⟩ := acc'
  have ra := fun a b => rewire_apply A s t k l a b hsk hsl htk htl hst hkl
  have h1 : rewire A s t k l s t = false := by rw [ra]; grind
  have h2 : rewire A s t k l l k = false := by rw [ra]; grind
  have hd : condDeg c s l k t = true := by
    simp only [condDeg] at hdeg ⊢
    cases hm : c.mode <;> simp only [hm] at hdeg ⊢ <;> simp_all
  have hl : condLen c s l k t = true := by
    simp only [condLen] at hlen ⊢
    cases hm : c.mode <;> simp only [hm] at hlen ⊢ <;>
      simp only [condC1, condC2, near, Bool.and_eq_true, Bool.or_eq_true, decide_eq_true_eq] at hlen ⊢ <;>
      omega
  simp only [geoAccept, Bool.and_eq_true, bne_iff_ne, ne_eq, Bool.not_eq_true']
  exact ⟨⟨⟨⟨⟨⟨hsk, hst⟩, fun h => hkl h.symm⟩, fun h => htl h.symm⟩, h1, h2⟩, hd⟩, hl⟩

/-- one pass through the loop body keeps "simple graph, `edges` its edge list, an admissible swap
exists" -/
theorem geoStep_keeps (n : Nat) (c : GeoCfg) (st st' : GeoSt) (d : Nat × Nat)
    (h : geoStep c st d = some st') (inv : GeoInv n st.A st.edges)
    (adm : geoAdmissible c st.A st.edges = true) :
    GeoInv n st'.A st'.edges ∧ geoAdmissible c st'.A st'.edges = true ∧
      st'.edges.length = st.edges.length ∧ st.i ≤ st'.i := by
  rcases geoStep_cases c st st' d h with rfl | ⟨s, t, k, l, hp, hq, e1, e2, acc, rfl⟩
  · exact ⟨inv, adm, rfl, Nat.le_refl _⟩
  · refine ⟨geoInv_rewire n c st.A st.edges d.1 d.2 s t k l hp hq e1 e2 acc inv, ?_, by simp,
      Nat.le_succ _⟩
    have hAst : st.A s t = true := by have := inv.links d.1 hp; rw [e1] at this; exact this
    have hAkl : st.A k l = true := by have := inv.links d.2 hq; rw [e2] at this; exact this
    have hst : s ≠ t := by intro h; subst h; rw [inv.loopfree] at hAst; cases hAst
    have hkl : k ≠ l := by intro h; subst h; rw [inv.loopfree] at hAkl; cases hAkl
    have hsk : s ≠ k := by
      simp only [geoAccept, Bool.and_eq_true, bne_iff_ne, ne_eq] at acc; exact acc.1.1.1.1.1.1
    have hpq : d.1 ≠ d.2 := by
      intro hh
      have e3 : st.edges[d.1] = st.edges[d.2] := by simp [hh]
      rw [e1, e2] at e3; simp at e3; omega
    rw [geoAdmissible_iff]
    refine ⟨d.1, d.2, by simpa using hp, by simpa using hq, ?_⟩
    simp only [getElem_set2]
    simp only [hpq, if_true, if_false]
    exact geoAccept_reverse c st.A s t k l hst hkl acc

/-- the loop counter never decreases -/
theorem geoRun_mono (c : GeoCfg) (iterations : Nat) (draws : List (Nat × Nat)) (st st' : GeoSt)
    (h : geoRun c iterations draws st = some st') : st.i ≤ st'.i := by
  induction draws generalizing st with
  | nil => simp only [geoRun, Option.some.injEq] at h; subst h; exact Nat.le_refl _
  | cons d ds ih =>
    simp only [geoRun, geoWhile_iff] at h
    split at h
    · cases hs : geoStep c st d with
      | none => simp [hs] at h
      | some st1 =>
        simp only [hs, Option.bind_some] at h
        have := ih st1 h
        rcases geoStep_cases c st st1 d hs with rfl | ⟨s, t, k, l, hp, hq, e1, e2, acc, rfl⟩
        · exact this
        · simp only at this; omega
    · simp only [Option.some.injEq] at h; subst h; exact Nat.le_refl _

/-- **whole run: "an admissible swap exists" is an invariant of the loop** (with `GeoInv`, the
length of `edges` and the bound on the counter) -/
theorem geoRun_keeps (n : Nat) (c : GeoCfg) (iterations : Nat) (draws : List (Nat × Nat))
    (st st' : GeoSt) (h : geoRun c iterations draws st = some st')
    (inv : GeoInv n st.A st.edges) (adm : geoAdmissible c st.A st.edges = true) :
    GeoInv n st'.A st'.edges ∧ geoAdmissible c st'.A st'.edges = true ∧
      st'.edges.length = st.edges.length ∧ (st.i ≤ iterations → st'.i ≤ iterations) := by
  induction draws generalizing st with
  | nil => simp only [geoRun, Option.some.injEq] at h; subst h; exact ⟨inv, adm, rfl, id⟩
  | cons d ds ih =>
    simp only [geoRun, geoWhile_iff] at h
    split at h
    · rename_i hlt
      cases hs : geoStep c st d with
      | none => simp [hs] at h
      | some st1 =>
        simp only [hs, Option.bind_some] at h
        obtain ⟨j1, j2, j3, j4⟩ := geoStep_keeps n c st st1 d hs inv adm
        obtain ⟨i1, i2, i3, i4⟩ := ih st1 h j1 j2
        refine ⟨i1, i2, by rw [i3, j3], fun _ => i4 ?_⟩
        rcases geoStep_cases c st st1 d hs with rfl | ⟨s, t, k, l, hp, hq, e1, e2, acc, rfl⟩
        · omega
        · simp only; omega
    · simp only [Option.some.injEq] at h; subst h; exact ⟨inv, adm, rfl, id⟩

/-- a run over a concatenated stream is the run over the first part followed by the run over the
second (a loop that has reached `iterations` ignores all further draws) -/
theorem geoRun_append (c : GeoCfg) (iterations : Nat) (b r : List (Nat × Nat)) (st : GeoSt) :
    geoRun c iterations (b ++ r) st = (geoRun c iterations b st).bind (geoRun c iterations r) := by
  induction b generalizing st with
  | nil => simp [geoRun]
  | cons d ds ih =>
    simp only [List.cons_append, geoRun]
    split
    · cases hs : geoStep c st d with
      | none => simp
      | some st1 => simp only [Option.bind_some]; exact ih st1
    · rename_i hw
      simp only [Option.bind_some]
      cases r with
      | nil => rfl
      | cons d' r' => simp [geoRun, hw]

/-- **a block that contains a draw the current state accepts makes at least one rewiring** (unless
the loop has finished before) -/
theorem geoRun_block_progress (c : GeoCfg) (iterations : Nat) (block : List (Nat × Nat))
    (st st' : GeoSt)
    (hw : ∃ d ∈ block, ∃ st1, geoStep c st d = some st1 ∧ st1.i = st.i + 1)
    (h : geoRun c iterations block st = some st') : min iterations (st.i + 1) ≤ st'.i := by
  induction block generalizing st with
  | nil => obtain ⟨d, hd, -⟩ := hw; cases hd
  | cons d ds ih =>
    simp only [geoRun, geoWhile_iff] at h
    split at h
    · cases hs : geoStep c st d with
      | none => simp [hs] at h
      | some st1 =>
        simp only [hs, Option.bind_some] at h
        rcases geoStep_cases c st st1 d hs with rfl | ⟨s, t, k, l, hp, hq, e1, e2, acc, rfl⟩
        · apply ih st1 _ h
          obtain ⟨d0, hd0, st2, h2, h3⟩ := hw
          rcases List.mem_cons.1 hd0 with rfl | hmem
          · rw [hs] at h2; simp only [Option.some.injEq] at h2; subst h2; omega
          · exact ⟨d0, hmem, st2, h2, h3⟩
        · have := geoRun_mono c iterations ds _ st' h
          simp only at this; omega
    · simp only [Option.some.injEq] at h; subst h; omega

/-- an admissible state and a covering block: the block contains an accepted draw -/
theorem geoCovers_witness (c : GeoCfg) (st : GeoSt) (block : List (Nat × Nat))
    (adm : geoAdmissible c st.A st.edges = true) (cov : Covers st.edges.length block) :
    ∃ d ∈ block, ∃ st1, geoStep c st d = some st1 ∧ st1.i = st.i + 1 := by
  obtain ⟨p, q, hp, hq, acc⟩ := (geoAdmissible_iff _ _ _).1 adm
  refine ⟨(p, q), cov p q hp hq, ?_⟩
  unfold geoStep
  simp only [List.getElem?_eq_getElem hp, List.getElem?_eq_getElem hq]
  rw [geoAcceptM_eq]
  simp [acc]

/-! ### cross-link rewiring -/

/-- one pass through `while True` keeps `CrossInv` and "an admissible pair exists": the swap
`(a,b),(c,e) ↦ (a,e),(c,b)` can be undone by the next draw -/
theorem crossStep_keeps (m n : Nat) (st st' : CrossSt) (d : Nat × Nat)
    (h : crossStep st d = some st') (inv : CrossInv m n st.C st.links)
    (adm : crossAdmissible st.C st.links = true) :
    CrossInv m n st'.C st'.links ∧ crossAdmissible st'.C st'.links = true ∧
      st'.links.length = st.links.length ∧ st.done ≤ st'.done := by
  rcases crossStep_cases st st' d h with rfl | ⟨a, b, c, e, hp, hq, e1, e2, h1, h2, rfl⟩
  · exact ⟨inv, adm, rfl, Nat.le_refl _⟩
  · obtain ⟨i1, -, -⟩ := crossInv_swap m n st.C st.links d.1 d.2 a b c e hp hq e1 e2 h1 h2 inv
    refine ⟨i1, ?_, by simp, Nat.le_succ _⟩
    have hab : st.C a b = true := by have := inv.ones d.1 hp; rw [e1] at this; exact this
    have hce : st.C c e = true := by have := inv.ones d.2 hq; rw [e2] at this; exact this
    have hac : a ≠ c := by intro h; subst h; rw [h1] at hce; cases hce
    have hbe : b ≠ e := by intro h; subst h; rw [h1] at hab; cases hab
    have hpq : d.1 ≠ d.2 := by
      intro hh
      have e3 : st.links[d.1] = st.links[d.2] := by simp [hh]
      rw [e1, e2] at e3; simp at e3; omega
    rw [crossAdmissible_iff]
    refine ⟨d.1, d.2, by simpa using hp, by simpa using hq, ?_⟩
    simp only [getElem_set2]
    simp only [hpq, if_true, if_false]
    rw [swap_apply _ _ _ _ _ _ _ hac hbe, swap_apply _ _ _ _ _ _ _ hac hbe]
    grind

theorem crossRun_mono (swaps : Nat) (draws : List (Nat × Nat)) (st st' : CrossSt)
    (h : crossRun swaps draws st = some st') : st.done ≤ st'.done := by
  induction draws generalizing st with
  | nil => simp only [crossRun, Option.some.injEq] at h; subst h; exact Nat.le_refl _
  | cons d ds ih =>
    simp only [crossRun] at h
    split at h
    · cases hs : crossStep st d with
      | none => simp [hs] at h
      | some st1 =>
        simp only [hs, Option.bind_some] at h
        have := ih st1 h
        rcases crossStep_cases st st1 d hs with rfl | ⟨a, b, c, e, hp, hq, e1, e2, h1, h2, rfl⟩
        · exact this
        · simp only at this; omega
    · simp only [Option.some.injEq] at h; subst h; exact Nat.le_refl _

theorem crossRun_keeps (m n swaps : Nat) (draws : List (Nat × Nat)) (st st' : CrossSt)
    (h : crossRun swaps draws st = some st') (inv : CrossInv m n st.C st.links)
    (adm : crossAdmissible st.C st.links = true) :
    CrossInv m n st'.C st'.links ∧ crossAdmissible st'.C st'.links = true ∧
      st'.links.length = st.links.length ∧ (st.done ≤ swaps → st'.done ≤ swaps) := by
  induction draws generalizing st with
  | nil => simp only [crossRun, Option.some.injEq] at h; subst h; exact ⟨inv, adm, rfl, id⟩
  | cons d ds ih =>
    simp only [crossRun] at h
    split at h
    · rename_i hlt
      cases hs : crossStep st d with
      | none => simp [hs] at h
      | some st1 =>
        simp only [hs, Option.bind_some] at h
        obtain ⟨j1, j2, j3, j4⟩ := crossStep_keeps m n st st1 d hs inv adm
        obtain ⟨i1, i2, i3, i4⟩ := ih st1 h j1 j2
        refine ⟨i1, i2, by rw [i3, j3], fun _ => i4 ?_⟩
        rcases crossStep_cases st st1 d hs with rfl | ⟨a, b, c, e, hp, hq, e1, e2, h1, h2, rfl⟩
        · omega
        · simp only; omega
    · simp only [Option.some.injEq] at h; subst h; exact ⟨inv, adm, rfl, id⟩

theorem crossRun_append (swaps : Nat) (b r : List (Nat × Nat)) (st : CrossSt) :
    crossRun swaps (b ++ r) st = (crossRun swaps b st).bind (crossRun swaps r) := by
  induction b generalizing st with
  | nil => simp [crossRun]
  | cons d ds ih =>
    simp only [List.cons_append, crossRun]
    split
    · cases hs : crossStep st d with
      | none => simp
      | some st1 => simp only [Option.bind_some]; exact ih st1
    · rename_i hw
      simp only [Option.bind_some]
      cases r with
      | nil => rfl
      | cons d' r' => simp [crossRun, hw]

theorem crossRun_block_progress (swaps : Nat) (block : List (Nat × Nat)) (st st' : CrossSt)
    (hw : ∃ d ∈ block, ∃ st1, crossStep st d = some st1 ∧ st1.done = st.done + 1)
    (h : crossRun swaps block st = some st') : min swaps (st.done + 1) ≤ st'.done := by
  induction block generalizing st with
  | nil => obtain ⟨d, hd, -⟩ := hw; cases hd
  | cons d ds ih =>
    simp only [crossRun] at h
    split at h
    · cases hs : crossStep st d with
      | none => simp [hs] at h
      | some st1 =>
        simp only [hs, Option.bind_some] at h
        rcases crossStep_cases st st1 d hs with rfl | ⟨a, b, c, e, hp, hq, e1, e2, h1, h2, rfl⟩
        · apply ih st1 _ h
          obtain ⟨d0, hd0, st2, h2, h3⟩ := hw
          rcases List.mem_cons.1 hd0 with rfl | hmem
          · rw [hs] at h2; simp only [Option.some.injEq] at h2; subst h2; omega
          · exact ⟨d0, hmem, st2, h2, h3⟩
        · have := crossRun_mono swaps ds _ st' h
          simp only at this; omega
    · simp only [Option.some.injEq] at h; subst h; omega

theorem crossCovers_witness (st : CrossSt) (block : List (Nat × Nat))
    (adm : crossAdmissible st.C st.links = true) (cov : Covers st.links.length block) :
    ∃ d ∈ block, ∃ st1, crossStep st d = some st1 ∧ st1.done = st.done + 1 := by
  obtain ⟨p, q, hp, hq, h1, h2⟩ := (crossAdmissible_iff _ _).1 adm
  refine ⟨(p, q), cov p q hp hq, ?_⟩
  unfold crossStep
  simp only [List.getElem?_eq_getElem hp, List.getElem?_eq_getElem hq]
  rw [rewBreak_eq]
  simp [h1, h2]

/-- in-range draws never raise IndexError in `_randomlyRewireCrossLinks` -/
theorem crossStep_defined (st : CrossSt) (d : Nat × Nat) (h1 : d.1 < st.links.length)
    (h2 : d.2 < st.links.length) :
    ∃ st1, crossStep st d = some st1 ∧ st1.links.length = st.links.length := by
  have hex : ∃ st1, crossStep st d = some st1 := by
    unfold crossStep
    rw [List.getElem?_eq_getElem h1, List.getElem?_eq_getElem h2]
    simp only
    split
    · exact ⟨_, rfl⟩
    · exact ⟨_, rfl⟩
  obtain ⟨st1, hs⟩ := hex
  refine ⟨st1, hs, ?_⟩
  rcases crossStep_cases st st1 d hs with rfl | ⟨a, b, c, e, hp, hq, e1, e2, h1, h2, rfl⟩
  · rfl
  · simp

theorem crossRun_defined (swaps : Nat) (draws : List (Nat × Nat)) (st : CrossSt)
    (hd : ∀ d ∈ draws, d.1 < st.links.length ∧ d.2 < st.links.length) :
    ∃ st', crossRun swaps draws st = some st' := by
  induction draws generalizing st with
  | nil => exact ⟨st, rfl⟩
  | cons d ds ih =>
    simp only [crossRun]
    split
    · obtain ⟨h1, h2⟩ := hd d (by simp)
      obtain ⟨st1, hs1, hl⟩ := crossStep_defined st d h1 h2
      rw [hs1]
      simp only [Option.bind_some]
      exact ih st1 fun d' hd' => by rw [hl]; exact hd d' (by simp [hd'])
    · exact ⟨st, rfl⟩

end Pyunicorn.Random
