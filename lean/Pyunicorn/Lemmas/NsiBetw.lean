import Pyunicorn.Lemmas.Nsi
import Pyunicorn.Lemmas.NsiDist
import Pyunicorn.Model.NsiBetw
import Mathlib.Tactic.FieldSimp
import Mathlib.Tactic.Linarith
import Mathlib.Algebra.Order.BigOperators.Group.List
/-!
Node-splitting invariance of the n.s.i. shortest-path betweenness at the level of its
definition (weighted counts of shortest walks, `Model/NsiBetw.lean`).

Key facts: (1) a non-zero weighted walk count is witnessed by a walk; (2) a walk of the split
graph of *minimal* length never uses the twin–twin link, so the weighted count of shortest
walks of the split graph is the one of the original graph, up to the weight of the end point
(`wcount_split`); (3) no shortest path between a twin and any other node passes through the
other twin (`bcTerm_twin_left/right`).
-/
namespace Pyunicorn.Nsi

/-! ### sums over `List.range` -/

theorem sum_eq_zero_of_all_zero (l : List Nat) (f : Nat → Rat) (h : ∀ c ∈ l, f c = 0) :
    (l.map f).sum = 0 := by
  induction l with
  | nil => simp
  | cons a t ih =>
    simp only [List.map_cons, List.sum_cons]
    rw [h a (by simp), ih (fun c hc => h c (List.mem_cons_of_mem _ hc))]; simp

theorem exists_ne_zero_of_sum_ne_zero (l : List Nat) (f : Nat → Rat) (h : (l.map f).sum ≠ 0) :
    ∃ c ∈ l, f c ≠ 0 := by
  by_contra hc
  apply h
  apply sum_eq_zero_of_all_zero
  intro c hcl
  by_contra h0
  exact hc ⟨c, hcl, h0⟩

theorem sum_map_mul_const (l : List Nat) (f : Nat → Rat) (r : Rat) :
    (l.map f).sum * r = (l.map fun c => f c * r).sum := by
  induction l with
  | nil => simp
  | cons a t ih => simp only [List.map_cons, List.sum_cons, add_mul, ih]

/-- `Σ_{c<n} [c = b] · f c = f b` -/
theorem sum_single (n b : Nat) (hb : b < n) (f : Nat → Rat) :
    ((List.range n).map fun c => if c = b then f c else 0).sum = f b := by
  have h := sum_update (fun _ => (0 : Rat)) (f b) b n hb
  have h0 : ((List.range n).map fun _ => (0 : Rat)).sum = 0 :=
    sum_eq_zero_of_all_zero _ _ (fun _ _ => rfl)
  rw [h0] at h
  have : ((List.range n).map fun c => if c = b then f c else 0)
      = (List.range n).map fun k => if k = b then f b else (fun _ => (0 : Rat)) k := by
    apply List.map_congr_left
    intro c _
    by_cases hc : c = b
    · subst hc; simp
    · simp [hc]
  rw [this, h]; simp

/-! ### walks and weighted walk counts -/

/-- a non-zero weighted count of walks of length `k` is witnessed by a walk of length `k` -/
theorem walk_of_wcount_ne_zero (G : Gr) (k : Nat) : ∀ a b, a < G.n → wcount G k a b ≠ 0 →
    Walk G a b k := by
  induction k with
  | zero =>
    intro a b ha h
    by_cases hab : a = b
    · subst hab; exact Walk.nil a ha
    · simp [wcount, hab] at h
  | succ k ih =>
    intro a b ha h
    simp only [wcount] at h
    obtain ⟨c, hc, hne⟩ := exists_ne_zero_of_sum_ne_zero _ _ h
    have hcn : c < G.n := List.mem_range.mp hc
    by_cases hadj : G.adj a c = true
    · simp only [hadj, if_true] at hne
      have h2 : wcount G k c b ≠ 0 := fun h0 => hne (by rw [h0]; simp)
      exact Walk.cons a c b k ha hadj (ih c b hcn h2)
    · simp [hadj] at hne

/-- away from the twin pair the links of the split graph are those of the original graph -/
theorem adj_split_of_ne (G : Gr) (v : Nat) (p : Rat) (hv : v < G.n) (a x : Nat)
    (hne : collapse G.n v a ≠ collapse G.n v x) :
    (split G v p).adj a x = G.adj (collapse G.n v a) (collapse G.n v x) := by
  have hax : a ≠ x := fun h => hne (by rw [h])
  have hc := collapse_eq_iff G.n v a x hv hax
  have hs : ¬ ((a = G.n ∧ x = v) ∨ (a = v ∧ x = G.n)) := fun h => hne (hc.mpr h)
  have hnn : ¬ (a = G.n ∧ x = G.n) := by
    rintro ⟨rfl, rfl⟩; exact hax rfl
  show (if a = G.n ∧ x = G.n then false
    else if (a = G.n ∧ x = v) ∨ (a = v ∧ x = G.n) then true
    else G.adj (collapse G.n v a) (collapse G.n v x)) = _
  rw [if_neg hnn, if_neg hs]

theorem split_n (G : Gr) (v : Nat) (p : Rat) : (split G v p).n = G.n + 1 := rfl

/-- **weighted counts of shortest walks of the split graph.**  If no walk of the original
graph from `c a` to `c b` is shorter than `k + 1`, then the weighted number of walks of length
`k + 1` from `a` to `b` in the split graph equals the one from `c a` to `c b` in the original
graph up to the weight of the end point: `n'(a,b) · w_{c b} = n(c a, c b) · w'_b`. -/
theorem wcount_split (G : Gr) (v : Nat) (p : Rat) (hv : v < G.n)
    (hloop : ∀ i, G.adj i i = false) (b : Nat) (hb : b < G.n + 1) (k : Nat) :
    ∀ a, a < G.n + 1 →
      (∀ j, j < k + 1 → ¬ Walk G (collapse G.n v a) (collapse G.n v b) j) →
      wcount (split G v p) (k + 1) a b * G.w (collapse G.n v b)
        = wcount G (k + 1) (collapse G.n v a) (collapse G.n v b) * (split G v p).w b := by
  induction k with
  | zero =>
    intro a ha hmin
    have hca := collapse_lt_n G.n v a hv ha
    have hcb := collapse_lt_n G.n v b hv hb
    have hne : collapse G.n v a ≠ collapse G.n v b := by
      intro h
      apply hmin 0 (by omega)
      rw [h]; exact Walk.nil _ hcb
    -- both sides are a single term
    have hL : wcount (split G v p) 1 a b
        = (split G v p).w b * (if (split G v p).adj a b = true then 1 else 0) := by
      simp only [wcount, split_n]
      rw [← sum_single (G.n + 1) b hb
        (fun c => (split G v p).w c * (if (split G v p).adj a c = true then 1 else 0))]
      apply congrArg
      apply List.map_congr_left
      intro c _
      by_cases hcb' : c = b
      · subst hcb'; simp
      · simp [hcb']
    have hR : wcount G 1 (collapse G.n v a) (collapse G.n v b)
        = G.w (collapse G.n v b) *
          (if G.adj (collapse G.n v a) (collapse G.n v b) = true then 1 else 0) := by
      simp only [wcount]
      rw [← sum_single G.n (collapse G.n v b) hcb
        (fun c => G.w c * (if G.adj (collapse G.n v a) c = true then 1 else 0))]
      apply congrArg
      apply List.map_congr_left
      intro c _
      by_cases hcb' : c = collapse G.n v b
      · subst hcb'; simp
      · simp [hcb']
    rw [hL, hR, adj_split_of_ne G v p hv a b hne]
    ring
  | succ k ih =>
    intro a ha hmin
    have hca := collapse_lt_n G.n v a hv ha
    have hcb := collapse_lt_n G.n v b hv hb
    -- unfold one step on both sides
    have hL : wcount (split G v p) (k + 2) a b
        = ((List.range (split G v p).n).map fun c => (split G v p).w c *
            (if (split G v p).adj a c = true then wcount (split G v p) (k + 1) c b else 0)).sum := by
      simp only [wcount]
    have hR : wcount G (k + 2) (collapse G.n v a) (collapse G.n v b)
        = ((List.range G.n).map fun c => G.w c *
            (if G.adj (collapse G.n v a) c = true
              then wcount G (k + 1) c (collapse G.n v b) else 0)).sum := by
      simp only [wcount]
    rw [hL, hR, sum_map_mul_const, sum_map_mul_const]
    -- push the right-hand side forward along the collapse map
    have hpf := pushforward G v p hv (fun y =>
      (if G.adj (collapse G.n v a) y = true
        then wcount G (k + 1) y (collapse G.n v b) else 0) * (split G v p).w b)
    have hR2 : ((List.range G.n).map fun c => G.w c *
            (if G.adj (collapse G.n v a) c = true
              then wcount G (k + 1) c (collapse G.n v b) else 0) * (split G v p).w b)
        = (List.range G.n).map fun c => G.w c *
            ((if G.adj (collapse G.n v a) c = true
              then wcount G (k + 1) c (collapse G.n v b) else 0) * (split G v p).w b) := by
      apply List.map_congr_left
      intro c _; ring
    rw [hR2, ← hpf]
    apply congrArg
    apply List.map_congr_left
    intro x hx
    have hxn : x < G.n + 1 := by simpa [split_n] using List.mem_range.mp hx
    have hcx := collapse_lt_n G.n v x hv hxn
    by_cases hadj : G.adj (collapse G.n v a) (collapse G.n v x) = true
    · -- a genuine link: the induction hypothesis applies to `x`
      have hne : collapse G.n v a ≠ collapse G.n v x := by
        intro h; rw [h, hloop] at hadj; exact Bool.noConfusion hadj
      have hminx : ∀ j, j < k + 1 → ¬ Walk G (collapse G.n v x) (collapse G.n v b) j := by
        intro j hj w
        exact hmin (j + 1) (by omega) (Walk.cons _ _ _ _ hca hadj w)
      have := ih x hxn hminx
      rw [adj_split_of_ne G v p hv a x hne]
      simp only [hadj, if_true]
      rw [mul_assoc, this]
    · -- no link in the original graph: either no link, or the twin–twin link, which no
      -- walk of minimal length uses
      simp only [hadj]
      by_cases hadj' : (split G v p).adj a x = true
      · have heq : collapse G.n v a = collapse G.n v x := by
          by_contra hne
          rw [adj_split_of_ne G v p hv a x hne] at hadj'
          exact hadj hadj'
        have hz : wcount (split G v p) (k + 1) x b = 0 := by
          by_contra hnz
          have w := walk_of_wcount_ne_zero (split G v p) (k + 1) x b
            (by simpa [split_n] using hxn) hnz
          obtain ⟨k', hk', w'⟩ := walk_collapse G v p hv w
          rw [← heq] at w'
          exact hmin k' (by omega) w'
        simp [hadj', hz]
      · simp [hadj']

/-! ### distances -/

theorem isDist_self (G : Gr) (x : Nat) (hx : x < G.n) (h : IsDist G x x (G.dist x x)) :
    G.dist x x = some 0 := by
  cases hd : G.dist x x with
  | none => rw [hd] at h; exact absurd (Walk.nil x hx) (h 0)
  | some d =>
    rw [hd] at h
    have := h.2 0 (Walk.nil x hx)
    congr; omega

theorem isDist_pos (G : Gr) (x y d : Nat) (hxy : x ≠ y) (h : IsDist G x y (some d)) : 1 ≤ d := by
  cases d with
  | zero => exact absurd h.1.zero_eq hxy
  | succ d => omega

theorem split_dist_ne (G : Gr) (v : Nat) (p : Rat) (a b : Nat)
    (h : collapse G.n v a ≠ collapse G.n v b) :
    (split G v p).dist a b = G.dist (collapse G.n v a) (collapse G.n v b) := by
  have hab : a ≠ b := fun e => h (by rw [e])
  simp [split, hab, h]

theorem split_dist_twin (G : Gr) (v : Nat) (p : Rat) (a b : Nat) (hab : a ≠ b)
    (h : collapse G.n v a = collapse G.n v b) : (split G v p).dist a b = some 1 := by
  simp [split, hab, h]

theorem split_dist_self (G : Gr) (v : Nat) (p : Rat) (a : Nat) :
    (split G v p).dist a a = some 0 := by
  simp [split]

theorem split_w_ne_zero (G : Gr) (v : Nat) (p : Rat) (hv : v < G.n) (hp0 : 0 < p) (hp1 : p < 1)
    (hw : ∀ k, k < G.n → 0 < G.w k) (a : Nat) (ha : a < G.n + 1) : (split G v p).w a ≠ 0 := by
  have hwv := hw v hv
  simp only [split]
  by_cases h1 : a = G.n
  · simp only [h1, if_true]; exact ne_of_gt (mul_pos hp0 hwv)
  · by_cases h2 : a = v
    · have hvn : ¬ v = G.n := by omega
      have h1p : 0 < 1 - p := by linarith
      rw [h2]
      simp only [hvn, if_false, if_true]
      exact ne_of_gt (mul_pos h1p hwv)
    · simp only [h1, h2, if_false]
      exact ne_of_gt (hw a (by omega))

/-! ### the pair contributions -/

/-- no shortest path from the twin `s` of `a` to any `t` passes through `a` -/
theorem bcTerm_twin_left (G : Gr) (v : Nat) (p : Rat) (a s t : Nat) (hsa : s ≠ a) (hta : t ≠ a)
    (hc : collapse G.n v s = collapse G.n v a) : bcTerm (split G v p) a s t = 0 := by
  unfold bcTerm
  rw [split_dist_twin G v p s a hsa hc]
  by_cases hct : collapse G.n v t = collapse G.n v a
  · -- `t` is a twin of `a` as well, hence `t = s` or the three are pairwise twins; in either
    -- case `d(s,t) ≤ 1 < 2 = d(s,a) + d(a,t)`
    rw [split_dist_twin G v p a t (Ne.symm hta) hct.symm]
    by_cases hst : s = t
    · subst hst; rw [split_dist_self]; simp
    · rw [split_dist_twin G v p s t hst (by rw [hc, hct])]; simp
  · rw [split_dist_ne G v p a t (Ne.symm hct), split_dist_ne G v p s t (by rw [hc]; exact Ne.symm hct),
      hc]
    cases G.dist (collapse G.n v a) (collapse G.n v t) with
    | none => rfl
    | some d => simp

/-- no shortest path from any `s` to the twin `t` of `a` passes through `a` -/
theorem bcTerm_twin_right (G : Gr) (v : Nat) (p : Rat) (a s t : Nat) (hsa : s ≠ a) (hta : t ≠ a)
    (hc : collapse G.n v t = collapse G.n v a) : bcTerm (split G v p) a s t = 0 := by
  by_cases hcs : collapse G.n v s = collapse G.n v a
  · exact bcTerm_twin_left G v p a s t hsa hta hcs
  · unfold bcTerm
    rw [split_dist_twin G v p a t (Ne.symm hta) hc.symm, split_dist_ne G v p s a hcs,
      split_dist_ne G v p s t (by rw [hc]; exact hcs), hc]
    cases G.dist (collapse G.n v s) (collapse G.n v a) with
    | none => rfl
    | some d => simp

/-- away from the twins of `a` the pair contribution is the pulled-back one -/
theorem bcTerm_split (G : Gr) (v : Nat) (p : Rat) (hv : v < G.n) (hp0 : 0 < p) (hp1 : p < 1)
    (hw : ∀ k, k < G.n → 0 < G.w k) (hloop : ∀ i, G.adj i i = false)
    (hd : ∀ a b, a < G.n → b < G.n → IsDist G a b (G.dist a b))
    (a s t : Nat) (ha : a < G.n + 1) (hs : s < G.n + 1) (ht : t < G.n + 1)
    (hcs : collapse G.n v s ≠ collapse G.n v a) (hct : collapse G.n v t ≠ collapse G.n v a) :
    bcTerm (split G v p) a s t
      = bcTerm G (collapse G.n v a) (collapse G.n v s) (collapse G.n v t) := by
  have hca := collapse_lt_n G.n v a hv ha
  have hcsn := collapse_lt_n G.n v s hv hs
  have hctn := collapse_lt_n G.n v t hv ht
  unfold bcTerm
  rw [split_dist_ne G v p s a hcs, split_dist_ne G v p a t (Ne.symm hct)]
  have h1 := hd _ _ hcsn hca
  have h2 := hd _ _ hca hctn
  cases hd1 : G.dist (collapse G.n v s) (collapse G.n v a) with
  | none => rfl
  | some d1 =>
    cases hd2 : G.dist (collapse G.n v a) (collapse G.n v t) with
    | none => rfl
    | some d2 =>
      rw [hd1] at h1; rw [hd2] at h2
      have hp1' := isDist_pos G _ _ d1 hcs h1
      have hp2' := isDist_pos G _ _ d2 (Ne.symm hct) h2
      by_cases hst : collapse G.n v s = collapse G.n v t
      · -- `s`, `t` equal or twins: `d(s,t) ≤ 1 < d1 + d2` on both sides
        have hself := isDist_self G _ hcsn (hd _ _ hcsn hcsn)
        rw [← hst, hself]
        by_cases hst' : s = t
        · subst hst'; rw [split_dist_self]
          have : ¬ d1 + d2 = 0 := by omega
          simp only [this, ↓reduceIte]
        · rw [split_dist_twin G v p s t hst' hst]
          have e1 : ¬ d1 + d2 = 0 := by omega
          have e2 : ¬ d1 + d2 = 1 := by omega
          simp only [e1, e2, ↓reduceIte]
      · rw [split_dist_ne G v p s t hst]
        have h3 := hd _ _ hcsn hctn
        cases hd3 : G.dist (collapse G.n v s) (collapse G.n v t) with
        | none => rfl
        | some d =>
          rw [hd3] at h3
          have hp3 := isDist_pos G _ _ d hst h3
          by_cases hsum : d1 + d2 = d
          · simp only [hsum, if_true]
            obtain ⟨k1, rfl⟩ : ∃ k1, d1 = k1 + 1 := ⟨d1 - 1, by omega⟩
            obtain ⟨k2, rfl⟩ : ∃ k2, d2 = k2 + 1 := ⟨d2 - 1, by omega⟩
            obtain ⟨k3, rfl⟩ : ∃ k3, d = k3 + 1 := ⟨d - 1, by omega⟩
            have hmin : ∀ (x y dd : Nat), IsDist G x y (some dd) → ∀ j, j < dd → ¬ Walk G x y j := by
              intro x y dd h j hj w
              have := h.2 j w
              omega
            have eA := wcount_split G v p hv hloop a ha k1 s hs (hmin _ _ _ h1)
            have eB := wcount_split G v p hv hloop t ht k2 a ha (hmin _ _ _ h2)
            have eC := wcount_split G v p hv hloop t ht k3 s hs (hmin _ _ _ h3)
            have wa := split_w_ne_zero G v p hv hp0 hp1 hw a ha
            have wt := split_w_ne_zero G v p hv hp0 hp1 hw t ht
            have wca : G.w (collapse G.n v a) ≠ 0 := ne_of_gt (hw _ hca)
            have wct : G.w (collapse G.n v t) ≠ 0 := ne_of_gt (hw _ hctn)
            by_cases hC : wcount G (k3 + 1) (collapse G.n v s) (collapse G.n v t) = 0
            · have hC' : wcount (split G v p) (k3 + 1) s t = 0 := by
                rw [hC, zero_mul] at eC
                rcases mul_eq_zero.mp eC with h | h
                · exact h
                · exact absurd h wct
              rw [hC, hC']; simp
            · have hC' : wcount (split G v p) (k3 + 1) s t ≠ 0 := by
                intro h
                rw [h, zero_mul] at eC
                rcases mul_eq_zero.mp eC.symm with h | h
                · exact hC h
                · exact wt h
              rw [div_eq_div_iff (mul_ne_zero wa hC') (mul_ne_zero wca hC)]
              have eA' : wcount (split G v p) (k1 + 1) s a
                  = wcount G (k1 + 1) (collapse G.n v s) (collapse G.n v a) * (split G v p).w a
                    / G.w (collapse G.n v a) := by
                rw [eq_div_iff wca]; exact eA
              have eB' : wcount (split G v p) (k2 + 1) a t
                  = wcount G (k2 + 1) (collapse G.n v a) (collapse G.n v t) * (split G v p).w t
                    / G.w (collapse G.n v t) := by
                rw [eq_div_iff wct]; exact eB
              have eC' : wcount (split G v p) (k3 + 1) s t
                  = wcount G (k3 + 1) (collapse G.n v s) (collapse G.n v t) * (split G v p).w t
                    / G.w (collapse G.n v t) := by
                rw [eq_div_iff wct]; exact eC
              rw [eA', eB', eC']
              field_simp
          · simp [hsum]

/-- **node-splitting invariance of the n.s.i. shortest-path betweenness** (definition level) -/
theorem nsiBetw_split_lemma (G : Gr) (v : Nat) (p : Rat) (hv : v < G.n) (hp0 : 0 < p) (hp1 : p < 1)
    (hw : ∀ k, k < G.n → 0 < G.w k) (hloop : ∀ i, G.adj i i = false)
    (hd : ∀ a b, a < G.n → b < G.n → IsDist G a b (G.dist a b))
    (S T : Nat → Bool) (a : Nat) (ha : a < G.n + 1) :
    nsiBetw (split G v p) (fun k => S (collapse G.n v k)) (fun k => T (collapse G.n v k)) a
      = nsiBetw G S T (collapse G.n v a) := by
  unfold nsiBetw
  -- the summand, as a function of the collapsed pair
  let F : Nat → Nat → Rat := fun x y =>
    if x ≠ collapse G.n v a ∧ y ≠ collapse G.n v a ∧ S x = true ∧ T y = true
      then bcTerm G (collapse G.n v a) x y else 0
  have hinner : ∀ s, s < G.n + 1 → ∀ t, t < G.n + 1 →
      (if s ≠ a ∧ t ≠ a ∧ S (collapse G.n v s) = true ∧ T (collapse G.n v t) = true
        then bcTerm (split G v p) a s t else 0) = F (collapse G.n v s) (collapse G.n v t) := by
    intro s hs t ht
    simp only [F]
    by_cases hcs : collapse G.n v s = collapse G.n v a
    · have hR : ¬ (collapse G.n v s ≠ collapse G.n v a ∧ collapse G.n v t ≠ collapse G.n v a ∧
          S (collapse G.n v s) = true ∧ T (collapse G.n v t) = true) := fun h => h.1 hcs
      rw [if_neg hR]
      by_cases hc : s ≠ a ∧ t ≠ a ∧ S (collapse G.n v s) = true ∧ T (collapse G.n v t) = true
      · rw [if_pos hc]; exact bcTerm_twin_left G v p a s t hc.1 hc.2.1 hcs
      · rw [if_neg hc]
    · by_cases hct : collapse G.n v t = collapse G.n v a
      · have hR : ¬ (collapse G.n v s ≠ collapse G.n v a ∧ collapse G.n v t ≠ collapse G.n v a ∧
            S (collapse G.n v s) = true ∧ T (collapse G.n v t) = true) := fun h => h.2.1 hct
        rw [if_neg hR]
        by_cases hc : s ≠ a ∧ t ≠ a ∧ S (collapse G.n v s) = true ∧ T (collapse G.n v t) = true
        · rw [if_pos hc]; exact bcTerm_twin_right G v p a s t hc.1 hc.2.1 hct
        · rw [if_neg hc]
      · have hsa : s ≠ a := fun e => hcs (by rw [e])
        have hta : t ≠ a := fun e => hct (by rw [e])
        rw [bcTerm_split G v p hv hp0 hp1 hw hloop hd a s t ha hs ht hcs hct]
        simp only [hsa, hta, hcs, hct, ne_eq, not_false_eq_true, true_and]
  have h1 : ((List.range (split G v p).n).map fun s => (split G v p).w s *
        ((List.range (split G v p).n).map fun t => (split G v p).w t *
          (if s ≠ a ∧ t ≠ a ∧ S (collapse G.n v s) = true ∧ T (collapse G.n v t) = true
            then bcTerm (split G v p) a s t else 0)).sum)
      = (List.range (split G v p).n).map fun s => (split G v p).w s *
          ((fun x => ((List.range G.n).map fun y => G.w y * F x y).sum) (collapse G.n v s)) := by
    apply List.map_congr_left
    intro s hs
    have hs' : s < G.n + 1 := by simpa [split_n] using List.mem_range.mp hs
    congr 1
    show _ = ((List.range G.n).map fun y => G.w y * F (collapse G.n v s) y).sum
    rw [← pushforward G v p hv (fun y => F (collapse G.n v s) y)]
    apply congrArg
    apply List.map_congr_left
    intro t ht
    have ht' : t < G.n + 1 := by simpa [split_n] using List.mem_range.mp ht
    rw [hinner s hs' t ht']
  rw [h1, pushforward G v p hv (fun x => ((List.range G.n).map fun y => G.w y * F x y).sum)]

/-! ### positivity, and the model's breadth-first distances -/

theorem wcount_nonneg (G : Gr) (hw : ∀ k, k < G.n → 0 < G.w k) (k : Nat) :
    ∀ a b, 0 ≤ wcount G k a b := by
  induction k with
  | zero => intro a b; simp only [wcount]; split <;> simp
  | succ k ih =>
    intro a b
    simp only [wcount]
    apply List.sum_nonneg
    intro x hx
    obtain ⟨c, hc, rfl⟩ := List.mem_map.mp hx
    have hcn := List.mem_range.mp hc
    apply mul_nonneg (le_of_lt (hw c hcn))
    split
    · exact ih c b
    · exact le_refl 0

/-- for positive node weights the weighted count of walks of length `k` is positive as soon
as there is one -/
theorem wcount_pos (G : Gr) (hw : ∀ k, k < G.n → 0 < G.w k) {a b k : Nat} (w : Walk G a b k) :
    0 < wcount G k a b := by
  induction w with
  | nil a ha => simp [wcount]
  | cons a b c k ha hab w ih =>
    have hb : b < G.n := w.start_lt
    simp only [wcount]
    have hterm : 0 < G.w b * (if G.adj a b = true then wcount G k b c else 0) := by
      simp only [hab, if_true]; exact mul_pos (hw b hb) ih
    refine lt_of_lt_of_le hterm ?_
    apply List.single_le_sum
    · intro x hx
      obtain ⟨c', hc', rfl⟩ := List.mem_map.mp hx
      have hcn := List.mem_range.mp hc'
      apply mul_nonneg (le_of_lt (hw c' hcn))
      split
      · exact wcount_nonneg G hw k c' c
      · exact le_refl 0
    · exact List.mem_map.mpr ⟨b, List.mem_range.mpr hb, rfl⟩

theorem getD_map_range (n a : Nat) (ha : a < n) (f : Nat → Bool) :
    ((List.range n).map f).getD a false = f a := by
  simp [List.getD_eq_getElem?_getD, ha]

theorem toSet_walk (G : Gr) (b k : Nat) : ∀ a, a < G.n →
    ((toSet G b k).getD a false = true ↔ Walk G a b k) := by
  induction k with
  | zero =>
    intro a ha
    simp only [toSet]
    rw [getD_map_range G.n a ha]
    simp only [decide_eq_true_eq]
    constructor
    · rintro rfl; exact Walk.nil a ha
    · intro w; exact w.zero_eq
  | succ k ih =>
    intro a ha
    simp only [toSet]
    rw [getD_map_range G.n a ha]
    simp only [List.any_eq_true, List.mem_range, Bool.and_eq_true]
    constructor
    · rintro ⟨c, hc, hadj, hr⟩
      exact Walk.cons a c b k ha hadj ((ih c hc).mp hr)
    · intro w
      cases w with
      | cons _ c _ _ _ hadj w' => exact ⟨c, w'.start_lt, hadj, (ih c w'.start_lt).mpr w'⟩

end Pyunicorn.Nsi
