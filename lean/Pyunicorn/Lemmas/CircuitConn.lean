import Pyunicorn.Lemmas.Circuit
/-! C18, round 2: the executable connectivity test of the model (`connected`, BFS with fuel) is
sound for the cut formulation `CutConnected` used by the theorems. -/
namespace Pyunicorn.Circuit

/-- reachable from node 0 along links (either orientation), inside `0..n-1` -/
inductive Reach (n : Nat) (adj : Adj) : Nat → Prop
  | base : Reach n adj 0
  | step {i j : Nat} : Reach n adj i → i < n → j < n → (adj i j || adj j i) = true → Reach n adj j

/-- one BFS sweep of `connected` -/
def growStep (n : Nat) (adj : Adj) (seen : List Nat) : List Nat :=
  (List.range n).filter fun j => seen.contains j || seen.any fun i => adj i j || adj j i

theorem connected_unfold (n : Nat) (adj : Adj) :
    connected n adj
      = (n == 0 || ((List.range n).foldl (fun seen _ => growStep n adj seen) [0]).length == n) := rfl

theorem growStep_inv (n : Nat) (adj : Adj) (seen : List Nat)
    (h : ∀ x ∈ seen, Reach n adj x ∧ x < n) : ∀ x ∈ growStep n adj seen, Reach n adj x ∧ x < n := by
  intro x hx
  unfold growStep at hx
  rw [List.mem_filter] at hx
  obtain ⟨hr, hp⟩ := hx
  have hxn : x < n := List.mem_range.mp hr
  refine ⟨?_, hxn⟩
  rw [Bool.or_eq_true] at hp
  rcases hp with hp | hp
  · exact (h x (by simpa using hp)).1
  · rw [List.any_eq_true] at hp
    obtain ⟨i, hi, hadj⟩ := hp
    exact Reach.step (h i hi).1 (h i hi).2 hxn hadj

theorem foldl_grow_inv (n : Nat) (adj : Adj) (l : List Nat) (seen : List Nat)
    (h : ∀ x ∈ seen, Reach n adj x ∧ x < n) :
    ∀ x ∈ l.foldl (fun seen _ => growStep n adj seen) seen, Reach n adj x ∧ x < n := by
  induction l generalizing seen with
  | nil => simpa using h
  | cons a l ih => exact ih _ (growStep_inv n adj seen h)

/-- if the BFS of the model reports "connected", every node is reachable from node 0 -/
theorem connected_reach (n : Nat) (adj : Adj) (h : connected n adj = true) :
    ∀ j, j < n → Reach n adj j := by
  intro j hj
  rw [connected_unfold] at h
  have hn : n ≠ 0 := by omega
  obtain ⟨m, rfl⟩ : ∃ m, n = m + 1 := ⟨n - 1, by omega⟩
  have hz : (m + 1 == 0) = false := by simp
  rw [hz, Bool.false_or, beq_iff_eq] at h
  rw [List.range_succ, List.foldl_append] at h
  simp only [List.foldl_cons, List.foldl_nil] at h
  set prev := (List.range m).foldl (fun seen _ => growStep (m + 1) adj seen) [0] with hprev
  have hinv : ∀ x ∈ prev, Reach (m + 1) adj x ∧ x < m + 1 :=
    foldl_grow_inv (m + 1) adj _ [0] (by
      intro x hx
      have : x = 0 := by simpa using hx
      subst this
      exact ⟨Reach.base, by omega⟩)
  have hall : ∀ a ∈ List.range (m + 1),
      (prev.contains a || prev.any fun i => adj i a || adj a i) = true := by
    apply List.length_filter_eq_length_iff.mp
    unfold growStep at h
    rw [h, List.length_range]
  have hmem : j ∈ growStep (m + 1) adj prev := by
    unfold growStep
    rw [List.mem_filter]
    exact ⟨List.mem_range.mpr hj, hall j (List.mem_range.mpr hj)⟩
  exact (growStep_inv (m + 1) adj prev hinv j hmem).1

/-- a reachable node on the other side of a cut than node 0 yields a link crossing the cut -/
theorem reach_crossing (n : Nat) (adj : Adj) (S : Nat → Bool) (y : Nat) (hy : Reach n adj y)
    (hS : S y ≠ S 0) :
    ∃ u w, u < n ∧ w < n ∧ S u ≠ S w ∧ (adj u w || adj w u) = true := by
  induction hy with
  | base => exact absurd rfl hS
  | @step i j _ hi hj hadj ih =>
    by_cases h : S i = S 0
    · exact ⟨i, j, hi, hj, by rw [h]; exact fun e => hS e.symm, hadj⟩
    · exact ih h

/-- **soundness of the model's connectivity test**: on an undirected network with positive
resistances, `connected n adj = true` implies cut-connectedness of the admittance matrix -/
theorem connected_sound (n : Nat) (adj : Adj) (res : Mat) (hN : IsNetwork n adj res)
    (h : connected n adj = true) : CutConnected n (admittance adj res) := by
  rintro S ⟨i, hi, hSi⟩ ⟨j, hj, hSj⟩
  have hreach := connected_reach n adj h
  have hex : ∃ u w, u < n ∧ w < n ∧ S u ≠ S w ∧ (adj u w || adj w u) = true := by
    by_cases h0 : S 0 = true
    · exact reach_crossing n adj S j (hreach j hj) (by rw [hSj, h0]; simp)
    · exact reach_crossing n adj S i (hreach i hi) (by rw [hSi]; exact fun e => h0 e.symm)
  obtain ⟨u, w, hu, hw, hne, hadj⟩ := hex
  have hlink : adj u w = true := by
    rw [Bool.or_eq_true] at hadj
    rcases hadj with h1 | h1
    · exact h1
    · rw [hN.adj_symm u w hu hw]; exact h1
  have hlink' : adj w u = true := by rw [← hN.adj_symm u w hu hw]; exact hlink
  have nz : ∀ a b, a < n → b < n → adj a b = true → admittance adj res a b ≠ 0 := by
    intro a b ha hb hab
    unfold admittance
    rw [if_pos hab]
    exact ne_of_gt (one_div_pos.mpr (hN.res_pos a b ha hb hab))
  cases hu' : S u with
  | true =>
    have : S w = false := by
      cases hw' : S w with
      | true => exact absurd (hu'.trans hw'.symm) hne
      | false => rfl
    exact ⟨u, w, hu, hw, hu', this, nz u w hu hw hlink⟩
  | false =>
    have : S w = true := by
      cases hw' : S w with
      | false => exact absurd (hu'.trans hw'.symm) hne
      | true => rfl
    exact ⟨w, u, hw, hu, this, hu', nz w u hw hu hlink'⟩

end Pyunicorn.Circuit
