import Pyunicorn.Lemmas.Circuit
/-! C18, round 4: the bilinear form of a generalised inverse (current-flow betweenness does not
depend on which generalised inverse is stored), scaling of generalised inverses / networks,
folds of `max`. -/
namespace Pyunicorn.Circuit
open Finset

section bridge
open Matrix
section abstract
variable {n : Nat} {K : Type} [CommRing K]

/-- for symmetric `L` and any `R` with `L R L = L`: `(L v)ᵀ R (L w) = (L v)ᵀ w` -/
theorem ginv_bilin (L R : Matrix (Fin n) (Fin n) K) (hL : Lᵀ = L) (hg : L * R * L = L)
    (v w : Fin n → K) : (L *ᵥ v) ⬝ᵥ (R *ᵥ (L *ᵥ w)) = (L *ᵥ v) ⬝ᵥ w := by
  have h1 : (L *ᵥ v) ⬝ᵥ (R *ᵥ (L *ᵥ w)) = v ⬝ᵥ (L *ᵥ (R *ᵥ (L *ᵥ w))) := by
    rw [dotProduct_mulVec v, ← mulVec_transpose, hL]
  have h2 : (L *ᵥ v) ⬝ᵥ w = v ⬝ᵥ (L *ᵥ w) := by
    rw [dotProduct_mulVec v, ← mulVec_transpose, hL]
  rw [h1, h2, mulVec_mulVec, mulVec_mulVec, hg]

theorem bilin_single (R : Matrix (Fin n) (Fin n) K) (i j s t : Fin n) :
    (Pi.single i 1 - Pi.single j 1 : Fin n → K) ⬝ᵥ (R *ᵥ (Pi.single s 1 - Pi.single t 1))
      = R i s - R j s + R j t - R i t := by
  simp [mulVec_sub, sub_dotProduct, dotProduct_sub]
  ring

theorem single_dot (w : Fin n → K) (i j : Fin n) :
    (Pi.single i 1 - Pi.single j 1 : Fin n → K) ⬝ᵥ w = w i - w j := by
  simp [sub_dotProduct]
end abstract

/-- **The summand of the current-flow kernels is a potential difference, for every generalised
inverse.**  `L` symmetric, `L R L = L`, `v` potentials of a unit current `i → j` (they exist on a
connected network), `w` potentials of the unit current `s → t`:
`R[i,s] − R[j,s] + R[j,t] − R[i,t] = w_i − w_j`. -/
theorem flow_eq_drop (n : Nat) (L R : Mat) (v w : Vec) (i j s t : Nat) (hi : i < n) (hj : j < n)
    (hs : s < n) (ht : t < n) (hsym : SymmOn n L) (hg : IsGinv n L R)
    (hv : IsPot n L v i j) (hw : IsPot n L w s t) :
    R i s - R j s + R j t - R i t = w i - w j := by
  have h := ginv_bilin (toM n L) (toM n R) (toM_symm hsym) (toM_ginv hg) (toV n v) (toV n w)
  rw [toM_pot hi hj hv, toM_pot hs ht hw, bilin_single, single_dot] at h
  exact h
end bridge

/-! ### scaling of networks and generalised inverses -/

theorem ginv_scale (n : Nat) (L R : Mat) (α : Rat) (hα : α ≠ 0) (hg : IsGinv n L R) :
    IsGinv n (fun i j => α * L i j) (fun i j => α⁻¹ * R i j) := by
  intro i j hi hj
  have h := hg i j hi hj
  simp only [sumTo_eq] at h ⊢
  rw [← h, Finset.mul_sum]
  refine Finset.sum_congr rfl fun l _ => ?_
  rw [show (∑ k ∈ range n, α * L i k * (α⁻¹ * R k l)) = ∑ k ∈ range n, L i k * R k l from
    Finset.sum_congr rfl fun k _ => by field_simp]
  ring

theorem isNetwork_scale {n : Nat} {adj : Adj} {res : Mat} (k : Rat) (hk : 0 < k)
    (h : IsNetwork n adj res) : IsNetwork n adj (fun i j => k * res i j) :=
  ⟨h.adj_symm, fun i j hi hj => by show k * res i j = k * res j i; rw [h.res_symm i j hi hj],
    fun i j hi hj ha => mul_pos hk (h.res_pos i j hi hj ha)⟩

theorem cutConnected_scale {n : Nat} {c : Mat} (α : Rat) (hα : α ≠ 0) (h : CutConnected n c) :
    CutConnected n (fun i j => α * c i j) := by
  intro S h1 h2
  obtain ⟨i, j, hi, hj, hSi, hSj, hc⟩ := h S h1 h2
  exact ⟨i, j, hi, hj, hSi, hSj, mul_ne_zero hα hc⟩

theorem admittance_scale_fun (adj : Adj) (res : Mat) (k : Rat) :
    (admittance adj fun i j => k * res i j) = fun i j => (1 / k) * admittance adj res i j := by
  funext i j; exact admittance_scale adj res k i j

theorem laplacian_scale_fun (n : Nat) (c : Mat) (α : Rat) :
    laplacian n (fun i j => α * c i j) = fun i j => α * laplacian n c i j := by
  funext i j; exact laplacian_scale n c α i j

/-! ### `np.max` of the store -/

theorem foldl_max_mul (k : Rat) (hk : 0 < k) (xs : List Rat) (x : Rat) :
    (xs.map (k * ·)).foldl max (k * x) = k * xs.foldl max x := by
  induction xs generalizing x with
  | nil => rfl
  | cons y ys ih =>
    simp only [List.map_cons, List.foldl_cons]
    rw [← ih]
    congr 1
    rcases le_total x y with h | h
    · rw [max_eq_right h, max_eq_right (mul_le_mul_of_nonneg_left h hk.le)]
    · rw [max_eq_left h, max_eq_left (mul_le_mul_of_nonneg_left h hk.le)]

theorem maxOf_scale (k : Rat) (hk : 0 < k) (xs : List Rat) :
    maxOf (xs.map (k * ·)) = (maxOf xs).map (k * ·) := by
  cases xs with
  | nil => rfl
  | cons x xs => simp [maxOf, foldl_max_mul k hk]

/-- the store of all pairs as a function of the effective resistances only -/
theorem allPairs_congr (n : Nat) (R R' : Mat) (f : Rat → Rat)
    (h : ∀ i j, i < n → j < i → effRes R' i j = f (effRes R i j)) :
    allPairs n R' = (allPairs n R).map f := by
  unfold allPairs
  have inner : ∀ (i m : Nat) (acc : List Rat), i < n → m ≤ i →
      (List.range m).foldl (fun acc j => acc ++ [effRes R' i j]) (acc.map f)
        = ((List.range m).foldl (fun acc j => acc ++ [effRes R i j]) acc).map f := by
    intro i m acc hi
    induction m with
    | zero => intro _; rfl
    | succ m ih =>
      intro hm
      rw [List.range_succ, List.foldl_append, List.foldl_append, ih (by omega)]
      simp [h i m hi (by omega)]
  have outer : ∀ (m : Nat), m ≤ n →
      (List.range m).foldl (fun acc i =>
          (List.range i).foldl (fun acc j => acc ++ [effRes R' i j]) acc) []
        = ((List.range m).foldl (fun acc i =>
          (List.range i).foldl (fun acc j => acc ++ [effRes R i j]) acc) []).map f := by
    intro m
    induction m with
    | zero => intro _; rfl
    | succ m ih =>
      intro hm
      rw [List.range_succ, List.foldl_append, List.foldl_append, ih (by omega)]
      simp only [List.foldl_cons, List.foldl_nil]
      exact inner m m _ (by omega) (le_refl m)
  exact outer n (le_refl n)

end Pyunicorn.Circuit
