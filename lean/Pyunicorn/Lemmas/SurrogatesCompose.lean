import Pyunicorn.Lemmas.SurrogatesPerm
import Pyunicorn.Lemmas.SurrogatesTwins
/-! C15: `Surrogates.twin_surrogates` as a whole — embedding, twin search per series, walk on
the shared random stream, read-out of `original_data[i, k]` — and the exact form of one walk
step (which successor is taken, when the walk restarts). -/
namespace Pyunicorn.Surrogates

/-! ### `mapM` in `Option` -/

theorem mapM_option_spec {α β : Type} (f : α → Option β) (l : List α)
    (h : ∀ x ∈ l, ∃ y, f x = some y) :
    ∃ ys, l.mapM f = some ys ∧ ys.length = l.length ∧ ∀ i : Nat, ys[i]? = l[i]?.bind f := by
  induction l with
  | nil => exact ⟨[], by simp, rfl, by simp⟩
  | cons a as ih =>
    obtain ⟨y, hy⟩ := h a List.mem_cons_self
    obtain ⟨ys, h1, h2, h3⟩ := ih (fun x hx => h x (List.mem_cons_of_mem _ hx))
    refine ⟨y :: ys, by simp [List.mapM_cons, hy, h1], by simp [h2], ?_⟩
    intro i
    cases i with
    | zero => simp [hy]
    | succ i => simpa using h3 i

/-! ### the embedding -/

/-- `_embed_time_series_array` on its domain `(dim-1)·delay ≤ n`: `n - (dim-1)·delay` states of
`dim` components, component `j` of state `k` is sample `k + j·delay`. -/
theorem embed_spec (row : List Rat) (dim delay : Nat) (h : (dim - 1) * delay ≤ row.length) :
    ∃ e, embed row dim delay = some e ∧ e.length = row.length - (dim - 1) * delay ∧
      ∀ k, k < row.length - (dim - 1) * delay →
        ∃ st, e[k]? = some st ∧ st.length = dim ∧ ∀ j, j < dim → st[j]? = row[k + j * delay]? := by
  have hin : ∀ k, k < row.length - (dim - 1) * delay → ∀ j, j < dim → k + j * delay < row.length := by
    intro k hk j hj
    have : j * delay ≤ (dim - 1) * delay := Nat.mul_le_mul_right _ (by omega)
    omega
  have hinner : ∀ k, k < row.length - (dim - 1) * delay →
      ∃ st, (List.range dim).mapM (fun j => row[k + j * delay]?) = some st ∧ st.length = dim ∧
        ∀ j, j < dim → st[j]? = row[k + j * delay]? := by
    intro k hk
    obtain ⟨st, h1, h2, h3⟩ := mapM_option_spec (fun j => row[k + j * delay]?) (List.range dim)
      (fun j hj => ⟨row[k + j * delay]'(hin k hk j (List.mem_range.1 hj)),
        List.getElem?_eq_getElem _⟩)
    refine ⟨st, h1, by simpa using h2, ?_⟩
    intro j hj
    rw [h3 j]
    simp [hj]
  obtain ⟨e, h1, h2, h3⟩ := mapM_option_spec
    (fun k => (List.range dim).mapM (fun j => row[k + j * delay]?))
    (List.range (row.length - (dim - 1) * delay))
    (fun k hk => by
      obtain ⟨st, hst, -⟩ := hinner k (List.mem_range.1 hk)
      exact ⟨st, hst⟩)
  refine ⟨e, ?_, by simpa using h2, ?_⟩
  · unfold embed
    rw [if_neg (by omega)]
    exact h1
  · intro k hk
    obtain ⟨st, hst, hl, hc⟩ := hinner k hk
    refine ⟨st, ?_, hl, hc⟩
    rw [h3 k]
    simp [hk, hst]

theorem embed_none_of_gt (row : List Rat) (dim delay : Nat) (h : row.length < (dim - 1) * delay) :
    embed row dim delay = none := by
  unfold embed
  rw [if_pos h]

/-! ### one step, exactly -/

/-- the successor drawn in one pass of `while j < N`, before the end-of-series test -/
def drawnSucc (tw : List (List Nat)) (pick : Nat → Nat → Nat) (k c : Nat) : Nat × Nat :=
  let twk := tw[k]?.getD []
  if twk.length = 0 then (k + 1, c)
  else
    let r := pick c (twk.length + 1)
    if r = twk.length then (k + 1, c + 1) else (twk[r]?.getD 0 + 1, c + 1)

/-- `next` is: take the drawn successor; restart at a fresh random state exactly when it lies
beyond the end of the series. -/
theorem next_exact {N : Nat} {tw : List (List Nat)} {pick : Nat → Nat → Nat}
    (hp : GoodPick pick) (hw : WfTwins N tw) (k c : Nat) (hk : k < N) :
    next N tw pick k c = some
      (if (drawnSucc tw pick k c).1 < N then drawnSucc tw pick k c
       else (pick (drawnSucc tw pick k c).2 N, (drawnSucc tw pick k c).2 + 1)) := by
  obtain ⟨hlen, hmem⟩ := hw
  have hkl : k < tw.length := by omega
  have htk : tw[k]? = some tw[k] := List.getElem?_eq_getElem hkl
  have hN : 0 < N := by omega
  have fin : ∀ k₁ c₁, k₁ ≤ N →
      (if k₁ ≥ N then (if pick c₁ N ≠ k₁ then some (pick c₁ N, c₁ + 1) else none)
        else some (k₁, c₁)) =
      some (if k₁ < N then (k₁, c₁) else (pick c₁ N, c₁ + 1)) := by
    intro k₁ c₁ hle
    have := hp c₁ N hN
    by_cases h : k₁ < N
    · simp [h, Nat.not_le.2 h]
    · have hne : pick c₁ N ≠ k₁ := by omega
      simp [h, Nat.le_of_not_lt h, hne]
  unfold next drawnSucc
  simp only [htk, Option.getD_some]
  by_cases hnt : tw[k].length = 0
  · simp only [hnt, if_true]
    exact fin (k + 1) c (by omega)
  · simp only [hnt, if_false]
    by_cases hr : pick c (tw[k].length + 1) = tw[k].length
    · simp only [hr, if_true]
      exact fin (k + 1) (c + 1) (by omega)
    · have hlt : pick c (tw[k].length + 1) < tw[k].length := by
        have := hp c (tw[k].length + 1) (by omega); omega
      simp only [hr, if_false, List.getElem?_eq_getElem hlt, Option.getD_some]
      have := hmem _ (List.getElem_mem hkl) _ (List.getElem_mem hlt)
      exact fin _ (c + 1) (by omega)

/-! ### the composition -/

/-- what `twin_surrogates` guarantees for one series `row` and its surrogate `o` -/
def RowSpec (N dim delay : Nat) (thr : Rat) (md : Nat) (o row : List Rat) : Prop :=
  ∃ e l, embed row dim delay = some e ∧ e.length = N ∧ l.length = N ∧ (∀ k ∈ l, k < N) ∧
    (∀ i a b, l[i]? = some a → l[i+1]? = some b → Succ N (twinsS thr md e) a b) ∧
    gather row l = some o ∧
    (∀ k, k < N → ∃ st x, e[k]? = some st ∧ st[0]? = some x ∧ row[k]? = some x)

theorem compose_aux {pick : Nat → Nat → Nat} (hp : GoodPick pick) (n dim delay : Nat)
    (thr : Rat) (md : Nat) (hd : 1 ≤ dim) (hfit : (dim - 1) * delay ≤ n)
    (data : List (List Rat)) (hrows : ∀ r ∈ data, r.length = n) (c : Nat) :
    ∃ embs idx c' out, data.mapM (embed · dim delay) = some embs ∧
      walkRows (n - (dim - 1) * delay) pick (embs.map (twinsS thr md)) c = some (idx, c') ∧
      rowsM gather data idx = some out ∧
      List.Forall₂ (RowSpec (n - (dim - 1) * delay) dim delay thr md) out data := by
  induction data generalizing c with
  | nil => exact ⟨[], [], c, [], by simp, by simp [walkRows], by simp [rowsM], .nil⟩
  | cons row rest ih =>
    have hrow : row.length = n := hrows row List.mem_cons_self
    obtain ⟨e, he, hel, hst⟩ := embed_spec row dim delay (by omega)
    rw [hrow] at hel hst
    have hwf : WfTwins (n - (dim - 1) * delay) (twinsS thr md e) := by
      have := twinLists_wf e.length md (isTwin (recMatrix thr e) (rowCounts (recMatrix thr e)))
      rw [hel] at this
      simpa [twinsS, hel] using this
    obtain ⟨l, c1, hwalk, hll, hlb, hls⟩ := walkRow_spec hp hwf c
    obtain ⟨o, ho⟩ := gather_isSome_of_lt row l (fun i hi => by have := hlb i hi; omega)
    obtain ⟨embs, idx, c', out, h1, h2, h3, h4⟩ :=
      ih (fun r hr => hrows r (List.mem_cons_of_mem _ hr)) c1
    refine ⟨e :: embs, l :: idx, c', o :: out, by simp [List.mapM_cons, he, h1],
      by simp [walkRows, hwalk, h2], by simp [rowsM, ho, h3], .cons ?_ h4⟩
    refine ⟨e, l, he, hel, hll, hlb, hls, ho, ?_⟩
    intro k hk
    obtain ⟨st, hs1, hs2, hs3⟩ := hst k hk
    have h0 := hs3 0 (by omega)
    have hkn : k < row.length := by omega
    refine ⟨st, row[k], hs1, ?_, List.getElem?_eq_getElem hkn⟩
    rw [h0]
    simp [hkn]

/-- `Surrogates.twin_surrogates(dimension, delay, threshold, min_dist)` as a whole -/
theorem twinSurrogates_spec {pick : Nat → Nat → Nat} (hp : GoodPick pick) (n dim delay : Nat)
    (thr : Rat) (md : Nat) (hd : 1 ≤ dim) (hfit : (dim - 1) * delay ≤ n)
    (data : List (List Rat)) (hrows : ∀ r ∈ data, r.length = n) :
    ∃ out, twinSurrogates data dim delay thr md pick = some out ∧
      List.Forall₂ (RowSpec (n - (dim - 1) * delay) dim delay thr md) out data := by
  obtain ⟨embs, idx, c', out, h1, h2, h3, h4⟩ :=
    compose_aux hp n dim delay thr md hd hfit data hrows 0
  refine ⟨out, ?_, h4⟩
  unfold twinSurrogates
  cases data with
  | nil =>
    simp only [List.mapM_nil] at h1 ⊢
    cases h1
    simp only [walkRows, List.map_nil] at h2 ⊢
    cases h2
    exact h3
  | cons row rest =>
    have hrow : row.length = n := hrows row List.mem_cons_self
    simp only [h1, List.headD_cons, hrow, h2]
    exact h3

end Pyunicorn.Surrogates
