import Pyunicorn.Model.Cross
import Mathlib.Tactic.Ring
import Mathlib.Tactic.Linarith
import Mathlib.Algebra.Order.Field.Rat
import Mathlib.Algebra.BigOperators.Group.List.Basic
/-! Helper lemmas for C11: loop invariants of the four kernels, sums over unordered pairs. -/
namespace Pyunicorn.Cross

section nat

theorem crossSum_nil_right (f : Nat → Nat → Nat) (rest : List Nat) : crossSum f rest [] = 0 := by
  induction rest with
  | nil => rfl
  | cons r t ih => simp [crossSum] at ih ⊢

theorem crossSum_snoc (f : Nat → Nat → Nat) (rest pre : List Nat) (x : Nat) :
    crossSum f rest (pre ++ [x]) = crossSum f rest pre + (rest.map fun r => f r x).sum := by
  induction rest with
  | nil => simp [crossSum]
  | cons r t ih =>
    simp only [crossSum, List.map_cons, List.sum_cons, List.map_append, List.sum_append,
      List.map_nil, List.sum_nil] at ih ⊢
    omega

/-- triangle / triple indicators of `_cross_transitivity` for the node `n1` -/
def triInd (A : Adj) (n1 n2 n3 : Nat) : Nat := b2n (A n2 n3 && A n3 n1)
def trpInd (A : Adj) (n1 _n2 n3 : Nat) : Nat := b2n (A n1 n3)

theorem ctInner_eq (A : Adj) (n1 n2 : Nat) (pre : List Nat) (acc : Nat × Nat) :
    ctInner A n1 n2 pre acc
      = (acc.1 + (pre.map fun p => triInd A n1 n2 p).sum,
         acc.2 + (pre.map fun p => trpInd A n1 n2 p).sum) := by
  unfold ctInner
  induction pre generalizing acc with
  | nil => simp
  | cons p t ih =>
    rw [List.foldl_cons, ih]
    simp only [List.map_cons, List.sum_cons, triInd, trpInd, b2n]
    ext
    · simp only; split <;> simp_all <;> omega
    · simp only; split <;> simp_all <;> omega

/-- guarded indicators: the `if A[n1, n2]` around the inner loop -/
def triG (A : Adj) (n1 n2 n3 : Nat) : Nat := if A n1 n2 then triInd A n1 n2 n3 else 0
def trpG (A : Adj) (n1 n2 n3 : Nat) : Nat := if A n1 n2 then trpInd A n1 n2 n3 else 0

theorem ctMid_eq (A : Adj) (n1 : Nat) (pre rest : List Nat) (acc : Nat × Nat) :
    ctMid A n1 pre rest acc
      = (acc.1 + pairSum (triG A n1) rest + crossSum (triG A n1) rest pre,
         acc.2 + pairSum (trpG A n1) rest + crossSum (trpG A n1) rest pre) := by
  induction rest generalizing pre acc with
  | nil => simp [ctMid, pairSum, crossSum]
  | cons x t ih =>
    rw [ctMid, ih, crossSum_snoc, crossSum_snoc]
    simp only [pairSum, crossSum, List.map_cons, List.sum_cons]
    by_cases h : A n1 x
    · simp only [h, if_true, ctInner_eq, triG, trpG]
      ext <;> simp only <;> omega
    · simp only [h, triG, trpG]
      ext <;> simp <;> omega

theorem clcInner_eq (A : Adj) (n1 n2 : Nat) (pre : List Nat) (c : Nat) :
    clcInner A n1 n2 pre c = c + (pre.map fun p => triInd A n1 n2 p).sum := by
  unfold clcInner
  induction pre generalizing c with
  | nil => simp
  | cons p t ih =>
    rw [List.foldl_cons, ih]
    simp only [List.map_cons, List.sum_cons, triInd, b2n]
    split <;> simp_all <;> omega

theorem clcMid_eq (A : Adj) (n1 : Nat) (pre rest : List Nat) (c : Nat) :
    clcMid A n1 pre rest c
      = c + pairSum (triG A n1) rest + crossSum (triG A n1) rest pre := by
  induction rest generalizing pre c with
  | nil => simp [clcMid, pairSum, crossSum]
  | cons x t ih =>
    rw [clcMid, ih, crossSum_snoc]
    simp only [pairSum, crossSum, List.map_cons, List.sum_cons]
    by_cases h : A n1 x
    · simp only [h, if_true, clcInner_eq, triG]
      omega
    · simp only [h, triG]
      simp; omega

/-- number of unordered pairs both of whose members satisfy `p` is `C(c, 2)` -/
theorem pairSum_both (p : Nat → Bool) (L : List Nat) :
    2 * pairSum (fun y x => b2n (p y && p x)) L
      = (L.map fun x => b2n (p x)).sum * ((L.map fun x => b2n (p x)).sum - 1) := by
  induction L with
  | nil => simp [pairSum]
  | cons x t ih =>
    simp only [pairSum, List.map_cons, List.sum_cons, Nat.mul_add]
    rw [ih]
    cases hx : p x
    · simp [b2n]
    · simp only [Bool.and_true, b2n, if_true]
      generalize (t.map fun x => if p x = true then 1 else 0).sum = c
      cases c with
      | zero => simp
      | succ c => simp only [Nat.add_sub_cancel, Nat.add_sub_cancel_left]; ring

theorem sum_le_sum_map (f g : Nat → Nat) (t : List Nat) (h : ∀ y, f y ≤ g y) :
    (t.map f).sum ≤ (t.map g).sum := by
  induction t with
  | nil => simp
  | cons y t ih => simp only [List.map_cons, List.sum_cons]; have := h y; omega

theorem pairSum_le {f g : Nat → Nat → Nat} (h : ∀ a b, f a b ≤ g a b) (L : List Nat) :
    pairSum f L ≤ pairSum g L := by
  induction L with
  | nil => simp [pairSum]
  | cons x t ih =>
    simp only [pairSum]
    have : (t.map fun y => f y x).sum ≤ (t.map fun y => g y x).sum :=
      sum_le_sum_map _ _ t (fun y => h y x)
    omega

theorem pairSum_congr {α : Type} [Add α] [Zero α] {f g : Nat → Nat → α} (h : ∀ a b, f a b = g a b)
    (L : List Nat) : pairSum f L = pairSum g L := by
  have : f = g := by funext a b; exact h a b
  rw [this]

end nat

section rat

theorem foldl_add_sum (l : List Nat) (g : Nat → Rat) (c : Nat → Bool) (s : Rat) :
    l.foldl (fun s q => if c q then s + g q else s) s
      = s + (l.map fun q => if c q then g q else 0).sum := by
  induction l generalizing s with
  | nil => simp
  | cons q t ih =>
    rw [List.foldl_cons, ih]
    simp only [List.map_cons, List.sum_cons]
    split <;> ring

/-- for a symmetric `g` the full double sum is the diagonal plus twice the pair sum -/
theorem double_sum_symm (g : Nat → Nat → Rat) (hs : ∀ a b, g a b = g b a) (L : List Nat) :
    (L.map fun a => (L.map fun b => g a b).sum).sum
      = (L.map fun a => g a a).sum + 2 * pairSum g L := by
  induction L with
  | nil => simp [pairSum]
  | cons x t ih =>
    simp only [List.map_cons, List.sum_cons, pairSum]
    have h1 : (t.map fun a => g a x + (t.map fun b => g a b).sum).sum
        = (t.map fun a => g a x).sum + (t.map fun a => (t.map fun b => g a b).sum).sum := by
      rw [List.sum_map_add]
    have h2 : (t.map fun b => g x b).sum = (t.map fun a => g a x).sum := by
      congr 1
      apply List.map_congr_left
      intro a _
      exact hs x a
    rw [h1, ih, h2]
    ring

theorem sum_map_mul_left (c : Rat) (f : Nat → Rat) (L : List Nat) :
    (L.map fun x => c * f x).sum = c * (L.map f).sum := by
  induction L with
  | nil => simp
  | cons x t ih => simp only [List.map_cons, List.sum_cons, ih]; ring

theorem sum_map_mul_right (c : Rat) (f : Nat → Rat) (L : List Nat) :
    (L.map fun x => f x * c).sum = (L.map f).sum * c := by
  induction L with
  | nil => simp
  | cons x t ih => simp only [List.map_cons, List.sum_cons, ih]; ring

theorem sum_mul_sum (a b : Nat → Rat) (L M : List Nat) :
    (L.map a).sum * (M.map b).sum = (L.map fun p => (M.map fun q => a p * b q).sum).sum := by
  rw [← sum_map_mul_right]
  congr 1
  apply List.map_congr_left
  intro p _
  rw [sum_map_mul_left]

theorem sum_comm_lists {α : Type} [AddCommMonoid α] (f : Nat → Nat → α) (L1 L2 : List Nat) :
    (L1.map fun a => (L2.map fun b => f a b).sum).sum
      = (L2.map fun b => (L1.map fun a => f a b).sum).sum := by
  induction L1 with
  | nil => simp
  | cons x t ih =>
    simp only [List.map_cons, List.sum_cons, ih]
    rw [List.sum_map_add]


theorem sum_map_two_mul (f : Nat → Rat) (L : List Nat) :
    (L.map fun x => 2 * f x).sum = 2 * (L.map f).sum := sum_map_mul_left 2 f L

/-- pair term of `_nsi_cross_local_clustering` (`q` = later, `p` = earlier element of `nodes2`) -/
def gClc (Ap : Adj) (w : Nat → Rat) (v : Nat) : Nat → Nat → Rat :=
  fun q p => if Ap v p && (Ap p q && Ap q v) then w p * w q else 0

theorem nsiClcInner_eq (Ap : Adj) (w : Nat → Rat) (v p : Nat) (rest : List Nat) (s : Rat) :
    nsiClcInner Ap w v p rest s
      = s + (rest.map fun q => if Ap p q && Ap q v then 2 * w p * w q else 0).sum := by
  unfold nsiClcInner
  exact foldl_add_sum rest (fun q => 2 * w p * w q) (fun q => Ap p q && Ap q v) s

theorem nsiClcMid_eq (Ap : Adj) (w : Nat → Rat) (v : Nat) (L : List Nat) (s : Rat) :
    nsiClcMid Ap w v L s
      = s + (L.map fun p => if Ap v p then w p * w p else 0).sum + 2 * pairSum (gClc Ap w v) L := by
  induction L generalizing s with
  | nil => simp [nsiClcMid, pairSum]
  | cons p t ih =>
    rw [nsiClcMid, ih]
    simp only [List.map_cons, List.sum_cons, pairSum]
    by_cases h : Ap v p
    · simp only [h, if_true, nsiClcInner_eq, gClc, Bool.true_and]
      have : (t.map fun q => if (Ap p q && Ap q v) = true then 2 * w p * w q else 0).sum
          = 2 * (t.map fun q => if (Ap p q && Ap q v) = true then w p * w q else 0).sum := by
        rw [← sum_map_two_mul]
        congr 1
        apply List.map_congr_left
        intro q _
        split <;> ring
      rw [this]
      ring
    · simp only [h, gClc, Bool.false_and]
      simp

/-- pair terms of `_nsi_cross_transitivity` -/
def gT1 (Ap : Adj) (w : Nat → Rat) (v : Nat) : Nat → Nat → Rat :=
  fun q p => if Ap v p && (Ap v q && Ap p q) then w p * w q else 0
def gT2 (Ap : Adj) (w : Nat → Rat) (v : Nat) : Nat → Nat → Rat :=
  fun q p => if Ap v p && Ap v q then w p * w q else 0

theorem nsiCtInner_eq (Ap : Adj) (w : Nat → Rat) (v p : Nat) (rest : List Nat) (t : Rat × Rat) :
    nsiCtInner Ap w v p rest t
      = (t.1 + (rest.map fun q => if Ap v q && Ap p q then 2 * w p * w q * w v else 0).sum,
         t.2 + (rest.map fun q => if Ap v q then 2 * w p * w q * w v else 0).sum) := by
  unfold nsiCtInner
  induction rest generalizing t with
  | nil => simp
  | cons q r ih =>
    rw [List.foldl_cons, ih]
    simp only [List.map_cons, List.sum_cons]
    by_cases h1 : Ap v q <;> by_cases h2 : Ap p q <;> simp [h1, h2] <;> (try constructor) <;> ring

theorem nsiCtMid_eq (Ap : Adj) (w : Nat → Rat) (v : Nat) (L : List Nat) (t : Rat × Rat) :
    nsiCtMid Ap w v L t
      = (t.1 + w v * ((L.map fun p => if Ap v p then w p * w p else 0).sum
                        + 2 * pairSum (gT1 Ap w v) L),
         t.2 + w v * ((L.map fun p => if Ap v p then w p * w p else 0).sum
                        + 2 * pairSum (gT2 Ap w v) L)) := by
  induction L generalizing t with
  | nil => simp [nsiCtMid, pairSum]
  | cons p r ih =>
    rw [nsiCtMid, ih]
    simp only [List.map_cons, List.sum_cons, pairSum]
    by_cases h : Ap v p
    · simp only [h, if_true, nsiCtInner_eq, gT1, gT2, Bool.true_and]
      have e1 : (r.map fun q => if (Ap v q && Ap p q) = true then 2 * w p * w q * w v else 0).sum
          = 2 * w v * (r.map fun q => if (Ap v q && Ap p q) = true then w p * w q else 0).sum := by
        rw [← sum_map_mul_left]
        congr 1
        apply List.map_congr_left
        intro q _
        split <;> ring
      have e2 : (r.map fun q => if Ap v q = true then 2 * w p * w q * w v else 0).sum
          = 2 * w v * (r.map fun q => if Ap v q = true then w p * w q else 0).sum := by
        rw [← sum_map_mul_left]
        congr 1
        apply List.map_congr_left
        intro q _
        split <;> ring
      rw [e1, e2]
      ext <;> simp only <;> ring
    · simp only [h, gT1, gT2, Bool.false_and]
      simp

theorem foldl_pair_add (L : List Nat) (f g : Nat → Rat) (t : Rat × Rat) :
    L.foldl (fun t v => (t.1 + f v, t.2 + g v)) t
      = (t.1 + (L.map f).sum, t.2 + (L.map g).sum) := by
  induction L generalizing t with
  | nil => simp
  | cons v r ih =>
    rw [List.foldl_cons, ih]
    simp only [List.map_cons, List.sum_cons]
    ext <;> simp only <;> ring

theorem foldl_pair_add_nat (L : List Nat) (f g : Nat → Nat) (t : Nat × Nat) :
    L.foldl (fun t v => (t.1 + f v, t.2 + g v)) t
      = (t.1 + (L.map f).sum, t.2 + (L.map g).sum) := by
  induction L generalizing t with
  | nil => simp
  | cons v r ih =>
    rw [List.foldl_cons, ih]
    simp only [List.map_cons, List.sum_cons]
    ext <;> simp only <;> omega

end rat

end Pyunicorn.Cross

/-! ### positional loops of the `_sparse` twins -/
namespace Pyunicorn.Cross

theorem foldl_count2 (l : List Nat) (c d : Nat → Bool) (acc : Nat × Nat) :
    l.foldl (fun acc k => if c k then (if d k then acc.1 + 1 else acc.1, acc.2 + 1) else acc) acc
      = (acc.1 + (l.map fun k => b2n (c k && d k)).sum, acc.2 + (l.map fun k => b2n (c k)).sum) := by
  induction l generalizing acc with
  | nil => simp
  | cons k t ih =>
    rw [List.foldl_cons, ih]
    simp only [List.map_cons, List.sum_cons, b2n]
    cases c k <;> cases d k <;> simp <;> (try constructor) <;> omega

theorem map_getD_range (L : List Nat) : (List.range L.length).map (fun i => L.getD i 0) = L := by
  apply List.ext_getElem
  · simp
  · intro i h1 h2
    simp at h1
    simp [List.getD_eq_getElem?_getD, h1]

theorem getD_append_left (L1 L2 : List Nat) (i : Nat) (h : i < L1.length) :
    (L1 ++ L2).getD i 0 = L1.getD i 0 := by
  simp [List.getD_eq_getElem?_getD, List.getElem?_append_left h]

theorem getD_append_right (L1 L2 : List Nat) (j : Nat) :
    (L1 ++ L2).getD (L1.length + j) 0 = L2.getD j 0 := by
  simp [List.getD_eq_getElem?_getD, List.getElem?_append_right]

/-- `Σ_{jj < |L|} Σ_{kk < jj} h L[jj] L[kk]` -/
def posPairSum (h : Nat → Nat → Nat) (L : List Nat) : Nat :=
  ((List.range L.length).map fun jj =>
    ((List.range jj).map fun kk => h (L.getD jj 0) (L.getD kk 0)).sum).sum

theorem posPairSum_eq (h : Nat → Nat → Nat) (L : List Nat) : posPairSum h L = pairSum h L := by
  induction L with
  | nil => simp [posPairSum, pairSum]
  | cons x t ih =>
    rw [pairSum, ← ih]
    simp only [posPairSum, List.length_cons, List.range_succ_eq_map, List.map_cons, List.sum_cons,
      List.map_map, Function.comp_def, List.range_zero, List.map_nil, List.sum_nil,
      List.getD_cons_succ, List.getD_cons_zero, Nat.zero_add]
    rw [List.sum_map_add]
    congr 1
    have := map_getD_range t
    conv_rhs => rw [← this]
    simp [List.map_map, Function.comp_def]

theorem sum_range'_shift (F : Nat → Nat) (s n : Nat) :
    ((List.range' s n).map F).sum = ((List.range n).map fun j => F (s + j)).sum := by
  rw [List.range'_eq_map_range, List.map_map]
  rfl

end Pyunicorn.Cross

namespace Pyunicorn.Cross

theorem foldl_congr_mem {β : Type} (l : List Nat) (f g : β → Nat → β) (a : β)
    (h : ∀ acc, ∀ x ∈ l, f acc x = g acc x) : l.foldl f a = l.foldl g a := by
  induction l generalizing a with
  | nil => rfl
  | cons x t ih =>
    simp only [List.foldl_cons]
    rw [h a x (by simp)]
    exact ih _ (fun acc y hy => h acc y (by simp [hy]))

/-- one row `i` of the positional loops of `cross_transitivity_sparse` -/
theorem sparse_row (A : Adj) (L1 L2 : List Nat) (i : Nat) (hi : i < L1.length) (acc : Nat × Nat) :
    (List.range' L1.length L2.length).foldl (fun acc j =>
        (List.range' L1.length (j - L1.length)).foldl (fun acc k =>
          if catAdj A L1 L2 i j && catAdj A L1 L2 i k then
            (if catAdj A L1 L2 j k then acc.1 + 1 else acc.1, acc.2 + 1)
          else acc) acc) acc
      = (acc.1 + pairSum (fun y x =>
            b2n ((A (L1.getD i 0) y && A (L1.getD i 0) x) && A y x)) L2,
         acc.2 + pairSum (fun y x => b2n (A (L1.getD i 0) y && A (L1.getD i 0) x)) L2) := by
  simp only [foldl_count2]
  rw [foldl_pair_add_nat]
  rw [← posPairSum_eq, ← posPairSum_eq]
  simp only [posPairSum, sum_range'_shift, Nat.add_sub_cancel_left, catAdj, getD_append_right,
    getD_append_left L1 L2 i hi]

end Pyunicorn.Cross

namespace Pyunicorn.Cross

theorem foldl_count1 (l : List Nat) (p : Nat → Bool) (c : Nat) :
    l.foldl (fun c k => if p k then c + 1 else c) c = c + (l.map fun k => b2n (p k)).sum := by
  induction l generalizing c with
  | nil => simp
  | cons k t ih =>
    rw [List.foldl_cons, ih]
    simp only [List.map_cons, List.sum_cons, b2n]
    cases p k <;> simp <;> omega

theorem foldl_add1 (l : List Nat) (f : Nat → Nat) (c : Nat) :
    l.foldl (fun c j => c + f j) c = c + (l.map f).sum := by
  induction l generalizing c with
  | nil => simp
  | cons k t ih =>
    rw [List.foldl_cons, ih]
    simp only [List.map_cons, List.sum_cons]
    omega

/-- one row `i` of the positional loops of `cross_local_clustering_sparse` -/
theorem sparse_clc_row (A : Adj) (L1 L2 : List Nat) (i : Nat) (hi : i < L1.length) :
    (List.range' L1.length L2.length).foldl (fun c j =>
        (List.range' L1.length (j - L1.length)).foldl (fun c k =>
          if catAdj A L1 L2 i j && catAdj A L1 L2 j k && catAdj A L1 L2 k i then c + 1 else c) c) 0
      = pairSum (fun y x => b2n (A (L1.getD i 0) y && A y x && A x (L1.getD i 0))) L2 := by
  simp only [foldl_count1]
  rw [foldl_add1]
  rw [← posPairSum_eq]
  simp only [posPairSum, sum_range'_shift, Nat.add_sub_cancel_left, catAdj, getD_append_right,
    getD_append_left L1 L2 i hi, Nat.zero_add]

end Pyunicorn.Cross
