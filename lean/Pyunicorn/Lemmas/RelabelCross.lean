import Pyunicorn.Lemmas.Relabel
import Pyunicorn.Lemmas.RelabelNet
/-! C04 for the C11 model `Pyunicorn.Cross` (InteractingNetworks): cross / internal measures of
the renumbered network, called with the renumbered node lists, return what they returned before.

Every function of the model reads the matrices only at the nodes of its list arguments, so it is
*natural* in the numbering: `F (M ∘ g) (L₁, L₂) = F M (g L₁, g L₂)` for every injective `g`
(injectivity is needed only where the code adds the identity matrix, `A⁺ = A + 1`).  With
`g = idx` and the renumbered lists `inv L` this is the property. -/
namespace Pyunicorn.Relabel
open Pyunicorn.Cross

variable {g : Nat → Nat}

theorem block_nat {α : Type} (M : Nat → Nat → α) (L1 L2 : List Nat) :
    block (mat M g) L1 L2 = block M (L1.map g) (L2.map g) := by
  simp [block, mat, List.map_map, Function.comp_def]

theorem blockN_nat (A : Adj) (L1 L2 : List Nat) :
    blockN (mat A g) L1 L2 = blockN A (L1.map g) (L2.map g) := by
  simp [blockN, block, mat, List.map_map, Function.comp_def]

theorem crossOutDegree_nat (A : Adj) (L1 L2 : List Nat) :
    crossOutDegree (mat A g) L1 L2 = crossOutDegree A (L1.map g) (L2.map g) := by
  simp only [crossOutDegree, blockN_nat]

theorem crossInDegree_nat (A : Adj) (L1 L2 : List Nat) :
    crossInDegree (mat A g) L1 L2 = crossInDegree A (L1.map g) (L2.map g) := by
  simp only [crossInDegree, blockN_nat, List.length_map]

theorem crossDegree_nat (directed : Bool) (A : Adj) (L1 L2 : List Nat) :
    crossDegree directed (mat A g) L1 L2 = crossDegree directed A (L1.map g) (L2.map g) := by
  simp only [crossDegree, crossOutDegree_nat, crossInDegree_nat]

theorem crossStrength_nat (directed : Bool) (W : Nat → Nat → Rat) (L1 L2 : List Nat) :
    crossStrength directed (mat W g) L1 L2 = crossStrength directed W (L1.map g) (L2.map g) := by
  simp only [crossStrength, crossInStrength, crossOutStrength, block_nat, List.length_map]

theorem numberCrossLinks_nat (A : Adj) (L1 L2 : List Nat) :
    numberCrossLinks (mat A g) L1 L2 = numberCrossLinks A (L1.map g) (L2.map g) := by
  simp only [numberCrossLinks, blockN_nat]

theorem crossLinkDensity_nat (A : Adj) (L1 L2 : List Nat) :
    crossLinkDensity (mat A g) L1 L2 = crossLinkDensity A (L1.map g) (L2.map g) := by
  simp only [crossLinkDensity, numberCrossLinks_nat, List.length_map]

theorem internalAdjacency_nat (A : Adj) (L : List Nat) :
    internalAdjacency (mat A g) L = internalAdjacency A (L.map g) := by
  simp only [internalAdjacency, blockN_nat]

theorem numberInternalLinks_nat (directed : Bool) (A : Adj) (L : List Nat) :
    numberInternalLinks directed (mat A g) L = numberInternalLinks directed A (L.map g) := by
  simp only [numberInternalLinks, internalAdjacency_nat]

theorem internalLinkDensity_nat (directed : Bool) (A : Adj) (L : List Nat) :
    internalLinkDensity directed (mat A g) L = internalLinkDensity directed A (L.map g) := by
  simp only [internalLinkDensity, numberInternalLinks_nat, List.length_map]

theorem crossDegreeDensity_nat (directed : Bool) (A : Adj) (L1 L2 : List Nat) :
    crossDegreeDensity directed (mat A g) L1 L2
      = crossDegreeDensity directed A (L1.map g) (L2.map g) := by
  simp only [crossDegreeDensity, crossDegree_nat, List.length_map]

theorem totalCrossDegree_nat (directed : Bool) (A : Adj) (L1 L2 : List Nat) :
    totalCrossDegree directed (mat A g) L1 L2
      = totalCrossDegree directed A (L1.map g) (L2.map g) := by
  simp only [totalCrossDegree, crossDegree_nat]

/-! ### the compiled kernels: loops over the node lists in the caller's order -/

theorem ctInner_nat (A : Adj) (n1 n2 : Nat) (pre : List Nat) (acc : Nat × Nat) :
    ctInner (mat A g) n1 n2 pre acc = ctInner A (g n1) (g n2) (pre.map g) acc := by
  simp only [ctInner, List.foldl_map]; rfl

theorem ctMid_nat (A : Adj) (n1 : Nat) (pre L : List Nat) (acc : Nat × Nat) :
    ctMid (mat A g) n1 pre L acc = ctMid A (g n1) (pre.map g) (L.map g) acc := by
  induction L generalizing pre acc with
  | nil => rfl
  | cons x t ih =>
    simp only [ctMid, List.map_cons]
    rw [ih, ctInner_nat, List.map_append]
    rfl

theorem ctCounts_nat (A : Adj) (L1 L2 : List Nat) :
    ctCounts (mat A g) L1 L2 = ctCounts A (L1.map g) (L2.map g) := by
  simp only [ctCounts, List.foldl_map]
  congr 1
  funext acc n1
  simpa using ctMid_nat A n1 [] L2 acc

theorem crossTransitivity_nat (A : Adj) (L1 L2 : List Nat) :
    crossTransitivity (mat A g) L1 L2 = crossTransitivity A (L1.map g) (L2.map g) := by
  simp only [crossTransitivity, ctCounts_nat]

theorem clcInner_nat (A : Adj) (n1 n2 : Nat) (pre : List Nat) (c : Nat) :
    clcInner (mat A g) n1 n2 pre c = clcInner A (g n1) (g n2) (pre.map g) c := by
  simp only [clcInner, List.foldl_map]; rfl

theorem clcMid_nat (A : Adj) (n1 : Nat) (pre L : List Nat) (c : Nat) :
    clcMid (mat A g) n1 pre L c = clcMid A (g n1) (pre.map g) (L.map g) c := by
  induction L generalizing pre c with
  | nil => rfl
  | cons x t ih =>
    simp only [clcMid, List.map_cons]
    rw [ih, clcInner_nat, List.map_append]
    rfl

theorem clcKernel_nat (A : Adj) (norm : List Rat) (L1 L2 : List Nat) :
    clcKernel (mat A g) norm L1 L2 = clcKernel A norm (L1.map g) (L2.map g) := by
  unfold clcKernel
  induction L1 generalizing norm with
  | nil => rfl
  | cons x t ih =>
    cases norm with
    | nil => rfl
    | cons y u =>
      simp only [List.zipWith_cons_cons, List.map_cons]
      rw [ih u]
      have := clcMid_nat (g := g) A x [] L2 0
      simp only [List.map_nil] at this
      rw [this]

theorem crossLocalClustering_nat (directed : Bool) (A : Adj) (L1 L2 : List Nat) :
    crossLocalClustering directed (mat A g) L1 L2
      = crossLocalClustering directed A (L1.map g) (L2.map g) := by
  simp only [crossLocalClustering, crossDegree_nat, clcKernel_nat]

theorem crossGlobalClustering_nat (directed : Bool) (A : Adj) (L1 L2 : List Nat) :
    crossGlobalClustering directed (mat A g) L1 L2
      = crossGlobalClustering directed A (L1.map g) (L2.map g) := by
  simp only [crossGlobalClustering, crossLocalClustering_nat]

/-! ### path-length based measures (the distance matrix is carried with the nodes) -/

theorem crossAPL_nat (D : Dist) (L1 L2 : List Nat) :
    crossAPL (mat D g) L1 L2 = crossAPL D (L1.map g) (L2.map g) := by
  simp only [crossAPL, block_nat, List.length_map]

theorem internalAPL_nat (D : Dist) (L : List Nat) :
    internalAPL (mat D g) L = internalAPL D (L.map g) := by
  simp only [internalAPL, block_nat, List.length_map]

theorem crossCloseness_nat (N : Nat) (D : Dist) (L1 L2 : List Nat) :
    crossCloseness N (mat D g) L1 L2 = crossCloseness N D (L1.map g) (L2.map g) := by
  simp only [crossCloseness, block_nat, List.length_map]

theorem internalCloseness_nat (D : Dist) (L : List Nat) :
    internalCloseness (mat D g) L = internalCloseness D (L.map g) := by
  simp only [internalCloseness, block_nat, List.length_map]

theorem averageCrossCloseness_nat (N : Nat) (D : Dist) (L1 L2 : List Nat) :
    averageCrossCloseness N (mat D g) L1 L2
      = averageCrossCloseness N D (L1.map g) (L2.map g) := by
  simp only [averageCrossCloseness, crossCloseness_nat]

theorem localEfficiency_nat (D : Dist) (L1 L2 : List Nat) :
    localEfficiency (mat D g) L1 L2 = localEfficiency D (L1.map g) (L2.map g) := by
  simp only [localEfficiency, block_nat, List.length_map]

theorem globalEfficiency_x_nat (D : Dist) (L1 L2 : List Nat) :
    Cross.globalEfficiency (mat D g) L1 L2 = Cross.globalEfficiency D (L1.map g) (L2.map g) := by
  simp only [Cross.globalEfficiency, localEfficiency_nat, List.length_map]

/-! ### n.s.i. measures (`A⁺ = A + 1` compares node numbers: `g` injective) -/

theorem aplus_nat (hg : Function.Injective g) (A : Adj) :
    Cross.aplus (mat A g) = mat (Cross.aplus A) g := by
  funext a b
  have : (a == b) = (g a == g b) := by
    rw [Bool.eq_iff_iff]; simp only [beq_iff_eq]; exact ⟨fun e => by rw [e], fun e => hg e⟩
  simp [Cross.aplus, mat, this]

theorem nsiCrossDegree_nat (hg : Function.Injective g) (A : Adj) (w : Nat → Rat)
    (L1 L2 : List Nat) :
    nsiCrossDegree (mat A g) (vec w g) L1 L2 = nsiCrossDegree A w (L1.map g) (L2.map g) := by
  simp only [nsiCrossDegree, aplus_nat hg, List.map_map]
  rfl

theorem wsum_nat (w : Nat → Rat) (L : List Nat) : wsum (vec w g) L = wsum w (L.map g) := by
  unfold wsum; rw [List.map_map]; rfl

theorem map_vec (w : Nat → Rat) (L : List Nat) : L.map (vec w g) = (L.map g).map w := by
  rw [List.map_map]; rfl

theorem nsiCrossMeanDegree_nat (hg : Function.Injective g) (A : Adj) (w : Nat → Rat)
    (L1 L2 : List Nat) :
    nsiCrossMeanDegree (mat A g) (vec w g) L1 L2
      = nsiCrossMeanDegree A w (L1.map g) (L2.map g) := by
  simp only [nsiCrossMeanDegree, nsiCrossDegree_nat hg, wsum_nat, map_vec]

theorem nsiCrossEdgeDensity_nat (hg : Function.Injective g) (A : Adj) (w : Nat → Rat)
    (L1 L2 : List Nat) :
    nsiCrossEdgeDensity (mat A g) (vec w g) L1 L2
      = nsiCrossEdgeDensity A w (L1.map g) (L2.map g) := by
  simp only [nsiCrossEdgeDensity, nsiCrossMeanDegree_nat hg, wsum_nat]

theorem nsiClcInner_nat (Ap : Adj) (w : Nat → Rat) (v p : Nat) (rest : List Nat) (s : Rat) :
    nsiClcInner (mat Ap g) (vec w g) v p rest s
      = nsiClcInner Ap w (g v) (g p) (rest.map g) s := by
  simp only [nsiClcInner, List.foldl_map]; rfl

theorem nsiClcMid_nat (Ap : Adj) (w : Nat → Rat) (v : Nat) (L : List Nat) (s : Rat) :
    nsiClcMid (mat Ap g) (vec w g) v L s = nsiClcMid Ap w (g v) (L.map g) s := by
  induction L generalizing s with
  | nil => rfl
  | cons p t ih =>
    simp only [nsiClcMid, List.map_cons]
    rw [ih, nsiClcInner_nat]
    rfl

theorem nsiClcKernel_nat (Ap : Adj) (w : Nat → Rat) (L1 L2 : List Nat) :
    nsiClcKernel (mat Ap g) (vec w g) L1 L2 = nsiClcKernel Ap w (L1.map g) (L2.map g) := by
  simp only [nsiClcKernel, List.map_map, nsiClcMid_nat]
  rfl

theorem nsiCrossLocalClustering_nat (hg : Function.Injective g) (A : Adj) (w : Nat → Rat)
    (L1 L2 : List Nat) :
    nsiCrossLocalClustering (mat A g) (vec w g) L1 L2
      = nsiCrossLocalClustering A w (L1.map g) (L2.map g) := by
  simp only [nsiCrossLocalClustering, aplus_nat hg, nsiClcKernel_nat, nsiCrossDegree_nat hg]

theorem nsiCrossGlobalClustering_nat (hg : Function.Injective g) (A : Adj) (w : Nat → Rat)
    (L1 L2 : List Nat) :
    nsiCrossGlobalClustering (mat A g) (vec w g) L1 L2
      = nsiCrossGlobalClustering A w (L1.map g) (L2.map g) := by
  simp only [nsiCrossGlobalClustering, nsiCrossLocalClustering_nat hg, wsum_nat, map_vec]

theorem nsiCtInner_nat (Ap : Adj) (w : Nat → Rat) (v p : Nat) (rest : List Nat) (t : Rat × Rat) :
    nsiCtInner (mat Ap g) (vec w g) v p rest t
      = nsiCtInner Ap w (g v) (g p) (rest.map g) t := by
  simp only [nsiCtInner, List.foldl_map]; rfl

theorem nsiCtMid_nat (Ap : Adj) (w : Nat → Rat) (v : Nat) (L : List Nat) (t : Rat × Rat) :
    nsiCtMid (mat Ap g) (vec w g) v L t = nsiCtMid Ap w (g v) (L.map g) t := by
  induction L generalizing t with
  | nil => rfl
  | cons p r ih =>
    simp only [nsiCtMid, List.map_cons]
    rw [ih, nsiCtInner_nat]
    rfl

theorem nsiCtSums_nat (Ap : Adj) (w : Nat → Rat) (L1 L2 : List Nat) :
    nsiCtSums (mat Ap g) (vec w g) L1 L2 = nsiCtSums Ap w (L1.map g) (L2.map g) := by
  simp only [nsiCtSums, List.foldl_map, nsiCtMid_nat]

theorem nsiCrossTransitivity_nat (hg : Function.Injective g) (A : Adj) (w : Nat → Rat)
    (L1 L2 : List Nat) :
    nsiCrossTransitivity (mat A g) (vec w g) L1 L2
      = nsiCrossTransitivity A w (L1.map g) (L2.map g) := by
  simp only [nsiCrossTransitivity, aplus_nat hg, nsiCtSums_nat]

theorem nsiDist_nat (hg : Function.Injective g) (N : Nat) (D : Dist) (a b : Nat) :
    nsiDist N (mat D g) a b = nsiDist N D (g a) (g b) := by
  have : (a = b) = (g a = g b) := propext ⟨fun e => by rw [e], fun e => hg e⟩
  simp only [nsiDist, mat, this]

theorem nsiCrossCloseness_nat (hg : Function.Injective g) (N : Nat) (D : Dist) (w : Nat → Rat)
    (L1 L2 : List Nat) :
    nsiCrossCloseness N (mat D g) (vec w g) L1 L2
      = nsiCrossCloseness N D w (L1.map g) (L2.map g) := by
  simp only [nsiCrossCloseness, nsiDist_nat hg, wsum_nat, List.map_map]
  rfl

theorem nsiCrossAPL_nat (hg : Function.Injective g) (N : Nat) (D : Dist) (w : Nat → Rat)
    (L1 L2 : List Nat) :
    nsiCrossAPL N (mat D g) (vec w g) L1 L2 = nsiCrossAPL N D w (L1.map g) (L2.map g) := by
  simp only [nsiCrossAPL, nsiCrossAPLParts, nsiDist_nat hg, wsum_nat, List.map_map]
  rfl

/-! ### from naturality to renumbering: the node lists are renumbered with the inverse -/

theorem nodes_map_idx {n : Nat} {idx : Nat → Nat} (h : IsPerm n idx) (L : List Nat)
    (hL : ∀ k ∈ L, k < n) : (nodes n idx L).map idx = L := by
  unfold nodes
  rw [List.map_map]
  conv_rhs => rw [← List.map_id L]
  exact List.map_congr_left fun k hk => (h.idx_inv (hL k hk)).1

theorem nodes_lt {n : Nat} {idx : Nat → Nat} (h : IsPerm n idx) (L : List Nat)
    (hL : ∀ k ∈ L, k < n) : ∀ k ∈ nodes n idx L, k < n := by
  intro k hk
  obtain ⟨k', hk', rfl⟩ := List.mem_map.mp hk
  exact (h.idx_inv (hL k' hk')).2

/-- `internal_global_clustering(L)`: the whole-network clustering (C03 model) of the group -/
theorem internalGlobalClustering_relabel {n : Nat} {idx : Nat → Nat} (h : IsPerm n idx) (A : Adj)
    (L : List Nat) (hL : ∀ k ∈ L, k < n) :
    internalGlobalClustering n (mat A idx) (nodes n idx L) = internalGlobalClustering n A L := by
  unfold internalGlobalClustering
  congr 1
  conv_rhs => rw [← nodes_map_idx h L hL]
  rw [List.map_map]
  apply List.map_congr_left
  intro k _
  simp only [Function.comp, Net.localClustering, tCycle_relabel h, TOut_relabel h]

end Pyunicorn.Relabel
