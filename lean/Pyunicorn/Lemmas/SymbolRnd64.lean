import Mathlib.Tactic.Linarith
import Pyunicorn.Lemmas.Binary64
import Pyunicorn.Lemmas.Access
import Pyunicorn.Lemmas.Rnd64Nearest
/-!
C20, round 5g: the bin number of `_mutual_information` with the *executable* IEEE-754 binary64
rounding `Pyunicorn.Rnd64.rnd64` (round to nearest, ties to even; `Model/Rnd64.lean`, a copy of C17's
`Random.rnd64`) after each of the three floating-point operations.

`Lemmas/Rnd64Nearest.lean` proves `rnd64_nearest : B64.Nearest rnd64` and `rnd64_isB64` for every
rational argument (C17's round-5 proofs).  From `Nearest` alone:

* `nearest_fix` — a nearest rounding returns every double unchanged (so it is idempotent as soon as
  its values are doubles);
* `Rnd64.nearest_nonneg` — it maps non-negative numbers to
  non-negative numbers;

hence the monotonicity / `rnd 0 = 0` / idempotence hypotheses of `symbolRnd_in_range_partial` /
`symbolRnd_in_range_b64` are not needed: `symbolRnd_in_range_nearest` has `Nearest` and `IsB64`
only, and `symbolRnd_in_range_rnd64` has no hypothesis about the rounding at all.
-/
namespace Pyunicorn.B64

/-- a nearest rounding leaves every double unchanged -/
theorem nearest_fix (rnd : Rat → Rat) (hn : Nearest rnd) (y : Rat) (hy : IsB64 y) : rnd y = y := by
  have h := hn y y hy
  rw [sub_self, abs_zero] at h
  have h0 : |rnd y - y| = 0 := le_antisymm h (abs_nonneg _)
  have := abs_eq_zero.mp h0
  linarith

/-- hence a nearest rounding to doubles is idempotent -/
theorem nearest_idem (rnd : Rat → Rat) (hn : Nearest rnd) (hrep : ∀ x, IsB64 (rnd x)) (x : Rat) :
    rnd (rnd x) = rnd x := nearest_fix rnd hn _ (hrep x)

/-- and fixes 0 -/
theorem nearest_zero (rnd : Rat → Rat) (hn : Nearest rnd) : rnd 0 = 0 :=
  nearest_fix rnd hn 0 Pyunicorn.Rnd64.isB64_zero

end Pyunicorn.B64

namespace Pyunicorn.Access
open Pyunicorn.B64

/-- the symbol with a rounding after each of the three floating-point operations lies in
`[0, n_bins)` for **every** round-to-nearest rounding to doubles (any tie rule) — no monotonicity,
`rnd 0 = 0` or idempotence hypothesis: all three follow from `Nearest` / are not needed -/
theorem symbolRnd_in_range_nearest (rnd : Rat → Rat) (hnear : Nearest rnd)
    (hrep : ∀ x, IsB64 (rnd x)) (s m v : Rat) (nb : Int)
    (hs : 0 ≤ s) (hv : m ≤ v) (hnb : 1 ≤ nb) (hnb31 : nb < 2 ^ 31) :
    0 ≤ symbolRnd rnd s m nb v ∧ symbolRnd rnd s m nb v < nb := by
  have hnn := Pyunicorn.Rnd64.nearest_nonneg rnd hnear
  have hnbq : (0 : Rat) ≤ (nb : Rat) := by exact_mod_cast (by omega : (0:Int) ≤ nb)
  have h1 : 0 ≤ rnd (v - m) := hnn _ (by linarith)
  have h2 : 0 ≤ rnd (s * rnd (v - m)) := hnn _ (mul_nonneg hs h1)
  unfold symbolRnd
  simp only
  split
  · rename_i hr
    have h3 : 0 ≤ rnd (rnd (s * rnd (v - m)) * (nb : Rat)) := hnn _ (mul_nonneg h2 hnbq)
    exact truncInt_bounds h3 (b64_mul_lt rnd hnear _ (hrep _) h2 hr nb hnb hnb31)
  · omega

/-- **the executable binary64 rounding**: with `Rnd64.rnd64` (round to nearest, ties to even, proved
a nearest rounding onto doubles for every rational in `Lemmas/Rnd64Nearest.lean`) after each operation, the symbol lies in `[0, n_bins)` -/
theorem symbolRnd_in_range_rnd64 (s m v : Rat) (nb : Int)
    (hs : 0 ≤ s) (hv : m ≤ v) (hnb : 1 ≤ nb) (hnb31 : nb < 2 ^ 31) :
    0 ≤ symbolRnd Pyunicorn.Rnd64.rnd64 s m nb v ∧ symbolRnd Pyunicorn.Rnd64.rnd64 s m nb v < nb :=
  symbolRnd_in_range_nearest _ Pyunicorn.Rnd64.rnd64_nearest Pyunicorn.Rnd64.rnd64_isB64
    s m v nb hs hv hnb hnb31

/-- the discharged hypothesis `hlt` of `symbolRnd_in_range_partial`, for the executable rounding -/
theorem rnd64_mul_lt (r : Rat) (h0 : 0 ≤ r) (h1 : r < 1) (hfix : Pyunicorn.Rnd64.rnd64 r = r)
    (nb : Int) (hnb : 1 ≤ nb) (hnb31 : nb < 2 ^ 31) :
    Pyunicorn.Rnd64.rnd64 (r * (nb : Rat)) < (nb : Rat) :=
  b64_mul_lt _ Pyunicorn.Rnd64.rnd64_nearest r (hfix ▸ Pyunicorn.Rnd64.rnd64_isB64 r) h0 h1 nb hnb hnb31

end Pyunicorn.Access
