import Pyunicorn.Lemmas.VisibilityBetwKernel
import Pyunicorn.Lemmas.VisibilityDist
import Pyunicorn.Lemmas.NsiBetwKernel
/-!
Round 5c: **the kernel model of the three betweenness-type measures equals the walk-count
definition `betwSpec`** (in which the reversal theorems of round 3 are stated), so the reversal
theorems hold for the kernel models `retBetw` / `advBetw` / `transBetw` themselves.

Route: property C02's round-5b bridge `Nsi.kernel_eq_nsiBetw_net` (kernel model of
`_nsi_betweenness` = `nsiBetw`: weighted walk counts `wcount`, product form
`n(t→v)·n(v→s) / n(t→s)` iff `d_tv + d_vs = d_ts`; it contains `wcount_last`, `sigLev_eq`,
`sigThruLev_eq` = the concatenation lemma, `def_eq_nsiBetw`) is imported and specialised to unit
weights.  What is proved here: with unit weights `wcount = wf` (the walk counts of `betwSpec`),
`Net.dist = pathLen`, `bcTerm = pairDep`, and the double sum over masks is the double sum over
the index lists `np.arange(i)` / `np.arange(i+1, N)`.
-/
namespace Pyunicorn.Visibility
open Pyunicorn Pyunicorn.Net Pyunicorn.NetBetw

/-- the unit-weight network of an adjacency matrix, with the BFS distances of C03's model -/
def unitGr (N : Nat) (A : List (List Bool)) : Nsi.Gr :=
  { n := N, adj := adjFn A, w := fun _ => 1, la := fun _ _ _ => 0, grp := fun _ _ => false,
    dist := Net.dist N (adjFn A) }

theorem cast_sum_map (l : List Nat) (f : Nat → Nat) :
    (((l.map f).sum : Nat) : Rat) = (l.map fun z => ((f z : Nat) : Rat)).sum := by
  induction l with
  | nil => simp
  | cons a l ih => simp [ih, Nat.cast_add]

/-- unit weights: C02's weighted walk count is the walk count of `betwSpec` -/
theorem wcount_unit (N : Nat) (A : List (List Bool)) : ∀ k a b, a < N → b < N →
    Nsi.wcount (unitGr N A) k a b = ((wf N A k a b : Nat) : Rat)
  | 0, a, b, _, _ => by
    simp only [Nsi.wcount, wf]
    by_cases h : a = b
    · subst h; simp
    · have h' : ¬ b = a := fun e => h e.symm
      simp [h, h']
  | k + 1, a, b, ha, hb => by
    rw [wf_succ_left N A k a b ha hb, cast_sum_map]
    show ((List.range N).map fun c => (1 : Rat) *
      (if adjFn A a c = true then Nsi.wcount (unitGr N A) k c b else 0)).sum = _
    congr 1
    apply List.map_congr_left
    intro c hc
    rw [List.mem_range] at hc
    rw [wcount_unit N A k c b hc hb]
    by_cases h : Mat.at A a c = true <;> simp [adjFn, h]

theorem sigma_eq_wf (N : Nat) (A : List (List Bool)) (a b d : Nat) (hb : b < N)
    (h : pathLen N A a b = some d) : sigma N A a b = wf N A d a b := by
  simp only [sigma, h]
  exact walks_eq_wf N A a d b hb

/-- unit weights: C02's pair term is the pair dependency of `betwSpec` -/
theorem bcTerm_unit (N : Nat) (A : List (List Bool)) (v t s : Nat) (hv : v < N) (ht : t < N)
    (hs : s < N) : Nsi.bcTerm (unitGr N A) v t s = pairDep N A t s v := by
  have e1 := pathLen_eq_dist N A t v ht hv
  have e2 := pathLen_eq_dist N A v s hv hs
  have e3 := pathLen_eq_dist N A t s ht hs
  unfold Nsi.bcTerm pairDep
  show (match Net.dist N (adjFn A) t v, Net.dist N (adjFn A) v s, Net.dist N (adjFn A) t s with
    | some d1, some d2, some d =>
      if d1 + d2 = d then Nsi.wcount (unitGr N A) d1 t v * Nsi.wcount (unitGr N A) d2 v s /
        ((1 : Rat) * Nsi.wcount (unitGr N A) d t s) else 0
    | _, _, _ => 0) = _
  rw [← e1, ← e2, ← e3]
  cases h1 : pathLen N A t v with
  | none => cases h2 : pathLen N A v s <;> cases h3 : pathLen N A t s <;> rfl
  | some d1 =>
    cases h2 : pathLen N A v s with
    | none => cases h3 : pathLen N A t s <;> rfl
    | some d2 =>
      cases h3 : pathLen N A t s with
      | none => rfl
      | some d =>
        simp only []
        rw [wcount_unit N A d1 t v ht hv, wcount_unit N A d2 v s hv hs,
          wcount_unit N A d t s ht hs, sigma_eq_wf N A t v d1 hv h1,
          sigma_eq_wf N A v s d2 hs h2, sigma_eq_wf N A t s d hs h3, one_mul]

theorem sum_filter_ite (l : List Nat) (p : Nat → Bool) (f : Nat → Rat) :
    ((l.filter p).map f).sum = (l.map fun x => if p x = true then f x else 0).sum := by
  induction l with
  | nil => simp
  | cons a l ih =>
    by_cases h : p a = true
    · simp [h, ih]
    · simp [h, ih]

/-- **C02's `nsiBetw` with unit weights is `betwSpec`** over the index lists selected by the
masks (targets `T` outer, sources `S` inner) -/
theorem nsiBetw_unit_eq_betwSpec (N : Nat) (A : List (List Bool)) (S T : Nat → Bool) (v : Nat)
    (hv : v < N) :
    Nsi.nsiBetw (unitGr N A) T S v
      = betwSpec N A ((List.range N).filter S) ((List.range N).filter T) v := by
  unfold betwSpec Nsi.nsiBetw
  rw [sum_filter_ite]
  show ((List.range N).map fun t => (1 : Rat) * ((List.range N).map fun s => (1 : Rat) *
    (if t ≠ v ∧ s ≠ v ∧ T t = true ∧ S s = true then Nsi.bcTerm (unitGr N A) v t s else 0)).sum).sum
      = _
  congr 1
  apply List.map_congr_left
  intro t ht
  rw [List.mem_range] at ht
  rw [one_mul, sum_filter_ite]
  by_cases hT : T t = true
  · by_cases htv : t = v
    · simp [htv]
    · simp only [hT, htv, if_true, if_false]
      congr 1
      apply List.map_congr_left
      intro s hs
      rw [List.mem_range] at hs
      rw [bcTerm_unit N A v t s hv ht hs]
      by_cases hS : S s = true <;> by_cases hsv : s = v <;> simp [hS, hsv, htv]
  · simp [hT]

theorem srcMask_filter (N : Nat) (S : Nat → Bool) :
    srcMask N ((List.range N).filter S) = (List.range N).map S := by
  unfold srcMask
  apply List.map_congr_left
  intro v hv
  by_cases h : S v = true
  · simp [List.mem_filter, List.mem_range.mp hv, h]
  · simp [List.mem_filter, h]

/-- **kernel model = walk-count definition**, sources and targets given by masks: for every
symmetric matrix `self.nsi_betweenness(sources, targets)[i]` (C03's line-by-line model of
`_nsi_betweenness`, unit weights) is `betwSpec` -/
theorem nsiBetwAt_eq_betwSpec (N : Nat) (A : List (List Bool))
    (hsym : ∀ x y, adjFn A x y = adjFn A y x) (S T : Nat → Bool) (i : Nat) (hi : i < N) :
    nsiBetwAt N A ((List.range N).filter S) ((List.range N).filter T) i
      = betwSpec N A ((List.range N).filter S) ((List.range N).filter T) i := by
  unfold nsiBetwAt
  rw [srcMask_filter]
  have h := Nsi.kernel_eq_nsiBetw_net (unitGr N A) hsym (fun _ _ => by show (0 : Rat) < 1; exact zero_lt_one) S T i hi
  rw [← nsiBetw_unit_eq_betwSpec N A S T i hi]
  exact h

/-! ### `np.arange(i)` and `np.arange(i+1, N)` as masks -/

theorem pastIdx_filter (N i : Nat) (hi : i ≤ N) :
    pastIdx i = (List.range N).filter fun t => decide (t < i) := by
  unfold pastIdx
  induction N with
  | zero =>
    have : i = 0 := by omega
    subst this; rfl
  | succ n ih =>
    rw [List.range_succ, List.filter_append]
    by_cases h : i ≤ n
    · rw [← ih h]
      have : ¬ n < i := by omega
      simp [this]
    · have e : i = n + 1 := by omega
      subst e
      have h1 : (List.range n).filter (fun t => decide (t < n + 1)) = List.range n := by
        rw [List.filter_eq_self]
        intro a ha
        have := List.mem_range.mp ha
        simp; omega
      rw [h1, List.range_succ]
      simp

theorem futureIdx_filter (N i : Nat) :
    futureIdx N i = (List.range N).filter fun t => decide (i < t) := by
  unfold futureIdx
  induction N with
  | zero => simp
  | succ n ih =>
    rw [List.range_succ, List.filter_append, ← ih]
    by_cases h : i < n
    · have e : n + 1 - (i + 1) = (n - (i + 1)) + 1 := by omega
      rw [e, List.range'_concat]
      have e2 : i + 1 + (n - (i + 1)) = n := by omega
      simp [h, e2]
    · have e : n + 1 - (i + 1) = 0 := by omega
      have e' : n - (i + 1) = 0 := by omega
      simp [h, e, e']

theorem retBetw_eq_spec (N : Nat) (A : List (List Bool))
    (hsym : ∀ x y, adjFn A x y = adjFn A y x) (i : Nat) (hi : i < N) :
    retBetw N A i = retBetwSpec N A i := by
  unfold retBetw retBetwSpec
  rw [pastIdx_filter N i (by omega)]
  exact nsiBetwAt_eq_betwSpec N A hsym _ _ i hi

theorem advBetw_eq_spec (N : Nat) (A : List (List Bool))
    (hsym : ∀ x y, adjFn A x y = adjFn A y x) (i : Nat) (hi : i < N) :
    advBetw N A i = advBetwSpec N A i := by
  unfold advBetw advBetwSpec
  rw [futureIdx_filter N i]
  exact nsiBetwAt_eq_betwSpec N A hsym _ _ i hi

theorem transBetw_eq_spec (N : Nat) (A : List (List Bool))
    (hsym : ∀ x y, adjFn A x y = adjFn A y x) (i : Nat) (hi : i < N) :
    transBetw N A i = transBetwSpec N A i := by
  unfold transBetw transBetwSpec
  rw [pastIdx_filter N i (by omega), futureIdx_filter N i]
  exact nsiBetwAt_eq_betwSpec N A hsym _ _ i hi

end Pyunicorn.Visibility
