import Pyunicorn.Model.CircuitK
import Mathlib.Algebra.Field.Basic
import Mathlib.Algebra.Order.Field.Rat
import Mathlib.Tactic.Ring
import Mathlib.Tactic.FieldSimp
import Mathlib.Tactic.Positivity
import Mathlib.Tactic.Linarith
/-! C18, round 3: the Gaussian rationals `GRat` of `Model/CircuitK.lean` — the type at which the
driver executes the field model — form a **field**, with exactly the operations the executable code
uses (`instField` is built from the core instances `Add`, `Mul`, `Inv`, `Div`, `NatCast` of the
model file).  Hence every `impedance_*` theorem (stated for any field) applies to the very
functions the driver runs. -/
namespace Pyunicorn.CircuitK.GRat

@[ext] theorem ext {a b : GRat} (h1 : a.re = b.re) (h2 : a.im = b.im) : a = b := by
  cases a; cases b; simp_all

@[simp] theorem zero_re : (0 : GRat).re = 0 := rfl
@[simp] theorem zero_im : (0 : GRat).im = 0 := rfl
@[simp] theorem one_re : (1 : GRat).re = 1 := rfl
@[simp] theorem one_im : (1 : GRat).im = 0 := rfl
@[simp] theorem add_re (a b : GRat) : (a + b).re = a.re + b.re := rfl
@[simp] theorem add_im (a b : GRat) : (a + b).im = a.im + b.im := rfl
@[simp] theorem sub_re (a b : GRat) : (a - b).re = a.re - b.re := rfl
@[simp] theorem sub_im (a b : GRat) : (a - b).im = a.im - b.im := rfl
@[simp] theorem neg_re (a : GRat) : (-a).re = -a.re := rfl
@[simp] theorem neg_im (a : GRat) : (-a).im = -a.im := rfl
@[simp] theorem mul_re (a b : GRat) : (a * b).re = a.re * b.re - a.im * b.im := rfl
@[simp] theorem mul_im (a b : GRat) : (a * b).im = a.re * b.im + a.im * b.re := rfl
@[simp] theorem inv_re (a : GRat) : (a⁻¹).re = a.re / (a.re * a.re + a.im * a.im) := rfl
@[simp] theorem inv_im (a : GRat) : (a⁻¹).im = -a.im / (a.re * a.re + a.im * a.im) := rfl
@[simp] theorem natCast_re (n : Nat) : ((n : GRat)).re = (n : Rat) := rfl
@[simp] theorem natCast_im (n : Nat) : ((n : GRat)).im = 0 := rfl
theorem div_def (a b : GRat) : a / b = a * b⁻¹ := rfl

theorem normSq_pos {a : GRat} (h : a ≠ 0) : 0 < a.re * a.re + a.im * a.im := by
  by_contra hc
  have h1 : a.re * a.re + a.im * a.im = 0 := by nlinarith [mul_self_nonneg a.re, mul_self_nonneg a.im]
  have hr : a.re = 0 := by nlinarith [mul_self_nonneg a.re, mul_self_nonneg a.im]
  have hi : a.im = 0 := by nlinarith [mul_self_nonneg a.re, mul_self_nonneg a.im]
  exact h (ext hr hi)

instance instCommRing : CommRing GRat where
  add := (· + ·)
  zero := 0
  neg := Neg.neg
  sub := Sub.sub
  mul := (· * ·)
  one := 1
  natCast := fun n => ((n : Nat) : GRat)
  intCast := fun z => ⟨(z : Rat), 0⟩
  nsmul := nsmulRec
  zsmul := zsmulRec
  npow := npowRec
  add_assoc := by intros; ext <;> simp <;> ring
  zero_add := by intros; ext <;> simp
  add_zero := by intros; ext <;> simp
  add_comm := by intros; ext <;> simp <;> ring
  neg_add_cancel := by intros; ext <;> simp
  sub_eq_add_neg := by intros; ext <;> simp <;> ring
  mul_assoc := by intros; ext <;> simp <;> ring
  one_mul := by intros; ext <;> simp
  mul_one := by intros; ext <;> simp
  zero_mul := by intros; ext <;> simp
  mul_zero := by intros; ext <;> simp
  left_distrib := by intros; ext <;> simp <;> ring
  right_distrib := by intros; ext <;> simp <;> ring
  mul_comm := by intros; ext <;> simp <;> ring
  natCast_zero := by ext <;> simp
  natCast_succ := by intro n; ext <;> simp
  intCast_ofNat := by intro n; ext <;> simp
  intCast_negSucc := by intro n; ext <;> simp

instance instField : Field GRat where
  inv := Inv.inv
  div := (· / ·)
  div_eq_mul_inv := fun _ _ => rfl
  exists_pair_ne := ⟨0, 1, fun h => by have := congrArg GRat.re h; simp at this⟩
  mul_inv_cancel := by
    intro a ha
    have hne : a.re * a.re + a.im * a.im ≠ 0 := ne_of_gt (normSq_pos ha)
    ext
    · rw [mul_re, inv_re, inv_im, one_re]
      rw [div_eq_mul_inv, div_eq_mul_inv]
      have : a.re * (a.re * (a.re * a.re + a.im * a.im)⁻¹) - a.im * (-a.im * (a.re * a.re + a.im * a.im)⁻¹)
          = (a.re * a.re + a.im * a.im) * (a.re * a.re + a.im * a.im)⁻¹ := by ring
      rw [this, mul_inv_cancel₀ hne]
    · rw [mul_im, inv_re, inv_im, one_im]
      ring
  inv_zero := by ext <;> simp
  nnqsmul := _
  nnqsmul_def := fun _ _ => rfl
  qsmul := _
  qsmul_def := fun _ _ => rfl

/-- the field structure uses the executable operations of the model file -/
example (a b : GRat) : a / b = a * b⁻¹ := rfl
example : ((2 : Nat) : GRat) = ⟨2, 0⟩ := rfl

end Pyunicorn.CircuitK.GRat
