import Pyunicorn.Lemmas.Circuit
import Mathlib.LinearAlgebra.Matrix.NonsingularInverse
/-! C18, round 2: the Moore–Penrose inverse of a *connected* network's Laplacian satisfies
`L R = I − J/n` (so Foster, triangle and path bound hold for what `np.linalg.pinv` returns),
kernel of the Laplacian, existence of such an inverse. -/
namespace Pyunicorn.Circuit
open Finset

/-- the kernel of the Laplacian of a cut-connected network with non-negative conductances
consists of the constant vectors -/
theorem lap_ker_const (n : Nat) (c : Mat) (v : Vec) (hs : SymmOn n c)
    (hc : ∀ i j, i < n → j < n → 0 ≤ c i j) (hconn : CutConnected n c)
    (hv : ∀ i, i < n → sumTo n (fun j => laplacian n c i j * v j) = 0) :
    ∀ a b, a < n → b < n → v a = v b := by
  have hq := quadform n c v hs
  have h0 : ∑ i ∈ range n, v i * ∑ j ∈ range n, c i j * (v i - v j) = 0 := by
    apply Finset.sum_eq_zero
    intro i hi
    rw [← lap_mulVec n c v i (Finset.mem_range.mp hi) hs, hv i (Finset.mem_range.mp hi), mul_zero]
  rw [h0, mul_zero] at hq
  have hnn : ∀ i ∈ range n, ∀ j ∈ range n, 0 ≤ c i j * (v i - v j) ^ 2 := fun i hi j hj =>
    mul_nonneg (hc i j (Finset.mem_range.mp hi) (Finset.mem_range.mp hj)) (sq_nonneg _)
  have hterm : ∀ i, i < n → ∀ j, j < n → c i j * (v i - v j) ^ 2 = 0 := by
    intro i hi j hj
    have h1 := (Finset.sum_eq_zero_iff_of_nonneg
      (fun i hi => Finset.sum_nonneg (hnn i hi))).mp hq.symm i (Finset.mem_range.mpr hi)
    exact (Finset.sum_eq_zero_iff_of_nonneg (hnn i (Finset.mem_range.mpr hi))).mp h1 j
      (Finset.mem_range.mpr hj)
  -- all nodes carry the value of node `a`
  have key : ∀ a, a < n → ∀ b, b < n → v b = v a := by
    intro a ha b hb
    by_contra hne
    obtain ⟨i, j, hi, hj, hSi, hSj, hcij⟩ := hconn (fun y => decide (v y = v a))
      ⟨a, ha, by simp⟩ ⟨b, hb, by simpa using hne⟩
    have hvi : v i = v a := by simpa using hSi
    have hvj : v j ≠ v a := by simpa using hSj
    rcases mul_eq_zero.mp (hterm i hi j hj) with h | h
    · exact hcij h
    · have : v i - v j = 0 := by simpa using h
      exact hvj (by rw [← hvi]; linarith)
  intro a b ha hb
  exact (key a ha b hb).symm

/-- **`pinv` of a connected network projects onto the complement of the constants.**
If `R` satisfies the first and third Moore–Penrose equations for the Laplacian of a
cut-connected network with symmetric non-negative conductances, then `L R = I − J/n`. -/
theorem proj_of_pinv13 (n : Nat) (c R : Mat) (hs : SymmOn n c)
    (hc : ∀ i j, i < n → j < n → 0 ≤ c i j) (hconn : CutConnected n c)
    (hR : IsPinv13 n (laplacian n c) R) : IsProj n (laplacian n c) R := by
  set L := laplacian n c with hL
  have hLs : SymmOn n L := lap_symm hs
  -- P = L R, Q = I − P
  set P : Mat := fun i j => ∑ k ∈ range n, L i k * R k j with hP
  have hPs : ∀ i j, i < n → j < n → P i j = P j i := by
    intro i j hi hj
    have := hR.symProd i j hi hj
    simpa [sumTo_eq, hP] using this
  have hPL : ∀ i j, i < n → j < n → ∑ l ∈ range n, P i l * L l j = L i j := by
    intro i j hi hj
    have := hR.ginv i j hi hj
    simpa [sumTo_eq, hP] using this
  set Q : Mat := fun i j => (if i = j then 1 else 0) - P i j with hQ
  have hQs : ∀ i j, i < n → j < n → Q i j = Q j i := by
    intro i j hi hj
    simp only [hQ, hPs i j hi hj]
    by_cases e : i = j
    · subst e; rfl
    · have e' : ¬ j = i := fun x => e x.symm
      simp [e, e']
  -- every column of Q lies in the kernel of L
  have hLQ : ∀ i j, i < n → j < n → ∑ l ∈ range n, L j l * Q l i = 0 := by
    intro i j hi hj
    have h1 : ∑ l ∈ range n, L j l * Q l i = ∑ l ∈ range n, Q i l * L l j := by
      refine Finset.sum_congr rfl fun l hl => ?_
      have hl' := Finset.mem_range.mp hl
      rw [hQs l i hl' hi, hLs j l hj hl', mul_comm]
    rw [h1]
    have h2 : ∑ l ∈ range n, Q i l * L l j
        = L i j - ∑ l ∈ range n, P i l * L l j := by
      simp only [hQ, sub_mul, Finset.sum_sub_distrib, ite_mul, one_mul, zero_mul,
        Finset.sum_ite_eq, Finset.mem_range, hi, if_true]
    rw [h2, hPL i j hi hj, sub_self]
  have hconst : ∀ i, i < n → ∀ a b, a < n → b < n → Q a i = Q b i := by
    intro i hi
    apply lap_ker_const n c (fun l => Q l i) hs hc hconn
    intro j hj
    rw [sumTo_eq]
    exact hLQ i j hi hj
  -- all entries of Q are equal
  have hall : ∀ i j, i < n → j < n → Q i j = Q 0 0 := by
    intro i j hi hj
    have h0 : 0 < n := by omega
    rw [hconst j hj i 0 hi h0, hQs 0 j h0 hj, hconst 0 h0 j 0 hj h0]
  -- column sums of P vanish (columns of L sum to zero)
  have hcol : ∀ j, j < n → ∑ i ∈ range n, P i j = 0 := by
    intro j hj
    simp only [hP]
    rw [Finset.sum_comm]
    have : ∀ k ∈ range n, ∑ i ∈ range n, L i k * R k j = 0 := by
      intro k hk
      rw [← Finset.sum_mul, hL, lap_colsum n c k (Finset.mem_range.mp hk), zero_mul]
    exact Finset.sum_eq_zero this
  intro i j hi hj
  have h0 : 0 < n := by omega
  have hq : (n : Rat) * Q 0 0 = 1 := by
    have hsum : ∑ l ∈ range n, Q l 0 = 1 := by
      simp only [hQ, Finset.sum_sub_distrib, hcol 0 h0, Finset.sum_ite_eq', Finset.mem_range, h0,
        if_true, sub_zero]
    have : ∑ l ∈ range n, Q l 0 = ∑ _l ∈ range n, Q 0 0 :=
      Finset.sum_congr rfl fun l hl => hall l 0 (Finset.mem_range.mp hl) h0
    rw [this, Finset.sum_const, Finset.card_range, nsmul_eq_mul] at hsum
    exact hsum
  have hn : (n : Rat) ≠ 0 := by positivity
  have hq' : Q 0 0 = 1 / (n : Rat) := by field_simp; linarith
  have := hall i j hi hj
  rw [hq'] at this
  rw [sumTo_eq]
  show P i j = _
  simp only [hQ] at this
  linarith

/-! ### existence of an inverse with `L R = I − J/n` on every connected network -/

/-- rows of the Laplacian of symmetric conductances sum to zero -/
theorem lap_rowsum (n : Nat) (c : Mat) (i : Nat) (hi : i < n) (hs : SymmOn n c) :
    ∑ j ∈ range n, laplacian n c i j = 0 := by
  rw [← lap_colsum n c i hi]
  exact Finset.sum_congr rfl fun j hj => lap_symm hs i j hi (Finset.mem_range.mp hj)

/-- a right inverse `N` of `L + J/n` gives `R = N − J/n` with `L R = I − J/n` -/
theorem proj_of_right_inverse (n : Nat) (c N : Mat) (hs : SymmOn n c)
    (hN : ∀ i j, i < n → j < n →
      ∑ k ∈ range n, (laplacian n c i k + 1 / (n : Rat)) * N k j = if i = j then 1 else 0) :
    IsProj n (laplacian n c) (fun i j => N i j - 1 / (n : Rat)) := by
  intro i j hi hj
  have hn : (n : Rat) ≠ 0 := Nat.cast_ne_zero.mpr (by omega)
  -- column sums of N are 1
  have hsN : ∑ k ∈ range n, N k j = 1 := by
    have h1 : ∑ i ∈ range n, ∑ k ∈ range n, (laplacian n c i k + 1 / (n : Rat)) * N k j = 1 := by
      rw [Finset.sum_congr rfl fun i hi => hN i j (Finset.mem_range.mp hi) hj]
      simp [hj]
    rw [Finset.sum_comm] at h1
    have h2 : ∀ k ∈ range n, ∑ i ∈ range n, (laplacian n c i k + 1 / (n : Rat)) * N k j = N k j := by
      intro k hk
      rw [← Finset.sum_mul, Finset.sum_add_distrib, lap_colsum n c k (Finset.mem_range.mp hk),
        Finset.sum_const, Finset.card_range, nsmul_eq_mul]
      field_simp
      ring
    rwa [Finset.sum_congr rfl h2] at h1
  rw [sumTo_eq]
  have h3 := hN i j hi hj
  simp only [add_mul, Finset.sum_add_distrib, ← Finset.mul_sum, hsN] at h3
  simp only [mul_sub, Finset.sum_sub_distrib, ← Finset.sum_mul, lap_rowsum n c i hi hs]
  linarith

/-- `L + J/n` is injective on a cut-connected network -/
theorem shifted_lap_injective (n : Nat) (c : Mat) (v : Vec) (hs : SymmOn n c)
    (hc : ∀ i j, i < n → j < n → 0 ≤ c i j) (hconn : CutConnected n c)
    (hv : ∀ i, i < n → ∑ k ∈ range n, (laplacian n c i k + 1 / (n : Rat)) * v k = 0) :
    ∀ i, i < n → v i = 0 := by
  intro i0 hi0
  have hn : (n : Rat) ≠ 0 := Nat.cast_ne_zero.mpr (by omega)
  have hsum : ∑ k ∈ range n, v k = 0 := by
    have h1 : ∑ i ∈ range n, ∑ k ∈ range n, (laplacian n c i k + 1 / (n : Rat)) * v k = 0 :=
      Finset.sum_eq_zero fun i hi => hv i (Finset.mem_range.mp hi)
    rw [Finset.sum_comm] at h1
    have h2 : ∀ k ∈ range n, ∑ i ∈ range n, (laplacian n c i k + 1 / (n : Rat)) * v k = v k := by
      intro k hk
      rw [← Finset.sum_mul, Finset.sum_add_distrib, lap_colsum n c k (Finset.mem_range.mp hk),
        Finset.sum_const, Finset.card_range, nsmul_eq_mul]
      field_simp
      ring
    rwa [Finset.sum_congr rfl h2] at h1
  have hker : ∀ i, i < n → sumTo n (fun j => laplacian n c i j * v j) = 0 := by
    intro i hi
    have := hv i hi
    simp only [add_mul, Finset.sum_add_distrib, ← Finset.mul_sum, hsum, mul_zero, add_zero] at this
    rw [sumTo_eq]; exact this
  have hconst := lap_ker_const n c v hs hc hconn hker
  have : ∑ k ∈ range n, v k = ∑ _k ∈ range n, v i0 :=
    Finset.sum_congr rfl fun k hk => hconst k i0 (Finset.mem_range.mp hk) hi0
  rw [this, Finset.sum_const, Finset.card_range, nsmul_eq_mul] at hsum
  rcases mul_eq_zero.mp hsum with h | h
  · exact absurd h hn
  · exact h

/-- **Existence.**  On every cut-connected network with symmetric non-negative conductances
there is an `R` with `L R = I − J/n`; hence (by `pot_of_proj`, `ginv_of_proj`) a generalised
inverse and node potentials for every pair of nodes exist. -/
theorem exists_proj (n : Nat) (c : Mat) (hs : SymmOn n c)
    (hc : ∀ i j, i < n → j < n → 0 ≤ c i j) (hconn : CutConnected n c) :
    ∃ R : Mat, IsProj n (laplacian n c) R := by
  classical
  let M : Matrix (Fin n) (Fin n) ℚ := fun i j => laplacian n c i j + 1 / (n : Rat)
  have hinj : Function.Injective M.mulVec := by
    intro v₁ v₂ h12
    have hv : M.mulVec (v₁ - v₂) = 0 := by rw [Matrix.mulVec_sub, h12, sub_self]
    suffices hz : v₁ - v₂ = 0 from sub_eq_zero.mp hz
    generalize v₁ - v₂ = v at hv
    let v' : Vec := fun k => if h : k < n then v ⟨k, h⟩ else 0
    have h0 := shifted_lap_injective n c v' hs hc hconn (by
      intro i hi
      have := congrFun hv ⟨i, hi⟩
      simp only [Matrix.mulVec, dotProduct, Pi.zero_apply] at this
      rw [Finset.sum_range]
      simpa [M, v'] using this)
    funext i
    have := h0 i i.2
    simpa [v'] using this
  have hunit : IsUnit M := Matrix.mulVec_injective_iff_isUnit.mp hinj
  have hdet : IsUnit M.det := (Matrix.isUnit_iff_isUnit_det M).mp hunit
  have hMN : M * M⁻¹ = 1 := Matrix.mul_nonsing_inv M hdet
  let N : Mat := fun i j => if h : i < n ∧ j < n then M⁻¹ ⟨i, h.1⟩ ⟨j, h.2⟩ else 0
  refine ⟨fun i j => N i j - 1 / (n : Rat), proj_of_right_inverse n c N hs ?_⟩
  intro i j hi hj
  have := congrFun (congrFun hMN ⟨i, hi⟩) ⟨j, hj⟩
  simp only [Matrix.mul_apply, Matrix.one_apply, Fin.mk.injEq] at this
  rw [Finset.sum_range]
  simpa [M, N, hj] using this

end Pyunicorn.Circuit
