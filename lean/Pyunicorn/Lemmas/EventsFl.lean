import Pyunicorn.Lemmas.EventsF64Matrix

/-!
# C16 round 5 — the float arithmetic inside the counting of `event_synchronization`

`esR fl` (model) rounds every operation the function applies to times by `fl`.

* `esR_id`      : with `fl = id` it is `es` (the exact-arithmetic model all theorems speak about);
* `esR_exact`   : if `fl` is the identity on the sums `t + lag` and on the differences of the times
                  that occur, `esR fl = es`;
* `rn53s_exact` : IEEE rounding is the identity on `k · 2^z`, `|k| < 2⁵³`;
* `esR_lattice` : times and lag on one binary lattice `2^z · ℤ` with `|k| ≤ 2⁵⁰` ⇒ the float path
                  `esR rn53s` *is* `es` — the former trusted-base item "IEEE arithmetic is exact on
                  the dyadic inputs inside the counting" as a theorem.
-/

namespace Pyunicorn.Events
open Pyunicorn.Similarity

/-! ### IEEE rounding is exact on 53-bit multiples of a power of two -/

theorem roundHalfEven_intCast (m : ℤ) : roundHalfEven (m : ℚ) = m := by
  unfold roundHalfEven
  simp

theorem rn53_exact (k : ℕ) (z : ℤ) (hk : k < 2 ^ 53) :
    rn53 ((k : ℚ) * (2 : ℚ) ^ z) = (k : ℚ) * (2 : ℚ) ^ z := by
  rcases Nat.eq_zero_or_pos k with rfl | hk0
  · simp [rn53]
  · have hz : (0 : ℚ) < (2 : ℚ) ^ z := by positivity
    have hx0 : 0 < (k : ℚ) * (2 : ℚ) ^ z := mul_pos (by exact_mod_cast hk0) hz
    unfold rn53
    rw [if_neg (not_le.2 hx0)]
    simp only
    set x := (k : ℚ) * (2 : ℚ) ^ z with hx
    set e := binExp x with he
    have hle : twoPow e ≤ x := twoPow_binExp_le x hx0
    have he52 : e ≤ z + 52 := by
      by_contra hc
      have hc' : z + 53 ≤ e := by omega
      rw [twoPow_eq_zpow] at hle
      have h1 : (2 : ℚ) ^ (z + 53) ≤ (2 : ℚ) ^ e := zpow_le_zpow_right₀ (by norm_num) hc'
      have e2 : (2 : ℚ) ^ (z + 53) = 2 ^ z * 2 ^ (53 : ℕ) := by
        rw [zpow_add₀ (by norm_num)]; norm_cast
      have hkq : (k : ℚ) < 2 ^ (53 : ℕ) := by exact_mod_cast hk
      have : (k : ℚ) * 2 ^ z < 2 ^ z * 2 ^ (53 : ℕ) := by nlinarith
      linarith
    obtain ⟨j, hj⟩ := Int.eq_ofNat_of_zero_le (by omega : 0 ≤ z + 52 - e)
    have hu : (0 : ℚ) < (2 : ℚ) ^ (e - 52) := by positivity
    have hzj : (2 : ℚ) ^ z = (2 : ℚ) ^ (e - 52) * 2 ^ j := by
      rw [← zpow_natCast, ← zpow_add₀ (by norm_num)]
      congr 1
      omega
    have hdiv : x / twoPow (e - 52) = (((k * 2 ^ j : ℕ) : ℤ) : ℚ) := by
      rw [twoPow_eq_zpow, hx, hzj]
      push_cast
      field_simp
    rw [hdiv, roundHalfEven_intCast, twoPow_eq_zpow, hx, hzj]
    push_cast
    ring

/-- **IEEE double rounding is the identity on `k · 2^z` with `|k| < 2⁵³`** -/
theorem rn53s_exact (k : ℤ) (z : ℤ) (hk : |k| < 2 ^ 53) :
    rn53s ((k : ℚ) * (2 : ℚ) ^ z) = (k : ℚ) * (2 : ℚ) ^ z := by
  have hz : (0 : ℚ) < (2 : ℚ) ^ z := by positivity
  rcases le_or_gt 0 k with h | h
  · obtain ⟨n, rfl⟩ := Int.eq_ofNat_of_zero_le h
    have hn : n < 2 ^ 53 := by
      have := hk
      rw [abs_of_nonneg h] at this
      exact_mod_cast this
    have h0 : (0 : ℚ) ≤ ((n : ℤ) : ℚ) * (2 : ℚ) ^ z := by
      apply mul_nonneg _ (le_of_lt hz)
      exact_mod_cast h
    rw [rn53s_of_nonneg _ h0]
    exact_mod_cast rn53_exact n z hn
  · have hneg : (k : ℚ) * (2 : ℚ) ^ z = -(((-k : ℤ) : ℚ) * (2 : ℚ) ^ z) := by push_cast; ring
    obtain ⟨n, hn⟩ := Int.eq_ofNat_of_zero_le (by omega : 0 ≤ -k)
    have hn53 : n < 2 ^ 53 := by
      have := hk
      rw [abs_of_neg h, hn] at this
      exact_mod_cast this
    rw [hneg, rn53s_neg, hn]
    have h0 : (0 : ℚ) ≤ ((n : ℤ) : ℚ) * (2 : ℚ) ^ z := by
      apply mul_nonneg _ (le_of_lt hz)
      exact_mod_cast Int.natCast_nonneg n
    rw [rn53s_of_nonneg _ h0]
    congr 1
    exact_mod_cast rn53_exact n z hn53

/-! ### congruence of the list expressions on the values that occur -/

theorem zipWith_congr_mem {α β γ} (f g : α → β → γ) (l1 : List α) (l2 : List β)
    (h : ∀ a ∈ l1, ∀ b ∈ l2, f a b = g a b) : List.zipWith f l1 l2 = List.zipWith g l1 l2 := by
  induction l1 generalizing l2 with
  | nil => simp
  | cons a t ih =>
    cases l2 with
    | nil => simp
    | cons b t2 =>
      simp only [List.zipWith_cons_cons]
      rw [h a (by simp) b (by simp),
        ih t2 (fun a' ha b' hb => h a' (by simp [ha]) b' (by simp [hb]))]

theorem any_congr_mem {α} (f g : α → Bool) (l : List α) (h : ∀ a ∈ l, f a = g a) :
    l.any f = l.any g := by
  induction l with
  | nil => rfl
  | cons a t ih =>
    simp only [List.any_cons]
    rw [h a (by simp), ih (fun a' ha => h a' (by simp [ha]))]

theorem countP_congr_mem {α} (f g : α → Bool) (l : List α) (h : ∀ a ∈ l, f a = g a) :
    l.countP f = l.countP g := by
  induction l with
  | nil => rfl
  | cons a t ih =>
    simp only [List.countP_cons]
    rw [h a (by simp), ih (fun a' ha => h a' (by simp [ha]))]

theorem count2_congr_mem (f f' : Ev → Ev → Bool) (xs ys : List Ev)
    (h : ∀ p ∈ xs, ∀ q ∈ ys, f p q = f' p q) : count2 f xs ys = count2 f' xs ys := by
  unfold count2
  congr 1
  apply List.map_congr_left
  intro p hp
  exact countP_congr_mem _ _ ys (fun q hq => h p hp q hq)

theorem diffR_eq (fl : ℚ → ℚ) (l : List ℚ) (h : ∀ a ∈ l, ∀ b ∈ l, fl (b - a) = b - a) :
    diffR fl l = diff l :=
  zipWith_congr_mem _ _ _ _ (fun a ha b hb => h a ha b (List.mem_of_mem_drop hb))

theorem innerEventsR_eq (fl : ℚ → ℚ) (l : List ℚ) (h : ∀ a ∈ l, ∀ b ∈ l, fl (b - a) = b - a) :
    innerEventsR fl l = innerEvents l := by
  unfold innerEventsR innerEvents minGapsR minGaps
  rw [diffR_eq fl l h]

/-- the time of an inner event is one of the event times -/
theorem innerEvents_fst_mem (l : List ℚ) (p : Ev) (hp : p ∈ innerEvents l) : p.1 ∈ l := by
  unfold innerEvents at hp
  have h1 : p.1 ∈ inner l := (List.of_mem_zip (a := p.1) (b := p.2) hp).1
  unfold inner at h1
  exact List.mem_of_mem_drop (List.mem_of_mem_dropLast h1)

section counts
variable (fl : ℚ → ℚ) (tm : Option ℚ) (xs ys : List Ev)
  (hd : ∀ p ∈ xs, ∀ q ∈ ys, dst2R fl p q = dst2 p q)
include hd

theorem axyR_eq (p : Ev) (hp : p ∈ xs) (q : Ev) (hq : q ∈ ys) : axyR fl tm p q = axy tm p q := by
  simp only [axyR, axy, hd p hp q hq]

theorem ayxR_eq (p : Ev) (hp : p ∈ xs) (q : Ev) (hq : q ∈ ys) : ayxR fl tm p q = ayx tm p q := by
  simp only [ayxR, ayx, hd p hp q hq]

theorem eqtR_eq (p : Ev) (hp : p ∈ xs) (q : Ev) (hq : q ∈ ys) : eqtR fl p q = eqt p q := by
  simp only [eqtR, eqt, hd p hp q hq]

theorem countXYR_eq : countXYR fl tm xs ys = countXY tm xs ys := by
  unfold countXYR countXY dblxyR dblxy
  rw [count2_congr_mem _ _ xs ys (axyR_eq fl tm xs ys hd),
    count2_congr_mem _ _ xs ys (eqtR_eq fl xs ys hd)]
  congr 3
  apply count2_congr_mem
  intro p hp q hq
  rw [axyR_eq fl tm xs ys hd p hp q hq,
    any_congr_mem _ _ ys (fun q' hq' => ayxR_eq fl tm xs ys hd p hp q' hq'),
    any_congr_mem _ _ xs (fun p' hp' => ayxR_eq fl tm xs ys hd p' hp' q hq)]

theorem countYXR_eq : countYXR fl tm xs ys = countYX tm xs ys := by
  unfold countYXR countYX dblyxR dblyx
  rw [count2_congr_mem _ _ xs ys (ayxR_eq fl tm xs ys hd),
    count2_congr_mem _ _ xs ys (eqtR_eq fl xs ys hd)]
  congr 3
  apply count2_congr_mem
  intro p hp q hq
  rw [ayxR_eq fl tm xs ys hd p hp q hq,
    any_congr_mem _ _ ys (fun q' hq' => axyR_eq fl tm xs ys hd p hp q' hq'),
    any_congr_mem _ _ xs (fun p' hp' => axyR_eq fl tm xs ys hd p' hp' q hq)]

end counts

/-- **exact arithmetic is the instance `fl = id`** -/
theorem esR_id (ex ey : List ℚ) (tm : Option ℚ) (lag : ℚ) : esR id ex ey tm lag = es ex ey tm lag := by
  have h1 : ∀ l : List ℚ, innerEventsR id l = innerEvents l :=
    fun l => innerEventsR_eq id l (fun _ _ _ _ => rfl)
  unfold esR es
  simp only [id, h1]
  split
  · rfl
  · split
    · rfl
    · rw [countXYR_eq id tm _ _ (fun _ _ _ _ => rfl), countYXR_eq id tm _ _ (fun _ _ _ _ => rfl)]

/-- **the rounded path equals the exact one whenever no operation on times rounds**: `fl` the
identity on the shifted times `t + lag` and on every difference of two of the times
`ex ∪ (ey + lag)` -/
theorem esR_exact (fl : ℚ → ℚ) (ex ey : List ℚ) (tm : Option ℚ) (lag : ℚ)
    (hlag : ∀ t ∈ ey, fl (t + lag) = t + lag)
    (hsub : ∀ a ∈ ex ++ ey.map (· + lag), ∀ b ∈ ex ++ ey.map (· + lag), fl (a - b) = a - b) :
    esR fl ex ey tm lag = es ex ey tm lag := by
  have hm : (ey.map fun t => fl (t + lag)) = ey.map (· + lag) :=
    List.map_congr_left (fun t ht => hlag t ht)
  have hx : innerEventsR fl ex = innerEvents ex :=
    innerEventsR_eq fl ex (fun a ha b hb => hsub b (by simp [hb]) a (by simp [ha]))
  have hy : innerEventsR fl (ey.map (· + lag)) = innerEvents (ey.map (· + lag)) :=
    innerEventsR_eq fl _ (fun a ha b hb =>
      hsub b (List.mem_append_right _ hb) a (List.mem_append_right _ ha))
  have hd : ∀ p ∈ innerEvents ex, ∀ q ∈ innerEvents (ey.map (· + lag)),
      dst2R fl p q = dst2 p q := by
    intro p hp q hq
    unfold dst2R dst2
    rw [hsub p.1 (List.mem_append_left _ (innerEvents_fst_mem _ p hp)) q.1
      (List.mem_append_right _ (innerEvents_fst_mem _ q hq))]
  unfold esR es
  simp only [hm, hx, hy]
  split
  · rfl
  · split
    · rfl
    · rw [countXYR_eq fl tm _ _ hd, countYXR_eq fl tm _ _ hd]

/-! ### times on one binary lattice -/

/-- `x = k · 2^z` with `|k| ≤ B` -/
def OnLat (z : ℤ) (B : ℤ) (x : ℚ) : Prop := ∃ k : ℤ, |k| ≤ B ∧ x = (k : ℚ) * (2 : ℚ) ^ z

theorem OnLat.add {z : ℤ} {B C : ℤ} {x y : ℚ} (hx : OnLat z B x) (hy : OnLat z C y) :
    OnLat z (B + C) (x + y) := by
  obtain ⟨k, hk, rfl⟩ := hx
  obtain ⟨m, hm, rfl⟩ := hy
  refine ⟨k + m, le_trans (abs_add_le k m) (by omega), ?_⟩
  push_cast; ring

theorem OnLat.sub {z : ℤ} {B C : ℤ} {x y : ℚ} (hx : OnLat z B x) (hy : OnLat z C y) :
    OnLat z (B + C) (x - y) := by
  obtain ⟨k, hk, rfl⟩ := hx
  obtain ⟨m, hm, rfl⟩ := hy
  refine ⟨k - m, le_trans (abs_sub k m) (by omega), ?_⟩
  push_cast; ring

theorem OnLat.mono {z : ℤ} {B C : ℤ} {x : ℚ} (hx : OnLat z B x) (h : B ≤ C) : OnLat z C x := by
  obtain ⟨k, hk, rfl⟩ := hx
  exact ⟨k, le_trans hk h, rfl⟩

theorem rn53s_onLat {z : ℤ} {B : ℤ} {x : ℚ} (hx : OnLat z B x) (hB : B < 2 ^ 53) :
    rn53s x = x := by
  obtain ⟨k, hk, rfl⟩ := hx
  exact rn53s_exact k z (lt_of_le_of_lt hk hB)

/-- **the float path is the exact path on lattice data**: all event times and the lag integer
multiples of one power of two `2^z` with `|k| ≤ 2⁵⁰` (e.g. integer time indices up to `2⁵⁰`,
times given to `2⁻¹⁰` up to `2⁴⁰`, any float32 record spanning ≤ 26 binary orders) — then no
operation of `event_synchronization` rounds and `esR rn53s = es` -/
theorem esR_lattice (z : ℤ) (ex ey : List ℚ) (tm : Option ℚ) (lag : ℚ)
    (hx : ∀ t ∈ ex, OnLat z (2 ^ 50) t) (hy : ∀ t ∈ ey, OnLat z (2 ^ 50) t)
    (hl : OnLat z (2 ^ 50) lag) :
    esR rn53s ex ey tm lag = es ex ey tm lag := by
  have hall : ∀ a ∈ ex ++ ey.map (· + lag), OnLat z (2 ^ 51) a := by
    intro a ha
    rcases List.mem_append.1 ha with h | h
    · exact (hx a h).mono (by norm_num)
    · obtain ⟨t, ht, rfl⟩ := List.mem_map.1 h
      exact ((hy t ht).add hl).mono (by norm_num)
  apply esR_exact
  · intro t ht
    exact rn53s_onLat ((hy t ht).add hl) (by norm_num)
  · intro a ha b hb
    exact rn53s_onLat ((hall a ha).sub (hall b hb)) (by norm_num)

end Pyunicorn.Events
