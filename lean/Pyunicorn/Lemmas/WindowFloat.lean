import Pyunicorn.Lemmas.Window
/-! Float rounding of `phase_mean()` / `anomaly()` under the standard model of floating-point
arithmetic (round 4).

`phase_mean[i, :] = observable[i::c, :].mean(axis=0)` and
`anomaly[i::c, :] = sample - sample.mean(axis=0)` evaluate, per node, a sum of the `n` phase
samples (NumPy adds them in an order that depends on the memory layout: row after row for a
C-ordered reduction over axis 0, pairwise with eight accumulators along a contiguous axis), one
division by `n` and one subtraction per sample.  Every IEEE number is a rational, so the analysis
is carried out over `ℚ`: `FlArith u ud` is *any* arithmetic whose `+`, `-` have relative error
`≤ u` and whose division has relative error `≤ ud` (binary64: `u = ud = 2⁻⁵³`; float32
observables: `u = 2⁻²⁴` and, because NumPy divides the float32 sum by the `intp` count in double
and rounds again, `ud = 2⁻²⁴ + 2⁻⁵²`).  No overflow; `+`/`-` are exact when they underflow, the
division must not underflow (stated through `div_ok`).  The order of summation is a parameter
(`SumTree`), so the bounds hold for every order NumPy may choose. -/
namespace Pyunicorn.Window

theorem column_length' (A : Mat) (j : Nat) : (column A j).length = A.length := by simp [column]

/-- the standard model for the three operations of the climatology code -/
structure FlArith (u ud : ℚ) where
  add : ℚ → ℚ → ℚ
  sub : ℚ → ℚ → ℚ
  div : ℚ → ℚ → ℚ
  add_ok : ∀ a b, |add a b - (a + b)| ≤ u * |a + b|
  sub_ok : ∀ a b, |sub a b - (a - b)| ≤ u * |a - b|
  div_ok : ∀ a b, b ≠ 0 → |div a b - a / b| ≤ ud * |a / b|

/-- exact arithmetic is an instance (for every `u, ud ≥ 0`): the structure is satisfiable -/
def FlArith.exactArith (u ud : ℚ) (hu : 0 ≤ u) (hud : 0 ≤ ud) : FlArith u ud where
  add := (· + ·)
  sub := (· - ·)
  div := (· / ·)
  add_ok a b := by simpa using mul_nonneg hu (abs_nonneg _)
  sub_ok a b := by simpa using mul_nonneg hu (abs_nonneg _)
  div_ok a b _ := by simpa using mul_nonneg hud (abs_nonneg _)

/-- an order of summation: a binary tree whose leaves are the summands -/
inductive SumTree where
  | leaf (x : ℚ)
  | node (l r : SumTree)

namespace SumTree

def leaves : SumTree → List ℚ
  | leaf x => [x]
  | node l r => l.leaves ++ r.leaves

def exact : SumTree → ℚ
  | leaf x => x
  | node l r => l.exact + r.exact

/-- the sum as computed: every `+` rounded -/
def fl {u ud : ℚ} (F : FlArith u ud) : SumTree → ℚ
  | leaf x => x
  | node l r => F.add (l.fl F) (r.fl F)

def absSum : SumTree → ℚ
  | leaf x => |x|
  | node l r => l.absSum + r.absSum

def depth : SumTree → Nat
  | leaf _ => 0
  | node l r => max l.depth r.depth + 1

/-- `(x₀ + x₁) + x₂ + …`: the order of a C-ordered reduction over axis 0 -/
def seq (x0 : ℚ) (xs : List ℚ) : SumTree :=
  xs.foldl (fun acc x => node acc (leaf x)) (leaf x0)

theorem seq_spec (x0 : ℚ) (xs : List ℚ) :
    (seq x0 xs).leaves = x0 :: xs ∧ (seq x0 xs).depth = xs.length := by
  unfold seq
  suffices h : ∀ (acc : SumTree), (xs.foldl (fun acc x => node acc (leaf x)) acc).leaves
      = acc.leaves ++ xs ∧ (xs.foldl (fun acc x => node acc (leaf x)) acc).depth
      = acc.depth + xs.length by simpa [leaves, depth] using h (leaf x0)
  induction xs with
  | nil => intro acc; simp
  | cons x xs ih =>
    intro acc
    obtain ⟨a, b⟩ := ih (node acc (leaf x))
    simp only [List.foldl_cons, a, b, leaves, depth, List.length_cons]
    constructor
    · simp
    · omega

theorem exact_eq_sum (t : SumTree) : t.exact = t.leaves.sum := by
  induction t with
  | leaf x => simp [exact, leaves]
  | node l r ihl ihr => simp [exact, leaves, ihl, ihr]

theorem absSum_eq_sum (t : SumTree) : t.absSum = (t.leaves.map (|·|)).sum := by
  induction t with
  | leaf x => simp [absSum, leaves]
  | node l r ihl ihr => simp [absSum, leaves, ihl, ihr]

theorem absSum_nonneg (t : SumTree) : 0 ≤ t.absSum := by
  induction t with
  | leaf x => exact abs_nonneg x
  | node l r ihl ihr => exact add_nonneg ihl ihr

theorem abs_exact_le (t : SumTree) : |t.exact| ≤ t.absSum := by
  induction t with
  | leaf x => exact le_refl _
  | node l r ihl ihr => exact (abs_add_le _ _).trans (add_le_add ihl ihr)

/-- any order of summation of `n` numbers has depth `≤ n - 1` -/
theorem depth_lt_leaves (t : SumTree) : t.depth + 1 ≤ t.leaves.length := by
  induction t with
  | leaf x => simp [depth, leaves]
  | node l r ihl ihr => simp only [depth, leaves, List.length_append]; omega

end SumTree

/-- one more rounded operation on top of an accumulated relative bound -/
theorem round_after (xh x A E w y : ℚ) (hw : 0 ≤ w)
    (h1 : |xh - x| ≤ (E - 1) * A) (h2 : |x| ≤ A) (h3 : |y - xh| ≤ w * |xh|) :
    |y - x| ≤ (E * (1 + w) - 1) * A := by
  have hxh : |xh| ≤ E * A := by
    have : |xh| ≤ |xh - x| + |x| := by
      have := abs_add_le (xh - x) x
      simpa using this
    linarith
  have h4 : w * |xh| ≤ w * (E * A) := mul_le_mul_of_nonneg_left hxh hw
  have h5 : |y - x| ≤ |y - xh| + |xh - x| := by
    have := abs_add_le (y - xh) (xh - x)
    simpa using this
  calc |y - x| ≤ |y - xh| + |xh - x| := h5
    _ ≤ w * (E * A) + (E - 1) * A := by linarith
    _ = (E * (1 + w) - 1) * A := by ring

/-- **error of the computed sum, for every order of summation**:
`|fl(Σ x) − Σ x| ≤ ((1+u)^depth − 1) · Σ|x|` -/
theorem sum_error {u ud : ℚ} (F : FlArith u ud) (hu : 0 ≤ u) (t : SumTree) :
    |t.fl F - t.exact| ≤ ((1 + u) ^ t.depth - 1) * t.absSum := by
  induction t with
  | leaf x => simp [SumTree.fl, SumTree.exact, SumTree.depth]
  | node l r ihl ihr =>
    have h1u : (1 : ℚ) ≤ 1 + u := by linarith
    set d := max l.depth r.depth with hd
    have hl : |l.fl F - l.exact| ≤ ((1 + u) ^ d - 1) * l.absSum := by
      refine ihl.trans (mul_le_mul_of_nonneg_right ?_ l.absSum_nonneg)
      have := pow_le_pow_right₀ h1u (le_max_left l.depth r.depth)
      linarith
    have hr : |r.fl F - r.exact| ≤ ((1 + u) ^ d - 1) * r.absSum := by
      refine ihr.trans (mul_le_mul_of_nonneg_right ?_ r.absSum_nonneg)
      have := pow_le_pow_right₀ h1u (le_max_right l.depth r.depth)
      linarith
    have hs : |(l.fl F + r.fl F) - (l.exact + r.exact)|
        ≤ ((1 + u) ^ d - 1) * (l.absSum + r.absSum) := by
      have e : (l.fl F + r.fl F) - (l.exact + r.exact)
          = (l.fl F - l.exact) + (r.fl F - r.exact) := by ring
      rw [e]
      refine (abs_add_le _ _).trans ?_
      linarith
    have hx : |l.exact + r.exact| ≤ l.absSum + r.absSum :=
      (abs_add_le _ _).trans (add_le_add l.abs_exact_le r.abs_exact_le)
    have := round_after (l.fl F + r.fl F) (l.exact + r.exact) (l.absSum + r.absSum)
      ((1 + u) ^ d) u (F.add (l.fl F) (r.fl F)) hu hs hx (F.add_ok _ _)
    simpa [SumTree.fl, SumTree.exact, SumTree.depth, SumTree.absSum, pow_succ, ← hd] using this

/-- `mean(axis=0)` of one node as computed: the rounded sum divided by the count -/
def flMean {u ud : ℚ} (F : FlArith u ud) (t : SumTree) : ℚ :=
  F.div (t.fl F) (t.leaves.length : ℚ)

/-- **error of the computed phase mean**:
`|fl(mean) − mean| ≤ ((1+u)^depth (1+ud) − 1) · mean|x|` -/
theorem mean_error {u ud : ℚ} (F : FlArith u ud) (hu : 0 ≤ u) (hud : 0 ≤ ud) (t : SumTree) :
    |flMean F t - t.exact / t.leaves.length|
      ≤ ((1 + u) ^ t.depth * (1 + ud) - 1) * (t.absSum / t.leaves.length) := by
  have hn : (0 : ℚ) < t.leaves.length := by
    have := t.depth_lt_leaves
    exact_mod_cast (by omega : 0 < t.leaves.length)
  have h1u : (1 : ℚ) ≤ 1 + u := by linarith
  have h1 : |t.fl F / t.leaves.length - t.exact / t.leaves.length|
      ≤ ((1 + u) ^ t.depth - 1) * (t.absSum / t.leaves.length) := by
    rw [← sub_div, abs_div, abs_of_pos hn, ← mul_div_assoc]
    exact div_le_div_of_nonneg_right (sum_error F hu t) hn.le
  have h2 : |t.exact / t.leaves.length| ≤ t.absSum / t.leaves.length := by
    rw [abs_div, abs_of_pos hn]
    exact div_le_div_of_nonneg_right t.abs_exact_le hn.le
  exact round_after _ _ _ _ ud _ hud h1 h2 (F.div_ok _ _ hn.ne')

/-- the same with the number of samples instead of the depth (every order of summation of `n`
numbers has depth `≤ n − 1`): `|fl(mean) − mean| ≤ ((1+u)^(n−1) (1+ud) − 1) · mean|x|` -/
theorem mean_error_n {u ud : ℚ} (F : FlArith u ud) (hu : 0 ≤ u) (hud : 0 ≤ ud) (t : SumTree) :
    |flMean F t - t.leaves.sum / t.leaves.length|
      ≤ ((1 + u) ^ (t.leaves.length - 1) * (1 + ud) - 1)
          * ((t.leaves.map (|·|)).sum / t.leaves.length) := by
  have h := mean_error F hu hud t
  rw [t.exact_eq_sum, t.absSum_eq_sum] at h
  refine h.trans (mul_le_mul_of_nonneg_right ?_ ?_)
  · have h1u : (1 : ℚ) ≤ 1 + u := by linarith
    have hd : t.depth ≤ t.leaves.length - 1 := by have := t.depth_lt_leaves; omega
    have := pow_le_pow_right₀ h1u hd
    have h2 : (0 : ℚ) ≤ 1 + ud := by linarith
    nlinarith [mul_le_mul_of_nonneg_right this h2]
  · rw [← t.absSum_eq_sum]
    exact div_nonneg t.absSum_nonneg (Nat.cast_nonneg _)

/-- **add-back under rounding**: whatever number `m` was subtracted (the computed mean, however
inaccurate), the computed anomaly `fl(x − m)` plus `m` is the observable up to *one* rounding
error of the difference -/
theorem addback_error {u ud : ℚ} (F : FlArith u ud) (x m : ℚ) :
    |F.sub x m + m - x| ≤ u * |x - m| := by
  have e : F.sub x m + m - x = F.sub x m - (x - m) := by ring
  rw [e]
  exact F.sub_ok x m

/-- the sum of the computed anomalies of one phase and node -/
theorem anomaly_sum_error {u ud : ℚ} (F : FlArith u ud) (m : ℚ) (xs : List ℚ) :
    |(xs.map (F.sub · m)).sum - (xs.sum - xs.length * m)|
      ≤ u * (xs.map fun x => |x - m|).sum := by
  induction xs with
  | nil => simp
  | cons x xs ih =>
    simp only [List.map_cons, List.sum_cons, List.length_cons, Nat.cast_add, Nat.cast_one]
    have e : F.sub x m + (xs.map (F.sub · m)).sum - (x + xs.sum - (↑xs.length + 1) * m)
        = (F.sub x m - (x - m)) + ((xs.map (F.sub · m)).sum - (xs.sum - xs.length * m)) := by ring
    rw [e, mul_add]
    exact (abs_add_le _ _).trans (add_le_add (F.sub_ok x m) ih)

/-- **zero phase mean under rounding**: the (exact) mean of the computed anomalies of one phase
and node is bounded by the error of the computed mean plus one rounding error of the mean
absolute deviation -/
theorem anomaly_mean_error {u ud : ℚ} (F : FlArith u ud) (m : ℚ) (xs : List ℚ) (hne : xs ≠ []) :
    |(xs.map (F.sub · m)).sum / xs.length|
      ≤ |xs.sum / xs.length - m| + u * ((xs.map fun x => |x - m|).sum / xs.length) := by
  have hn : (0 : ℚ) < xs.length := by
    have : 0 < xs.length := List.length_pos_iff.2 hne
    exact_mod_cast this
  have h := anomaly_sum_error F m xs
  have e : (xs.map (F.sub · m)).sum / xs.length
      = ((xs.map (F.sub · m)).sum - (xs.sum - xs.length * m)) / xs.length
        + (xs.sum / xs.length - m) := by
    field_simp
    ring
  rw [e]
  refine (abs_add_le _ _).trans ?_
  rw [abs_div, abs_of_pos hn, add_comm]
  have := div_le_div_of_nonneg_right h hn.le
  rw [mul_div_assoc] at this
  linarith

/-! ### the exact model's mean of one node is the mean of that node's column -/

theorem colSum_getD (n : Nat) (rows : Mat) (j : Nat) (h : ∀ r ∈ rows, r.length = n) (hj : j < n) :
    (colSum n rows).getD j 0 = (column rows j).sum := by
  induction rows with
  | nil => simp [colSum, zeros, column, List.getD_eq_getElem?_getD, hj]
  | cons r rs ih =>
    have hr : r.length = n := h r (by simp)
    have hs : (colSum n rs).length = n := colSum_length n rs (fun x hx => h x (by simp [hx]))
    have ih' := ih (fun x hx => h x (by simp [hx]))
    simp only [colSum, column, List.map_cons, List.sum_cons] at ih' ⊢
    rw [← ih']
    simp [vadd, List.getD_eq_getElem?_getD, hr, hs, hj]

theorem colMean_getD (n : Nat) (rows : Mat) (j : Nat) (m : Vec) (h : ∀ r ∈ rows, r.length = n)
    (hj : j < n) (hm : colMean n rows = some m) :
    m.getD j 0 = (column rows j).sum / (column rows j).length := by
  unfold colMean at hm
  split at hm
  · simp at hm
  · simp only [Option.some.injEq] at hm
    subst hm
    have hl : (colSum n rows).length = n := colSum_length n rows h
    have : j < (colSum n rows).length := by omega
    rw [← colSum_getD n rows j h hj, column_length']
    simp [List.getD_eq_getElem?_getD, this]

end Pyunicorn.Window
