import Pyunicorn.Model.Surrogates
import Mathlib.Analysis.SpecialFunctions.Trigonometric.Basic
import Mathlib.Tactic.Ring
import Mathlib.Tactic.Linarith
/-! C15, phase-randomisation half: multiplying the memoised FFT by `exp(iφ)` keeps the
amplitude at every frequency, for any history of calls, in-place or copying. (Mathlib, ℝ/ℂ) -/
namespace Pyunicorn.Surrogates

noncomputable def realTrig : Trig ℝ := ⟨Real.cos, Real.sin⟩

theorem normSq_rot (z : ℝ × ℝ) (φ : ℝ) :
    Pyunicorn.Surrogates.normSq (rot realTrig z φ) = Pyunicorn.Surrogates.normSq z := by
  obtain ⟨a, b⟩ := z
  simp only [Pyunicorn.Surrogates.normSq, rot, realTrig]
  have h := Real.cos_sq_add_sin_sq φ
  have e : (a * Real.cos φ - b * Real.sin φ) * (a * Real.cos φ - b * Real.sin φ) +
      (a * Real.sin φ + b * Real.cos φ) * (a * Real.sin φ + b * Real.cos φ)
      = (a * a + b * b) * (Real.cos φ ^ 2 + Real.sin φ ^ 2) := by ring
  rw [e, h, mul_one]

theorem rotRow_length (T : Trig ℝ) (zs : List (ℝ × ℝ)) (φs : List ℝ)
    (h : φs.length = zs.length) : (rotRow T zs φs).length = zs.length := by
  simp [rotRow, h]

theorem rotRow_normSq (zs : List (ℝ × ℝ)) (φs : List ℝ) (h : φs.length = zs.length) :
    (rotRow realTrig zs φs).map Pyunicorn.Surrogates.normSq
      = zs.map Pyunicorn.Surrogates.normSq := by
  induction zs generalizing φs with
  | nil => simp [rotRow]
  | cons z zs ih =>
    cases φs with
    | nil => simp at h
    | cons φ φs =>
      have h' : φs.length = zs.length := by simpa using h
      have := ih φs h'
      simp only [rotRow, List.zipWith_cons_cons, List.map_cons] at this ⊢
      rw [normSq_rot, this]

/-- any history of calls on one object, in-place or copying: the spectrum handed to
`irfft` at every call has the amplitudes of the original FFT at every frequency -/
theorem fourierCalls_amplitudes (mode : Mode) (cache : List (ℝ × ℝ)) (phases : List (List ℝ))
    (h : ∀ φs ∈ phases, φs.length = cache.length) :
    ∀ out ∈ fourierCalls realTrig mode cache phases,
      out.map Pyunicorn.Surrogates.normSq = cache.map Pyunicorn.Surrogates.normSq := by
  suffices H : ∀ (c : List (ℝ × ℝ)), c.length = cache.length →
      c.map Pyunicorn.Surrogates.normSq = cache.map Pyunicorn.Surrogates.normSq →
      ∀ out ∈ fourierCalls realTrig mode c phases,
        out.map Pyunicorn.Surrogates.normSq = cache.map Pyunicorn.Surrogates.normSq from
    H cache rfl rfl
  induction phases with
  | nil => intro c _ _ out ho; simp [fourierCalls] at ho
  | cons φs rest ih =>
    intro c hl hc out ho
    have hφ : φs.length = c.length := by rw [hl]; exact h φs List.mem_cons_self
    have hout : (rotRow realTrig c φs).map Pyunicorn.Surrogates.normSq
        = cache.map Pyunicorn.Surrogates.normSq := (rotRow_normSq c φs hφ).trans hc
    have hlen : (rotRow realTrig c φs).length = cache.length :=
      (rotRow_length realTrig c φs hφ).trans hl
    have hrest : ∀ ψ ∈ rest, ψ.length = cache.length :=
      fun ψ hψ => h ψ (List.mem_cons_of_mem _ hψ)
    simp only [fourierCalls, List.mem_cons] at ho
    rcases ho with rfl | ho
    · exact hout
    · cases mode with
      | inplace => exact ih hrest _ hlen hout out ho
      | copy => exact ih hrest _ hl hc out ho

/-- `rot` is multiplication by `exp(iφ)` in ℂ (ties the pair model to `np.exp(1j*phases)`) -/
theorem rot_eq_mul_exp (z : ℂ) (φ : ℝ) :
    let w := rot realTrig (z.re, z.im) φ
    (⟨w.1, w.2⟩ : ℂ) = z * Complex.exp (φ * Complex.I) := by
  intro w
  apply Complex.ext
  · simp [w, rot, realTrig, Complex.exp_ofReal_mul_I_re, Complex.exp_ofReal_mul_I_im]
  · simp [w, rot, realTrig, Complex.exp_ofReal_mul_I_re, Complex.exp_ofReal_mul_I_im]

theorem norm_mul_exp (z : ℂ) (φ : ℝ) : ‖z * Complex.exp (φ * Complex.I)‖ = ‖z‖ := by
  rw [norm_mul, Complex.norm_exp_ofReal_mul_I, mul_one]

end Pyunicorn.Surrogates
