import Pyunicorn.Lemmas.LineDistRound
import Pyunicorn.Lemmas.VisibilityF32
/-!
C08, round 5: **the binary64 rounding `rnd64` of the model** (`Model/LineDistFloat.lean`:
round-to-nearest-even on a 53-bit significand, exponent of the last place clamped at `-1074`).

* `rnd64_mono` — it is monotone (the hypothesis `MonoRnd` of `round_subset` is a theorem for the
  rounding the driver executes), across exponent boundaries and into the subnormal range;
* `rnd64_zero`, `rnd64_nonneg`;
* `rnd64_fix` — it fixes every non-negative double (`IsF64`: `m · 2^e`, `|m| < 2^53`,
  `e ≥ -1074`; normal, subnormal, zero), `rnd64_isF64` — its value is on the double grid;
* `rnd64_eq_rn53_normal`, `rnd64_eq_rn53_grid` — C09's `rn53` (no clamp; rounds 3–4) is the same
  function in the normal range *and on every multiple of `2^-1074`*, hence on every difference of
  two doubles (`isF64_sub_grid`): gradual underflow never rounds a difference of doubles.

`twoPow`/`roundHalfEven`/`binExp` of C09's model are, definition by definition, `pow2`/`roundEven`/
`floorLog2` of C14's, so C14's grid lemmas (`Lemmas/VisibilityF32.lean`) are reused.
-/
namespace Pyunicorn.LineDist
open Pyunicorn.Generated
open Pyunicorn.Similarity (rn53 twoPow roundHalfEven binExp)
open Pyunicorn.Visibility (pow2 roundEven floorLog2 lg pow2_pos pow2_le_iff pow2_lt_iff pow2_grid
  pow2_add pow2_natCast lg_spec lg_mono grid_le grid_ge roundEven_monotone roundEven_intCast)

theorem twoPow_eq_pow2 (z : Int) : twoPow z = pow2 z := rfl

theorem roundHalfEven_eq (x : ℚ) : roundHalfEven x = roundEven x := rfl

theorem binExp_eq_lg (x : ℚ) (hx : 0 < x) : binExp x = lg x := by
  have hn : 0 < x.num := Rat.num_pos.mpr hx
  have e1 : x.num.toNat = x.num.natAbs := by omega
  have e2 : ((x.num.natAbs : Nat) : ℚ) / (x.den : ℚ) = x := by
    have h1 : ((x.num.natAbs : Nat) : ℚ) = (x.num : ℚ) := by
      rw [Nat.cast_natAbs, abs_of_pos hn]
    rw [h1]; exact Rat.num_div_den x
  unfold binExp lg floorLog2
  simp only [e1, e2, twoPow_eq_pow2]

/-- the exponent of the last place of a positive double: clamped at `-1074` -/
def e64 (a : ℚ) : Int := if lg a - 52 < -1074 then -1074 else lg a - 52

theorem e64_ge (a : ℚ) : -1074 ≤ e64 a := by unfold e64; split <;> omega
theorem e64_ge' (a : ℚ) : lg a - 52 ≤ e64 a := by unfold e64; split <;> omega

theorem rnd64_pos (x : ℚ) (hx : 0 < x) :
    rnd64 x = ((roundEven (x / pow2 (e64 x)) : Int) : ℚ) * pow2 (e64 x) := by
  unfold rnd64
  rw [if_neg (not_le.mpr hx)]
  simp only [binExp_eq_lg x hx, twoPow_eq_pow2, roundHalfEven_eq, e64]

theorem rn53_pos (x : ℚ) (hx : 0 < x) :
    rn53 x = ((roundEven (x / pow2 (lg x - 52)) : Int) : ℚ) * pow2 (lg x - 52) := by
  unfold rn53
  rw [if_neg (not_le.mpr hx)]
  simp only [binExp_eq_lg x hx, twoPow_eq_pow2, roundHalfEven_eq]

theorem rnd64_zero : rnd64 0 = 0 := by simp [rnd64]

theorem rnd64_nonpos (x : ℚ) (hx : x ≤ 0) : rnd64 x = 0 := by simp [rnd64, hx]

theorem rnd64_nonneg (x : ℚ) : 0 ≤ rnd64 x := by
  rcases le_or_gt x 0 with h | h
  · rw [rnd64_nonpos x h]
  · rw [rnd64_pos x h]
    have := grid_ge (e64 x) x 0 (by simp; exact le_of_lt h)
    simpa using this

/-- monotone on the positive rationals, across exponent boundaries and the clamp -/
theorem rnd64_mono_pos (a b : ℚ) (ha : 0 < a) (h : a ≤ b) : rnd64 a ≤ rnd64 b := by
  have hb : 0 < b := lt_of_lt_of_le ha h
  rw [rnd64_pos a ha, rnd64_pos b hb]
  have hl := lg_mono a b ha h
  rcases lt_or_eq_of_le (show e64 a ≤ e64 b by unfold e64; split <;> split <;> omega)
    with hlt | heq
  · -- the power of two `2^(lg b)` separates the arguments and lies on both grids
    have hlb : lg a < lg b := by
      by_contra hc
      have : lg a = lg b := by omega
      unfold e64 at hlt; rw [this] at hlt; omega
    have heb : e64 b = lg b - 52 := by
      have := e64_ge a
      unfold e64 at hlt ⊢; split <;> [skip; rfl]
      rename_i h1; rw [if_pos h1] at hlt; omega
    have hea : e64 a ≤ lg b := by omega
    have hac : a ≤ pow2 (lg b) := by
      have h1 := (lg_spec a ha).2
      have h2 : pow2 (lg a + 1) ≤ pow2 (lg b) := by rw [pow2_le_iff]; omega
      linarith
    have hcb : pow2 (lg b) ≤ b := (lg_spec b hb).1
    have g1 := pow2_grid (e64 a) (lg b) hea
    have g2 := pow2_grid (e64 b) (lg b) (by omega)
    have r1 := grid_le (e64 a) a _ (by rw [← g1]; exact hac)
    have r2 := grid_ge (e64 b) b _ (by rw [← g2]; exact hcb)
    rw [← g1] at r1
    rw [← g2] at r2
    exact le_trans r1 r2
  · rw [heq]
    have hp := pow2_pos (e64 b)
    have h1 : a / pow2 (e64 b) ≤ b / pow2 (e64 b) := by
      rw [div_le_div_iff_of_pos_right hp]; exact h
    have h2 := roundEven_monotone _ _ h1
    have h3 : ((roundEven (a / pow2 (e64 b)) : Int) : ℚ)
        ≤ ((roundEven (b / pow2 (e64 b)) : Int) : ℚ) := by exact_mod_cast h2
    exact mul_le_mul_of_nonneg_right h3 (le_of_lt hp)

/-- **the binary64 rounding of the model is monotone** -/
theorem rnd64_mono : MonoRnd rnd64 := by
  intro a b h
  rcases le_or_gt a 0 with ha | ha
  · rw [rnd64_nonpos a ha]; exact rnd64_nonneg b
  · exact rnd64_mono_pos a b ha h

/-! ### doubles -/

/-- a finite double without the overflow bound: `m · 2^e`, `|m| < 2^53`, `e ≥ -1074` (normal and
subnormal numbers and zero) -/
def IsF64 (f : ℚ) : Prop := ∃ m e : Int, -1074 ≤ e ∧ |m| < 2 ^ 53 ∧ f = (m : ℚ) * pow2 e

/-- an integer multiple of the smallest subnormal `2^-1074` -/
def OnGrid (x : ℚ) : Prop := ∃ z : Int, x = (z : ℚ) * pow2 (-1074)

theorem isF64_onGrid (f : ℚ) (h : IsF64 f) : OnGrid f := by
  obtain ⟨m, e, he, _, rfl⟩ := h
  refine ⟨m * ((2 ^ (e - (-1074)).toNat : Nat) : Int), ?_⟩
  rw [pow2_grid (-1074) e he]
  push_cast; ring

theorem onGrid_sub (x y : ℚ) (hx : OnGrid x) (hy : OnGrid y) : OnGrid (x - y) := by
  obtain ⟨a, rfl⟩ := hx
  obtain ⟨b, rfl⟩ := hy
  exact ⟨a - b, by push_cast; ring⟩

/-- the difference `|a - b|` of two doubles is a multiple of `2^-1074` -/
theorem isF64_sub_grid (a b : ℚ) (ha : IsF64 a) (hb : IsF64 b) : OnGrid (adiff a b) := by
  unfold adiff
  split
  · exact onGrid_sub _ _ (isF64_onGrid b hb) (isF64_onGrid a ha)
  · exact onGrid_sub _ _ (isF64_onGrid a ha) (isF64_onGrid b hb)

/-- a positive `m · 2^e` with `m < 2^53`: its exponent of the last place is at most `e` -/
theorem lg_sub52_le (m : Int) (e : Int) (hm0 : 0 < m) (hm : m < 2 ^ 53) :
    lg ((m : ℚ) * pow2 e) - 52 ≤ e := by
  have hp := pow2_pos e
  have hf : 0 < (m : ℚ) * pow2 e := mul_pos (by exact_mod_cast hm0) hp
  have h1 := (lg_spec _ hf).1
  have h2 : (m : ℚ) * pow2 e < pow2 (53 + e) := by
    rw [pow2_add]
    have : pow2 (53 : Int) = ((2 ^ 53 : Nat) : ℚ) := pow2_natCast 53
    rw [this]
    have : (m : ℚ) < ((2 ^ 53 : Nat) : ℚ) := by exact_mod_cast hm
    exact mul_lt_mul_of_pos_right this hp
  have : pow2 (lg ((m : ℚ) * pow2 e)) < pow2 (53 + e) := lt_of_le_of_lt h1 h2
  rw [pow2_lt_iff] at this
  omega

/-- rounding to a grid `2^E` fixes `m · 2^e` when `E ≤ e` -/
theorem grid_fix (m e E : Int) (h : E ≤ e) :
    ((roundEven ((m : ℚ) * pow2 e / pow2 E) : Int) : ℚ) * pow2 E = (m : ℚ) * pow2 e := by
  have hp := pow2_pos E
  rw [pow2_grid E e h]
  have : (m : ℚ) * ((((2 ^ (e - E).toNat : Nat) : Int) : ℚ) * pow2 E) / pow2 E
      = (((m * ((2 ^ (e - E).toNat : Nat) : Int)) : Int) : ℚ) := by
    push_cast; field_simp
  rw [this, roundEven_intCast]
  push_cast; ring

/-- **`rnd64` fixes every non-negative double** (normal, subnormal, zero) -/
theorem rnd64_fix (f : ℚ) (hf : IsF64 f) (h0 : 0 ≤ f) : rnd64 f = f := by
  rcases lt_or_eq_of_le h0 with hpos | hz
  · obtain ⟨m, e, he, hm, rfl⟩ := hf
    have hp := pow2_pos e
    have hm0 : 0 < m := by
      have : (0 : ℚ) < (m : ℚ) := by
        by_contra hc
        have : (m : ℚ) * pow2 e ≤ 0 := mul_nonpos_of_nonpos_of_nonneg (not_lt.mp hc) (le_of_lt hp)
        linarith
      exact_mod_cast this
    have hm' : m < 2 ^ 53 := lt_of_le_of_lt (le_abs_self m) hm
    rw [rnd64_pos _ hpos]
    apply grid_fix
    have := lg_sub52_le m e hm0 hm'
    unfold e64; split <;> omega
  · rw [← hz]; exact rnd64_zero

/-- C09's unclamped `rn53` fixes every `m · 2^e`, `0 ≤ m < 2^53`, whatever the exponent -/
theorem rn53_fix (m e : Int) (hm0 : 0 ≤ m) (hm : m < 2 ^ 53) :
    rn53 ((m : ℚ) * pow2 e) = (m : ℚ) * pow2 e := by
  rcases lt_or_eq_of_le hm0 with hpos | hz
  · have hf : 0 < (m : ℚ) * pow2 e := mul_pos (by exact_mod_cast hpos) (pow2_pos e)
    rw [rn53_pos _ hf]
    exact grid_fix m e _ (lg_sub52_le m e hpos hm)
  · rw [← hz]; simp [rn53]

/-- in the normal range the clamp is inactive: `rnd64` is C09's `rn53` -/
theorem rnd64_eq_rn53_normal (x : ℚ) (h : x ≤ 0 ∨ -1022 ≤ lg x) : rnd64 x = rn53 x := by
  rcases le_or_gt x 0 with hx | hx
  · rw [rnd64_nonpos x hx]; simp [rn53, hx]
  · rcases h with h | h
    · exact absurd hx (not_lt.mpr h)
    · rw [rnd64_pos x hx, rn53_pos x hx]
      have : e64 x = lg x - 52 := by unfold e64; split <;> omega
      rw [this]

/-- **gradual underflow never rounds a multiple of `2^-1074`**: on the grid of the differences of
doubles the clamped rounding and C09's `rn53` are the same function -/
theorem rnd64_eq_rn53_grid (x : ℚ) (hg : OnGrid x) : rnd64 x = rn53 x := by
  rcases le_or_gt x 0 with hx | hx
  · exact rnd64_eq_rn53_normal x (Or.inl hx)
  · by_cases hn : -1022 ≤ lg x
    · exact rnd64_eq_rn53_normal x (Or.inr hn)
    · obtain ⟨z, rfl⟩ := hg
      have hp := pow2_pos (-1074)
      have hz0 : 0 < z := by
        have : (0 : ℚ) < (z : ℚ) := by
          by_contra hc
          have : (z : ℚ) * pow2 (-1074) ≤ 0 :=
            mul_nonpos_of_nonpos_of_nonneg (not_lt.mp hc) (le_of_lt hp)
          linarith
        exact_mod_cast this
      -- x < 2^-1022 = 2^52 · 2^-1074, so z < 2^52
      have h2 := (lg_spec _ hx).2
      have h3 : pow2 (lg ((z : ℚ) * pow2 (-1074)) + 1) ≤ pow2 (-1022) := by
        rw [pow2_le_iff]; omega
      have h4 : pow2 (-1022) = (((2 ^ 52 : Nat) : Int) : ℚ) * pow2 (-1074) := by
        have := pow2_grid (-1074) (-1022) (by omega)
        simpa using this
      have h5 : (z : ℚ) < (((2 ^ 52 : Nat) : Int) : ℚ) := by
        have : (z : ℚ) * pow2 (-1074) < (((2 ^ 52 : Nat) : Int) : ℚ) * pow2 (-1074) := by
          rw [← h4]; linarith
        exact lt_of_mul_lt_mul_right this (le_of_lt hp)
      have hz : z < 2 ^ 53 := by
        have : z < ((2 ^ 52 : Nat) : Int) := by exact_mod_cast h5
        have e : ((2 ^ 52 : Nat) : Int) < 2 ^ 53 := by norm_num
        omega
      rw [rn53_fix z (-1074) (le_of_lt hz0) hz, rnd64_pos _ hx]
      apply grid_fix
      unfold e64; split <;> omega

/-- the value of `rnd64` is a multiple of `2^-1074` (it is on the double grid) -/
theorem rnd64_onGrid (x : ℚ) : OnGrid (rnd64 x) := by
  rcases le_or_gt x 0 with hx | hx
  · rw [rnd64_nonpos x hx]; exact ⟨0, by simp⟩
  · rw [rnd64_pos x hx]
    refine ⟨roundEven (x / pow2 (e64 x)) * ((2 ^ (e64 x - (-1074)).toNat : Nat) : Int), ?_⟩
    rw [pow2_grid (-1074) (e64 x) (e64_ge x)]
    push_cast; ring

/-! ### rounding never invents a recurrence — on every embedding (NaN, infinities included) -/

/-- how the running maximum over the rounded differences (left) relates to the one over the exact
differences (right) of the same pair of state vectors: both `+inf`, or both finite and every
threshold the rounding does not lower that lies above the rounded maximum lies above the exact one -/
inductive AccRel (rnd : Rat → Rat) : X → X → Prop
  | inf : AccRel rnd .pinf .pinf
  | fin (p q : Rat) (h : ∀ t, t ≤ rnd t → p < t → q < t) : AccRel rnd (.fin p) (.fin q)

theorem absdiff_cases (rnd : Rat → Rat) (a b : X) :
    (X.absdiff rnd a b = .nan ∧ X.absdiff id a b = .nan) ∨
    (X.absdiff rnd a b = .pinf ∧ X.absdiff id a b = .pinf) ∨
    ∃ q, X.absdiff rnd a b = .fin (rnd q) ∧ X.absdiff id a b = .fin q := by
  cases a <;> cases b <;> simp [X.absdiff]

theorem lt_of_mono_fix (rnd : Rat → Rat) (hm : MonoRnd rnd) (q t : Rat) (ht : t ≤ rnd t)
    (h : rnd q < t) : q < t := by
  by_contra hc
  have := hm _ _ (not_lt.mp hc)
  exact absurd h (not_lt.mpr (le_trans ht this))

theorem accRel_step (rnd : Rat → Rat) (hm : MonoRnd rnd) (a b dr de : X) (h : AccRel rnd dr de) :
    AccRel rnd (if X.gt (X.absdiff rnd a b) dr then X.absdiff rnd a b else dr)
      (if X.gt (X.absdiff id a b) de then X.absdiff id a b else de) := by
  rcases absdiff_cases rnd a b with ⟨h1, h2⟩ | ⟨h1, h2⟩ | ⟨q, h1, h2⟩ <;> rw [h1, h2]
  · simpa [X.gt_nan_left] using h
  · cases h with
    | inf => simpa [X.gt, X.lt] using AccRel.inf
    | fin p q hpq => simpa [X.gt, X.lt] using AccRel.inf
  · cases h with
    | inf => simpa [X.gt, X.lt] using AccRel.inf
    | fin p q0 hpq =>
      simp only [X.gt, X.lt, decide_eq_true_eq]
      split <;> split <;> refine .fin _ _ (fun t ht hlt => ?_)
      · exact lt_of_mono_fix rnd hm q t ht hlt
      · rename_i h1 _; exact hpq t ht (lt_trans h1 hlt)
      · rename_i h1 _; exact lt_of_mono_fix rnd hm q t ht (lt_of_le_of_lt (not_lt.mp h1) hlt)
      · exact hpq t ht hlt

theorem accRel_fold (rnd : Rat → Rat) (hm : MonoRnd rnd) (L : List Nat) (A B : Nat → X)
    (dr de : X) (h : AccRel rnd dr de) :
    AccRel rnd
      (L.foldl (fun (diff : X) (l : Nat) =>
        if X.gt (X.absdiff rnd (A l) (B l)) diff then X.absdiff rnd (A l) (B l) else diff) dr)
      (L.foldl (fun (diff : X) (l : Nat) =>
        if X.gt (X.absdiff id (A l) (B l)) diff then X.absdiff id (A l) (B l) else diff) de) := by
  induction L generalizing dr de with
  | nil => exact h
  | cons a t ih =>
    simp only [List.foldl_cons]
    exact ih _ _ (accRel_step rnd hm (A a) (B a) dr de h)

/-- the generated `metric_supremum` with rounded and with exact differences, any samples -/
theorem metric_accRel (rnd : Rat → Rat) (hm : MonoRnd rnd) (I j dim : Int) (E : Int → Int → X) :
    AccRel rnd (StructC08.metric_supremum (xOps rnd) I j dim E)
      (StructC08.metric_supremum (xOps id) I j dim E) := by
  unfold StructC08.metric_supremum
  simp only [xOps]
  exact accRel_fold rnd hm _ (fun l : Nat => E I l) (fun l : Nat => E j l) _ _
    (.fin 0 0 (fun _ _ h => h))

/-- a threshold the rounding does not lower: a finite one satisfies `t ≤ rnd t` (for `rnd64`: every
double — fixed when `t ≥ 0`, sent to `0` when negative); `inf` and NaN are not rounded at all -/
def FixedEps (rnd : Rat → Rat) (eps : X) : Prop := ∀ t, eps = .fin t → t ≤ rnd t

/-- every double threshold (negative ones too), `inf` and NaN qualify for the binary64 rounding -/
theorem fixedEps_rnd64 (eps : X) (h : ∀ t, eps = .fin t → IsF64 t) : FixedEps rnd64 eps := by
  intro t ht
  rcases le_or_gt 0 t with h0 | h0
  · rw [rnd64_fix t (h t ht) h0]
  · exact le_trans (le_of_lt h0) (rnd64_nonneg t)

theorem lt_of_accRel (rnd : Rat → Rat) (dr de : X) (h : AccRel rnd dr de) (eps : X)
    (he : FixedEps rnd eps) (hlt : X.lt dr eps = true) : X.lt de eps = true := by
  cases h with
  | inf => rw [X.lt_pinf_left] at hlt; exact Bool.noConfusion hlt
  | fin p q hpq =>
    cases eps with
    | fin t =>
      simp only [X.lt, decide_eq_true_eq] at hlt ⊢
      exact hpq t (he t rfl) hlt
    | pinf => rfl
    | ninf => exact hlt
    | nan => exact hlt

/-- an infinite threshold (`threshold=inf`) or a NaN one: rounding changes nothing at all -/
theorem lt_inf_of_accRel (rnd : Rat → Rat) (dr de : X) (h : AccRel rnd dr de) (eps : X)
    (he : ∀ t, eps ≠ .fin t) : X.lt dr eps = X.lt de eps := by
  cases h with
  | inf => rw [X.lt_pinf_left]
  | fin p q hpq =>
    cases eps with
    | fin t => exact absurd rfl (he t)
    | pinf => rfl
    | ninf => rfl
    | nan => rfl

theorem at_tab_out (n : Nat) (f : Nat → Nat → Bool) (i j : Nat) (h : ¬ (i < n ∧ j < n)) :
    Mat.at (Recurrence.tab n n f) i j = false := by
  unfold Mat.at Recurrence.tab
  by_cases hi : i < n
  · have hj : ¬ j < n := fun hj => h ⟨hi, hj⟩
    simp [List.getD_eq_getElem?_getD, hi, hj]
  · simp [List.getD_eq_getElem?_getD, hi]

/-- **the stored matrix in doubles is contained in the exact one**: every monotone rounding, every
embedding (finite, infinite, NaN samples), every threshold that the rounding fixes (any double,
`inf`, NaN), `missing_values` on or off, every cell -/
theorem fixedThresholdX_subset (rnd : Rat → Rat) (hm : MonoRnd rnd) (emb : List (List X)) (eps : X)
    (he : FixedEps rnd eps) (dim : Nat) (mv : Bool) (I j : Nat)
    (h : Mat.at (fixedThresholdX rnd emb eps dim mv) I j = true) :
    Mat.at (fixedThresholdX id emb eps dim mv) I j = true := by
  unfold fixedThresholdX at h ⊢
  simp only [] at h ⊢
  by_cases hr : I < emb.length ∧ j < emb.length
  · rw [at_tab _ _ _ _ _ hr.1 hr.2] at h ⊢
    rw [Bool.and_eq_true] at h ⊢
    refine ⟨?_, h.2⟩
    have h1 := h.1
    unfold StructC08._supremum_distance_matrix_rp at h1 ⊢
    simp only [] at h1 ⊢
    split
    · rename_i hc; rw [if_pos hc] at h1
      exact lt_of_accRel rnd _ _ (metric_accRel rnd hm _ _ _ _) eps he h1
    · rename_i hc; rw [if_neg hc] at h1
      split
      · rename_i hc2; rw [if_pos hc2] at h1
        exact lt_of_accRel rnd _ _ (metric_accRel rnd hm _ _ _ _) eps he h1
      · rename_i hc2; rw [if_neg hc2] at h1
        exact h1
  · rw [at_tab_out _ _ _ _ hr] at h
    exact Bool.noConfusion h

/-! ### `rnd64 q` is a double nearest to `q` (the IEEE specification of round-to-nearest) -/

theorem rnd64_scaled_le (a : ℚ) (ha : 0 < a) : a / pow2 (e64 a) ≤ ((2 ^ 53 : Nat) : ℚ) := by
  have hp := pow2_pos (e64 a)
  rw [div_le_iff₀ hp]
  have h1 := (lg_spec a ha).2
  have h2 : pow2 (lg a + 1) ≤ pow2 (53 + e64 a) := by
    rw [pow2_le_iff]; have := e64_ge' a; omega
  rw [pow2_add 53] at h2
  have : pow2 53 = ((2 ^ 53 : Nat) : ℚ) := pow2_natCast 53
  rw [this] at h2
  linarith

/-- the value is a double (`m · 2^e`, `|m| < 2^53`, `e ≥ -1074`; overflow is not modelled) -/
theorem rnd64_isF64 (a : ℚ) : IsF64 (rnd64 a) := by
  rcases le_or_gt a 0 with ha | ha
  · rw [rnd64_nonpos a ha]; exact ⟨0, 0, by omega, by norm_num, by simp⟩
  rw [rnd64_pos a ha]
  have hp := pow2_pos (e64 a)
  have hn0 : 0 ≤ roundEven (a / pow2 (e64 a)) := by
    have h := roundEven_monotone 0 (a / pow2 (e64 a)) (by positivity)
    have : roundEven 0 = 0 := by simpa using roundEven_intCast 0
    rw [this] at h; exact h
  have hn1 : roundEven (a / pow2 (e64 a)) ≤ 2 ^ 53 := by
    have h := roundEven_monotone _ _ (rnd64_scaled_le a ha)
    have : roundEven (((2 ^ 53 : Nat) : ℚ)) = 2 ^ 53 := by
      have := roundEven_intCast (2 ^ 53)
      push_cast at this ⊢
      exact this
    rw [this] at h; exact h
  rcases lt_or_eq_of_le hn1 with hlt | heq
  · exact ⟨roundEven (a / pow2 (e64 a)), e64 a, e64_ge a,
      by rw [abs_of_nonneg hn0]; exact hlt, rfl⟩
  · refine ⟨2 ^ 52, e64 a + 1, by have := e64_ge a; omega, by norm_num, ?_⟩
    rw [heq, Visibility.pow2_succ]
    push_cast; ring

/-- **no double is closer to `a` than `rnd64 a`** (`a > 0`; for `a ≤ 0` the kernels never call
it: the argument is an absolute value) -/
theorem rnd64_nearest (a : ℚ) (ha : 0 < a) (f : ℚ) (hf : IsF64 f) :
    |rnd64 a - a| ≤ |f - a| := by
  obtain ⟨m, e', he', hm, rfl⟩ := hf
  rw [rnd64_pos a ha]
  have hp := pow2_pos (e64 a)
  -- nearest among the points of the grid of `a`
  have grid : ∀ z : Int, |((roundEven (a / pow2 (e64 a)) : Int) : ℚ) * pow2 (e64 a) - a|
      ≤ |(z : ℚ) * pow2 (e64 a) - a| := by
    intro z
    have h := Visibility.roundEven_nearest_int (a / pow2 (e64 a)) z
    have e1 : ((roundEven (a / pow2 (e64 a)) : Int) : ℚ) * pow2 (e64 a) - a
        = (((roundEven (a / pow2 (e64 a)) : Int) : ℚ) - a / pow2 (e64 a)) * pow2 (e64 a) := by
      field_simp
    have e2 : (z : ℚ) * pow2 (e64 a) - a = ((z : ℚ) - a / pow2 (e64 a)) * pow2 (e64 a) := by
      field_simp
    rw [e1, e2, abs_mul, abs_mul, abs_of_pos hp]
    exact mul_le_mul_of_nonneg_right h (le_of_lt hp)
  by_cases hee : e64 a ≤ e'
  · have g := pow2_grid (e64 a) e' hee
    have := grid (m * ((2 ^ (e' - e64 a).toNat : Nat) : Int))
    rw [g]
    push_cast at this ⊢
    rw [← mul_assoc]
    exact this
  · -- a double with a finer last place is below `2^(lg a) ≤ a`, which is on the grid of `a`
    have hlt : e' < e64 a := by omega
    have hea : e64 a = lg a - 52 := by
      unfold e64 at hlt ⊢; split <;> [skip; rfl]
      rename_i h1; rw [if_pos h1] at hlt; omega
    have hc1 : pow2 (lg a) ≤ a := (lg_spec a ha).1
    have hfc : (m : ℚ) * pow2 e' < pow2 (lg a) := by
      have hp' := pow2_pos e'
      have hm' : (m : ℚ) < ((2 ^ 53 : Nat) : ℚ) := by
        have : m < 2 ^ 53 := lt_of_le_of_lt (le_abs_self m) hm
        exact_mod_cast this
      have h1 : (m : ℚ) * pow2 e' < ((2 ^ 53 : Nat) : ℚ) * pow2 e' :=
        mul_lt_mul_of_pos_right hm' hp'
      have h2 : ((2 ^ 53 : Nat) : ℚ) * pow2 e' = pow2 (53 + e') := by
        rw [pow2_add, ← pow2_natCast 53]; rfl
      have h3 : pow2 (53 + e') ≤ pow2 (lg a) := by rw [pow2_le_iff]; omega
      linarith
    have g := pow2_grid (e64 a) (lg a) (by omega)
    have h := grid ((2 ^ (lg a - e64 a).toNat : Nat) : Int)
    rw [← g] at h
    have h4 : |pow2 (lg a) - a| = a - pow2 (lg a) := by
      rw [abs_sub_comm]; exact abs_of_nonneg (by linarith)
    have h5 : |(m : ℚ) * pow2 e' - a| = a - (m : ℚ) * pow2 e' := by
      rw [abs_sub_comm]; exact abs_of_nonneg (by linarith)
    rw [h5]; rw [h4] at h; linarith

/-- **ties go to the even significand**: when `a` lies exactly halfway between two neighbouring
points of its grid the integer significand chosen is even -/
theorem rnd64_tie_even (a : ℚ) (_ha : 0 < a)
    (h : a / pow2 (e64 a) - ((a / pow2 (e64 a)).floor : ℚ) = 1 / 2) :
    roundEven (a / pow2 (e64 a)) % 2 = 0 :=
  Visibility.roundEven_tie _ h

end Pyunicorn.LineDist
