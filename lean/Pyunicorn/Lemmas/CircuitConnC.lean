import Pyunicorn.Lemmas.CircuitConn
import Mathlib.Data.Finset.Card
/-! C18, round 3: **completeness** of the model's executable connectivity test.  `connected`
(BFS from node 0, `n` sweeps) accepts every cut-connected network; together with
`connected_sound` the test *decides* the hypothesis `CutConnected` of the circuit theorems.

Proof: the set of seen nodes grows monotonically inside `0..n-1`; a sweep that adds nothing is a
fixed point of all later sweeps (`Stable`); a sweep that adds something raises the cardinality,
which is bounded by `n` — so after `n` sweeps the set is stable.  A stable set that contains node 0
and misses some node is a cut without a crossing link. -/
namespace Pyunicorn.Circuit

/-- the seen-list after `k` sweeps -/
def bfsIter (n : Nat) (adj : Adj) (k : Nat) : List Nat :=
  (List.range k).foldl (fun seen _ => growStep n adj seen) [0]

theorem bfsIter_succ (n : Nat) (adj : Adj) (k : Nat) :
    bfsIter n adj (k + 1) = growStep n adj (bfsIter n adj k) := by
  unfold bfsIter
  rw [List.range_succ, List.foldl_append]
  rfl

theorem mem_growStep (n : Nat) (adj : Adj) (seen : List Nat) (x : Nat) :
    x ∈ growStep n adj seen
      ↔ x < n ∧ (x ∈ seen ∨ ∃ i ∈ seen, (adj i x || adj x i) = true) := by
  unfold growStep
  rw [List.mem_filter, List.mem_range, Bool.or_eq_true, List.any_eq_true]
  simp only [List.contains_iff_mem]

theorem bfsIter_lt (n : Nat) (hn : 0 < n) (adj : Adj) (k : Nat) :
    ∀ x ∈ bfsIter n adj k, x < n := by
  cases k with
  | zero =>
    intro x hx
    have : x = 0 := by simpa [bfsIter] using hx
    omega
  | succ k =>
    intro x hx
    rw [bfsIter_succ] at hx
    exact ((mem_growStep n adj _ x).mp hx).1

theorem bfsIter_mono (n : Nat) (hn : 0 < n) (adj : Adj) (k : Nat) :
    ∀ x ∈ bfsIter n adj k, x ∈ bfsIter n adj (k + 1) := by
  intro x hx
  rw [bfsIter_succ]
  exact (mem_growStep n adj _ x).mpr ⟨bfsIter_lt n hn adj k x hx, Or.inl hx⟩

theorem bfsIter_zero_mem (n : Nat) (hn : 0 < n) (adj : Adj) (k : Nat) : 0 ∈ bfsIter n adj k := by
  induction k with
  | zero => simp [bfsIter]
  | succ k ih => exact bfsIter_mono n hn adj k 0 ih

/-- a sweep adds nothing -/
def Stable (n : Nat) (adj : Adj) (s : List Nat) : Prop := ∀ x, x ∈ growStep n adj s → x ∈ s

theorem stable_step (n : Nat) (adj : Adj) (s : List Nat) (h : Stable n adj s) :
    Stable n adj (growStep n adj s) := by
  intro x hx
  rw [mem_growStep] at hx
  obtain ⟨hxn, hx | ⟨i, hi, hl⟩⟩ := hx
  · exact hx
  · exact (mem_growStep n adj s x).mpr ⟨hxn, Or.inr ⟨i, h i hi, hl⟩⟩

/-- after `k` sweeps the seen set has more than `k` elements, or it is stable -/
theorem bfs_dichotomy (n : Nat) (hn : 0 < n) (adj : Adj) (k : Nat) :
    k + 1 ≤ (bfsIter n adj k).toFinset.card ∨ Stable n adj (bfsIter n adj k) := by
  induction k with
  | zero => left; simp [bfsIter]
  | succ k ih =>
    rcases ih with ih | ih
    · by_cases hst : Stable n adj (bfsIter n adj k)
      · right; rw [bfsIter_succ]; exact stable_step n adj _ hst
      · left
        unfold Stable at hst
        push Not at hst
        obtain ⟨x, hx, hxn⟩ := hst
        have hlt : (bfsIter n adj k).toFinset.card < (bfsIter n adj (k + 1)).toFinset.card := by
          apply Finset.card_lt_card
          refine ⟨?_, ?_⟩
          · intro y hy
            rw [List.mem_toFinset] at hy ⊢
            exact bfsIter_mono n hn adj k y hy
          · intro hsub
            have : x ∈ (bfsIter n adj (k + 1)).toFinset := by
              rw [List.mem_toFinset, bfsIter_succ]; exact hx
            exact hxn (List.mem_toFinset.mp (hsub this))
        omega
    · right; rw [bfsIter_succ]; exact stable_step n adj _ ih

theorem bfs_stable_at_n (n : Nat) (hn : 0 < n) (adj : Adj) : Stable n adj (bfsIter n adj n) := by
  rcases bfs_dichotomy n hn adj n with h | h
  · exfalso
    have hsub : (bfsIter n adj n).toFinset ⊆ Finset.range n := by
      intro y hy
      rw [List.mem_toFinset] at hy
      exact Finset.mem_range.mpr (bfsIter_lt n hn adj n y hy)
    have := Finset.card_le_card hsub
    rw [Finset.card_range] at this
    omega
  · exact h

/-- **completeness of the model's connectivity test**: every cut-connected network is accepted
(no hypothesis on the resistances is needed: a non-zero admittance entry is a link) -/
theorem connected_complete' (n : Nat) (adj : Adj) (res : Mat)
    (h : CutConnected n (admittance adj res)) : connected n adj = true := by
  rw [connected_unfold]
  rcases Nat.eq_zero_or_pos n with h0 | hn
  · subst h0; rfl
  have hz : (n == 0) = false := by
    rw [beq_eq_false_iff_ne]; omega
  rw [hz, Bool.false_or, beq_iff_eq]
  change (bfsIter n adj n).length = n
  have hst := bfs_stable_at_n n hn adj
  have hall : ∀ j, j < n → j ∈ bfsIter n adj n := by
    intro j hj
    by_contra hjn
    obtain ⟨u, w, hu, hw, hSu, hSw, hne⟩ :=
      h (fun i => decide (i ∈ bfsIter n adj n)) ⟨0, hn, by simpa using bfsIter_zero_mem n hn adj n⟩
        ⟨j, hj, by simpa using hjn⟩
    have hu' : u ∈ bfsIter n adj n := by simpa using hSu
    have hw' : w ∉ bfsIter n adj n := by simpa using hSw
    have hadj : adj u w = true := by
      unfold admittance at hne
      by_contra hc
      rw [if_neg hc] at hne
      exact hne rfl
    exact hw' (hst w ((mem_growStep n adj _ w).mpr ⟨hw, Or.inr ⟨u, hu', by simp [hadj]⟩⟩))
  obtain ⟨m, rfl⟩ : ∃ m, n = m + 1 := ⟨n - 1, by omega⟩
  have hfil : bfsIter (m + 1) adj (m + 1) = List.range (m + 1) := by
    rw [bfsIter_succ]
    unfold growStep
    rw [List.filter_eq_self]
    intro a ha
    have hmem := hall a (List.mem_range.mp ha)
    rw [bfsIter_succ] at hmem
    unfold growStep at hmem
    exact (List.mem_filter.mp hmem).2
  rw [hfil, List.length_range]

theorem connected_complete (n : Nat) (adj : Adj) (res : Mat) (_hN : IsNetwork n adj res)
    (h : CutConnected n (admittance adj res)) : connected n adj = true :=
  connected_complete' n adj res h

/-- the executable test decides cut-connectedness of a resistor network -/
theorem connected_iff (n : Nat) (adj : Adj) (res : Mat) (hN : IsNetwork n adj res) :
    connected n adj = true ↔ CutConnected n (admittance adj res) :=
  ⟨connected_sound n adj res hN, connected_complete' n adj res⟩

end Pyunicorn.Circuit
