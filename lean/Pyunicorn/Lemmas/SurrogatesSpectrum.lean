import Pyunicorn.Lemmas.SurrogatesPhase
import Pyunicorn.Lemmas.SurrogatesDFT
import Pyunicorn.Lemmas.SurrogatesPerm
/-! C15: the spectrum clauses at full strength.  The list model of the phase multiplication
(`fourierCalls`) and of the refinement loop's spectrum (`specInRow`) is composed with the
mathematical real DFT pair (`DFT.rfft`, `DFT.irfft` — what `numpy.fft.rfft/irfft` compute up to
rounding): the surrogate's amplitude spectrum is the original one. -/
namespace Pyunicorn.Surrogates
open Pyunicorn.Surrogates.DFT

/-- a (re, im) pair as a complex number -/
def toC (p : ℝ × ℝ) : ℂ := ⟨p.1, p.2⟩

/-- bins `0 … n/2` of the `rfft` of a real series, as the (re, im) pairs the model works on -/
noncomputable def spectrum {n : ℕ} [NeZero n] (x : ZMod n → ℝ) : List (ℝ × ℝ) :=
  (List.range (n / 2 + 1)).map fun f => ((rfft x f).re, (rfft x f).im)

/-- a row of pairs read as the array handed to `irfft` -/
def rowFn (row : List (ℝ × ℝ)) : ℕ → ℂ := fun g => toC (row.getD g (0, 0))

noncomputable def realPolar : Polar ℝ :=
  { realTrig with sqrt := Real.sqrt, angle := fun re im => Complex.arg ⟨re, im⟩ }

theorem norm_toC (p : ℝ × ℝ) : ‖toC p‖ = Real.sqrt (Pyunicorn.Surrogates.normSq p) := by
  rw [Complex.norm_eq_sqrt_sq_add_sq]
  simp [toC, Pyunicorn.Surrogates.normSq, sq]

theorem norm_toC_eq_of_normSq {p q : ℝ × ℝ}
    (h : Pyunicorn.Surrogates.normSq p = Pyunicorn.Surrogates.normSq q) : ‖toC p‖ = ‖toC q‖ := by
  rw [norm_toC, norm_toC, h]

theorem spectrum_length {n : ℕ} [NeZero n] (x : ZMod n → ℝ) : (spectrum x).length = n / 2 + 1 := by
  simp [spectrum]

theorem toC_spectrum {n : ℕ} [NeZero n] (x : ZMod n → ℝ) (f : ℕ) (hf : f < n / 2 + 1) :
    toC ((spectrum x).getD f (0, 0)) = rfft x f := by
  simp [spectrum, hf, toC]

/-- two rows with the same squared moduli have the same moduli entry by entry -/
theorem norm_getD_eq_of_map_normSq {a b : List (ℝ × ℝ)}
    (h : a.map Pyunicorn.Surrogates.normSq = b.map Pyunicorn.Surrogates.normSq) (f : ℕ) :
    ‖toC (a.getD f (0, 0))‖ = ‖toC (b.getD f (0, 0))‖ := by
  have hl : a.length = b.length := by simpa using congrArg List.length h
  by_cases hf : f < a.length
  · have hfb : f < b.length := hl ▸ hf
    have := congrArg (fun l => l[f]?) h
    simp only [List.getElem?_map, List.getElem?_eq_getElem hf, List.getElem?_eq_getElem hfb,
      Option.map_some, Option.some.injEq] at this
    simp only [List.getD_eq_getElem?_getD, List.getElem?_eq_getElem hf,
      List.getElem?_eq_getElem hfb, Option.getD_some]
    exact norm_toC_eq_of_normSq this
  · have hfb : ¬ f < b.length := hl ▸ hf
    simp [List.getD_eq_getElem?_getD, List.getElem?_eq_none (Nat.le_of_not_lt hf),
      List.getElem?_eq_none (Nat.le_of_not_lt hfb)]

/-- `correlated_noise_surrogates`, any call of any history, either mode: composed with the real
DFT pair, the surrogate has the amplitudes of the data at every non-zero, non-Nyquist bin. -/
theorem fourierCalls_surrogate_amplitudes {n : ℕ} [NeZero n] (x : ZMod n → ℝ) (mode : Mode)
    (phases : List (List ℝ)) (h : ∀ φs ∈ phases, φs.length = n / 2 + 1) :
    ∀ out ∈ fourierCalls realTrig mode (spectrum x) phases, ∀ f, 0 < f → 2 * f < n →
      ‖rfft (irfft (n := n) (rowFn out)) f‖ = ‖rfft x f‖ := by
  intro out hout f h0 h2
  have hamp := fourierCalls_amplitudes mode (spectrum x) phases
    (fun φs hφ => by rw [spectrum_length]; exact h φs hφ) out hout
  apply fourier_surrogate_amplitude x (rowFn out) f h0 h2
  have := norm_getD_eq_of_map_normSq hamp f
  rw [toC_spectrum x f (by omega)] at this
  exact this

/-! ### the refinement loop's spectrum -/

theorem specIn_eq (z r : ℝ × ℝ) :
    toC (specIn realPolar z r) = ((‖toC z‖ : ℝ) : ℂ) * Complex.exp (Complex.arg (toC r) * Complex.I) := by
  rw [norm_toC]
  apply Complex.ext
  · simp [specIn, realPolar, realTrig, toC, Complex.exp_ofReal_mul_I_re]
  · simp [specIn, realPolar, realTrig, toC, Complex.exp_ofReal_mul_I_im]

theorem norm_specIn (z r : ℝ × ℝ) : ‖toC (specIn realPolar z r)‖ = ‖toC z‖ := by
  rw [specIn_eq, norm_mul, Complex.norm_exp_ofReal_mul_I, mul_one, Complex.norm_real,
    Real.norm_of_nonneg (norm_nonneg _)]

theorem specInRow_getD (zs rs : List (ℝ × ℝ)) (hl : rs.length = zs.length) (f : ℕ)
    (hf : f < zs.length) :
    (specInRow realPolar zs rs).getD f (0, 0)
      = specIn realPolar (zs.getD f (0, 0)) (rs.getD f (0, 0)) := by
  have hfr : f < rs.length := hl ▸ hf
  simp [specInRow, List.getD_eq_getElem?_getD, hf, hfr]

/-- `refined_AAFT_surrogates`, output "true spectrum", any refinement step (any real array `R`
the step starts from): composed with the real DFT pair, `s` has the amplitudes of the data at
**every** bin, DC and Nyquist included. -/
theorem specIn_surrogate_amplitudes {n : ℕ} [NeZero n] (x R : ZMod n → ℝ) (f : ℕ)
    (h2 : 2 * f ≤ n) :
    ‖rfft (irfft (n := n) (rowFn (specInRow realPolar (spectrum x) (spectrum R)))) f‖
      = ‖rfft x f‖ := by
  have hf : f < n / 2 + 1 := by omega
  have hrow : rowFn (specInRow realPolar (spectrum x) (spectrum R)) f
      = ((‖rfft x f‖ : ℝ) : ℂ) * Complex.exp (Complex.arg (rfft R f) * Complex.I) := by
    unfold rowFn
    rw [specInRow_getD _ _ (by simp [spectrum_length]) f (by simpa [spectrum_length] using hf),
      specIn_eq, toC_spectrum x f hf, toC_spectrum R f hf]
  rcases Nat.eq_zero_or_pos f with rfl | h0
  · rw [rfft_irfft_dc, hrow]
    exact norm_re_real_mul_unit_phase _ (norm_nonneg _) _ (rfft_dc_im R)
  · rcases Nat.lt_or_eq_of_le h2 with hlt | heq
    · rw [rfft_irfft _ f h0 hlt, hrow, norm_mul, Complex.norm_exp_ofReal_mul_I, mul_one,
        Complex.norm_real, Real.norm_of_nonneg (norm_nonneg _)]
    · rw [rfft_irfft_nyquist _ f heq, hrow]
      exact norm_re_real_mul_unit_phase _ (norm_nonneg _) _ (rfft_nyquist_im R f heq)

/-! ### first stage of AAFT -/

theorem rescale_perm (row g : List Rat) (h : g.length = row.length) :
    ∃ ys, rescale row g = some ys ∧ ys.Perm g := by
  have := remap_perm g row h.symm
  simpa [rescale, remap] using this

end Pyunicorn.Surrogates
