import Pyunicorn.Lemmas.NsiCompInv
import Pyunicorn.Lemmas.NsiArenasReg
/-!
Round 5: node-splitting invariance of `nsi_arenas_betweenness` **through its per-component
wrapper**, the analogue of `newmanAt_split`.

`arenasAt G sigOf Vof excl a` — what the wrapper stores at node `a`: 0 for an isolated node, else
`arenasB` of the sub-network of `a`'s component at `a`'s position; `sigOf H` is the stopping rule
as a function of the sub-network (`1`, or `subnet.nsi_twinness()`), `Vof H i` stands for
`splu(1 − sp_Pi).solve(sp_Pi)` on the sub-network `H`.
-/
namespace Pyunicorn.Nsi

section congr
variable {G H : Gr} (h : RangeEq G H)
include h

theorem arenasP_congr (sg sg' : Nat → Nat → Rat)
    (hsg : ∀ a b, a < G.n → b < G.n → sg a b = sg' a b) (i r c : Nat) (hi : i < G.n) (hr : r < G.n)
    (hc : c < G.n) : arenasP G sg i r c = arenasP H sg' i r c := by
  unfold arenasP arenasStop
  rw [aplus_congr h i r hi hr, hsg i r hi hr, nsiQ_congr h r c hr hc, h.hw c hc]

theorem arenasSolves_congr (sg sg' : Nat → Nat → Rat)
    (hsg : ∀ a b, a < G.n → b < G.n → sg a b = sg' a b) (i : Nat) (hi : i < G.n)
    (V : Nat → Nat → Rat) (hV : ArenasSolves G sg i V) : ArenasSolves H sg' i V := by
  intro s j hs hj
  rw [← h.hn] at hs hj ⊢
  rw [← arenasP_congr h sg sg' hsg i s j hi hs hj, ← hV s j hs hj]
  congr 1
  apply sumR_congr; intro m hm
  rw [arenasP_congr h sg sg' hsg i s m hi hs hm]

theorem arenasRegular_congr (sg sg' : Nat → Nat → Rat)
    (hsg : ∀ a b, a < G.n → b < G.n → sg a b = sg' a b) (i : Nat) (hi : i < G.n)
    (hreg : ArenasRegular G sg i) : ArenasRegular H sg' i := by
  intro u hu s hs
  rw [← h.hn] at hs
  apply hreg u _ s hs
  intro s hs
  rw [← hu s (h.hn ▸ hs), ← h.hn]
  congr 1
  apply sumR_congr; intro m hm
  rw [arenasP_congr h sg sg' hsg i s m hi hs hm]

theorem arenasB_congr (V V' : Nat → Nat → Nat → Rat)
    (hV : ∀ i s j, i < G.n → s < G.n → j < G.n → V i s j = V' i s j) (excl : Bool) (j : Nat)
    (hj : j < G.n) : arenasB G V excl j = arenasB H V' excl j := by
  unfold arenasB
  rw [← h.hn, h.hw j hj]
  congr 1
  apply sumR_congr; intro i hi
  rw [h.hw i hi]
  congr 1
  apply sumR_congr; intro s hs
  rw [h.hw s hs, hV i s j hi hs hj, aplus_congr h i s hi hs, aplus_congr h i j hi hj]

end congr

/-- what the wrapper stores at node `a` -/
def arenasAt (G : Gr) (sigOf : Gr → Nat → Nat → Rat) (Vof : Gr → Nat → Nat → Nat → Rat)
    (excl : Bool) (a : Nat) : Rat :=
  let nodes := compNodes G a
  if nodes.length < 2 then 0
  else arenasB (subGr G nodes) (Vof (subGr G nodes)) excl (nodes.idxOf a)

theorem arenasAt_single (G : Gr) (sigOf : Gr → Nat → Nat → Rat) (Vof : Gr → Nat → Nat → Nat → Rat)
    (excl : Bool) (a : Nat) (hlen : (compNodes G a).length < 2) :
    arenasAt G sigOf Vof excl a = 0 := by
  show (if (compNodes G a).length < 2 then _ else _) = _
  rw [if_pos hlen]

theorem arenasAt_sub (G : Gr) (sigOf : Gr → Nat → Nat → Rat) (Vof : Gr → Nat → Nat → Nat → Rat)
    (excl : Bool) (a : Nat) (hlen : ¬ (compNodes G a).length < 2) :
    arenasAt G sigOf Vof excl a = arenasB (subGr G (compNodes G a)) (Vof (subGr G (compNodes G a)))
      excl ((compNodes G a).idxOf a) := by
  show (if (compNodes G a).length < 2 then _ else _) = _
  rw [if_neg hlen]

/-- on a complete network with a stopping rule that is 1 everywhere the walk stops at once: the
only solution is 0 and so is the betweenness -/
theorem arenasB_complete (K : Gr) (hall : ∀ i j, i < K.n → j < K.n → aplus K i j = 1)
    (sg : Nat → Nat → Rat) (hsg : ∀ i j, i < K.n → j < K.n → sg i j = 1)
    (V : Nat → Nat → Nat → Rat) (hV : ∀ i, i < K.n → ArenasSolves K sg i (V i)) (excl : Bool)
    (j : Nat) (hj : j < K.n) : arenasB K V excl j = 0 := by
  have hP : ∀ i r c, i < K.n → r < K.n → arenasP K sg i r c = 0 := by
    intro i r c hi hr
    unfold arenasP arenasStop
    rw [if_pos (hall i r hi hr), hsg i r hi hr]; ring
  have hV0 : ∀ i s j, i < K.n → s < K.n → j < K.n → V i s j = 0 := by
    intro i s j hi hs hj
    have := hV i hi s j hs hj
    rw [hP i s j hi hs, sumR_eq_zero _ _ (fun m _ => by rw [hP i s m hi hs, zero_mul])] at this
    linarith
  unfold arenasB
  rw [sumR_eq_zero _ _ (fun i hi => by
    rw [sumR_eq_zero _ _ (fun s hs => by rw [hV0 i s j hi hs hj]; split <;> ring), mul_zero])]
  simp

/-- **Node-splitting invariance of `nsi_arenas_betweenness` through the component loop** (both
values of `exclude_neighbors`; the stopping rule a function `sigOf` of the sub-network that pulls
back under a split, reads only the node range and is 1 on a complete network — `1` and
`nsi_twinness` are) -/
theorem arenasAt_split (G : Gr) (v : Nat) (p : Rat) (hv : v < G.n) (hp0 : 0 < p) (hp1 : p < 1)
    (hw : ∀ k, k < G.n → 0 < G.w k) (hloop : ∀ i, G.adj i i = false)
    (sigOf : Gr → Nat → Nat → Rat) (Vof : Gr → Nat → Nat → Nat → Rat)
    (hsigcongr : ∀ H H', RangeEq H H' → ∀ a b, a < H.n → b < H.n → sigOf H a b = sigOf H' a b)
    (hsigsplit : ∀ (H : Gr) (k : Nat), k < H.n → ∀ a b,
      sigOf (split H k p) a b = sigOf H (collapse H.n k a) (collapse H.n k b))
    (hsigcomplete : ∀ K : Gr, (∀ k, k < K.n → 0 < K.w k) →
      (∀ i j, i < K.n → j < K.n → aplus K i j = 1) →
      ∀ i j, i < K.n → j < K.n → sigOf K i j = 1)
    (hVcongr : ∀ H H', RangeEq H H' → ∀ i s j, i < H.n → s < H.n → j < H.n →
      Vof H i s j = Vof H' i s j)
    (excl : Bool) (a : Nat) (ha : a < G.n + 1)
    (hV : ∀ i, i < (subGr G (compNodes G (collapse G.n v a))).n →
      ArenasSolves (subGr G (compNodes G (collapse G.n v a)))
        (sigOf (subGr G (compNodes G (collapse G.n v a)))) i
        (Vof (subGr G (compNodes G (collapse G.n v a))) i))
    (hV' : ∀ i, i < (subGr (split G v p) (compNodes (split G v p) a)).n →
      ArenasSolves (subGr (split G v p) (compNodes (split G v p) a))
        (sigOf (subGr (split G v p) (compNodes (split G v p) a))) i
        (Vof (subGr (split G v p) (compNodes (split G v p) a)) i))
    (hreg : ∀ i, i < (subGr (split G v p) (compNodes (split G v p) a)).n →
      ArenasRegular (subGr (split G v p) (compNodes (split G v p) a))
        (sigOf (subGr (split G v p) (compNodes (split G v p) a))) i) :
    arenasAt (split G v p) sigOf Vof excl a = arenasAt G sigOf Vof excl (collapse G.n v a) := by
  have hca := collapse_lt_n G.n v a hv ha
  set nodes := compNodes G (collapse G.n v a) with hnodes
  have hlt : ∀ x ∈ nodes, x < G.n := fun x hx => compNodes_lt G _ x hx
  have hnd : nodes.Nodup := compNodes_nodup G _
  have hself : collapse G.n v a ∈ nodes := self_mem_compNodes G _ hca
  have hcomp := compNodes_split G v p hv hloop a ha
  rw [← hnodes] at hcomp
  by_cases hr : (bfsDist G (collapse G.n v a) v).isSome = true
  · have hvm : v ∈ nodes := (mem_compNodes G _ v).mpr ⟨hv, hr⟩
    rw [hr, if_pos rfl] at hcomp
    have hnn : G.n ∉ nodes := fun h => absurd (hlt _ h) (Nat.lt_irrefl _)
    have hiv : nodes.idxOf v < nodes.length := List.idxOf_lt_length_iff.mpr hvm
    have hpos : (nodes ++ [G.n]).idxOf a < nodes.length + 1 ∧
        collapse nodes.length (nodes.idxOf v) ((nodes ++ [G.n]).idxOf a)
          = nodes.idxOf (collapse G.n v a) := by
      by_cases han : a = G.n
      · subst han
        rw [idxOf_append_last nodes _ hnn, collapse_self, collapse_self]
        exact ⟨Nat.lt_succ_self _, rfl⟩
      · have ha' : a < G.n := by omega
        rw [collapse_lt _ _ _ ha'] at hself ⊢
        have hi : nodes.idxOf a < nodes.length := List.idxOf_lt_length_iff.mpr hself
        rw [List.idxOf_append_of_mem hself, collapse_lt _ _ _ hi]
        exact ⟨by omega, rfl⟩
    have hRE : RangeEq (subGr (split G v p) (nodes ++ [G.n]))
        (split (subGr G nodes) (nodes.idxOf v) p) :=
      ⟨subGr_split_n G v p nodes,
        fun i j hi hj => subGr_split_adj G v p nodes hlt hnd hvm i j
          (by simpa [subGr] using hi) (by simpa [subGr] using hj),
        fun i hi => subGr_split_w G v p nodes hlt hnd hvm i (by simpa [subGr] using hi)⟩
    have hlen' : ¬ (compNodes (split G v p) a).length < 2 := by
      rw [hcomp, List.length_append]; simp
      have : 0 < nodes.length := List.length_pos_of_mem hvm
      omega
    rw [hcomp] at hV' hreg
    have hidx : (nodes ++ [G.n]).idxOf a < (subGr (split G v p) (nodes ++ [G.n])).n := by
      simpa [subGr] using hpos.1
    have hsg := hsigcongr _ _ hRE
    rw [arenasAt_sub _ sigOf Vof excl a hlen', hcomp,
      arenasB_congr hRE _ _ (fun _ _ _ _ _ _ => rfl) excl _ hidx]
    -- the systems of the sub-network of the split copy are those of the split sub-network
    have hVs : ∀ i, i < (subGr G nodes).n + 1 →
        ArenasSolves (split (subGr G nodes) (nodes.idxOf v) p)
          (sigOf (split (subGr G nodes) (nodes.idxOf v) p)) i
          (Vof (subGr (split G v p) (nodes ++ [G.n])) i) := fun i hi =>
      arenasSolves_congr hRE _ _ hsg i (by simpa [subGr] using hi) _
        (hV' i (by simpa [subGr] using hi))
    have hregs : ∀ i, i < (subGr G nodes).n + 1 →
        ArenasRegular (split (subGr G nodes) (nodes.idxOf v) p)
          (sigOf (split (subGr G nodes) (nodes.idxOf v) p)) i := fun i hi =>
      arenasRegular_congr hRE _ _ hsg i (by simpa [subGr] using hi)
        (hreg i (by simpa [subGr] using hi))
    by_cases hlen : nodes.length < 2
    · -- an isolated node becomes a pair of twins: the walk stops at once
      rw [arenasAt_single G sigOf Vof excl _ (by rw [← hnodes]; exact hlen)]
      have hone : nodes = [v] := by
        rcases hm : nodes with _ | ⟨x, _ | ⟨y, t⟩⟩
        · rw [hm] at hvm; simp at hvm
        · rw [hm] at hvm; simp at hvm; rw [hvm]
        · rw [hm] at hlen; simp only [List.length_cons] at hlen; omega
      have hall : ∀ i j, i < (split (subGr G nodes) (nodes.idxOf v) p).n →
          j < (split (subGr G nodes) (nodes.idxOf v) p).n →
          aplus (split (subGr G nodes) (nodes.idxOf v) p) i j = 1 := by
        intro i j hi hj
        rw [aplus_split _ _ _ (by simpa [subGr] using hiv)]
        have hn1 : (subGr G nodes).n = 1 := by rw [subGr_n, hone]; rfl
        have hsn : (split (subGr G nodes) (nodes.idxOf v) p).n = (subGr G nodes).n + 1 := rfl
        have hi' : i < 2 := by omega
        have hj' : j < 2 := by omega
        have hk0 : nodes.idxOf v = 0 := by rw [hone]; simp
        have c1 : collapse (subGr G nodes).n (nodes.idxOf v) i = 0 := by
          rw [hn1, hk0]; unfold collapse; split <;> omega
        have c2 : collapse (subGr G nodes).n (nodes.idxOf v) j = 0 := by
          rw [hn1, hk0]; unfold collapse; split <;> omega
        rw [c1, c2]; simp [aplus]
      exact arenasB_complete _ hall _
        (hsigcomplete _ (split_weights_pos (subGr G nodes) (nodes.idxOf v) p
          (by simpa [subGr] using hiv) hp0 hp1 (subGr_weights_pos G nodes hlt hw)) hall) _ hVs excl _
        (by simpa [subGr, split] using hpos.1)
    · rw [arenasAt_sub G sigOf Vof excl _ (by rw [← hnodes]; exact hlen), ← hnodes]
      have := arenasB_split_lemma (subGr G nodes) (nodes.idxOf v) p (by simpa [subGr] using hiv)
        hp0 hp1 (subGr_weights_pos G nodes hlt hw) (sigOf (subGr G nodes))
        (sigOf (split (subGr G nodes) (nodes.idxOf v) p))
        (hsigsplit (subGr G nodes) (nodes.idxOf v) (by simpa [subGr] using hiv))
        (Vof (subGr G nodes)) (Vof (subGr (split G v p) (nodes ++ [G.n]))) hV hVs hregs excl
        ((nodes ++ [G.n]).idxOf a) (by simpa [subGr] using hpos.1)
      rw [this]
      congr 1
      exact hpos.2
  · have hr' : (bfsDist G (collapse G.n v a) v).isSome = false := by
      cases hh : (bfsDist G (collapse G.n v a) v).isSome <;> simp_all
    have hvm : v ∉ nodes := fun h => hr ((mem_compNodes G _ v).mp h).2
    rw [hr'] at hcomp
    simp only [Bool.false_eq_true, if_false, List.append_nil] at hcomp
    have hav : collapse G.n v a ≠ v := fun h => hvm (h ▸ hself)
    have han : a ≠ G.n := fun h => hav (by rw [h, collapse_self])
    have ha' : a < G.n := by omega
    have hca' : collapse G.n v a = a := collapse_lt _ _ _ ha'
    rw [hca'] at hav hself ⊢
    have hRE : RangeEq (subGr (split G v p) nodes) (subGr G nodes) :=
      ⟨rfl, fun i j hi hj => (subGr_split_other G v p nodes hlt hvm i j hi hj).2.2,
        fun i hi => (subGr_split_other G v p nodes hlt hvm i i hi hi).2.1⟩
    have hnodes' : compNodes G a = nodes := by rw [hnodes, hca']
    by_cases hlen : nodes.length < 2
    · rw [arenasAt_single _ sigOf Vof excl a (by rw [hcomp]; exact hlen),
        arenasAt_single G sigOf Vof excl a (by rw [hnodes']; exact hlen)]
    · have hi : nodes.idxOf a < nodes.length := List.idxOf_lt_length_iff.mpr hself
      rw [arenasAt_sub _ sigOf Vof excl a (by rw [hcomp]; exact hlen),
        arenasAt_sub G sigOf Vof excl a (by rw [hnodes']; exact hlen), hcomp, hnodes']
      exact arenasB_congr hRE _ _ (hVcongr _ _ hRE) excl _ hi

/-! ### the two stopping rules satisfy the three conditions on `sigOf` -/

theorem twinness_congr {G H : Gr} (h : RangeEq G H) (a b : Nat) (ha : a < G.n) (hb : b < G.n) :
    eval G [a, b] M.nsiTwinness = eval H [a, b] M.nsiTwinness := by
  rw [twinness_eq, twinness_eq, aplus_congr h a b ha hb, kstar_congr h a ha, kstar_congr h b hb,
    ← h.hn]
  congr 2
  apply sumR_congr; intro k hk
  rw [h.hw k hk, aplus_congr h a k ha hk, aplus_congr h k b hk hb]

theorem twinness_complete (K : Gr) (hw : ∀ k, k < K.n → 0 < K.w k)
    (hall : ∀ i j, i < K.n → j < K.n → aplus K i j = 1) (a b : Nat) (ha : a < K.n) (hb : b < K.n) :
    eval K [a, b] M.nsiTwinness = 1 := by
  rw [twinness_eq, hall a b ha hb, one_mul]
  have h1 : sumR K.n (fun k => K.w k * (aplus K a k * aplus K k b)) = kstar K a := by
    unfold kstar
    apply sumR_congr; intro k hk
    rw [hall a k ha hk, hall k b hk hb]; ring
  have h2 : kstar K b = kstar K a := by
    unfold kstar
    apply sumR_congr; intro k hk
    rw [hall a k ha hk, hall b k hb hk]
  rw [h1, h2, max_self]
  exact div_self (ne_of_gt (kstar_pos K hw a ha))

end Pyunicorn.Nsi
