import Pyunicorn.Lemmas.Random
import Pyunicorn.Lemmas.RandomSrc
/-!
C17, round 4: the rewiring conditions as the C compiler evaluates them.

`abs(D[a,b] - D[c,d]) < eps` with binary32 operands: the subtraction is rounded.  With distances and
tolerance counted as integers in units of a power of two (every finite binary32 number is an integer
multiple of `2^-149`) the rounding is a function `rnd : Int → Int`.

* `Faithful rnd eps` — "a rounded difference below `eps` was below `eps` before rounding" — is all
  the theorems need; it holds for every monotone rounding that fixes `±eps` (`faithful_of_mono`) and
  for the executable round-to-nearest-even `rndP p` of `Model/Random.lean` whenever `eps` is
  representable (`rndP_faithful`), for **every** data, dyadic or not;
* under `Faithful`, whatever the floating-point `if` accepts the exact `if` accepts
  (`geoAcceptFl_sound`), so a run of the floating-point kernel *is* a run of the exact kernel on a
  sub-stream of its draws (`geoRunFl_refines`): every theorem stated for all streams applies to it,
  with the exact tolerance `eps`.
-/
namespace Pyunicorn.Random
open Pyunicorn.Generated.StructC17

/-- a rounded difference whose magnitude is below `eps` had magnitude below `eps` before rounding -/
def Faithful (rnd : Int → Int) (eps : Int) : Prop :=
  ∀ d : Int, ((rnd d).natAbs : Int) < eps → (d.natAbs : Int) < eps

/-- exact arithmetic is an instance -/
theorem faithful_id (eps : Int) : Faithful id eps := fun _ h => h

/-- every monotone rounding that leaves `eps` and `-eps` alone (they are representable) is faithful -/
theorem faithful_of_mono (rnd : Int → Int) (eps : Int) (mono : ∀ x y, x ≤ y → rnd x ≤ rnd y)
    (fix1 : rnd eps = eps) (fix2 : rnd (-eps) = -eps) : Faithful rnd eps := by
  intro d h
  rcases Int.lt_or_le (d.natAbs : Int) eps with hlt | hge
  · exact hlt
  · exfalso
    rcases Int.le_total 0 d with hd | hd
    · have := mono eps d (by omega); omega
    · have := mono d (-eps) (by omega); omega

theorem condLenC1R_sound (rnd : Int → Int) (D : Nat → Nat → Int) (eps : Int) (s t k l : Nat)
    (hf : Faithful rnd eps) (h : condLenC1R rnd D eps s t k l = true) :
    condLenC1 D eps s t k l = true := by
  simp only [condLenC1R, condLenC1, decide_eq_true_eq] at h ⊢
  rcases h with ⟨h1, h2⟩ | ⟨h1, h2⟩
  · exact Or.inl ⟨hf _ h1, hf _ h2⟩
  · exact Or.inr ⟨hf _ h1, hf _ h2⟩

theorem condLenC2R_sound (rnd : Int → Int) (D : Nat → Nat → Int) (eps : Int) (s t k l : Nat)
    (hf : Faithful rnd eps) (h : condLenC2R rnd D eps s t k l = true) :
    condLenC2 D eps s t k l = true := by
  simp only [condLenC2R, condLenC2, decide_eq_true_eq] at h ⊢
  obtain ⟨h1, h2, h3, h4⟩ := h
  exact ⟨hf _ h1, hf _ h2, hf _ h3, hf _ h4⟩

/-- without rounding the floating-point conditions are the exact ones (text of the same source
expression) -/
theorem condLenR_id (D : Nat → Nat → Int) (eps : Int) (s t k l : Nat) :
    condLenC1R id D eps s t k l = condLenC1 D eps s t k l ∧
    condLenC2R id D eps s t k l = condLenC2 D eps s t k l := ⟨rfl, rfl⟩

/-- where no difference is changed by the rounding (e.g. all distances multiples of `2^-k` below
`2^(24-k)`) the floating-point conditions *are* the exact ones -/
theorem condLenR_exact (rnd : Int → Int) (D : Nat → Nat → Int) (eps : Int) (s t k l : Nat)
    (hex : ∀ a b c d, rnd (D a b - D c d) = D a b - D c d) :
    condLenC1R rnd D eps s t k l = condLenC1 D eps s t k l ∧
    condLenC2R rnd D eps s t k l = condLenC2 D eps s t k l := by
  simp only [condLenC1R, condLenC2R, condLenC1, condLenC2, hex, and_self]

theorem condLenFl_sound (rnd : Int → Int) (c : GeoCfg) (s t k l : Nat) (hf : Faithful rnd c.eps)
    (h : condLenFl rnd c s t k l = true) : condLenM c s t k l = true := by
  unfold condLenFl at h
  unfold condLenM
  generalize (wrapperOf c.mode).1 = w at h ⊢
  cases w
  · exact condLenC1R_sound rnd c.D c.eps s t k l hf h
  · exact condLenC2R_sound rnd c.D c.eps s t k l hf h

/-- **whatever the floating-point `if` accepts, the exact `if` accepts** -/
theorem geoAcceptFl_sound (rnd : Int → Int) (c : GeoCfg) (A : Adj) (s t k l : Nat)
    (hf : Faithful rnd c.eps) (h : geoAcceptFl rnd c A s t k l = true) :
    geoAcceptM c A s t k l = true := by
  simp only [geoAcceptFl, geoAcceptM, geoIf, decide_eq_true_eq] at h ⊢
  obtain ⟨h1, h2, h3, h4⟩ := h
  exact ⟨h1, h2, h3, condLenFl_sound rnd c s t k l hf h4⟩

/-- one pass of the floating-point loop body is a pass of the exact one or does nothing -/
theorem geoStepFl_refines (rnd : Int → Int) (c : GeoCfg) (st st' : GeoSt) (d : Nat × Nat)
    (hf : Faithful rnd c.eps) (h : geoStepFl rnd c st d = some st') :
    st' = st ∨ geoStep c st d = some st' := by
  unfold geoStepFl at h
  unfold geoStep
  generalize st.edges[d.1]? = o1 at h ⊢
  generalize st.edges[d.2]? = o2 at h ⊢
  cases o1 with
  | none => simp at h
  | some e1 =>
    cases o2 with
    | none => simp at h
    | some e2 =>
      obtain ⟨s, t⟩ := e1
      obtain ⟨k, l⟩ := e2
      simp only at h ⊢
      split at h
      · rename_i hacc
        right
        rw [if_pos (geoAcceptFl_sound rnd c st.A s t k l hf hacc)]
        exact h
      · left; simpa using h.symm

/-- **a run of the floating-point kernel is a run of the exact kernel on a sub-stream of its draws**
(the draws at which the rounded test rejected are dropped) -/
theorem geoRunFl_refines (rnd : Int → Int) (c : GeoCfg) (iterations : Nat) (draws : List (Nat × Nat))
    (st st' : GeoSt) (hf : Faithful rnd c.eps) (h : geoRunFl rnd c iterations draws st = some st') :
    ∃ draws', draws'.Sublist draws ∧ geoRun c iterations draws' st = some st' := by
  induction draws generalizing st with
  | nil => exact ⟨[], List.Sublist.refl _, by simpa [geoRunFl, geoRun] using h⟩
  | cons d ds ih =>
    simp only [geoRunFl] at h
    split at h
    · rename_i hw
      cases hs : geoStepFl rnd c st d with
      | none => simp [hs] at h
      | some st1 =>
        simp only [hs, Option.bind_some] at h
        obtain ⟨ds', hsub, hrun⟩ := ih st1 h
        rcases geoStepFl_refines rnd c st st1 d hf hs with rfl | hex
        · exact ⟨ds', List.Sublist.cons d hsub, hrun⟩
        · exact ⟨d :: ds', List.Sublist.cons_cons d hsub, by simp [geoRun, hw, hex, hrun]⟩
    · rename_i hw
      exact ⟨[], List.nil_sublist _, by simpa [geoRun] using h⟩

/-! ### the executable round-to-nearest-even is faithful for every representable tolerance -/

/-- `e = m · 2^j` with `m < 2^p`: representable with `p` significant bits -/
def Rep (p : Nat) (e : Nat) : Prop := ∃ m j, m < 2 ^ p ∧ e = m * 2 ^ j

/-- rounding down to the grid of the binade of `a` does not pass below a representable `e ≤ a` -/
theorem floor_grid (p : Nat) (hp : 1 ≤ p) (a : Nat) (ha : 2 ^ p ≤ a) (e : Nat) (he : Rep p e)
    (hle : e ≤ a) : e ≤ a / 2 ^ (Nat.log2 a + 1 - p) * 2 ^ (Nat.log2 a + 1 - p) := by
  obtain ⟨m, j, hm, rfl⟩ := he
  have ha0 : a ≠ 0 := by
    have : 0 < 2 ^ p := Nat.two_pow_pos _
    omega
  have hlo : 2 ^ Nat.log2 a ≤ a := Nat.log2_self_le ha0
  have hhi : a < 2 ^ (Nat.log2 a + 1) := Nat.lt_log2_self
  have hpL : p < Nat.log2 a + 1 :=
    (Nat.pow_lt_pow_iff_right (by decide : 1 < 2)).1 (Nat.lt_of_le_of_lt ha hhi)
  generalize hL : Nat.log2 a = L at *
  have hs : L + 1 - p + p = L + 1 := by omega
  generalize hsd : L + 1 - p = s at *
  have hX : 0 < 2 ^ s := Nat.two_pow_pos _
  rcases Nat.lt_or_ge j s with hj | hj
  · -- `e < 2^(p+j) ≤ 2^L ≤ ⌊a⌋_grid`
    have h1 : m * 2 ^ j < 2 ^ p * 2 ^ j := Nat.mul_lt_mul_of_pos_right hm (Nat.two_pow_pos _)
    have h2 : 2 ^ p * 2 ^ j ≤ 2 ^ L := by
      rw [← Nat.pow_add]; exact Nat.pow_le_pow_right (by decide) (by omega)
    have h3 : 2 ^ L = 2 ^ (L - s) * 2 ^ s := by rw [← Nat.pow_add]; congr 1; omega
    have h4 : 2 ^ (L - s) ≤ a / 2 ^ s := by
      rw [Nat.le_div_iff_mul_le hX, ← h3]; exact hlo
    have h5 := Nat.mul_le_mul_right (2 ^ s) h4
    omega
  · -- `e` is itself a point of the grid
    have h1 : m * 2 ^ j = m * 2 ^ (j - s) * 2 ^ s := by
      rw [Nat.mul_assoc, ← Nat.pow_add]; congr 2; omega
    rw [h1] at hle ⊢
    exact Nat.mul_le_mul_right _ ((Nat.le_div_iff_mul_le hX).2 hle)

/-- magnitude of the rounded value: at least the grid point below `|n|` -/
theorem rndP_natAbs_ge (p : Nat) (n : Int) (h : ¬ n.natAbs < 2 ^ p) :
    n.natAbs / 2 ^ (Nat.log2 n.natAbs + 1 - p) * 2 ^ (Nat.log2 n.natAbs + 1 - p)
      ≤ (rndP p n).natAbs := by
  unfold rndP
  simp only [h, if_false]
  have key : ∀ q' : Nat, n.natAbs / 2 ^ (Nat.log2 n.natAbs + 1 - p) ≤ q' →
      n.natAbs / 2 ^ (Nat.log2 n.natAbs + 1 - p) * 2 ^ (Nat.log2 n.natAbs + 1 - p)
        ≤ (if n < 0 then -((q' * 2 ^ (Nat.log2 n.natAbs + 1 - p) : Nat) : Int)
            else ((q' * 2 ^ (Nat.log2 n.natAbs + 1 - p) : Nat) : Int)).natAbs := by
    intro q' hq
    have := Nat.mul_le_mul_right (2 ^ (Nat.log2 n.natAbs + 1 - p)) hq
    generalize q' * 2 ^ (Nat.log2 n.natAbs + 1 - p) = N at this ⊢
    split <;> simp only [Int.natAbs_neg, Int.natAbs_natCast] <;> exact this
  apply key
  split
  · exact Nat.le_refl _
  · split
    · exact Nat.le_succ _
    · split
      · exact Nat.le_refl _
      · exact Nat.le_succ _

/-- **round to nearest even with `p` bits never takes a difference of magnitude `≥ eps` below a
representable `eps`** — for all data -/
theorem rndP_faithful (p : Nat) (hp : 1 ≤ p) (eps : Int) (he : Rep p eps.natAbs) :
    Faithful (rndP p) eps := by
  intro d h
  rcases Int.lt_or_le (d.natAbs : Int) eps with hlt | hge
  · exact hlt
  · exfalso
    by_cases hsmall : d.natAbs < 2 ^ p
    · have : rndP p d = d := by unfold rndP; simp [hsmall]
      rw [this] at h; omega
    · have h0 : 0 ≤ eps := by omega
      have hle : eps.natAbs ≤ d.natAbs := by omega
      have h1 := floor_grid p hp d.natAbs (by omega) eps.natAbs he hle
      have h2 := rndP_natAbs_ge p d hsmall
      omega

/-- magnitudes below `2^p` are not changed at all (dyadic data of the earlier rounds; the subnormal
range when the unit is `2^-149`) -/
theorem rndP_small (p : Nat) (n : Int) (h : n.natAbs < 2 ^ p) : rndP p n = n := by
  unfold rndP; simp [h]

end Pyunicorn.Random
