import Pyunicorn.Lemmas.NetRWInv
import Pyunicorn.Lemmas.NetPaths
import Pyunicorn.Lemmas.NetBetwAlg
/-!
# C03 round 5h: the reduced Kirchhoff matrix of a connected undirected graph is regular

`reducedKirchhoff N b` is `(diag(indegree) − A)[:-1, :-1]` (`Network.newman_betweenness`,
`sp_M[:-1, :-1]`).  A kernel vector `v` of it, extended by `0` at the grounded node `N − 1`
(`groundV`), satisfies on every non-grounded row `k`

  `Σ_{l<N} [b k l] · (u k − u l) = 0`                         (`kirchhoff_row_harmonic`)

(the degree on the diagonal is the number of neighbours, `b` symmetric).  Maximum principle
(adapted from C02's `Nsi.harm_max_step` / `Nsi.newman_max_walk` / `Nsi.newman_ker_nonpos`, round 5g):
where `u` attains a positive maximum the node is not the grounded one, all terms of the row are
`≥ 0`, hence every neighbour carries the maximum too; a walk to the grounded node carries it
there, where `u = 0` — contradiction.  The same for `−v`; hence `v = 0`.  No matrix-tree theorem.
-/
namespace Pyunicorn.Net
open Pyunicorn.NetBetw (sumToQ_pos sumToQ_single)

/-- a sum of non-negative terms that vanishes has only zero terms -/
theorem sumToQ_eq_zero_terms (n : Nat) (f : Nat → Rat) (h : ∀ i, i < n → 0 ≤ f i)
    (h0 : sumToQ n f = 0) : ∀ i, i < n → f i = 0 := by
  intro i hi
  by_contra hne
  have hp : 0 < f i := lt_of_le_of_ne (h i hi) (Ne.symm hne)
  have := sumToQ_pos n f h i hi hp
  linarith

/-- entries of the reduced Kirchhoff matrix -/
theorem matFn_reducedKirchhoff (N : Nat) (b : Adj) (i j : Nat) (hi : i < N - 1) (hj : j < N - 1) :
    matFn (reducedKirchhoff N b) i j =
      (if i = j then (indeg N b i : Rat) else 0) - (if b i j then 1 else 0) := by
  unfold matFn reducedKirchhoff
  rw [Coupling.getD_map_range _ _ _ _ hi, Coupling.getD_map_range _ _ _ _ hj]

/-- a vector on the non-grounded nodes `< N − 1`, extended by `0` -/
def groundV (N : Nat) (v : Nat → Rat) (l : Nat) : Rat := if l < N - 1 then v l else 0

/-- a kernel row of the reduced Kirchhoff matrix of a symmetric graph says that `groundV` is
harmonic at that row: `Σ_{l<N} [b k l] (u_k − u_l) = 0` -/
theorem kirchhoff_row_harmonic (N : Nat) (b : Adj) (hsym : ∀ i j, b i j = b j i)
    (v : Nat → Rat) (k : Nat) (hk : k < N - 1)
    (hrow : sumToQ (N - 1) (fun l => matFn (reducedKirchhoff N b) k l * v l) = 0) :
    sumToQ N (fun l => (if b k l then (1 : Rat) else 0) * (groundV N v k - groundV N v l)) = 0 := by
  obtain ⟨M, hM⟩ : ∃ M, N = M + 1 := ⟨N - 1, by omega⟩
  subst hM
  simp only [Nat.add_sub_cancel] at hk hrow
  -- the row of the matrix
  have e1 : sumToQ M (fun l => matFn (reducedKirchhoff (M + 1) b) k l * v l)
      = sumToQ M (fun l => (if l = k then (indeg (M + 1) b l : Rat) * v l else 0)
          + (-1) * ((if b k l then (1 : Rat) else 0) * v l)) := by
    apply sumToQ_congrLt
    intro l hl
    rw [matFn_reducedKirchhoff (M + 1) b k l (by simpa using hk) (by simpa using hl)]
    by_cases e : l = k
    · subst e; simp only [if_true]; ring
    · rw [if_neg (fun h => e h.symm), if_neg e]; ring
  rw [e1, sumToQ_add', sumToQ_single M k hk (fun l => (indeg (M + 1) b l : Rat) * v l),
    sumToQ_mul_left'] at hrow
  -- the degree is the number of neighbours
  have hdeg : (indeg (M + 1) b k : Rat) = sumToQ (M + 1) (fun l => if b k l then (1 : Rat) else 0) := by
    unfold indeg
    rw [sumTo_cast]
    apply sumToQ_congrLt
    intro l _
    rw [hsym l k]
    cases b k l <;> simp [b2n]
  -- split the harmonic sum
  have e2 : sumToQ (M + 1) (fun l => (if b k l then (1 : Rat) else 0)
        * (groundV (M + 1) v k - groundV (M + 1) v l))
      = sumToQ (M + 1) (fun l => (if b k l then (1 : Rat) else 0) * groundV (M + 1) v k
          + (-1) * ((if b k l then (1 : Rat) else 0) * groundV (M + 1) v l)) := by
    apply sumToQ_congrLt; intro l _; ring
  rw [e2, sumToQ_add', sumToQ_mul_right', sumToQ_mul_left', ← hdeg]
  have e3 : sumToQ (M + 1) (fun l => (if b k l then (1 : Rat) else 0) * groundV (M + 1) v l)
      = sumToQ M (fun l => (if b k l then (1 : Rat) else 0) * v l) := by
    rw [sumToQ_succ']
    have : groundV (M + 1) v M = 0 := by simp [groundV]
    rw [this, mul_zero, add_zero]
    apply sumToQ_congrLt
    intro l hl
    simp [groundV, hl]
  have e4 : groundV (M + 1) v k = v k := by simp [groundV, hk]
  rw [e3, e4]
  linarith

/-- one step of the maximum principle: a node carrying the maximum hands it to all neighbours -/
theorem kirchhoff_max_step (N : Nat) (b : Adj) (u : Nat → Rat) (Mx : Rat)
    (hle : ∀ s, s < N → u s ≤ Mx) (a : Nat)
    (hu : sumToQ N (fun l => (if b a l then (1 : Rat) else 0) * (u a - u l)) = 0) (hua : u a = Mx) :
    ∀ c, c < N → b a c = true → u c = Mx := by
  intro c hc hac
  have hterm : ∀ l, l < N → 0 ≤ (if b a l then (1 : Rat) else 0) * (u a - u l) := by
    intro l hl
    apply mul_nonneg
    · split <;> norm_num
    · have := hle l hl; linarith
  have := sumToQ_eq_zero_terms N _ hterm hu c hc
  rw [hac] at this
  simp only [if_true, one_mul] at this
  linarith

/-- along a walk the positive maximum of a grounded harmonic vector propagates -/
theorem kirchhoff_max_walk (N : Nat) (b : Adj) (hsym : ∀ i j, b i j = b j i) (v : Nat → Rat)
    (hker : ∀ k, k < N - 1 →
      sumToQ (N - 1) (fun l => matFn (reducedKirchhoff N b) k l * v l) = 0)
    (Mx : Rat) (hM : 0 < Mx) (hle : ∀ s, s < N → groundV N v s ≤ Mx)
    {s t k : Nat} (wk : Walk N b s t k) (hus : groundV N v s = Mx) (ht : t < N) :
    groundV N v t = Mx := by
  induction wk with
  | nil => exact hus
  | snoc w1 hw haw ih =>
    rename_i w t' k'
    have huw := ih hw
    have hwN : w < N - 1 := by
      by_contra hcon
      unfold groundV at huw
      rw [if_neg hcon] at huw
      linarith
    exact kirchhoff_max_step N b _ Mx hle w
      (kirchhoff_row_harmonic N b hsym v w hwN (hker w hwN)) huw _ ht haw

/-- a kernel vector of the reduced Kirchhoff matrix of a connected symmetric graph is nowhere
positive -/
theorem kirchhoff_ker_nonpos (N : Nat) (b : Adj) (hsym : ∀ i j, b i j = b j i)
    (hconn : ∀ s, s < N → ∃ k, Walk N b s (N - 1) k) (v : Nat → Rat)
    (hker : ∀ k, k < N - 1 →
      sumToQ (N - 1) (fun l => matFn (reducedKirchhoff N b) k l * v l) = 0) :
    ∀ s, s < N - 1 → v s ≤ 0 := by
  intro s0 hs0
  by_contra hcon
  have hpos : 0 < v s0 := not_le.mp hcon
  have hs0n : s0 < N := by omega
  have hupos : 0 < groundV N v s0 := by unfold groundV; rw [if_pos hs0]; exact hpos
  -- a maximiser over `range N`
  have hmaxex : ∀ n, 0 < n → ∃ s, s < n ∧ ∀ t, t < n → groundV N v t ≤ groundV N v s := by
    intro n
    induction n with
    | zero => intro h; omega
    | succ m ih =>
      intro _
      by_cases hm : m = 0
      · subst hm
        refine ⟨0, by omega, fun t ht => ?_⟩
        have e : t = 0 := by omega
        rw [e]
      · obtain ⟨s, hs, hmax⟩ := ih (by omega)
        by_cases hc : groundV N v s ≤ groundV N v m
        · refine ⟨m, by omega, fun t ht => ?_⟩
          by_cases e : t = m
          · subst e; exact le_refl _
          · exact le_trans (hmax t (by omega)) hc
        · refine ⟨s, by omega, fun t ht => ?_⟩
          by_cases e : t = m
          · subst e; exact le_of_lt (not_le.mp hc)
          · exact hmax t (by omega)
  obtain ⟨s, hs, hmax⟩ := hmaxex N (by omega)
  have hM : 0 < groundV N v s := lt_of_lt_of_le hupos (hmax s0 hs0n)
  obtain ⟨k, wk⟩ := hconn s hs
  have huN := kirchhoff_max_walk N b hsym v hker _ hM hmax wk rfl (by omega)
  have : groundV N v (N - 1) = 0 := by unfold groundV; rw [if_neg (lt_irrefl _)]
  rw [this] at huN
  linarith

/-- **the reduced Kirchhoff matrix `(D − A)[:-1, :-1]` of a connected undirected graph is
regular**: it has only the zero kernel vector -/
theorem reducedKirchhoff_kernel_zero (N : Nat) (b : Adj) (hsym : ∀ i j, b i j = b j i)
    (hconn : ∀ s, s < N → ∃ k, Walk N b s (N - 1) k) (v : Nat → Rat)
    (hker : ∀ k, k < N - 1 →
      sumToQ (N - 1) (fun l => matFn (reducedKirchhoff N b) k l * v l) = 0) :
    ∀ l, l < N - 1 → v l = 0 := by
  intro l hl
  have h1 := kirchhoff_ker_nonpos N b hsym hconn v hker l hl
  have hneg : ∀ k, k < N - 1 →
      sumToQ (N - 1) (fun l => matFn (reducedKirchhoff N b) k l * (fun j => - v j) l) = 0 := by
    intro k hk
    have e : sumToQ (N - 1) (fun l => matFn (reducedKirchhoff N b) k l * (fun j => - v j) l)
        = sumToQ (N - 1) (fun l => (-1) * (matFn (reducedKirchhoff N b) k l * v l)) := by
      apply sumToQ_congrLt; intro m _; ring
    rw [e, sumToQ_mul_left', hker k hk, mul_zero]
  have h2 := kirchhoff_ker_nonpos N b hsym hconn (fun j => - v j) hneg l hl
  have h3 : - v l ≤ 0 := h2
  linarith

end Pyunicorn.Net
