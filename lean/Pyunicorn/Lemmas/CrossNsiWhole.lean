import Pyunicorn.Lemmas.CrossWhole
import Mathlib.Tactic.Ring
import Mathlib.Tactic.Linarith
/-! Helper lemmas for C11 (round 3): the expansion `A⁺ = A + I` of the n.s.i. triple sums
(whole-network limits of `nsi_cross_local_clustering`, `nsi_cross_transitivity`), sums against a
Kronecker delta over `range n`, triple-sum reordering, rows of path lengths split into their
finite entries and the number of `inf`s. -/
namespace Pyunicorn.Cross

theorem ite_and3 (x y z : Bool) (t : Rat) :
    (if x && (y && z) then t else 0)
      = (if x then 1 else 0) * (if y then 1 else 0) * (if z then 1 else 0) * t := by
  cases x <;> cases y <;> cases z <;> simp

theorem ite_one_mul (x : Bool) (t : Rat) : (if x then t else 0) = (if x then 1 else 0) * t := by
  cases x <;> simp

/-- `Σ_{q<n} F q · δ_{vq} = F v` for `v < n` -/
theorem sum_mul_delta (n v : Nat) (hv : v < n) (F : Nat → Rat) :
    ((List.range n).map fun q => F q * (if v = q then 1 else 0)).sum = F v := by
  induction n with
  | zero => omega
  | succ m ih =>
    rw [List.range_succ, List.map_append, List.sum_append]
    by_cases h : v = m
    · subst h
      have hz : ((List.range v).map fun q => F q * (if v = q then (1 : Rat) else 0)).sum = 0 := by
        apply List.sum_eq_zero
        intro x hx
        simp only [List.mem_map, List.mem_range] at hx
        obtain ⟨q, hq, rfl⟩ := hx
        have : ¬ v = q := by omega
        simp [this]
      rw [hz]
      simp
    · have hv' : v < m := by omega
      rw [ih hv']
      simp [h]

/-- the algebra behind `A⁺ = A + I`: with `e = δ_v`, `a` the indicator of the neighbours of `v`
and `c` the indicator of `A⁺` (`c v q = 1` on the neighbours, `c v v = 1`), the full triple sum
over `A⁺` is the triple sum over the proper neighbours plus `2 k* w_v − w_v²`. -/
theorem aplus_expand (R : List Nat) (e a w : Nat → Rat) (c : Nat → Nat → Rat) (v : Nat)
    (hdelta : ∀ F : Nat → Rat, (R.map fun q => F q * e q).sum = F v)
    (hrow : ∀ q, a q * c v q = a q) (hcol : ∀ p, a p * c p v = a p) (hvv : c v v = 1) :
    (R.map fun p => (R.map fun q => (a p + e p) * c p q * (a q + e q) * (w p * w q)).sum).sum
      = (R.map fun p => (R.map fun q => a p * c p q * a q * (w p * w q)).sum).sum
        + 2 * (R.map fun q => (a q + e q) * w q).sum * w v - w v * w v := by
  -- inner sums: split off the `e q` part
  have hin : ∀ (x : Rat) (p : Nat),
      (R.map fun q => x * c p q * (a q + e q) * (w p * w q)).sum
        = (R.map fun q => x * c p q * a q * (w p * w q)).sum + x * c p v * (w p * w v) := by
    intro x p
    have : (fun q => x * c p q * (a q + e q) * (w p * w q))
        = fun q => x * c p q * a q * (w p * w q) + (x * c p q * (w p * w q)) * e q := by
      funext q; ring
    rw [this, List.sum_map_add, hdelta (fun q => x * c p q * (w p * w q))]
  simp only [hin]
  rw [List.sum_map_add]
  -- the neighbour sum `S = Σ a q w q`
  have hS : (R.map fun q => (a q + e q) * w q).sum = (R.map fun q => a q * w q).sum + w v := by
    have : (fun q => (a q + e q) * w q) = fun q => a q * w q + w q * e q := by
      funext q; ring
    rw [this, List.sum_map_add, hdelta w]
  -- first part
  have h1 : (R.map fun p => (R.map fun q => (a p + e p) * c p q * a q * (w p * w q)).sum).sum
      = (R.map fun p => (R.map fun q => a p * c p q * a q * (w p * w q)).sum).sum
        + w v * (R.map fun q => a q * w q).sum := by
    have e1 : (fun p => (R.map fun q => (a p + e p) * c p q * a q * (w p * w q)).sum)
        = fun p => (R.map fun q => a p * c p q * a q * (w p * w q)).sum
            + (R.map fun q => c p q * a q * (w p * w q)).sum * e p := by
      funext p
      rw [← sum_map_mul_right, ← List.sum_map_add]
      congr 1
      apply List.map_congr_left
      intro q _
      ring
    rw [e1, List.sum_map_add, hdelta (fun p => (R.map fun q => c p q * a q * (w p * w q)).sum)]
    congr 1
    rw [← sum_map_mul_left]
    congr 1
    apply List.map_congr_left
    intro q _
    have := hrow q
    calc c v q * a q * (w v * w q) = (a q * c v q) * (w v * w q) := by ring
      _ = a q * (w v * w q) := by rw [this]
      _ = w v * (a q * w q) := by ring
  -- second part
  have h2 : (R.map fun p => (a p + e p) * c p v * (w p * w v)).sum
      = w v * (R.map fun q => a q * w q).sum + w v * w v := by
    have e2 : (fun p => (a p + e p) * c p v * (w p * w v))
        = fun p => w v * (a p * w p) + (c p v * (w p * w v)) * e p := by
      funext p
      have := hcol p
      calc (a p + e p) * c p v * (w p * w v)
          = (a p * c p v) * (w p * w v) + (c p v * (w p * w v)) * e p := by ring
        _ = a p * (w p * w v) + (c p v * (w p * w v)) * e p := by rw [this]
        _ = w v * (a p * w p) + (c p v * (w p * w v)) * e p := by ring
    rw [e2, List.sum_map_add, hdelta (fun p => c p v * (w p * w v)), sum_map_mul_left, hvv]
    ring
  rw [h1, h2, hS]
  ring

/-- reordering of a triple sum: the innermost index becomes the outermost -/
theorem triple_sum_rotate (f : Nat → Nat → Nat → Rat) (R : List Nat) :
    (R.map fun i => (R.map fun j => (R.map fun k => f i j k).sum).sum).sum
      = (R.map fun k => (R.map fun i => (R.map fun j => f i j k).sum).sum).sum := by
  have h1 : (R.map fun i => (R.map fun j => (R.map fun k => f i j k).sum).sum)
      = R.map fun i => (R.map fun k => (R.map fun j => f i j k).sum).sum := by
    apply List.map_congr_left
    intro i _
    exact sum_comm_lists (fun j k => f i j k) R R
  rw [h1]
  exact sum_comm_lists (fun i k => (R.map fun j => f i j k).sum) R R

/-- a row of path lengths with `inf` replaced by `c` sums to (finite entries) + (#inf)·c -/
theorem row_getD_sum (r : List (Option Rat)) (c : Rat) :
    (r.map fun x => x.getD c).sum
      = (finiteOf r).sum + ((r.filter Option.isNone).length : Rat) * c := by
  induction r with
  | nil => simp [finiteOf]
  | cons x t ih =>
    cases x with
    | none =>
      simp only [List.map_cons, List.sum_cons, Option.getD_none, ih, finiteOf,
        List.filterMap_cons, id, List.filter_cons, Option.isNone_none, if_true,
        List.length_cons]
      push_cast
      ring
    | some d =>
      simp only [List.map_cons, List.sum_cons, Option.getD_some, ih, finiteOf,
        List.filterMap_cons, id, List.filter_cons, Option.isNone_some, Bool.false_eq_true,
        if_false]
      ring

/-- `Σ 1/d` with `1/inf = 0` is the sum of the reciprocals of the finite entries -/
theorem row_invD_sum (r : List (Option Rat)) :
    (r.map invD).sum = ((finiteOf r).map fun d => 1 / d).sum := by
  induction r with
  | nil => simp [finiteOf]
  | cons x t ih =>
    cases x with
    | none => simpa [finiteOf, invD] using ih
    | some d => simp only [List.map_cons, List.sum_cons, invD, ih, finiteOf, List.filterMap_cons,
        id]

theorem sum_b2n_le (f : Nat → Bool) (M : List Nat) : (M.map fun b => b2n (f b)).sum ≤ M.length := by
  induction M with
  | nil => simp
  | cons b t ih =>
    simp only [List.map_cons, List.sum_cons, List.length_cons]
    have : b2n (f b) ≤ 1 := by unfold b2n; split <;> omega
    omega

theorem mem_zipWith_add_le (c : Nat) (X Y : List Nat) (hX : ∀ x ∈ X, x ≤ c) (hY : ∀ y ∈ Y, y ≤ c) :
    ∀ d ∈ List.zipWith (· + ·) X Y, d ≤ 2 * c := by
  induction X generalizing Y with
  | nil => simp
  | cons x t ih =>
    cases Y with
    | nil => simp
    | cons y u =>
      intro d hd
      simp only [List.zipWith_cons_cons, List.mem_cons] at hd
      rcases hd with rfl | hd
      · have := hX x (by simp)
        have := hY y (by simp)
        omega
      · exact ih u (fun a ha => hX a (by simp [ha])) (fun a ha => hY a (by simp [ha])) d hd

end Pyunicorn.Cross
