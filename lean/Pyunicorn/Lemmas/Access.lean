import Pyunicorn.Model.Access
import Pyunicorn.Model.WhileKernels
/-! Helper lemmas for C20 (core Lean only). -/
namespace Pyunicorn.Access

theorem mem_forr {α : Type} {n : Nat} {f : Nat → List α} {a : α} :
    a ∈ forr n f ↔ ∃ i, i < n ∧ a ∈ f i := by
  simp [forr, List.mem_flatMap, List.mem_range]

/-- row-major index of a 2-d array stays below the element count -/
theorem idx2_lt {i n t m : Nat} (hi : i < n) (ht : t < m) : i * m + t < n * m := by
  have h1 : i * m + m ≤ n * m := by
    have : (i + 1) * m ≤ n * m := Nat.mul_le_mul_right m hi
    rwa [Nat.succ_mul] at this
  omega

/-- a natural element index below the element count is in bounds, load or store -/
theorem inb_of_lt {sz : List Nat} {arr w cnt idx : Nat} {wr : Bool}
    (hsz : sz.getD arr 0 = cnt * w) (h : idx < cnt) :
    (Acc.mk arr ((idx : Int) * (w : Int)) w wr).inb sz := by
  unfold Acc.inb
  simp only [hsz]
  have h1 : idx * w + w ≤ cnt * w := by
    have : (idx + 1) * w ≤ cnt * w := Nat.mul_le_mul_right w h
    rwa [Nat.succ_mul] at this
  constructor
  · exact Int.mul_nonneg (Int.natCast_nonneg _) (Int.natCast_nonneg _)
  · have : ((idx * w + w : Nat) : Int) ≤ ((cnt * w : Nat) : Int) := Int.ofNat_le.mpr h1
    simpa [Int.natCast_add, Int.natCast_mul] using this

/-- an integer element index in `[0, cnt)` is in bounds -/
theorem inb_of_int {sz : List Nat} {arr w cnt : Nat} {idx : Int} {wr : Bool}
    (hsz : sz.getD arr 0 = cnt * w) (h0 : 0 ≤ idx) (h : idx < (cnt : Int)) :
    (Acc.mk arr (idx * (w : Int)) w wr).inb sz := by
  obtain ⟨k, rfl⟩ := Int.eq_ofNat_of_zero_le h0
  exact inb_of_lt hsz (Int.ofNat_lt.mp h)

theorem verdictOf_ne_oob {sz : List Nat} {tr : List Acc} (h : ∀ a ∈ tr, a.inb sz) :
    verdictOf sz tr = .safe := by
  unfold verdictOf
  rw [if_pos]
  simpa [List.all_eq_true] using h

theorem verdictOf_cases (sz : List Nat) (tr : List Acc) :
    verdictOf sz tr = .safe ∨ verdictOf sz tr = .oob := by
  unfold verdictOf; split <;> simp

end Pyunicorn.Access

namespace Pyunicorn.Access

theorem forall_forr {α : Type} {n : Nat} {f : Nat → List α} {P : α → Prop} :
    (∀ a ∈ forr n f, P a) ↔ ∀ i, i < n → ∀ a ∈ f i, P a := by
  constructor
  · intro h i hi a ha; exact h a (mem_forr.mpr ⟨i, hi, ha⟩)
  · intro h a ha; obtain ⟨i, hi, hm⟩ := mem_forr.mp ha; exact h i hi a hm

/-- closes `(ld/st arr w idx).inb sizes` for a one- or two-dimensional natural index -/
macro "inb_auto" : tactic => `(tactic| (
  apply inb_of_lt
  case hsz => exact rfl
  case h => first
    | exact idx2_lt (by assumption) (by assumption)
    | assumption
    | omega))

/-- `base*nb + s` with `0 ≤ s < nb`, `base < N` is an index into an `N × nb` array -/
theorem symIdx_bounds {i N nb : Nat} {s : Int} (hi : i < N) (h0 : 0 ≤ s) (h1 : s < (nb : Int)) :
    0 ≤ ((i * nb : Nat) : Int) + s ∧ ((i * nb : Nat) : Int) + s < ((N * nb : Nat) : Int) := by
  obtain ⟨k, rfl⟩ := Int.eq_ofNat_of_zero_le h0
  have hk : k < nb := Int.ofNat_lt.mp h1
  have := idx2_lt hi hk
  omega

/-- `s1*nb + s2` with both symbols in `[0, nb)` is an index into an `nb × nb` array -/
theorem symIdx2_bounds {nb : Nat} {s1 s2 : Int} (a0 : 0 ≤ s1) (a1 : s1 < (nb : Int))
    (b0 : 0 ≤ s2) (b1 : s2 < (nb : Int)) :
    0 ≤ s1 * (nb : Int) + s2 ∧ s1 * (nb : Int) + s2 < ((nb * nb : Nat) : Int) := by
  obtain ⟨k1, rfl⟩ := Int.eq_ofNat_of_zero_le a0
  obtain ⟨k2, rfl⟩ := Int.eq_ofNat_of_zero_le b0
  have h1 : k1 < nb := Int.ofNat_lt.mp a1
  have h2 : k2 < nb := Int.ofNat_lt.mp b1
  have := idx2_lt h1 h2
  have e : ((k1 : Int) * (nb : Int)) = ((k1 * nb : Nat) : Int) := by simp
  rw [e]
  omega

end Pyunicorn.Access

namespace Pyunicorn.Access

theorem forall_mem_ite_nil {α : Type} {c : Prop} [Decidable c] {l : List α} {P : α → Prop} :
    (∀ a ∈ (if c then l else []), P a) ↔ (c → ∀ a ∈ l, P a) := by
  split <;> simp_all

/-- access at `i*nb + s` of an `N × nb` array through a symbol `s ∈ [0, nb)` -/
theorem inb_sym1 {sz : List Nat} {arr w i N nb : Nat} {s : Int} {wr : Bool}
    (hsz : sz.getD arr 0 = (N * nb) * w) (hi : i < N) (h0 : 0 ≤ s) (h1 : s < (nb : Int)) :
    (Acc.mk arr ((((i * nb : Nat) : Int) + s) * (w : Int)) w wr).inb sz :=
  inb_of_int hsz (symIdx_bounds hi h0 h1).1 (symIdx_bounds hi h0 h1).2

/-- access at `s1*nb + s2` of an `nb × nb` array -/
theorem inb_sym2 {sz : List Nat} {arr w nb : Nat} {s1 s2 : Int} {wr : Bool}
    (hsz : sz.getD arr 0 = (nb * nb) * w) (a0 : 0 ≤ s1) (a1 : s1 < (nb : Int))
    (b0 : 0 ≤ s2) (b1 : s2 < (nb : Int)) :
    (Acc.mk arr ((s1 * (nb : Int) + s2) * (w : Int)) w wr).inb sz :=
  inb_of_int hsz (symIdx2_bounds a0 a1 b0 b1).1 (symIdx2_bounds a0 a1 b0 b1).2

end Pyunicorn.Access

namespace Pyunicorn.Access


def minStep (acc x : Option Rat) : Option Rat := match acc, x with
    | some a, some b => some (if b < a then b else a)
    | _, _ => none

theorem optMin_eq (xs : List (Option Rat)) : optMin xs = xs.foldl minStep (xs.headD none) := rfl

theorem foldl_minStep_some (xs : List (Option Rat)) (acc : Option Rat) (a : Rat)
    (h : xs.foldl minStep acc = some a) :
    (∃ c, acc = some c ∧ a ≤ c) ∧ ∀ x ∈ xs, ∃ v, x = some v ∧ a ≤ v := by
  induction xs generalizing acc with
  | nil => simp at h; exact ⟨⟨a, h, Rat.le_refl⟩, by simp⟩
  | cons x t ih =>
    simp only [List.foldl_cons] at h
    obtain ⟨⟨c', hc', hac'⟩, ht⟩ := ih _ h
    cases acc with
    | none => simp [minStep] at hc'
    | some c0 =>
      cases x with
      | none => simp [minStep] at hc'
      | some b =>
        simp only [minStep, Option.some.injEq] at hc'
        refine ⟨⟨c0, rfl, ?_⟩, ?_⟩
        · grind
        · intro y hy
          simp only [List.mem_cons] at hy
          rcases hy with rfl | hy
          · exact ⟨b, rfl, by grind⟩
          · exact ht y hy

theorem optMin_le (xs : List (Option Rat)) (a : Rat) (h : optMin xs = some a) :
    ∀ x ∈ xs, ∃ v, x = some v ∧ a ≤ v :=
  (foldl_minStep_some xs _ a (by rw [← optMin_eq]; exact h)).2



def maxStep (acc x : Option Rat) : Option Rat := match acc, x with
    | some a, some b => some (if a < b then b else a)
    | _, _ => none
theorem optMax_eq (xs : List (Option Rat)) : optMax xs = xs.foldl maxStep (xs.headD none) := rfl

theorem foldl_maxStep_some (xs : List (Option Rat)) (acc : Option Rat) (a : Rat)
    (h : xs.foldl maxStep acc = some a) :
    (∃ c, acc = some c ∧ c ≤ a) ∧ ∀ x ∈ xs, ∃ v, x = some v ∧ v ≤ a := by
  induction xs generalizing acc with
  | nil => simp at h; exact ⟨⟨a, h, Rat.le_refl⟩, by simp⟩
  | cons x t ih =>
    simp only [List.foldl_cons] at h
    obtain ⟨⟨c', hc', hac'⟩, ht⟩ := ih _ h
    cases acc with
    | none => simp [maxStep] at hc'
    | some c0 =>
      cases x with
      | none => simp [maxStep] at hc'
      | some b =>
        simp only [maxStep, Option.some.injEq] at hc'
        refine ⟨⟨c0, rfl, ?_⟩, ?_⟩
        · grind
        · intro y hy
          simp only [List.mem_cons] at hy
          rcases hy with rfl | hy
          · exact ⟨b, rfl, by grind⟩
          · exact ht y hy

theorem optMax_ge (xs : List (Option Rat)) (a : Rat) (h : optMax xs = some a) :
    ∀ x ∈ xs, ∃ v, x = some v ∧ v ≤ a :=
  (foldl_maxStep_some xs _ a (by rw [← optMax_eq]; exact h)).2

theorem optMin_ne_nil (xs : List (Option Rat)) (a : Rat) (h : optMin xs = some a) : xs ≠ [] := by
  intro e; subst e; simp [optMin] at h

theorem Data.at_mem_flat (d : Data) (i k : Nat) (v : Rat) (h : d.at i k = some v) :
    some v ∈ d.flat := by
  unfold Data.at at h
  unfold Data.flat
  rw [List.mem_flatten]
  by_cases hi : i < d.length
  · refine ⟨d[i], List.getElem_mem hi, ?_⟩
    have e : d.getD i [] = d[i] := by simp [List.getD, hi]
    rw [e] at h
    by_cases hk : k < d[i].length
    · have : (d[i]).getD k none = (d[i])[k] := by simp [List.getD, hk]
      rw [this] at h
      rw [← h]; exact List.getElem_mem hk
    · have : (d[i]).getD k none = none := by
        simp [List.getD, List.getElem?_eq_none (Nat.le_of_not_lt hk)]
      rw [this] at h; cases h
  · have : d.getD i [] = [] := by
      simp [List.getD, List.getElem?_eq_none (Nat.le_of_not_lt hi)]
    rw [this] at h; simp at h

end Pyunicorn.Access

/-! ### float → integer conversions -/
namespace Pyunicorn.Access

theorem truncInt_bounds {r : Rat} {nb : Int} (h0 : 0 ≤ r) (h1 : r < (nb : Rat)) :
    0 ≤ truncInt r ∧ truncInt r < nb := by
  unfold truncInt
  rw [if_pos h0]
  constructor
  · exact Rat.le_floor_iff.mpr (by simpa using h0)
  · exact Rat.floor_lt_iff.mpr h1

/-- the value that reaches the conversion lies in `[0, n_bins)` -/
theorem castArg_bounds {s m x : Option Rat} {nb : Int} {r : Rat} (hnb : 1 ≤ nb)
    (hpos : ∀ sv mv v, s = some sv → m = some mv → x = some v → 0 ≤ sv * (v - mv))
    (h : castArg s m nb x = some r) : 0 ≤ r ∧ r < (nb : Rat) := by
  unfold castArg at h
  split at h
  · rename_i sv mv v
    have hp := hpos sv mv v rfl rfl rfl
    simp only at h
    split at h
    · rename_i hlt
      cases h
      have hnbpos : (0 : Rat) < (nb : Rat) := by exact_mod_cast (by omega : (0:Int) < nb)
      constructor
      · exact Rat.mul_nonneg hp (Rat.le_of_lt hnbpos)
      · calc sv * (v - mv) * (nb : Rat) < 1 * (nb : Rat) :=
              Rat.mul_lt_mul_of_pos_right hlt hnbpos
          _ = nb := by simp
    · cases h
  · cases h

theorem castDefined_of_bounds {bits : Nat} {r : Rat} {nb : Int} (h0 : 0 ≤ r) (h1 : r < (nb : Rat))
    (hb : nb ≤ (2 : Int) ^ (bits - 1)) : castDefined bits r = true := by
  obtain ⟨t0, t1⟩ := truncInt_bounds h0 h1
  have hpow : (0 : Int) < (2 : Int) ^ (bits - 1) := Int.pow_pos (by decide)
  simp only [castDefined, decide_eq_true_eq]
  omega

theorem castsOK_of {bits N T : Nat} {s m : Option Rat} {nb : Int} {d : Nat → Nat → Option Rat}
    (h : ∀ i k, i < N → k < T → ∀ r, castArg s m nb (d i k) = some r → castDefined bits r = true) :
    castsOK bits N T s m nb d = true := by
  simp only [castsOK, List.all_eq_true, List.mem_range]
  intro i hi k hk
  split
  · rename_i r hr; exact h i k hi hk r hr
  · rfl

/-- all conversions are defined when no rescaled value is negative and
`1 ≤ n_bins ≤ 2^(bits-1)` -/
theorem castsOK_of_pos {bits N T : Nat} {s m : Option Rat} {nb : Int}
    {d : Nat → Nat → Option Rat} (hnb : 1 ≤ nb) (hb : nb ≤ (2 : Int) ^ (bits - 1))
    (hpos : ∀ i k sv mv v, s = some sv → m = some mv → d i k = some v → 0 ≤ sv * (v - mv)) :
    castsOK bits N T s m nb d = true :=
  castsOK_of fun i k _ _ _ hr =>
    let b := castArg_bounds hnb (fun sv mv v a b c => hpos i k sv mv v a b c) hr
    castDefined_of_bounds b.1 b.2 hb

/-- entry of a data array after an entrywise map -/
theorem Data.at_map (a : Data) (f : Option Rat → Option Rat) (hf : f none = none) (i k : Nat) :
    Data.at (a.map fun row => row.map f) i k = f (a.at i k) := by
  unfold Data.at
  simp only [List.getD_eq_getElem?_getD, List.getElem?_map]
  cases h : a[i]? with
  | none => simp [hf]
  | some row =>
    simp only [Option.map_some, Option.getD_some, List.getElem?_map]
    cases h2 : row[k]? with
    | none => simp [hf]
    | some x => simp

end Pyunicorn.Access

namespace Pyunicorn.Access

/-- row-major index over the integers -/
theorem lin2 {i n t m : Int} (hi0 : 0 ≤ i) (hi : i < n) (ht0 : 0 ≤ t) (ht : t < m) :
    0 ≤ i * m + t ∧ i * m + t < n * m := by
  have hm : 0 ≤ m := by omega
  have h1 : 0 ≤ i * m := Int.mul_nonneg hi0 hm
  have h2 : (i + 1) * m ≤ n * m := Int.mul_le_mul_of_nonneg_right (by omega) hm
  have h3 : (i + 1) * m = i * m + m := by rw [Int.add_mul, Int.one_mul]
  omega

/-- start of row `i` of an `n × m` array: the whole row `[i*m, i*m + m)` lies inside -/
theorem row2 {i n m : Int} (hi0 : 0 ≤ i) (hi : i < n) (hm : 0 ≤ m) :
    0 ≤ i * m ∧ i * m + m ≤ n * m := by
  have h1 : 0 ≤ i * m := Int.mul_nonneg hi0 hm
  have h2 : (i + 1) * m ≤ n * m := Int.mul_le_mul_of_nonneg_right (by omega) hm
  have h3 : (i + 1) * m = i * m + m := by rw [Int.add_mul, Int.one_mul]
  omega

end Pyunicorn.Access

/-! ### extended reals (round 3) -/
namespace Pyunicorn.Access

theorem sgn_nonneg {a : Rat} (h : 0 ≤ a) : sgn a = 0 ∨ sgn a = 1 := by
  unfold sgn
  split
  · rename_i hlt; exact absurd h (Rat.not_le.mpr hlt)
  · split <;> simp

theorem XR.sub_notNeg (m x : XR) (hmx : m.isNan = true ∨ x.isNan = true ∨ XR.le m x = true) :
    (XR.sub x m).notNeg = true := by
  cases x <;> cases m <;> simp_all [XR.sub, XR.notNeg, XR.le, XR.isNan]
  rename_i a b
  exact (Rat.le_iff_sub_nonneg b a).mp hmx

theorem XR.mul_notNeg (s d : XR) (hs : s.notNeg = true) (hd : d.notNeg = true) :
    (XR.mul s d).notNeg = true := by
  cases s with
  | nan => cases d <;> simp [XR.mul, XR.notNeg]
  | ninf => simp [XR.notNeg] at hs
  | pinf =>
    cases d with
    | nan => simp [XR.mul, XR.notNeg]
    | ninf => simp [XR.notNeg] at hd
    | pinf => simp [XR.mul, XR.notNeg]
    | fin b =>
      have hb : 0 ≤ b := by simpa [XR.notNeg] using hd
      rcases sgn_nonneg hb with h | h <;> simp [XR.mul, h, XR.notNeg]
  | fin a =>
    have ha : 0 ≤ a := by simpa [XR.notNeg] using hs
    cases d with
    | nan => simp [XR.mul, XR.notNeg]
    | ninf => simp [XR.notNeg] at hd
    | pinf => rcases sgn_nonneg ha with h | h <;> simp [XR.mul, h, XR.notNeg]
    | fin b =>
      have hb : 0 ≤ b := by simpa [XR.notNeg] using hd
      simp only [XR.mul, XR.notNeg, decide_eq_true_eq]
      exact Rat.mul_nonneg ha hb

end Pyunicorn.Access
