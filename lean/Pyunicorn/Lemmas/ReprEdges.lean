import Pyunicorn.Lemmas.ReprAttrs
import Pyunicorn.Model.ReprEdges
/-!
Helper lemmas for C05, part 4 (round 4): the per-edge loops of `set_link_attribute` and
`link_attribute` compute what the closed forms of rounds 1–3 say; the order of the edge ids
of the embedded graph object (and the orientation in which an undirected edge was listed) is
not observable.
-/
namespace Pyunicorn.Repr

/-! ### `link_attribute`: the loop is the closed form "the last edge at the cell decides" -/

theorem linkAttrBody_apply (d : Bool) (W : Nat → Nat → Rat) (q : (Nat × Nat) × Rat) (i j : Nat) :
    linkAttrBody d W q i j = if cellPred d i j q.1 then q.2 else W i j := by
  obtain ⟨⟨a, b⟩, x⟩ := q
  cases d
  · simp only [linkAttrBody, updCell, swap, cellPred, Bool.false_eq_true, if_false, Bool.not_false,
      Bool.true_and, Bool.or_eq_true, beq_iff_eq, Prod.mk.injEq]
    by_cases h1 : i = b ∧ j = a
    · obtain ⟨rfl, rfl⟩ := h1
      simp
    · by_cases h2 : i = a ∧ j = b
      · obtain ⟨rfl, rfl⟩ := h2
        simp
      · have h3 : ¬ (a = i ∧ b = j) := fun h => h2 ⟨h.1.symm, h.2.symm⟩
        have h4 : ¬ (a = j ∧ b = i) := fun h => h1 ⟨h.2.symm, h.1.symm⟩
        rw [if_neg h1, if_neg h2, if_neg (by intro h; rcases h with h | h; exact h3 h; exact h4 h)]
  · simp only [linkAttrBody, updCell, cellPred, if_true, Bool.not_true, Bool.false_and,
      Bool.or_false, beq_iff_eq, Prod.mk.injEq]
    by_cases h2 : i = a ∧ j = b
    · obtain ⟨rfl, rfl⟩ := h2
      simp
    · have h3 : ¬ (a = i ∧ b = j) := fun h => h2 ⟨h.1.symm, h.2.symm⟩
      rw [if_neg h2, if_neg h3]

theorem foldl_linkAttrBody (d : Bool) (l : List ((Nat × Nat) × Rat)) :
    ∀ (W : Nat → Nat → Rat) (i j : Nat),
    (l.foldl (linkAttrBody d) W) i j =
      match (l.reverse.find? fun q => cellPred d i j q.1).map (·.2) with
      | some x => x
      | none => W i j := by
  induction l with
  | nil => intro W i j; simp
  | cons q l ih =>
    intro W i j
    rw [List.foldl_cons, ih, List.reverse_cons, List.find?_append]
    cases hf : l.reverse.find? fun q => cellPred d i j q.1 with
    | some y => simp
    | none =>
      simp only [Option.map_none, Option.none_or, List.find?_cons, List.find?_nil]
      rw [linkAttrBody_apply]
      cases cellPred d i j q.1 <;> simp

/-- **`link_attribute` as the loop over the edge ids** is the closed form of round 1 -/
theorem linkAttrLoop_eq (net : Net) : linkAttrLoop net = linkAttr net := by
  unfold linkAttrLoop linkAttr
  split
  · rfl
  · cases net.eattr with
    | none => rfl
    | some vs =>
      simp only [Option.map_some]
      congr 1
      funext i j
      rw [foldl_linkAttrBody]
      rfl

theorem linkAttrLoopA_eq (x : NetA) (a : String) : linkAttrLoopA x a = linkAttrA x a :=
  linkAttrLoop_eq _

/-! ### `set_link_attribute`: after the loop every edge holds `values[e.tuple]` -/

/-- body of `assignLoop` -/
def loopBody (g : List (Nat × Nat)) (v : Nat → Nat → Rat) (st : EdgeVec) (k : Nat) : EdgeVec :=
  match g[k]? with
  | some e => assignEdge g.length st k (v e.1 e.2)
  | none => st

theorem assignLoop_def (g : List (Nat × Nat)) (v : Nat → Nat → Rat) (st : EdgeVec) :
    assignLoop g v st = (List.range g.length).foldl (loopBody g v) st := rfl

/-- invariant of the loop: after the edge ids `0 … j-1` the attribute exists, has one entry
per edge, and holds `values[e.tuple]` on every edge reached so far -/
theorem assignLoop_inv (g : List (Nat × Nat)) (v : Nat → Nat → Rat) (st : EdgeVec) :
    ∀ j, 0 < j → j ≤ g.length →
      ∃ L, (List.range j).foldl (loopBody g v) st = some L ∧ L.length = g.length ∧
        ∀ i e, i < j → g[i]? = some e → L[i]? = some (some (v e.1 e.2)) := by
  intro j
  induction j with
  | zero => intro h; omega
  | succ j ih =>
    intro _ hj
    rw [List.range_succ, List.foldl_append, List.foldl_cons, List.foldl_nil]
    have hjl : j < g.length := by omega
    have hgj : g[j]? = some g[j] := List.getElem?_eq_getElem hjl
    generalize hs : (List.range j).foldl (loopBody g v) st = s at ih ⊢
    unfold loopBody
    rw [hgj]
    simp only [assignEdge]
    refine ⟨_, rfl, by simp, ?_⟩
    intro i e hi he
    have him : i < g.length := by
      rcases Nat.lt_or_ge i g.length with h | h
      · exact h
      · rw [List.getElem?_eq_none h] at he; cases he
    rw [List.getElem?_map, List.getElem?_range him]
    simp only [Option.map_some]
    by_cases hij : i = j
    · subst hij
      rw [hgj] at he
      cases he
      simp
    · have hij' : i < j := by omega
      obtain ⟨L, hL, _, hLi⟩ := ih (by omega) (by omega)
      rw [hL]
      simp only [Option.getD_some]
      rw [hLi i e hij' he]
      have : (i == j) = false := by simpa using hij
      simp [this]

theorem assignLoop_nil (v : Nat → Nat → Rat) (st : EdgeVec) : assignLoop [] v st = st := rfl

theorem assignLoop_spec (g : List (Nat × Nat)) (v : Nat → Nat → Rat) (st : EdgeVec) (hg : g ≠ []) :
    assignLoop g v st = some (g.map fun e => some (v e.1 e.2)) := by
  have hpos : 0 < g.length := List.length_pos_iff.2 hg
  obtain ⟨L, hL, hlen, hLi⟩ := assignLoop_inv g v st g.length hpos (Nat.le_refl _)
  rw [assignLoop_def, hL]
  congr 1
  apply List.ext_getElem?
  intro i
  rcases Nat.lt_or_ge i g.length with h | h
  · rw [hLi i g[i] h (List.getElem?_eq_getElem h), List.getElem?_map, List.getElem?_eq_getElem h]
    rfl
  · rw [List.getElem?_eq_none (by omega), List.getElem?_eq_none (by simpa using h)]

/-- re-assigning the values an attribute already has changes nothing -/
theorem put_self (as : Attrs) (a : String) (vs : List Rat) (h : as.get a = some vs) :
    as.put a vs = as := by
  induction as with
  | nil => simp [Attrs.get] at h
  | cons p ps ih =>
    unfold Attrs.get at h
    unfold Attrs.put
    by_cases hp : (p.1 == a) = true
    · rw [if_pos hp] at h ⊢
      have h1 : p.1 = a := by simpa using hp
      have h2 : p.2 = vs := by simpa using h
      rw [← h1, ← h2]
    · rw [if_neg hp] at h ⊢
      rw [ih h]

theorem filterMap_id_map_some (vs : List Rat) : (vs.map some).filterMap id = vs := by
  induction vs with
  | nil => rfl
  | cons x xs ih => simp

/-- **`set_link_attribute` as the loop over the edge ids** is the closed form of rounds 1–3:
every edge ends up with `values[e.tuple]`, whatever the order of the edge ids; on a graph
without edges nothing is assigned and no attribute comes into existence -/
theorem setLinkAttrLoop_eq (x : NetA) (a : String) (v : Nat → Nat → Rat) :
    setLinkAttrLoop x a v = setLinkAttrA x a v := by
  unfold setLinkAttrLoop setLinkAttrA
  by_cases hg : x.core.graph = []
  · rw [hg, assignLoop_nil]
    simp only [List.isEmpty_nil, if_true]
    cases ha : x.attrs.get a with
    | none => rfl
    | some vs =>
      simp only [Option.map_some, commitVec]
      rw [filterMap_id_map_some, put_self _ _ _ ha]
  · rw [assignLoop_spec _ _ _ hg]
    have : x.core.graph.isEmpty = false := by simpa using hg
    simp only [this, Bool.false_eq_true, if_false, commitVec]
    congr 2
    rw [List.filterMap_map]
    induction x.core.graph with
    | nil => rfl
    | cons e es ih => simp

theorem stepL_eq (store : IGraphA → IGraphA) (x : NetA) (op : OpA) :
    stepL store x op = stepA store x op := by
  cases op <;> first | rfl | (simp only [stepL, stepA, setLinkAttrLoop_eq])

theorem runL_eq (store : IGraphA → IGraphA) (ops : List OpA) :
    ∀ x : NetA, runL store x ops = runA store x ops := by
  induction ops with
  | nil => intro x; rfl
  | cons op ops ih =>
    intro x
    unfold runL runA
    rw [stepL_eq]
    cases stepA store x op with
    | ok y => exact ih y
    | error e => rfl

/-! ### the order of the edge ids is not observable -/

/-- the matrix an edge attribute with per-edge values `vs` describes (what `link_attribute`
returns for it) -/
def matOf (d : Bool) (E : List (Nat × Nat)) (vs : List Rat) (i j : Nat) : Rat :=
  match lastVal E vs (cellPred d i j) with
  | some x => x
  | none => 0

theorem linkAttr_netOf_some (d : Bool) (E : List (Nat × Nat)) (vs : List Rat) :
    linkAttr (netOf d E (some vs)) = some (matOf d E vs) := by
  unfold linkAttr netOf
  by_cases hE : E = []
  · subst hE
    simp only [List.isEmpty_nil, if_true]
    congr 1
  · have : E.isEmpty = false := by simpa using hE
    simp only [this, Bool.false_eq_true, if_false, Option.map_some]
    rfl

theorem matOf_not_rel (d : Bool) (E : List (Nat × Nat)) (vs : List Rat) (i j : Nat)
    (hr : rel d E i j = false) : matOf d E vs i j = 0 := by
  unfold matOf lastVal
  have : (E.zip vs).reverse.find? (fun q => cellPred d i j q.1) = none := by
    rw [List.find?_eq_none]
    intro q hq hp
    have hmem : q.1 ∈ E := (List.of_mem_zip (List.mem_reverse.1 hq)).1
    unfold rel at hr
    simp only [Bool.or_eq_false_iff, decide_eq_false_iff_not, Bool.and_eq_false_iff,
      Bool.not_eq_eq_eq_not, Bool.not_false] at hr
    simp only [cellPred, Bool.or_eq_true, beq_iff_eq, Bool.and_eq_true, Bool.not_eq_true'] at hp
    rcases hp with hp | ⟨hd, hp⟩
    · exact hr.1 (hp ▸ hmem)
    · rcases hr.2 with h2 | h2
      · rw [hd] at h2; cases h2
      · exact h2 (hp ▸ hmem)
  rw [this]
  rfl

/-- `find?` of a predicate that at most one element satisfies does not depend on the order -/
theorem find?_perm_unique {α : Type} (p : α → Bool) (l l' : List α) (hp : l'.Perm l)
    (hu : ∀ x y, x ∈ l → y ∈ l → p x = true → p y = true → x = y) : l'.find? p = l.find? p := by
  cases h : l.find? p with
  | none =>
    rw [List.find?_eq_none] at h ⊢
    intro x hx
    exact h x (hp.mem_iff.1 hx)
  | some x =>
    have hx : p x = true := List.find?_some h
    have hxm : x ∈ l := List.mem_of_find?_eq_some h
    cases h' : l'.find? p with
    | none =>
      rw [List.find?_eq_none] at h'
      exact absurd hx (h' x (hp.mem_iff.2 hxm))
    | some y =>
      have hy : p y = true := List.find?_some h'
      have hym : y ∈ l := hp.mem_iff.1 (List.mem_of_find?_eq_some h')
      rw [hu y x hym hxm hy hx]

/-- in the value table of a simple graph at most one row answers for a cell -/
theorem unique_row (d : Bool) (E : List (Nat × Nat)) (vs : List Rat) (hs : SimpleEdges d E)
    (hl : vs.length = E.length) (i j : Nat) :
    ∀ x y, x ∈ E.zip vs → y ∈ E.zip vs → cellPred d i j x.1 = true → cellPred d i j y.1 = true →
      x = y := by
  have hnd : ((E.zip vs).map Prod.fst).Nodup := by
    rw [List.map_fst_zip (by omega)]
    exact hs.1
  have key : ∀ x y, x ∈ E.zip vs → y ∈ E.zip vs → x.1 = y.1 → x = y := by
    intro x y hx hy hxy
    exact List.inj_on_of_nodup_map hnd hx hy hxy
  intro x y hx hy px py
  simp only [cellPred, Bool.or_eq_true, beq_iff_eq, Bool.and_eq_true, Bool.not_eq_true'] at px py
  have hxE : x.1 ∈ E := (List.of_mem_zip hx).1
  have hyE : y.1 ∈ E := (List.of_mem_zip hy).1
  rcases px with px | ⟨hd, px⟩ <;> rcases py with py | ⟨hd', py⟩
  · exact key x y hx hy (px.trans py.symm)
  · -- x at (i, j), y at (j, i), undirected: both orientations stored unless i = j
    have := hs.2 hd' y.1 hyE
    rw [py] at this
    simp only [swap] at this
    exact absurd (px ▸ hxE) this
  · have := hs.2 hd x.1 hxE
    rw [px] at this
    simp only [swap] at this
    exact absurd (py ▸ hyE) this
  · exact key x y hx hy (px.trans py.symm)

/-- **order independence of `link_attribute`**: listing the edges of a simple graph (with
their values) in another order describes the same matrix -/
theorem matOf_perm (d : Bool) (E E' : List (Nat × Nat)) (vs vs' : List Rat)
    (hs : SimpleEdges d E) (hl : vs.length = E.length)
    (hp : (E'.zip vs').Perm (E.zip vs)) : matOf d E' vs' = matOf d E vs := by
  funext i j
  unfold matOf lastVal
  have hu := unique_row d E vs hs hl i j
  have h1 : (E'.zip vs').reverse.find? (fun q => cellPred d i j q.1)
      = (E.zip vs).find? (fun q => cellPred d i j q.1) :=
    find?_perm_unique _ _ _ ((List.reverse_perm _).trans hp) hu
  have h2 : (E.zip vs).reverse.find? (fun q => cellPred d i j q.1)
      = (E.zip vs).find? (fun q => cellPred d i j q.1) :=
    find?_perm_unique _ _ _ (List.reverse_perm _) hu
  rw [h1, h2]

theorem rel_perm (d : Bool) (E E' : List (Nat × Nat)) (hp : E'.Perm E) (i j : Nat) :
    rel d E' i j = rel d E i j := by
  unfold rel
  rw [decide_eq_decide.2 hp.mem_iff, decide_eq_decide.2 (hp.mem_iff (a := (j, i)))]

theorem simpleEdges_perm (d : Bool) (E E' : List (Nat × Nat)) (hp : E'.Perm E)
    (hs : SimpleEdges d E) : SimpleEdges d E' :=
  ⟨hp.nodup_iff.2 hs.1, fun hd p hpE hq => hs.2 hd p (hp.mem_iff.1 hpE) (hp.mem_iff.1 hq)⟩

/-- an igraph object with named edge attributes that is a simple graph on at least two nodes
with one vertex weight per node (if any) and one value per edge and attribute -/
structure SimpleIG (h : IGraphA) : Prop where
  size : 2 ≤ h.g.n
  simple : SimpleEdges h.g.directed h.g.edges
  noloop : NoLoops h.g.edges
  range : ∀ p ∈ h.g.edges, p.1 < h.g.n ∧ p.2 < h.g.n
  wlen : ∀ w, h.g.vw = some w → w.length = h.g.n
  alen : ∀ a vs, h.attrs.get a = some vs → vs.length = h.g.edges.length

/-- the abstract state an igraph object describes -/
def absOf (h : IGraphA) : AbsA :=
  ⟨h.g.directed, rel h.g.directed h.g.edges, weightsOf h.g.n h.g.vw,
   fun a => (h.attrs.get a).map (matOf h.g.directed h.g.edges), h.g.vw⟩

/-- `FromIGraph` / `Load` of a simple igraph object represents every state its edges, weights
and attributes are a listing of -/
theorem fromIGraphA_reprs_of (h : IGraphA) (hs : SimpleIG h) (σ : AbsA)
    (hd : h.g.directed = σ.d)
    (hadj : ∀ i j, i < h.g.n → j < h.g.n → rel h.g.directed h.g.edges i j = σ.a i j)
    (hw : weightsOf h.g.n h.g.vw = σ.w) (hv : h.g.vw = σ.gvw)
    (hattr : ∀ a, AttrOK h.g.directed h.g.edges h.attrs a (σ.V a)) :
    ∃ x, fromIGraphA h = .ok x ∧ ReprsA x σ ∧ x.core.N = h.g.n ∧ x.core.directed = h.g.directed
      ∧ x.core.graph = h.g.edges ∧ x.attrs = h.attrs := by
  have hwl : (weightsOf h.g.n h.g.vw).length = h.g.n := by
    cases hvw : h.g.vw with
    | none => simp [weightsOf]
    | some x => exact hs.wlen x hvw
  have hgood : Good h.g.directed h.g.n h.g.edges none h.g.vw (weightsOf h.g.n h.g.vw) :=
    ⟨hs.size, hs.simple, hs.noloop, hs.range, hwl, (fun _ h => by cases h), hs.wlen⟩
  have hfrom : fromIGraph { h.g with ea := none }
      = .ok (form h.g.directed h.g.n h.g.edges none h.g.vw (weightsOf h.g.n h.g.vw)) :=
    fromIGraph_simple { h.g with ea := none } hs.size hs.simple hs.range hs.wlen
  refine ⟨⟨form h.g.directed h.g.n h.g.edges none h.g.vw (weightsOf h.g.n h.g.vw), h.attrs⟩,
    ?_, reprsA_form hgood hd hadj hw hv hattr, rfl, rfl, rfl, rfl⟩
  unfold fromIGraphA
  rw [hfrom]
  rfl

theorem attrOK_absOf (h : IGraphA) (a : String) :
    AttrOK h.g.directed h.g.edges h.attrs a ((absOf h).V a) := by
  show AttrOK h.g.directed h.g.edges h.attrs a
    ((h.attrs.get a).map (matOf h.g.directed h.g.edges))
  cases ha : h.attrs.get a with
  | none => exact ha
  | some vs =>
    refine ⟨fun _ => ⟨vs, ha⟩, matOf h.g.directed h.g.edges vs, ?_, ?_⟩
    · rw [ha]; exact linkAttr_netOf_some _ _ _
    · intro i j
      cases hr : rel h.g.directed h.g.edges i j with
      | true => simp
      | false => simp [matOf_not_rel _ _ _ _ _ hr]

theorem fromIGraphA_reprs (h : IGraphA) (hs : SimpleIG h) :
    ∃ x, fromIGraphA h = .ok x ∧ ReprsA x (absOf h) ∧ x.core.N = h.g.n
      ∧ x.core.directed = h.g.directed ∧ x.core.graph = h.g.edges ∧ x.attrs = h.attrs :=
  fromIGraphA_reprs_of h hs (absOf h) rfl (fun _ _ _ _ => rfl) rfl rfl (attrOK_absOf h)

/-- `h'` is `h` with the edges (and with them the values of every edge attribute) listed in
another order -/
structure Reordered (h h' : IGraphA) : Prop where
  n : h'.g.n = h.g.n
  d : h'.g.directed = h.g.directed
  vw : h'.g.vw = h.g.vw
  edges : h'.g.edges.Perm h.g.edges
  attrs : ∀ a, (h.attrs.get a = none ∧ h'.attrs.get a = none) ∨
    ∃ vs vs', h.attrs.get a = some vs ∧ h'.attrs.get a = some vs' ∧
      vs'.length = h'.g.edges.length ∧ (h'.g.edges.zip vs').Perm (h.g.edges.zip vs)

theorem simpleIG_reordered {h h' : IGraphA} (hs : SimpleIG h) (hr : Reordered h h') :
    SimpleIG h' := by
  refine ⟨hr.n ▸ hs.size, ?_, ?_, ?_, ?_, ?_⟩
  · rw [hr.d]; exact simpleEdges_perm _ _ _ hr.edges hs.simple
  · intro p hp; exact hs.noloop p (hr.edges.mem_iff.1 hp)
  · intro p hp; rw [hr.n]; exact hs.range p (hr.edges.mem_iff.1 hp)
  · intro w hw; rw [hr.vw] at hw; rw [hr.n]; exact hs.wlen w hw
  · intro a vs hv
    rcases hr.attrs a with ⟨_, h2⟩ | ⟨_, vs', _, h2, h3, _⟩
    · rw [h2] at hv; cases hv
    · rw [h2] at hv; cases hv; exact h3

/-- the reordered object describes the same abstract state -/
theorem reordered_reprs {h h' : IGraphA} (hs : SimpleIG h) (hr : Reordered h h') :
    ∃ x', fromIGraphA h' = .ok x' ∧ ReprsA x' (absOf h) ∧ x'.core.N = h.g.n
      ∧ x'.core.directed = h.g.directed := by
  obtain ⟨x', h1, h2, h3, h4, _⟩ := fromIGraphA_reprs_of h' (simpleIG_reordered hs hr) (absOf h)
    hr.d
    (fun i j _ _ => by rw [hr.d]; exact rel_perm _ _ _ hr.edges i j)
    (by show weightsOf h'.g.n h'.g.vw = weightsOf h.g.n h.g.vw; rw [hr.n, hr.vw])
    hr.vw
    (by
      intro a
      show AttrOK h'.g.directed h'.g.edges h'.attrs a
        ((h.attrs.get a).map (matOf h.g.directed h.g.edges))
      rcases hr.attrs a with ⟨h1, h2⟩ | ⟨vs, vs', h1, h2, h3, h4⟩
      · rw [h1]; exact h2
      · rw [h1]
        refine ⟨fun _ => ⟨vs', h2⟩, matOf h'.g.directed h'.g.edges vs', ?_, ?_⟩
        · rw [h2]; exact linkAttr_netOf_some _ _ _
        · intro i j
          rw [hr.d, matOf_perm h.g.directed h.g.edges h'.g.edges vs vs' hs.simple
            (hs.alen a vs h1) h4, rel_perm _ _ _ hr.edges]
          cases hrel : rel h.g.directed h.g.edges i j with
          | true => simp
          | false => simp [matOf_not_rel _ _ _ _ _ hrel])
  exact ⟨x', h1, h2, h3.trans hr.n, h4.trans hr.d⟩

/-! ### `igraph.Graph(n, edges, directed)`: the orientation in which an undirected edge is
listed is not kept -/

theorem normEdge_swap (e : Nat × Nat) : normEdge false (swap e) = normEdge false e := by
  simp only [normEdge, swap, Bool.false_eq_true, if_false, Prod.mk.injEq]
  exact ⟨Nat.min_comm _ _, Nat.max_comm _ _⟩

theorem normEdge_directed (e : Nat × Nat) : normEdge true e = e := rfl

theorem normEdge_idem (d : Bool) (e : Nat × Nat) : normEdge d (normEdge d e) = normEdge d e := by
  cases d
  · simp only [normEdge, Bool.false_eq_true, if_false, Prod.mk.injEq]
    constructor <;> omega
  · rfl

theorem normEdge_eq_or (d : Bool) (e : Nat × Nat) :
    normEdge d e = e ∨ (d = false ∧ normEdge d e = swap e) := by
  obtain ⟨a, b⟩ := e
  cases d
  · simp only [normEdge, swap, Bool.false_eq_true, if_false, Prod.mk.injEq, true_and]
    omega
  · exact Or.inl rfl

/-- the relation igraph's edge tuples describe is the one the listing describes -/
theorem rel_map_normEdge (d : Bool) (E : List (Nat × Nat)) (i j : Nat) :
    rel d (E.map (normEdge d)) i j = rel d E i j := by
  cases d
  · -- undirected: both sides are "some orientation of (i, j) is listed"
    have key : ∀ a b : Nat, ((a, b) ∈ E.map (normEdge false) ∨ (b, a) ∈ E.map (normEdge false))
        ↔ ((a, b) ∈ E ∨ (b, a) ∈ E) := by
      intro a b
      constructor
      · rintro (h | h) <;>
        · obtain ⟨e, he, hn⟩ := List.mem_map.1 h
          rcases normEdge_eq_or false e with h1 | ⟨_, h1⟩
          · rw [h1] at hn; subst hn; first | exact Or.inl he | exact Or.inr he
          · rw [h1] at hn
            obtain ⟨e1, e2⟩ := e
            simp only [swap, Prod.mk.injEq] at hn
            obtain ⟨rfl, rfl⟩ := hn
            first | exact Or.inr he | exact Or.inl he
      · intro h
        have : ∃ e ∈ E, e = (a, b) ∨ e = (b, a) := by
          rcases h with h | h
          · exact ⟨_, h, Or.inl rfl⟩
          · exact ⟨_, h, Or.inr rfl⟩
        obtain ⟨e, he, hab⟩ := this
        have hm : normEdge false e ∈ E.map (normEdge false) := List.mem_map.2 ⟨e, he, rfl⟩
        have hn : normEdge false e = (min a b, max a b) := by
          rcases hab with rfl | rfl
          · rfl
          · simp only [normEdge, Bool.false_eq_true, if_false, Prod.mk.injEq]
            exact ⟨Nat.min_comm _ _, Nat.max_comm _ _⟩
        rw [hn] at hm
        rcases Nat.le_total a b with hab' | hab'
        · left; rwa [Nat.min_eq_left hab', Nat.max_eq_right hab'] at hm
        · right; rwa [Nat.min_eq_right hab', Nat.max_eq_left hab'] at hm
    unfold rel
    have := key i j
    simp only [Bool.not_false, Bool.true_and]
    rw [Bool.eq_iff_iff]
    simpa using this
  · have : normEdge true = id := by funext e; rfl
    rw [this, List.map_id]

/-! ### the graph object the adjacency setter builds is in adjacency order -/

/-- building the graph again from its own edge list changes nothing, order included -/
theorem graphEdges_idem (d : Bool) (N : Nat) (c : List (Nat × Nat)) :
    graphEdges d N (graphEdges d N c) = graphEdges d N c := by
  unfold graphEdges
  apply List.filter_congr
  intro p hp
  cases d
  · simp only [Bool.false_eq_true, if_false]
    by_cases hlt : p.1 < p.2
    · have hsw : ¬ (swap p).1 < (swap p).2 := by simp only [swap]; omega
      simp [List.mem_filter, hp, hlt, hsw]
    · simp [hlt]
  · simp only [if_true]
    by_cases hne : p.1 = p.2
    · simp [hne]
    · simp [List.mem_filter, hp, hne]

/-! ### `SpatialNetwork.Load` / `GeoNetwork.Load` of an igraph object somebody else wrote -/

theorem attrOK_reordered {h h' : IGraphA} (hs : SimpleIG h) (hr : Reordered h h') (a : String) :
    AttrOK h'.g.directed h'.g.edges h'.attrs a ((absOf h).V a) := by
  show AttrOK h'.g.directed h'.g.edges h'.attrs a
    ((h.attrs.get a).map (matOf h.g.directed h.g.edges))
  rcases hr.attrs a with ⟨h1, h2⟩ | ⟨vs, vs', h1, h2, h3, h4⟩
  · rw [h1]; exact h2
  · rw [h1]
    refine ⟨fun _ => ⟨vs', h2⟩, matOf h'.g.directed h'.g.edges vs', ?_, ?_⟩
    · rw [h2]; exact linkAttr_netOf_some _ _ _
    · intro i j
      rw [hr.d, matOf_perm h.g.directed h.g.edges h'.g.edges vs vs' hs.simple
        (hs.alen a vs h1) h4, rel_perm _ _ _ hr.edges]
      cases hrel : rel h.g.directed h.g.edges i j with
      | true => simp
      | false => simp [matOf_not_rel _ _ _ _ _ hrel]


/-- the weights `SpatialNetwork.Load` / `GeoNetwork.Load` end with: the stored ones, else the
ones the constructor assigned (`geoW`), else ones -/
def loadedWeights (N : Nat) (vw : Option (List Rat)) (geoW : Option (Option (List Rat))) : List Rat :=
  match vw with
  | some v => v
  | none => match geoW with
    | some x => weightsOf N x
    | none => List.replicate N 1

theorem loadViaAdjacency_simple (g : IGraph) (hN : 2 ≤ g.n) (hs : SimpleEdges g.directed g.edges)
    (hw : ∀ w, g.vw = some w → w.length = g.n)
    (gw : Option (Option (List Rat))) (hgw : ∀ x, gw = some (some x) → x.length = g.n) :
    loadViaAdjacency g gw = .ok { ofGraph g.directed g.n (rel g.directed g.edges)
        (loadedWeights g.n g.vw gw) none with graph := g.edges, eattr := g.ea, gvw := g.vw } := by
  unfold loadViaAdjacency
  simp only
  have hadj : ofDenseMat g.n g.n (igAdj g) = ofDenseMat g.n g.n (ind (rel g.directed g.edges)) := by
    apply ofDenseMat_congr
    intro i j _ _
    exact igAdj_simple g hs i j
  rw [hadj, init_dense_none g.directed g.n hN (rel g.directed g.edges)]
  simp only [bind, Except.bind]
  have h1 : ∃ w1, assignWeights (ofGraph g.directed g.n (rel g.directed g.edges)
        (List.replicate g.n 1) none) gw
      = .ok (ofGraph g.directed g.n (rel g.directed g.edges) w1 none)
      ∧ w1 = loadedWeights g.n none gw := by
    cases gw with
    | none => exact ⟨_, rfl, rfl⟩
    | some x =>
      refine ⟨weightsOf g.n x, ?_, rfl⟩
      show setWeights _ x = _
      apply setWeights_ofGraph
      intro y hy; subst hy; exact hgw y rfl
  obtain ⟨w1, h1, hw1⟩ := h1
  rw [h1]
  cases hv : g.vw with
  | none =>
    simp only [Option.map_none, assignWeights]
    rw [hw1]
    rfl
  | some v =>
    simp only [Option.map_some, assignWeights]
    rw [setWeights_ofGraph g.directed g.n (rel g.directed g.edges) w1 none (some v) (fun x hx => by
      simp only [Option.some.injEq] at hx; subst hx; exact hw v hv)]
    rfl

/-- `SpatialNetwork.Load` / `GeoNetwork.Load` of a simple igraph object with named attributes
(edges in the object's own order): rebuilt from the dense adjacency matrix, the stored weights
(else the constructor's) assigned, the graph object and its dictionary adopted -/
theorem loadViaAdjacencyA_reprs_of (h : IGraphA) (hs : SimpleIG h)
    (gw : Option (Option (List Rat))) (hgw : ∀ x, gw = some (some x) → x.length = h.g.n)
    (σ : AbsA) (hd : h.g.directed = σ.d)
    (hadj : ∀ i j, i < h.g.n → j < h.g.n → rel h.g.directed h.g.edges i j = σ.a i j)
    (hw : loadedWeights h.g.n h.g.vw gw = σ.w) (hv : h.g.vw = σ.gvw)
    (hattr : ∀ a, AttrOK h.g.directed h.g.edges h.attrs a (σ.V a)) :
    ∃ x, loadViaAdjacencyA h gw = .ok x ∧ ReprsA x σ ∧ x.core.N = h.g.n
      ∧ x.core.directed = h.g.directed ∧ x.core.graph = h.g.edges ∧ x.attrs = h.attrs := by
  have hwl : (loadedWeights h.g.n h.g.vw gw).length = h.g.n := by
    unfold loadedWeights
    cases hvw : h.g.vw with
    | some x => exact hs.wlen x hvw
    | none =>
      cases gw with
      | none => simp
      | some y =>
        cases y with
        | none => simp [weightsOf]
        | some z => exact hgw z rfl
  have hgood : Good h.g.directed h.g.n h.g.edges none h.g.vw (loadedWeights h.g.n h.g.vw gw) :=
    ⟨hs.size, hs.simple, hs.noloop, hs.range, hwl, (fun _ h => by cases h), hs.wlen⟩
  have hload : loadViaAdjacency { h.g with ea := none } gw
      = .ok (form h.g.directed h.g.n h.g.edges none h.g.vw (loadedWeights h.g.n h.g.vw gw)) :=
    loadViaAdjacency_simple { h.g with ea := none } hs.size hs.simple hs.wlen gw hgw
  refine ⟨⟨form h.g.directed h.g.n h.g.edges none h.g.vw (loadedWeights h.g.n h.g.vw gw), h.attrs⟩,
    ?_, reprsA_form hgood hd hadj hw hv hattr, rfl, rfl, rfl, rfl⟩
  unfold loadViaAdjacencyA
  rw [hload]
  rfl

end Pyunicorn.Repr
