import Pyunicorn.Lemmas.LineDistRnd64
/-!
C08, round 5: **overflow of a finite difference to `inf`** (`xOpsO rnd`, `Model/LineDistFloat.lean`).
Where no coordinate difference overflows the generated kernels at `xOpsO rnd` are the kernels at
`xOps rnd` (about which rounds 4–5 prove everything else); for `rnd64` this holds as soon as the
finite samples are bounded by `2^1022` in magnitude — in particular for every embedding of the
class, which is a converted float32 array (`|x| < 2^128`).
-/
namespace Pyunicorn.LineDist
open Pyunicorn.Generated
open Pyunicorn.Visibility (pow2 pow2_pos pow2_natCast)

/-- no rounded coordinate difference of the embedding reaches `2^1024` -/
def NoOvf (rnd : Rat → Rat) (E : Int → Int → X) (dim : Nat) : Prop :=
  ∀ (I j : Int) (l : Nat), l < dim → ∀ q, X.absdiff rnd (E I l) (E j l) = .fin q → q < ovfBound

theorem absdiffO_eq (rnd : Rat → Rat) (a b : X)
    (h : ∀ q, X.absdiff rnd a b = .fin q → q < ovfBound) :
    X.absdiffO rnd a b = X.absdiff rnd a b := by
  unfold X.absdiffO
  cases hx : X.absdiff rnd a b with
  | fin q => simp only [X.ovf]; rw [if_neg (not_le.mpr (h q hx))]
  | pinf => rfl
  | ninf => rfl
  | nan => rfl

theorem foldl_congr_mem {α β : Type} (f g : α → β → α) (l : List β) (a : α)
    (h : ∀ b ∈ l, ∀ acc, f acc b = g acc b) : l.foldl f a = l.foldl g a := by
  induction l generalizing a with
  | nil => rfl
  | cons b t ih =>
    simp only [List.foldl_cons]
    rw [h b (by simp), ih _ (fun b' hb' => h b' (by simp [hb']))]

/-- without overflow the metric with overflow is the metric without -/
theorem metricO_eq (rnd : Rat → Rat) (E : Int → Int → X) (dim : Nat) (h : NoOvf rnd E dim)
    (I j : Int) :
    StructC08.metric_supremum (xOpsO rnd) I j dim E = StructC08.metric_supremum (xOps rnd) I j dim E := by
  unfold StructC08.metric_supremum
  simp only [xOpsO, xOps, Int.toNat_natCast]
  apply foldl_congr_mem
  intro l hl acc
  simp only [absdiffO_eq rnd _ _ (h I j l (List.mem_range.mp hl))]
  rfl

/-- the four generated sequential kernels: with overflow = without, when nothing overflows -/
theorem seqO_vertline_eq (rnd : Rat → Rat) (E : Int → Int → X) (dim : Nat) (h : NoOvf rnd E dim)
    (n : Int) (hist : List Nat) (eps : X) :
    StructC08._vertline_dist_sequential (xOpsO rnd) n hist E eps dim
      = StructC08._vertline_dist_sequential (xOps rnd) n hist E eps dim := by
  unfold StructC08._vertline_dist_sequential
  have : (fun I j => StructC08.metric_supremum (xOpsO rnd) I j dim E)
      = fun I j => StructC08.metric_supremum (xOps rnd) I j dim E :=
    funext fun I => funext fun j => metricO_eq rnd E dim h I j
  rw [this]
  rfl

theorem seqO_diagline_eq (rnd : Rat → Rat) (E : Int → Int → X) (dim : Nat) (h : NoOvf rnd E dim)
    (n : Int) (hist : List Nat) (eps : X) :
    StructC08._diagline_dist_sequential (xOpsO rnd) n hist E eps dim
      = StructC08._diagline_dist_sequential (xOps rnd) n hist E eps dim := by
  unfold StructC08._diagline_dist_sequential
  have : (fun I j => StructC08.metric_supremum (xOpsO rnd) I j dim E)
      = fun I j => StructC08.metric_supremum (xOps rnd) I j dim E :=
    funext fun I => funext fun j => metricO_eq rnd E dim h I j
  rw [this]
  rfl

theorem seqO_vertline_mv_eq (rnd : Rat → Rat) (E : Int → Int → X) (dim : Nat)
    (h : NoOvf rnd E dim) (n : Int) (hist : List Nat) (eps : X) (M : Int → Bool) :
    StructC08._vertline_dist_sequential_missingvalues (xOpsO rnd) n hist E eps dim M
      = StructC08._vertline_dist_sequential_missingvalues (xOps rnd) n hist E eps dim M := by
  unfold StructC08._vertline_dist_sequential_missingvalues
  have : (fun I j => StructC08.metric_supremum (xOpsO rnd) I j dim E)
      = fun I j => StructC08.metric_supremum (xOps rnd) I j dim E :=
    funext fun I => funext fun j => metricO_eq rnd E dim h I j
  rw [this]
  rfl

theorem seqO_diagline_mv_eq (rnd : Rat → Rat) (E : Int → Int → X) (dim : Nat)
    (h : NoOvf rnd E dim) (n : Int) (hist : List Nat) (eps : X) (M : Int → Bool) :
    StructC08._diagline_dist_sequential_missingvalues (xOpsO rnd) n hist E eps dim M
      = StructC08._diagline_dist_sequential_missingvalues (xOps rnd) n hist E eps dim M := by
  unfold StructC08._diagline_dist_sequential_missingvalues
  have : (fun I j => StructC08.metric_supremum (xOpsO rnd) I j dim E)
      = fun I j => StructC08.metric_supremum (xOps rnd) I j dim E :=
    funext fun I => funext fun j => metricO_eq rnd E dim h I j
  rw [this]
  rfl

/-- the distance kernel of the matrix mode likewise -/
theorem distO_eq (rnd : Rat → Rat) (E : Int → Int → X) (dim : Nat) (h : NoOvf rnd E dim)
    (n a b : Int) :
    StructC08._supremum_distance_matrix_rp (xOpsO rnd) n dim E a b
      = StructC08._supremum_distance_matrix_rp (xOps rnd) n dim E a b := by
  unfold StructC08._supremum_distance_matrix_rp
  simp only []
  have e : ∀ I j, StructC08.supremum_rp_entry (xOpsO rnd) I j dim E
      = StructC08.supremum_rp_entry (xOps rnd) I j dim E := fun I j => metricO_eq rnd E dim h I j
  rw [e, e]
  rfl

/-! ### bounded samples never overflow under `rnd64` -/

/-- every finite sample of the embedding is at most `B` in magnitude -/
def BoundedBy (B : Rat) (E : Int → Int → X) : Prop := ∀ I l q, E I l = .fin q → -B ≤ q ∧ q ≤ B

theorem ovfBound_eq : ovfBound = pow2 1024 := by
  unfold ovfBound; exact (pow2_natCast 1024).symm

theorem isF64_pow2_1023 : IsF64 (pow2 1023) := ⟨1, 1023, by omega, by norm_num, by simp⟩

/-- **finite samples up to `2^1022` in magnitude (every float32, `< 2^128`, a fortiori) cannot
overflow**: `|a - b| ≤ 2^1023`, `rnd64` is monotone and fixes `2^1023 < 2^1024` -/
theorem noOvf_of_bounded (E : Int → Int → X) (dim : Nat) (h : BoundedBy (pow2 1022) E) :
    NoOvf rnd64 E dim := by
  intro I j l _ q hq
  cases ha : E I l with
  | fin x =>
    cases hb : E j l with
    | fin y =>
      rw [ha, hb] at hq
      simp only [X.absdiff, X.fin.injEq] at hq
      have hx := h I l x ha
      have hy := h j l y hb
      have h2 : pow2 1023 = 2 * pow2 1022 := by
        have := Visibility.pow2_succ 1022; simpa using this
      have hle : (if x ≤ y then y - x else x - y) ≤ pow2 1023 := by
        split <;> linarith [hx.1, hx.2, hy.1, hy.2]
      have hm := rnd64_mono _ _ hle
      rw [rnd64_fix _ isF64_pow2_1023 (le_of_lt (pow2_pos 1023))] at hm
      rw [hq] at hm
      rw [ovfBound_eq]
      have : pow2 1023 < pow2 1024 := by rw [Visibility.pow2_lt_iff]; omega
      linarith
    | pinf => rw [ha, hb] at hq; simp [X.absdiff] at hq
    | ninf => rw [ha, hb] at hq; simp [X.absdiff] at hq
    | nan => rw [ha, hb] at hq; simp [X.absdiff] at hq
  | pinf => rw [ha] at hq; cases hb : E j l <;> rw [hb] at hq <;> simp [X.absdiff] at hq
  | ninf => rw [ha] at hq; cases hb : E j l <;> rw [hb] at hq <;> simp [X.absdiff] at hq
  | nan => rw [ha] at hq; cases hb : E j l <;> rw [hb] at hq <;> simp [X.absdiff] at hq

end Pyunicorn.LineDist
