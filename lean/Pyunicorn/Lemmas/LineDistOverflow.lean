import Pyunicorn.Lemmas.LineDistRnd64
/-!
C08, round 5: **overflow of a finite difference to `inf`** (`xOpsO rnd`, `Model/LineDistFloat.lean`).
Where no coordinate difference overflows the generated kernels at `xOpsO rnd` are the kernels at
`xOps rnd` (about which rounds 4–5 prove everything else); for `rnd64` this holds as soon as the
finite samples are bounded by `2^1022` in magnitude — in particular for every embedding of the
class, which is a converted float32 array (`|x| < 2^128`).
-/
namespace Pyunicorn.LineDist
open Pyunicorn.Generated
open Pyunicorn.Visibility (pow2 pow2_pos pow2_natCast)

/-- no rounded coordinate difference of the embedding reaches `2^1024` -/
def NoOvf (rnd : Rat → Rat) (E : Int → Int → X) (dim : Nat) : Prop :=
  ∀ (I j : Int) (l : Nat), l < dim → ∀ q, X.absdiff rnd (E I l) (E j l) = .fin q → q < ovfBound

theorem absdiffO_eq (rnd : Rat → Rat) (a b : X)
    (h : ∀ q, X.absdiff rnd a b = .fin q → q < ovfBound) :
    X.absdiffO rnd a b = X.absdiff rnd a b := by
  unfold X.absdiffO
  cases hx : X.absdiff rnd a b with
  | fin q => simp only [X.ovf]; rw [if_neg (not_le.mpr (h q hx))]
  | pinf => rfl
  | ninf => rfl
  | nan => rfl

theorem foldl_congr_mem {α β : Type} (f g : α → β → α) (l : List β) (a : α)
    (h : ∀ b ∈ l, ∀ acc, f acc b = g acc b) : l.foldl f a = l.foldl g a := by
  induction l generalizing a with
  | nil => rfl
  | cons b t ih =>
    simp only [List.foldl_cons]
    rw [h b (by simp), ih _ (fun b' hb' => h b' (by simp [hb']))]

/-- without overflow the metric with overflow is the metric without -/
theorem metricO_eq (rnd : Rat → Rat) (E : Int → Int → X) (dim : Nat) (h : NoOvf rnd E dim)
    (I j : Int) :
    StructC08.metric_supremum (xOpsO rnd) I j dim E = StructC08.metric_supremum (xOps rnd) I j dim E := by
  unfold StructC08.metric_supremum
  simp only [xOpsO, xOps, Int.toNat_natCast]
  apply foldl_congr_mem
  intro l hl acc
  simp only [absdiffO_eq rnd _ _ (h I j l (List.mem_range.mp hl))]
  rfl

/-- the four generated sequential kernels: with overflow = without, when nothing overflows -/
theorem seqO_vertline_eq (rnd : Rat → Rat) (E : Int → Int → X) (dim : Nat) (h : NoOvf rnd E dim)
    (n : Int) (hist : List Nat) (eps : X) :
    StructC08._vertline_dist_sequential (xOpsO rnd) n hist E eps dim
      = StructC08._vertline_dist_sequential (xOps rnd) n hist E eps dim := by
  unfold StructC08._vertline_dist_sequential
  have : (fun I j => StructC08.metric_supremum (xOpsO rnd) I j dim E)
      = fun I j => StructC08.metric_supremum (xOps rnd) I j dim E :=
    funext fun I => funext fun j => metricO_eq rnd E dim h I j
  rw [this]
  rfl

theorem seqO_diagline_eq (rnd : Rat → Rat) (E : Int → Int → X) (dim : Nat) (h : NoOvf rnd E dim)
    (n : Int) (hist : List Nat) (eps : X) :
    StructC08._diagline_dist_sequential (xOpsO rnd) n hist E eps dim
      = StructC08._diagline_dist_sequential (xOps rnd) n hist E eps dim := by
  unfold StructC08._diagline_dist_sequential
  have : (fun I j => StructC08.metric_supremum (xOpsO rnd) I j dim E)
      = fun I j => StructC08.metric_supremum (xOps rnd) I j dim E :=
    funext fun I => funext fun j => metricO_eq rnd E dim h I j
  rw [this]
  rfl

theorem seqO_vertline_mv_eq (rnd : Rat → Rat) (E : Int → Int → X) (dim : Nat)
    (h : NoOvf rnd E dim) (n : Int) (hist : List Nat) (eps : X) (M : Int → Bool) :
    StructC08._vertline_dist_sequential_missingvalues (xOpsO rnd) n hist E eps dim M
      = StructC08._vertline_dist_sequential_missingvalues (xOps rnd) n hist E eps dim M := by
  unfold StructC08._vertline_dist_sequential_missingvalues
  have : (fun I j => StructC08.metric_supremum (xOpsO rnd) I j dim E)
      = fun I j => StructC08.metric_supremum (xOps rnd) I j dim E :=
    funext fun I => funext fun j => metricO_eq rnd E dim h I j
  rw [this]
  rfl

theorem seqO_diagline_mv_eq (rnd : Rat → Rat) (E : Int → Int → X) (dim : Nat)
    (h : NoOvf rnd E dim) (n : Int) (hist : List Nat) (eps : X) (M : Int → Bool) :
    StructC08._diagline_dist_sequential_missingvalues (xOpsO rnd) n hist E eps dim M
      = StructC08._diagline_dist_sequential_missingvalues (xOps rnd) n hist E eps dim M := by
  unfold StructC08._diagline_dist_sequential_missingvalues
  have : (fun I j => StructC08.metric_supremum (xOpsO rnd) I j dim E)
      = fun I j => StructC08.metric_supremum (xOps rnd) I j dim E :=
    funext fun I => funext fun j => metricO_eq rnd E dim h I j
  rw [this]
  rfl

/-- the distance kernel of the matrix mode likewise -/
theorem distO_eq (rnd : Rat → Rat) (E : Int → Int → X) (dim : Nat) (h : NoOvf rnd E dim)
    (n a b : Int) :
    StructC08._supremum_distance_matrix_rp (xOpsO rnd) n dim E a b
      = StructC08._supremum_distance_matrix_rp (xOps rnd) n dim E a b := by
  unfold StructC08._supremum_distance_matrix_rp
  simp only []
  have e : ∀ I j, StructC08.supremum_rp_entry (xOpsO rnd) I j dim E
      = StructC08.supremum_rp_entry (xOps rnd) I j dim E := fun I j => metricO_eq rnd E dim h I j
  rw [e, e]
  rfl

/-! ### bounded samples never overflow under `rnd64` -/

/-- every finite sample of the embedding is at most `B` in magnitude -/
def BoundedBy (B : Rat) (E : Int → Int → X) : Prop := ∀ I l q, E I l = .fin q → -B ≤ q ∧ q ≤ B

theorem ovfBound_eq : ovfBound = pow2 1024 := by
  unfold ovfBound; exact (pow2_natCast 1024).symm

theorem isF64_pow2_1023 : IsF64 (pow2 1023) := ⟨1, 1023, by omega, by norm_num, by simp⟩

/-- **finite samples up to `2^1022` in magnitude (every float32, `< 2^128`, a fortiori) cannot
overflow**: `|a - b| ≤ 2^1023`, `rnd64` is monotone and fixes `2^1023 < 2^1024` -/
theorem noOvf_of_bounded (E : Int → Int → X) (dim : Nat) (h : BoundedBy (pow2 1022) E) :
    NoOvf rnd64 E dim := by
  intro I j l _ q hq
  cases ha : E I l with
  | fin x =>
    cases hb : E j l with
    | fin y =>
      rw [ha, hb] at hq
      simp only [X.absdiff, X.fin.injEq] at hq
      have hx := h I l x ha
      have hy := h j l y hb
      have h2 : pow2 1023 = 2 * pow2 1022 := by
        have := Visibility.pow2_succ 1022; simpa using this
      have hle : (if x ≤ y then y - x else x - y) ≤ pow2 1023 := by
        split <;> linarith [hx.1, hx.2, hy.1, hy.2]
      have hm := rnd64_mono _ _ hle
      rw [rnd64_fix _ isF64_pow2_1023 (le_of_lt (pow2_pos 1023))] at hm
      rw [hq] at hm
      rw [ovfBound_eq]
      have : pow2 1023 < pow2 1024 := by rw [Visibility.pow2_lt_iff]; omega
      linarith
    | pinf => rw [ha, hb] at hq; simp [X.absdiff] at hq
    | ninf => rw [ha, hb] at hq; simp [X.absdiff] at hq
    | nan => rw [ha, hb] at hq; simp [X.absdiff] at hq
  | pinf => rw [ha] at hq; cases hb : E j l <;> rw [hb] at hq <;> simp [X.absdiff] at hq
  | ninf => rw [ha] at hq; cases hb : E j l <;> rw [hb] at hq <;> simp [X.absdiff] at hq
  | nan => rw [ha] at hq; cases hb : E j l <;> rw [hb] at hq <;> simp [X.absdiff] at hq

/-! ### sequential = matrix mode for ANY structure of double operations with a commutative
`absdiff` whose self-distance is the literal `0` — in particular with overflow -/

theorem fixedThresholdX_eq_ops (rnd : Rat → Rat) (emb : List (List X)) (eps : X) (dim : Nat)
    (mv : Bool) : fixedThresholdX rnd emb eps dim mv = fixedThresholdOps (xOps rnd) emb eps dim mv :=
  rfl

/-- what the argument needs of the float structure -/
structure SymOps (O : FOps X) : Prop where
  comm : ∀ a b, O.absdiff a b = O.absdiff b a
  self : ∀ (I dim : Int) (E : Int → Int → X), StructC08.supremum_rp_entry O I I dim E = O.zero

theorem nearOps_eq_matrix (O : FOps X) (hO : SymOps O) (emb : List (List X)) (eps : X)
    (dim : Nat) (mv : Bool) (I j : Nat) (hI : I < emb.length) (hj : j < emb.length)
    (hm : mv = true → (missingMaskX emb).getD I false = false ∧
        (missingMaskX emb).getD j false = false) :
    O.lt (StructC08.metric_supremum O I j dim (accX emb)) eps
      = Mat.at (fixedThresholdOps O emb eps dim mv) I j := by
  unfold fixedThresholdOps
  simp only []
  rw [at_tab _ _ _ _ _ hI hj]
  have hmask : (mv && ((missingMaskX emb).getD I false || (missingMaskX emb).getD j false))
      = false := by
    cases mv with
    | false => rfl
    | true => have := hm rfl; rw [this.1, this.2]; rfl
  rw [hmask, Bool.not_false, Bool.and_true, metric_eq_rp_entry]
  congr 1
  unfold StructC08._supremum_distance_matrix_rp
  simp only []
  by_cases h1 : j < I
  · rw [if_pos (by omega)]
  · by_cases h2 : I < j
    · rw [if_neg (by omega), if_pos (by omega), rp_entry_comm' O hO.comm]
    · have : I = j := by omega
      subst this
      rw [if_neg (by omega), if_neg (by omega), hO.self]

theorem ovf_zero : X.ovf (.fin 0) = .fin 0 := by
  simp only [X.ovf]
  rw [if_neg]
  rw [ovfBound_eq]
  exact not_le.mpr (pow2_pos 1024)

/-- the operations with overflow qualify (for every rounding with `rnd 0 = 0`) -/
theorem symOps_xOpsO (rnd : Rat → Rat) (h0 : rnd 0 = 0) : SymOps (xOpsO rnd) where
  comm := by
    intro a b
    show X.absdiffO rnd a b = X.absdiffO rnd b a
    unfold X.absdiffO
    rw [X.absdiff_comm]
  self := by
    intro I dim E
    unfold StructC08.supremum_rp_entry
    simp only [xOpsO]
    apply supFoldX_zero _ (fun l : Nat => X.absdiffO rnd (E I l) (E I l))
    intro t _
    unfold X.absdiffO
    rcases X.absdiff_self rnd h0 (E I t) with h | h
    · left; rw [h]; rfl
    · right; rw [h]; exact ovf_zero

theorem symOps_xOps (rnd : Rat → Rat) (h0 : rnd 0 = 0) : SymOps (xOps rnd) where
  comm := X.absdiff_comm rnd
  self := fun I dim E => rp_entry_self rnd h0 I dim E

/-! ### rounding AND overflow never invent a recurrence -/

/-- `AccRel` with a third state: the rounded maximum has overflowed, the exact one is finite -/
inductive AccRelO (rnd : Rat → Rat) : X → X → Prop
  | inf : AccRelO rnd .pinf .pinf
  | ovf (q : Rat) : AccRelO rnd .pinf (.fin q)
  | fin (p q : Rat) (h : ∀ t, t ≤ rnd t → p < t → q < t) : AccRelO rnd (.fin p) (.fin q)

theorem absdiffO_cases (rnd : Rat → Rat) (a b : X) :
    (X.absdiffO rnd a b = .nan ∧ X.absdiff id a b = .nan) ∨
    (X.absdiffO rnd a b = .pinf ∧ X.absdiff id a b = .pinf) ∨
    (∃ q, X.absdiffO rnd a b = .pinf ∧ X.absdiff id a b = .fin q) ∨
    ∃ q, X.absdiffO rnd a b = .fin (rnd q) ∧ X.absdiff id a b = .fin q := by
  unfold X.absdiffO
  rcases absdiff_cases rnd a b with ⟨h1, h2⟩ | ⟨h1, h2⟩ | ⟨q, h1, h2⟩
  · left; rw [h1]; exact ⟨rfl, h2⟩
  · right; left; rw [h1]; exact ⟨rfl, h2⟩
  · rw [h1]
    by_cases hb : ovfBound ≤ rnd q
    · right; right; left; exact ⟨q, by simp [X.ovf, hb], h2⟩
    · right; right; right; exact ⟨q, by simp [X.ovf, hb], h2⟩

theorem accRelO_step (rnd : Rat → Rat) (hm : MonoRnd rnd) (a b dr de : X)
    (h : AccRelO rnd dr de) :
    AccRelO rnd (if X.gt (X.absdiffO rnd a b) dr then X.absdiffO rnd a b else dr)
      (if X.gt (X.absdiff id a b) de then X.absdiff id a b else de) := by
  rcases absdiffO_cases rnd a b with ⟨h1, h2⟩ | ⟨h1, h2⟩ | ⟨q, h1, h2⟩ | ⟨q, h1, h2⟩ <;> rw [h1, h2]
  · simpa [X.gt_nan_left] using h
  · cases h with
    | inf => simpa [X.gt, X.lt] using AccRelO.inf
    | ovf q0 => simpa [X.gt, X.lt] using AccRelO.inf
    | fin p q hpq => simpa [X.gt, X.lt] using AccRelO.inf
  · cases h with
    | inf => simpa [X.gt, X.lt] using AccRelO.inf
    | ovf q0 =>
      simp only [X.gt, X.lt, decide_eq_true_eq, Bool.false_eq_true, if_false]
      split <;> exact AccRelO.ovf _
    | fin p q0 hpq =>
      simp only [X.gt, X.lt, decide_eq_true_eq, if_true]
      split <;> exact AccRelO.ovf _
  · cases h with
    | inf => simpa [X.gt, X.lt] using AccRelO.inf
    | ovf q0 =>
      simp only [X.gt, X.lt, decide_eq_true_eq, Bool.false_eq_true, if_false]
      split <;> exact AccRelO.ovf _
    | fin p q0 hpq =>
      simp only [X.gt, X.lt, decide_eq_true_eq]
      split <;> split <;> refine .fin _ _ (fun t ht hlt => ?_)
      · exact lt_of_mono_fix rnd hm q t ht hlt
      · rename_i h1 _; exact hpq t ht (lt_trans h1 hlt)
      · rename_i h1 _; exact lt_of_mono_fix rnd hm q t ht (lt_of_le_of_lt (not_lt.mp h1) hlt)
      · exact hpq t ht hlt

theorem metric_accRelO (rnd : Rat → Rat) (hm : MonoRnd rnd) (I j dim : Int) (E : Int → Int → X) :
    AccRelO rnd (StructC08.metric_supremum (xOpsO rnd) I j dim E)
      (StructC08.metric_supremum (xOps id) I j dim E) := by
  unfold StructC08.metric_supremum
  simp only [xOpsO, xOps]
  generalize (List.range dim.toNat) = L
  have start : AccRelO rnd (.fin 0) (.fin 0) := .fin 0 0 (fun _ _ h => h)
  revert start
  generalize (X.fin 0) = dr
  intro start
  suffices ∀ (de : X), AccRelO rnd dr de → AccRelO rnd
      (L.foldl (fun (diff : X) (l : Nat) =>
        if X.gt (X.absdiffO rnd (E I l) (E j l)) diff then X.absdiffO rnd (E I l) (E j l) else diff) dr)
      (L.foldl (fun (diff : X) (l : Nat) =>
        if X.gt (X.absdiff id (E I l) (E j l)) diff then X.absdiff id (E I l) (E j l) else diff) de)
    from this _ start
  clear start
  induction L generalizing dr with
  | nil => intro de h; exact h
  | cons a t ih =>
    intro de h
    simp only [List.foldl_cons]
    exact ih _ _ (accRelO_step rnd hm (E I a) (E j a) dr de h)

/-- **the binary64 predicate with overflow is contained in the exact one** on every embedding -/
theorem lt_of_accRelO (rnd : Rat → Rat) (dr de : X) (h : AccRelO rnd dr de) (eps : X)
    (he : FixedEps rnd eps) (hlt : X.lt dr eps = true) : X.lt de eps = true := by
  cases h with
  | inf => rw [X.lt_pinf_left] at hlt; exact Bool.noConfusion hlt
  | ovf q => rw [X.lt_pinf_left] at hlt; exact Bool.noConfusion hlt
  | fin p q hpq =>
    cases eps with
    | fin t =>
      simp only [X.lt, decide_eq_true_eq] at hlt ⊢
      exact hpq t (he t rfl) hlt
    | pinf => rfl
    | ninf => exact hlt
    | nan => exact hlt

end Pyunicorn.LineDist
