import Pyunicorn.Lemmas.NetBetwSpec
import Mathlib.Tactic.Ring
import Mathlib.Algebra.Order.Field.Rat
/-!
The path-count recursions of the definition layer are sums over the enumerated shortest paths
(round 3): `sigLev` = Σ over all shortest paths of the path weight, `sigThruLev` = the same sum over the
paths that visit `v`.  For every distance function `d`, every weight function and every graph.
-/
namespace Pyunicorn.NetBetw
open Pyunicorn.Net

theorem sum_ite_eq_filter (l : List Nat) (p : Nat → Bool) (f : Nat → Rat) :
    (l.map fun i => if p i then f i else 0).sum = ((l.filter p).map f).sum := by
  induction l with
  | nil => simp
  | cons x t ih =>
    by_cases hx : p x = true
    · simp [hx, ih]
    · simp [hx, ih]

theorem sumToQ_ite_eq_filter (n : Nat) (p : Nat → Bool) (f : Nat → Rat) :
    (sumToQ n fun i => if p i then f i else 0) = (((List.range n).filter p).map f).sum :=
  sum_ite_eq_filter (List.range n) p f

theorem pathWt_snoc (w : Nat → Rat) (p : List Nat) (l : Nat) : pathWt w (p ++ [l]) = pathWt w p * w l := by
  induction p with
  | nil => simp [pathWt]
  | cons x t ih =>
    simp only [pathWt, List.cons_append, List.map_cons, List.prod_cons] at ih ⊢
    rw [ih]; ring

theorem sum_map_snoc (w : Nat → Rat) (ps : List (List Nat)) (l : Nat) :
    ((ps.map fun p => p ++ [l]).map (pathWt w)).sum = (ps.map (pathWt w)).sum * w l := by
  induction ps with
  | nil => simp
  | cons p t ih =>
    simp only [List.map_cons, List.sum_cons] at ih ⊢
    rw [ih, pathWt_snoc]; ring

theorem sum_flatMap {α : Type} (l : List Nat) (g : Nat → List α) (h : α → Rat) :
    ((l.flatMap g).map h).sum = (l.map fun i => ((g i).map h).sum).sum := by
  induction l with
  | nil => simp
  | cons x t ih => simp [List.flatMap_cons, List.sum_append, ih]

theorem sum_map_mul_left (l : List Nat) (c : Rat) (f : Nat → Rat) :
    (l.map fun i => f i * c).sum = c * (l.map f).sum := by
  induction l with
  | nil => simp
  | cons x t ih => simp only [List.map_cons, List.sum_cons, ih]; ring

/-- **the recursion over the last link counts the enumerated shortest paths** -/
theorem sigLev_eq_paths (n : Nat) (a : Adj) (w : Nat → Rat) (d : DistFn) (j : Nat) :
    ∀ lvl l, sigLev n a w d j lvl l = ((pathsLev n a d j lvl l).map (pathWt w)).sum := by
  intro lvl
  induction lvl with
  | zero =>
    intro l
    by_cases h : l = j
    · simp [sigLev, pathsLev, h, pathWt]
    · simp [sigLev, pathsLev, h]
  | succ k ih =>
    intro l
    by_cases h : d j l = some (k + 1)
    · simp only [sigLev, pathsLev, h, if_true]
      rw [sumToQ_ite_eq_filter, sum_flatMap]
      have : (fun i => (((pathsLev n a d j k i).map fun p => p ++ [l]).map (pathWt w)).sum)
          = fun i => sigLev n a w d j k i * w l := by
        funext i
        rw [sum_map_snoc, ih i]
      rw [predsDef, this, sum_map_mul_left]
    · simp [sigLev, pathsLev, h]

theorem sigma_eq_sigmaPaths (n : Nat) (a : Adj) (w : Nat → Rat) (d : DistFn) (j l : Nat) :
    sigma n a w d j l = sigmaPaths n a w d j l := by
  unfold sigma sigmaPaths shortestPaths
  cases d j l with
  | none => simp
  | some k => exact sigLev_eq_paths n a w d j k l

/-- every enumerated path to `l` ends in `l` -/
theorem paths_contain_end (n : Nat) (a : Adj) (d : DistFn) (j : Nat) :
    ∀ lvl l p, p ∈ pathsLev n a d j lvl l → p.contains l = true := by
  intro lvl
  cases lvl with
  | zero =>
    intro l p hp
    by_cases h : l = j
    · simp [pathsLev, h] at hp; simp [hp, h]
    · simp [pathsLev, h] at hp
  | succ k =>
    intro l p hp
    by_cases h : d j l = some (k + 1)
    · simp only [pathsLev, h, if_true, List.mem_flatMap, List.mem_map] at hp
      obtain ⟨i, _, q, _, rfl⟩ := hp
      simp
    · simp [pathsLev, h] at hp

theorem filter_all {α : Type} (l : List α) (q : α → Bool) (h : ∀ x ∈ l, q x = true) : l.filter q = l :=
  List.filter_eq_self.mpr h

/-- **the restricted recursion counts the enumerated shortest paths that visit `v`** -/
theorem sigThruLev_eq_paths (n : Nat) (a : Adj) (w : Nat → Rat) (d : DistFn) (j v : Nat) :
    ∀ lvl s, sigThruLev n a w d j v lvl s =
      (((pathsLev n a d j lvl s).filter fun p => p.contains v).map (pathWt w)).sum := by
  intro lvl
  induction lvl with
  | zero =>
    intro s
    by_cases hs : s = v
    · subst hs
      rw [filter_all _ _ (paths_contain_end n a d j 0 s)]
      simp only [sigThruLev, if_true]
      exact sigLev_eq_paths n a w d j 0 s
    · by_cases h : s = j
      · have hv : ¬ (v = j) := fun e => hs (by rw [h, e])
        simp [sigThruLev, pathsLev, h, hv]
        intro e; exact absurd e.symm hv
      · simp [sigThruLev, pathsLev, hs, h]
  | succ k ih =>
    intro s
    by_cases hs : s = v
    · subst hs
      rw [filter_all _ _ (paths_contain_end n a d j (k + 1) s)]
      simp only [sigThruLev, if_true]
      exact sigLev_eq_paths n a w d j (k + 1) s
    · by_cases h : d j s = some (k + 1)
      · simp only [sigThruLev, pathsLev, hs, h, if_true, if_false]
        rw [sumToQ_ite_eq_filter, List.filter_flatMap, sum_flatMap]
        have hv : (v == s) = false := by
          simp only [beq_eq_false_iff_ne, ne_eq]; exact fun e => hs e.symm
        have : (fun i => ((((pathsLev n a d j k i).map fun p => p ++ [s]).filter
              fun p => p.contains v).map (pathWt w)).sum)
            = fun i => sigThruLev n a w d j v k i * w s := by
          funext i
          have hvs : ¬ v = s := fun e => hs e.symm
          have hf : ((fun p : List Nat => p.contains v) ∘ fun p => p ++ [s])
              = fun p : List Nat => p.contains v := by
            funext p; simp [hv, hvs]
          rw [List.filter_map, hf, sum_map_snoc, ih i]
        rw [predsDef, this, sum_map_mul_left]
      · simp [sigThruLev, pathsLev, hs, h]

theorem sigmaThru_eq_paths (n : Nat) (a : Adj) (w : Nat → Rat) (d : DistFn) (j v s : Nat) :
    sigmaThru n a w d j v s = sigmaThruPaths n a w d j v s := by
  unfold sigmaThru sigmaThruPaths shortestPaths
  cases d j s with
  | none => simp
  | some k => exact sigThruLev_eq_paths n a w d j v k s

end Pyunicorn.NetBetw
