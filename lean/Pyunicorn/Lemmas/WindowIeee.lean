import Pyunicorn.Model.Window
import Pyunicorn.Lemmas.SimilarityIeee
/-!
# `int(T / time_cycle)` evaluated in IEEE-754 double precision (C13)

`ClimateData.phase_indices` computes the number of complete years as `int(T / c)` where `/`
is Python's true division of two `int`s: the result is the double nearest to the exact
quotient (`rn53`), and `int()` truncates.  For every record length `T < 2⁵³` and cycle
`c ≥ 1` this *is* the integer quotient `T // c`:

* the exact quotient lies at least `1/c` below the next integer `q + 1`, while one rounding
  moves it by at most `(T/c)·2⁻⁵³ < 1/c`  (upper side, from `rn53_err`);
* `q` itself is a multiple of the unit in the last place of `T/c` (which is `≤ 1` because
  `T/c < 2⁵³`), and rounding to the grid never crosses a grid point  (lower side).
-/
namespace Pyunicorn.Window
open Pyunicorn.Similarity

theorem roundHalfEven_ge_floor (y : ℚ) : y.floor ≤ roundHalfEven y := by
  unfold roundHalfEven
  simp only
  split
  · exact le_refl _
  · split
    · omega
    · split <;> omega

/-- rounding to 53 bits never falls below an integer `q ≤ x` as long as `x < 2⁵³` -/
theorem rn53_ge_nat (x : ℚ) (q : Nat) (hq : (q : ℚ) ≤ x) (hq0 : 0 < q) (hx : x < 2 ^ 53) :
    (q : ℚ) ≤ rn53 x := by
  have hq1 : (1 : ℚ) ≤ (q : ℚ) := by exact_mod_cast hq0
  have hx0 : 0 < x := by linarith
  unfold rn53
  rw [if_neg (not_le.2 hx0)]
  simp only
  have hle := twoPow_binExp_le x hx0
  rw [twoPow_eq_zpow] at hle
  have he : binExp x ≤ 52 := by
    by_contra hcon
    have h53 : (53 : ℤ) ≤ binExp x := by omega
    have : (2 : ℚ) ^ (53 : ℤ) ≤ (2 : ℚ) ^ (binExp x) :=
      zpow_le_zpow_right₀ (by norm_num) h53
    have e : (2 : ℚ) ^ (53 : ℤ) = 2 ^ 53 := by norm_num
    rw [e] at this
    linarith
  obtain ⟨n, hn⟩ := Int.eq_ofNat_of_zero_le (by omega : 0 ≤ 52 - binExp x)
  have hexp : binExp x - 52 = -(n : ℤ) := by omega
  rw [twoPow_eq_zpow, hexp, zpow_neg, zpow_natCast]
  have hp : (0 : ℚ) < 2 ^ n := by positivity
  have hdiv : x / ((2 : ℚ) ^ n)⁻¹ = x * 2 ^ n := by
    rw [div_eq_mul_inv, inv_inv]
  rw [hdiv]
  -- the grid point below
  have hm : (((q * 2 ^ n : Nat) : ℤ) : ℚ) ≤ x * 2 ^ n := by
    push_cast
    exact mul_le_mul_of_nonneg_right hq (le_of_lt hp)
  have hfl : ((q * 2 ^ n : Nat) : ℤ) ≤ (x * 2 ^ n).floor := Rat.le_floor_iff.2 hm
  have hr := roundHalfEven_ge_floor (x * 2 ^ n)
  have hz : ((q * 2 ^ n : Nat) : ℤ) ≤ roundHalfEven (x * 2 ^ n) := le_trans hfl hr
  have hzq : (((q * 2 ^ n : Nat) : ℤ) : ℚ) ≤ ((roundHalfEven (x * 2 ^ n) : ℤ) : ℚ) := by
    exact_mod_cast hz
  have hinv : (0 : ℚ) < ((2 : ℚ) ^ n)⁻¹ := inv_pos.2 hp
  calc (q : ℚ) = (((q * 2 ^ n : Nat) : ℤ) : ℚ) * ((2 : ℚ) ^ n)⁻¹ := by
        push_cast
        field_simp
    _ ≤ ((roundHalfEven (x * 2 ^ n) : ℤ) : ℚ) * ((2 : ℚ) ^ n)⁻¹ :=
        mul_le_mul_of_nonneg_right hzq (le_of_lt hinv)

/-- **`int(T / c)` in double precision is the integer quotient** for every record length
below `2⁵³` and every cycle length `c ≥ 1` -/
theorem rangeYearsF_eq (T c : Nat) (hc : 0 < c) (hT : T < 2 ^ 53) : rangeYearsF T c = T / c := by
  have hcq : (0 : ℚ) < (c : ℚ) := by exact_mod_cast hc
  have hTq : (T : ℚ) < 2 ^ 53 := by exact_mod_cast hT
  have hT0 : (0 : ℚ) ≤ (T : ℚ) := by exact_mod_cast Nat.zero_le T
  set x : ℚ := (T : ℚ) / (c : ℚ) with hx
  have hx0 : 0 ≤ x := div_nonneg hT0 (le_of_lt hcq)
  have hxT : x ≤ (T : ℚ) := by
    rw [hx, div_le_iff₀ hcq]
    have : (1 : ℚ) ≤ (c : ℚ) := by exact_mod_cast hc
    nlinarith
  -- T = q c + r
  have hdm : c * (T / c) + T % c = T := Nat.div_add_mod T c
  have hr : T % c < c := Nat.mod_lt T hc
  have hqle : ((T / c : Nat) : ℚ) ≤ x := by
    rw [hx, le_div_iff₀ hcq]
    have : (T / c) * c ≤ T := Nat.div_mul_le_self T c
    exact_mod_cast this
  have hlt : (T : ℚ) + 1 ≤ (((T / c : Nat) : ℚ) + 1) * (c : ℚ) := by
    have : T + 1 ≤ (T / c + 1) * c := by
      have : (T / c + 1) * c = c * (T / c) + c := by ring
      omega
    exact_mod_cast this
  have herr := abs_le.1 (rn53_err x hx0)
  -- upper side
  have hup : rn53 x < ((T / c : Nat) : ℚ) + 1 := by
    have h1 : rn53 x ≤ x + x / 2 ^ 53 := by linarith [herr.2]
    have h2 : x / 2 ^ 53 < 1 / (c : ℚ) := by
      rw [hx, div_div, div_lt_div_iff₀ (by positivity) hcq]
      have : (T : ℚ) * (c : ℚ) < 1 * ((c : ℚ) * 2 ^ 53) := by nlinarith
      linarith
    have h3 : x + 1 / (c : ℚ) ≤ ((T / c : Nat) : ℚ) + 1 := by
      rw [hx, ← add_div, div_le_iff₀ hcq]
      exact hlt
    linarith
  -- lower side
  have hlo : ((T / c : Nat) : ℚ) ≤ rn53 x := by
    by_cases hq0 : T / c = 0
    · rw [hq0]
      have : x / 2 ^ 53 ≤ x := div_le_self hx0 (by norm_num)
      have := herr.1
      push_cast
      linarith
    · exact rn53_ge_nat x (T / c) hqle (Nat.pos_of_ne_zero hq0) (lt_of_le_of_lt hxT hTq)
  -- the floor
  have hfloor : (rn53 x).floor = ((T / c : Nat) : ℤ) := by
    apply le_antisymm
    · have : (rn53 x).floor < ((T / c : Nat) : ℤ) + 1 := by
        rw [Rat.floor_lt_iff]
        push_cast
        exact hup
      omega
    · exact Rat.le_floor_iff.2 (by exact_mod_cast hlo)
  show (rn53 ((T : Rat) / (c : Rat))).floor.toNat = T / c
  rw [← hx, hfloor]
  exact Int.toNat_natCast _

end Pyunicorn.Window
