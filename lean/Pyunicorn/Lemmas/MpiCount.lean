import Pyunicorn.Lemmas.MpiTerm
/-! Exact step count of error-free runs of the protocol model of `utils/mpi.py` (round 5c,
core Lean only): every executed step that does not raise decreases `stepsLeft` by exactly
one; a completed run has `stepsLeft = 0`. -/
namespace Pyunicorn.MpiProto
open Pyunicorn.Mpi (lookup)

variable {α β : Type}

/-! ### sums over the ranks, exact versions -/

theorem sumTo_term_eq {γ : Type} (g : Nat → List γ) (m : γ) (size n : Nat) (hn : n ≤ size) :
    sumTo (fun s => (if 1 ≤ s ∧ s < size then g s ++ [m] else g s).length) n =
      sumTo (fun s => (g s).length) n + (n - 1) := by
  induction n with
  | zero => simp [sumTo]
  | succ n ih =>
    have ih := ih (by omega)
    simp only [sumTo]
    by_cases h : 1 ≤ n ∧ n < size
    · rw [if_pos h]
      simp only [List.length_append, List.length_cons, List.length_nil]
      omega
    · rw [if_neg h]
      omega

theorem sumTo_zero (a : Nat → Nat) (n : Nat) (h : ∀ s, s < n → a s = 0) : sumTo a n = 0 := by
  induction n with
  | zero => rfl
  | succ n ih =>
    simp only [sumTo]
    rw [ih (fun s hs => h s (by omega)), h n (by omega)]

theorem inboxTotal_push (st : State α β) (s : Nat) (m : Msg α) (hs : s < st.size) :
    sumTo (fun j => (upd st.inbox s (st.inbox s ++ [m]) j).length) st.size = inboxTotal st + 1 := by
  have := sumTo_upd st.inbox s (st.inbox s ++ [m]) st.size
  simp only [hs, if_true, List.length_append, List.length_cons, List.length_nil] at this
  unfold inboxTotal
  omega

theorem inboxTotal_pop (st : State α β) (s : Nat) (x : Msg α) (ms : List (Msg α))
    (hs : s < st.size) (hin : st.inbox s = x :: ms) :
    sumTo (fun j => (upd st.inbox s ms j).length) st.size + 1 = inboxTotal st := by
  have := sumTo_upd st.inbox s ms st.size
  simp only [hs, if_true, hin, List.length_cons] at this
  unfold inboxTotal
  omega

/-! ### the counting invariant -/

/-- what the exact count needs of a state: slaves are only used in a world with slaves, and
nothing is ever sent to rank 0 -/
structure CInv (st : State α β) : Prop where
  av : st.available = true → 2 ≤ st.size
  z : st.inbox 0 = []

theorem cinv_init (size : Nat) (prog : List (Op α)) : CInv (init (β := β) size prog) := by
  constructor
  · intro h; simpa [init] using h
  · rfl

theorem stepsLeft_live (st : State α β) (hg : ¬ (st.finished = true ∨ st.err.isSome = true)) :
    stepsLeft st = st.prog.length + 1 +
      (if st.available = true then nSubmits st.prog + (st.size - 1) else 0) + inboxTotal st := by
  unfold stepsLeft; rw [if_neg hg]

theorem stepsLeft_dead (st : State α β) (hg : st.finished = true ∨ st.err.isSome = true) :
    stepsLeft st = inboxTotal st := by
  unfold stepsLeft; rw [if_pos hg]; omega

/-- a master step that goes on -/
theorem sl_of_live (st st' : State α β) (hg : ¬ (st.finished = true ∨ st.err.isSome = true))
    (h1 : st'.finished = st.finished) (h2 : st'.err = st.err) (h3 : st'.available = st.available)
    (h4 : st'.size = st.size)
    (h : st'.prog.length + (if st.available = true then nSubmits st'.prog else 0) +
        inboxTotal st' + 1 =
      st.prog.length + (if st.available = true then nSubmits st.prog else 0) + inboxTotal st) :
    stepsLeft st' + 1 = stepsLeft st := by
  have hg' : ¬ (st'.finished = true ∨ st'.err.isSome = true) := by rw [h1, h2]; exact hg
  rw [stepsLeft_live st hg, stepsLeft_live st' hg', h3, h4]
  by_cases hav : st.available = true
  · rw [if_pos hav] at h ⊢; rw [if_pos hav] at h ⊢; omega
  · rw [if_neg hav] at h ⊢; rw [if_neg hav] at h ⊢; omega

/-- a slave step: one message leaves a channel -/
theorem sl_of_slave (st st' : State α β) (h1 : st'.finished = st.finished) (h2 : st'.err = st.err)
    (h3 : st'.prog = st.prog) (h4 : st'.size = st.size) (h5 : st'.available = st.available)
    (h : inboxTotal st' + 1 = inboxTotal st) : stepsLeft st' + 1 = stepsLeft st := by
  unfold stepsLeft
  rw [h1, h2, h3, h4, h5]
  omega

theorem cinv_same (st st' : State α β) (h : CInv st) (h1 : st'.available = st.available)
    (h2 : st'.size = st.size) (h3 : st'.inbox 0 = st.inbox 0) : CInv st' :=
  ⟨by rw [h1, h2]; exact h.av, by rw [h3]; exact h.z⟩

theorem sl_getStep (st st' : State α β) (id : Nat) (rest : List (Op α)) (hc : CInv st)
    (hg : ¬ (st.finished = true ∨ st.err.isSome = true)) (hn : st.prog.length = rest.length + 1)
    (hns : nSubmits st.prog = nSubmits rest)
    (h : getStep st id rest = some st') (herr : st'.err = none) :
    stepsLeft st' + 1 = stepsLeft st ∧ CInv st' := by
  unfold getStep at h
  split at h
  · cases h; exact absurd herr (by simp [doFail])
  · split at h
    · split at h
      · cases h; exact absurd herr (by simp [doFail])
      · split at h
        · cases h; exact absurd herr (by simp [doFail])
        · split at h
          · cases h
          · cases h
            refine ⟨sl_of_live st _ hg rfl rfl rfl rfl ?_, cinv_same st _ hc rfl rfl rfl⟩
            show rest.length + (if st.available = true then nSubmits rest else 0) +
              inboxTotal st + 1 = _
            rw [hn, hns]; omega
    · split at h
      · cases h; exact absurd herr (by simp [doFail])
      · cases h
        refine ⟨sl_of_live st _ hg rfl rfl rfl rfl ?_, cinv_same st _ hc rfl rfl rfl⟩
        show rest.length + (if st.available = true then nSubmits rest else 0) +
          inboxTotal st + 1 = _
        rw [hn, hns]; omega

/-- **every executed step that does not raise takes exactly one off `stepsLeft`** -/
theorem stepsLeft_step (f : α → β) (st st' : State α β) (c : Nat) (hc : CInv st)
    (h : step f st c = some st') (herr : st'.err = none) :
    stepsLeft st' + 1 = stepsLeft st ∧ CInv st' := by
  unfold step at h
  split at h
  · unfold masterStep at h
    split at h
    · cases h
    · rename_i hg
      split at h
      · -- `terminate()` at the end of `run()`
        rename_i hp
        cases h
        constructor
        · rw [stepsLeft_live st hg, stepsLeft_dead (doTerminate st) (Or.inl rfl), hp]
          show sumTo (fun s => ((if st.available then
              fun s => if 1 ≤ s ∧ s < st.size then st.inbox s ++ [Msg.terminate] else st.inbox s
            else st.inbox) s).length) st.size + 1 = _
          unfold inboxTotal
          by_cases hav : st.available = true
          · rw [if_pos hav, if_pos hav]
            have := sumTo_term_eq st.inbox Msg.terminate st.size st.size (Nat.le_refl _)
            have h2 := hc.av hav
            simp only [nSubmits, List.length_nil]
            omega
          · rw [if_neg hav, if_neg hav]
            simp only [List.length_nil]
            omega
        · constructor
          · intro hav; cases hav
          · show (if st.available then
              fun s => if 1 ≤ s ∧ s < st.size then st.inbox s ++ [Msg.terminate] else st.inbox s
              else st.inbox) 0 = []
            split
            · simp [hc.z]
            · exact hc.z
      · rename_i id p e sl rest hp
        split at h
        · cases h; exact absurd herr (by simp [doFail])
        · split at h
          · rename_i hav
            cases h
            have hr := chooseSlave_range st sl (hc.av hav)
            refine ⟨sl_of_live st _ hg rfl rfl rfl rfl ?_, cinv_same st _ hc rfl rfl ?_⟩
            · show rest.length + (if st.available = true then nSubmits rest else 0) +
                sumTo (fun j => (upd st.inbox (chooseSlave st sl)
                  (st.inbox (chooseSlave st sl) ++ [Msg.call p e]) j).length) st.size + 1 = _
              rw [inboxTotal_push st _ _ hr.2, hp, if_pos hav, if_pos hav]
              simp only [List.length_cons, nSubmits]
              omega
            · show upd st.inbox (chooseSlave st sl) _ 0 = st.inbox 0
              exact upd_other _ _ _ _ (by omega)
          · rename_i hav
            cases h
            refine ⟨sl_of_live st _ hg rfl rfl rfl rfl ?_, cinv_same st _ hc rfl rfl rfl⟩
            show rest.length + (if st.available = true then nSubmits rest else 0) +
              inboxTotal st + 1 = _
            rw [hp, if_neg hav, if_neg hav]
            simp only [List.length_cons]
            omega
      · rename_i id rest hp
        exact sl_getStep st st' id rest hc hg (by simp [hp]) (by simp [hp, nSubmits]) h herr
      · rename_i rest hp
        split at h
        · cases h
          refine ⟨sl_of_live st _ hg rfl rfl rfl rfl ?_, cinv_same st _ hc rfl rfl rfl⟩
          show rest.length + (if st.available = true then nSubmits rest else 0) +
            inboxTotal st + 1 = _
          rw [hp]; simp only [List.length_cons, nSubmits]; omega
        · exact sl_getStep st st' _ rest hc hg (by simp [hp]) (by simp [hp, nSubmits]) h herr
  · rename_i hc0
    unfold slaveStep at h
    split at h
    · cases h
    · rename_i hs
      have hs1 : c < st.size := by omega
      split at h
      · cases h
      · rename_i ms hin
        cases h
        refine ⟨sl_of_slave st _ rfl rfl rfl rfl rfl (inboxTotal_pop st c _ ms hs1 hin),
          cinv_same st _ hc rfl rfl ?_⟩
        show upd st.inbox c ms 0 = st.inbox 0
        exact upd_other _ _ _ _ (by omega)
      · rename_i p e ms hin
        cases h
        refine ⟨sl_of_slave st _ rfl rfl rfl rfl rfl (inboxTotal_pop st c _ ms hs1 hin),
          cinv_same st _ hc rfl rfl ?_⟩
        show upd st.inbox c ms 0 = st.inbox 0
        exact upd_other _ _ _ _ (by omega)

/-! ### an exception stays -/

theorem err_step (f : α → β) (st st' : State α β) (c : Nat) (e : Err) (he : st.err = some e)
    (h : step f st c = some st') : st'.err = some e := by
  unfold step at h
  split at h
  · unfold masterStep at h
    rw [if_pos (Or.inr (by rw [he]; rfl))] at h
    cases h
  · unfold slaveStep at h
    repeat' split at h
    all_goals first | (cases h; exact he) | cases h

theorem err_run (f : α → β) (cs : List Nat) (st : State α β) (e : Err) (he : st.err = some e) :
    (run f st cs).err = some e := by
  unfold run
  induction cs generalizing st with
  | nil => simpa [runSched] using he
  | cons c t ih =>
    simp only [runSched]
    split
    · exact ih st he
    · rename_i st' hst
      exact ih st' (err_step f st st' c e he hst)

/-- **exact accounting of a schedule that ends without an exception**: executed steps + steps
still to execute = steps to execute at the start (every schedule, fair or not) -/
theorem executed_add_stepsLeft (f : α → β) (cs : List Nat) (st : State α β) (hc : CInv st)
    (herr : (run f st cs).err = none) :
    executed f st cs + stepsLeft (run f st cs) = stepsLeft st ∧ CInv (run f st cs) := by
  have hle := fun st => (executed_add_measure f cs st).1
  unfold executed run at *
  induction cs generalizing st with
  | nil => simpa [runSched] using hc
  | cons c t ih =>
    simp only [runSched] at herr ⊢
    split
    · rename_i hst
      rw [hst] at herr
      have := ih st hc herr (fun st => (executed_add_measure f t st).1)
      have hl := (executed_add_measure f t st).1
      simp only [List.length_cons]
      refine ⟨?_, this.2⟩
      have := this.1
      omega
    · rename_i st' hst
      rw [hst] at herr
      have herr' : st'.err = none := by
        cases he : st'.err with
        | none => rfl
        | some e =>
          have := err_run f t st' e he
          unfold run at this
          rw [this] at herr; cases herr
      obtain ⟨h1, h2⟩ := stepsLeft_step f st st' c hc hst herr'
      have := ih st' h2 herr (fun st => (executed_add_measure f t st).1)
      have hl := (executed_add_measure f t st').1
      simp only [List.length_cons]
      refine ⟨?_, this.2⟩
      have := this.1
      omega

theorem stepsLeft_init (size : Nat) (prog : List (Op α)) :
    stepsLeft (init (β := β) size prog) = exactSteps size prog := by
  have : ∀ n, sumTo (fun _ => 0) n = 0 := fun n => sumTo_zero _ n (fun _ _ => rfl)
  unfold exactSteps
  by_cases h : 2 ≤ size
  · simp [stepsLeft, init, inboxTotal, this, h]; omega
  · simp [stepsLeft, init, inboxTotal, this, h]

/-! ### a completed run has nothing left in the channels -/

/-- once `run()` has returned on the master: a slave still inside `serve()` has the terminate
tuple as the last message of its channel and no other; a slave that has left has an empty
channel -/
def TInv2 (st : State α β) : Prop :=
  st.finished = true → ∀ s, 1 ≤ s → s < st.size →
    (st.alive s = true ∧ ∃ ms, st.inbox s = ms ++ [Msg.terminate] ∧ noTerm ms = true) ∨
    (st.alive s = false ∧ st.inbox s = [])

theorem tinv2_init (size : Nat) (prog : List (Op α)) : TInv2 (init (β := β) size prog) := by
  intro h; simp [init] at h

theorem tinv2_step (f : α → β) (prog0 : List (Op α)) (st st' : State α β) (c : Nat)
    (h : Inv f prog0 st) (ht : TInv2 st) (hstep : step f st c = some st') : TInv2 st' := by
  unfold step at hstep
  split at hstep
  · obtain ⟨hf, hcase⟩ := masterStep_finished f st st' hstep
    rcases hcase with h1 | h1
    · intro hfin; rw [h1] at hfin; cases hfin
    · subst h1
      intro _ s hs1 hs2
      have hav : st.available = true := by rw [h.avail, hf]; rfl
      obtain ⟨hal, hnt⟩ := h.L hf s
      left
      refine ⟨hal, st.inbox s, ?_, hnt⟩
      show (if st.available then
          fun s => if 1 ≤ s ∧ s < st.size then st.inbox s ++ [Msg.terminate] else st.inbox s
        else st.inbox) s = _
      rw [hav]
      simp only [if_true]
      rw [if_pos ⟨hs1, hs2⟩]
  · unfold slaveStep at hstep
    split at hstep
    · cases hstep
    · rename_i hgd
      split at hstep
      · cases hstep
      · rename_i ms hin
        cases hstep
        intro hfin s hs1 hs2
        by_cases hsc : s = c
        · subst hsc
          right
          refine ⟨by simp [doStop, upd], ?_⟩
          rcases ht hfin s hs1 hs2 with ⟨_, ms', hms', hnt⟩ | ⟨hal, _⟩
          · rw [hin] at hms'
            cases ms' with
            | nil =>
              simp only [List.nil_append, List.cons.injEq] at hms'
              simp [doStop, upd, hms'.2]
            | cons x t =>
              simp only [List.cons_append, List.cons.injEq] at hms'
              rw [← hms'.1] at hnt
              simp [noTerm] at hnt
          · exfalso; apply hgd; right; right; exact hal
        · have := ht hfin s hs1 hs2
          simpa [doStop, upd, hsc] using this
      · rename_i p e ms hin
        cases hstep
        intro hfin s hs1 hs2
        by_cases hsc : s = c
        · subst hsc
          rcases ht hfin s hs1 hs2 with ⟨hal, ms', hms', hnt⟩ | ⟨hal, _⟩
          · left
            refine ⟨hal, ?_⟩
            rw [hin] at hms'
            cases ms' with
            | nil => simp at hms'
            | cons x t =>
              simp only [List.cons_append, List.cons.injEq] at hms'
              refine ⟨t, by simp [doCall, upd, hms'.2], ?_⟩
              rw [← hms'.1] at hnt
              simpa [noTerm] using hnt
          · exfalso; apply hgd; right; right; exact hal
        · have := ht hfin s hs1 hs2
          simpa [doCall, upd, hsc] using this

theorem tinv2_run (f : α → β) (prog0 : List (Op α)) (cs : List Nat) (st : State α β)
    (h : Inv f prog0 st) (ht : TInv2 st) : TInv2 (run f st cs) := by
  unfold run
  induction cs generalizing st with
  | nil => simpa [runSched] using ht
  | cons c t ih =>
    simp only [runSched]
    split
    · exact ih st h ht
    · rename_i st' hst
      exact ih st' (inv_step f prog0 st st' c h hst) (tinv2_step f prog0 st st' c h ht hst)

/-- after `run()` returned, when no rank can move, every channel master → slave is empty -/
theorem quiescent_inbox_empty (f : α → β) (st : State α β) (hc : CInv st) (ht : TInv2 st)
    (hq : quiescent f st) (hfin : st.finished = true) : inboxTotal st = 0 := by
  unfold inboxTotal
  apply sumTo_zero
  intro s hs
  by_cases h0 : s = 0
  · subst h0; simp [hc.z]
  · rcases ht hfin s (by omega) hs with ⟨hal, ms, hms, _⟩ | ⟨_, hin⟩
    · exfalso
      have := hq s
      simp only [step, if_neg h0] at this
      unfold slaveStep at this
      have hg : ¬ (s < 1 ∨ st.size ≤ s ∨ st.alive s = false) := by rw [hal]; simp; omega
      rw [if_neg hg, hms] at this
      cases ms with
      | nil => simp at this
      | cons x t => cases x <;> simp at this
    · simp [hin]

/-- single-process mode: nothing is ever in a channel -/
theorem inbox_empty_serial (st : State α β) (hc : CInv st) (hsize : st.size < 2) :
    inboxTotal st = 0 := by
  unfold inboxTotal
  apply sumTo_zero
  intro s hs
  have : s = 0 := by omega
  subst this; simp [hc.z]

end Pyunicorn.MpiProto
