import Pyunicorn.Model.Circuit
import Mathlib.Data.Matrix.Mul
import Mathlib.Tactic.Ring
import Mathlib.Tactic.Linarith
import Mathlib.Tactic.FieldSimp
import Mathlib.Algebra.Order.Field.Rat
import Mathlib.Algebra.BigOperators.Fin
import Mathlib.Algebra.BigOperators.Ring.Finset
import Mathlib.Algebra.Order.BigOperators.Ring.Finset
/-! Helper lemmas for C18: folds = sums, matrix bridge, generalised inverses, potentials. -/
namespace Pyunicorn.Circuit
open Finset

/-! ### loops are sums -/

theorem foldl_add_range (f : Nat → Rat) (a : Rat) (n : Nat) :
    (List.range n).foldl (fun acc k => acc + f k) a = a + ∑ k ∈ range n, f k := by
  induction n with
  | zero => simp
  | succ n ih =>
    rw [List.range_succ, List.foldl_append, ih, Finset.sum_range_succ]
    simp [add_assoc]

theorem sumTo_eq (n : Nat) (f : Nat → Rat) : sumTo n f = ∑ k ∈ range n, f k := by
  unfold sumTo; rw [foldl_add_range]; simp

/-- a loop whose body is `if c k then continue else acc += f k` -/
theorem foldl_skip_range (c : Nat → Prop) [DecidablePred c] (f : Nat → Rat) (a : Rat) (n : Nat) :
    (List.range n).foldl (fun acc k => if c k then acc else acc + f k) a
      = a + ∑ k ∈ range n, (if c k then 0 else f k) := by
  have : (fun (acc : Rat) k => if c k then acc else acc + f k)
      = fun acc k => acc + (if c k then 0 else f k) := by
    funext acc k; split <;> simp
  rw [this, foldl_add_range]

/-- an outer loop threading its accumulator through an inner loop -/
theorem foldl_nested (g : Nat → Rat → Rat) (h : Nat → Rat)
    (hg : ∀ t acc, g t acc = acc + h t) (a : Rat) (n : Nat) :
    (List.range n).foldl (fun acc t => g t acc) a = a + ∑ t ∈ range n, h t := by
  have : (fun (acc : Rat) t => g t acc) = fun acc t => acc + h t := by
    funext acc t; exact hg t acc
  rw [this, foldl_add_range]


/-! ### bridge to Mathlib matrices; effective resistance for every generalised inverse -/
section bridge
open Matrix

def toM (n : Nat) (A : Mat) : Matrix (Fin n) (Fin n) ℚ := fun i j => A i j
def toV (n : Nat) (v : Vec) : Fin n → ℚ := fun i => v i

theorem sumTo_fin (n : Nat) (f : Nat → Rat) : sumTo n f = ∑ k : Fin n, f k := by
  rw [sumTo_eq, Finset.sum_range]

section abstract
variable {n : Nat} {K : Type} [CommRing K]

theorem ginv_quadform (L R : Matrix (Fin n) (Fin n) K) (hL : Lᵀ = L) (hg : L * R * L = L)
    (v u : Fin n → K) (hv : L *ᵥ v = u) :
    u ⬝ᵥ (R *ᵥ u) = v ⬝ᵥ u := by
  subst hv
  have h1 : (L *ᵥ v) ⬝ᵥ (R *ᵥ (L *ᵥ v)) = v ⬝ᵥ (L *ᵥ (R *ᵥ (L *ᵥ v))) := by
    rw [dotProduct_mulVec v, ← mulVec_transpose, hL]
  rw [h1, mulVec_mulVec, mulVec_mulVec, hg]

theorem quad_single (R : Matrix (Fin n) (Fin n) K) (a b : Fin n) :
    (Pi.single a 1 - Pi.single b 1 : Fin n → K) ⬝ᵥ (R *ᵥ (Pi.single a 1 - Pi.single b 1))
      = R a a - R a b - R b a + R b b := by
  simp [mulVec_sub, sub_dotProduct, dotProduct_sub]
  ring

theorem dot_single (v : Fin n → K) (a b : Fin n) :
    v ⬝ᵥ (Pi.single a 1 - Pi.single b 1 : Fin n → K) = v a - v b := by
  simp [dotProduct_sub]
end abstract

theorem toM_symm {n : Nat} {L : Mat} (h : SymmOn n L) : (toM n L)ᵀ = toM n L := by
  ext i j; exact h j i j.2 i.2

theorem toM_ginv {n : Nat} {L R : Mat} (h : IsGinv n L R) :
    toM n L * toM n R * toM n L = toM n L := by
  ext i j
  have := h i j i.2 j.2
  simp only [sumTo_fin] at this
  simpa [Matrix.mul_apply, toM] using this

theorem toM_pot {n : Nat} {L : Mat} {v : Vec} {a b : Nat} (ha : a < n) (hb : b < n)
    (h : IsPot n L v a b) :
    toM n L *ᵥ toV n v = (Pi.single ⟨a, ha⟩ 1 - Pi.single ⟨b, hb⟩ 1 : Fin n → ℚ) := by
  funext i
  have := h i i.2
  rw [sumTo_fin] at this
  simp only [mulVec, dotProduct, toM, toV, Pi.sub_apply, Pi.single_apply, Fin.ext_iff]
  exact this

theorem effRes_eq_drop (n : Nat) (L R : Mat) (v : Vec) (a b : Nat) (ha : a < n) (hb : b < n)
    (hsym : SymmOn n L) (hg : IsGinv n L R) (hv : IsPot n L v a b) :
    effRes R a b = v a - v b := by
  by_cases hab : a = b
  · subst hab; simp [effRes]
  · have h := ginv_quadform (toM n L) (toM n R) (toM_symm hsym) (toM_ginv hg) _ _ (toM_pot ha hb hv)
    rw [quad_single, dot_single] at h
    simp only [effRes, hab, if_false]
    exact h
end bridge

/-! ### Laplacians of symmetric conductances: energy identity, positivity, link bound -/

/-- `(L v)_i` for the Laplacian of symmetric conductances: Kirchhoff's current law at node i -/
theorem lap_mulVec (n : Nat) (c : Mat) (v : Vec) (i : Nat) (hi : i < n) (hs : SymmOn n c) :
    sumTo n (fun j => laplacian n c i j * v j) = ∑ j ∈ range n, c i j * (v i - v j) := by
  rw [sumTo_eq]
  unfold laplacian colSum
  simp only [sumTo_eq, sub_mul, Finset.sum_sub_distrib, ite_mul, zero_mul,
    Finset.sum_ite_eq, Finset.mem_range, hi, if_true, mul_sub]
  congr 1
  rw [Finset.sum_mul]
  refine Finset.sum_congr rfl fun k hk => ?_
  rw [hs k i (Finset.mem_range.mp hk) hi]

theorem quadform (n : Nat) (c : Mat) (v : Vec) (hs : SymmOn n c) :
    2 * ∑ i ∈ range n, v i * ∑ j ∈ range n, c i j * (v i - v j)
      = ∑ i ∈ range n, ∑ j ∈ range n, c i j * (v i - v j) ^ 2 := by
  have h2 : ∑ i ∈ range n, v i * ∑ j ∈ range n, c i j * (v i - v j)
      = ∑ i ∈ range n, ∑ j ∈ range n, c i j * (v j * (v j - v i)) := by
    rw [Finset.sum_comm]
    refine Finset.sum_congr rfl fun i hi => ?_
    rw [Finset.mul_sum]
    refine Finset.sum_congr rfl fun j hj => ?_
    rw [hs i j (Finset.mem_range.mp hi) (Finset.mem_range.mp hj)]
    ring
  rw [two_mul]
  nth_rewrite 2 [h2]
  rw [← Finset.sum_add_distrib]
  refine Finset.sum_congr rfl fun i _ => ?_
  rw [Finset.mul_sum, ← Finset.sum_add_distrib]
  refine Finset.sum_congr rfl fun j _ => ?_
  ring

/-- dissipated power = injected power: `2 (v_a − v_b) = Σ_ij c_ij (v_i − v_j)²` -/
theorem drop_eq_energy (n : Nat) (c : Mat) (v : Vec) (a b : Nat) (ha : a < n) (hb : b < n)
    (hs : SymmOn n c) (hv : IsPot n (laplacian n c) v a b) :
    2 * (v a - v b) = ∑ i ∈ range n, ∑ j ∈ range n, c i j * (v i - v j) ^ 2 := by
  rw [← quadform n c v hs]
  congr 1
  have : ∀ i ∈ range n, v i * ∑ j ∈ range n, c i j * (v i - v j)
      = v i * ((if i = a then 1 else 0) - (if i = b then 1 else 0)) := by
    intro i hi
    rw [← lap_mulVec n c v i (Finset.mem_range.mp hi) hs, hv i (Finset.mem_range.mp hi)]
  rw [Finset.sum_congr rfl this]
  simp [mul_sub, Finset.sum_sub_distrib, ha, hb]

theorem drop_nonneg (n : Nat) (c : Mat) (v : Vec) (a b : Nat) (ha : a < n) (hb : b < n)
    (hs : SymmOn n c) (hc : ∀ i j, i < n → j < n → 0 ≤ c i j)
    (hv : IsPot n (laplacian n c) v a b) : 0 ≤ v a - v b := by
  have h := drop_eq_energy n c v a b ha hb hs hv
  have : 0 ≤ ∑ i ∈ range n, ∑ j ∈ range n, c i j * (v i - v j) ^ 2 :=
    Finset.sum_nonneg fun i hi => Finset.sum_nonneg fun j hj =>
      mul_nonneg (hc i j (Finset.mem_range.mp hi) (Finset.mem_range.mp hj)) (sq_nonneg _)
  linarith

theorem drop_zero_imp_eq (n : Nat) (c : Mat) (v : Vec) (a b : Nat) (ha : a < n) (hb : b < n)
    (hs : SymmOn n c) (hc : ∀ i j, i < n → j < n → 0 ≤ c i j)
    (hv : IsPot n (laplacian n c) v a b) (h0 : v a - v b = 0) : a = b := by
  have h := drop_eq_energy n c v a b ha hb hs hv
  rw [h0, mul_zero] at h
  have hterm : ∀ i ∈ range n, ∀ j ∈ range n, c i j * (v i - v j) ^ 2 = 0 := by
    have hin : ∀ i ∈ range n, 0 ≤ ∑ j ∈ range n, c i j * (v i - v j) ^ 2 := fun i hi =>
      Finset.sum_nonneg fun j hj =>
        mul_nonneg (hc i j (Finset.mem_range.mp hi) (Finset.mem_range.mp hj)) (sq_nonneg _)
    intro i hi j hj
    have h1 := (Finset.sum_eq_zero_iff_of_nonneg hin).mp h.symm i hi
    exact (Finset.sum_eq_zero_iff_of_nonneg fun j hj =>
      mul_nonneg (hc i j (Finset.mem_range.mp hi) (Finset.mem_range.mp hj)) (sq_nonneg _)).mp h1 j hj
  have hlin : ∀ j ∈ range n, c a j * (v a - v j) = 0 := by
    intro j hj
    have := hterm a (Finset.mem_range.mpr ha) j hj
    rcases mul_eq_zero.mp this with h | h
    · simp [h]
    · have : v a - v j = 0 := by simpa using h
      simp [this]
  have hk := hv a ha
  rw [lap_mulVec n c v a ha hs, Finset.sum_eq_zero hlin] at hk
  by_contra hab
  simp [hab] at hk

/-- a single link bounds the effective resistance between its end points -/
theorem drop_le_link (n : Nat) (c : Mat) (v : Vec) (a b : Nat) (ha : a < n) (hb : b < n)
    (hab : a ≠ b) (hs : SymmOn n c) (hc : ∀ i j, i < n → j < n → 0 ≤ c i j)
    (hpos : 0 < c a b) (hv : IsPot n (laplacian n c) v a b) : v a - v b ≤ 1 / c a b := by
  have h := drop_eq_energy n c v a b ha hb hs hv
  have hd := drop_nonneg n c v a b ha hb hs hc hv
  set d := v a - v b with hdd
  -- the two ordered pairs (a,b), (b,a) alone dissipate 2 c d²
  have hge : 2 * (c a b * d ^ 2) ≤ ∑ i ∈ range n, ∑ j ∈ range n, c i j * (v i - v j) ^ 2 := by
    have hnn : ∀ i ∈ range n, ∀ j ∈ range n, 0 ≤ c i j * (v i - v j) ^ 2 := fun i hi j hj =>
      mul_nonneg (hc i j (Finset.mem_range.mp hi) (Finset.mem_range.mp hj)) (sq_nonneg _)
    have hin : ∀ i ∈ range n, 0 ≤ ∑ j ∈ range n, c i j * (v i - v j) ^ 2 := fun i hi =>
      Finset.sum_nonneg (hnn i hi)
    have hA : c a b * d ^ 2 ≤ ∑ j ∈ range n, c a j * (v a - v j) ^ 2 :=
      Finset.single_le_sum (f := fun j => c a j * (v a - v j) ^ 2)
        (hnn a (Finset.mem_range.mpr ha)) (Finset.mem_range.mpr hb)
    have hB : c a b * d ^ 2 ≤ ∑ j ∈ range n, c b j * (v b - v j) ^ 2 := by
      have := Finset.single_le_sum (f := fun j => c b j * (v b - v j) ^ 2)
        (hnn b (Finset.mem_range.mpr hb)) (Finset.mem_range.mpr ha)
      rw [hs b a hb ha] at this
      calc c a b * d ^ 2 = c a b * (v b - v a) ^ 2 := by rw [hdd]; ring
        _ ≤ _ := this
    have hpair : ∑ i ∈ ({a, b} : Finset Nat), ∑ j ∈ range n, c i j * (v i - v j) ^ 2
        ≤ ∑ i ∈ range n, ∑ j ∈ range n, c i j * (v i - v j) ^ 2 := by
      apply Finset.sum_le_sum_of_subset_of_nonneg
      · intro x hx
        simp only [Finset.mem_insert, Finset.mem_singleton] at hx
        rcases hx with rfl | rfl <;> simp [ha, hb]
      · intro i hi _; exact hin i hi
    rw [Finset.sum_pair hab] at hpair
    linarith
  have hle : c a b * d ^ 2 ≤ d := by linarith
  rcases eq_or_lt_of_le hd with h0 | hpos'
  · rw [← h0]; exact le_of_lt (one_div_pos.mpr hpos)
  · rw [le_div_iff₀ hpos]
    have : c a b * d * d ≤ 1 * d := by nlinarith
    have := le_of_mul_le_mul_right this hpos'
    linarith

/-! ### projections, Foster, scaling -/

/-- columns of a Laplacian sum to zero -/
theorem lap_colsum (n : Nat) (c : Mat) (j : Nat) (hj : j < n) :
    ∑ i ∈ range n, laplacian n c i j = 0 := by
  unfold laplacian colSum
  simp [sumTo_eq, Finset.sum_sub_distrib, hj]

theorem pot_of_proj (n : Nat) (L R : Mat) (a b : Nat) (ha : a < n) (hb : b < n)
    (hp : IsProj n L R) : IsPot n L (fun i => R i a - R i b) a b := by
  intro i hi
  have h1 := hp i a hi ha
  have h2 := hp i b hi hb
  rw [sumTo_eq] at h1 h2 ⊢
  simp only [mul_sub, Finset.sum_sub_distrib, h1, h2]
  ring

theorem ginv_of_proj (n : Nat) (c R : Mat) (hp : IsProj n (laplacian n c) R) :
    IsGinv n (laplacian n c) R := by
  intro i j hi hj
  rw [sumTo_eq]
  have : ∀ l ∈ range n, (sumTo n fun k => laplacian n c i k * R k l) * laplacian n c l j
      = ((if i = l then 1 else 0) - 1 / (n : Rat)) * laplacian n c l j := by
    intro l hl
    rw [hp i l hi (Finset.mem_range.mp hl)]
  rw [Finset.sum_congr rfl this]
  simp only [sub_mul, Finset.sum_sub_distrib, ite_mul, one_mul, zero_mul, Finset.sum_ite_eq,
    Finset.mem_range, hi, if_true, ← Finset.mul_sum, lap_colsum n c j hj]
  ring

/-- `effective_resistance` without the `a == b` shortcut -/
theorem effRes_formula (R : Mat) (a b : Nat) : effRes R a b = R a a - R a b - R b a + R b b := by
  unfold effRes
  split
  · next h => subst h; ring
  · rfl

/-- Foster's theorem over ordered pairs, for every `R` with `L R = I − J/n` -/
theorem foster_ordered (n : Nat) (hn : 0 < n) (c R : Mat) (hs : SymmOn n c)
    (hp : IsProj n (laplacian n c) R) :
    ∑ i ∈ range n, ∑ j ∈ range n, c i j * effRes R i j = 2 * ((n : Rat) - 1) := by
  -- trace of L R
  have htr : ∑ i ∈ range n, ∑ k ∈ range n, laplacian n c i k * R k i = (n : Rat) - 1 := by
    have : ∀ i ∈ range n, ∑ k ∈ range n, laplacian n c i k * R k i = 1 - 1 / (n : Rat) := by
      intro i hi
      have := hp i i (Finset.mem_range.mp hi) (Finset.mem_range.mp hi)
      rw [sumTo_eq] at this
      simpa using this
    rw [Finset.sum_congr rfl this, Finset.sum_const, Finset.card_range]
    have : (n : Rat) ≠ 0 := by positivity
    simp only [nsmul_eq_mul]
    field_simp
  have hexp : ∀ i ∈ range n, ∑ k ∈ range n, laplacian n c i k * R k i
      = (∑ k ∈ range n, c i k) * R i i - ∑ k ∈ range n, c i k * R k i := by
    intro i hi
    have hi' := Finset.mem_range.mp hi
    unfold laplacian colSum
    simp only [sumTo_eq, sub_mul, Finset.sum_sub_distrib, ite_mul, zero_mul, Finset.sum_ite_eq,
      Finset.mem_range, hi', if_true]
    congr 2
    exact Finset.sum_congr rfl fun k hk => hs k i (Finset.mem_range.mp hk) hi'
  rw [Finset.sum_congr rfl hexp, Finset.sum_sub_distrib] at htr
  simp only [effRes_formula, mul_add, mul_sub, Finset.sum_add_distrib, Finset.sum_sub_distrib]
  have e1 : ∑ i ∈ range n, ∑ j ∈ range n, c i j * R i i
      = ∑ i ∈ range n, (∑ k ∈ range n, c i k) * R i i :=
    Finset.sum_congr rfl fun i _ => by rw [Finset.sum_mul]
  have e4 : ∑ i ∈ range n, ∑ j ∈ range n, c i j * R j j
      = ∑ i ∈ range n, (∑ k ∈ range n, c i k) * R i i := by
    rw [Finset.sum_comm]
    refine Finset.sum_congr rfl fun i hi => ?_
    rw [Finset.sum_mul]
    exact Finset.sum_congr rfl fun k hk => by
      rw [hs k i (Finset.mem_range.mp hk) (Finset.mem_range.mp hi)]
  have e2 : ∑ i ∈ range n, ∑ j ∈ range n, c i j * R i j
      = ∑ i ∈ range n, ∑ k ∈ range n, c i k * R k i := by
    rw [Finset.sum_comm]
    refine Finset.sum_congr rfl fun i hi => Finset.sum_congr rfl fun k hk => ?_
    rw [hs k i (Finset.mem_range.mp hk) (Finset.mem_range.mp hi)]
  rw [e1, e4, e2]
  linarith

/-! scaling -/
theorem admittance_scale (adj : Adj) (res : Mat) (k : Rat) (i j : Nat) :
    admittance adj (fun i j => k * res i j) i j = (1 / k) * admittance adj res i j := by
  unfold admittance
  split
  · rw [one_div_mul_one_div_rev, mul_comm (res i j)]
  · simp

theorem laplacian_scale (n : Nat) (c : Mat) (α : Rat) (i j : Nat) :
    laplacian n (fun i j => α * c i j) i j = α * laplacian n c i j := by
  unfold laplacian colSum
  simp only [sumTo_eq, ← Finset.mul_sum]
  split <;> ring

theorem pot_scale (n : Nat) (L : Mat) (v : Vec) (a b : Nat) (α : Rat) (hα : α ≠ 0)
    (hv : IsPot n L v a b) : IsPot n (fun i j => α * L i j) (fun i => v i / α) a b := by
  intro i hi
  have := hv i hi
  rw [sumTo_eq] at this ⊢
  rw [← this]
  refine Finset.sum_congr rfl fun j _ => ?_
  field_simp

/-! ### explicit potentials of the series and the parallel circuit -/

/-- links of the chain `0 — 1 — 2 — …` -/
def chainAdj : Adj := fun i j => i + 1 == j || j + 1 == i
/-- links of the triangle on `{0,1,2}` -/
def triAdj : Adj := fun i j => i != j

theorem series_pot (res : Mat) (h01 : res 0 1 ≠ 0) (h12 : res 1 2 ≠ 0)
    (hs1 : res 1 0 = res 0 1) (hs2 : res 2 1 = res 1 2) :
    IsPot 3 (laplacian 3 (admittance chainAdj res))
      (fun i => if i = 0 then res 0 1 + res 1 2 else if i = 1 then res 1 2 else 0) 0 2 := by
  intro i hi
  have : i = 0 ∨ i = 1 ∨ i = 2 := by omega
  rcases this with rfl | rfl | rfl <;>
    simp [sumTo_eq, Finset.sum_range_succ, laplacian, colSum, admittance, chainAdj, hs1, hs2] <;>
    field_simp <;> ring

theorem parallel_pot (res : Mat) (h01 : res 0 1 ≠ 0) (h02 : res 0 2 ≠ 0) (h21 : res 2 1 ≠ 0)
    (hsum : res 0 1 + res 0 2 + res 2 1 ≠ 0)
    (hs1 : res 1 0 = res 0 1) (hs2 : res 2 0 = res 0 2) (hs3 : res 1 2 = res 2 1) :
    IsPot 3 (laplacian 3 (admittance triAdj res))
      (fun i => if i = 0 then res 0 1 * (res 0 2 + res 2 1) / (res 0 1 + res 0 2 + res 2 1)
                else if i = 1 then 0
                else res 0 1 * res 2 1 / (res 0 1 + res 0 2 + res 2 1)) 0 1 := by
  intro i hi
  have : i = 0 ∨ i = 1 ∨ i = 2 := by omega
  rcases this with rfl | rfl | rfl <;>
    simp [sumTo_eq, Finset.sum_range_succ, laplacian, colSum, admittance, triAdj, hs1, hs2, hs3] <;>
    field_simp <;> ring

/-! ### misc -/
theorem absR_eq (x : Rat) : absR x = |x| := by
  unfold absR
  split
  · rw [abs_of_neg]; assumption
  · rw [abs_of_nonneg]; linarith

theorem degree_eq_card (n : Nat) (adj : Adj) (i : Nat) :
    degree n adj i = ((range n).filter fun j => adj i j = true).card := by
  unfold degree
  have : ∀ (m : Nat) (a : Nat), (List.range m).foldl (fun d j => if adj i j then d + 1 else d) a
      = a + ((range m).filter fun j => adj i j = true).card := by
    intro m
    induction m with
    | zero => simp
    | succ m ih =>
      intro a
      rw [List.range_succ, List.foldl_append, ih, Finset.range_add_one, Finset.filter_insert]
      by_cases h : adj i m = true
      · simp [h]; omega
      · simp [h]
  simpa using this n 0


/-- a resistor network: undirected links, symmetric positive resistances on the links -/
structure IsNetwork (n : Nat) (adj : Adj) (res : Mat) : Prop where
  adj_symm : ∀ i j, i < n → j < n → adj i j = adj j i
  res_symm : SymmOn n res
  res_pos : ∀ i j, i < n → j < n → adj i j = true → 0 < res i j

theorem adm_symm {n : Nat} {adj : Adj} {res : Mat} (h : IsNetwork n adj res) :
    SymmOn n (admittance adj res) := by
  intro i j hi hj
  unfold admittance
  rw [h.adj_symm i j hi hj, h.res_symm i j hi hj]

theorem adm_nonneg {n : Nat} {adj : Adj} {res : Mat} (h : IsNetwork n adj res) :
    ∀ i j, i < n → j < n → 0 ≤ admittance adj res i j := by
  intro i j hi hj
  unfold admittance
  split
  · next ha => exact le_of_lt (one_div_pos.mpr (h.res_pos i j hi hj ha))
  · exact le_refl _

theorem lap_symm {n : Nat} {c : Mat} (h : SymmOn n c) : SymmOn n (laplacian n c) := by
  intro i j hi hj
  unfold laplacian
  by_cases e : i = j
  · subst e; rfl
  · have e' : ¬ j = i := fun x => e x.symm
    simp [e, e', h i j hi hj]

theorem pot_add {n : Nat} {L : Mat} {v w : Vec} {a b c : Nat}
    (hv : IsPot n L v a b) (hw : IsPot n L w b c) : IsPot n L (fun i => v i + w i) a c := by
  intro i hi
  have h1 := hv i hi
  have h2 := hw i hi
  rw [sumTo_eq] at h1 h2 ⊢
  simp only [mul_add, Finset.sum_add_distrib, h1, h2]
  ring

/-! ### maximum principle -/
/-- **Maximum principle**: on a cut-connected network the source of a unit current has the
highest potential. -/
theorem max_principle (n : Nat) (c : Mat) (v : Vec) (a b : Nat) (ha : a < n)
    (hs : SymmOn n c) (hc : ∀ i j, i < n → j < n → 0 ≤ c i j) (hconn : CutConnected n c)
    (hv : IsPot n (laplacian n c) v a b) (x : Nat) (hx : x < n) : v x ≤ v a := by
  obtain ⟨m, hm, hmax⟩ := Finset.exists_max_image (range n) v ⟨a, Finset.mem_range.mpr ha⟩
  have hm' := Finset.mem_range.mp hm
  by_contra hlt
  have hlt' : v a < v m := lt_of_lt_of_le (not_le.mp hlt) (hmax x (Finset.mem_range.mpr hx))
  obtain ⟨i, j, hi, hj, hSi, hSj, hcij⟩ := hconn (fun y => decide (v y = v m))
    ⟨m, hm', by simp⟩ ⟨a, ha, by simp [ne_of_lt hlt']⟩
  have hvi : v i = v m := by simpa using hSi
  have hvj : v j ≠ v m := by simpa using hSj
  have hia : i ≠ a := fun e => by rw [e] at hvi; exact (ne_of_lt hlt') hvi
  have hk := hv i hi
  rw [lap_mulVec n c v i hi hs] at hk
  have hle : ∑ j ∈ range n, c i j * (v i - v j) ≤ 0 := by
    rw [hk]; simp only [hia, if_false]; split <;> norm_num
  have hpos : 0 < ∑ j ∈ range n, c i j * (v i - v j) := by
    apply Finset.sum_pos'
    · intro k hk'
      exact mul_nonneg (hc i k hi (Finset.mem_range.mp hk'))
        (by rw [hvi]; linarith [hmax k hk'])
    · refine ⟨j, Finset.mem_range.mpr hj, ?_⟩
      have h1 : 0 < c i j := lt_of_le_of_ne (hc i j hi hj) (Ne.symm hcij)
      have h2 : v j < v m := lt_of_le_of_ne (hmax j (Finset.mem_range.mpr hj)) hvj
      exact mul_pos h1 (by rw [hvi]; linarith)
  linarith

theorem pot_neg {n : Nat} {L : Mat} {v : Vec} {a b : Nat} (hv : IsPot n L v a b) :
    IsPot n L (fun i => - v i) b a := by
  intro i hi
  have h := hv i hi
  rw [sumTo_eq] at h ⊢
  simp only [mul_neg, Finset.sum_neg_distrib, h]
  ring

/-- … and the sink the lowest -/
theorem min_principle (n : Nat) (c : Mat) (v : Vec) (a b : Nat) (hb : b < n)
    (hs : SymmOn n c) (hc : ∀ i j, i < n → j < n → 0 ≤ c i j) (hconn : CutConnected n c)
    (hv : IsPot n (laplacian n c) v a b) (x : Nat) (hx : x < n) : v b ≤ v x := by
  have := max_principle n c _ b a hb hs hc hconn (pot_neg hv) x hx
  simpa using this

end Pyunicorn.Circuit
