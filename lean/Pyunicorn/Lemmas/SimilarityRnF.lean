import Pyunicorn.Lemmas.SimilarityRounding
/-!
# `rnF p emin` is a rounding: monotone, idempotent, sign-symmetric range (C09, round 5)

The float32 theorems of round 4 (`x_*`) hold "for every monotone rounding that leaves the stored
values fixed"; for the rounding the driver actually runs (`rn24 = rnF 24 (-126)`, compared with
numpy's float32 on every run) these two facts were only probed.  Here they are proved for every
precision `p ≥ 1` and every `emin`:

* `binExp_lt`, `binExp_mono` — `x < 2^(binExp x + 1)` (the missing half of the specification of
  `binExp`), hence `binExp` is monotone on the positive rationals;
* `roundHalfEven_mono`, `roundHalfEven_intCast`;
* `rnF_mono` — `x ≤ y → rnF p emin x ≤ rnF p emin y` (also across binades and through zero);
* `Rep p emin z` — `z = m · 2^(e − p + 1)` with `|m| ≤ 2^p`, `e ≥ emin`; `rnF_rep` (every result is
  representable), `rnF_fixed` (representable numbers are fixed), `Rep.neg`, `Rep.abs`;
* `rnF_idem`, `rnF_abs_fixed` — the stored `|float32(s)|` is a fixed point.
-/
namespace Pyunicorn.Similarity

/-! ### integer rounding -/

theorem roundHalfEven_cases (x : ℚ) :
    (roundHalfEven x = x.floor ∧ x - (x.floor : ℚ) ≤ 1 / 2) ∨
      (roundHalfEven x = x.floor + 1 ∧ 1 / 2 ≤ x - (x.floor : ℚ)) := by
  unfold roundHalfEven
  simp only
  split
  · left; exact ⟨rfl, by linarith⟩
  · split
    · right; exact ⟨rfl, by linarith⟩
    · rename_i h1 h2
      have : x - (x.floor : ℚ) = 1 / 2 := le_antisymm (not_lt.1 h2) (not_lt.1 h1)
      split
      · left; exact ⟨rfl, by linarith⟩
      · right; exact ⟨rfl, by linarith⟩

theorem roundHalfEven_mono {x y : ℚ} (h : x ≤ y) : roundHalfEven x ≤ roundHalfEven y := by
  have hf : x.floor ≤ y.floor := Rat.floor_monotone h
  rcases roundHalfEven_cases x with ⟨a, ha⟩ | ⟨a, ha⟩ <;>
    rcases roundHalfEven_cases y with ⟨b, hb⟩ | ⟨b, hb⟩
  · omega
  · omega
  · rcases lt_or_eq_of_le hf with hlt | heq
    · omega
    · have hq : (x.floor : ℚ) = (y.floor : ℚ) := by rw [heq]
      have : x = y := le_antisymm h (by linarith)
      subst this
      omega
  · omega

theorem roundHalfEven_intCast (n : Int) : roundHalfEven (n : ℚ) = n := by
  unfold roundHalfEven
  simp only [Rat.floor_intCast, sub_self]
  norm_num

/-! ### the binary exponent -/

/-- the other half of the specification of `binExp`: `x < 2^(binExp x + 1)` -/
theorem binExp_lt (x : ℚ) (hx : 0 < x) : x < twoPow (binExp x + 1) := by
  unfold binExp
  simp only
  split
  · -- n / d < 2^(log2 n + 1 - log2 d)
    have hn : 0 < x.num := Rat.num_pos.2 hx
    have hd : x.den ≠ 0 := x.den_nz
    have a1 : x.num.toNat < 2 ^ (Nat.log2 x.num.toNat + 1) := Nat.lt_log2_self
    have a2 : 2 ^ (Nat.log2 x.den) ≤ x.den := Nat.log2_self_le hd
    have a1q : (x.num : ℚ) < (2 : ℚ) ^ (Nat.log2 x.num.toNat + 1) := by
      have : ((x.num.toNat : Nat) : ℚ) < ((2 ^ (Nat.log2 x.num.toNat + 1) : Nat) : ℚ) := by
        exact_mod_cast a1
      have e : ((x.num.toNat : Nat) : ℚ) = (x.num : ℚ) := by
        have : ((x.num.toNat : Nat) : Int) = x.num := Int.toNat_of_nonneg (le_of_lt hn)
        exact_mod_cast congrArg (fun z : Int => (z : ℚ)) this
      rw [e] at this
      simpa using this
    have a2q : (2 : ℚ) ^ (Nat.log2 x.den) ≤ (x.den : ℚ) := by
      have : ((2 ^ (Nat.log2 x.den) : Nat) : ℚ) ≤ ((x.den : Nat) : ℚ) := by exact_mod_cast a2
      simpa using this
    rw [twoPow_eq_zpow]
    have hdq : (0 : ℚ) < (x.den : ℚ) := by exact_mod_cast Nat.pos_of_ne_zero hd
    have hx' : x = (x.num : ℚ) / (x.den : ℚ) := (Rat.num_div_den x).symm
    have e1 : ((Nat.log2 x.num.toNat : Int) - (Nat.log2 x.den : Int) + 1)
        = ((Nat.log2 x.num.toNat + 1 : Nat) : Int) - ((Nat.log2 x.den : Nat) : Int) := by
      push_cast; ring
    rw [e1, zpow_sub₀ (by norm_num : (2 : ℚ) ≠ 0), zpow_natCast, zpow_natCast]
    conv_lhs => rw [hx']
    have hp : (0 : ℚ) < (2 : ℚ) ^ (Nat.log2 x.den) := by positivity
    rw [div_lt_div_iff₀ hdq hp]
    have hnum : (0 : ℚ) < (2 : ℚ) ^ (Nat.log2 x.num.toNat + 1) := by positivity
    calc (x.num : ℚ) * (2 : ℚ) ^ (Nat.log2 x.den)
        ≤ (x.num : ℚ) * (x.den : ℚ) :=
          mul_le_mul_of_nonneg_left a2q (by exact_mod_cast le_of_lt hn)
      _ < (2 : ℚ) ^ (Nat.log2 x.num.toNat + 1) * (x.den : ℚ) :=
          mul_lt_mul_of_pos_right a1q hdq
  · rename_i h
    have : ((Nat.log2 x.num.toNat : Int) - (Nat.log2 x.den : Int) - 1 + 1)
        = (Nat.log2 x.num.toNat : Int) - (Nat.log2 x.den : Int) := by ring
    rw [this]
    exact not_le.1 h

theorem twoPow_le_twoPow {a b : Int} (h : a ≤ b) : twoPow a ≤ twoPow b := by
  rw [twoPow_eq_zpow, twoPow_eq_zpow]
  exact zpow_le_zpow_right₀ (by norm_num) h

theorem twoPow_lt_twoPow_iff {a b : Int} : twoPow a < twoPow b ↔ a < b := by
  rw [twoPow_eq_zpow, twoPow_eq_zpow]
  exact zpow_lt_zpow_iff_right₀ (by norm_num)

theorem twoPow_add (a b : Int) : twoPow (a + b) = twoPow a * twoPow b := by
  rw [twoPow_eq_zpow, twoPow_eq_zpow, twoPow_eq_zpow, zpow_add₀ (by norm_num : (2 : ℚ) ≠ 0)]

theorem twoPow_natCast (n : Nat) : twoPow (n : Int) = (2 : ℚ) ^ n := by
  rw [twoPow_eq_zpow, zpow_natCast]

/-- `binExp` is characterised by its two bounds -/
theorem binExp_le_of_lt {x : ℚ} (hx : 0 < x) {e : Int} (h : x < twoPow (e + 1)) : binExp x ≤ e := by
  have h1 := twoPow_binExp_le x hx
  have : twoPow (binExp x) < twoPow (e + 1) := lt_of_le_of_lt h1 h
  have := twoPow_lt_twoPow_iff.1 this
  omega

theorem le_binExp_of_le {x : ℚ} (hx : 0 < x) {e : Int} (h : twoPow e ≤ x) : e ≤ binExp x := by
  have h1 := binExp_lt x hx
  have : twoPow e < twoPow (binExp x + 1) := lt_of_le_of_lt h h1
  have := twoPow_lt_twoPow_iff.1 this
  omega

theorem binExp_mono {x y : ℚ} (hx : 0 < x) (h : x ≤ y) : binExp x ≤ binExp y :=
  le_binExp_of_le (lt_of_lt_of_le hx h) (le_trans (twoPow_binExp_le x hx) h)

theorem roundHalfEven_neg (x : ℚ) : roundHalfEven (-x) = - roundHalfEven x := by
  by_cases hx : x = (x.floor : ℚ)
  · rw [hx, ← Int.cast_neg, roundHalfEven_intCast, roundHalfEven_intCast]
  · have h1 := Rat.floor_le x
    have h2 := Rat.lt_floor_add_one x
    have hlt : (x.floor : ℚ) < x := lt_of_le_of_ne h1 (Ne.symm hx)
    have hfl : (-x).floor = -x.floor - 1 := by
      apply le_antisymm
      · have : (-x).floor < -x.floor := by rw [Rat.floor_lt_iff]; push_cast; linarith
        omega
      · rw [Rat.le_floor_iff]; push_cast; push_cast at h2; linarith
    unfold roundHalfEven
    simp only [hfl]
    push_cast
    split_ifs <;> first | omega | (exfalso; linarith)

/-! ### `rnF` -/

/-- the exponent `rnF` rounds at -/
def expOf (emin : Int) (x : ℚ) : Int := max (binExp (ratAbs x)) emin

/-- the unit in the last place `rnF` rounds to -/
def ulpOf (p : Nat) (emin : Int) (x : ℚ) : ℚ := twoPow (expOf emin x - ((p : Int) - 1))

theorem rnF_eq (p : Nat) (emin : Int) (x : ℚ) (hx : x ≠ 0) :
    rnF p emin x = (roundHalfEven (x / ulpOf p emin x) : ℚ) * ulpOf p emin x := by
  unfold rnF ulpOf expOf
  simp [hx]

theorem ulpOf_pos (p : Nat) (emin : Int) (x : ℚ) : 0 < ulpOf p emin x := twoPow_pos _

theorem emin_le_expOf (emin : Int) (x : ℚ) : emin ≤ expOf emin x := le_max_right _ _

theorem ratAbs_neg (x : ℚ) : ratAbs (-x) = ratAbs x := by
  rw [ratAbs_eq_abs, ratAbs_eq_abs, abs_neg]

theorem rnF_zero (p : Nat) (emin : Int) : rnF p emin 0 = 0 := by simp [rnF]

/-- the rounding is odd -/
theorem rnF_neg (p : Nat) (emin : Int) (x : ℚ) : rnF p emin (-x) = - rnF p emin x := by
  by_cases hx : x = 0
  · subst hx; simp [rnF_zero]
  · have hx' : -x ≠ 0 := neg_ne_zero.2 hx
    rw [rnF_eq p emin x hx, rnF_eq p emin (-x) hx']
    have : ulpOf p emin (-x) = ulpOf p emin x := by unfold ulpOf expOf; rw [ratAbs_neg]
    rw [this, neg_div, roundHalfEven_neg]
    push_cast; ring

theorem ulp_mul_pow (p : Nat) (_hp : 1 ≤ p) (e : Int) :
    (2 : ℚ) ^ p * twoPow (e - ((p : Int) - 1)) = twoPow (e + 1) := by
  rw [← twoPow_natCast, ← twoPow_add]
  congr 1; ring

theorem ulp_mul_pow' (p : Nat) (hp : 1 ≤ p) (e : Int) :
    (2 : ℚ) ^ (p - 1) * twoPow (e - ((p : Int) - 1)) = twoPow e := by
  rw [← twoPow_natCast, ← twoPow_add]
  congr 1
  have : ((p - 1 : Nat) : Int) = (p : Int) - 1 := by omega
  rw [this]; ring

theorem lt_twoPow_expOf (emin : Int) (x : ℚ) (hx : 0 < x) : x < twoPow (expOf emin x + 1) := by
  have h1 := binExp_lt x hx
  have h2 : ratAbs x = x := by rw [ratAbs_eq_abs, abs_of_pos hx]
  unfold expOf
  rw [h2]
  exact lt_of_lt_of_le h1 (twoPow_le_twoPow (by have := le_max_left (binExp x) emin; omega))

theorem rnF_nonneg (p : Nat) (emin : Int) (x : ℚ) (hx : 0 ≤ x) : 0 ≤ rnF p emin x := by
  rcases eq_or_lt_of_le hx with h | h
  · rw [← h, rnF_zero]
  · rw [rnF_eq p emin x (ne_of_gt h)]
    have hu := ulpOf_pos p emin x
    have : roundHalfEven 0 ≤ roundHalfEven (x / ulpOf p emin x) :=
      roundHalfEven_mono (le_of_lt (div_pos h hu))
    have h0 : roundHalfEven 0 = 0 := by simpa using roundHalfEven_intCast 0
    rw [h0] at this
    exact mul_nonneg (by exact_mod_cast this) (le_of_lt hu)

/-- a positive number rounds to at most the next power of two -/
theorem rnF_le_twoPow (p : Nat) (hp : 1 ≤ p) (emin : Int) (x : ℚ) (hx : 0 < x) :
    rnF p emin x ≤ twoPow (expOf emin x + 1) := by
  rw [rnF_eq p emin x (ne_of_gt hx)]
  have hu := ulpOf_pos p emin x
  have hlt := lt_twoPow_expOf emin x hx
  have hq : x / ulpOf p emin x ≤ (((2 ^ p : Nat) : Int) : ℚ) := by
    rw [div_le_iff₀ hu]
    push_cast
    unfold ulpOf
    rw [ulp_mul_pow p hp]
    exact le_of_lt hlt
  have := roundHalfEven_mono hq
  rw [roundHalfEven_intCast] at this
  have hc : ((roundHalfEven (x / ulpOf p emin x) : Int) : ℚ) ≤ (2 : ℚ) ^ p := by exact_mod_cast this
  calc ((roundHalfEven (x / ulpOf p emin x) : Int) : ℚ) * ulpOf p emin x
      ≤ (2 : ℚ) ^ p * ulpOf p emin x := mul_le_mul_of_nonneg_right hc (le_of_lt hu)
    _ = twoPow (expOf emin x + 1) := by unfold ulpOf; exact ulp_mul_pow p hp _

/-- a positive normal number rounds to at least the power of two below it -/
theorem twoPow_le_rnF (p : Nat) (hp : 1 ≤ p) (emin : Int) (x : ℚ) (hx : 0 < x)
    (hn : emin ≤ binExp x) : twoPow (binExp x) ≤ rnF p emin x := by
  rw [rnF_eq p emin x (ne_of_gt hx)]
  have hu := ulpOf_pos p emin x
  have h2 : ratAbs x = x := by rw [ratAbs_eq_abs, abs_of_pos hx]
  have he : expOf emin x = binExp x := by unfold expOf; rw [h2]; exact max_eq_left hn
  have hge := twoPow_binExp_le x hx
  have hq : (((2 ^ (p - 1) : Nat) : Int) : ℚ) ≤ x / ulpOf p emin x := by
    rw [le_div_iff₀ hu]
    push_cast
    unfold ulpOf
    rw [he, ulp_mul_pow' p hp]
    exact hge
  have := roundHalfEven_mono hq
  rw [roundHalfEven_intCast] at this
  have hc : (2 : ℚ) ^ (p - 1) ≤ ((roundHalfEven (x / ulpOf p emin x) : Int) : ℚ) := by
    exact_mod_cast this
  calc twoPow (binExp x) = (2 : ℚ) ^ (p - 1) * ulpOf p emin x := by
        unfold ulpOf; rw [he, ulp_mul_pow' p hp]
    _ ≤ _ := mul_le_mul_of_nonneg_right hc (le_of_lt hu)

theorem rnF_mono_pos (p : Nat) (hp : 1 ≤ p) (emin : Int) (x y : ℚ) (hx : 0 < x) (h : x ≤ y) :
    rnF p emin x ≤ rnF p emin y := by
  have hy : 0 < y := lt_of_lt_of_le hx h
  have ax : ratAbs x = x := by rw [ratAbs_eq_abs, abs_of_pos hx]
  have ay : ratAbs y = y := by rw [ratAbs_eq_abs, abs_of_pos hy]
  have hb := binExp_mono hx h
  have hee : expOf emin x ≤ expOf emin y := by
    unfold expOf; rw [ax, ay]; exact max_le_max hb (le_refl _)
  rcases eq_or_lt_of_le hee with heq | hlt
  · rw [rnF_eq p emin x (ne_of_gt hx), rnF_eq p emin y (ne_of_gt hy)]
    have hu : ulpOf p emin x = ulpOf p emin y := by unfold ulpOf; rw [heq]
    rw [hu]
    have hup := ulpOf_pos p emin y
    have := roundHalfEven_mono (div_le_div_of_nonneg_right h (le_of_lt hup))
    exact mul_le_mul_of_nonneg_right (by exact_mod_cast this) (le_of_lt hup)
  · have hn : emin ≤ binExp y ∧ expOf emin y = binExp y := by
      have := emin_le_expOf emin x
      unfold expOf at hlt ⊢
      rw [ay] at hlt ⊢
      rcases le_total (binExp y) emin with h' | h'
      · rw [max_eq_right h'] at hlt; unfold expOf at this; omega
      · exact ⟨h', max_eq_left h'⟩
    calc rnF p emin x ≤ twoPow (expOf emin x + 1) := rnF_le_twoPow p hp emin x hx
      _ ≤ twoPow (binExp y) := twoPow_le_twoPow (by omega)
      _ ≤ rnF p emin y := twoPow_le_rnF p hp emin y hy hn.1

/-- **the rounding is monotone** (within a binade, across binades, through zero) -/
theorem rnF_mono (p : Nat) (hp : 1 ≤ p) (emin : Int) (x y : ℚ) (h : x ≤ y) :
    rnF p emin x ≤ rnF p emin y := by
  rcases lt_trichotomy x 0 with hx | hx | hx
  · rcases lt_trichotomy y 0 with hy | hy | hy
    · have := rnF_mono_pos p hp emin (-y) (-x) (by linarith) (by linarith)
      rw [rnF_neg, rnF_neg] at this
      linarith
    · subst hy
      have := rnF_nonneg p emin (-x) (by linarith)
      rw [rnF_neg] at this
      rw [rnF_zero]; linarith
    · have h1 := rnF_nonneg p emin (-x) (by linarith)
      rw [rnF_neg] at h1
      have h2 := rnF_nonneg p emin y (le_of_lt hy)
      linarith
  · subst hx
    rw [rnF_zero]; exact rnF_nonneg p emin y h
  · exact rnF_mono_pos p hp emin x y hx h

/-- a number whose quotient by its own ulp is an integer is a fixed point -/
theorem rnF_of_int (p : Nat) (emin : Int) (z : ℚ) (n : Int) (h : z / ulpOf p emin z = (n : ℚ)) :
    rnF p emin z = z := by
  by_cases hz : z = 0
  · subst hz; exact rnF_zero p emin
  · rw [rnF_eq p emin z hz, h, roundHalfEven_intCast, ← h]
    have := ulpOf_pos p emin z
    field_simp

/-- **representable numbers are fixed**: `z = m·2^(e−p+1)`, `m ≥ 0`, `e ≥ emin`, `z ≤ 2^(e+1)` -/
theorem rnF_fixed_of (p : Nat) (hp : 1 ≤ p) (emin : Int) (z : ℚ) (m e : Int) (hm : 0 ≤ m)
    (he : emin ≤ e) (hz : z = (m : ℚ) * twoPow (e - ((p : Int) - 1))) (hle : z ≤ twoPow (e + 1)) :
    rnF p emin z = z := by
  have hz0 : 0 ≤ z := by
    rw [hz]; exact mul_nonneg (by exact_mod_cast hm) (le_of_lt (twoPow_pos _))
  rcases eq_or_lt_of_le hz0 with h0 | hpos
  · rw [← h0]; exact rnF_zero p emin
  have az : ratAbs z = z := by rw [ratAbs_eq_abs, abs_of_pos hpos]
  rcases eq_or_lt_of_le hle with htop | hlt
  · -- z = 2^(e+1): exponent e+1, quotient 2^(p-1)
    have hb : binExp z = e + 1 := by
      apply le_antisymm
      · apply binExp_le_of_lt hpos
        rw [htop]; exact twoPow_lt_twoPow_iff.2 (by omega)
      · exact le_binExp_of_le hpos (le_of_eq htop.symm)
    have hE : expOf emin z = e + 1 := by
      unfold expOf; rw [az, hb]; exact max_eq_left (by omega)
    apply rnF_of_int p emin z (((2 ^ (p - 1) : Nat) : Int))
    have hu := ulpOf_pos p emin z
    rw [div_eq_iff (ne_of_gt hu)]
    push_cast
    unfold ulpOf
    rw [hE, ulp_mul_pow' p hp, htop]
  · have hb : binExp z ≤ e := binExp_le_of_lt hpos hlt
    have hE : expOf emin z ≤ e := by unfold expOf; rw [az]; exact max_le hb he
    obtain ⟨d, hd⟩ := Int.eq_ofNat_of_zero_le (show 0 ≤ e - expOf emin z by omega)
    apply rnF_of_int p emin z (m * ((2 ^ d : Nat) : Int))
    have hu := ulpOf_pos p emin z
    rw [div_eq_iff (ne_of_gt hu)]
    push_cast
    unfold ulpOf
    rw [mul_assoc, ← twoPow_natCast, ← twoPow_add]
    have : (d : Int) + (expOf emin z - ((p : Int) - 1)) = e - ((p : Int) - 1) := by omega
    rw [this]
    exact hz

/-- **the rounding is idempotent**: every result is a fixed point -/
theorem rnF_idem (p : Nat) (hp : 1 ≤ p) (emin : Int) (x : ℚ) :
    rnF p emin (rnF p emin x) = rnF p emin x := by
  have pos : ∀ x : ℚ, 0 < x → rnF p emin (rnF p emin x) = rnF p emin x := by
    intro x hx
    have h0 : roundHalfEven 0 = 0 := by simpa using roundHalfEven_intCast 0
    have hm : 0 ≤ roundHalfEven (x / ulpOf p emin x) := by
      have := roundHalfEven_mono (le_of_lt (div_pos hx (ulpOf_pos p emin x)))
      rwa [h0] at this
    exact rnF_fixed_of p hp emin _ _ (expOf emin x) hm (emin_le_expOf emin x)
      (rnF_eq p emin x (ne_of_gt hx)) (rnF_le_twoPow p hp emin x hx)
  rcases lt_trichotomy x 0 with hx | hx | hx
  · have := pos (-x) (by linarith)
    rw [rnF_neg, rnF_neg] at this
    linarith
  · subst hx; rw [rnF_zero, rnF_zero]
  · exact pos x hx

/-- the stored `|fl s|` is a fixed point of the rounding, and non-negative -/
theorem rnF_abs_fixed (p : Nat) (hp : 1 ≤ p) (emin : Int) (x : ℚ) :
    rnF p emin (ratAbs (rnF p emin x)) = ratAbs (rnF p emin x) ∧ 0 ≤ ratAbs (rnF p emin x) := by
  refine ⟨?_, by rw [ratAbs_eq_abs]; exact abs_nonneg _⟩
  unfold ratAbs
  split
  · rw [rnF_neg, rnF_idem p hp]
  · exact rnF_idem p hp emin x

end Pyunicorn.Similarity
