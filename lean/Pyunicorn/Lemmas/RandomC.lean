import Pyunicorn.Lemmas.RandomB
/-! Helper lemmas for C17, Barabasi-Albert growth loop (core Lean only). -/
namespace Pyunicorn.Random
open Pyunicorn.Generated.ArithC17

theorem rsum_interval (m n : Nat) :
    rsum (fun b => if 1 ≤ b ∧ b < 1 + m then (1 : Int) else 0) n
      = if n ≤ 1 + m then ((n - 1 : Nat) : Int) else (m : Int) := by
  induction n with
  | zero => simp [rsum]
  | succ n ih =>
    simp only [rsum, ih]
    split <;> split <;> split <;> omega

/-- the accepted branch of `baStep`, before the end-of-round bookkeeping -/
def baLink (st : BASt) (i : Nat) : BASt :=
  { st with A := (st.A.set i st.j true).set st.j i true
            targets := st.targets.set (baStoreIdx st.nTargets st.it).toNat i
            lastChild := fun x => if x = i then st.j else st.lastChild x
            it := st.it + 1 }

def baWrap (m : Nat) (st : BASt) (st1 : BASt) : BASt :=
  { st1 with
    targets := (List.range (baFillHi st.nTargets m - baFillLo st.nTargets m).toNat).foldl
      (fun ts q => ts.set ((baFillLo st.nTargets m).toNat + q) st.j) st1.targets
    nTargets := (baNTargetsNext st.nTargets m).toNat
    j := st.j + 1
    it := 0 }

theorem baStep_cases (N m : Nat) (st st' : BASt) (idx : Nat) (h : baStep N m st idx = some st') :
    st' = st ∨ ∃ i, st.j < N ∧ st.it < m ∧ i ∈ st.targets ∧ st.lastChild i ≠ st.j ∧
      ((st.it + 1 ≠ m ∧ st' = baLink st i) ∨ (st.it + 1 = m ∧ st' = baWrap m st (baLink st i))) := by
  unfold baStep at h
  split at h
  · rename_i hg
    split at h
    · simp at h
    · rename_i i hi
      split at h
      · rename_i hlc
        split at h
        · right
          refine ⟨i, hg.1, hg.2, List.mem_of_getElem? hi, by simpa using hlc, ?_⟩
          simp only at h
          split at h
          · right; rename_i hw; exact ⟨hw, by simpa [baWrap, baLink] using h.symm⟩
          · left; rename_i hw; exact ⟨hw, by simpa [baLink] using h.symm⟩
        · simp at h
      · left; simpa using h.symm
  · left; simpa using h.symm

structure BAInv (N m : Nat) (st : BASt) : Prop where
  sym : ∀ a b, st.A a b = st.A b a
  lf : ∀ a, st.A a a = false
  hj : m + 1 ≤ st.j
  supp : ∀ a b, st.A a b = true → a ≤ st.j ∧ b ≤ st.j ∧ a < N ∧ b < N
  lc : ∀ x, st.lastChild x ≤ st.j
  child : ∀ x, st.A x st.j = true ↔ st.lastChild x = st.j
  tg : ∀ x ∈ st.targets, x < st.j
  cnt : total st.A N N = 2 * ((m * (st.j - m) + st.it : Nat) : Int)
  fin : st.it = 0 ∨ st.j < N
  /-- `n_targets = 2 m (j − m)`, `len(targets) = 2 m (N − m)`, `j ≤ N` -/
  nT : st.nTargets = 2 * m * (st.j - m)
  len : st.targets.length = 2 * m * (N - m)
  jN : st.j ≤ N

theorem mem_foldl_set (qs : List Nat) (base v : Nat) (ts : List Nat) (x : Nat)
    (h : x ∈ qs.foldl (fun ts q => ts.set (base + q) v) ts) : x ∈ ts ∨ x = v := by
  induction qs generalizing ts with
  | nil => left; simpa using h
  | cons q qs ih =>
    simp only [List.foldl_cons] at h
    rcases ih _ h with h1 | h1
    · exact List.mem_or_eq_of_mem_set h1
    · right; exact h1

theorem length_foldl_set (qs : List Nat) (base v : Nat) (ts : List Nat) :
    (qs.foldl (fun ts q => ts.set (base + q) v) ts).length = ts.length := by
  induction qs generalizing ts with
  | nil => rfl
  | cons q qs ih => simp only [List.foldl_cons]; rw [ih]; simp

/-- `2 m (a + 1) = 2 m a + 2 m` and monotonicity, the only nonlinear facts needed -/
theorem two_mul_succ (m a : Nat) : 2 * m * (a + 1) = 2 * m * a + 2 * m := Nat.mul_succ _ _
theorem two_mul_mono (m a b : Nat) (h : a ≤ b) : 2 * m * a ≤ 2 * m * b := Nat.mul_le_mul_left _ h

theorem baInv_link (N m : Nat) (st : BASt) (i : Nat) (inv : BAInv N m st)
    (hjN : st.j < N) (hi : i ∈ st.targets) (hlc : st.lastChild i ≠ st.j) :
    BAInv N m (baLink st i) := by
  obtain ⟨sym, lf, hj, supp, lc, child, tg, cnt, fin, nT, len, jN⟩ := inv
  have hij : i < st.j := tg i hi
  have hA : st.A i st.j = false := by
    have := child i; simp only [hlc, iff_false, Bool.not_eq_true] at this; exact this
  have hA' : st.A st.j i = false := by rw [sym]; exact hA
  refine ⟨?_, ?_, hj, ?_, ?_, ?_, ?_, ?_, Or.inr hjN, nT, ?_, jN⟩
  · intro a b; simp only [baLink, Adj.set]; have := sym a b; grind
  · intro a; simp only [baLink, Adj.set]; have := lf a; grind
  · intro a b; simp only [baLink, Adj.set]; have := supp a b; grind
  · intro x; simp only [baLink]; have := lc x; grind
  · intro x; simp only [baLink, Adj.set]; have := child x; grind
  · intro x hx
    simp only [baLink] at hx ⊢
    rcases List.mem_or_eq_of_mem_set hx with h | h
    · exact tg x h
    · omega
  · simp only [baLink, total_set, cnt]
    have h2 : (st.A.set i st.j true) st.j i = false := by
      simp only [Adj.set]; grind
    rw [h2, hA]
    have : i < N := by omega
    simp [*]
    omega
  · simp only [baLink, List.length_set]; exact len

theorem baInv_wrap (N m : Nat) (st st1 : BASt) (inv : BAInv N m st1) (hj : st1.j = st.j)
    (hnT : st1.nTargets = st.nTargets) (hjN : st.j < N)
    (hit : st1.it = m) : BAInv N m (baWrap m st st1) := by
  obtain ⟨sym, lf, hj', supp, lc, child, tg, cnt, fin, nT, len, jN⟩ := inv
  refine ⟨sym, lf, by simp only [baWrap]; omega, ?_, ?_, ?_, ?_, ?_, Or.inl rfl, ?_, ?_, ?_⟩
  · intro a b h; have := supp a b h; simp only [baWrap]; omega
  · intro x; have := lc x; simp only [baWrap]; omega
  · intro x
    simp only [baWrap]
    constructor
    · intro h; have := supp x _ h; omega
    · intro h; have := lc x; omega
  · intro x hx
    simp only [baWrap] at hx ⊢
    rcases mem_foldl_set _ _ _ _ _ hx with h | h
    · have := tg x h; omega
    · omega
  · simp only [baWrap]
    rw [cnt, hit, hj]
    have : st.j + 1 - m = (st.j - m) + 1 := by omega
    rw [this, Nat.mul_succ]
    simp
  · simp only [baWrap, baNTargetsNext]
    have e : st.j + 1 - m = (st.j - m) + 1 := by omega
    rw [e, two_mul_succ, ← hj, ← nT, hnT]
    omega
  · simp only [baWrap]; rw [length_foldl_set]; exact len
  · simp only [baWrap]; omega

theorem baStep_inv (N m : Nat) (st st' : BASt) (idx : Nat) (h : baStep N m st idx = some st')
    (inv : BAInv N m st) : BAInv N m st' := by
  rcases baStep_cases N m st st' idx h with rfl | ⟨i, hjN, hit, hi, hlc, ⟨_, rfl⟩ | ⟨hw, rfl⟩⟩
  · exact inv
  · exact baInv_link N m st i inv hjN hi hlc
  · exact baInv_wrap N m st _ (baInv_link N m st i inv hjN hi hlc) rfl rfl hjN (by simp [baLink, hw])

/-- **no IndexError**: in a state satisfying the invariant every index the loop body uses is
valid — `targets[idx]` for every `idx < n_targets` (what `int(uniform(0, n_targets))` can
return) and the store `targets[n_targets + it] = i`. -/
theorem baStep_defined (N m : Nat) (st : BASt) (idx : Nat) (inv : BAInv N m st)
    (hidx : idx < st.nTargets) : ∃ st', baStep N m st idx = some st' := by
  obtain ⟨-, -, hj, -, -, -, -, -, -, nT, len, jN⟩ := inv
  unfold baStep
  split
  · rename_i hg
    have hle : 2 * m * (st.j - m + 1) ≤ 2 * m * (N - m) := two_mul_mono m _ _ (by omega)
    rw [two_mul_succ] at hle
    have h1 : idx < st.targets.length := by omega
    rw [List.getElem?_eq_getElem h1]
    simp only
    split
    · have h2 : (baStoreIdx st.nTargets st.it).toNat < st.targets.length := by
        simp only [baStoreIdx]; omega
      rw [if_pos h2]
      split <;> exact ⟨_, rfl⟩
    · exact ⟨_, rfl⟩
  · exact ⟨_, rfl⟩

theorem baInit_total (N m : Nat) (hN : m + 1 ≤ N) : total (baInit N m).A N N = 2 * (m : Int) := by
  unfold total
  have hrow : ∀ a, a < N → deg (baInit N m).A N a
      = (if a = 0 then (m : Int) else 0) + (if 1 ≤ a ∧ a < 1 + m then 1 else 0) := by
    intro a ha
    unfold deg
    by_cases h0 : a = 0
    · subst h0
      have : rsum (fun j => b2i ((baInit N m).A 0 j)) N
          = rsum (fun b => if 1 ≤ b ∧ b < 1 + m then (1 : Int) else 0) N := by
        apply rsum_congr; intro j hj
        simp only [baInit, b2i, baStarLo, baStarHi]
        grind
      rw [this, rsum_interval]
      split <;> simp <;> omega
    · have : rsum (fun j => b2i ((baInit N m).A a j)) N
          = rsum (fun b => if b = 0 then (if 1 ≤ a ∧ a < 1 + m then (1 : Int) else 0) else 0) N := by
        apply rsum_congr; intro j hj
        simp only [baInit, b2i, baStarLo, baStarHi]
        grind
      rw [this, rsum_single]
      have : 0 < N := by omega
      simp [h0, this]
  rw [rsum_congr N hrow, rsum_add, rsum_single, rsum_interval]
  have : 0 < N := by omega
  split <;> split <;> omega

theorem baInit_inv (N m : Nat) (hN : m + 1 ≤ N) : BAInv N m (baInit N m) := by
  refine ⟨?_, ?_, ?_, ?_, ?_, ?_, ?_, ?_, Or.inl rfl, ?_, ?_, ?_⟩
  · intro a b; simp only [baInit, baStarLo, baStarHi]; grind
  · intro a; simp only [baInit, baStarLo, baStarHi]; grind
  · simp [baInit, baFirstNew]; omega
  · intro a b; simp only [baInit, baStarLo, baStarHi, baFirstNew]; grind
  · intro x; simp [baInit]
  · intro x; simp only [baInit, baStarLo, baStarHi, baFirstNew]; grind
  · intro x hx
    simp only [baInit, List.mem_map, List.mem_range] at hx ⊢
    obtain ⟨p, -, rfl⟩ := hx
    by_cases hc : baInitLo (m : Int) ≤ (p : Int) ∧ (p : Int) < baInitHi (m : Int)
    · rw [if_pos hc]; simp only [baInitLo, baInitHi, baFirstNew] at hc ⊢; omega
    · rw [if_neg hc]; simp only [baFirstNew]; omega
  · rw [baInit_total N m hN]
    have e : ((1 : Int) + (m : Int)).toNat - m = 1 := by omega
    simp only [baInit, baFirstNew, e]
    omega
  · simp only [baInit, baNTargets0, baFirstNew]
    have : ((1 : Int) + (m : Int)).toNat - m = 1 := by omega
    rw [this]; omega
  · simp only [baInit, List.length_map, List.length_range, baTargetsLen]
    have h : ((N - m : Nat) : Int) = (N : Int) - (m : Int) := by omega
    rw [← h]
    have : (2 : Int) * (m : Int) * ((N - m : Nat) : Int) = ((2 * m * (N - m) : Nat) : Int) := by
      simp
    rw [this]; exact Int.toNat_natCast _
  · simp only [baInit, baFirstNew]; omega


end Pyunicorn.Random
