import Pyunicorn.Model.LineDist
/-! Helper lemmas for C08 (core Lean only). -/
namespace Pyunicorn.LineDist

theorem subspace_nomv (cells : List (Bool × Bool)) (k : Nat) (hist : List Nat) :
    subspace false cells ⟨k, false, hist⟩
      = ⟨0, false, (runsAux k (cells.map (·.1))).foldl bump hist⟩ := by
  induction cells generalizing k hist with
  | nil =>
    by_cases hk : k = 0 <;> simp [subspace, endSub, runsAux, hk]
  | cons c t ih =>
    obtain ⟨line, miss⟩ := c
    cases line
    · by_cases hk : k = 0
      · subst hk
        have := ih 0 hist
        simpa [subspace, cell, stepLine, runsAux] using this
      · have := ih 0 (bump hist k)
        simpa [subspace, cell, stepLine, runsAux, hk] using this
    · have := ih (k + 1) hist
      simpa [subspace, cell, stepLine, runsAux] using this

theorem foldl_subspace_nomv (subs : List (List (Bool × Bool))) (hist : List Nat) :
    (subs.foldl (fun s cs => subspace false cs s) ⟨0, false, hist⟩)
      = ⟨0, false, (subs.flatMap fun cs => runs (cs.map (·.1))).foldl bump hist⟩ := by
  induction subs generalizing hist with
  | nil => simp
  | cons cs t ih =>
    simp only [List.foldl_cons, subspace_nomv, List.flatMap_cons, List.foldl_append, runs]
    exact ih _

/-- with missing values; `mf → k = 0` is an invariant of the kernel -/
theorem subspace_mv (cells : List (Bool × Bool)) (k : Nat) (mf : Bool) (hist : List Nat)
    (hinv : mf = true → k = 0) :
    subspace true cells ⟨k, mf, hist⟩
      = ⟨0, false, (runsMVAux k mf cells).foldl bump hist⟩ := by
  induction cells generalizing k mf hist with
  | nil =>
    cases mf
    · by_cases hk : k = 0 <;> simp [subspace, endSub, runsMVAux, hk]
    · have := hinv rfl; subst this
      simp [subspace, endSub, runsMVAux]
  | cons c t ih =>
    obtain ⟨line, miss⟩ := c
    cases miss
    · cases mf
      · cases line
        · by_cases hk : k = 0
          · subst hk
            have := ih 0 false hist (by simp)
            simpa [subspace, cell, stepLine, runsMVAux] using this
          · have := ih 0 false (bump hist k) (by simp)
            simpa [subspace, cell, stepLine, runsMVAux, hk] using this
        · have := ih (k + 1) false hist (by simp)
          simpa [subspace, cell, stepLine, runsMVAux] using this
      · have hk := hinv rfl; subst hk
        cases line
        · have := ih 0 false hist (by simp)
          simpa [subspace, cell, stepLine, runsMVAux] using this
        · have := ih 0 true hist (by simp)
          simpa [subspace, cell, stepLine, runsMVAux] using this
    · have := ih 0 true hist (by simp)
      simpa [subspace, cell, stepLine, runsMVAux] using this

theorem foldl_subspace_mv (subs : List (List (Bool × Bool))) (hist : List Nat) :
    (subs.foldl (fun s cs => subspace true cs s) ⟨0, false, hist⟩)
      = ⟨0, false, (subs.flatMap runsMV).foldl bump hist⟩ := by
  induction subs generalizing hist with
  | nil => simp
  | cons cs t ih =>
    simp only [List.foldl_cons, List.flatMap_cons, List.foldl_append, runsMV]
    rw [subspace_mv cs 0 false hist (by simp)]
    exact ih _

/-! weighted sums -/

theorem length_bump (hist : List Nat) (k : Nat) : (bump hist k).length = hist.length := by
  simp [bump]

theorem wsumFrom_modify (hist : List Nat) (i j : Nat) (h : j < hist.length) :
    wsumFrom i (hist.modify j (· + 1)) = wsumFrom i hist + (i + j + 1) := by
  induction hist generalizing i j with
  | nil => simp at h
  | cons a t ih =>
    cases j with
    | zero => simp [wsumFrom, Nat.mul_add]; omega
    | succ j =>
      have hj : j < t.length := by simpa using h
      simp [wsumFrom, ih (i + 1) j hj]; omega

theorem wsum_bump (hist : List Nat) (k : Nat) (h1 : 1 ≤ k) (h2 : k ≤ hist.length) :
    wsum (bump hist k) = wsum hist + k := by
  unfold wsum bump
  rw [wsumFrom_modify hist 0 (k - 1) (by omega)]
  omega

theorem wsum_foldl_bump (ls : List Nat) (hist : List Nat)
    (h : ∀ l ∈ ls, 1 ≤ l ∧ l ≤ hist.length) :
    wsum (ls.foldl bump hist) = wsum hist + ls.sum := by
  induction ls generalizing hist with
  | nil => simp
  | cons a t ih =>
    have ha := h a (by simp)
    simp only [List.foldl_cons, List.sum_cons]
    rw [ih (bump hist a) (by
      intro l hl
      have := h l (by simp [hl])
      simpa [length_bump] using this)]
    rw [wsum_bump hist a ha.1 ha.2]
    omega

theorem wsumFrom_replicate (i n : Nat) : wsumFrom i (List.replicate n 0) = 0 := by
  induction n generalizing i with
  | zero => simp [wsumFrom]
  | succ n ih => simp [List.replicate_succ, wsumFrom, ih]

theorem runsAux_bounds (k : Nat) (l : List Bool) :
    ∀ x ∈ runsAux k l, 1 ≤ x ∧ x ≤ k + l.length := by
  induction l generalizing k with
  | nil =>
    intro x hx
    by_cases hk : k = 0 <;> simp [runsAux, hk] at hx
    omega
  | cons b t ih =>
    intro x hx
    cases b
    · by_cases hk : k = 0
      · simp [runsAux, hk] at hx
        have := ih 0 x hx
        simp; omega
      · simp [runsAux, hk] at hx
        rcases hx with rfl | hx
        · simp; omega
        · have := ih 0 x hx
          simp; omega
    · simp [runsAux] at hx
      have := ih (k + 1) x hx
      simp; omega

theorem runsAux_sum (k : Nat) (l : List Bool) :
    (runsAux k l).sum = k + l.count true := by
  induction l generalizing k with
  | nil => by_cases hk : k = 0 <;> simp [runsAux, hk]
  | cons b t ih =>
    cases b
    · by_cases hk : k = 0
      · simp [runsAux, hk, ih]
      · simp [runsAux, hk, ih]
    · simp [runsAux, ih]; omega

theorem runs_sum (l : List Bool) : (runs l).sum = l.count true := by
  simp [runs, runsAux_sum]

theorem runs_bounds (l : List Bool) : ∀ x ∈ runs l, 1 ≤ x ∧ x ≤ l.length := by
  intro x hx
  have := runsAux_bounds 0 l x hx
  omega

/-! the four equations that characterise `runs` as "maximal runs of true" -/

theorem runsAux_replicate_true (k a : Nat) (l : List Bool) :
    runsAux k (List.replicate a true ++ l) = runsAux (k + a) l := by
  induction a generalizing k with
  | zero => simp
  | succ a ih =>
    simp only [List.replicate_succ, List.cons_append, runsAux]
    rw [ih]; congr 1; omega

end Pyunicorn.LineDist
