import Pyunicorn.Model.MemoNested
import Pyunicorn.Lemmas.Memo
/-! Invariant of the nested memoisation machine (core Lean only). -/
namespace Pyunicorn.Memo

theorem flatMap_congr' {α β} (l : List α) (f g : α → List β) (h : ∀ x ∈ l, f x = g x) :
    l.flatMap f = l.flatMap g := by
  induction l with
  | nil => rfl
  | cons x xs ih =>
    simp only [List.flatMap_cons]
    rw [h x (by simp), ih (fun y hy => h y (by simp [hy]))]

/-! ### fuel independence -/

theorem closure_fuel (t : NTable) : ∀ f1 f2 mi a, mi < f1 → mi < f2 →
    closure t f1 mi a = closure t f2 mi a := by
  intro f1
  induction f1 with
  | zero => intro f2 mi a h; omega
  | succ k ih =>
    intro f2 mi a h1 h2
    cases f2 with
    | zero => omega
    | succ j =>
      simp only [closure]
      cases hm : t.methods[mi]? with
      | none => rfl
      | some m =>
        simp only
        congr 1
        apply flatMap_congr'
        intro nc _
        by_cases hlt : nc.1 < mi
        · simp only [hlt, if_true]; exact ih j nc.1 nc.2 (by omega) (by omega)
        · simp only [hlt, if_false]

theorem deepVal_fuel (t : NTable) (st : Nat → Nat) : ∀ f1 f2 mi a, mi < f1 → mi < f2 →
    deepVal t st f1 mi a = deepVal t st f2 mi a := by
  intro f1
  induction f1 with
  | zero => intro f2 mi a h; omega
  | succ k ih =>
    intro f2 mi a h1 h2
    cases f2 with
    | zero => omega
    | succ j =>
      simp only [deepVal]
      cases hm : t.methods[mi]? with
      | none => rfl
      | some m =>
        simp only
        congr 2
        apply flatMap_congr'
        intro nc _
        by_cases hlt : nc.1 < mi
        · simp only [hlt, if_true]; exact ih j nc.1 nc.2 (by omega) (by omega)
        · simp only [hlt, if_false]

/-- the value depends on the stamps of the closure only -/
theorem deepVal_congr (t : NTable) (st st' : Nat → Nat) : ∀ fuel mi a,
    (∀ x ∈ closure t fuel mi a, st x = st' x) →
    deepVal t st fuel mi a = deepVal t st' fuel mi a := by
  intro fuel
  induction fuel with
  | zero => intro mi a _; rfl
  | succ k ih =>
    intro mi a h
    simp only [deepVal]
    simp only [closure] at h
    cases hm : t.methods[mi]? with
    | none => rfl
    | some m =>
      simp only [hm] at h
      simp only
      congr 1
      have hd : (m.bodyOf a).direct.map st = (m.bodyOf a).direct.map st' :=
        List.map_inj_left.mpr fun x hx => h x (by simp [hx])
      rw [hd]
      congr 1
      apply flatMap_congr'
      intro nc hnc
      by_cases hlt : nc.1 < mi
      · simp only [hlt, if_true]
        apply ih
        intro x hx
        apply h x
        simp only [List.mem_append, List.mem_flatMap]
        exact Or.inr ⟨nc, hnc, by simp only [hlt, if_true]; exact hx⟩
      · simp only [hlt, if_false]

/-! ### the bounded cache only ever forgets -/

theorem mem_trimGo (k : Nat) : ∀ (c : List Entry) (cnt : Nat → Nat) (e : Entry),
    e ∈ trimGo k c cnt → e ∈ c := by
  intro c
  induction c with
  | nil => intro cnt e h; simp [trimGo] at h
  | cons x xs ih =>
    intro cnt e h
    simp only [trimGo] at h
    split at h
    · simp only [List.mem_cons] at h ⊢
      rcases h with rfl | h
      · exact Or.inl rfl
      · exact Or.inr (ih _ e h)
    · exact List.mem_cons_of_mem _ (ih _ e h)

theorem mem_lruTrim (ms : Option Nat) (c : List Entry) (e : Entry) (h : e ∈ lruTrim ms c) :
    e ∈ c := by
  cases ms with
  | none => exact h
  | some k => exact mem_trimGo k c _ e h

theorem mem_touch (e x : Entry) (c : List Entry) (he : e ∈ c) (h : x ∈ touch e c) : x ∈ c := by
  simp only [touch, List.mem_cons] at h
  rcases h with rfl | h
  · exact he
  · exact List.mem_of_mem_erase h

/-! ### the invariant -/

/-- every stored entry is the value a fresh object computed under some snapshot
`(c0, st0)` that is related to the present as in the flat machine, for the **closure** of
the call -/
def NInv (t : NTable) (s : State) : Prop :=
  (∀ f, s.stamp f ≤ s.clock) ∧
  ∀ e ∈ s.cache, ∀ m, t.methods[e.m]? = some m →
    ∃ c0 st0, e.kctr = m.keyCtrs.map c0 ∧ e.kfld = m.keyFlds.map st0 ∧
      e.val = deepVal t st0 (e.m + 1) e.m e.arg ∧ Rel (flatMethod t e.m e.arg) c0 st0 s

theorem ninv_init (t : NTable) : NInv t State.init := by
  constructor
  · intro f; simp [State.init]
  · intro e he; simp [State.init] at he

/-- same fields, counters and clock; the cache may differ -/
def SameFields (s s' : State) : Prop :=
  s'.stamp = s.stamp ∧ s'.ctr = s.ctr ∧ s'.clock = s.clock

theorem rel_sameFields (m : Method) (c0 st0 : Nat → Nat) (s s' : State) (h : SameFields s s')
    (hr : Rel m c0 st0 s) : Rel m c0 st0 s' := by
  obtain ⟨h1, h2, _⟩ := h
  unfold Rel at hr ⊢
  rw [h1, h2]; exact hr

/-- an invariant state whose cache is replaced by a sub-collection of entries -/
theorem ninv_sub (t : NTable) (s s' : State) (h : NInv t s) (hf : SameFields s s')
    (hsub : ∀ e ∈ s'.cache, e ∈ s.cache) : NInv t s' := by
  obtain ⟨hclk, hent⟩ := h
  refine ⟨?_, ?_⟩
  · intro f; rw [hf.1, hf.2.2]; exact hclk f
  · intro e he m hm
    obtain ⟨c0, st0, e1, e2, e3, hrel⟩ := hent e (hsub e he) m hm
    exact ⟨c0, st0, e1, e2, e3, rel_sameFields _ c0 st0 s s' hf hrel⟩

/-- what `nquery` guarantees -/
def QPost (t : NTable) (s : State) (mi a : Nat) (r : NRes) : Prop :=
  NInv t r.state ∧ SameFields s r.state ∧ r.val = deepVal t s.stamp (mi + 1) mi a

theorem ncalls_post (t : NTable) (q : State → Nat → Nat → NRes) (mi : Nat) (st : Nat → Nat)
    (fuel : Nat) (hfuel : mi ≤ fuel)
    (hq : ∀ s n c, n < mi → NInv t s → QPost t s n c (q s n c)) :
    ∀ (calls : List (Nat × Nat)) (s : State), NInv t s → s.stamp = st →
      NInv t (ncalls q mi calls s).state ∧ SameFields s (ncalls q mi calls s).state ∧
      (ncalls q mi calls s).val =
        calls.flatMap fun nc => if nc.1 < mi then deepVal t st fuel nc.1 nc.2 else [] := by
  intro calls
  induction calls with
  | nil => intro s h _; exact ⟨h, ⟨rfl, rfl, rfl⟩, rfl⟩
  | cons nc rest ih =>
    intro s h hst
    simp only [ncalls]
    by_cases hlt : nc.1 < mi
    · simp only [hlt, if_true, List.flatMap_cons]
      obtain ⟨hi, hsf, hv⟩ := hq s nc.1 nc.2 hlt h
      have hst' : (q s nc.1 nc.2).state.stamp = st := by rw [hsf.1]; exact hst
      obtain ⟨hi2, hsf2, hv2⟩ := ih (q s nc.1 nc.2).state hi hst'
      refine ⟨hi2, ⟨?_, ?_, ?_⟩, ?_⟩
      · rw [hsf2.1, hsf.1]
      · rw [hsf2.2.1, hsf.2.1]
      · rw [hsf2.2.2, hsf.2.2]
      · rw [hv, hv2, hst]
        congr 1
        exact deepVal_fuel t st _ _ _ _ (by omega) (by omega)
    · simp only [hlt, if_false, List.flatMap_cons, List.nil_append]
      exact ih s h hst

theorem nquery_post (t : NTable) : ∀ fuel s mi a, mi < fuel → NInv t s →
    QPost t s mi a (nquery t fuel s mi a) := by
  intro fuel
  induction fuel with
  | zero => intro s mi a h; omega
  | succ k ih =>
    intro s mi a hfuel hinv
    simp only [nquery]
    cases hm : t.methods[mi]? with
    | none =>
      refine ⟨hinv, ⟨rfl, rfl, rfl⟩, ?_⟩
      simp [deepVal, hm]
    | some m =>
      simp only
      cases hf : findEntry s.cache mi a (m.keyOf s) with
      | some e =>
        simp only
        have hfound := List.find?_some hf
        have hmem := List.mem_of_find?_eq_some hf
        refine ⟨?_, ⟨rfl, rfl, rfl⟩, ?_⟩
        · exact ninv_sub t s _ hinv ⟨rfl, rfl, rfl⟩ (fun x hx => mem_touch e x s.cache hmem hx)
        · simp only [Bool.and_eq_true, beq_iff_eq, NMethod.keyOf] at hfound
          obtain ⟨⟨⟨hmi, harg⟩, hk1⟩, hk2⟩ := hfound
          have hm' : t.methods[e.m]? = some m := by rw [hmi]; exact hm
          obtain ⟨c0, st0, e1, e2, e3, -, -, h3⟩ := hinv.2 e hmem m hm'
          have hfm : flatMethod t e.m e.arg = ⟨closure t (mi + 1) mi a, m.keyCtrs, m.keyFlds⟩ := by
            simp only [flatMethod, hmi, harg, hm]
          rw [hfm] at h3
          have hk0 : ∀ c ∈ m.keyCtrs, c0 c = s.ctr c := by
            rw [e1] at hk1; exact fun c hc => (List.map_inj_left.mp hk1) c hc
          have hf0 : ∀ f ∈ m.keyFlds, st0 f = s.stamp f := by
            rw [e2] at hk2; exact fun f hf' => (List.map_inj_left.mp hk2) f hf'
          rw [e3, hmi, harg]
          exact deepVal_congr t st0 s.stamp (mi + 1) mi a (h3 hk0 hf0)
      | none =>
        simp only
        have hq : ∀ s' n c, n < mi → NInv t s' →
            QPost t s' n c ((fun s' n c => nquery t k s' n c) s' n c) :=
          fun s' n c hn hi => ih s' n c (by omega) hi
        obtain ⟨hi, hsf, hv⟩ := ncalls_post t _ mi s.stamp mi (Nat.le_refl _) hq
          (m.bodyOf a).calls s hinv rfl
        have hval : a :: ((m.bodyOf a).direct.map s.stamp ++
            (ncalls (fun s' n c => nquery t k s' n c) mi (m.bodyOf a).calls s).val) =
            deepVal t s.stamp (mi + 1) mi a := by
          rw [hv]; simp only [deepVal, hm]
        refine ⟨?_, ⟨hsf.1, hsf.2.1, hsf.2.2⟩, hval⟩
        refine ⟨?_, ?_⟩
        · intro f; exact hi.1 f
        · intro e he m' hm'
          have he' := mem_lruTrim _ _ e he
          simp only [List.mem_cons] at he'
          rcases he' with rfl | he'
          · simp only at hm'
            rw [hm] at hm'
            obtain rfl := Option.some.inj hm'
            refine ⟨s.ctr, s.stamp, rfl, rfl, hval, ?_⟩
            exact rel_sameFields _ _ _ s _ ⟨hsf.1, hsf.2.1, hsf.2.2⟩ (rel_refl _ s)
          · obtain ⟨c0, st0, e1, e2, e3, hrel⟩ := hi.2 e he' m' hm'
            exact ⟨c0, st0, e1, e2, e3, hrel⟩

/-! ### mutators: `wf` of the flattened table covers every stored entry -/

theorem bodyOf_ge (m : NMethod) (a : Nat) (h : m.bodies.length ≤ a) :
    m.bodyOf a = m.bodyOf m.bodies.length := by
  simp only [NMethod.bodyOf]
  rw [List.getElem?_eq_none h, List.getElem?_eq_none (Nat.le_refl _)]

theorem flatMethod_ge (t : NTable) (mi a : Nat) (m : NMethod) (hm : t.methods[mi]? = some m)
    (h : m.bodies.length ≤ a) : flatMethod t mi a = flatMethod t mi m.bodies.length := by
  simp only [flatMethod, hm, closure, bodyOf_ge m a h]

theorem flatMethod_mem (t : NTable) (mi a : Nat) (m : NMethod) (hm : t.methods[mi]? = some m) :
    flatMethod t mi a ∈ t.flatten.methods := by
  have hlt : mi < t.methods.length := by
    rcases Nat.lt_or_ge mi t.methods.length with h | h
    · exact h
    · rw [List.getElem?_eq_none h] at hm; cases hm
  simp only [NTable.flatten, List.mem_flatMap, List.mem_range]
  refine ⟨mi, hlt, ?_⟩
  simp only [hm, List.mem_map, NMethod.patterns, List.mem_range]
  rcases Nat.lt_or_ge a m.bodies.length with h | h
  · exact ⟨a, by omega, rfl⟩
  · exact ⟨m.bodies.length, by omega, (flatMethod_ge t mi a m hm h).symm⟩

theorem ninv_step (t : NTable) (hwf : nwf t = true) (s : State) (op : Op) (h : NInv t s) :
    NInv t (nstep t s op).1 ∧ (∀ r c, (nstep t s op).2 = some (r, c) → r = c) := by
  have hwf' : wf t.flatten = true := by
    simp only [nwf, Bool.and_eq_true] at hwf; exact hwf.2
  cases op with
  | mutate o =>
    simp only [nstep]
    cases ho : t.mutators[o]? with
    | none => exact ⟨h, by simp⟩
    | some mu =>
      obtain ⟨hclk, hent⟩ := h
      refine ⟨⟨?_, ?_⟩, by simp⟩
      · intro f
        simp only [applyMut]
        have := hclk f
        split <;> omega
      · intro e he m hm
        obtain ⟨c0, st0, e1, e2, e3, hrel⟩ := hent e he m hm
        have hmu : mu ∈ t.flatten.mutators := List.mem_of_getElem? ho
        obtain ⟨hcov, hres⟩ := wf_covered t.flatten hwf' _ mu (flatMethod_mem t e.m e.arg m hm) hmu
        exact ⟨c0, st0, e1, e2, e3, rel_applyMut _ mu c0 st0 s hclk hcov hres hrel⟩
  | evict i =>
    simp only [nstep]
    refine ⟨ninv_sub t s _ h ⟨rfl, rfl, rfl⟩ ?_, by simp⟩
    intro e he
    exact List.mem_of_mem_eraseIdx he
  | query mi a =>
    simp only [nstep]
    by_cases hlt : mi < t.methods.length
    · simp only [hlt, if_true]
      obtain ⟨hi, _, hv⟩ := nquery_post t (mi + 1) s mi a (by omega) h
      refine ⟨hi, ?_⟩
      intro r c hrc
      simp only [Option.some.injEq, Prod.mk.injEq] at hrc
      obtain ⟨rfl, rfl⟩ := hrc
      exact hv
    · simp only [hlt, if_false]
      exact ⟨h, by simp⟩

/-! ### calls that raise (round 4) -/

theorem sameFields_trans {s1 s2 s3 : State} (h1 : SameFields s1 s2) (h2 : SameFields s2 s3) :
    SameFields s1 s3 :=
  ⟨by rw [h2.1, h1.1], by rw [h2.2.1, h1.2.1], by rw [h2.2.2, h1.2.2]⟩

theorem nabort_inv (t : NTable) : ∀ fuel s mi a path, mi < fuel → NInv t s →
    NInv t (nabort t fuel s mi a path) ∧ SameFields s (nabort t fuel s mi a path) := by
  intro fuel
  induction fuel with
  | zero => intro s mi a path h; omega
  | succ f ih =>
    intro s mi a path hfuel hinv
    cases path with
    | nil => exact ⟨by simpa [nabort] using hinv, by simp [nabort, SameFields]⟩
    | cons k rest =>
      simp only [nabort]
      cases hm : t.methods[mi]? with
      | none => exact ⟨hinv, rfl, rfl, rfl⟩
      | some m =>
        simp only
        cases hf : findEntry s.cache mi a (m.keyOf s) with
        | some e => exact ⟨hinv, rfl, rfl, rfl⟩
        | none =>
          simp only
          have hq : ∀ s' n c, n < mi → NInv t s' →
              QPost t s' n c ((fun s' n c => nquery t f s' n c) s' n c) :=
            fun s' n c hn hi => nquery_post t f s' n c (by omega) hi
          obtain ⟨hi, hsf, -⟩ := ncalls_post t _ mi s.stamp mi (Nat.le_refl _) hq
            ((m.bodyOf a).calls.take k) s hinv rfl
          cases rest with
          | nil => exact ⟨hi, hsf⟩
          | cons k' rest' =>
            cases hc : (m.bodyOf a).calls[k]? with
            | none => exact ⟨hi, hsf⟩
            | some nc =>
              simp only
              by_cases hlt : nc.1 < mi
              · simp only [hlt, if_true]
                obtain ⟨h1, h2⟩ := ih _ nc.1 nc.2 (k' :: rest') (by omega) hi
                exact ⟨h1, sameFields_trans hsf h2⟩
              · simp only [hlt, if_false]
                exact ⟨hi, hsf⟩

theorem xinv_step (t : NTable) (hwf : nwf t = true) (s : State) (op : XOp) (h : NInv t s) :
    NInv t (xstep t s op).1 ∧ (∀ r c, (xstep t s op).2 = some (r, c) → r = c) := by
  cases op with
  | op o => exact ninv_step t hwf s o h
  | raises mi a path =>
    exact ⟨(nabort_inv t (mi + 1) s mi a path (Nat.lt_succ_self _) h).1, fun r c hrc => by
      simp [xstep] at hrc⟩

end Pyunicorn.Memo
