import Pyunicorn.Lemmas.CrossWhole
import Pyunicorn.Lemmas.CrossBetw
import Pyunicorn.Model.CrossCCN
/-! Helper lemmas for C11 (round 5): the two layers of a `CoupledClimateNetwork` as index lists
(cover, disjointness, slices), vectors cut into layers, column sums of a mapped block. -/
namespace Pyunicorn.CrossCCN
open Pyunicorn.Cross

theorem layers_cover {N1 N : Nat} (h : N1 ≤ N) : nodes1 N1 ++ nodes2 N1 N = List.range N := by
  unfold nodes1 nodes2
  rw [List.range_eq_range', List.range_eq_range']
  have h2 := List.range'_append_1 (s := 0) (m := N1) (n := N - N1)
  simp only [Nat.zero_add] at h2
  rw [h2]
  congr 1
  omega

theorem mem_nodes1 {N1 a : Nat} : a ∈ nodes1 N1 ↔ a < N1 := by simp [nodes1]
theorem mem_nodes2 {N1 N a : Nat} : a ∈ nodes2 N1 N ↔ N1 ≤ a ∧ a < N := by
  simp [nodes2, List.mem_range'_1]; omega
theorem nodes1_nodup (N1 : Nat) : (nodes1 N1).Nodup := List.nodup_range
theorem nodes2_nodup (N1 N : Nat) : (nodes2 N1 N).Nodup := List.nodup_range'
theorem nodes1_length (N1 : Nat) : (nodes1 N1).length = N1 := by simp [nodes1]
theorem nodes2_length (N1 N : Nat) : (nodes2 N1 N).length = N - N1 := by simp [nodes2]

theorem sliceTo_eq {N1 N : Nat} (h : N1 ≤ N) : sliceTo N N1 = nodes1 N1 := by
  simp [sliceTo, nodes1, Nat.min_eq_left h]
theorem sliceFrom_eq {N1 N : Nat} (h : N1 ≤ N) : sliceFrom N N1 = nodes2 N1 N := by
  simp [sliceFrom, nodes2, Nat.min_eq_left h]

theorem pick_cover {α : Type} [Inhabited α] {N1 N : Nat} (h : N1 ≤ N) (v : List α) (hv : v.length = N) :
    pick v (nodes1 N1) ++ pick v (nodes2 N1 N) = v := by
  unfold pick
  rw [← List.map_append, layers_cover h]
  apply List.ext_getElem
  · simp [hv]
  · intro i h1 h2
    simp [List.getD, h2]

/-- a sum over all nodes splits along a bipartition `(L1, L2)` of the node set -/
theorem sum_bipartition {α : Type} [AddCommMonoid α] {L1 L2 : List Nat} {n : Nat}
    (h : (L1 ++ L2).Perm (List.range n)) (f : Nat → α) :
    ((List.range n).map f).sum = (L1.map f).sum + (L2.map f).sum := by
  rw [← sum_perm_range h, List.map_append, List.sum_append]

/-- `np.sum(·, axis=0)` of a block given entry-wise: per column the sum over the rows -/
theorem colSums_map {α : Type} [AddCommMonoid α] (f : Nat → Nat → α) (L1 L2 : List Nat) :
    colSums L2.length (L1.map fun a => L2.map fun b => f a b)
      = L2.map fun b => (L1.map fun a => f a b).sum := by
  unfold colSums
  have key : ∀ (acc : Nat → α),
      List.foldl (fun acc r => List.zipWith (· + ·) acc r) (L2.map acc)
          (L1.map fun a => L2.map fun b => f a b)
        = L2.map fun b => acc b + (L1.map fun a => f a b).sum := by
    induction L1 with
    | nil => intro acc; simp
    | cons x t ih =>
      intro acc
      simp only [List.map_cons, List.foldl_cons, List.sum_cons]
      rw [zipWith_map_self, ih]
      apply List.map_congr_left
      intro b _
      rw [add_assoc]
  have h0 : List.replicate L2.length (0 : α) = L2.map fun _ => (0 : α) := by
    induction L2 with
    | nil => rfl
    | cons x t _ => simp [List.replicate_succ]
  rw [h0, key]
  simp

theorem sum_cast_nat (f : Nat → Nat) (L : List Nat) :
    (L.map fun b => ((f b : Nat) : Rat)).sum = (((L.map f).sum : Nat) : Rat) := by
  induction L with
  | nil => simp
  | cons x t ih => simp only [List.map_cons, List.sum_cons, Nat.cast_add, ih]

end Pyunicorn.CrossCCN
