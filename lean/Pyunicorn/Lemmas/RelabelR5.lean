import Pyunicorn.Lemmas.RelabelNet
import Pyunicorn.Lemmas.Net
/-! C04, round 5: `local_vulnerability` (C03's model: `removeNode` = igraph's `graph - i`, which
deletes vertex `i` and renumbers the later ones by shifting them down) and the cliquishness kernels
(C03's model `cliqLoop`: neighbour buffer filled in index order and kept between nodes) commute
with `permuted_copy`.

Removing node `i` from the renumbered network and removing node `idx i` from the original give two
networks on `n - 1` nodes that are renumberings of each other by the *conjugated* permutation
`removedPerm idx i = down (idx i) ∘ idx ∘ up i`, where `up i` skips the removed number and
`down j` closes the gap. -/
namespace Pyunicorn.Relabel
open Pyunicorn.Net

variable {n : Nat} {idx : Nat → Nat}

/-! ### node removal -/

/-- the old number of the node that has number `x` after vertex `i` was deleted -/
def up (i x : Nat) : Nat := if x < i then x else x + 1
/-- the number node `m ≠ j` gets when vertex `j` is deleted -/
def down (j m : Nat) : Nat := if m < j then m else m - 1

/-- the renumbering between `(G ∘ idx) − i` and `G − idx i` -/
def removedPerm (idx : Nat → Nat) (i : Nat) : Nat → Nat := fun x => down (idx i) (idx (up i x))

theorem removeNode_eq_up (a : Adj) (i x y : Nat) : removeNode a i x y = a (up i x) (up i y) := rfl

theorem up_lt {i x : Nat} (hi : i < n) (hx : x < n - 1) : up i x < n := by
  unfold up; split <;> omega

theorem up_ne (i x : Nat) : up i x ≠ i := by
  unfold up; split <;> omega

theorem up_inj {i x y : Nat} (e : up i x = up i y) : x = y := by
  unfold up at e; split at e <;> split at e <;> omega

theorem up_down {j m : Nat} (hm : m ≠ j) : up j (down j m) = m := by
  unfold up down
  by_cases h1 : m < j
  · simp [h1]
  · have h2 : ¬ m - 1 < j := by omega
    simp only [h1, if_false, h2]; omega

theorem down_lt {j m : Nat} (hj : j < n) (hm : m < n) (hne : m ≠ j) : down j m < n - 1 := by
  unfold down; split <;> omega

theorem down_inj {j m m' : Nat} (hm : m ≠ j) (hm' : m' ≠ j) (e : down j m = down j m') : m = m' := by
  unfold down at e; split at e <;> split at e <;> omega

theorem idx_up_ne (h : IsPerm n idx) {i x : Nat} (hi : i < n) (hx : x < n - 1) :
    idx (up i x) ≠ idx i := fun e => up_ne i x (h.inj (up_lt hi hx) hi e)

theorem up_removedPerm (h : IsPerm n idx) {i x : Nat} (hi : i < n) (hx : x < n - 1) :
    up (idx i) (removedPerm idx i x) = idx (up i x) := up_down (idx_up_ne h hi hx)

theorem removedPerm_lt (h : IsPerm n idx) {i x : Nat} (hi : i < n) (hx : x < n - 1) :
    removedPerm idx i x < n - 1 :=
  down_lt (h.lt hi) (h.lt (up_lt hi hx)) (idx_up_ne h hi hx)

theorem removedPerm_inj (h : IsPerm n idx) {i x y : Nat} (hi : i < n) (hx : x < n - 1)
    (hy : y < n - 1) (e : removedPerm idx i x = removedPerm idx i y) : x = y :=
  up_inj (h.inj (up_lt hi hx) (up_lt hi hy)
    (down_inj (idx_up_ne h hi hx) (idx_up_ne h hi hy) e))

/-- the conjugated renumbering is a permutation of the `n - 1` remaining nodes -/
theorem removedPerm_isPerm (h : IsPerm n idx) {i : Nat} (hi : i < n) :
    IsPerm (n - 1) (removedPerm idx i) := by
  unfold IsPerm
  have hnd : ((List.range (n - 1)).map (removedPerm idx i)).Nodup := by
    apply List.Nodup.map_on _ List.nodup_range
    intro x hx y hy e
    exact removedPerm_inj h hi (List.mem_range.mp hx) (List.mem_range.mp hy) e
  have hsub : (List.range (n - 1)).map (removedPerm idx i) ⊆ List.range (n - 1) := by
    intro m hm
    obtain ⟨x, hx, rfl⟩ := List.mem_map.mp hm
    exact List.mem_range.mpr (removedPerm_lt h hi (List.mem_range.mp hx))
  exact (List.subperm_of_subset hnd hsub).perm_of_length_le (by simp)

/-- `(G ∘ idx) − i` is `G − idx i` renumbered by the conjugated permutation -/
theorem removeNode_relabel (h : IsPerm n idx) (a : Adj) {i x y : Nat} (hi : i < n)
    (hx : x < n - 1) (hy : y < n - 1) :
    removeNode (mat a idx) i x y = mat (removeNode a (idx i)) (removedPerm idx i) x y := by
  simp only [removeNode_eq_up, mat, up_removedPerm h hi hx, up_removedPerm h hi hy]

/-! ### BFS distances only read the adjacency matrix on the nodes -/

theorem lev_congr (a a' : Adj) (e : ∀ u v, u < n → v < n → a u v = a' u v) (src d v : Nat)
    (hv : v < n) : lev n a src d v = lev n a' src d v := by
  induction d generalizing v with
  | zero => rfl
  | succ d ih =>
    simp only [lev]
    rw [ih v hv]
    have : ((List.range n).any fun u => lev n a src d u == some d && a u v)
        = (List.range n).any fun u => lev n a' src d u == some d && a' u v := by
      apply any_congr_mem
      intro u hu
      rw [ih u (List.mem_range.mp hu), e u v (List.mem_range.mp hu) hv]
    rw [this]

theorem dist_congr (a a' : Adj) (e : ∀ u v, u < n → v < n → a u v = a' u v) (i j : Nat)
    (hi : i < n) (hj : j < n) : dist n a i j = dist n a' i j := by
  rw [dist_eq_lev n a i hi j hj, dist_eq_lev n a' i hi j hj, lev_congr a a' e i n j hj]

/-- BFS distances after removing node `i` from the renumbered network are the distances after
removing node `idx i` from the original, renumbered by the conjugated permutation -/
theorem dist_removeNode_renumbered (h : IsPerm n idx) (a : Adj) {i : Nat} (hi : i < n) :
    Renumbered (n - 1) (removedPerm idx i) (dist (n - 1) (removeNode a (idx i)))
      (dist (n - 1) (removeNode (mat a idx) i)) := by
  intro x y hx hy
  rw [dist_congr (n := n - 1) (removeNode (mat a idx) i)
      (mat (removeNode a (idx i)) (removedPerm idx i))
      (fun u v hu hv => removeNode_relabel h a hi hu hv) x y hx hy]
  exact dist_relabel (removedPerm_isPerm h hi) (removeNode a (idx i)) x y hx hy

/-- efficiency of the network without node `i` -/
theorem efficiency_removeNode_relabel (h : IsPerm n idx) (a : Adj) {i : Nat} (hi : i < n) :
    globalEfficiency (n - 1) (dist (n - 1) (removeNode (mat a idx) i))
      = globalEfficiency (n - 1) (dist (n - 1) (removeNode a (idx i))) :=
  globalEfficiency_relabel (removedPerm_isPerm h hi) _ _ (dist_removeNode_renumbered h a hi)

/-- **`local_vulnerability`** of the renumbered network at node `i` = old value at `idx i`
(including the `nan` case `E = 0`) -/
theorem localVulnerability_relabel (h : IsPerm n idx) (a : Adj) {i : Nat} (hi : i < n) :
    localVulnerability n (mat a idx) i = localVulnerability n a (idx i) := by
  unfold localVulnerability
  rw [efficiency_removeNode_relabel h a hi,
    globalEfficiency_relabel h (dist n a) (dist n (mat a idx)) (dist_renumbered h a)]

/-! ### cliquishness kernels -/

theorem sumL_map (l : List Nat) (g : Nat → Nat) (f : Nat → Nat) :
    sumL (l.map g) f = sumL l fun x => f (g x) := by
  simp [sumL, List.map_map, Function.comp_def]

theorem sumL_perm {l l' : List Nat} (hp : l.Perm l') (f : Nat → Nat) : sumL l f = sumL l' f :=
  (List.Perm.map f hp).sum_eq

/-- the inner loops read the adjacency matrix at the buffered neighbours only -/
theorem counter4_mat (a : Adj) (nb : List Nat) :
    counter4 (mat a idx) nb = counter4 a (nb.map idx) := by
  simp only [counter4, sumL_map, mat]; rfl

theorem counter5_mat (a : Adj) (nb : List Nat) :
    counter5 (mat a idx) nb = counter5 a (nb.map idx) := by
  simp only [counter5, sumL_map, mat]; rfl

/-- the counts do not depend on the order in which the neighbours sit in the buffer -/
theorem counter4_perm (a : Adj) {l l' : List Nat} (hp : l.Perm l') :
    counter4 a l = counter4 a l' := by
  have e : ∀ f, sumL l f = sumL l' f := sumL_perm hp
  simp only [counter4, e]

theorem counter5_perm (a : Adj) {l l' : List Nat} (hp : l.Perm l') :
    counter5 a l = counter5 a l' := by
  have e : ∀ f, sumL l f = sumL l' f := sumL_perm hp
  simp only [counter5, e]

/-- the neighbour buffer of new node `i` holds — under the old numbers and in another order — the
neighbours of old node `idx i` -/
theorem nbrs_relabel_perm (h : IsPerm n idx) (a : Adj) (i : Nat) :
    ((nbrs n (mat a idx) i).map idx).Perm (nbrs n a (idx i)) := by
  unfold nbrs
  have : ((List.range n).filter fun j => mat a idx i j).map idx
      = ((List.range n).map idx).filter fun j => a (idx i) j := by
    rw [List.filter_map]; rfl
  rw [this]
  exact List.Perm.filter _ h

theorem nbrs_relabel_length (h : IsPerm n idx) (a : Adj) (i : Nat) :
    (nbrs n (mat a idx) i).length = (nbrs n a (idx i)).length := by
  rw [← (nbrs_relabel_perm h a i).length_eq, List.length_map]

/-- value of one node of the kernel when `degree` is the true degree: the stale part of the
buffer is never read -/
def cliqVal (order n : Nat) (a : Adj) (i : Nat) : Rat :=
  let nb := nbrs n a i
  let deg := nb.length
  if deg ≥ order - 1 then
    if order = 4 then (counter4 a nb : Rat) / ((deg * (deg - 1) * (deg - 2) : Nat) : Rat)
    else (counter5 a nb : Rat) / ((deg * (deg - 1) * (deg - 2) * (deg - 3) : Nat) : Rat)
  else 0

theorem cliqNode_val (order n : Nat) (a : Adj) (buf : List Nat) (i : Nat) :
    (cliqNode order n a (nbrs n a i).length buf i).2 = cliqVal order n a i := by
  have tf : (fillBuf buf (nbrs n a i)).take (nbrs n a i).length = nbrs n a i := by
    simp [fillBuf]
  simp only [cliqNode, cliqVal, tf]
  split <;> [split <;> rfl; rfl]

theorem cliqLoop_val (order n : Nat) (a : Adj) (buf l : List Nat) :
    cliqLoop order n a (fun i => (nbrs n a i).length) buf l = l.map (cliqVal order n a) := by
  induction l generalizing buf with
  | nil => rfl
  | cons i t ih => simp only [cliqLoop, List.map_cons, cliqNode_val, ih]

theorem cliqVal_relabel (h : IsPerm n idx) (order : Nat) (a : Adj) (i : Nat) :
    cliqVal order n (mat a idx) i = cliqVal order n a (idx i) := by
  simp only [cliqVal, nbrs_relabel_length h a i, counter4_mat, counter5_mat,
    counter4_perm a (nbrs_relabel_perm h a i), counter5_perm a (nbrs_relabel_perm h a i)]

theorem outdeg_eq_length (n : Nat) (a : Adj) (i : Nat) : outdeg n a i = (nbrs n a i).length := by
  simp only [outdeg, nbrs, sumTo_eq_sumL, sumL_b2n]

/-- **`_local_cliquishness_4thorder` / `_5thorder`** called as `local_cliquishness(order)` does
(`degree` = the row sums of `A`) on the renumbered network return the renumbered array, although
the neighbour buffer is filled in another order and keeps other stale entries between nodes -/
theorem cliquishness_relabel (h : IsPerm n idx) (order : Nat) (a : Adj) :
    cliquishness order n (mat a idx) (outdeg n (mat a idx))
      = nodeList n idx 0 (cliquishness order n a (outdeg n a)) := by
  rw [show outdeg n (mat a idx) = fun i => (nbrs n (mat a idx) i).length from
      funext (outdeg_eq_length n _),
    show outdeg n a = fun i => (nbrs n a i).length from funext (outdeg_eq_length n a)]
  unfold cliquishness
  rw [cliqLoop_val, cliqLoop_val]
  unfold nodeList
  apply List.map_congr_left
  intro v hv
  have hv' := List.mem_range.mp hv
  rw [cliqVal_relabel h, getD_map_range n _ 0 (idx v) (h.lt hv')]

end Pyunicorn.Relabel
