import Pyunicorn.Lemmas.RelabelNet
import Pyunicorn.Lemmas.RelabelR4
import Pyunicorn.Model.NetRW
/-! C04, round 5: the link-weighted (`key=`) motif clustering coefficients and
`weighted_local_clustering` of C03's model `Pyunicorn.Net` (`Model/NetRW.lean`, `Model/Net.lean`)
commute with `permuted_copy` when the link attribute is renumbered with the nodes. -/
namespace Pyunicorn.Relabel
open Pyunicorn.Net

variable {n : Nat} {idx : Nat → Nat}

theorem mmulQ_relabel (h : IsPerm n idx) (x y : RMat) :
    mmulQ n (mat x idx) (mat y idx) = mat (mmulQ n x y) idx := by
  funext i j
  exact sumToQ_perm h fun k => x (idx i) k * y k (idx j)

theorem trQ_mat (x : RMat) : trQ (mat x idx) = mat (trQ x) idx := rfl

theorem tCycleW_relabel (h : IsPerm n idx) (m : RMat) (i : Nat) :
    tCycleW n (mat m idx) i = tCycleW n m (idx i) := by
  simp only [tCycleW, mmulQ_relabel h]; rfl
theorem tMidW_relabel (h : IsPerm n idx) (m : RMat) (i : Nat) :
    tMidW n (mat m idx) i = tMidW n m (idx i) := by
  simp only [tMidW, trQ_mat, mmulQ_relabel h]; rfl
theorem tInW_relabel (h : IsPerm n idx) (m : RMat) (i : Nat) :
    tInW n (mat m idx) i = tInW n m (idx i) := by
  simp only [tInW, trQ_mat, mmulQ_relabel h]; rfl
theorem tOutW_relabel (h : IsPerm n idx) (m : RMat) (i : Nat) :
    tOutW n (mat m idx) i = tOutW n m (idx i) := by
  simp only [tOutW, trQ_mat, mmulQ_relabel h]; rfl

/-- the four `key=` motif clustering coefficients: numerator from the renumbered matrix of cubic
roots of the link attribute, denominator from the degrees of the renumbered adjacency matrix -/
theorem motifW_relabel (h : IsPerm n idx) (a : Adj) (m : RMat) (i : Nat) :
    cycleCW n (mat a idx) (mat m idx) i = cycleCW n a m (idx i) ∧
    midCW n (mat a idx) (mat m idx) i = midCW n a m (idx i) ∧
    inCW n (mat a idx) (mat m idx) i = inCW n a m (idx i) ∧
    outCW n (mat a idx) (mat m idx) i = outCW n a m (idx i) := by
  simp only [cycleCW, midCW, inCW, outCW, tCycleW_relabel h, tMidW_relabel h, tInW_relabel h,
    tOutW_relabel h, TCycle_relabel h, TIn_relabel h, TOut_relabel h, and_self]

theorem toQ_mat (a : Adj) : toQ (mat a idx) = mat (toQ a) idx := rfl

/-! ### `weighted_local_clustering`: the maximum over *all* entries, started at entry `[0, 0]` -/

/-- the nested running maximum is the running maximum over the flattened entries -/
theorem nested_max_eq (L cs : List Nat) (w : RMat) (m0 : Rat) :
    L.foldl (fun m r => cs.foldl (fun m c => max m (w r c)) m) m0
      = (L.flatMap fun r => cs.map (w r)).foldl max m0 := by
  induction L generalizing m0 with
  | nil => rfl
  | cons r t ih =>
    simp only [List.foldl_cons, List.flatMap_cons, List.foldl_append, List.foldl_map, ih]

theorem mem_entries (w : RMat) (x : Rat) :
    x ∈ ((List.range n).flatMap fun r => (List.range n).map (w r))
      ↔ ∃ r c, r < n ∧ c < n ∧ x = w r c := by
  simp only [List.mem_flatMap, List.mem_map, List.mem_range]
  constructor
  · rintro ⟨r, hr, c, hc, e⟩; exact ⟨r, c, hr, hc, e.symm⟩
  · rintro ⟨r, c, hr, hc, e⟩; exact ⟨r, hr, c, hc, e.symm⟩

/-- `wA.max()` as the code of the model computes it -/
def wMax (n : Nat) (w : RMat) : Rat :=
  (List.range n).foldl (fun m r => (List.range n).foldl (fun m c => max m (w r c)) m) (w 0 0)

theorem wMax_spec (w : RMat) (hn : 0 < n) :
    (∃ r c, r < n ∧ c < n ∧ wMax n w = w r c) ∧ ∀ r c, r < n → c < n → w r c ≤ wMax n w := by
  unfold wMax
  rw [nested_max_eq]
  obtain ⟨h1, h2⟩ := foldl_max_spec ((List.range n).flatMap fun r => (List.range n).map (w r)) (w 0 0)
  constructor
  · rcases List.mem_cons.mp h1 with e | e
    · exact ⟨0, 0, hn, hn, e⟩
    · exact (mem_entries w _).mp e
  · intro r c hr hc
    exact h2 _ (List.mem_cons_of_mem _ ((mem_entries w _).mpr ⟨r, c, hr, hc, rfl⟩))

/-- the maximal link weight does not depend on the numbering (although the running maximum
starts at another entry) -/
theorem wMax_relabel (h : IsPerm n idx) (w : RMat) (hn : 0 < n) :
    wMax n (mat w idx) = wMax n w := by
  obtain ⟨⟨r, c, hr, hc, e⟩, ub⟩ := wMax_spec (n := n) w hn
  obtain ⟨⟨r', c', hr', hc', e'⟩, ub'⟩ := wMax_spec (n := n) (mat w idx) hn
  apply le_antisymm
  · rw [e']; exact ub _ _ (h.lt hr') (h.lt hc')
  · rw [e]
    obtain ⟨p, hp, rfl⟩ := h.surj hr
    obtain ⟨q, hq, rfl⟩ := h.surj hc
    exact ub' p q hp hq

/-- **`weighted_local_clustering`** (`matrix_power(wA, 3).diagonal() / (wA · max_w · wA).diagonal()`,
`none` = `nan`) with the renumbered weight matrix -/
theorem weightedLocalClustering_relabel (h : IsPerm n idx) (w : RMat) (i : Nat) (hi : i < n) :
    weightedLocalClustering n (mat w idx) i = weightedLocalClustering n w (idx i) := by
  have hn : 0 < n := by omega
  have e := wMax_relabel h w hn
  unfold wMax at e
  unfold weightedLocalClustering
  simp only [e]
  have num : (sumToQ n fun j => sumToQ n fun k => mat w idx i j * mat w idx j k * mat w idx k i)
      = sumToQ n fun j => sumToQ n fun k => w (idx i) j * w j k * w k (idx i) := by
    apply sumToQ_relabel h (g := fun j => sumToQ n fun k => w (idx i) j * w j k * w k (idx i))
    intro j _
    exact sumToQ_relabel h _ (fun k => w (idx i) (idx j) * w (idx j) k * w k (idx i))
      (fun k _ => rfl)
  rw [num]
  generalize (List.range n).foldl (fun m r => (List.range n).foldl (fun m c => max m (w r c)) m)
    (w 0 0) = mx
  have den : (sumToQ n fun j => sumToQ n fun k => mat w idx i j * mx * mat w idx k i)
      = sumToQ n fun j => sumToQ n fun k => w (idx i) j * mx * w k (idx i) := by
    apply sumToQ_relabel h (g := fun j => sumToQ n fun k => w (idx i) j * mx * w k (idx i))
    intro j _
    exact sumToQ_relabel h _ (fun k => w (idx i) (idx j) * mx * w k (idx i))
      (fun k _ => rfl)
  rw [den]

end Pyunicorn.Relabel
