import Pyunicorn.Model.CircuitK
import Pyunicorn.Lemmas.Circuit
import Mathlib.Algebra.BigOperators.Intervals
import Mathlib.Tactic.LinearCombination
/-! C18, round 3: the circuit laws over **any field** of impedances (ℂ for `flagComplex`
networks, ℚ(i) for the executable instance), about the polymorphic model `Model/CircuitK.lean`.

Over a field without order there is no positivity / triangle inequality / path bound (they are
statements about real resistances); what survives is the algebra: the value of
`effective_resistance` is the potential drop of a unit current for every generalised inverse,
it scales linearly, Foster's identity, the series law on chains of any length, the parallel law,
and the defining sums of admittive degree / clustering — with plain (unconjugated) products. -/
namespace Pyunicorn.CircuitK
open Finset
open Pyunicorn.Circuit (Adj degree chainAdj triAdj)

variable {K : Type} [Field K]

/-! ### loops are sums -/

theorem foldl_add_range (f : Nat → K) (a : K) (n : Nat) :
    (List.range n).foldl (fun acc k => acc + f k) a = a + ∑ k ∈ range n, f k := by
  induction n with
  | zero => simp
  | succ n ih =>
    rw [List.range_succ, List.foldl_append, ih, Finset.sum_range_succ]
    simp [add_assoc]

theorem sumTo_eq (n : Nat) (f : Nat → K) : sumTo n f = ∑ k ∈ range n, f k := by
  unfold sumTo; rw [foldl_add_range]; simp

theorem foldl_nested (g : Nat → K → K) (h : Nat → K)
    (hg : ∀ t acc, g t acc = acc + h t) (a : K) (n : Nat) :
    (List.range n).foldl (fun acc t => g t acc) a = a + ∑ t ∈ range n, h t := by
  have : (fun (acc : K) t => g t acc) = fun acc t => acc + h t := by
    funext acc t; exact hg t acc
  rw [this, foldl_add_range]

/-! ### specification vocabulary over `K` -/

def SymmOn (n : Nat) (A : MatK K) : Prop := ∀ i j, i < n → j < n → A i j = A j i

def IsGinv (n : Nat) (L R : MatK K) : Prop :=
  ∀ i j, i < n → j < n → sumTo n (fun l => (sumTo n fun k => L i k * R k l) * L l j) = L i j

def IsPot (n : Nat) (L : MatK K) (v : VecK K) (a b : Nat) : Prop :=
  ∀ i, i < n → sumTo n (fun j => L i j * v j) = (if i = a then 1 else 0) - (if i = b then 1 else 0)

def IsProj (n : Nat) (L R : MatK K) : Prop :=
  ∀ i j, i < n → j < n →
    sumTo n (fun k => L i k * R k j) = (if i = j then 1 else 0) - 1 / ((n : Nat) : K)

/-- an impedance network: undirected links, symmetric non-zero impedances on the links -/
structure IsNetworkK (n : Nat) (adj : Adj) (res : MatK K) : Prop where
  adj_symm : ∀ i j, i < n → j < n → adj i j = adj j i
  res_symm : SymmOn n res
  res_ne : ∀ i j, i < n → j < n → adj i j = true → res i j ≠ 0

theorem adm_symm {n : Nat} {adj : Adj} {res : MatK K} (h : IsNetworkK n adj res) :
    SymmOn n (admittance adj res) := by
  intro i j hi hj
  unfold admittance
  rw [h.adj_symm i j hi hj, h.res_symm i j hi hj]

theorem lap_symm {n : Nat} {c : MatK K} (h : SymmOn n c) : SymmOn n (laplacian n c) := by
  intro i j hi hj
  unfold laplacian
  by_cases e : i = j
  · subst e; rfl
  · have e' : ¬ j = i := fun x => e x.symm
    simp [e, e', h i j hi hj]

/-! ### admittive degree and clustering are their defining sums (no conjugation) -/

theorem admDegree_eq_sum (n : Nat) (adm : MatK K) (i : Nat)
    (hsym : ∀ k, k < n → adm k i = adm i k) :
    admDegree n adm i = ∑ j ∈ range n, adm i j := by
  unfold admDegree colSum
  rw [sumTo_eq]
  exact Finset.sum_congr rfl fun k hk => hsym k (Finset.mem_range.mp hk)

/-- the admittive clustering coefficient over any field: the triple loop is
`Σ_j Σ_k α_ij α_ik α_jk` with the plain product of `K` -/
theorem localClustering_eq_sum (n : Nat) (adj : Adj) (adm : MatK K) (i : Nat) :
    localClustering n adj adm i
      = if degree n adj i = 1 then 0
        else (∑ j ∈ range n, ∑ k ∈ range n, adm i j * adm i k * adm j k)
              / (admDegree n adm i * ((degree n adj i : K) - 1)) := by
  unfold localClustering
  simp only
  rw [foldl_nested (h := fun j => ∑ k ∈ range n, adm i j * adm i k * adm j k)]
  · simp
  · intro j acc
    rw [foldl_add_range]

theorem globalClustering_eq_mean (n : Nat) (adj : Adj) (adm : MatK K) :
    globalClustering n adj adm = (∑ i ∈ range n, localClustering n adj adm i) / (n : K) := by
  unfold globalClustering
  rw [sumTo_eq]

/-- clustering commutes with every field homomorphism applied to the admittances — in particular
with complex conjugation: conjugating *all* admittances conjugates the result, whereas conjugating
only one factor (`np.vdot`) is not expressible by this formula -/
theorem localClustering_map {K' : Type} [Field K'] (φ : K →+* K') (n : Nat) (adj : Adj)
    (adm : MatK K) (i : Nat) :
    φ (localClustering n adj adm i) = localClustering n adj (fun a b => φ (adm a b)) i := by
  rw [localClustering_eq_sum, localClustering_eq_sum]
  split
  · simp
  · rw [map_div₀, map_mul, map_sub, map_one, map_natCast]
    unfold admDegree colSum
    simp only [sumTo_eq, map_sum, map_mul]

/-! ### bridge to Mathlib matrices -/
section bridge
open Matrix

def toM (n : Nat) (A : MatK K) : Matrix (Fin n) (Fin n) K := fun i j => A i j
def toV (n : Nat) (v : VecK K) : Fin n → K := fun i => v i

theorem sumTo_fin (n : Nat) (f : Nat → K) : sumTo n f = ∑ k : Fin n, f k := by
  rw [sumTo_eq, Finset.sum_range]

omit [Field K] in
theorem toM_symm {n : Nat} {L : MatK K} (h : SymmOn n L) : (toM n L)ᵀ = toM n L := by
  ext i j; exact h j i j.2 i.2

theorem toM_ginv {n : Nat} {L R : MatK K} (h : IsGinv n L R) :
    toM n L * toM n R * toM n L = toM n L := by
  ext i j
  have := h i j i.2 j.2
  simp only [sumTo_fin] at this
  simpa [Matrix.mul_apply, toM] using this

theorem toM_pot {n : Nat} {L : MatK K} {v : VecK K} {a b : Nat} (ha : a < n) (hb : b < n)
    (h : IsPot n L v a b) :
    toM n L *ᵥ toV n v = (Pi.single ⟨a, ha⟩ 1 - Pi.single ⟨b, hb⟩ 1 : Fin n → K) := by
  funext i
  have := h i i.2
  rw [sumTo_fin] at this
  simp only [mulVec, dotProduct, toM, toV, Pi.sub_apply, Pi.single_apply, Fin.ext_iff]
  exact this

/-- **independence of the generalised inverse over any field** -/
theorem effRes_eq_drop (n : Nat) (L R : MatK K) (v : VecK K) (a b : Nat) (ha : a < n) (hb : b < n)
    (hsym : SymmOn n L) (hg : IsGinv n L R) (hv : IsPot n L v a b) :
    effRes R a b = v a - v b := by
  by_cases hab : a = b
  · subst hab; simp [effRes]
  · have h := Pyunicorn.Circuit.ginv_quadform (toM n L) (toM n R) (toM_symm hsym) (toM_ginv hg) _ _
      (toM_pot ha hb hv)
    rw [Pyunicorn.Circuit.quad_single, Pyunicorn.Circuit.dot_single] at h
    simp only [effRes, hab, if_false]
    exact h
end bridge

theorem effRes_formula (R : MatK K) (a b : Nat) :
    effRes R a b = R a a - R a b - R b a + R b b := by
  unfold effRes
  split
  · next h => subst h; ring
  · rfl

/-! ### Laplacian, projections, Foster -/

theorem lap_mulVec (n : Nat) (c : MatK K) (v : VecK K) (i : Nat) (hi : i < n) (hs : SymmOn n c) :
    sumTo n (fun j => laplacian n c i j * v j) = ∑ j ∈ range n, c i j * (v i - v j) := by
  rw [sumTo_eq]
  unfold laplacian colSum
  simp only [sumTo_eq, sub_mul, Finset.sum_sub_distrib, ite_mul, zero_mul,
    Finset.sum_ite_eq, Finset.mem_range, hi, if_true, mul_sub]
  congr 1
  rw [Finset.sum_mul]
  refine Finset.sum_congr rfl fun k hk => ?_
  rw [hs k i (Finset.mem_range.mp hk) hi]

theorem lap_colsum (n : Nat) (c : MatK K) (j : Nat) (hj : j < n) :
    ∑ i ∈ range n, laplacian n c i j = 0 := by
  unfold laplacian colSum
  simp [sumTo_eq, Finset.sum_sub_distrib, hj]

theorem pot_of_proj (n : Nat) (L R : MatK K) (a b : Nat) (ha : a < n) (hb : b < n)
    (hp : IsProj n L R) : IsPot n L (fun i => R i a - R i b) a b := by
  intro i hi
  have h1 := hp i a hi ha
  have h2 := hp i b hi hb
  rw [sumTo_eq] at h1 h2 ⊢
  simp only [mul_sub, Finset.sum_sub_distrib, h1, h2]
  ring

theorem ginv_of_proj (n : Nat) (c R : MatK K) (hp : IsProj n (laplacian n c) R) :
    IsGinv n (laplacian n c) R := by
  intro i j hi hj
  rw [sumTo_eq]
  have : ∀ l ∈ range n, (sumTo n fun k => laplacian n c i k * R k l) * laplacian n c l j
      = ((if i = l then 1 else 0) - 1 / ((n : Nat) : K)) * laplacian n c l j := by
    intro l hl
    rw [hp i l hi (Finset.mem_range.mp hl)]
  rw [Finset.sum_congr rfl this]
  simp only [sub_mul, Finset.sum_sub_distrib, ite_mul, one_mul, zero_mul, Finset.sum_ite_eq,
    Finset.mem_range, hi, if_true, ← Finset.mul_sum, lap_colsum n c j hj]
  ring

/-- the value does not depend on the generalised inverse, given that *some* `R₀` with
`L R₀ = I − J/n` exists (over ℂ this is the non-degeneracy of the network: `rank L = n − 1`) -/
theorem effRes_ginv_unique (n : Nat) (c R R₀ : MatK K) (a b : Nat) (ha : a < n) (hb : b < n)
    (hs : SymmOn n c) (hg : IsGinv n (laplacian n c) R) (hp : IsProj n (laplacian n c) R₀) :
    effRes R a b = effRes R₀ a b := by
  have hv := pot_of_proj n _ R₀ a b ha hb hp
  rw [effRes_eq_drop n _ R _ a b ha hb (lap_symm hs) hg hv,
    effRes_eq_drop n _ R₀ _ a b ha hb (lap_symm hs) (ginv_of_proj n c R₀ hp) hv]

/-- Foster's identity over ordered pairs for every `R` with `L R = I − J/n`, in any field in which
`n ≠ 0` -/
theorem foster_ordered (n : Nat) (hn : ((n : Nat) : K) ≠ 0) (c R : MatK K) (hs : SymmOn n c)
    (hp : IsProj n (laplacian n c) R) :
    ∑ i ∈ range n, ∑ j ∈ range n, c i j * effRes R i j = 2 * ((n : K) - 1) := by
  have htr : ∑ i ∈ range n, ∑ k ∈ range n, laplacian n c i k * R k i = (n : K) - 1 := by
    have : ∀ i ∈ range n, ∑ k ∈ range n, laplacian n c i k * R k i = 1 - 1 / (n : K) := by
      intro i hi
      have := hp i i (Finset.mem_range.mp hi) (Finset.mem_range.mp hi)
      rw [sumTo_eq] at this
      simpa using this
    rw [Finset.sum_congr rfl this, Finset.sum_const, Finset.card_range]
    simp only [nsmul_eq_mul]
    field_simp
  have hexp : ∀ i ∈ range n, ∑ k ∈ range n, laplacian n c i k * R k i
      = (∑ k ∈ range n, c i k) * R i i - ∑ k ∈ range n, c i k * R k i := by
    intro i hi
    have hi' := Finset.mem_range.mp hi
    unfold laplacian colSum
    simp only [sumTo_eq, sub_mul, Finset.sum_sub_distrib, ite_mul, zero_mul, Finset.sum_ite_eq,
      Finset.mem_range, hi', if_true]
    congr 2
    exact Finset.sum_congr rfl fun k hk => hs k i (Finset.mem_range.mp hk) hi'
  rw [Finset.sum_congr rfl hexp, Finset.sum_sub_distrib] at htr
  simp only [effRes_formula, mul_add, mul_sub, Finset.sum_add_distrib, Finset.sum_sub_distrib]
  have e1 : ∑ i ∈ range n, ∑ j ∈ range n, c i j * R i i
      = ∑ i ∈ range n, (∑ k ∈ range n, c i k) * R i i :=
    Finset.sum_congr rfl fun i _ => by rw [Finset.sum_mul]
  have e4 : ∑ i ∈ range n, ∑ j ∈ range n, c i j * R j j
      = ∑ i ∈ range n, (∑ k ∈ range n, c i k) * R i i := by
    rw [Finset.sum_comm]
    refine Finset.sum_congr rfl fun i hi => ?_
    rw [Finset.sum_mul]
    exact Finset.sum_congr rfl fun k hk => by
      rw [hs k i (Finset.mem_range.mp hk) (Finset.mem_range.mp hi)]
  have e2 : ∑ i ∈ range n, ∑ j ∈ range n, c i j * R i j
      = ∑ i ∈ range n, ∑ k ∈ range n, c i k * R k i := by
    rw [Finset.sum_comm]
    refine Finset.sum_congr rfl fun i hi => Finset.sum_congr rfl fun k hk => ?_
    rw [hs k i (Finset.mem_range.mp hk) (Finset.mem_range.mp hi)]
  rw [e1, e4, e2]
  linear_combination 2 * htr

theorem sum_ordered_eq_two_lower (f : Nat → Nat → K) (n : Nat)
    (hsym : ∀ i j, i < n → j < n → f i j = f j i) (hdiag : ∀ i, i < n → f i i = 0) :
    ∑ i ∈ range n, ∑ j ∈ range n, f i j = 2 * ∑ i ∈ range n, ∑ j ∈ range i, f i j := by
  induction n with
  | zero => simp
  | succ n ih =>
    have ih' := ih (fun i j hi hj => hsym i j (by omega) (by omega)) (fun i hi => hdiag i (by omega))
    rw [Finset.sum_range_succ, Finset.sum_range_succ (fun i => ∑ j ∈ range i, f i j)]
    have h1 : ∑ i ∈ range n, ∑ j ∈ range (n + 1), f i j
        = ∑ i ∈ range n, ∑ j ∈ range n, f i j + ∑ i ∈ range n, f i n := by
      rw [← Finset.sum_add_distrib]
      exact Finset.sum_congr rfl fun i _ => Finset.sum_range_succ _ _
    have h2 : ∑ i ∈ range n, f i n = ∑ j ∈ range n, f n j :=
      Finset.sum_congr rfl fun i hi => hsym i n (by have := Finset.mem_range.mp hi; omega) (by omega)
    rw [h1, ih', h2, Finset.sum_range_succ (fun j => f n j), hdiag n (by omega)]
    ring

/-! ### scaling by a common factor -/

theorem admittance_scale (adj : Adj) (res : MatK K) (k : K) (i j : Nat) :
    admittance adj (fun i j => k * res i j) i j = (1 / k) * admittance adj res i j := by
  unfold admittance
  split
  · rw [one_div_mul_one_div_rev, mul_comm (res i j)]
  · simp

theorem laplacian_scale (n : Nat) (c : MatK K) (α : K) (i j : Nat) :
    laplacian n (fun i j => α * c i j) i j = α * laplacian n c i j := by
  unfold laplacian colSum
  simp only [sumTo_eq, ← Finset.mul_sum]
  split <;> ring

theorem pot_scale (n : Nat) (L : MatK K) (v : VecK K) (a b : Nat) (α : K) (hα : α ≠ 0)
    (hv : IsPot n L v a b) : IsPot n (fun i j => α * L i j) (fun i => v i / α) a b := by
  intro i hi
  have := hv i hi
  rw [sumTo_eq] at this ⊢
  rw [← this]
  refine Finset.sum_congr rfl fun j _ => ?_
  field_simp

/-! ### series: the chain `0 — 1 — … — (n-1)` over any field -/

def prefixRes (res : MatK K) (m : Nat) : K := ∑ k ∈ range m, res k (k + 1)

def chainPot (res : MatK K) (a b : Nat) : VecK K :=
  fun i => prefixRes res b - prefixRes res (min (max i a) b)

theorem chainPot_step (res : MatK K) (a b i : Nat) :
    chainPot res a b i - chainPot res a b (i + 1)
      = if a ≤ i ∧ i < b then res i (i + 1) else 0 := by
  unfold chainPot
  split
  · next h =>
    have e1 : min (max i a) b = i := by omega
    have e2 : min (max (i + 1) a) b = i + 1 := by omega
    rw [e1, e2]; unfold prefixRes; rw [Finset.sum_range_succ]; ring
  · next h =>
    have e : min (max (i + 1) a) b = min (max i a) b := by omega
    rw [e]; ring

theorem chain_row (n : Nat) (res : MatK K) (v : VecK K) (i : Nat) (hi : i < n) :
    ∑ j ∈ range n, admittance chainAdj res i j * (v i - v j)
      = (if i + 1 < n then 1 / res i (i + 1) * (v i - v (i + 1)) else 0)
        + (if 1 ≤ i then 1 / res i (i - 1) * (v i - v (i - 1)) else 0) := by
  have hterm : ∀ j ∈ range n, admittance chainAdj res i j * (v i - v j)
      = (if j = i + 1 then 1 / res i (i + 1) * (v i - v (i + 1)) else 0)
        + (if 1 ≤ i then (if j = i - 1 then 1 / res i (i - 1) * (v i - v (i - 1)) else 0) else 0) := by
    intro j _
    unfold admittance chainAdj
    by_cases h1 : j = i + 1
    · subst h1
      have : ¬ (i + 1 = i - 1) := by omega
      simp [this]
    · by_cases h2 : j + 1 = i
      · subst h2
        have : ¬ j = j + 1 + 1 := by omega
        simp [this]
      · have h1' : ¬ (i + 1 = j) := fun e => h1 e.symm
        have h3 : ¬ (1 ≤ i ∧ j = i - 1) := by omega
        by_cases h4 : 1 ≤ i
        · have : ¬ j = i - 1 := fun e => h3 ⟨h4, e⟩
          simp [h1, h1', h2, this]
        · simp [h1, h1', h2, h4]
  rw [Finset.sum_congr rfl hterm, Finset.sum_add_distrib]
  congr 1
  · rw [Finset.sum_ite_eq']; simp
  · split
    · next h1 =>
      rw [Finset.sum_ite_eq']
      have : i - 1 ∈ range n := Finset.mem_range.mpr (by omega)
      simp [this]
    · simp

theorem chain_isPot (n : Nat) (res : MatK K) (a b : Nat) (hab : a ≤ b) (hb : b < n)
    (hN : IsNetworkK n chainAdj res) :
    IsPot n (laplacian n (admittance chainAdj res)) (chainPot res a b) a b := by
  intro i hi
  rw [lap_mulVec n _ _ i hi (adm_symm hN), chain_row n res _ i hi]
  have hne : ∀ k, k + 1 < n → res k (k + 1) ≠ 0 := fun k hk =>
    hN.res_ne k (k + 1) (by omega) hk (by simp [chainAdj])
  have hA : (if i + 1 < n then 1 / res i (i + 1) * (chainPot res a b i - chainPot res a b (i + 1)) else 0)
      = if a ≤ i ∧ i < b then (1 : K) else 0 := by
    rw [chainPot_step]
    by_cases h : a ≤ i ∧ i < b
    · have h1 : i + 1 < n := by omega
      simp only [h, h1, and_self, if_true]
      field_simp [hne i h1]
    · have : ¬ (a ≤ i ∧ i < b) := h
      simp [this]
  have hB : (if 1 ≤ i then 1 / res i (i - 1) * (chainPot res a b i - chainPot res a b (i - 1)) else 0)
      = if a + 1 ≤ i ∧ i < b + 1 then (-1 : K) else 0 := by
    by_cases h1 : 1 ≤ i
    · obtain ⟨k, rfl⟩ : ∃ k, i = k + 1 := ⟨i - 1, by omega⟩
      have hk : k + 1 < n := hi
      have hs : res (k + 1) k = res k (k + 1) := hN.res_symm (k + 1) k hi (by omega)
      have hstep := chainPot_step res a b k
      simp only [Nat.add_sub_cancel, h1, if_true, hs]
      have : chainPot res a b (k + 1) - chainPot res a b k
          = -(if a ≤ k ∧ k < b then res k (k + 1) else 0) := by rw [← hstep]; ring
      rw [this]
      by_cases h : a ≤ k ∧ k < b
      · have h' : a + 1 ≤ k + 1 ∧ k + 1 < b + 1 := by omega
        simp only [h, h', and_self, if_true]
        field_simp [hne k hk]
      · have h' : ¬ (a + 1 ≤ k + 1 ∧ k + 1 < b + 1) := by omega
        rw [if_neg h, if_neg h']; simp
    · have h' : ¬ (a + 1 ≤ i ∧ i < b + 1) := by omega
      rw [if_neg h1, if_neg h']
  rw [hA, hB]
  by_cases e1 : i = a <;> by_cases e2 : i = b
  · have h : ¬ (a ≤ i ∧ i < b) := by omega
    have h' : ¬ (a + 1 ≤ i ∧ i < b + 1) := by omega
    rw [if_neg h, if_neg h', if_pos e1, if_pos e2]; ring
  · have h : (a ≤ i ∧ i < b) := by omega
    have h' : ¬ (a + 1 ≤ i ∧ i < b + 1) := by omega
    rw [if_pos h, if_neg h', if_pos e1, if_neg e2]; ring
  · have h : ¬ (a ≤ i ∧ i < b) := by omega
    have h' : (a + 1 ≤ i ∧ i < b + 1) := by omega
    rw [if_neg h, if_pos h', if_neg e1, if_pos e2]; ring
  · by_cases h : a ≤ i ∧ i < b
    · have h' : (a + 1 ≤ i ∧ i < b + 1) := by omega
      rw [if_pos h, if_pos h', if_neg e1, if_neg e2]; ring
    · have h' : ¬ (a + 1 ≤ i ∧ i < b + 1) := by omega
      rw [if_neg h, if_neg h', if_neg e1, if_neg e2]; ring

theorem chainPot_drop (res : MatK K) (a b : Nat) (hab : a ≤ b) :
    chainPot res a b a - chainPot res a b b = ∑ k ∈ Finset.Ico a b, res k (k + 1) := by
  unfold chainPot
  have e1 : min (max a a) b = a := by omega
  have e2 : min (max b a) b = b := by omega
  rw [e1, e2, Finset.sum_Ico_eq_sub _ hab]
  unfold prefixRes
  ring

/-! ### parallel: a link `0 — 1` beside the branch `0 — 2 — 1` -/

theorem parallel_pot (res : MatK K) (h01 : res 0 1 ≠ 0) (h02 : res 0 2 ≠ 0) (h21 : res 2 1 ≠ 0)
    (hsum : res 0 1 + res 0 2 + res 2 1 ≠ 0)
    (hs1 : res 1 0 = res 0 1) (hs2 : res 2 0 = res 0 2) (hs3 : res 1 2 = res 2 1) :
    IsPot 3 (laplacian 3 (admittance triAdj res))
      (fun i => if i = 0 then res 0 1 * (res 0 2 + res 2 1) / (res 0 1 + res 0 2 + res 2 1)
                else if i = 1 then 0
                else res 0 1 * res 2 1 / (res 0 1 + res 0 2 + res 2 1)) 0 1 := by
  intro i hi
  have : i = 0 ∨ i = 1 ∨ i = 2 := by omega
  rcases this with rfl | rfl | rfl <;>
    simp [sumTo_eq, Finset.sum_range_succ, laplacian, colSum, admittance, triAdj, hs1, hs2, hs3] <;>
    field_simp <;> ring

/-! ### the field model at ℚ is the rational model (which is tied to the source text) -/

theorem admittance_at_rat (adj : Adj) (res : Nat → Nat → Rat) :
    admittance (K := Rat) adj res = Pyunicorn.Circuit.admittance adj res := rfl

theorem effRes_at_rat (R : Nat → Nat → Rat) (a b : Nat) :
    effRes (K := Rat) R a b = Pyunicorn.Circuit.effRes R a b := rfl

theorem laplacian_at_rat (n : Nat) (adm : Nat → Nat → Rat) :
    laplacian (K := Rat) n adm = Pyunicorn.Circuit.laplacian n adm := rfl

theorem localClustering_at_rat (n : Nat) (adj : Adj) (adm : Nat → Nat → Rat) (i : Nat) :
    localClustering (K := Rat) n adj adm i = Pyunicorn.Circuit.localClustering n adj adm i := rfl

theorem admDegree_at_rat (n : Nat) (adm : Nat → Nat → Rat) (i : Nat) :
    admDegree (K := Rat) n adm i = Pyunicorn.Circuit.admDegree n adm i := rfl

end Pyunicorn.CircuitK
