import Pyunicorn.Model.RecurrenceObjects
import Pyunicorn.Lemmas.Recurrence
import Pyunicorn.Lemmas.RecurrenceAdaptive
/-! Round 5: the neighbour table of the adaptive construction as *any* argsort of the
distance rows (NumPy's order among tied distances is unspecified).  Core Lean only. -/
namespace Pyunicorn.Recurrence

theorem leV_antisymm (a b : V) (h1 : leV a b = true) (h2 : leV b a = true) : a = b := by
  cases a <;> cases b <;> simp_all [leV]
  exact Rat.le_antisymm h1 h2

theorem leV_refl (a : V) : leV a a = true := by
  cases a <;> simp [leV]

theorem sortedV_pairwise :
    ∀ (l : List V), sortedV l = true → l.Pairwise (fun a b => leV a b = true)
  | [], _ => List.Pairwise.nil
  | [a], _ => by simp
  | a :: b :: t, h => by
    simp only [sortedV, Bool.and_eq_true] at h
    have ih := sortedV_pairwise (b :: t) h.2
    refine List.pairwise_cons.mpr ⟨?_, ih⟩
    intro x hx
    rcases List.mem_cons.mp hx with rfl | hx
    · exact h.1
    · exact leV_trans _ _ _ h.1 ((List.pairwise_cons.mp ih).1 x hx)

theorem pairwise_sortedV :
    ∀ (l : List V), l.Pairwise (fun a b => leV a b = true) → sortedV l = true
  | [], _ => rfl
  | [a], _ => rfl
  | a :: b :: t, h => by
    have h' := List.pairwise_cons.mp h
    simp only [sortedV, Bool.and_eq_true]
    exact ⟨h'.1 b (List.mem_cons_self), pairwise_sortedV (b :: t) h'.2⟩

theorem map_getD_range (row : List V) :
    (List.range row.length).map (fun c => row.getD c none) = row := by
  apply List.ext_getElem
  · simp
  · intro i h1 h2
    simp [List.getElem?_eq_getElem h2]

/-- **what an argsort is**: a permutation of the positions, and reading the row along it
gives *the* sorted row — whatever the order among ties -/
theorem isArgsortRow_spec (row : List V) (p : List Nat) (h : isArgsortRow row p = true) :
    p.Perm (List.range row.length) ∧ p.map (fun c => row.getD c none) = sortV row := by
  simp only [isArgsortRow, Bool.and_eq_true, beq_iff_eq] at h
  have hp : p.Perm (List.range row.length) := by
    have := (List.mergeSort_perm p (fun a b => decide (a ≤ b))).symm
    rwa [h.1] at this
  refine ⟨hp, ?_⟩
  have h1 : (p.map fun c => row.getD c none).Perm row := by
    have := hp.map (fun c => row.getD c none)
    rwa [map_getD_range] at this
  exact List.Perm.eq_of_pairwise (le := fun a b => leV a b = true)
    (fun a b _ _ => leV_antisymm a b) (sortedV_pairwise _ h.2) (sortV_pairwise row)
    (h1.trans (sortV_perm row).symm)

theorem isArgsortRow_length (row : List V) (p : List Nat) (h : isArgsortRow row p = true) :
    p.length = row.length := by
  simpa using (isArgsortRow_spec row p h).1.length_eq

theorem isArgsortRow_nodup (row : List V) (p : List Nat) (h : isArgsortRow row p = true) :
    p.Nodup :=
  (isArgsortRow_spec row p h).1.nodup_iff.mpr List.nodup_range

theorem isArgsortRow_lt (row : List V) (p : List Nat) (h : isArgsortRow row p = true) :
    ∀ c ∈ p, c < row.length := by
  intro c hc
  simpa using (isArgsortRow_spec row p h).1.mem_iff.mp hc

/-- the `k`-th entry of an argsort points at the `k`-th smallest value -/
theorem isArgsortRow_getElem (row : List V) (p : List Nat) (h : isArgsortRow row p = true)
    (k c : Nat) (hk : p[k]? = some c) : (sortV row)[k]? = some (row.getD c none) := by
  rw [← (isArgsortRow_spec row p h).2, List.getElem?_map, hk]
  rfl

/-- a sorted permutation of `range n` is `range n` -/
theorem mergeSort_le_of_perm_range (p : List Nat) (n : Nat) (hp : p.Perm (List.range n)) :
    p.mergeSort (fun a b => decide (a ≤ b)) = List.range n := by
  apply List.Perm.eq_of_pairwise (le := fun a b => decide (a ≤ b) = true)
  · intro a b _ _ h1 h2
    simp only [decide_eq_true_eq] at h1 h2
    omega
  · exact List.pairwise_mergeSort (le := fun a b => decide (a ≤ b))
      (fun a b c h1 h2 => by simp only [decide_eq_true_eq] at *; omega)
      (fun a b => by simp only [Bool.or_eq_true, decide_eq_true_eq]; omega) p
  · have : (List.range n).Pairwise (· < ·) := List.pairwise_lt_range
    exact this.imp (fun h => by simp only [decide_eq_true_eq]; omega)
  · exact (List.mergeSort_perm p _).trans hp

theorem argsortV_perm' (row : List V) : (argsortV row).Perm (List.range row.length) := by
  unfold argsortV
  have h1 := (List.mergeSort_perm row.zipIdx (fun a b => leV a.1 b.1)).map (·.2)
  refine h1.trans ?_
  have : row.zipIdx.map (·.2) = List.range row.length := by
    rw [List.range_eq_range', List.zipIdx_eq_zip_range']
    exact List.map_snd_zip (by simp)
  rw [this]

/-- **the stable argsort of the model is an argsort** (so every statement about an arbitrary
argsort table covers `adaptivePlot`) -/
theorem argsortV_isArgsort (row : List V) : isArgsortRow row (argsortV row) = true := by
  simp only [isArgsortRow, Bool.and_eq_true, beq_iff_eq]
  refine ⟨mergeSort_le_of_perm_range _ _ (argsortV_perm' row), ?_⟩
  apply pairwise_sortedV
  unfold argsortV
  rw [List.map_map]
  have hs : (row.zipIdx.mergeSort fun a b => leV a.1 b.1).Pairwise
      (fun a b => leV a.1 b.1 = true) :=
    List.pairwise_mergeSort (le := fun (a b : V × Nat) => leV a.1 b.1)
      (fun a b c h1 h2 => leV_trans _ _ _ h1 h2) (fun a b => leV_total _ _) _
  have hmem : ∀ e ∈ (row.zipIdx.mergeSort fun a b => leV a.1 b.1), row.getD e.2 none = e.1 := by
    intro e he
    rw [List.mem_mergeSort] at he
    obtain ⟨x, i⟩ := e
    have := List.mem_zipIdx_iff_getElem?.mp he
    simp only at this ⊢
    simp [List.getD_eq_getElem?_getD, this]
  rw [List.pairwise_map]
  refine hs.imp_of_mem ?_
  intro a b ha hb hab
  simp only [Function.comp]
  rw [hmem a ha, hmem b hb]
  exact hab

/-- converse of `isArgsortRow_spec` (used to exhibit argsorts without evaluating `mergeSort`) -/
theorem isArgsortRow_of (row : List V) (p : List Nat) (hp : p.Perm (List.range row.length))
    (hs : sortedV (p.map fun c => row.getD c none) = true) : isArgsortRow row p = true := by
  simp only [isArgsortRow, Bool.and_eq_true, beq_iff_eq]
  exact ⟨mergeSort_le_of_perm_range p _ hp, hs⟩

theorem isArgsortRow_sorted (row : List V) (p : List Nat) (h : isArgsortRow row p = true) :
    sortedV (p.map fun c => row.getD c none) = true := by
  simp only [isArgsortRow, Bool.and_eq_true] at h
  exact h.2

/-- the stable table of the model is an argsort table -/
theorem argsortOK_map_argsortV (D : List (List V)) : argsortOK D (D.map argsortV) = true := by
  simp only [argsortOK, List.length_map, beq_self_eq_true, Bool.true_and]
  induction D with
  | nil => rfl
  | cons row t ih => simp [argsortV_isArgsort, ih]

/-! ### the table -/

theorem argsortOK_row (D : List (List V)) (sn : List (List Nat)) (h : argsortOK D sn = true)
    (l : Nat) (hl : l < D.length) :
    ∃ snl, sn[l]? = some snl ∧ isArgsortRow (D[l]'hl) snl = true := by
  simp only [argsortOK, Bool.and_eq_true, beq_iff_eq] at h
  have hl' : l < sn.length := by omega
  refine ⟨sn[l], List.getElem?_eq_getElem hl', ?_⟩
  have hz : l < (List.zipWith isArgsortRow D sn).length := by simp; omega
  have := List.all_eq_true.mp h.2 _ (List.getElem_mem hz)
  simpa using this

/-- an argsort table of an `n×n` matrix is a well-formed neighbour table -/
theorem argsortOK_snOK (D : List (List V)) (sn : List (List Nat)) (h : argsortOK D sn = true)
    (hsq : ∀ row ∈ D, row.length = D.length) : snOK D.length sn := by
  have hlen : sn.length = D.length := by
    simp only [argsortOK, Bool.and_eq_true, beq_iff_eq] at h; exact h.1
  refine ⟨hlen, ?_⟩
  intro r hr
  obtain ⟨l, hl, rfl⟩ := List.getElem_of_mem hr
  obtain ⟨snl, h1, h2⟩ := argsortOK_row D sn h l (by omega)
  rw [List.getElem?_eq_getElem hl] at h1
  injection h1 with h1
  subst h1
  have hrl := hsq _ (List.getElem_mem (by omega : l < D.length))
  exact ⟨by rw [isArgsortRow_length _ _ h2, hrl],
    fun c hc => by have := isArgsortRow_lt _ _ h2 c hc; omega⟩

/-- **a state without a tie for the first place sorts first in every argsort** of its row:
if every other entry of the row is strictly behind `row[l]` in `ndarray.sort` order
(`row[l] = 0` is the state's distance to itself, every other distance is positive or NaN —
no duplicate of the state), then `p[0] = l` -/
theorem isArgsortRow_self_first (row : List V) (p : List Nat) (h : isArgsortRow row p = true)
    (l : Nat) (hl : l < row.length)
    (hstrict : ∀ c, c < row.length → c ≠ l → leV (row.getD c none) (row.getD l none) = false) :
    p[0]? = some l := by
  obtain ⟨hp, hs⟩ := isArgsortRow_spec row p h
  have hlen := isArgsortRow_length row p h
  have hmem : l ∈ p := hp.mem_iff.mpr (List.mem_range.mpr hl)
  obtain ⟨j, hj, hjl⟩ := List.getElem_of_mem hmem
  cases j with
  | zero => rw [List.getElem?_eq_getElem hj, hjl]
  | succ j =>
    exfalso
    have h0 : 0 < p.length := by omega
    have hc0 : p[0] < row.length := isArgsortRow_lt row p h _ (List.getElem_mem h0)
    have hne : p[0] ≠ l := by
      intro e
      have hnd := isArgsortRow_nodup row p h
      have := List.pairwise_iff_getElem.mp hnd 0 (j + 1) h0 hj (by omega)
      exact this (by rw [e, hjl])
    have hpw : (p.map fun c => row.getD c none).Pairwise (fun a b => leV a b = true) := by
      rw [hs]; exact sortV_pairwise row
    have := List.pairwise_iff_getElem.mp hpw 0 (j + 1) (by simp; omega) (by simp; omega)
      (by omega)
    simp only [List.getElem_map, hjl] at this
    rw [hstrict _ hc0 hne] at this
    exact Bool.false_ne_true this

/-! ### `missing_values=True`: states with missing values at `+inf` -/

theorem zipWith_absdiff_isSome : ∀ (a b : List V), (∀ x ∈ a, x.isSome = true) →
    (∀ x ∈ b, x.isSome = true) → ∀ t ∈ List.zipWith absdiff a b, t.isSome = true
  | [], _, _, _ => by simp
  | _ :: _, [], _, _ => by simp
  | x :: a, y :: b, ha, hb => by
    intro t ht
    simp only [List.zipWith_cons_cons, List.mem_cons] at ht
    rcases ht with rfl | ht
    · obtain ⟨x', rfl⟩ := Option.isSome_iff_exists.mp (ha x List.mem_cons_self)
      obtain ⟨y', rfl⟩ := Option.isSome_iff_exists.mp (hb y List.mem_cons_self)
      simp [absdiff]
    · exact zipWith_absdiff_isSome a b (fun z hz => ha z (List.mem_cons_of_mem _ hz))
        (fun z hz => hb z (List.mem_cons_of_mem _ hz)) t ht

theorem fold_isSome (f : V → V → V)
    (hf : ∀ acc t, acc.isSome = true → t.isSome = true → (f acc t).isSome = true) :
    ∀ (ds : List V) (acc : V), acc.isSome = true → (∀ t ∈ ds, t.isSome = true) →
    (ds.foldl f acc).isSome = true
  | [], acc, h, _ => by simpa using h
  | t :: ds, acc, h, hd => by
    rw [List.foldl_cons]
    exact fold_isSome f hf ds _ (hf acc t h (hd t List.mem_cons_self))
      (fun t' ht' => hd t' (List.mem_cons_of_mem _ ht'))

/-- the distance of two states without missing values is a number -/
theorem dist_isSome (m : Metric) (a b : List V) (ha : ∀ x ∈ a, x.isSome = true)
    (hb : ∀ x ∈ b, x.isSome = true) : (dist m a b).isSome = true := by
  unfold dist
  refine fold_isSome _ ?_ _ (some 0) rfl (zipWith_absdiff_isSome a b ha hb)
  intro acc t h1 h2
  obtain ⟨x, rfl⟩ := Option.isSome_iff_exists.mp h1
  obtain ⟨y, rfl⟩ := Option.isSome_iff_exists.mp h2
  cases m
  · simp [addV]
  · simp [addV, mulV]
  · simp only; split <;> simp

theorem complete_row (emb : List (List V)) (i : Nat) (hi : i < emb.length)
    (h : (missingMask emb).getD i false = false) : ∀ x ∈ rowOf emb i, x.isSome = true := by
  simp only [missingMask, List.getD_eq_getElem?_getD, List.getElem?_map,
    List.getElem?_eq_getElem hi, Option.map_some, Option.getD_some] at h
  simp only [rowOf, List.getD_eq_getElem?_getD, List.getElem?_eq_getElem hi, Option.getD_some]
  intro x hx
  rw [List.any_eq_false] at h
  have := h x hx
  cases x <;> simp_all

theorem rpEntry_isSome (m : Metric) (emb : List (List V)) (i j : Nat) (hi : i < emb.length)
    (hj : j < emb.length) (h1 : (missingMask emb).getD i false = false)
    (h2 : (missingMask emb).getD j false = false) : (rpEntry m emb i j).isSome = true := by
  unfold rpEntry
  split
  · exact dist_isSome m _ _ (complete_row emb i hi h1) (complete_row emb j hj h2)
  · split
    · exact dist_isSome m _ _ (complete_row emb j hj h2) (complete_row emb i hi h1)
    · rfl

theorem leV_none_left (y : V) (h : leV none y = true) : y = none := by
  cases y <;> simp_all [leV]

/-- in a sorted row the numbers come first: position `k` below the number of non-`none`
entries holds a number -/
theorem sorted_isSome_of_lt_countP (s : List V)
    (hs : s.Pairwise (fun a b => leV a b = true)) (k : Nat)
    (hk : k < s.countP Option.isSome) : ∃ x, s[k]? = some (some x) := by
  have hlen : k < s.length := Nat.lt_of_lt_of_le hk List.countP_le_length
  cases hv : s[k] with
  | some x => exact ⟨x, by rw [List.getElem?_eq_getElem hlen, hv]⟩
  | none =>
    exfalso
    have hdrop : s.drop k = none :: s.drop (k + 1) := by
      rw [← hv]; exact List.drop_eq_getElem_cons hlen
    have hp : (none :: s.drop (k + 1)).Pairwise (fun a b => leV a b = true) := by
      rw [← hdrop]; exact List.Pairwise.sublist (List.drop_sublist k s) hs
    have h0 : (s.drop k).countP Option.isSome = 0 := by
      rw [List.countP_eq_zero]
      intro d hd
      rw [hdrop] at hd
      rcases List.mem_cons.mp hd with rfl | hmem
      · simp
      · have := leV_none_left d ((List.pairwise_cons.mp hp).1 d hmem)
        simp [this]
    have e : s.countP Option.isSome = (s.take k).countP Option.isSome := by
      conv => lhs; rw [← List.take_append_drop k s]
      rw [List.countP_append, h0]; simp
    have h1 : (s.take k).countP Option.isSome ≤ k :=
      Nat.le_trans List.countP_le_length (by simp; omega)
    omega

end Pyunicorn.Recurrence
