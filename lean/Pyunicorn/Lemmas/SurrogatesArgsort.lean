import Pyunicorn.Lemmas.SurrogatesTies
import Pyunicorn.Model.SurrogatesArgsort
/-! C15 round 5f: **`argsort().argsort()` is a rank array — a theorem, not an assumption about
numpy**.

Round 4 assumed (and recorded per case) that the array `s.argsort(axis=1).argsort(axis=1)` numpy
returns is a `RankOf s`.  Here the assumption is reduced to what `argsort` promises on its face:
each of the two calls returns *an* argsort of its argument (`IsArgsort` / `IsArgsortNat`: a
permutation of the index range along which the argument is non-decreasing, ties in any order).

* the first argsort `p` is a permutation of the range, so it has distinct entries, so its argsort
  `q` is unique: `p` read along `q` is the range itself (`isArgsortNat_inverse`) — `q` is the
  inverse permutation of `p`;
* hence `q[a]` is the position of `a` in `p`, and because `x` read along `p` is non-decreasing a
  strictly smaller value sits at a strictly smaller position: `RankOf x q`
  (`rankOf_of_argsort_argsort`; audited as `argsort_argsort_is_rank` in `Properties/C15.lean`). -/
namespace Pyunicorn.Surrogates

theorem map_getD_range {α : Type} (l : List α) (d : α) :
    (List.range l.length).map (fun i => l[i]?.getD d) = l := by
  apply List.ext_getElem
  · simp
  · intro i h1 h2
    simp [h2]

/-- **the argsort of a permutation of the range is unique — it is the inverse permutation**:
reading `p` along any of its argsorts gives `0, 1, …, n-1` -/
theorem isArgsortNat_inverse (p q : List Nat) (hp : p.Perm (List.range p.length))
    (hq : IsArgsortNat p q) :
    q.map (fun i => p[i]?.getD 0) = List.range p.length := by
  apply List.Perm.eq_of_pairwise (le := (· ≤ ·))
  · intro a b _ _ hab hba; exact Nat.le_antisymm hab hba
  · exact hq.2
  · exact (range_pairwise_lt _).imp Nat.le_of_lt
  · have h1 := hq.1.map (fun i => p[i]?.getD 0)
    rw [map_getD_range] at h1
    exact h1.trans hp

/-- pointwise: `p[q[a]] = a` -/
theorem isArgsortNat_getElem (p q : List Nat) (hp : p.Perm (List.range p.length))
    (hq : IsArgsortNat p q) (a : Nat) (ha : a < p.length) :
    ∃ k, q[a]? = some k ∧ k < p.length ∧ p[k]? = some a := by
  have h := isArgsortNat_inverse p q hp hq
  have hql : q.length = p.length := by simpa using hq.1.length_eq
  have haq : a < q.length := by omega
  have hk : q[a] < p.length := by
    have : q[a] ∈ List.range p.length := hq.1.mem_iff.1 (List.getElem_mem haq)
    simpa using this
  refine ⟨q[a], List.getElem?_eq_getElem haq, hk, ?_⟩
  have e := congrArg (·[a]?) h
  simp only [List.getElem?_map, List.getElem?_eq_getElem haq, Option.map_some,
    List.getElem?_range ha, List.getElem?_eq_getElem hk, Option.getD_some] at e
  rw [List.getElem?_eq_getElem hk]
  exact e

/-- two argsorts of a permutation of the range are equal (the order among ties is the only freedom
`argsort` has, and a permutation has no ties) -/
theorem isArgsortNat_unique (p q₁ q₂ : List Nat) (hp : p.Perm (List.range p.length))
    (h₁ : IsArgsortNat p q₁) (h₂ : IsArgsortNat p q₂) : q₁ = q₂ := by
  have l1 : q₁.length = p.length := by simpa using h₁.1.length_eq
  have l2 : q₂.length = p.length := by simpa using h₂.1.length_eq
  apply List.ext_getElem (l1.trans l2.symm)
  intro a ha1 ha2
  obtain ⟨k, hk1, hkl, hk2⟩ := isArgsortNat_getElem p q₁ hp h₁ a (by omega)
  obtain ⟨l, hl1, hll, hl2⟩ := isArgsortNat_getElem p q₂ hp h₂ a (by omega)
  rw [List.getElem?_eq_getElem ha1] at hk1
  rw [List.getElem?_eq_getElem ha2] at hl1
  rw [Option.some.inj hk1, Option.some.inj hl1]
  have hnd : p.Nodup := hp.nodup_iff.2 List.nodup_range
  rw [List.getElem?_eq_getElem hkl] at hk2
  rw [List.getElem?_eq_getElem hll] at hl2
  exact (List.getElem_inj hnd).1 ((Option.some.inj hk2).trans (Option.some.inj hl2).symm)

/-- **`x.argsort().argsort()` is a rank array of `x`, whatever order each `argsort` gives to equal
values**: if `p` is any argsort of `x` and `q` is any argsort of `p`, then `q` is a `RankOf x` —
a permutation of the index range that never gives a strictly smaller value the larger rank. -/
theorem rankOf_of_argsort_argsort (x : List Rat) (p q : List Nat)
    (hp : IsArgsort x p) (hq : IsArgsortNat p q) : RankOf x q := by
  have hpl : p.length = x.length := by simpa using hp.1.length_eq
  have hpp : p.Perm (List.range p.length) := by rw [hpl]; exact hp.1
  refine ⟨by rw [← hpl]; exact hq.1, ?_⟩
  intro u hu v hv huv
  obtain ⟨a, ha⟩ := List.mem_iff_getElem?.1 hu
  obtain ⟨b, hb⟩ := List.mem_iff_getElem?.1 hv
  rw [List.getElem?_zip_eq_some] at ha hb
  obtain ⟨ha1, ha2⟩ := ha
  obtain ⟨hb1, hb2⟩ := hb
  have hal : a < x.length := (List.getElem?_eq_some_iff.1 ha2).1
  have hbl : b < x.length := (List.getElem?_eq_some_iff.1 hb2).1
  obtain ⟨k, hk1, hkl, hk2⟩ := isArgsortNat_getElem p q hpp hq a (by omega)
  obtain ⟨l, hl1, hll, hl2⟩ := isArgsortNat_getElem p q hpp hq b (by omega)
  have ek : u.1 = k := by rw [ha1] at hk1; exact Option.some.inj hk1
  have el : v.1 = l := by rw [hb1] at hl1; exact Option.some.inj hl1
  rw [ek, el]
  have fk : (p.map fun i => x[i]?.getD 0)[k]? = some u.2 := by
    rw [List.getElem?_map, hk2]; simp [ha2]
  have fl : (p.map fun i => x[i]?.getD 0)[l]? = some v.2 := by
    rw [List.getElem?_map, hl2]; simp [hb2]
  obtain ⟨hkm, fk'⟩ := List.getElem?_eq_some_iff.1 fk
  obtain ⟨hlm, fl'⟩ := List.getElem?_eq_some_iff.1 fl
  rcases Nat.lt_trichotomy k l with h | h | h
  · exact h
  · subst h
    rw [fk] at fl
    rw [Option.some.inj fl] at huv
    exact absurd huv Rat.lt_irrefl
  · have := List.pairwise_iff_getElem.1 hp.2 l k hlm hkm h
    rw [fk', fl'] at this
    exact absurd huv (Rat.not_lt.2 this)

/-- the model's own stable `argsort` is an argsort … -/
theorem argsort_isArgsort (s : List Rat) : IsArgsort s (argsort s) := by
  refine ⟨argsort_perm s, ?_⟩
  rw [argsort_eq, List.map_map]
  apply List.pairwise_map.2
  apply (sortedPairs_pairwise s).imp_of_mem
  intro a b ha hb hab
  have ea := sortedPairs_mem s a ha
  have eb := sortedPairs_mem s b hb
  simp only [Function.comp, ea, eb, Option.getD_some]
  exact hab

/-- … and so is the model's `argsortNat` -/
theorem argsortNat_isArgsortNat (p : List Nat) : IsArgsortNat p (argsortNat p) := by
  have hperm : (argsortNat p).Perm (List.range p.length) := by
    unfold argsortNat
    have h1 := (List.mergeSort_perm p.zipIdx (fun a b => decide (a.1 ≤ b.1))).map (·.2)
    refine h1.trans ?_
    have : p.zipIdx.map (·.2) = List.range p.length := by
      simp [List.zipIdx_map_snd, List.range_eq_range']
    rw [this]
  refine ⟨hperm, ?_⟩
  unfold argsortNat
  rw [List.map_map]
  apply List.pairwise_map.2
  have hs : (p.zipIdx.mergeSort (fun a b => decide (a.1 ≤ b.1))).Pairwise
      (fun a b => a.1 ≤ b.1) := by
    have := List.pairwise_mergeSort (le := fun a b : Nat × Nat => decide (a.1 ≤ b.1))
      (fun a b c hab hbc => by
        simp only [decide_eq_true_eq] at hab hbc ⊢; exact Nat.le_trans hab hbc)
      (fun a b => by
        simp only [Bool.or_eq_true, decide_eq_true_eq]; exact Nat.le_total _ _) p.zipIdx
    exact this.imp (fun h => by simpa using h)
  apply hs.imp_of_mem
  intro a b ha hb hab
  have ea : p[a.2]? = some a.1 :=
    List.mem_zipIdx_iff_getElem?.1 ((List.mergeSort_perm _ _).mem_iff.1 ha)
  have eb : p[b.2]? = some b.1 :=
    List.mem_zipIdx_iff_getElem?.1 ((List.mergeSort_perm _ _).mem_iff.1 hb)
  simp only [Function.comp, ea, eb, Option.getD_some]
  exact hab

/-- round 4's `ranks_rankOf` as an instance of the new theorem -/
theorem ranks_rankOf' (s : List Rat) : RankOf s (ranks s) :=
  rankOf_of_argsort_argsort s (argsort s) (ranks s) (argsort_isArgsort s)
    (argsortNat_isArgsortNat (argsort s))

/-! ### the rank-remapping theorems with the weaker hypothesis -/

/-- for any two argsorts numpy may return, the remapping succeeds, is a permutation of the row, and
the multiset of (ranked value, output value) pairs is `zip (sorted s) (sorted row)` -/
theorem gather_sorted_of_argsorts (row s : List Rat) (p q : List Nat)
    (hlen : s.length = row.length) (hp : IsArgsort s p) (hq : IsArgsortNat p q) :
    ∃ out, gather (sortR row) q = some out ∧ out.Perm row ∧
      (s.zip out).Perm ((sortR s).zip (sortR row)) :=
  gather_sorted_rankOf row s q hlen (rankOf_of_argsort_argsort s p q hp hq)

end Pyunicorn.Surrogates
