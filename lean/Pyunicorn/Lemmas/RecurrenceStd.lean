import Pyunicorn.Lemmas.RecurrenceAffine
import Mathlib.Analysis.Real.Sqrt
/-! `threshold_std`: mean / variance of the model are the textbook ones and the squared
comparison of the model is the comparison with `s·√var` over ℝ. -/
namespace Pyunicorn.Recurrence

theorem foldl_addV_some (l : List Rat) (acc : Rat) :
    (l.map some).foldl addV (some acc) = some (acc + l.sum) := by
  induction l generalizing acc with
  | nil => simp
  | cons x xs ih =>
    simp only [List.map_cons, List.foldl_cons, List.sum_cons]
    rw [show addV (some acc) (some x) = some (acc + x) from rfl, ih, add_assoc]

theorem sumV_some (l : List Rat) : sumV (l.map some) = some l.sum := by
  unfold sumV
  rw [foldl_addV_some, zero_add]

theorem meanV_some (l : List Rat) (h : l ≠ []) :
    meanV (l.map some) = some (l.sum / (l.length : Rat)) := by
  unfold meanV
  have : (l.map some).isEmpty = false := by cases l <;> simp_all
  simp [this, sumV_some]

/-- **the model's variance is the population variance** `Σ (x − μ)² / n` -/
theorem varV_some (l : List Rat) (h : l ≠ []) :
    varV (l.map some)
      = some ((l.map fun x => (x - l.sum / (l.length : Rat)) * (x - l.sum / (l.length : Rat))).sum
              / (l.length : Rat)) := by
  have hsq : (List.map (fun x => mulV (subV x (some (l.sum / (l.length : Rat))))
        (subV x (some (l.sum / (l.length : Rat))))) (l.map some))
      = (l.map fun x => (x - l.sum / (l.length : Rat)) * (x - l.sum / (l.length : Rat))).map some := by
    simp [List.map_map, Function.comp_def, subV, mulV]
  have hne : (l.map fun x => (x - l.sum / (l.length : Rat)) * (x - l.sum / (l.length : Rat))) ≠ [] := by
    cases l <;> simp_all
  show meanV (List.map (fun x => mulV (subV x (meanV (l.map some))) (subV x (meanV (l.map some))))
    (l.map some)) = _
  rw [meanV_some l h, hsq, meanV_some _ hne]
  simp

theorem foldl_addV_nonneg (l : List V) (acc s : Rat) (hacc : 0 ≤ acc)
    (hl : ∀ x ∈ l, ∀ y, x = some y → 0 ≤ y) (h : l.foldl addV (some acc) = some s) : 0 ≤ s := by
  induction l generalizing acc with
  | nil => simp at h; linarith
  | cons x xs ih =>
    simp only [List.foldl_cons] at h
    cases x with
    | none =>
      rw [show addV (some acc) none = none from rfl, foldl_addV_none] at h
      cases h
    | some y =>
      rw [show addV (some acc) (some y) = some (acc + y) from rfl] at h
      have hy : 0 ≤ y := hl (some y) (by simp) y rfl
      exact ih (acc + y) (by linarith) (fun x hx => hl x (List.mem_cons_of_mem _ hx)) h

theorem meanV_nonneg (l : List V) (v : Rat) (hl : ∀ x ∈ l, ∀ y, x = some y → 0 ≤ y)
    (h : meanV l = some v) : 0 ≤ v := by
  unfold meanV at h
  split at h
  · cases h
  · cases hs : sumV l with
    | none => rw [hs] at h; cases h
    | some s =>
      rw [hs] at h
      simp only [Option.map_some, Option.some.injEq] at h
      have hs0 : 0 ≤ s := foldl_addV_nonneg l 0 s (le_refl _) hl hs
      rw [← h]
      exact div_nonneg hs0 (by exact_mod_cast Nat.zero_le _)

/-- the variance is never negative -/
theorem varV_nonneg (l : List V) (v : Rat) (h : varV l = some v) : 0 ≤ v := by
  refine meanV_nonneg _ v ?_ h
  intro x hx y hxy
  simp only [List.mem_map] at hx
  obtain ⟨a, _, rfl⟩ := hx
  revert hxy
  generalize subV a (meanV l) = d
  intro hxy
  cases d with
  | none => cases hxy
  | some d =>
    simp only [mulV, Option.some.injEq] at hxy
    rw [← hxy]; exact mul_self_nonneg d

/-- `d < s·√v ⇔ d² < (s ≤ 0 ? 0 : s²·v)` for `d, v ≥ 0` (Manhattan / supremum units) -/
theorem lt_mul_sqrt_iff (d v s : ℚ) (hd : 0 ≤ d) (_hv : 0 ≤ v) :
    (d : ℝ) < (s : ℝ) * Real.sqrt (v : ℝ) ↔ d * d < (if s ≤ 0 then 0 else s * s * v) := by
  have hdR : (0 : ℝ) ≤ (d : ℝ) := by exact_mod_cast hd
  by_cases hs : s ≤ 0
  · simp only [hs, if_true]
    have hsR : (s : ℝ) ≤ 0 := by exact_mod_cast hs
    have h1 : (s : ℝ) * Real.sqrt (v : ℝ) ≤ 0 :=
      mul_nonpos_of_nonpos_of_nonneg hsR (Real.sqrt_nonneg _)
    have h2 : 0 ≤ d * d := mul_self_nonneg d
    constructor
    · intro h; linarith
    · intro h; linarith
  · simp only [hs, if_false]
    have hs' : 0 < s := lt_of_not_ge hs
    have hsR : (0 : ℝ) < (s : ℝ) := by exact_mod_cast hs'
    have e : (s : ℝ) * Real.sqrt (v : ℝ) = Real.sqrt ((s : ℝ) ^ 2 * (v : ℝ)) := by
      rw [Real.sqrt_mul (sq_nonneg _), Real.sqrt_sq hsR.le]
    rw [e, Real.lt_sqrt hdR]
    have : ((d : ℝ) ^ 2 < (s : ℝ) ^ 2 * (v : ℝ)) ↔ (((d * d : ℚ) : ℝ) < ((s * s * v : ℚ) : ℝ)) := by
      push_cast; rw [sq, sq]
    rw [this]
    exact_mod_cast Iff.rfl

/-- `√D < s·√v ⇔ D < (s ≤ 0 ? 0 : s²·v)` for `D, v ≥ 0` (Euclidean kernel, squared units) -/
theorem sqrt_lt_mul_sqrt_iff (D v s : ℚ) (hD : 0 ≤ D) (_hv : 0 ≤ v) :
    Real.sqrt (D : ℝ) < (s : ℝ) * Real.sqrt (v : ℝ) ↔ D < (if s ≤ 0 then 0 else s * s * v) := by
  have hDR : (0 : ℝ) ≤ (D : ℝ) := by exact_mod_cast hD
  by_cases hs : s ≤ 0
  · simp only [hs, if_true]
    have hsR : (s : ℝ) ≤ 0 := by exact_mod_cast hs
    have h1 : (s : ℝ) * Real.sqrt (v : ℝ) ≤ 0 :=
      mul_nonpos_of_nonpos_of_nonneg hsR (Real.sqrt_nonneg _)
    have h2 := Real.sqrt_nonneg (D : ℝ)
    constructor
    · intro h; linarith
    · intro h; linarith
  · simp only [hs, if_false]
    have hs' : 0 < s := lt_of_not_ge hs
    have hsR : (0 : ℝ) < (s : ℝ) := by exact_mod_cast hs'
    have e : (s : ℝ) * Real.sqrt (v : ℝ) = Real.sqrt ((s : ℝ) ^ 2 * (v : ℝ)) := by
      rw [Real.sqrt_mul (sq_nonneg _), Real.sqrt_sq hsR.le]
    rw [e, Real.sqrt_lt_sqrt_iff hDR]
    have : ((D : ℝ) < (s : ℝ) ^ 2 * (v : ℝ)) ↔ ((D : ℝ) < ((s * s * v : ℚ) : ℝ)) := by
      push_cast; rw [sq]
    rw [this]
    exact_mod_cast Iff.rfl

end Pyunicorn.Recurrence
