import Pyunicorn.Lemmas.Recurrence
import Mathlib.Tactic.Linarith
import Mathlib.Tactic.FieldSimp
import Mathlib.Tactic.Ring
import Mathlib.Algebra.Order.Field.Basic
import Mathlib.Data.Rat.Lemmas
/-! Affine rescaling of the samples (`normalize`) against `threshold_std`. -/
namespace Pyunicorn.Recurrence

/-! ### 1. distances are non-negative -/

theorem absdiff_nonneg (a b : V) (x : Rat) (h : absdiff a b = some x) : 0 ≤ x := by
  cases a <;> cases b <;> simp [absdiff] at h
  rename_i p q
  subst h
  split <;> linarith

/-- one step of the inner loop of `dist` -/
def distStep (m : Metric) (acc t : V) : V :=
  match m with
  | .manhattan => addV acc t
  | .euclidean => addV acc (mulV t t)
  | .supremum => if gtV t acc then t else acc

theorem dist_eq_fold (m : Metric) (a b : List V) :
    dist m a b = (List.zipWith absdiff a b).foldl (distStep m) (some 0) := by
  cases m <;> rfl

/-- the fold of `dist` from any accumulator that is NaN or non-negative -/
theorem dist_fold_nonneg (m : Metric) (a b : List V) (acc : V)
    (hacc : ∀ x, acc = some x → 0 ≤ x) (d : Rat)
    (h : (List.zipWith absdiff a b).foldl (distStep m) acc = some d) : 0 ≤ d := by
  induction a generalizing b acc with
  | nil => simp at h; exact hacc d h
  | cons x xs ih =>
    cases b with
    | nil => simp at h; exact hacc d h
    | cons y ys =>
      simp only [List.zipWith_cons_cons, List.foldl_cons] at h
      refine ih ys _ ?_ h
      intro z hz
      have ht := absdiff_nonneg x y
      cases m with
      | manhattan =>
        simp only [distStep] at hz
        cases acc <;> cases hxy : absdiff x y <;> simp [addV, hxy] at hz
        rename_i p q
        have := hacc p rfl
        have := ht q hxy
        linarith
      | euclidean =>
        simp only [distStep] at hz
        cases acc <;> cases hxy : absdiff x y <;> simp [addV, mulV, hxy] at hz
        rename_i p q
        have := hacc p rfl
        have := mul_self_nonneg q
        linarith
      | supremum =>
        simp only [distStep] at hz
        split at hz
        · exact ht z hz
        · exact hacc z hz

theorem dist_nonneg (m : Metric) (a b : List V) (d : Rat) (h : dist m a b = some d) : 0 ≤ d := by
  rw [dist_eq_fold] at h
  exact dist_fold_nonneg m a b (some 0) (by intro x hx; cases hx; exact le_refl _) d h

/-! ### 2. positive affine rescaling -/

theorem absdiff_affV (mu sd : Rat) (hsd : 0 < sd) (x y : V) :
    absdiff (affV mu sd x) (affV mu sd y) = (absdiff x y).map (fun d => d / sd) := by
  cases x <;> cases y <;> simp [absdiff, affV]
  rename_i p q
  have hiff : (p - mu) / sd ≤ (q - mu) / sd ↔ p ≤ q := by
    rw [div_le_div_iff_of_pos_right hsd]; constructor <;> intro h <;> linarith
  by_cases hpq : p ≤ q
  · simp only [hiff, hpq, if_true]; ring
  · simp only [hiff, hpq, if_false]; ring

theorem zipWith_absdiff_affV (mu sd : Rat) (hsd : 0 < sd) (a b : List V) :
    List.zipWith absdiff (a.map (affV mu sd)) (b.map (affV mu sd))
      = (List.zipWith absdiff a b).map (Option.map fun d => d / sd) := by
  induction a generalizing b with
  | nil => simp
  | cons x xs ih =>
    cases b with
    | nil => simp
    | cons y ys => simp [absdiff_affV mu sd hsd, ih ys]

theorem gtV_div (sd : Rat) (hsd : 0 < sd) (t acc : V) :
    gtV (t.map fun d => d / sd) (acc.map fun d => d / sd) = gtV t acc := by
  cases t <;> cases acc <;> simp [gtV]
  exact div_lt_div_iff_of_pos_right hsd

theorem fold_affine_lin (m : Metric) (hm : m ≠ .euclidean) (sd : Rat) (hsd : 0 < sd)
    (ds : List V) (acc : V) :
    (ds.map (Option.map fun d => d / sd)).foldl (distStep m) (acc.map fun d => d / sd)
      = (ds.foldl (distStep m) acc).map fun d => d / sd := by
  induction ds generalizing acc with
  | nil => simp
  | cons t ts ih =>
    simp only [List.map_cons, List.foldl_cons]
    rw [← ih]
    congr 1
    cases m with
    | euclidean => exact absurd rfl hm
    | manhattan =>
      cases acc <;> cases t <;> simp [distStep, addV]
      ring
    | supremum =>
      simp only [distStep, gtV_div sd hsd]
      split <;> rfl

theorem fold_affine_sq (sd : Rat) (hsd : 0 < sd) (ds : List V) (acc : V) :
    (ds.map (Option.map fun d => d / sd)).foldl (distStep .euclidean)
        (acc.map fun d => d / (sd * sd))
      = (ds.foldl (distStep .euclidean) acc).map fun d => d / (sd * sd) := by
  induction ds generalizing acc with
  | nil => simp
  | cons t ts ih =>
    simp only [List.map_cons, List.foldl_cons]
    rw [← ih]
    congr 1
    cases acc <;> cases t <;> simp [distStep, addV, mulV]
    have : sd ≠ 0 := ne_of_gt hsd
    field_simp

theorem dist_affine (m : Metric) (mu sd : Rat) (hsd : 0 < sd) (a b : List V) :
    dist m (a.map (affV mu sd)) (b.map (affV mu sd))
      = (dist m a b).map (fun d => match m with | .euclidean => d / (sd * sd) | _ => d / sd) := by
  rw [dist_eq_fold, dist_eq_fold, zipWith_absdiff_affV mu sd hsd]
  cases m with
  | euclidean =>
    have := fold_affine_sq sd hsd (List.zipWith absdiff a b) (some 0)
    simpa using this
  | manhattan =>
    have := fold_affine_lin .manhattan (by decide) sd hsd (List.zipWith absdiff a b) (some 0)
    simpa using this
  | supremum =>
    have := fold_affine_lin .supremum (by decide) sd hsd (List.zipWith absdiff a b) (some 0)
    simpa using this

/-- `dist_affine` per metric, without the `match` -/
theorem dist_affine_euclidean (mu sd : Rat) (hsd : 0 < sd) (a b : List V) :
    dist .euclidean (a.map (affV mu sd)) (b.map (affV mu sd))
      = (dist .euclidean a b).map (fun d => d / (sd * sd)) :=
  dist_affine .euclidean mu sd hsd a b

theorem dist_affine_manhattan (mu sd : Rat) (hsd : 0 < sd) (a b : List V) :
    dist .manhattan (a.map (affV mu sd)) (b.map (affV mu sd))
      = (dist .manhattan a b).map (fun d => d / sd) :=
  dist_affine .manhattan mu sd hsd a b

theorem dist_affine_supremum (mu sd : Rat) (hsd : 0 < sd) (a b : List V) :
    dist .supremum (a.map (affV mu sd)) (b.map (affV mu sd))
      = (dist .supremum a b).map (fun d => d / sd) :=
  dist_affine .supremum mu sd hsd a b

/-! ### 3. exact rational square roots -/

theorem natSqrt?_sound (n r : Nat) (h : natSqrt? n = some r) : r * r = n := by
  unfold natSqrt? at h
  simp only at h
  split at h
  · injection h with h; subst h; assumption
  · cases h

theorem ratSqrt?_sound (q r : Rat) (h : ratSqrt? q = some r) : 0 ≤ r ∧ r * r = q := by
  unfold ratSqrt? at h
  split at h
  · cases h
  · rename_i hq
    have hq0 : 0 ≤ q := not_lt.mp hq
    split at h
    · rename_i a b ha hb
      injection h with h
      subst h
      have ha' := natSqrt?_sound _ _ ha
      have hb' := natSqrt?_sound _ _ hb
      refine ⟨div_nonneg (Nat.cast_nonneg a) (Nat.cast_nonneg b), ?_⟩
      have hnum : 0 ≤ q.num := Rat.num_nonneg.mpr hq0
      have h1 : ((a : Rat) * a) = (q.num : Rat) := by
        have : ((a * a : Nat) : Int) = q.num := by rw [ha']; exact Int.toNat_of_nonneg hnum
        have : (((a * a : Nat) : Int) : Rat) = (q.num : Rat) := by rw [this]
        simpa using this
      have h2 : ((b : Rat) * b) = (q.den : Rat) := by
        rw [← hb']; push_cast; ring
      rw [div_mul_div_comm, h1, h2]
      exact Rat.num_div_den q
    · cases h

/-! ### 4. `normalizeCol` -/

theorem foldl_addV_none (l : List V) : l.foldl addV none = none := by
  induction l with
  | nil => rfl
  | cons x xs ih => simpa [addV] using ih

theorem meanV_all_none (l : List V) : meanV (l.map fun _ => (none : V)) = none := by
  cases l with
  | nil => simp [meanV]
  | cons x xs =>
    simp [meanV, sumV, addV, foldl_addV_none]

theorem meanV_some_of_varV (col : List V) (v : Rat) (hv : varV col = some v) :
    ∃ mu, meanV col = some mu := by
  cases hm : meanV col with
  | some mu => exact ⟨mu, rfl⟩
  | none =>
    exfalso
    unfold varV at hv
    simp only [hm] at hv
    have : (col.map fun x => mulV (subV x none) (subV x none)) = col.map fun _ => (none : V) := by
      apply List.map_congr_left
      intro x _
      cases x <;> rfl
    rw [this, meanV_all_none] at hv
    cases hv

theorem normalizeCol_spec (col col' : List V) (v : Rat) (h : normalizeCol col = some col')
    (hv : varV col = some v) (hv0 : v ≠ 0) :
    ∃ mu sd, meanV col = some mu ∧ 0 < sd ∧ sd * sd = v ∧ col' = col.map (affV mu sd) := by
  obtain ⟨mu, hmu⟩ := meanV_some_of_varV col v hv
  unfold normalizeCol at h
  simp only [hmu, hv, hv0, if_false] at h
  cases hs : ratSqrt? v with
  | none => simp [hs] at h
  | some sd =>
    simp only [hs, Option.map_some] at h
    injection h with h
    obtain ⟨h0, hsq⟩ := ratSqrt?_sound v sd hs
    refine ⟨mu, sd, hmu, ?_, hsq, h.symm⟩
    rcases lt_or_eq_of_le h0 with hlt | heq
    · exact hlt
    · exfalso; apply hv0; rw [← hsq, ← heq]; ring

/-! ### 5. embedding commutes with samplewise maps -/

theorem tab_map_map {α β : Type} (n m : Nat) (f : Nat → Nat → α) (g : α → β) :
    (tab n m f).map (fun r => r.map g) = tab n m fun i j => g (f i j) := by
  simp [tab, List.map_map, Function.comp_def]

theorem getD_map_none (g : V → V) (hg : g none = none) (ts : List V) (i : Nat) :
    (ts.map g).getD i none = g (ts.getD i none) := by
  simp only [List.getD_eq_getElem?_getD, List.getElem?_map]
  cases ts[i]? <;> simp [hg]

theorem embed_map (g : V → V) (hg : g none = none) (ts : List V) (dim tau len : Nat) :
    embed (ts.map g) dim tau len = (embed ts dim tau len).map (fun r => r.map g) := by
  unfold embed
  rw [tab_map_map]
  simp only [getD_map_none g hg]

/-! ### 6. normalising and thresholding at `ε` is thresholding at `ε·σ` -/

theorem missingMask_map_affV (mu sd : Rat) (emb : List (List V)) :
    missingMask (emb.map fun r => r.map (affV mu sd)) = missingMask emb := by
  unfold missingMask
  rw [List.map_map]
  apply List.map_congr_left
  intro r _
  simp only [Function.comp, List.any_map]
  congr 1
  funext x
  cases x <;> rfl

theorem rowOf_map (g : V → V) (emb : List (List V)) (j : Nat) :
    rowOf (emb.map fun r => r.map g) j = (rowOf emb j).map g := by
  unfold rowOf
  simp only [List.getD_eq_getElem?_getD, List.getElem?_map]
  cases emb[j]? <;> simp

theorem rpEntry_nonneg (m : Metric) (emb : List (List V)) (j k : Nat) (d : Rat)
    (h : rpEntry m emb j k = some d) : 0 ≤ d := by
  unfold rpEntry at h
  split at h
  · exact dist_nonneg _ _ _ _ h
  · split at h
    · exact dist_nonneg _ _ _ _ h
    · injection h with h; rw [← h]

theorem rpEntry_affine (m : Metric) (mu sd : Rat) (hsd : 0 < sd) (emb : List (List V))
    (j k : Nat) :
    rpEntry m (emb.map fun r => r.map (affV mu sd)) j k
      = (rpEntry m emb j k).map
          (fun d => match m with | .euclidean => d / (sd * sd) | _ => d / sd) := by
  unfold rpEntry
  simp only [rowOf_map, dist_affine m mu sd hsd]
  split
  · rfl
  · split
    · rfl
    · cases m <;> simp

theorem thresholdSq_tab (m : Metric) (n k : Nat) (f : Nat → Nat → V) (t : V) :
    thresholdSq m (tab n k f) t = tab n k fun i j =>
      match m with
      | .euclidean => ltV (f i j) t
      | _ => ltV (mulV (f i j) (f i j)) t := by
  cases m <;> simp [thresholdSq, tab, List.map_map, Function.comp_def]

/-- the comparison of one entry -/
theorem ltV_scaled (m : Metric) (sd v eps : Rat) (hsd : 0 < sd) (hsq : sd * sd = v) (d : V)
    (hd : ∀ x, d = some x → 0 ≤ x) :
    ltV (d.map (fun y : Rat => match m with | .euclidean => y / (sd * sd) | _ => y / sd))
        (some (unitThr m eps))
      = (match m with
         | .euclidean => ltV d (some (if eps ≤ 0 then 0 else eps * eps * v))
         | _ => ltV (mulV d d) (some (if eps ≤ 0 then 0 else eps * eps * v))) := by
  cases d with
  | none => cases m <;> simp [ltV, mulV]
  | some x =>
    have hx : 0 ≤ x := hd x rfl
    have hv : 0 < v := by rw [← hsq]; exact mul_pos hsd hsd
    have lin : (x / sd < eps) = (x * x < if eps ≤ 0 then 0 else eps * eps * v) := by
      apply propext
      by_cases he : eps ≤ 0
      · simp only [he, if_true]
        have h1 : 0 ≤ x / sd := div_nonneg hx (le_of_lt hsd)
        have h2 : 0 ≤ x * x := mul_self_nonneg x
        constructor <;> intro h <;> linarith
      · simp only [he, if_false]
        have he' : 0 < eps := lt_of_not_ge he
        rw [div_lt_iff₀ hsd]
        have hes : 0 ≤ eps * sd := le_of_lt (mul_pos he' hsd)
        have e : eps * eps * v = (eps * sd) * (eps * sd) := by rw [← hsq]; ring
        rw [e]
        exact (mul_self_lt_mul_self_iff hx hes)
    cases m with
    | euclidean =>
      simp only [Option.map_some, ltV, unitThr]
      congr 1
      apply propext
      rw [hsq, div_lt_iff₀ hv]
      by_cases he : eps ≤ 0 <;> simp [he]
    | manhattan =>
      simp only [Option.map_some, ltV, unitThr, mulV]
      congr 1
    | supremum =>
      simp only [Option.map_some, ltV, unitThr, mulV]
      congr 1

theorem tab_congr {α : Type} (n k : Nat) (f g : Nat → Nat → α) (h : ∀ i j, f i j = g i j) :
    tab n k f = tab n k g := by
  have : f = g := by funext i j; exact h i j
  rw [this]

/-- thresholding a positively rescaled embedding at `ε` (in the units of `unitThr`) is
thresholding the raw one at the squared threshold `ε²·sd²` -/
theorem fixedThreshold_affine (m : Metric) (emb : List (List V)) (mu sd v eps : Rat) (mv : Bool)
    (hsd : 0 < sd) (hsq : sd * sd = v) :
    fixedThreshold m (emb.map fun r => r.map (affV mu sd)) eps mv
      = maskIf mv emb (thresholdSq m (distRP m emb)
          (some (if eps ≤ 0 then 0 else eps * eps * v))) := by
  unfold fixedThreshold maskIf
  simp only [missingMask_map_affV]
  have key : threshold (distRP m (emb.map fun r => r.map (affV mu sd))) (some (unitThr m eps))
      = thresholdSq m (distRP m emb) (some (if eps ≤ 0 then 0 else eps * eps * v)) := by
    unfold distRP
    rw [threshold_tab, thresholdSq_tab, List.length_map]
    apply tab_congr
    intro i j
    rw [rpEntry_affine m mu sd hsd,
      ltV_scaled m sd v eps hsd hsq _ (rpEntry_nonneg m emb i j)]
  rw [key]

theorem column_flatten (ts : List V) : (column ts).flatten = ts := by
  unfold column
  induction ts with
  | nil => rfl
  | cons x xs ih => simp [ih]

theorem column_map (g : V → V) (ts : List V) :
    column (ts.map g) = (column ts).map fun r => r.map g := by
  simp [column, List.map_map, Function.comp_def]

theorem affV_none (mu sd : Rat) : affV mu sd none = none := rfl

/-- **`normalize=True` + `threshold=ε` is `threshold_std=ε` on the raw series** -/
theorem normalized_threshold_eq_std (m : Metric) (ts ts' : List V) (v : Rat)
    (dim tau len : Nat) (eps : Rat) (mv : Bool)
    (h : normalizeCol ts = some ts') (hv : varV ts = some v) (hv0 : v ≠ 0) :
    fixedThreshold m (embed ts' dim tau len) eps mv
      = fixedThresholdStd m (column ts) (embed ts dim tau len) eps mv := by
  obtain ⟨mu, sd, _, hsd, hsq, rfl⟩ := normalizeCol_spec ts ts' v h hv hv0
  rw [embed_map _ (affV_none mu sd), fixedThreshold_affine m _ mu sd v eps mv hsd hsq]
  unfold fixedThresholdStd
  rw [column_flatten, hv]
  rfl

theorem normalized_threshold_eq_std_column (m : Metric) (ts ts' : List V) (v : Rat)
    (eps : Rat) (mv : Bool)
    (h : normalizeCol ts = some ts') (hv : varV ts = some v) (hv0 : v ≠ 0) :
    fixedThreshold m (column ts') eps mv
      = fixedThresholdStd m (column ts) (column ts) eps mv := by
  obtain ⟨mu, sd, _, hsd, hsq, rfl⟩ := normalizeCol_spec ts ts' v h hv hv0
  rw [column_map, fixedThreshold_affine m _ mu sd v eps mv hsd hsq]
  unfold fixedThresholdStd
  rw [column_flatten, hv]
  rfl

end Pyunicorn.Recurrence
