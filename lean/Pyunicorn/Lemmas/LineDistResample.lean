import Pyunicorn.Lemmas.LineDistGen
import Mathlib.Tactic.Linarith
import Mathlib.Algebra.Order.Ring.Rat
/-! C08, round 3: invariants of the bootstrap (`_rejection_sampling` regenerated from the source)
for *every* stream of draws. -/
namespace Pyunicorn.LineDist
open Pyunicorn.Generated

theorem sum_modify_succ (l : List Nat) (x : Nat) (h : x < l.length) :
    (l.modify x (· + 1)).sum = l.sum + 1 := by
  induction l generalizing x with
  | nil => simp at h
  | cons a t ih =>
    cases x with
    | zero => simp [List.modify]; omega
    | succ x =>
      have hx : x < t.length := by simpa using h
      simp [List.modify_succ_cons, ih x hx]; omega

/-- the guard of the C code: every drawn index lies in the array -/
def InRange (N : Int) (len : Nat) (draws : List (Rat × Rat)) : Prop :=
  ∀ u ∈ draws, 0 ≤ Rat.floor (u.1 * (N : Rat)) ∧ Rat.floor (u.1 * (N : Rat)) < len

theorem rejIter_spec (dist : Int → Rat) (N : Int) (u1 u2 : Rat) (s : StructC08.RS)
    (h0 : 0 ≤ Rat.floor (u1 * (N : Rat))) (h1 : Rat.floor (u1 * (N : Rat)) < s.res.length) :
    let r := StructC08.rejIter dist N u1 u2 s
    r.res.sum + s.i = s.res.sum + r.i ∧ r.res.length = s.res.length ∧ s.i ≤ r.i ∧ r.i ≤ s.i + 1 := by
  simp only [StructC08.rejIter]
  split
  · have hx : (Rat.floor (u1 * (N : Rat))).toNat < s.res.length := by omega
    simp [sum_modify_succ _ _ hx]; omega
  · simp

/-- **every draw stream**: the resampled histogram holds exactly as many lines as draws were
accepted, never more than `M`; its length is unchanged. -/
theorem rejLoop_count (dist : Int → Rat) (N : Int) (M : Nat) (draws : List (Rat × Rat))
    (s : StructC08.RS) (hr : InRange N s.res.length draws) (hM : s.i ≤ M) :
    let r := StructC08.rejLoop dist N M draws s
    r.res.sum + s.i = s.res.sum + r.i ∧ r.res.length = s.res.length ∧ s.i ≤ r.i ∧ r.i ≤ M := by
  induction draws generalizing s with
  | nil => simp [StructC08.rejLoop, hM]
  | cons u t ih =>
    obtain ⟨u1, u2⟩ := u
    simp only [StructC08.rejLoop]
    split
    · rename_i hlt
      have hu := hr (u1, u2) (by simp)
      have sp := rejIter_spec dist N u1 u2 s hu.1 hu.2
      simp only at sp
      have := ih (StructC08.rejIter dist N u1 u2 s)
        (by rw [sp.2.1]; intro u hu'; exact hr u (by simp [hu']))
        (by have : (s.i : Int) < M := hlt
            omega)
      simp only at this
      refine ⟨by omega, by omega, by omega, this.2.2.2⟩
    · simp [hM]

theorem getD_modify_ne (l : List Nat) (i x : Nat) (h : i ≠ x) :
    (l.modify i (· + 1)).getD x 0 = l.getD x 0 := by
  simp [List.getD_eq_getElem?_getD, List.getElem?_modify, h]

/-- **every draw stream**: a length whose probability is not positive is never drawn — the
resampled histogram has lines only at lengths the original histogram has. -/
theorem rejLoop_support (dist : Int → Rat) (N : Int) (M : Nat) (draws : List (Rat × Rat))
    (s : StructC08.RS) (h0 : ∀ u ∈ draws, 0 ≤ Rat.floor (u.1 * (N : Rat)) ∧ 0 ≤ u.2)
    (x : Nat) (hx : dist (x : Int) ≤ 0) :
    (StructC08.rejLoop dist N M draws s).res.getD x 0 = s.res.getD x 0 := by
  induction draws generalizing s with
  | nil => simp [StructC08.rejLoop]
  | cons u t ih =>
    obtain ⟨u1, u2⟩ := u
    simp only [StructC08.rejLoop]
    split
    · rw [ih _ (fun u hu => h0 u (by simp [hu]))]
      have hu : 0 ≤ Rat.floor (u1 * (N : Rat)) ∧ 0 ≤ u2 := h0 (u1, u2) (by simp)
      simp only [StructC08.rejIter]
      split
      · rename_i hacc
        have hne : (Rat.floor (u1 * (N : Rat))).toNat ≠ x := by
          intro he
          have : Rat.floor (u1 * (N : Rat)) = (x : Int) := by omega
          rw [this] at hacc
          have := hu.2
          linarith
        simpa using getD_modify_ne s.res _ x hne
      · rfl
    · rfl

/-- a draw `0 ≤ u < 1` gives an index inside the array (what `InRange` asks for) -/
theorem floor_index_in_range (u : Rat) (N : Nat) (h0 : 0 ≤ u) (h1 : u < 1) (hN : 0 < N) :
    0 ≤ Rat.floor (u * ((N : Int) : Rat)) ∧ Rat.floor (u * ((N : Int) : Rat)) < N := by
  have hNr : (0 : Rat) < ((N : Int) : Rat) := by exact_mod_cast hN
  constructor
  · apply Rat.le_floor_iff.mpr
    have : 0 ≤ u * ((N : Int) : Rat) := mul_nonneg h0 (le_of_lt hNr)
    simpa using this
  · apply Rat.floor_lt_iff.mpr
    have : u * ((N : Int) : Rat) < 1 * ((N : Int) : Rat) := by nlinarith
    simpa using this

/-- **acceptance region of one iteration**: whatever the state, the pair of draws `(u1, u2)` adds
a line of class `x` iff it falls into the rectangle `[x/N, (x+1)/N) × [0, dist x)`; the rectangles of
different classes are disjoint, all have width `1/N`, and their height is the class's share of the
original histogram -- so an accepted draw has class `x` with probability `dist x` (uniform draws). -/
theorem rejIter_accept_iff (dist : Int → Rat) (N : Nat) (hN : 0 < N) (u1 u2 : Rat)
    (s : StructC08.RS) (x : Int) :
    ((StructC08.rejIter dist N u1 u2 s).i = s.i + 1 ∧ Rat.floor (u1 * ((N : Int) : Rat)) = x)
      ↔ ((x : Rat) / N ≤ u1 ∧ u1 < ((x : Rat) + 1) / N ∧ u2 < dist x) := by
  have hNr : (0 : Rat) < (N : Rat) := by exact_mod_cast hN
  have hfl : Rat.floor (u1 * ((N : Int) : Rat)) = x ↔ (x : Rat) / N ≤ u1 ∧ u1 < ((x : Rat) + 1) / N := by
    rw [div_le_iff₀ hNr, lt_div_iff₀ hNr]
    constructor
    · intro h
      have h1 := Rat.le_floor_iff.mp (le_of_eq h.symm)
      have h2 := Rat.floor_lt_iff.mp (show Rat.floor (u1 * ((N : Int) : Rat)) < x + 1 by omega)
      push_cast at h1 h2 ⊢
      exact ⟨h1, h2⟩
    · rintro ⟨h1, h2⟩
      have a1 : x ≤ Rat.floor (u1 * ((N : Int) : Rat)) := Rat.le_floor_iff.mpr (by push_cast; exact h1)
      have a2 : Rat.floor (u1 * ((N : Int) : Rat)) < x + 1 :=
        Rat.floor_lt_iff.mpr (by push_cast; exact h2)
      omega
  simp only [StructC08.rejIter]
  constructor
  · rintro ⟨hi, hx⟩
    refine ⟨(hfl.mp hx).1, (hfl.mp hx).2, ?_⟩
    by_contra hcon
    rw [hx, if_neg hcon] at hi
    omega
  · rintro ⟨h1, h2, h3⟩
    have hx := hfl.mpr ⟨h1, h2⟩
    rw [hx, if_pos h3]
    exact ⟨rfl, rfl⟩

/-- a rejected pair of draws leaves the state untouched (only the stream advances) -/
theorem rejIter_reject (dist : Int → Rat) (N : Int) (u1 u2 : Rat) (s : StructC08.RS)
    (h : ¬ u2 < dist (Rat.floor (u1 * (N : Rat)))) : StructC08.rejIter dist N u1 u2 s = s := by
  simp only [StructC08.rejIter, if_neg h]

end Pyunicorn.LineDist
