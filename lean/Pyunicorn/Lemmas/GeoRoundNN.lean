import Mathlib.Analysis.Real.Pi.Bounds
import Pyunicorn.Lemmas.GeoRound
import Pyunicorn.Lemmas.GeoRoundAng
/-! Round 5 (C12): the nearest-node lookups and the radian conversion in rounded arithmetic.

* `rqsumsq`, `rGridNodeNumber` are the model's `qsumsq` / `gridNodeNumber` (= `Grid.node_number`)
  instantiated with operations that round their exact result; `rqsumsq_bounds`,
  `rqdist_bounds` bound what one element of `np.sqrt(np.sum(diff**2, axis=1))` can be;
* `rGeoNodeNumber` is the model's `geoNodeNumber` (= `GeoGrid.node_number`) with rounded `+`, `*`;
  `rGeoExpr_eq_rCosExpr` shows that element `i` of its vectorised expression is the kernel
  expression `rCosExpr` on the tables extended by the query point as an extra node;
* `rRad` is `x * np.pi / 180` with the constant, the product and the quotient rounded;
  `rRad_error` bounds its distance from the exact radians.
-/
namespace Pyunicorn.Geo

/-! ### `Grid.node_number` -/

/-- the two-column array (node `i`, query point) on which `qsumsq` is `sumsq` -/
def nodeQuery {α : Type} (x : Nat → Nat → α) (q : Nat → α) (i : Nat) : Nat → Nat → α :=
  fun k c => if c = 0 then x k i else q k

/-- the squared distance to the query point is the kernel's sum of squares on the array
(node, query) — for **every** number type, so also in rounded arithmetic -/
theorem qsumsq_eq_sumsq {α : Type} [Add α] [Mul α] [Sub α] [OfNat α 0]
    (x : Nat → Nat → α) (q : Nat → α) (d i : Nat) :
    qsumsq x q d i = sumsq (nodeQuery x q i) d 0 1 := by
  simp [qsumsq, sumsq, nodeQuery]

/-- `qsumsq` as numpy evaluates it: every `-`, `*`, `+` rounded -/
noncomputable def rqsumsq (rnd : ℝ → ℝ) (x : Nat → Nat → ℝ) (q : Nat → ℝ) (d i : Nat) : ℝ :=
  @qsumsq ℝ ⟨fun a b => rnd (a + b)⟩ ⟨fun a b => rnd (a * b)⟩ ⟨fun a b => rnd (a - b)⟩ ⟨0⟩ x q d i

theorem rqsumsq_eq_rsumsq (rnd : ℝ → ℝ) (x : Nat → Nat → ℝ) (q : Nat → ℝ) (d i : Nat) :
    rqsumsq rnd x q d i = rsumsq rnd (nodeQuery x q i) d 0 1 :=
  @qsumsq_eq_sumsq ℝ ⟨fun a b => rnd (a + b)⟩ ⟨fun a b => rnd (a * b)⟩ ⟨fun a b => rnd (a - b)⟩ ⟨0⟩
    x q d i

/-- the computed squared distance to the query point is within `(1 ∓ u)^(d+3)` of the exact one -/
theorem rqsumsq_bounds {rnd : ℝ → ℝ} {u : ℝ} (h : StdRound rnd u) (x : Nat → Nat → ℝ)
    (q : Nat → ℝ) (d i : Nat) :
    (1 - u) ^ (d + 3) * qsumsq x q d i ≤ rqsumsq rnd x q d i ∧
      rqsumsq rnd x q d i ≤ (1 + u) ^ (d + 3) * qsumsq x q d i := by
  rw [rqsumsq_eq_rsumsq, qsumsq_eq_sumsq]
  exact rsumsq_bounds h _ d 0 1

/-- one element of `np.sqrt(np.sum(diff**2, axis=1))` with a square root `sq` of relative error `w` -/
theorem rqdist_bounds {rnd : ℝ → ℝ} {u w : ℝ} (h : StdRound rnd u) (sq : ℝ → ℝ) (hw0 : 0 ≤ w)
    (hw1 : w ≤ 1) (hsq : ∀ v, 0 ≤ v → |sq v - √v| ≤ w * √v) (x : Nat → Nat → ℝ) (q : Nat → ℝ)
    (d i : Nat) :
    (1 - w) * √((1 - u) ^ (d + 3)) * √(qsumsq x q d i) ≤ sq (rqsumsq rnd x q d i) ∧
      sq (rqsumsq rnd x q d i) ≤ (1 + w) * √((1 + u) ^ (d + 3)) * √(qsumsq x q d i) := by
  rw [rqsumsq_eq_rsumsq, qsumsq_eq_sumsq]
  exact rdist_bounds h sq hw0 hw1 hsq _ d 0 1

/-- `Grid.node_number` in rounded arithmetic (comparisons of `argmin` exact) -/
noncomputable def rGridNodeNumber (rnd sq : ℝ → ℝ) (x : Nat → Nat → ℝ) (q : Nat → ℝ) (d N : Nat) :
    Option Nat :=
  argminFirst ((List.range N).map fun i => sq (rqsumsq rnd x q d i))

/-- it *is* the model `gridNodeNumber` at the rounded operations -/
theorem rGridNodeNumber_eq_model (rnd sq : ℝ → ℝ) (x : Nat → Nat → ℝ) (q : Nat → ℝ) (d N : Nat) :
    rGridNodeNumber rnd sq x q d N =
      @gridNodeNumber ℝ ⟨fun a b => rnd (a + b)⟩ ⟨fun a b => rnd (a * b)⟩
        ⟨fun a b => rnd (a - b)⟩ ⟨0⟩ _ _ sq x q d N := rfl

/-- float64 constants: `u = 2⁻⁵³`, square root within one ulp (`w = 2⁻⁵²`), at most 6
dimensions: the factors stay within `1 ∓ 2⁻⁴⁹` -/
theorem float64_factors (d : Nat) (hd : d ≤ 6) :
    (1 - (2⁻¹ : ℝ) ^ 49) ≤ (1 - 2⁻¹ ^ 52) * √((1 - 2⁻¹ ^ 53) ^ (d + 3)) ∧
      (1 + (2⁻¹ : ℝ) ^ 52) * √((1 + 2⁻¹ ^ 53) ^ (d + 3)) ≤ 1 + 2⁻¹ ^ 49 := by
  have hu0 : (0 : ℝ) ≤ 1 - 2⁻¹ ^ 53 := by norm_num
  have hu1 : (1 : ℝ) - 2⁻¹ ^ 53 ≤ 1 := by norm_num
  have hlo : (1 - 5 * (2⁻¹ : ℝ) ^ 53) ≤ √((1 - 2⁻¹ ^ 53) ^ (d + 3)) := by
    apply Real.le_sqrt_of_sq_le
    calc (1 - 5 * (2⁻¹ : ℝ) ^ 53) ^ 2 ≤ (1 - 2⁻¹ ^ 53) ^ 9 := by norm_num
      _ ≤ (1 - 2⁻¹ ^ 53) ^ (d + 3) := pow_le_pow_of_le_one hu0 hu1 (by omega)
  have hhi : √((1 + (2⁻¹ : ℝ) ^ 53) ^ (d + 3)) ≤ 1 + 5 * 2⁻¹ ^ 53 := by
    rw [show (1 + 5 * (2⁻¹ : ℝ) ^ 53) = √((1 + 5 * 2⁻¹ ^ 53) ^ 2) from
      (Real.sqrt_sq (by norm_num)).symm]
    apply Real.sqrt_le_sqrt
    calc (1 + (2⁻¹ : ℝ) ^ 53) ^ (d + 3) ≤ (1 + 2⁻¹ ^ 53) ^ 9 :=
          pow_le_pow_right₀ (by norm_num) (by omega)
      _ ≤ (1 + 5 * 2⁻¹ ^ 53) ^ 2 := by norm_num
  constructor
  · calc (1 - (2⁻¹ : ℝ) ^ 49) ≤ (1 - 2⁻¹ ^ 52) * (1 - 5 * 2⁻¹ ^ 53) := by norm_num
      _ ≤ _ := mul_le_mul_of_nonneg_left hlo (by norm_num)
  · calc (1 + (2⁻¹ : ℝ) ^ 52) * √((1 + 2⁻¹ ^ 53) ^ (d + 3))
        ≤ (1 + 2⁻¹ ^ 52) * (1 + 5 * 2⁻¹ ^ 53) := mul_le_mul_of_nonneg_left hhi (by norm_num)
      _ ≤ _ := by norm_num

/-! ### `GeoGrid.node_number` -/

/-- a table extended by the query point's value as node `N` -/
def extTab {α : Type} (N : Nat) (t : Nat → α) (v : α) : Nat → α := fun n => if n = N then v else t n

/-- element `i` of the vectorised expression of `GeoGrid.node_number`, every `*`, `+` rounded -/
noncomputable def rGeoExpr (rnd : ℝ → ℝ) (sl cl sn cn : Nat → ℝ) (slv clv snv cnv : ℝ) (i : Nat) : ℝ :=
  rnd (rnd (sl i * slv) + rnd (rnd (cl i * clv) * rnd (rnd (sn i * snv) + rnd (cn i * cnv))))

/-- `GeoGrid.node_number` in rounded arithmetic with an inverse cosine `ac` -/
noncomputable def rGeoNodeNumber (rnd ac : ℝ → ℝ) (sl cl sn cn : Nat → ℝ) (slv clv snv cnv : ℝ)
    (N : Nat) : Option Nat :=
  argminFirst ((List.range N).map fun i => ac (clampMask (rGeoExpr rnd sl cl sn cn slv clv snv cnv i)))

/-- it *is* the model `geoNodeNumber` at the rounded operations -/
theorem rGeoNodeNumber_eq_model (rnd ac : ℝ → ℝ) (sl cl sn cn : Nat → ℝ) (slv clv snv cnv : ℝ)
    (N : Nat) :
    rGeoNodeNumber rnd ac sl cl sn cn slv clv snv cnv N =
      @geoNodeNumber ℝ ⟨fun a b => rnd (a + b)⟩ ⟨fun a b => rnd (a * b)⟩ _ _ _ _ ac
        sl cl sn cn slv clv snv cnv N := rfl

/-- the lookup's expression for node `i < N` is the distance kernel's expression for the pair
(`i`, extra node `N` = the query point) -/
theorem rGeoExpr_eq_rCosExpr (rnd : ℝ → ℝ) (sl cl sn cn : Nat → ℝ) (slv clv snv cnv : ℝ)
    (N i : Nat) (hi : i < N) :
    rGeoExpr rnd sl cl sn cn slv clv snv cnv i =
      rCosExpr rnd (extTab N sl slv) (extTab N cl clv) (extTab N sn snv) (extTab N cn cnv) i N := by
  have : i ≠ N := by omega
  simp [rGeoExpr, rCosExpr_eq, extTab, this]

/-! ### `x * np.pi / 180` -/

/-- degrees to radians as evaluated: `p` is the stored constant `np.pi` (cast to the array's
type), the product and the quotient are rounded; `180` is exact -/
noncomputable def rRad (rnd : ℝ → ℝ) (p x : ℝ) : ℝ := rnd (rnd (x * p) / 180)

/-- **radian conversion in rounded arithmetic**: with the constant within relative `u` of `π`
the result is within `((1+u)³ - 1)·|x|·π/180` of the exact radians -/
theorem rRad_error {rnd : ℝ → ℝ} {u : ℝ} (h : StdRound rnd u) (p x : ℝ)
    (hp : |p - Real.pi| ≤ u * Real.pi) :
    |rRad rnd p x - x * Real.pi / 180| ≤ ((1 + u) ^ 3 - 1) * (|x| * Real.pi / 180) := by
  have h0 := h.1
  have hpi := Real.pi_pos
  -- the product before rounding
  have a0 : Approx (x * p) (x * Real.pi) u (|x| * Real.pi) := by
    constructor
    · calc |x * p - x * Real.pi| = |x| * |p - Real.pi| := by rw [← mul_sub, abs_mul]
        _ ≤ |x| * (u * Real.pi) := mul_le_mul_of_nonneg_left hp (abs_nonneg _)
        _ = u * (|x| * Real.pi) := by ring
    · rw [abs_mul, abs_of_pos hpi]
  have a1 := a0.rnd h
  -- exact division by 180
  have a2 : Approx (rnd (x * p) / 180) (x * Real.pi / 180) ((1 + u) * (1 + u) - 1)
      (|x| * Real.pi / 180) := by
    constructor
    · have : rnd (x * p) / 180 - x * Real.pi / 180 = (rnd (x * p) - x * Real.pi) / 180 := by ring
      rw [this, abs_div, abs_of_pos (by norm_num : (0 : ℝ) < 180)]
      have := a1.1
      rw [div_le_iff₀ (by norm_num : (0 : ℝ) < 180)]
      calc |rnd (x * p) - x * Real.pi| ≤ ((1 + u) * (1 + u) - 1) * (|x| * Real.pi) := this
        _ = ((1 + u) * (1 + u) - 1) * (|x| * Real.pi / 180) * 180 := by ring
    · rw [abs_div, abs_of_pos (by norm_num : (0 : ℝ) < 180)]
      exact div_le_div_of_nonneg_right a1.2 (by norm_num)
  have a3 := a2.rnd h
  have e : (1 + ((1 + u) * (1 + u) - 1)) * (1 + u) - 1 = (1 + u) ^ 3 - 1 := by ring
  rw [e] at a3
  exact a3.1

/-- float32 (`u = 2⁻²⁴`): a coordinate of at most `B` degrees is converted to within `B·2⁻²⁸`
of its exact radians (±90°: `2⁻²¹·⁵`, ±360°: `2⁻¹⁹·⁵`) -/
theorem rRad_error_float32 {rnd : ℝ → ℝ} (h : StdRound rnd (2⁻¹ ^ 24)) (p x : ℝ)
    (hp : |p - Real.pi| ≤ 2⁻¹ ^ 24 * Real.pi) (B : ℝ) (hx : |x| ≤ B) :
    |rRad rnd p x - x * Real.pi / 180| ≤ B * (2⁻¹ : ℝ) ^ 28 := by
  have hm := rRad_error h p x hp
  have hpi : Real.pi ≤ 315 / 100 := by linarith [Real.pi_lt_d2]
  have hB : 0 ≤ B := le_trans (abs_nonneg _) hx
  have h1 : |x| * Real.pi / 180 ≤ B * (315 / 100) / 180 := by
    apply div_le_div_of_nonneg_right _ (by norm_num)
    exact mul_le_mul hx hpi Real.pi_pos.le hB
  have h2 : (0 : ℝ) ≤ (1 + 2⁻¹ ^ 24) ^ 3 - 1 := by norm_num
  calc |rRad rnd p x - x * Real.pi / 180|
      ≤ ((1 + 2⁻¹ ^ 24) ^ 3 - 1) * (|x| * Real.pi / 180) := hm
    _ ≤ ((1 + 2⁻¹ ^ 24) ^ 3 - 1) * (B * (315 / 100) / 180) := mul_le_mul_of_nonneg_left h1 h2
    _ = B * (((1 + 2⁻¹ ^ 24) ^ 3 - 1) * (315 / 100) / 180) := by ring
    _ ≤ B * (2⁻¹ : ℝ) ^ 28 := mul_le_mul_of_nonneg_left (by norm_num) hB

/-! ### the rounded operations, spelled out (used by the source tie to accept commuted operands) -/

theorem rMul_eq (rnd : ℝ → ℝ) (a b : ℝ) :
    @HMul.hMul ℝ ℝ ℝ (@instHMul ℝ ⟨fun a b => rnd (a * b)⟩) a b = rnd (a * b) := rfl
theorem rAdd_eq (rnd : ℝ → ℝ) (a b : ℝ) :
    @HAdd.hAdd ℝ ℝ ℝ (@instHAdd ℝ ⟨fun a b => rnd (a + b)⟩) a b = rnd (a + b) := rfl
theorem rSub_eq (rnd : ℝ → ℝ) (a b : ℝ) :
    @HSub.hSub ℝ ℝ ℝ (@instHSub ℝ ⟨fun a b => rnd (a - b)⟩) a b = rnd (a - b) := rfl
theorem rDiv_eq (rnd : ℝ → ℝ) (a b : ℝ) :
    @HDiv.hDiv ℝ ℝ ℝ (@instHDiv ℝ ⟨fun a b => rnd (a / b)⟩) a b = rnd (a / b) := rfl

end Pyunicorn.Geo
