import Pyunicorn.Lemmas.SurrogatesCoupling
/-! C15 round 5: the Hermitian invariant of `cnsStep` (`CouplingAnalysisPurePython.
correlatedNoiseSurrogates` on the slices of the source, `Generated/ArithC15.lean`).

* `cnsStep_decomp` — for every array `d :: (P ++ Mid ++ Q)` (DC bin, `lenPhase` positive
  frequencies, the Nyquist bin iff the length is even, `lenPhase` negative frequencies) one call
  returns `d :: (P' ++ Mid ++ reverse (conj P'))` with `P' = P · exp(iφ)`: the slice bounds of the
  source select exactly these blocks, whatever the array holds (polymorphic in the numbers).
* `HermL` — a full spectrum as a list is Hermitian: real DC bin and `tail.reverse = conj tail`.
  `cnsStep_hermitian`: a call on a Hermitian array succeeds, leaves a Hermitian array with the same
  moduli at every bin; `cnsCalls_hermitian`: so does every call of every history.
* `fullSpectrum_hermL` — `numpy.fft.fft` of a real series is such an array.
* `cnsCalls_surrogate_amplitudes` — composed with `real(ifft(·))`: every surrogate of every call
  history has the amplitude spectrum of the data at **every** bin. -/
namespace Pyunicorn.Surrogates
open Pyunicorn.Generated

/-! ### slices with the bounds in place -/

theorem pySlice_mid {β : Type} (A B C : List β) (a b : Int) (ha : a = A.length)
    (hb : b = A.length + B.length) : pySlice (A ++ B ++ C) a b = B := by
  subst ha hb
  have h1 : ((A.length : Int) + (B.length : Int)).toNat - ((A.length : Int)).toNat = B.length := by
    omega
  unfold pySlice
  rw [h1, Int.toNat_natCast, List.append_assoc, List.drop_left, List.take_left]

theorem setSlice_mid {β : Type} (A B C B' : List β) (a b : Int) (ha : a = A.length)
    (hb : b = A.length + B.length) (hl : B'.length = B.length) :
    setSlice (A ++ B ++ C) a b B' = some (A ++ B' ++ C) := by
  subst ha hb
  unfold setSlice
  have h0 : ¬ ((A.length : Int) < 0 ∨ (A.length : Int) + (B.length : Int) < 0) := by omega
  rw [if_neg h0]
  have hl1 : min ((A.length : Int)).toNat (A ++ B ++ C).length = A.length := by
    simp only [List.length_append, Int.toNat_natCast]; omega
  have hl2 : max A.length (min ((A.length : Int) + (B.length : Int)).toNat (A ++ B ++ C).length)
      = A.length + B.length := by
    simp only [List.length_append]; omega
  simp only [hl1, hl2]
  rw [if_pos (by omega)]
  have e1 : (A ++ B ++ C).take A.length = A := by
    rw [List.append_assoc, List.take_left]
  have e2 : (A ++ B ++ C).drop (A.length + B.length) = C := by
    rw [← List.length_append, List.drop_left]
  rw [e1, e2]

/-! ### one call on an array given by its blocks -/

section
variable {α : Type} [Add α] [Sub α] [Mul α] [Neg α]

omit [Neg α] in
theorem rotRow_length' (T : Trig α) (zs : List (α × α)) (φs : List α)
    (h : φs.length = zs.length) : (rotRow T zs φs).length = zs.length := by
  simp [rotRow, h]

/-- `lenPhase` as the source computes it (both branches) is `(ntime - 1) div 2` -/
theorem cnsLen_natCast (n : ℕ) (hn : 1 ≤ n) : cnsLen (n : Int) = (((n - 1) / 2 : ℕ) : Int) := by
  unfold cnsLen ArithC15.cnsEven ArithC15.cnsLenEven ArithC15.cnsLenOdd
  split <;> rename_i h <;> simp only [decide_eq_true_eq] at h <;> omega

omit [Add α] [Sub α] [Mul α] [Neg α] in
theorem cns_len_blocks (d : α × α) (P Mid Q : List (α × α)) (hQ : Q.length = P.length) :
    (d :: (P ++ Mid ++ Q)).length = 1 + P.length + Mid.length + P.length := by
  simp only [List.length_cons, List.length_append]; omega

theorem cns_lenPhase_blocks (d : α × α) (P Mid Q : List (α × α)) (hQ : Q.length = P.length)
    (hM : Mid.length ≤ 1) :
    cnsLen (((d :: (P ++ Mid ++ Q)).length : ℕ) : Int) = (P.length : Int) := by
  have hn := cns_len_blocks d P Mid Q hQ
  rw [cnsLen_natCast _ (by rw [hn]; omega), hn]; omega

omit [Add α] [Sub α] [Mul α] [Neg α] in
/-- the slice `surrogates[:, 1:lenPhase+1]` is the block of positive frequencies -/
theorem cns_pos_blocks (d : α × α) (P Mid Q : List (α × α)) :
    pySlice (d :: (P ++ Mid ++ Q)) (ArithC15.cnsMulLo (P.length : Int)
        ((d :: (P ++ Mid ++ Q)).length : ℕ)) (ArithC15.cnsMulHi (P.length : Int)
        ((d :: (P ++ Mid ++ Q)).length : ℕ)) = P := by
  have e0 : d :: (P ++ Mid ++ Q) = [d] ++ P ++ (Mid ++ Q) := by simp
  rw [e0]
  exact pySlice_mid [d] P (Mid ++ Q) _ _ (by simp [ArithC15.cnsMulLo])
    (by simp [ArithC15.cnsMulHi]; omega)

/-- every non-empty array splits into the blocks the slices of the source select -/
theorem cns_blocks_exist {β : Type} (T : List β) :
    ∃ P Mid Q, T = P ++ Mid ++ Q ∧ P.length = T.length / 2 ∧ Q.length = P.length ∧
      Mid.length ≤ 1 := by
  refine ⟨T.take (T.length / 2), (T.drop (T.length / 2)).take (T.length - 2 * (T.length / 2)),
    T.drop (T.length / 2 + (T.length - 2 * (T.length / 2))), ?_, ?_, ?_, ?_⟩
  · rw [List.append_assoc, ← List.drop_drop, List.take_append_drop, List.take_append_drop]
  · simp only [List.length_take]; omega
  · simp only [List.length_take, List.length_drop]; omega
  · simp only [List.length_take, List.length_drop]; omega

/-- `numpy.random.uniform(size=(nNodes, k))` with `k ≠ lenPhase` as the source computes it: the
in-place multiplication cannot broadcast (ValueError), for every non-empty array -/
theorem cnsStep_wrong_phase_count (T : Trig α) (W : List (α × α)) (hW : W ≠ []) (φs : List α)
    (h : (φs.length : Int) ≠ cnsLen (W.length : Int)) : cnsStep T W φs = none := by
  obtain ⟨d, T', rfl⟩ := List.exists_cons_of_ne_nil hW
  obtain ⟨P, Mid, Q, rfl, -, hQ, hM⟩ := cns_blocks_exist T'
  have hL := cns_lenPhase_blocks d P Mid Q hQ hM
  have hpos := cns_pos_blocks d P Mid Q
  rw [hL] at h
  have h' : φs.length ≠ P.length := fun e => h (by rw [e])
  unfold cnsStep
  simp only [hL, hpos, ne_eq, h', not_false_eq_true, if_true]

theorem cnsStep_decomp (T : Trig α) (d : α × α) (P Mid Q : List (α × α)) (φs : List α)
    (hQ : Q.length = P.length) (hM : Mid.length ≤ 1) (hφ : φs.length = P.length) :
    cnsStep T (d :: (P ++ Mid ++ Q)) φs
      = some (d :: (rotRow T P φs ++ Mid ++ ((rotRow T P φs).map conjP).reverse)) := by
  have hn : (d :: (P ++ Mid ++ Q)).length = 1 + P.length + Mid.length + P.length := by
    simp only [List.length_cons, List.length_append]; omega
  have hL : cnsLen (((d :: (P ++ Mid ++ Q)).length : ℕ) : Int) = (P.length : Int) := by
    rw [cnsLen_natCast _ (by rw [hn]; omega), hn]; omega
  have hP' : (rotRow T P φs).length = P.length := rotRow_length' T P φs hφ
  have e0 : d :: (P ++ Mid ++ Q) = [d] ++ P ++ (Mid ++ Q) := by simp
  have hpos : pySlice (d :: (P ++ Mid ++ Q)) (ArithC15.cnsMulLo (P.length : Int)
        ((d :: (P ++ Mid ++ Q)).length : ℕ)) (ArithC15.cnsMulHi (P.length : Int)
        ((d :: (P ++ Mid ++ Q)).length : ℕ)) = P := by
    rw [e0]
    exact pySlice_mid [d] P (Mid ++ Q) _ _ (by simp [ArithC15.cnsMulLo])
      (by simp [ArithC15.cnsMulHi]; omega)
  have hs1 : setSlice (d :: (P ++ Mid ++ Q)) (ArithC15.cnsMulLo (P.length : Int)
        ((d :: (P ++ Mid ++ Q)).length : ℕ)) (ArithC15.cnsMulHi (P.length : Int)
        ((d :: (P ++ Mid ++ Q)).length : ℕ)) (rotRow T P φs)
      = some ([d] ++ rotRow T P φs ++ (Mid ++ Q)) := by
    rw [e0]
    exact setSlice_mid [d] P (Mid ++ Q) _ _ _ (by simp [ArithC15.cnsMulLo])
      (by simp [ArithC15.cnsMulHi]; omega) hP'
  unfold cnsStep
  simp only [hL, hpos, hs1, hφ, ne_eq, not_true_eq_false, if_false]
  have hsrc : ∀ lo hi : Int, lo = 1 → hi = (P.length : Int) + 1 →
      pySlice ([d] ++ rotRow T P φs ++ (Mid ++ Q)) lo hi = rotRow T P φs := by
    intro lo hi hlo hhi
    exact pySlice_mid [d] (rotRow T P φs) (Mid ++ Q) lo hi (by simp [hlo]) (by simp [hhi, hP']; omega)
  have e1 : [d] ++ rotRow T P φs ++ (Mid ++ Q) = ([d] ++ rotRow T P φs ++ Mid) ++ Q ++ [] := by simp
  have hfin : ∀ lo hi : Int, lo = 1 + (P.length : Int) + (Mid.length : Int) →
      hi = 1 + (P.length : Int) + (Mid.length : Int) + (P.length : Int) →
      setSlice ([d] ++ rotRow T P φs ++ (Mid ++ Q)) lo hi ((rotRow T P φs).map conjP).reverse
        = some (d :: (rotRow T P φs ++ Mid ++ ((rotRow T P φs).map conjP).reverse)) := by
    intro lo hi hlo hhi
    rw [e1, setSlice_mid ([d] ++ rotRow T P φs ++ Mid) Q [] _ lo hi
      (by simp [hlo, hP']; omega) (by simp [hhi, hP', hQ]; omega) (by simp [hP', hQ])]
    simp
  split
  · rename_i hev
    have hm1 : Mid.length = 1 := by
      simp only [ArithC15.cnsEven2, decide_eq_true_eq, hn] at hev; omega
    rw [hsrc _ _ (by simp [ArithC15.cnsSrcEvenLo]) (by simp [ArithC15.cnsSrcEvenHi])]
    exact hfin _ _ (by simp [ArithC15.cnsMirEvenLo, hm1]; omega)
      (by simp [ArithC15.cnsMirEvenHi, hm1]; omega)
  · rename_i hev
    have hm0 : Mid.length = 0 := by
      simp only [ArithC15.cnsEven2, decide_eq_true_eq, hn] at hev; omega
    rw [hsrc _ _ (by simp [ArithC15.cnsSrcOddLo]) (by simp [ArithC15.cnsSrcOddHi])]
    exact hfin _ _ (by simp [ArithC15.cnsMirOddLo, hm0]; omega)
      (by simp [ArithC15.cnsMirOddHi, hm0]; omega)

end

/-! ### Hermitian arrays (ℝ) -/

open ZMod Pyunicorn.Surrogates.DFT

theorem conjP_conjP (z : ℝ × ℝ) : conjP (conjP z) = z := by simp [conjP]

theorem normSq_conjP (z : ℝ × ℝ) :
    Pyunicorn.Surrogates.normSq (conjP z) = Pyunicorn.Surrogates.normSq z := by
  simp [Pyunicorn.Surrogates.normSq, conjP]

theorem toC_conjP (z : ℝ × ℝ) : toC (conjP z) = (starRingEnd ℂ) (toC z) := by
  apply Complex.ext <;> simp [toC, conjP]

/-- a full spectrum (bins `0 … n-1`) is Hermitian: the DC bin is real and the remaining bins read
backwards are their conjugates (`W[n-k] = conj W[k]`, so the Nyquist bin of an even length is real) -/
def HermL (W : List (ℝ × ℝ)) : Prop :=
  ∃ d T, W = d :: T ∧ d.2 = 0 ∧ T.reverse = T.map conjP

/-- the blocks the slices of the source select, for a Hermitian tail -/
theorem hermTail_split (T : List (ℝ × ℝ)) (h : T.reverse = T.map conjP) :
    ∃ P Mid, T = P ++ Mid ++ (P.map conjP).reverse ∧ P.length = T.length / 2 ∧
      Mid.length ≤ 1 ∧ Mid.map conjP = Mid := by
  let L := T.length / 2
  let r := T.length - 2 * L
  let P := T.take L
  let Mid := (T.drop L).take r
  let Q := T.drop (L + r)
  have hT : T = P ++ Mid ++ Q := by
    simp only [P, Mid, Q]
    rw [List.append_assoc, ← List.drop_drop, List.take_append_drop, List.take_append_drop]
  have hPl : P.length = L := by simp only [P, List.length_take]; omega
  have hMl : Mid.length = r := by simp only [Mid, List.length_take, List.length_drop]; omega
  have hQl : Q.length = L := by simp only [Q, List.length_drop]; omega
  have hr : r ≤ 1 := by omega
  have h' : Q.reverse ++ (Mid.reverse ++ P.reverse)
      = P.map conjP ++ (Mid.map conjP ++ Q.map conjP) := by
    have := h
    rw [hT] at this
    simpa [List.reverse_append, List.map_append, List.append_assoc] using this
  obtain ⟨h1, h2⟩ := List.append_inj h' (by simp [hPl, hQl])
  obtain ⟨h3, _⟩ := List.append_inj h2 (by simp)
  have hMrev : Mid.reverse = Mid := by
    match Mid, hMl.trans_le hr with
    | [], _ => rfl
    | [_], _ => rfl
    | _ :: _ :: _, hh => simp at hh
  refine ⟨P, Mid, ?_, hPl, hMl.trans_le hr, ?_⟩
  · have : Q = (P.map conjP).reverse := by rw [← h1, List.reverse_reverse]
    rw [← this]; exact hT
  · rw [← h3, hMrev]

theorem hermL_of_blocks (d : ℝ × ℝ) (P Mid : List (ℝ × ℝ)) (hd : d.2 = 0) (hM : Mid.length ≤ 1)
    (hMc : Mid.map conjP = Mid) : HermL (d :: (P ++ Mid ++ (P.map conjP).reverse)) := by
  refine ⟨d, _, rfl, hd, ?_⟩
  have hMrev : Mid.reverse = Mid := by
    match Mid, hM with
    | [], _ => rfl
    | [_], _ => rfl
    | _ :: _ :: _, hh => simp at hh
  have hcc : (conjP ∘ conjP : ℝ × ℝ → ℝ × ℝ) = id := funext conjP_conjP
  simp [List.reverse_append, List.map_append, List.map_reverse, hMrev, hMc, hcc]

/-- one call on a Hermitian array (the memoised FFT of real data, or what an earlier call left in
it): the call succeeds, the array handed to `ifft` is Hermitian again and has the same modulus at
every bin -/
theorem cnsStep_hermitian (W : List (ℝ × ℝ)) (hW : HermL W) (φs : List ℝ)
    (hφ : (φs.length : Int) = cnsLen (W.length : Int)) :
    ∃ out, cnsStep realTrig W φs = some out ∧ HermL out ∧
      out.map Pyunicorn.Surrogates.normSq = W.map Pyunicorn.Surrogates.normSq := by
  obtain ⟨d, T, rfl, hd, hT⟩ := hW
  obtain ⟨P, Mid, hsplit, hPl, hM, hMc⟩ := hermTail_split T hT
  have hφ' : φs.length = P.length := by
    rw [cnsLen_natCast _ (by simp)] at hφ
    simp only [List.length_cons, Nat.add_sub_cancel] at hφ
    omega
  rw [hsplit]
  refine ⟨_, cnsStep_decomp realTrig d P Mid _ φs (by simp) hM hφ',
    hermL_of_blocks d _ Mid hd hM hMc, ?_⟩
  have hn := rotRow_normSq P φs hφ'
  have hc : (Pyunicorn.Surrogates.normSq ∘ conjP : ℝ × ℝ → ℝ) = Pyunicorn.Surrogates.normSq :=
    funext normSq_conjP
  simp only [List.map_cons, List.map_append, List.map_reverse, List.map_map, hc, hn]

/-- every call of every history on one object -/
theorem cnsCalls_hermitian (phases : List (List ℝ)) :
    ∀ (W : List (ℝ × ℝ)), HermL W →
      (∀ φs ∈ phases, (φs.length : Int) = cnsLen (W.length : Int)) →
      ∃ outs, cnsCalls realTrig W phases = some outs ∧ outs.length = phases.length ∧
        ∀ out ∈ outs, HermL out ∧
          out.map Pyunicorn.Surrogates.normSq = W.map Pyunicorn.Surrogates.normSq := by
  induction phases with
  | nil => intro W _ _; exact ⟨[], rfl, rfl, by simp⟩
  | cons φs rest ih =>
    intro W hW h
    obtain ⟨out, ho, hH, hN⟩ := cnsStep_hermitian W hW φs (h φs List.mem_cons_self)
    have hlen : out.length = W.length := by simpa using congrArg List.length hN
    obtain ⟨outs, hos, hl, hall⟩ := ih out hH
      (fun ψ hψ => by rw [hlen]; exact h ψ (List.mem_cons_of_mem _ hψ))
    refine ⟨out :: outs, by simp [cnsCalls, ho, hos], by simp [hl], ?_⟩
    intro o hmem
    rcases List.mem_cons.mp hmem with rfl | hmem
    · exact ⟨hH, hN⟩
    · exact ⟨(hall o hmem).1, (hall o hmem).2.trans hN⟩

/-! ### `numpy.fft.fft` of real data, and the composition with `real(ifft(·))` -/

/-- `numpy.fft.fft` of a real series of length `n`: bins `0 … n-1` as (re, im) pairs -/
noncomputable def fullSpectrum {n : ℕ} [NeZero n] (x : ZMod n → ℝ) : List (ℝ × ℝ) :=
  (List.range n).map fun k : ℕ =>
    ((𝓕 (fun t => (x t : ℂ)) (k : ZMod n)).re, (𝓕 (fun t => (x t : ℂ)) (k : ZMod n)).im)

/-- a list of `n` pairs read as the full spectrum handed to `numpy.fft.ifft` -/
def fullFn {n : ℕ} (W : List (ℝ × ℝ)) (k : ZMod n) : ℂ := toC (W.getD k.val (0, 0))

theorem fullSpectrum_length {n : ℕ} [NeZero n] (x : ZMod n → ℝ) : (fullSpectrum x).length = n := by
  simp [fullSpectrum]

theorem fullFn_fullSpectrum {n : ℕ} [NeZero n] (x : ZMod n → ℝ) (k : ZMod n) :
    fullFn (fullSpectrum x) k = 𝓕 (fun t => (x t : ℂ)) k := by
  have hk : k.val < n := ZMod.val_lt k
  simp [fullFn, fullSpectrum, hk, toC]

theorem fullSpectrum_hermL {n : ℕ} [NeZero n] (x : ZMod n → ℝ) : HermL (fullSpectrum x) := by
  obtain ⟨m, rfl⟩ := Nat.exists_eq_succ_of_ne_zero (NeZero.ne n)
  let g : ℕ → ℝ × ℝ := fun k =>
    ((𝓕 (fun t => (x t : ℂ)) (k : ZMod (m + 1))).re, (𝓕 (fun t => (x t : ℂ)) (k : ZMod (m + 1))).im)
  refine ⟨g 0, (List.range m).map (fun j => g (j + 1)), ?_, ?_, ?_⟩
  · simp only [fullSpectrum, List.range_succ_eq_map, List.map_cons, List.map_map]
    rfl
  · have h := dft_real_neg x (0 : ZMod (m + 1))
    rw [neg_zero] at h
    simp only [g, Nat.cast_zero]
    exact Complex.conj_eq_iff_im.mp h.symm
  · apply List.ext_getElem (by simp)
    intro i h1 h2
    have hi : i < m := by simpa using h1
    simp only [List.getElem_reverse, List.getElem_map, List.getElem_range, List.length_map,
      List.length_range]
    have hneg : ((m - 1 - i + 1 : ℕ) : ZMod (m + 1)) = -((i + 1 : ℕ) : ZMod (m + 1)) := by
      rw [eq_neg_iff_add_eq_zero, ← Nat.cast_add]
      have : m - 1 - i + 1 + (i + 1) = m + 1 := by omega
      rw [this, ZMod.natCast_self]
    simp only [g, hneg, dft_real_neg, conjP, Complex.conj_re, Complex.conj_im]

theorem fullFn_hermitian {n : ℕ} [NeZero n] (W : List (ℝ × ℝ)) (hW : HermL W) (hl : W.length = n)
    (k : ZMod n) : fullFn W (-k) = (starRingEnd ℂ) (fullFn W k) := by
  obtain ⟨d, T, rfl, hd, hT⟩ := hW
  by_cases hk : k = 0
  · subst hk
    rw [neg_zero]
    apply Complex.ext <;> simp [fullFn, toC, hd]
  · have hv : k.val ≠ 0 := by rwa [Ne, ZMod.val_eq_zero]
    have hlt : k.val < n := ZMod.val_lt k
    have hneg : (-k).val = n - k.val := by rw [ZMod.neg_val, if_neg hk]
    obtain ⟨j, hj⟩ := Nat.exists_eq_succ_of_ne_zero hv
    simp only [List.length_cons] at hl
    have hjT : j < T.length := by omega
    have e1 : n - k.val = (T.length - 1 - j) + 1 := by omega
    have hrev := congrArg (fun l => l[j]?) hT
    simp only [List.getElem?_reverse hjT, List.getElem?_map] at hrev
    have hj' : T.length - 1 - j < T.length := by omega
    rw [List.getElem?_eq_getElem hj', List.getElem?_eq_getElem hjT] at hrev
    simp only [Option.map_some, Option.some.injEq] at hrev
    unfold fullFn
    rw [hneg, e1, hj, Nat.succ_eq_add_one]
    simp only [List.getD_eq_getElem?_getD, List.getElem?_cons_succ,
      List.getElem?_eq_getElem hj', List.getElem?_eq_getElem hjT, Option.getD_some]
    rw [hrev, toC_conjP]

/-- `CouplingAnalysisPurePython.correlatedNoiseSurrogates` as a whole, composed with the DFT pair:
for every real series, every history of calls on the object (the phases are multiplied into the
memoised FFT in place), every call succeeds and `real(ifft(·))` of the array it builds has the
amplitude of the data at **every** bin. -/
theorem cnsCalls_surrogate_amplitudes {n : ℕ} [NeZero n] (x : ZMod n → ℝ)
    (phases : List (List ℝ)) (h : ∀ φs ∈ phases, (φs.length : Int) = cnsLen (n : Int)) :
    ∃ outs, cnsCalls realTrig (fullSpectrum x) phases = some outs ∧ outs.length = phases.length ∧
      ∀ out ∈ outs, ∀ k : ZMod n,
        ‖𝓕 (fun t => ((realIfft (fullFn out) t : ℝ) : ℂ)) k‖ = ‖𝓕 (fun t => (x t : ℂ)) k‖ := by
  obtain ⟨outs, ho, hl, hall⟩ := cnsCalls_hermitian phases (fullSpectrum x) (fullSpectrum_hermL x)
    (by rw [fullSpectrum_length]; exact h)
  refine ⟨outs, ho, hl, ?_⟩
  intro out hout k
  obtain ⟨hH, hN⟩ := hall out hout
  have hlen : out.length = n := by
    rw [← fullSpectrum_length x]; simpa using congrArg List.length hN
  rw [dft_realIfft_of_hermitian (fullFn out) (fullFn_hermitian out hH hlen),
    ← fullFn_fullSpectrum x k]
  exact norm_getD_eq_of_map_normSq hN k.val

end Pyunicorn.Surrogates
