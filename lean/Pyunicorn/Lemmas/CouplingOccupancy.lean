import Pyunicorn.Model.Coupling4
import Pyunicorn.Lemmas.CouplingQuantile
import Mathlib.Tactic.Ring
/-!
# C10 round 4: equal occupancy of the quantile bins, and the width of the `LAG` store

* `_quantile_bin_array`: for a tie-free row whose length is a multiple of `bins`, every symbol
  `0 … bins-1` is taken by exactly `T / bins` samples (`qbin_occupancy`).  The proof follows the
  slicing `sort(row)[::m]`: the sorted row is cut into its first `m` elements (symbol `0`: only the
  first edge is `≤` them, every later edge lies in the remainder and is strictly larger) and the
  remainder, whose symbols are those of the shorter row shifted by one.
* `wrapBits`: a store into a signed cell of `bits` bits is exact iff the value is in range.
-/
namespace Pyunicorn.Coupling

/-! ### insertion sort is a permutation -/

theorem perm_insertAsc (a : Rat) (l : List Rat) : (insertAsc a l).Perm (a :: l) := by
  induction l with
  | nil => simp [insertAsc]
  | cons b l ih =>
    simp only [insertAsc]
    split
    · exact List.Perm.refl _
    · exact (List.Perm.cons b ih).trans (List.Perm.swap a b l)

theorem perm_sortAsc (l : List Rat) : (sortAsc l).Perm l := by
  induction l with
  | nil => exact List.Perm.refl _
  | cons a l ih =>
    have : sortAsc (a :: l) = insertAsc a (sortAsc l) := rfl
    rw [this]
    exact (perm_insertAsc a _).trans (List.Perm.cons a ih)

/-- a tie-free row sorts to a strictly increasing list -/
theorem strict_sortAsc (l : List Rat) (hnd : l.Nodup) : (sortAsc l).Pairwise (· < ·) := by
  have hs := sorted_sortAsc l
  have hn : (sortAsc l).Nodup := (perm_sortAsc l).nodup_iff.mpr hnd
  exact (List.pairwise_and_iff.mpr ⟨hs, hn⟩).imp (fun h => lt_of_le_of_ne h.1 h.2)

/-! ### `l[::step]` picks elements of `l` -/

theorem mem_everyNth (step : Nat) (n : Nat) :
    ∀ l : List Rat, l.length ≤ n → ∀ y, y ∈ everyNth step l → y ∈ l := by
  induction n with
  | zero =>
    intro l hl y hy
    have : l = [] := List.eq_nil_of_length_eq_zero (by omega)
    subst this
    rw [everyNth_nil] at hy; exact hy
  | succ n ih =>
    intro l hl y hy
    cases l with
    | nil => rw [everyNth_nil] at hy; exact hy
    | cons a t =>
      rw [everyNth_cons] at hy
      rcases List.mem_cons.mp hy with e | e
      · rw [e]; exact List.mem_cons_self
      · have hl' : t.length ≤ n := by simpa using hl
        have hd : (t.drop (step - 1)).length ≤ n := by rw [List.length_drop]; omega
        exact List.mem_cons_of_mem _ (List.mem_of_mem_drop (ih _ hd y e))

/-! ### occupancy -/

/-- number of elements of `l` with symbol `a` with respect to `edges` -/
def occ (edges l : List Rat) (a : Int) : Nat :=
  (l.filter (fun x => decide (quantileSym edges x = a))).length

theorem occ_append (edges l1 l2 : List Rat) (a : Int) :
    occ edges (l1 ++ l2) a = occ edges l1 a + occ edges l2 a := by
  unfold occ; rw [List.filter_append, List.length_append]

theorem occ_congr (E E' l : List Rat) (a a' : Int)
    (h : ∀ x ∈ l, (quantileSym E x = a ↔ quantileSym E' x = a')) : occ E l a = occ E' l a' := by
  unfold occ
  congr 1
  apply List.filter_congr
  intro x hx
  have := h x hx
  by_cases h1 : quantileSym E x = a
  · simp [h1, this.mp h1]
  · have h2 : ¬ quantileSym E' x = a' := fun e => h1 (this.mpr e)
    simp [h1, h2]

theorem occ_all (E l : List Rat) (a : Int) (h : ∀ x ∈ l, quantileSym E x = a) :
    occ E l a = l.length := by
  unfold occ
  rw [List.filter_eq_self.mpr]
  intro x hx; simp [h x hx]

theorem occ_none (E l : List Rat) (a : Int) (h : ∀ x ∈ l, quantileSym E x ≠ a) : occ E l a = 0 := by
  unfold occ
  rw [List.length_eq_zero_iff, List.filter_eq_nil_iff]
  intro x hx; simp [h x hx]

theorem occ_perm (E l l' : List Rat) (a : Int) (h : l.Perm l') : occ E l a = occ E l' a := by
  unfold occ; exact (h.filter _).length_eq

/-- **equal occupancy** on a strictly increasing list of length `m · b`: symbol `a` is taken by `m`
elements if `0 ≤ a < b`, by none otherwise -/
theorem occ_sorted (m : Nat) (hm : 1 ≤ m) (b : Nat) :
    ∀ s : List Rat, s.Pairwise (· < ·) → s.length = m * b → ∀ a : Int,
      occ (everyNth m s) s a = if 0 ≤ a ∧ a < (b : Int) then m else 0 := by
  induction b with
  | zero =>
    intro s _ hl a
    have : s = [] := List.eq_nil_of_length_eq_zero (by simpa using hl)
    subst this
    have : ¬ (0 ≤ a ∧ a < ((0 : Nat) : Int)) := by omega
    rw [if_neg this]; rfl
  | succ b ih =>
    intro s hs hl a
    have hlen : s.length = m + m * b := by rw [hl]; ring
    cases s with
    | nil => simp at hlen; omega
    | cons h t =>
      have hsplit : (h :: t) = (h :: t).take m ++ (h :: t).drop m := (List.take_append_drop m _).symm
      have hdrop : (h :: t).drop m = t.drop (m - 1) := by
        obtain ⟨m', rfl⟩ : ∃ m', m = m' + 1 := ⟨m - 1, by omega⟩
        simp
      have hE : everyNth m (h :: t) = h :: everyNth m ((h :: t).drop m) := by
        rw [everyNth_cons, hdrop]
      have hpw := hs
      rw [hsplit, List.pairwise_append] at hpw
      obtain ⟨_, hpd, hcross⟩ := hpw
      have hdl : ((h :: t).drop m).length = m * b := by rw [List.length_drop, hlen]; omega
      have htl : ((h :: t).take m).length = m := by rw [List.length_take, hlen]; omega
      have hhead : ∀ x ∈ h :: t, h ≤ x := by
        intro x hx
        rcases List.mem_cons.mp hx with e | e
        · rw [e]
        · exact le_of_lt ((List.pairwise_cons.mp hs).1 x e)
      set D := (h :: t).drop m with hD
      set K := (h :: t).take m with hK
      have hEmem : ∀ e ∈ everyNth m D, e ∈ D := fun e he => mem_everyNth m D.length D (Nat.le_refl _) e he
      -- symbols of the first `m` elements: only the first edge is below them
      have hsym0 : ∀ x ∈ K, quantileSym (h :: everyNth m D) x = 0 := by
        intro x hx
        have hx' : x ∈ h :: t := by rw [hsplit]; exact List.mem_append_left _ hx
        have hnone : (everyNth m D).filter (fun e => decide (e ≤ x)) = [] := by
          rw [List.filter_eq_nil_iff]
          intro e he
          have := hcross x hx e (hEmem e he)
          simp [not_le.mpr this]
        unfold quantileSym
        simp [List.filter_cons, hhead x hx', hnone]
      -- symbols of the remainder: one more than with respect to the remaining edges
      have hsym1 : ∀ x ∈ D, quantileSym (h :: everyNth m D) x = quantileSym (everyNth m D) x + 1 := by
        intro x hx
        have hx' : x ∈ h :: t := by rw [hsplit]; exact List.mem_append_right _ hx
        unfold quantileSym
        simp [List.filter_cons, hhead x hx']
      rw [hE]
      conv_lhs => rw [hsplit]
      rw [occ_append]
      have h1 : occ (h :: everyNth m D) K a = if a = 0 then m else 0 := by
        by_cases ha : a = 0
        · rw [if_pos ha, occ_all _ _ _ (fun x hx => by rw [hsym0 x hx, ha]), htl]
        · rw [if_neg ha, occ_none _ _ _ (fun x hx => by rw [hsym0 x hx]; exact fun e => ha e.symm)]
      have h2 : occ (h :: everyNth m D) D a = occ (everyNth m D) D (a - 1) := by
        apply occ_congr
        intro x hx
        rw [hsym1 x hx]
        constructor <;> intro e <;> omega
      rw [h1, h2, ih D hpd hdl (a - 1)]
      by_cases ha : a = 0
      · subst ha; simp
      · by_cases hr : 0 ≤ a ∧ a < ((b + 1 : Nat) : Int)
        · have : 0 ≤ a - 1 ∧ a - 1 < (b : Int) := by omega
          rw [if_neg ha, if_pos this, if_pos hr]; omega
        · have : ¬ (0 ≤ a - 1 ∧ a - 1 < (b : Int)) := by omega
          rw [if_neg ha, if_neg this, if_neg hr]

theorem binEdge_of_dvd (m bins : Nat) (hb : 1 ≤ bins) : binEdge (m * bins) bins = m := by
  unfold binEdge
  have : m * bins + bins - 1 = (bins - 1) + bins * m := by
    rw [Nat.mul_comm]; omega
  rw [this, Nat.add_mul_div_left _ _ (by omega : 0 < bins), Nat.div_eq_of_lt (by omega)]
  omega

/-- **equal occupancy of the quantile bins**: tie-free row, `T = m · bins` -/
theorem qbinOccupancy_eq (row : List Rat) (bins m : Nat) (hb : 1 ≤ bins) (hm : 1 ≤ m)
    (hT : row.length = m * bins) (hnd : row.Nodup) (a : Int) :
    qbinOccupancy row bins a = if 0 ≤ a ∧ a < (bins : Int) then m else 0 := by
  have hocc : qbinOccupancy row bins a = occ (quantileEdges row bins) row a := by
    unfold qbinOccupancy quantileBinRow occ
    rw [List.filter_map, List.length_map]
    rfl
  rw [hocc, occ_perm _ _ _ _ (perm_sortAsc row).symm]
  unfold quantileEdges
  rw [hT, binEdge_of_dvd m bins hb]
  exact occ_sorted m hm bins (sortAsc row) (strict_sortAsc row hnd)
    (by rw [length_sortAsc, hT]) a

/-! ### the `LAG` store -/

theorem two_pow_split (bits : Nat) (hb : 1 ≤ bits) : (2 : Int) ^ bits = 2 * 2 ^ (bits - 1) := by
  obtain ⟨m, rfl⟩ : ∃ m, bits = m + 1 := ⟨bits - 1, by omega⟩
  simp [pow_succ]; ring

/-- a store into a signed `bits`-bit cell keeps the value iff it is in `[-2^(bits-1), 2^(bits-1))` -/
theorem wrapBits_eq_iff (bits : Nat) (hb : 1 ≤ bits) (z : Int) :
    wrapBits bits z = z ↔ -(2 ^ (bits - 1) : Int) ≤ z ∧ z < 2 ^ (bits - 1) := by
  unfold wrapBits
  have hM : (0 : Int) < 2 ^ (bits - 1) := by positivity
  rw [two_pow_split bits hb]
  generalize (2 : Int) ^ (bits - 1) = M at *
  constructor
  · intro h
    have h1 := Int.emod_nonneg (z + M) (by omega : 2 * M ≠ 0)
    have h3 := Int.emod_lt_of_pos (z + M) (by omega : 0 < 2 * M)
    omega
  · intro ⟨h1, h3⟩
    rw [Int.emod_eq_of_lt (by omega) (by omega)]; omega

/-- whatever is stored, what is read back is in range -/
theorem wrapBits_range (bits : Nat) (hb : 1 ≤ bits) (z : Int) :
    -(2 ^ (bits - 1) : Int) ≤ wrapBits bits z ∧ wrapBits bits z < 2 ^ (bits - 1) := by
  unfold wrapBits
  have hM : (0 : Int) < 2 ^ (bits - 1) := by positivity
  rw [two_pow_split bits hb]
  generalize (2 : Int) ^ (bits - 1) = M at *
  have h1 := Int.emod_nonneg (z + M) (by omega : 2 * M ≠ 0)
  have h3 := Int.emod_lt_of_pos (z + M) (by omega : 0 < 2 * M)
  omega

/-- one period above the range the value comes back `2^bits` too small -/
theorem wrapBits_above (bits : Nat) (hb : 1 ≤ bits) (z : Int) (h1 : (2 ^ (bits - 1) : Int) ≤ z)
    (h2 : z < 3 * 2 ^ (bits - 1)) : wrapBits bits z = z - 2 ^ bits := by
  unfold wrapBits
  rw [two_pow_split bits hb]
  generalize (2 : Int) ^ (bits - 1) = M at *
  have e : z + M = (z - M) + 1 * (2 * M) := by ring
  rw [e, Int.add_mul_emod_self_right, Int.emod_eq_of_lt (by omega) (by omega)]
  omega

end Pyunicorn.Coupling
