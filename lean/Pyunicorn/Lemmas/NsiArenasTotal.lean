import Pyunicorn.Lemmas.NsiNewmanReg
import Pyunicorn.Lemmas.NsiWrappedArenas
/-!
Round 5h: **`arenasWrapped` is total** — regularity of `1 − P_i` (round 5, `arenas_regular`)
combined with the completeness of C18's Gauss–Jordan (round 5f, `inverse_isSome_iff`) and its
soundness (round 5e, `inverse_right`).

`arenasV H σ i` runs `Circuit.inverse H.n (1 − P)` with `P = sp_Pi` materialised, and returns
`R · P`.  `arenasAll` returns `some (l, ok)` iff every `arenasV` returned, and `ok` says that every
`R · P` solves `(1 − P) V = P` exactly; the wrapper keeps `l` only if `ok`.

* `arenas_block_regular` — `ArenasRegular` says exactly that the block handed to
  `Circuit.inverse` is not `SingularBlock`; hence `arenasV_isSome`;
* `solve_of_right_inv` / `arenasV_solves` — `R` is a right inverse of `1 − P` (`inverse_right`),
  so `V = R P` satisfies `V − P V = (1 − P) R P = P`: the flag `ok` is `true`;
* `arenasAll_total` — on a network all of whose systems are regular `arenasAll` returns
  `some (l, true)`; `arenasCompF_ne_none` — so does the wrapper's per-component function on every
  connected undirected network with positive weights, for both stopping rules;
* `arenasWrapped_ne_none` — with `perComponent_none_iff`, `mem_compList`, `subGr_comp_connected`.
-/
namespace Pyunicorn.Nsi
open Finset

/-- C18's sum is C02's sum -/
theorem circuitSumTo_eq_sumR (n : Nat) (f : Nat → Rat) : Circuit.sumTo n f = sumR n f := by
  unfold Circuit.sumTo sumR
  induction n with
  | zero => simp
  | succ n ih =>
    rw [List.range_succ, List.foldl_append, List.map_append, List.sum_append, ← ih]
    simp

/-- a row of `1 − P` applied to a vector -/
theorem one_sub_row (n : Nat) (P v : Nat → Rat) (s : Nat) (hs : s < n) :
    ∑ l ∈ range n, ((if s = l then (1 : Rat) else 0) - P l) * v l
      = v s - ∑ l ∈ range n, P l * v l := by
  have e : ∀ l ∈ range n, ((if s = l then (1 : Rat) else 0) - P l) * v l
      = (if s = l then v l else 0) - P l * v l := by
    intro l _
    by_cases h : s = l <;> simp [h, sub_mul]
  rw [Finset.sum_congr rfl e, Finset.sum_sub_distrib, Finset.sum_ite_eq]
  simp [hs]

/-- **`ArenasRegular` is regularity of the block the elimination gets** -/
theorem arenas_block_regular (H : Gr) (sg : Nat → Nat → Rat) (i : Nat)
    (hreg : ArenasRegular H sg i) :
    ¬ SingularBlock H.n (fun s j => (if s = j then 1 else 0)
        - Circuit.toFun (Circuit.ofFun H.n (arenasP H sg i)) s j) := by
  rintro ⟨v, ⟨l, hl, hne⟩, hker⟩
  apply hne
  apply hreg v _ l hl
  intro s hs
  have h := hker s hs
  rw [sumR_eq_finset] at h ⊢
  rw [one_sub_row H.n _ v s hs] at h
  rw [← h]
  congr 1
  apply Finset.sum_congr rfl
  intro m hm
  rw [toFun_ofFun H.n _ s m hs (Finset.mem_range.mp hm)]

/-- the elimination of target `i` returns when the system is regular -/
theorem arenasV_isSome (H : Gr) (sg : Nat → Nat → Rat) (i : Nat) (hreg : ArenasRegular H sg i) :
    (arenasV H sg i).isSome = true := by
  have h := (inverse_isSome_iff H.n _).mpr (arenas_block_regular H sg i hreg)
  unfold arenasV
  simp only
  split
  · rename_i hR
    rw [hR] at h
    cases h
  · rfl

/-- if `R` is a right inverse of `1 − P` then `V = R P` solves `V − P V = P` -/
theorem solve_of_right_inv (n : Nat) (P R V : Nat → Nat → Rat)
    (hR : ∀ s k, s < n → k < n →
      ∑ m ∈ range n, ((if s = m then (1 : Rat) else 0) - P s m) * R m k = if s = k then 1 else 0)
    (hV : ∀ m j, m < n → j < n → V m j = ∑ k ∈ range n, R m k * P k j)
    (s j : Nat) (hs : s < n) (hj : j < n) :
    V s j - ∑ m ∈ range n, P s m * V m j = P s j := by
  rw [← one_sub_row n (P s) (fun m => V m j) s hs]
  calc ∑ m ∈ range n, ((if s = m then (1 : Rat) else 0) - P s m) * V m j
      = ∑ m ∈ range n, ∑ k ∈ range n,
          ((if s = m then (1 : Rat) else 0) - P s m) * R m k * P k j := by
        apply Finset.sum_congr rfl
        intro m hm
        rw [hV m j (Finset.mem_range.mp hm) hj, Finset.mul_sum]
        apply Finset.sum_congr rfl
        intro k _
        ring
    _ = ∑ k ∈ range n,
          (∑ m ∈ range n, ((if s = m then (1 : Rat) else 0) - P s m) * R m k) * P k j := by
        rw [Finset.sum_comm]
        apply Finset.sum_congr rfl
        intro k _
        rw [Finset.sum_mul]
    _ = ∑ k ∈ range n, (if s = k then P k j else 0) := by
        apply Finset.sum_congr rfl
        intro k hk
        rw [hR s k hs (Finset.mem_range.mp hk)]
        by_cases h : s = k <;> simp [h]
    _ = P s j := by
        rw [Finset.sum_ite_eq]
        simp [hs]

/-- **what `arenasV` returns passes `arenasSolves`**: the flag `ok` of `arenasAll` is `true`
whenever the eliminations return -/
theorem arenasV_solves (H : Gr) (sg : Nat → Nat → Rat) (i : Nat) (V : Nat → Nat → Rat)
    (h : arenasV H sg i = some V) : arenasSolves H sg i V = true := by
  unfold arenasV at h
  simp only at h
  split at h
  · cases h
  · rename_i R hR
    simp only [Option.some.injEq] at h
    subst h
    simp only [arenasSolves, List.all_eq_true, List.mem_range]
    intro s hs j hj
    rw [beq_iff_eq, sumR_eq_finset]
    apply solve_of_right_inv H.n _ R _ _ _ s j hs hj
    · intro s k hs hk
      have := inverse_right H.n _ R hR s k hs hk
      rw [sumR_eq_finset] at this
      exact this
    · intro m j hm hj
      unfold Circuit.mmul
      rw [toFun_ofFun H.n _ m j hm hj, circuitSumTo_eq_sumR, sumR_eq_finset]
      apply Finset.sum_congr rfl
      intro k hk
      rw [toFun_ofFun H.n R m k hm (Finset.mem_range.mp hk)]

/-- **`arenasAll` returns, and with the flag `true`**, when all systems are regular -/
theorem arenasAll_total (H : Gr) (sigma : Nat → Nat → Rat) (excl : Bool)
    (hreg : ∀ i, i < H.n → ArenasRegular H (Circuit.toFun (Circuit.ofFun H.n sigma)) i) :
    ∃ l, arenasAll H sigma excl = some (l, true) := by
  cases h : arenasAll H sigma excl with
  | none =>
    exfalso
    unfold arenasAll at h
    simp only at h
    split at h
    · cases h
    · rename_i hn
      apply hn
      simp only [List.all_map, List.all_eq_true, List.mem_range, Function.comp_apply]
      intro i hi
      exact arenasV_isSome H _ i (hreg i hi)
  | some lo =>
    obtain ⟨l, ok⟩ := lo
    refine ⟨l, ?_⟩
    unfold arenasAll at h
    simp only at h
    split at h
    · simp only [Option.some.injEq, Prod.mk.injEq] at h
      obtain ⟨_, hok⟩ := h
      have hk : ok = true := by
        rw [← hok]
        simp only [List.all_eq_true, List.mem_range]
        intro i hi
        have hV : (((List.range H.n).map fun i =>
              arenasV H (Circuit.toFun (Circuit.ofFun H.n sigma)) i).map
              fun o => o.getD (fun _ _ => 0)).getD i (fun _ _ => 0)
            = (arenasV H (Circuit.toFun (Circuit.ofFun H.n sigma)) i).getD (fun _ _ => 0) := by
          simp [List.getD_eq_getElem?_getD, hi]
        rw [hV]
        have hs := arenasV_isSome H _ i (hreg i hi)
        cases hv : arenasV H (Circuit.toFun (Circuit.ofFun H.n sigma)) i with
        | none => rw [hv] at hs; cases hs
        | some V => exact arenasV_solves H _ i V hv
      rw [hk]
    · cases h

/-- the wrapper's per-component function returns on every connected undirected network with
positive node weights, for both stopping rules and both values of `exclude_neighbors` -/
theorem arenasCompF_ne_none (H : Gr) (hsym : ∀ i j, H.adj i j = H.adj j i)
    (hw : ∀ k, k < H.n → 0 < H.w k) (hconn : Connected H) (twin excl : Bool) :
    arenasCompF twin excl H ≠ none := by
  have hreg : ∀ sg : Nat → Nat → Rat,
      (∀ a, a < H.n → sg a a = 1) →
      (∀ a b, a < H.n → b < H.n → 0 ≤ sg a b ∧ sg a b ≤ 1) →
      ∀ i, i < H.n → ArenasRegular H (Circuit.toFun (Circuit.ofFun H.n sg)) i := by
    intro sg h1 h2 i hi
    apply arenas_regular H hw hconn _ i hi
    · rw [toFun_ofFun H.n sg i i hi hi]; exact h1 i hi
    · intro r hr _
      rw [toFun_ofFun H.n sg i r hi hr]; exact h2 i r hi hr
  unfold arenasCompF
  simp only
  cases twin with
  | false =>
    obtain ⟨l, hl⟩ := arenasAll_total H (fun _ _ => 1) excl
      (hreg _ (fun _ _ => rfl) (fun _ _ _ _ => ⟨by norm_num, le_refl _⟩))
    simp [hl]
  | true =>
    obtain ⟨l, hl⟩ := arenasAll_total H (fun a b => eval H [a, b] M.nsiTwinness) excl
      (hreg _ (fun a ha => twinness_diag H hw (aplus_symm H hsym) a ha)
        (fun a b ha _ => twinness_bounds H hw a b ha))
    simp [hl]

/-- **the modelled wrapper of `nsi_arenas_betweenness` always returns an array** on undirected
networks with positive node weights, for all four argument patterns -/
theorem arenasWrapped_ne_none (G : Gr) (hsym : ∀ i j, G.adj i j = G.adj j i)
    (hw : ∀ k, k < G.n → 0 < G.w k) (twin excl : Bool) : arenasWrapped G twin excl ≠ none := by
  intro h
  rw [arenasWrapped_eq, perComponent_none_iff] at h
  obtain ⟨c, hc, _, hf⟩ := h
  obtain ⟨a, ha, e, _⟩ := (mem_compList G c).mp hc
  subst e
  exact arenasCompF_ne_none (subGr G (compNodes G a)) (fun i j => hsym _ _)
    (subGr_weights_pos G _ (fun x hx => compNodes_lt _ _ x hx) hw)
    (subGr_comp_connected G hsym a ha) twin excl hf

end Pyunicorn.Nsi
