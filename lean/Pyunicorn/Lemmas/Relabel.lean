import Pyunicorn.Model.Relabel
import Mathlib.Algebra.BigOperators.Group.List.Basic
import Mathlib.Data.List.Nodup
import Mathlib.Algebra.Ring.Rat
/-! Permutation toolkit for C04: sums / maxima / quantifiers over all nodes do not depend on the
numbering; the inverse permutation. -/
namespace Pyunicorn.Relabel

/-- what `permuted_copy` checks of its argument: `sorted(idx) == arange(N)` -/
def IsPerm (n : Nat) (idx : Nat → Nat) : Prop := ((List.range n).map idx).Perm (List.range n)

theorem any_congr_mem {α : Type} (l : List α) (p q : α → Bool) (h : ∀ a ∈ l, p a = q a) :
    l.any p = l.any q := by
  induction l with
  | nil => rfl
  | cons x t ih =>
    simp only [List.any_cons]
    rw [h x (by simp), ih fun a ha => h a (by simp [ha])]

theorem all_congr_mem {α : Type} (l : List α) (p q : α → Bool) (h : ∀ a ∈ l, p a = q a) :
    l.all p = l.all q := by
  induction l with
  | nil => rfl
  | cons x t ih =>
    simp only [List.all_cons]
    rw [h x (by simp), ih fun a ha => h a (by simp [ha])]

namespace IsPerm
variable {n : Nat} {idx : Nat → Nat}

theorem lt (h : IsPerm n idx) {a : Nat} (ha : a < n) : idx a < n := by
  have : idx a ∈ (List.range n).map idx := List.mem_map.mpr ⟨a, List.mem_range.mpr ha, rfl⟩
  exact List.mem_range.mp ((h.mem_iff).mp this)

theorem inj (h : IsPerm n idx) {a b : Nat} (ha : a < n) (hb : b < n) (e : idx a = idx b) :
    a = b := by
  have hnd : ((List.range n).map idx).Nodup := h.nodup_iff.mpr List.nodup_range
  exact List.inj_on_of_nodup_map hnd (List.mem_range.mpr ha) (List.mem_range.mpr hb) e

theorem eq_iff (h : IsPerm n idx) {a b : Nat} (ha : a < n) (hb : b < n) :
    idx a = idx b ↔ a = b := ⟨h.inj ha hb, fun e => by rw [e]⟩

theorem beq_eq (h : IsPerm n idx) {a b : Nat} (ha : a < n) (hb : b < n) :
    (a == b) = (idx a == idx b) := by
  rw [Bool.eq_iff_iff]; simp only [beq_iff_eq]; exact (h.eq_iff ha hb).symm

theorem bne_eq (h : IsPerm n idx) {a b : Nat} (ha : a < n) (hb : b < n) :
    (a != b) = (idx a != idx b) := by
  rw [Bool.eq_iff_iff]; simp only [bne_iff_ne, ne_eq, not_iff_not]; exact (h.eq_iff ha hb).symm

theorem surj (h : IsPerm n idx) {b : Nat} (hb : b < n) : ∃ a, a < n ∧ idx a = b := by
  have : b ∈ (List.range n).map idx := (h.mem_iff).mpr (List.mem_range.mpr hb)
  obtain ⟨a, ha, e⟩ := List.mem_map.mp this
  exact ⟨a, List.mem_range.mp ha, e⟩

theorem map_comp (F : Nat → α) :
    ((List.range n).map fun a => F (idx a)) = ((List.range n).map idx).map F := by
  simp [List.map_map, Function.comp_def]

/-- sums over all nodes -/
theorem sum_eq {M : Type} [AddCommMonoid M] (h : IsPerm n idx) (F : Nat → M) :
    ((List.range n).map fun a => F (idx a)).sum = ((List.range n).map F).sum := by
  rw [map_comp]; exact (List.Perm.map F h).sum_eq

theorem any_eq (h : IsPerm n idx) (p : Nat → Bool) :
    ((List.range n).any fun a => p (idx a)) = (List.range n).any p := by
  have := (List.Perm.map p h).any_eq (f := id)
  simpa [List.any_map, Function.comp_def] using this

theorem all_eq (h : IsPerm n idx) (p : Nat → Bool) :
    ((List.range n).all fun a => p (idx a)) = (List.range n).all p := by
  have := (List.Perm.map p h).all_eq (f := id)
  simpa [List.all_map, Function.comp_def] using this

/-- number of nodes with a property -/
theorem countP_eq (h : IsPerm n idx) (p : Nat → Bool) :
    ((List.range n).countP fun a => p (idx a)) = (List.range n).countP p := by
  have := (List.Perm.countP_eq p h)
  simpa [List.countP_map, Function.comp_def] using this

/-- `inv` is the inverse permutation -/
theorem idx_inv (h : IsPerm n idx) {k : Nat} (hk : k < n) : idx (inv n idx k) = k ∧ inv n idx k < n := by
  obtain ⟨a, ha, e⟩ := h.surj hk
  unfold inv
  cases hf : (List.range n).find? fun a => idx a == k with
  | none =>
    have := List.find?_eq_none.mp hf a (List.mem_range.mpr ha)
    simp [e] at this
  | some c =>
    have h1 := List.find?_some hf
    have h2 := List.mem_of_find?_eq_some hf
    simp only [Option.getD_some]
    exact ⟨by simpa using h1, List.mem_range.mp h2⟩

theorem inv_idx (h : IsPerm n idx) {a : Nat} (ha : a < n) : inv n idx (idx a) = a := by
  have := h.idx_inv (h.lt ha)
  exact h.inj this.2 ha this.1

end IsPerm

/-- the identity and every transposition-free example is a permutation; used for non-vacuity -/
theorem isPerm_id (n : Nat) : IsPerm n id := by simp [IsPerm]

/-! ### per-node result arrays -/

theorem nodeList_length {α : Type} (n : Nat) (idx : Nat → Nat) (d : α) (l : List α) :
    (nodeList n idx d l).length = n := by simp [nodeList]

theorem nodeList_getD {α : Type} (n : Nat) (idx : Nat → Nat) (d : α) (l : List α) (v : Nat)
    (hv : v < n) : (nodeList n idx d l).getD v d = l.getD (idx v) d := by
  simp [nodeList, List.getD_eq_getElem?_getD, hv]

theorem getD_map_range {α : Type} (n : Nat) (f : Nat → α) (d : α) (v : Nat) (hv : v < n) :
    ((List.range n).map f).getD v d = f v := by
  simp [List.getD_eq_getElem?_getD, hv]

/-- renumbering a per-node array is injective on arrays of length `n` -/
theorem nodeList_inj {α : Type} {n : Nat} {idx : Nat → Nat} (h : IsPerm n idx) (d : α)
    (x y : List α) (hx : x.length = n) (hy : y.length = n)
    (e : nodeList n idx d x = nodeList n idx d y) : x = y := by
  apply List.ext_getElem (by rw [hx, hy])
  intro u hu _
  rw [hx] at hu
  obtain ⟨a, ha, rfl⟩ := h.surj hu
  have := congrArg (fun l => l.getD a d) e
  simp only [nodeList_getD n idx d _ a ha] at this
  simpa [List.getD_eq_getElem?_getD, hx, hy, hu] using this

end Pyunicorn.Relabel
