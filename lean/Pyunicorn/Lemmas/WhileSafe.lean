import Pyunicorn.Model.WhileKernels
/-! C20 — the adaptive-neighbourhood kernel on *well-formed* tables never
presents an index outside a buffer (so it neither raises IndexError nor would
touch foreign memory if Cython's bounds checks were compiled out).
Core Lean only. -/
namespace Pyunicorn.WhileKernels

/-- `m` is an `n × n` matrix -/
def Square (n : Nat) (m : IMat) : Prop := m.length = n ∧ ∀ row ∈ m, row.length = n

/-- `sorted_neighbors[l, k]` exists for every state `l < n` and every column
`k < nT` and names a state `< n` (what `distance.argsort(axis=1)` produces) -/
def SNok (n nT : Nat) (sn : IMat) : Prop :=
  ∀ (l : Int) (k : Nat), 0 ≤ l → l < (n : Int) → k < nT →
    ∃ c, get2 sn l (k : Int) = some c ∧ 0 ≤ c ∧ c < (n : Int)

/-- `order[j]` exists for `j < nT` and names a state `< n` -/
def ORDok (n nT : Nat) (order : List Int) : Prop :=
  ∀ j : Nat, j < nT → ∃ l, get1 order (j : Int) = some l ∧ 0 ≤ l ∧ l < (n : Int)

theorem get2_some {n : Nat} {m : IMat} (h : Square n m) {r c : Int}
    (r0 : 0 ≤ r) (r1 : r < (n : Int)) (c0 : 0 ≤ c) (c1 : c < (n : Int)) :
    ∃ v, get2 m r c = some v := by
  obtain ⟨i, rfl⟩ := Int.eq_ofNat_of_zero_le r0
  obtain ⟨j, rfl⟩ := Int.eq_ofNat_of_zero_le c0
  have hi : i < m.length := by rw [h.1]; omega
  have hrow : (m[i]).length = n := h.2 _ (List.getElem_mem hi)
  have hj : j < (m[i]).length := by rw [hrow]; omega
  refine ⟨(m[i])[j], ?_⟩
  unfold get2
  have : ¬ ((i : Int) < 0 ∨ (j : Int) < 0) := by omega
  rw [if_neg this]
  simp [List.getElem?_eq_getElem hi, List.getElem?_eq_getElem hj]

theorem Square.modify {n : Nat} {m : IMat} (h : Square n m) (i j : Nat) (v : Int) :
    Square n (m.modify i (fun row => row.set j v)) := by
  refine ⟨by simp [h.1], ?_⟩
  intro row hrow
  rw [List.mem_iff_getElem] at hrow
  obtain ⟨k, hk, rfl⟩ := hrow
  rw [List.getElem_modify]
  have hk' : k < m.length := by simpa using hk
  have := h.2 _ (List.getElem_mem hk')
  split <;> simp [this]

theorem set2_some {n : Nat} {m : IMat} (h : Square n m) {r c : Int} (v : Int)
    (r0 : 0 ≤ r) (r1 : r < (n : Int)) (c0 : 0 ≤ c) (c1 : c < (n : Int)) :
    ∃ m', set2 m r c v = some m' ∧ Square n m' := by
  obtain ⟨x, hx⟩ := get2_some h r0 r1 c0 c1
  refine ⟨_, ?_, h.modify r.toNat c.toNat v⟩
  unfold set2
  rw [hx]

/-- the scan never fails on well-formed tables -/
theorem scan_some {n nT : Nat} {recur sn : IMat} (hr : Square n recur) (hs : SNok n nT sn)
    {l : Int} (l0 : 0 ≤ l) (l1 : l < (n : Int)) (f k0 : Nat) :
    ∃ k, scan recur sn l nT f k0 = some k := by
  induction f generalizing k0 with
  | zero => exact ⟨k0, rfl⟩
  | succ f ih =>
    unfold scan
    split
    · rename_i hk
      obtain ⟨c, hc, c0, c1⟩ := hs l k0 l0 l1 hk
      rw [hc]
      obtain ⟨v, hv⟩ := get2_some hr l0 l1 c0 c1
      simp only [hv]
      split
      · exact ih _
      · exact ⟨k0, rfl⟩
    · exact ⟨k0, rfl⟩

/-- one `(i, j)` step succeeds and keeps the matrix square -/
theorem body_some {n nT : Nat} {recur sn : IMat} {order : List Int}
    (hr : Square n recur) (hs : SNok n nT sn) (ho : ORDok n nT order) (i j : Nat) (hj : j < nT) :
    ∃ r', body sn order nT i j recur = some r' ∧ Square n r' := by
  obtain ⟨l, hl, l0, l1⟩ := ho j hj
  obtain ⟨k, hk⟩ := scan_some hr hs l0 l1 (nT + 2) (i + 1)
  unfold body
  simp only [hl, hk]
  split
  · rename_i hkn
    obtain ⟨c, hc, c0, c1⟩ := hs l k l0 l1 hkn
    simp only [hc]
    obtain ⟨r1, h1, s1⟩ := set2_some hr 1 l0 l1 c0 c1
    simp only [h1]
    exact set2_some s1 1 c0 c1 l0 l1
  · exact ⟨recur, rfl, hr⟩

theorem inner_some {n nT : Nat} {sn : IMat} {order : List Int}
    (hs : SNok n nT sn) (ho : ORDok n nT order) (i : Nat) (js : List Nat)
    (hjs : ∀ j ∈ js, j < nT) (recur : IMat) (hr : Square n recur) :
    ∃ r', js.foldl (fun acc j => acc.bind (body sn order nT i j)) (some recur) = some r'
      ∧ Square n r' := by
  induction js generalizing recur with
  | nil => exact ⟨recur, rfl, hr⟩
  | cons j t ih =>
    obtain ⟨r1, h1, s1⟩ := body_some hr hs ho i j (hjs j (by simp))
    simp only [List.foldl_cons, Option.bind_some, h1]
    exact ih (fun x hx => hjs x (by simp [hx])) r1 s1

theorem outer_some {n nT : Nat} {sn : IMat} {order : List Int}
    (hs : SNok n nT sn) (ho : ORDok n nT order) (is : List Nat) (recur : IMat)
    (hr : Square n recur) :
    ∃ r', is.foldl (fun acc i =>
        (List.range nT).foldl (fun acc j => acc.bind (body sn order nT i j)) acc) (some recur)
      = some r' ∧ Square n r' := by
  induction is generalizing recur with
  | nil => exact ⟨recur, rfl, hr⟩
  | cons i t ih =>
    obtain ⟨r1, h1, s1⟩ := inner_some hs ho i (List.range nT)
      (fun j hj => List.mem_range.mp hj) recur hr
    simp only [List.foldl_cons, h1]
    exact ih r1 s1

/-- a failed index anywhere makes the whole call fail (IndexError propagates) -/
theorem inner_none {sn : IMat} {order : List Int} {nT i : Nat} (js : List Nat) :
    js.foldl (fun acc j => acc.bind (body sn order nT i j)) none = none := by
  induction js with
  | nil => rfl
  | cons j t ih => simpa using ih

/-- the executable well-formedness test implies the three predicates -/
theorem tablesOK_sound {n nT : Nat} {sn : IMat} {order : List Int} {recur : IMat}
    (h : tablesOK n nT sn order recur = true) :
    Square n recur ∧ SNok n nT sn ∧ ORDok n nT order := by
  simp only [tablesOK, Bool.and_eq_true, List.all_eq_true, decide_eq_true_eq, beq_iff_eq] at h
  obtain ⟨⟨⟨⟨⟨h1, h2⟩, h3⟩, h4⟩, h5⟩, h6⟩ := h
  refine ⟨⟨h1, h2⟩, ?_, ?_⟩
  · intro l k l0 l1 hk
    obtain ⟨i, rfl⟩ := Int.eq_ofNat_of_zero_le l0
    have hi : i < n := by omega
    have hil : i < sn.length := by omega
    have hit : i < (sn.take n).length := by simp [List.length_take]; omega
    have hrow := h4 ((sn.take n)[i]) (List.getElem_mem hit)
    rw [List.getElem_take] at hrow
    obtain ⟨hlen, hent⟩ := hrow
    have hkl : k < (sn[i]).length := by omega
    have hkt : k < ((sn[i]).take nT).length := by simp [List.length_take]; omega
    have hc := hent (((sn[i]).take nT)[k]) (List.getElem_mem hkt)
    rw [List.getElem_take] at hc
    refine ⟨(sn[i])[k], ?_, hc.1, hc.2⟩
    unfold get2
    have : ¬ ((i : Int) < 0 ∨ (k : Int) < 0) := by omega
    rw [if_neg this]
    simp [List.getElem?_eq_getElem hil, List.getElem?_eq_getElem hkl]
  · intro j hj
    have hjl : j < order.length := by omega
    have hjt : j < (order.take nT).length := by simp [List.length_take]; omega
    have hc := h6 ((order.take nT)[j]) (List.getElem_mem hjt)
    rw [List.getElem_take] at hc
    refine ⟨order[j], ?_, hc.1, hc.2⟩
    unfold get1
    have : ¬ ((j : Int) < 0) := by omega
    rw [if_neg this]
    simp [List.getElem?_eq_getElem hjl]

end Pyunicorn.WhileKernels
