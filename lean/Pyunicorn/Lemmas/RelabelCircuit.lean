import Pyunicorn.Lemmas.Relabel
import Pyunicorn.Lemmas.Circuit
import Pyunicorn.Lemmas.CircuitPinv
/-! C04 for the C18 model `Pyunicorn.Circuit` (ResNetwork): admittance, Laplacian, generalised
inverses, effective resistance and the measures built on it commute with renumbering. -/
namespace Pyunicorn.Relabel
open Pyunicorn.Circuit Finset

variable {n : Nat} {idx : Nat → Nat}

/-! ### sums over all nodes (the model's left folds and the `Finset` form of C18's lemmas) -/

theorem csum_list (f : Nat → Rat) : Circuit.sumTo n f = ((List.range n).map f).sum := by
  unfold Circuit.sumTo
  have : ∀ (l : List Nat) (a : Rat), l.foldl (fun acc k => acc + f k) a = a + (l.map f).sum := by
    intro l
    induction l with
    | nil => simp
    | cons x t ih => intro a; simp [ih, add_assoc]
  rw [this]; simp

theorem csum_perm (h : IsPerm n idx) (f : Nat → Rat) :
    Circuit.sumTo n (fun k => f (idx k)) = Circuit.sumTo n f := by
  rw [csum_list, csum_list]; exact h.sum_eq f

theorem csum_congr (f g : Nat → Rat) (e : ∀ k, k < n → f k = g k) :
    Circuit.sumTo n f = Circuit.sumTo n g := by
  rw [csum_list, csum_list]; congr 1
  exact List.map_congr_left fun k hk => e k (List.mem_range.mp hk)

theorem csum_relabel (h : IsPerm n idx) (f g : Nat → Rat) (e : ∀ k, k < n → f k = g (idx k)) :
    Circuit.sumTo n f = Circuit.sumTo n g := (csum_congr f _ e).trans (csum_perm h g)

theorem fsum_perm (h : IsPerm n idx) (f : Nat → Rat) :
    ∑ k ∈ range n, f (idx k) = ∑ k ∈ range n, f k := by
  rw [← sumTo_eq, ← sumTo_eq]; exact csum_perm h f

theorem fsum_relabel (h : IsPerm n idx) (f g : Nat → Rat) (e : ∀ k, k < n → f k = g (idx k)) :
    ∑ k ∈ range n, f k = ∑ k ∈ range n, g k := by
  rw [← fsum_perm h g]
  exact Finset.sum_congr rfl fun k hk => e k (Finset.mem_range.mp hk)

/-! ### admittance and Laplacian -/

/-- `update_admittance` on the renumbered adjacency / resistances -/
theorem admittance_relabel (adj : Adj) (res : Mat) :
    admittance (mat adj idx) (mat res idx) = mat (admittance adj res) idx := rfl

theorem colSum_relabel (h : IsPerm n idx) (A : Mat) (j : Nat) :
    colSum n (mat A idx) j = colSum n A (idx j) := csum_perm h fun k => A k (idx j)

theorem rowSum_relabel (h : IsPerm n idx) (A : Mat) (i : Nat) :
    rowSum n (mat A idx) i = rowSum n A (idx i) := csum_perm h fun k => A (idx i) k

/-- `admittance_lapacian()` -/
theorem laplacian_c_relabel (h : IsPerm n idx) (adm : Mat) (i j : Nat) (hi : i < n) (hj : j < n) :
    Circuit.laplacian n (mat adm idx) i j = Circuit.laplacian n adm (idx i) (idx j) := by
  unfold Circuit.laplacian
  rw [colSum_relabel h, ite_congr (propext (h.eq_iff hi hj).symm) (fun _ => rfl) (fun _ => rfl)]
  rfl

theorem isNetwork_relabel (h : IsPerm n idx) {adj : Adj} {res : Mat} (hN : IsNetwork n adj res) :
    IsNetwork n (mat adj idx) (mat res idx) where
  adj_symm _ _ hi hj := hN.adj_symm _ _ (h.lt hi) (h.lt hj)
  res_symm _ _ hi hj := hN.res_symm _ _ (h.lt hi) (h.lt hj)
  res_pos _ _ hi hj e := hN.res_pos _ _ (h.lt hi) (h.lt hj) e

/-- connectivity does not depend on the numbering -/
theorem cutConnected_relabel (h : IsPerm n idx) {c : Mat} (hc : CutConnected n c) :
    CutConnected n (mat c idx) := by
  intro S ⟨i, hi, hSi⟩ ⟨j, hj, hSj⟩
  obtain ⟨i', j', hi', hj', h1, h2, h3⟩ := hc (fun k => S (inv n idx k))
    ⟨idx i, h.lt hi, by simpa [h.inv_idx hi] using hSi⟩
    ⟨idx j, h.lt hj, by simpa [h.inv_idx hj] using hSj⟩
  refine ⟨inv n idx i', inv n idx j', (h.idx_inv hi').2, (h.idx_inv hj').2, h1, h2, ?_⟩
  simpa [mat, (h.idx_inv hi').1, (h.idx_inv hj').1] using h3

/-! ### generalised inverses -/

/-- `L R L = L` is preserved: the renumbered inverse is a generalised inverse of the Laplacian of
the renumbered network -/
theorem isGinv_relabel (h : IsPerm n idx) (adm R : Mat)
    (hg : IsGinv n (Circuit.laplacian n adm) R) :
    IsGinv n (Circuit.laplacian n (mat adm idx)) (mat R idx) := by
  intro i j hi hj
  rw [laplacian_c_relabel h adm i j hi hj, ← hg (idx i) (idx j) (h.lt hi) (h.lt hj)]
  apply csum_relabel h
  intro l hl
  rw [laplacian_c_relabel h adm l j hl hj]
  congr 1
  apply csum_relabel h
  intro k hk
  rw [laplacian_c_relabel h adm i k hi hk]
  rfl

/-- `L R = I − J/n` is preserved -/
theorem isProj_relabel (h : IsPerm n idx) (adm R : Mat)
    (hp : IsProj n (Circuit.laplacian n adm) R) :
    IsProj n (Circuit.laplacian n (mat adm idx)) (mat R idx) := by
  intro i j hi hj
  rw [ite_congr (propext (h.eq_iff hi hj).symm) (fun _ => rfl) (fun _ => rfl),
    ← hp (idx i) (idx j) (h.lt hi) (h.lt hj)]
  apply csum_relabel h
  intro k hk
  rw [laplacian_c_relabel h adm i k hi hk]
  rfl

/-- the third Moore–Penrose equation is preserved -/
theorem isPinv13_relabel (h : IsPerm n idx) (adm R : Mat)
    (hp : IsPinv13 n (Circuit.laplacian n adm) R) :
    IsPinv13 n (Circuit.laplacian n (mat adm idx)) (mat R idx) where
  ginv := isGinv_relabel h adm R hp.ginv
  symProd := by
    intro i j hi hj
    have e : ∀ a b, a < n → b < n →
        Circuit.sumTo n (fun k => Circuit.laplacian n (mat adm idx) a k * mat R idx k b)
          = Circuit.sumTo n (fun k => Circuit.laplacian n adm (idx a) k * R k (idx b)) := by
      intro a b ha _
      apply csum_relabel h
      intro k hk
      rw [laplacian_c_relabel h adm a k ha hk]; rfl
    rw [e i j hi hj, e j i hj hi]
    exact hp.symProd _ _ (h.lt hi) (h.lt hj)

/-! ### effective resistance -/

theorem effRes_mat (h : IsPerm n idx) (R : Mat) (a b : Nat) (ha : a < n) (hb : b < n) :
    effRes (mat R idx) a b = effRes R (idx a) (idx b) := by
  unfold effRes
  rw [ite_congr (propext (h.eq_iff ha hb).symm) (fun _ => rfl) (fun _ => rfl)]
  rfl

/-- uniqueness (C18's `effRes_ginv_unique`, re-derived from its lemmas so that this file does not
depend on C18's regenerated arithmetic) -/
theorem effRes_unique (adj : Adj) (res R R' : Mat) (a b : Nat) (ha : a < n)
    (hb : b < n) (hN : IsNetwork n adj res) (hconn : CutConnected n (admittance adj res))
    (hg : IsGinv n (Circuit.laplacian n (admittance adj res)) R)
    (hg' : IsGinv n (Circuit.laplacian n (admittance adj res)) R') :
    effRes R a b = effRes R' a b := by
  obtain ⟨R₀, hp⟩ := exists_proj n _ (adm_symm hN) (adm_nonneg hN) hconn
  have hpot := pot_of_proj n _ R₀ a b ha hb hp
  have hs := lap_symm (adm_symm hN)
  rw [effRes_eq_drop n _ R _ a b ha hb hs hg hpot, effRes_eq_drop n _ R' _ a b ha hb hs hg' hpot]

/-- **effective resistance is equivariant**, whatever generalised inverses `update_R` stored for
the two numberings -/
theorem effRes_relabel (h : IsPerm n idx) (adj : Adj) (res R R' : Mat) (a b : Nat)
    (ha : a < n) (hb : b < n) (hN : IsNetwork n adj res)
    (hconn : CutConnected n (admittance adj res))
    (hg : IsGinv n (Circuit.laplacian n (admittance adj res)) R)
    (hg' : IsGinv n (Circuit.laplacian n (admittance (mat adj idx) (mat res idx))) R') :
    effRes R' a b = effRes R (idx a) (idx b) := by
  rw [← effRes_mat h R a b ha hb]
  exact effRes_unique (mat adj idx) (mat res idx) R' (mat R idx) a b ha hb
    (isNetwork_relabel h hN) (cutConnected_relabel h hconn) hg'
    (isGinv_relabel h (admittance adj res) R hg)

/-- `effective_resistance_closeness_centrality` -/
theorem ercc_relabel (h : IsPerm n idx) (R R' : Mat) (a : Nat)
    (he : ∀ i, i < n → effRes R' a i = effRes R (idx a) (idx i)) :
    ercc n R' a = ercc n R (idx a) := by
  unfold ercc
  congr 1
  exact csum_relabel h _ (fun i => effRes R (idx a) i) he

/-! ### sums over unordered pairs (`for i in range(N): for j in range(i)`) -/

theorem tri_sum (g : Nat → Nat → Rat) (m : Nat) :
    (∑ t ∈ range m, ∑ s ∈ range t, g s t) + (∑ t ∈ range m, ∑ s ∈ range t, g t s)
      + ∑ t ∈ range m, g t t = ∑ t ∈ range m, ∑ s ∈ range m, g s t := by
  induction m with
  | zero => simp
  | succ m ih =>
    simp only [Finset.sum_range_succ, Finset.sum_add_distrib] at ih ⊢
    linarith

/-- a triangular sum of a symmetric summand does not depend on the numbering -/
theorem tri_sum_relabel (h : IsPerm n idx) (g g' : Nat → Nat → Rat)
    (hs : ∀ s t, g s t = g t s) (hs' : ∀ s t, g' s t = g' t s)
    (e : ∀ s t, s < n → t < n → g' s t = g (idx s) (idx t)) :
    ∑ t ∈ range n, ∑ s ∈ range t, g' s t = ∑ t ∈ range n, ∑ s ∈ range t, g s t := by
  have h1 := tri_sum g n
  have h2 := tri_sum g' n
  have e1 : ∑ t ∈ range n, ∑ s ∈ range t, g t s = ∑ t ∈ range n, ∑ s ∈ range t, g s t :=
    Finset.sum_congr rfl fun t _ => Finset.sum_congr rfl fun s _ => hs t s
  have e2 : ∑ t ∈ range n, ∑ s ∈ range t, g' t s = ∑ t ∈ range n, ∑ s ∈ range t, g' s t :=
    Finset.sum_congr rfl fun t _ => Finset.sum_congr rfl fun s _ => hs' t s
  have e3 : ∑ t ∈ range n, g' t t = ∑ t ∈ range n, g t t :=
    fsum_relabel h _ (fun t => g t t) fun t ht => e t t ht ht
  have e4 : ∑ t ∈ range n, ∑ s ∈ range n, g' s t = ∑ t ∈ range n, ∑ s ∈ range n, g s t :=
    fsum_relabel h _ (fun t => ∑ s ∈ range n, g s t) fun t ht =>
      fsum_relabel h _ (fun s => g s (idx t)) fun s hs => e s t hs ht
  rw [e1] at h1; rw [e2, e3, e4] at h2
  linarith

/-- the hand-rolled store of all pairs sums to the triangular sum -/
theorem allPairs_sum (R : Mat) (m : Nat) :
    (allPairs m R).sum = ∑ i ∈ range m, ∑ j ∈ range i, effRes R i j := by
  unfold allPairs
  have inner : ∀ (i k : Nat) (acc : List Rat),
      ((List.range k).foldl (fun acc j => acc ++ [effRes R i j]) acc).sum
        = acc.sum + ∑ j ∈ range k, effRes R i j := by
    intro i k
    induction k with
    | zero => simp
    | succ k ih =>
      intro acc
      rw [List.range_succ, List.foldl_append, Finset.sum_range_succ]
      simp only [List.foldl_cons, List.foldl_nil, List.sum_append, List.sum_cons, List.sum_nil,
        add_zero]
      rw [ih]; ring
  have outer : ∀ (k : Nat) (acc : List Rat),
      ((List.range k).foldl (fun acc i =>
          (List.range i).foldl (fun acc j => acc ++ [effRes R i j]) acc) acc).sum
        = acc.sum + ∑ i ∈ range k, ∑ j ∈ range i, effRes R i j := by
    intro k
    induction k with
    | zero => simp
    | succ k ih =>
      intro acc
      rw [List.range_succ, List.foldl_append, Finset.sum_range_succ]
      simp only [List.foldl_cons, List.foldl_nil]
      rw [inner, ih]; ring
  simpa using outer m []

/-- `average_effective_resistance()` -/
theorem average_relabel (h : IsPerm n idx) (R R' : Mat)
    (he : ∀ i j, i < n → j < n → effRes R' i j = effRes R (idx i) (idx j)) :
    averageOf n (allPairs n R') = averageOf n (allPairs n R) := by
  unfold averageOf
  rw [allPairs_sum, allPairs_sum]
  congr 2
  have := tri_sum_relabel h (fun s t => effRes R t s) (fun s t => effRes R' t s)
    (fun s t => by simp only [effRes]; split <;> split <;> first | rfl | omega | ring)
    (fun s t => by simp only [effRes]; split <;> split <;> first | rfl | omega | ring)
    (fun s t hs ht => he t s ht hs)
  exact this

/-! ### admittive degree and clustering -/

theorem admDegree_relabel (h : IsPerm n idx) (adm : Mat) (i : Nat) :
    admDegree n (mat adm idx) i = admDegree n adm (idx i) := colSum_relabel h adm i

theorem anad_relabel (h : IsPerm n idx) (adj : Adj) (adm : Mat) (i : Nat) :
    anad n (mat adj idx) (mat adm idx) i = anad n adj adm (idx i) := by
  unfold anad
  rw [admDegree_relabel h]
  congr 1
  apply csum_relabel h
  intro j _
  rw [admDegree_relabel h]; rfl

theorem cdegree_relabel (h : IsPerm n idx) (adj : Adj) (i : Nat) :
    Circuit.degree n (mat adj idx) i = Circuit.degree n adj (idx i) := by
  have cnt : ∀ (a : Adj) (r : Nat), Circuit.degree n a r = (List.range n).countP fun j => a r j := by
    intro a r
    unfold Circuit.degree
    have : ∀ (l : List Nat) (d : Nat), l.foldl (fun d j => if a r j then d + 1 else d) d
        = d + l.countP fun j => a r j := by
      intro l
      induction l with
      | nil => simp
      | cons x t ih =>
        intro d
        simp only [List.foldl_cons, List.countP_cons, ih]
        cases a r x <;> simp <;> omega
    rw [this]; simp
  rw [cnt, cnt]
  exact h.countP_eq fun j => adj (idx i) j

theorem localClustering_c_relabel (h : IsPerm n idx) (adj : Adj) (adm : Mat) (i : Nat) :
    Circuit.localClustering n (mat adj idx) (mat adm idx) i
      = Circuit.localClustering n adj adm (idx i) := by
  have key : ∀ (a : Adj) (c : Mat) (r : Nat), Circuit.localClustering n a c r
      = if Circuit.degree n a r = 1 then 0
        else (∑ j ∈ range n, ∑ k ∈ range n, c r j * c r k * c j k)
              / (admDegree n c r * ((Circuit.degree n a r : Rat) - 1)) := by
    intro a c r
    unfold Circuit.localClustering
    simp only
    rw [foldl_nested (h := fun j => ∑ k ∈ range n, c r j * c r k * c j k)]
    · simp
    · intro j acc
      rw [foldl_add_range]
  rw [key, key, cdegree_relabel h, admDegree_relabel h]
  have : ∑ j ∈ range n, ∑ k ∈ range n, mat adm idx i j * mat adm idx i k * mat adm idx j k
      = ∑ j ∈ range n, ∑ k ∈ range n, adm (idx i) j * adm (idx i) k * adm j k :=
    fsum_relabel h _ (fun j => ∑ k ∈ range n, adm (idx i) j * adm (idx i) k * adm j k) fun j _ =>
      fsum_relabel h _ (fun k => adm (idx i) (idx j) * adm (idx i) k * adm (idx j) k) fun k _ => rfl
  rw [this]

theorem globalClustering_c_relabel (h : IsPerm n idx) (adj : Adj) (adm : Mat) :
    Circuit.globalClustering n (mat adj idx) (mat adm idx) = Circuit.globalClustering n adj adm := by
  unfold Circuit.globalClustering
  congr 1
  exact csum_relabel h _ (fun i => Circuit.localClustering n adj adm i)
    fun i _ => localClustering_c_relabel h adj adm i

/-! ### current-flow betweenness kernels (`src_numerics.c`) -/

/-- current through node `i` for the pair `(s,t)` (C18's `nodeCurrent`, unit currents) -/
def nodeCur (n : Nat) (adm R : Mat) (i s t : Nat) : Rat :=
  ∑ j ∈ range n, adm i j * |(R i s - R j s) + (R j t - R i t)| / 2

theorem nodeCur_symm (adm R : Mat) (i s t : Nat) : nodeCur n adm R i s t = nodeCur n adm R i t s := by
  unfold nodeCur
  refine Finset.sum_congr rfl fun j _ => ?_
  rw [show (R i s - R j s) + (R j t - R i t) = -((R i t - R j t) + (R j s - R i s)) by ring, abs_neg]

theorem vcfb_sum (adm R : Mat) (i : Nat) :
    vcfbKernel n 1 1 adm R i
      = ∑ t ∈ range n, ∑ s ∈ range t,
          (if i = t ∨ i = s then 0 else 2 * nodeCur n adm R i s t / ((n * (n - 1) : Nat) : Rat)) := by
  unfold vcfbKernel
  rw [foldl_nested (h := fun t => ∑ s ∈ range t,
      (if i = t ∨ i = s then 0 else 2 * nodeCur n adm R i s t / ((n * (n - 1) : Nat) : Rat)))]
  · rw [zero_add]
  · intro t acc
    rw [foldl_skip_range (c := fun s => i = t ∨ i = s)]
    congr 1
    refine Finset.sum_congr rfl fun s _ => ?_
    split
    · rfl
    · simp only [foldl_add_range, zero_add, nodeCur, absR_eq, one_mul]

theorem ecfb_sum (adm R : Mat) (i j : Nat) :
    ecfbKernel n 1 1 adm R i j
      = 2 * (∑ t ∈ range n, ∑ s ∈ range t, adm i j * |(R i s - R j s) + (R j t - R i t)|)
          / ((n * (n - 1) : Nat) : Rat) := by
  unfold ecfbKernel
  simp only
  rw [foldl_nested (h := fun t => ∑ s ∈ range t,
      adm i j * |1 * (R i s - R j s) + 1 * (R j t - R i t)|)]
  · simp only [zero_add, one_mul]
  · intro t acc
    rw [foldl_add_range]
    simp only [absR_eq]

/-- **vertex current-flow betweenness** (`_vertex_current_flow_betweenness_fast`, the triangular
`for t: for s in range(t)` loop with its `continue`) -/
theorem vcfb_relabel (h : IsPerm n idx) (adm R R' : Mat)
    (hR : ∀ a b, a < n → b < n → R' a b = R (idx a) (idx b)) (i : Nat) (hi : i < n) :
    vcfbKernel n 1 1 (mat adm idx) R' i = vcfbKernel n 1 1 adm R (idx i) := by
  rw [vcfb_sum, vcfb_sum]
  have cur : ∀ s t, s < n → t < n →
      nodeCur n (mat adm idx) R' i s t = nodeCur n adm R (idx i) (idx s) (idx t) := by
    intro s t hs ht
    unfold nodeCur
    apply fsum_relabel h
    intro j hj
    rw [hR i s hi hs, hR j s hj hs, hR j t hj ht, hR i t hi ht]; rfl
  apply tri_sum_relabel h
    (fun s t => if idx i = t ∨ idx i = s then 0
      else 2 * nodeCur n adm R (idx i) s t / ((n * (n - 1) : Nat) : Rat))
    (fun s t => if i = t ∨ i = s then 0
      else 2 * nodeCur n (mat adm idx) R' i s t / ((n * (n - 1) : Nat) : Rat))
  · intro s t
    simp only [nodeCur_symm adm R (idx i) s t, or_comm]
  · intro s t
    simp only [nodeCur_symm (mat adm idx) R' i s t, or_comm]
  · intro s t hs ht
    rw [cur s t hs ht]
    simp only [h.eq_iff hi ht, h.eq_iff hi hs]

/-- **edge current-flow betweenness** -/
theorem ecfb_relabel (h : IsPerm n idx) (adm R R' : Mat)
    (hR : ∀ a b, a < n → b < n → R' a b = R (idx a) (idx b)) (i j : Nat) (hi : i < n) (hj : j < n) :
    ecfbKernel n 1 1 (mat adm idx) R' i j = ecfbKernel n 1 1 adm R (idx i) (idx j) := by
  rw [ecfb_sum, ecfb_sum]
  congr 2
  apply tri_sum_relabel h
    (fun s t => adm (idx i) (idx j) * |(R (idx i) s - R (idx j) s) + (R (idx j) t - R (idx i) t)|)
    (fun s t => mat adm idx i j * |(R' i s - R' j s) + (R' j t - R' i t)|)
  · intro s t
    rw [show (R (idx i) s - R (idx j) s) + (R (idx j) t - R (idx i) t)
        = -((R (idx i) t - R (idx j) t) + (R (idx j) s - R (idx i) s)) by ring, abs_neg]
  · intro s t
    rw [show (R' i s - R' j s) + (R' j t - R' i t)
        = -((R' i t - R' j t) + (R' j s - R' i s)) by ring, abs_neg]
  · intro s t hs ht
    rw [hR i s hi hs, hR j s hj hs, hR j t hj ht, hR i t hi ht]; rfl

end Pyunicorn.Relabel
