import Pyunicorn.Model.Coupling2
import Pyunicorn.Lemmas.CouplingStat
/-!
# C10 round 4: Gauss–Jordan elimination (`gjInverse`, the model of `numpy.linalg.inv`) is correct

`gjStep_spec` reads one column step off the list code (pivot search, swap, scaling, elimination) as
a statement about the entries; `gjInv_step` shows that it keeps "`B · C = A` on the augmented matrix
`[A | B]`" and turns one more column of `A` into a unit vector; `gjLoop_spec` iterates; at the end
`A = I`, hence `B · C = I` (`gjInverse_left`).
-/
namespace Pyunicorn.Coupling

def matFn (M : List (List Rat)) : Nat → Nat → Rat := fun k c => (M.getD k []).getD c 0

def Shape (M : List (List Rat)) (N W : Nat) : Prop :=
  M.length = N ∧ ∀ k, k < N → (M.getD k []).length = W

theorem getD_map_range {α : Type} (n : Nat) (f : Nat → α) (d : α) (k : Nat) (hk : k < n) :
    ((List.range n).map f).getD k d = f k := by
  simp [List.getD, hk]

theorem getD_map_div (l : List Rat) (p : Rat) (c : Nat) :
    (l.map (· / p)).getD c 0 = l.getD c 0 / p := by
  by_cases h : c < l.length
  · simp [List.getD, h]
  · simp [List.getD, h]

theorem gjStep_spec (M M' : List (List Rat)) (N W col : Nat) (hS : Shape M N W) (hc : col < N)
    (h : gjStep M col = some M') :
    ∃ r, col ≤ r ∧ r < N ∧ matFn M r col ≠ 0 ∧ Shape M' N W ∧
      ∀ k c, k < N → c < W → matFn M' k c =
        if k = col then matFn M r c / matFn M r col
        else matFn M (if k = r then col else k) c -
          matFn M (if k = r then col else k) col * (matFn M r c / matFn M r col) := by
  obtain ⟨hN, hW⟩ := hS
  unfold gjStep at h
  simp only at h
  split at h
  · cases h
  · rename_i r rest hidx
    have hr : r ∈ (List.range M.length).filter
        (fun r => decide (col ≤ r) && decide ((M.getD r []).getD col 0 ≠ 0)) := by
      rw [hidx]; exact List.mem_cons_self
    simp only [List.mem_filter, List.mem_range, Bool.and_eq_true, decide_eq_true_eq] at hr
    obtain ⟨hrN, hcr, hp⟩ := hr
    rw [hN] at hrN
    injection h with h
    subst h
    have L1 : ∀ f1 : Nat → List Rat, (List.map f1 (List.range M.length)).length = N := by
      intro f1; rw [List.length_map, List.length_range, hN]
    have hcol_ne : ∀ k, k = r → k ≠ col → True := fun _ _ _ => trivial
    refine ⟨r, hcr, hrN, hp, ?_, ?_⟩
    · constructor
      · rw [List.length_map, List.length_range, L1]
      · intro k hk
        rw [getD_map_range _ _ _ _ (by rw [L1]; exact hk)]
        rw [getD_map_range _ _ _ _ (by rw [hN]; exact hk)]
        have hlen : (if k = col then List.map (fun x => x / (M.getD r []).getD col 0) (M.getD r [])
            else if k = r then M.getD col [] else M.getD k []).length = W := by
          split
          · rw [List.length_map, hW r hrN]
          · split
            · exact hW col hc
            · exact hW k hk
        have hl2 : ∀ (ROW : List Rat) (g : Nat → Rat),
            (if k = col then ROW else List.map g (List.range ROW.length)).length = ROW.length := by
          intro ROW g; split
          · rfl
          · rw [List.length_map, List.length_range]
        rw [hl2]; exact hlen
    · intro k c hk hcW
      unfold matFn
      rw [getD_map_range _ _ _ _ (by rw [L1]; exact hk)]
      rw [getD_map_range _ _ _ _ (by rw [hN]; exact hk)]
      by_cases h1 : k = col
      · simp only [if_pos h1]
        rw [getD_map_div]
      · simp only [if_neg h1]
        by_cases h2 : k = r
        · simp only [if_pos h2]
          rw [getD_map_range _ _ _ _ (by rw [hW col hc]; exact hcW), getD_map_div]
        · simp only [if_neg h2]
          rw [getD_map_range _ _ _ _ (by rw [hW k hk]; exact hcW), getD_map_div]

/-- rows `k < N` of the augmented matrix `[A | B]`: `B · C = A`, and the first `c` columns of `A`
are unit vectors -/
def GJInv (C : Nat → Nat → Rat) (N c : Nat) (F : Nat → Nat → Rat) : Prop :=
  (∀ k j, k < N → j < N → sumTo N (fun l => F k (N + l) * C l j) = F k j) ∧
  (∀ k j, k < N → j < c → F k j = if k = j then 1 else 0)

theorem sumTo_lin (n : Nat) (a b g : Nat → Rat) (c : Rat) :
    sumTo n (fun l => (a l - c * b l) * g l) =
      sumTo n (fun l => a l * g l) - c * sumTo n (fun l => b l * g l) := by
  have e : (fun l => (a l - c * b l) * g l) = fun l => a l * g l + (-c) * (b l * g l) := by
    funext l; ring
  rw [e, sumTo_add, sumTo_mul_left]; ring

theorem gjInv_step (C : Nat → Nat → Rat) (N col r : Nat) (F F' : Nat → Nat → Rat)
    (hI : GJInv C N col F) (hc : col < N) (hcr : col ≤ r) (hr : r < N) (hp : F r col ≠ 0)
    (hF : ∀ k c, k < N → c < 2 * N → F' k c =
      if k = col then F r c / F r col
      else F (if k = r then col else k) c - F (if k = r then col else k) col * (F r c / F r col)) :
    GJInv C N (col + 1) F' := by
  obtain ⟨hA, hB⟩ := hI
  constructor
  · intro k j hk hj
    have hcong : sumTo N (fun l => F' k (N + l) * C l j) =
        sumTo N (fun l => (if k = col then F r (N + l) / F r col
          else F (if k = r then col else k) (N + l) -
            F (if k = r then col else k) col * (F r (N + l) / F r col)) * C l j) := by
      apply sumTo_congr
      intro l hl
      rw [hF k (N + l) hk (by omega)]
    rw [hcong, hF k j hk (by omega)]
    by_cases h1 : k = col
    · simp only [if_pos h1]
      have e : (fun l => F r (N + l) / F r col * C l j) =
          fun l => (1 / F r col) * (F r (N + l) * C l j) := by funext l; ring
      rw [e, sumTo_mul_left, hA r j hr hj]; ring
    · simp only [if_neg h1]
      have hs : (if k = r then col else k) < N := by split <;> omega
      generalize (if k = r then col else k) = src at hs ⊢
      have e : (fun l => (F src (N + l) - F src col * (F r (N + l) / F r col)) * C l j) =
          fun l => (F src (N + l) - (F src col / F r col) * F r (N + l)) * C l j := by
        funext l; ring
      rw [e, sumTo_lin, hA src j hs hj, hA r j hr hj]; ring
  · intro k j hk hj
    rw [hF k j hk (by omega)]
    by_cases hjc : j = col
    · subst hjc
      by_cases h1 : k = j
      · rw [if_pos h1, if_pos h1]; exact div_self hp
      · rw [if_neg h1, if_neg h1, div_self hp]; ring
    · have hj' : j < col := by omega
      have hrj : F r j = 0 := by rw [hB r j hr hj', if_neg (by omega)]
      by_cases h1 : k = col
      · rw [if_pos h1, hrj, if_neg (by omega)]; simp
      · rw [if_neg h1, hrj]
        by_cases h2 : k = r
        · rw [if_pos h2, hB col j hc hj', if_neg (by omega), if_neg (by omega)]; simp
        · rw [if_neg h2, hB k j hk hj']; simp

theorem gjLoop_spec (C : Nat → Nat → Rat) (N : Nat) (M : List (List Rat)) (hS : Shape M N (2 * N))
    (h0 : GJInv C N 0 (matFn M)) :
    ∀ c, c ≤ N → ∀ M', gjLoop N c M = some M' → Shape M' N (2 * N) ∧ GJInv C N c (matFn M') := by
  intro c
  induction c with
  | zero =>
    intro _ M' h
    simp only [gjLoop] at h
    injection h with h; subst h
    exact ⟨hS, h0⟩
  | succ c ih =>
    intro hc M' h
    simp only [gjLoop] at h
    cases h1 : gjLoop N c M with
    | none => rw [h1] at h; cases h
    | some M1 =>
      rw [h1] at h
      simp only [Option.bind_some] at h
      obtain ⟨hS1, hI1⟩ := ih (by omega) M1 h1
      obtain ⟨r, hcr, hr, hp, hS', hF⟩ := gjStep_spec M1 M' N (2 * N) c hS1 (by omega) h
      exact ⟨hS', gjInv_step C N c r (matFn M1) (matFn M') hI1 (by omega) hcr hr hp hF⟩

theorem getD_append_l {α : Type} (l1 l2 : List α) (d : α) (i : Nat) (h : i < l1.length) :
    (l1 ++ l2).getD i d = l1.getD i d := by
  simp [List.getD, List.getElem?_append_left h]

theorem getD_append_r {α : Type} (l1 l2 : List α) (d : α) (i : Nat) :
    (l1 ++ l2).getD (l1.length + i) d = l2.getD i d := by
  simp [List.getD, List.getElem?_append_right]

theorem sumTo_pick (N k : Nat) (c : Rat) (hk : k < N) :
    sumTo N (fun l => if l = k then c else 0) = c := by
  induction N with
  | zero => omega
  | succ N ih =>
    rw [sumTo]
    by_cases hkN : k = N
    · subst hkN
      have : sumTo k (fun l => if l = k then c else 0) = 0 := by
        rw [sumTo_congr (g := fun _ => 0) (fun l hl => by rw [if_neg (by omega)]), sumTo_const]; ring
      rw [this]; simp
    · rw [ih (by omega), if_neg (fun e => hkN e.symm)]; ring

def augOf (C : Nat → Nat → Rat) (N : Nat) : List (List Rat) :=
  (List.range N).map fun i =>
    (List.range N).map (fun j => C i j) ++ (List.range N).map (fun j => if i = j then (1 : Rat) else 0)

theorem augOf_shape (C : Nat → Nat → Rat) (N : Nat) : Shape (augOf C N) N (2 * N) := by
  constructor
  · simp [augOf]
  · intro k hk
    unfold augOf
    rw [getD_map_range _ _ _ _ hk]
    simp; omega

theorem augOf_inv (C : Nat → Nat → Rat) (N : Nat) : GJInv C N 0 (matFn (augOf C N)) := by
  constructor
  · intro k j hk hj
    have hl : ∀ l, l < N → matFn (augOf C N) k (N + l) = if k = l then 1 else 0 := by
      intro l hl
      unfold matFn augOf
      rw [getD_map_range _ _ _ _ hk]
      have := getD_append_r ((List.range N).map (fun j => C k j))
        ((List.range N).map (fun j => if k = j then (1 : Rat) else 0)) 0 l
      rw [List.length_map, List.length_range] at this
      rw [this]
      exact getD_map_range _ _ _ _ hl
    have hr : matFn (augOf C N) k j = C k j := by
      unfold matFn augOf
      rw [getD_map_range _ _ _ _ hk]
      rw [getD_append_l _ _ _ _ (by rw [List.length_map, List.length_range]; exact hj)]
      exact getD_map_range _ _ _ _ hj
    rw [hr, sumTo_congr (g := fun l => if l = k then C k j else 0) (fun l hl' => by
      rw [hl l hl']
      by_cases h : k = l
      · subst h; simp
      · have h' : ¬ l = k := fun e => h e.symm
        simp [h, h'])]
    exact sumTo_pick N k (C k j) hk
  · intro k j _ hj; omega

/-- **Gauss–Jordan elimination is correct**: whenever `gjInverse` returns a matrix, it is a left
inverse of `C` on the indices `< N` -/
theorem gjInverse_left (C : Nat → Nat → Rat) (N : Nat) (P : Nat → Nat → Rat)
    (h : gjInverse C N = some P) (i j : Nat) (hi : i < N) (hj : j < N) :
    sumTo N (fun l => P i l * C l j) = if i = j then 1 else 0 := by
  unfold gjInverse at h
  simp only at h
  change (gjLoop N N (augOf C N)).map _ = some P at h
  cases hg : gjLoop N N (augOf C N) with
  | none => rw [hg] at h; cases h
  | some M' =>
    rw [hg] at h
    simp only [Option.map_some] at h
    injection h with h
    obtain ⟨hS, hA, hB⟩ := gjLoop_spec C N (augOf C N) (augOf_shape C N) (augOf_inv C N) N (Nat.le_refl _) M' hg
    have hP : ∀ l, P i l = matFn M' i (N + l) := by
      intro l
      rw [← h]
      unfold matFn
      simp [Array.getD, List.getD]
      by_cases hi' : i < M'.length
      · simp only [hi']
        rw [List.getElem?_eq_getElem hi', Option.getD_some]
        by_cases hc : N + l < M'[i].length
        · simp [hc]
        · simp [hc, List.getElem?_eq_none (Nat.le_of_not_lt hc)]
      · simp [hi']
    rw [sumTo_congr (fun l _ => by rw [hP l]), hA i j hi hj, hB i j hi hj]

/-- for a symmetric matrix the transpose of the result is a right inverse: the certificate
`isInverse` the driver used to evaluate per case always holds -/
theorem gjInverse_isInverse (C : Nat → Nat → Rat) (hC : ∀ a b, C a b = C b a) (N : Nat)
    (P : Nat → Nat → Rat) (h : gjInverse C N = some P) :
    isInverse C (fun a b => P b a) N = true := by
  unfold isInverse
  simp only [List.all_eq_true, List.mem_range, decide_eq_true_eq]
  intro a ha b hb
  rw [sumTo_congr (g := fun k => P b k * C k a) (fun k _ => by rw [hC a k]; ring),
    gjInverse_left C N P h b a hb ha]
  by_cases e : a = b
  · rw [if_pos e, if_pos e.symm]
  · rw [if_neg e, if_neg (fun e' => e e'.symm)]

end Pyunicorn.Coupling
