import Pyunicorn.Lemmas.Repr
/-!
Helper lemmas for C05, part 2: the invariant `Coherent` of a live `Network`
object, the abstract state `Abs` a history is specified on, and the effect of
every statement of a history (`step`) on objects of the normal form `form`.
-/
namespace Pyunicorn.Repr

/-- no self-loops -/
def NoLoops (E : List (Nat × Nat)) : Prop := ∀ p ∈ E, p.1 ≠ p.2

/-- normal form of a live object: the canonical network of the relation its
embedded graph object `g` describes, carrying `g` (edges in `g`'s own order), `g`'s
edge attribute `ea` and `g`'s vertex attribute `vw` -/
def form (d : Bool) (N : Nat) (g : List (Nat × Nat)) (ea vw : Option (List Rat)) (w : List Rat) :
    Net :=
  { ofGraph d N (rel d g) w none with graph := g, eattr := ea, gvw := vw }

/-- what makes `form d N g ea vw w` a well-formed object -/
structure Good (d : Bool) (N : Nat) (g : List (Nat × Nat)) (ea vw : Option (List Rat))
    (w : List Rat) : Prop where
  size : 2 ≤ N
  simple : SimpleEdges d g
  noloop : NoLoops g
  range : ∀ p ∈ g, p.1 < N ∧ p.2 < N
  wlen : w.length = N
  alen : ∀ vs, ea = some vs → vs.length = g.length
  vlen : ∀ v, vw = some v → v.length = N

/-- **the invariant of a live network object**: at least two nodes; the embedded
graph object is a simple graph on the nodes of the network; one weight per node;
one attribute value per edge; and every derived field (`n_links`, `link_density`,
`sp_A`, total and mean node weight) is the one of the canonical network of the
relation the embedded graph describes. -/
structure Coherent (net : Net) : Prop where
  good : Good net.directed net.N net.graph net.eattr net.gvw net.w
  eq : net = form net.directed net.N net.graph net.eattr net.gvw net.w

theorem Coherent.exists_form {net : Net} (h : Coherent net) :
    ∃ d N g ea vw w, net = form d N g ea vw w ∧ Good d N g ea vw w :=
  ⟨_, _, _, _, _, _, h.eq, h.good⟩

theorem coherent_form {d N g ea vw w} (h : Good d N g ea vw w) : Coherent (form d N g ea vw w) :=
  ⟨h, rfl⟩

theorem simple_rel (d : Bool) (N : Nat) (g : List (Nat × Nat)) (hl : NoLoops g) :
    Simple d N (rel d g) := by
  constructor
  · intro i _
    have : (i, i) ∉ g := fun h => hl _ h rfl
    simp [rel, this]
  · intro hd i j _ _
    subst hd
    simp [rel, Bool.or_comm]

theorem noLoops_graphEdges (d : Bool) (N : Nat) (a : Nat → Nat → Bool) :
    NoLoops (graphEdges d N (cells N a)) := by
  intro p hp
  rw [mem_graphEdges_cells] at hp
  cases d
  · simp only [Bool.false_eq_true, if_false] at hp; omega
  · simp only [if_true] at hp; exact hp.2.2.1

theorem range_graphEdges (d : Bool) (N : Nat) (a : Nat → Nat → Bool) :
    ∀ p ∈ graphEdges d N (cells N a), p.1 < N ∧ p.2 < N := by
  intro p hp
  rw [mem_graphEdges_cells] at hp
  exact ⟨hp.1, hp.2.1⟩

/-- the canonical network of a simple graph is of the normal form -/
theorem ofGraph_eq_form (d : Bool) (N : Nat) (a : Nat → Nat → Bool) (hs : Simple d N a)
    (w : List Rat) (ea : Option (List Rat)) :
    ofGraph d N a w ea = form d N (graphEdges d N (cells N a)) ea none w := by
  unfold form
  rw [ofGraph_congr w none (rel_graphEdges d N a hs)]
  rfl

theorem good_graphEdges (d : Bool) (N : Nat) (hN : 2 ≤ N) (a : Nat → Nat → Bool)
    (w : List Rat) (hw : w.length = N) (ea : Option (List Rat))
    (hea : ∀ vs, ea = some vs → vs.length = (graphEdges d N (cells N a)).length) :
    Good d N (graphEdges d N (cells N a)) ea none w :=
  ⟨hN, simpleEdges_graphEdges d N a, noLoops_graphEdges d N a, range_graphEdges d N a, hw, hea,
    fun _ h => by cases h⟩

/-! ### the statements of a history on objects of the normal form -/

theorem setWeights_form {d N g ea vw w} (w' : Option (List Rat))
    (h : ∀ x, w' = some x → x.length = N) :
    setWeights (form d N g ea vw w) w' = .ok (form d N g ea vw (weightsOf N w')) := by
  cases w' with
  | none => rfl
  | some x =>
    rw [setWeights_some _ _ (h x rfl)]
    rfl

theorem setLinkAttr_form {d N g ea vw w} (v : Nat → Nat → Rat) :
    setLinkAttr (form d N g ea vw w) v = form d N g (some (g.map fun e => v e.1 e.2)) vw w := rfl

theorem delLinkAttr_form {d N g ea vw w} :
    delLinkAttr (form d N g ea vw w) = form d N g none vw w := rfl

theorem save_form {d N g ea vw w} :
    save (form d N g ea vw w) = (form d N g ea (some w) w, ⟨N, d, g, some w, ea⟩) := rfl

theorem graphOf_form {d N g ea vw w} : graphOf (form d N g ea vw w) = ⟨N, d, g, vw, ea⟩ := rfl

theorem fromIGraph_form {d N g ea vw w} (h : Good d N g ea vw w) (vw' : Option (List Rat))
    (hv : ∀ v, vw' = some v → v.length = N) :
    fromIGraph ⟨N, d, g, vw', ea⟩ = .ok (form d N g ea vw' (weightsOf N vw')) :=
  fromIGraph_simple ⟨N, d, g, vw', ea⟩ h.size h.simple h.range hv

theorem setAdjacency_form {d N g ea vw w} (h : Good d N g ea vw w) (a : Nat → Nat → Bool)
    (hs : Simple d N a) :
    setAdjacency (form d N g ea vw w) (ofDenseMat N N (ind a))
      = .ok (form d N (graphEdges d N (cells N a)) none none w) := by
  rw [setAdjacency_dense _ N h.size a, ← ofGraph_eq_form d N a hs w none]
  rfl

theorem form_at {d N g ea vw w} (i j : Nat) :
    (form d N g ea vw w).at i j = if i < N ∧ j < N then ind (rel d g) i j else 0 :=
  table_at N (ind (rel d g)) _ rfl i j

theorem sparse_form {d N g ea vw w} :
    (form d N g ea vw w).sparse = ofDenseMat N N (ind (rel d g)) := by
  unfold Net.sparse
  apply ofDenseMat_congr
  intro i j hi hj
  have hi' : i < N := hi
  have hj' : j < N := hj
  rw [form_at]; simp [hi', hj']

/-- the network `copy()` constructs before it copies the link attributes -/
theorem init_sparse_form {d N g ea vw w} (h : Good d N g ea vw w) :
    init d (.sparse (form d N g ea vw w).sparse) (some w)
      = .ok (form d N (graphEdges d N (cells N (rel d g))) none none w) := by
  rw [sparse_form, init_dense d N h.size _ w h.wlen,
    ofGraph_eq_form d N _ (simple_rel d N g h.noloop) w none]

theorem rel_in_range {d : Bool} {N : Nat} {g : List (Nat × Nat)}
    (hr : ∀ p ∈ g, p.1 < N ∧ p.2 < N) (i j : Nat) (h : rel d g i j = true) : i < N ∧ j < N := by
  unfold rel at h
  simp only [Bool.or_eq_true, decide_eq_true_eq, Bool.and_eq_true] at h
  rcases h with h | ⟨_, h⟩
  · exact hr _ h
  · have := hr _ h; exact ⟨this.2, this.1⟩

/-- the copy's embedded graph describes the same relation (everywhere) -/
theorem rel_copy_graph {d N g ea vw w} (h : Good d N g ea vw w) (i j : Nat) :
    rel d (graphEdges d N (cells N (rel d g))) i j = rel d g i j := by
  by_cases hij : i < N ∧ j < N
  · exact rel_graphEdges d N _ (simple_rel d N g h.noloop) i j hij.1 hij.2
  · have h1 : rel d g i j = false := by
      rw [Bool.eq_false_iff]; exact fun hh => hij (rel_in_range h.range i j hh)
    have h2 : rel d (graphEdges d N (cells N (rel d g))) i j = false := by
      rw [Bool.eq_false_iff]
      exact fun hh => hij (rel_in_range (range_graphEdges d N _) i j hh)
    rw [h1, h2]

/-! ### link attributes on the normal form -/

/-- `link_attribute(set_link_attribute(V))` is `V` on the linked pairs and 0 elsewhere -/
theorem linkAttr_setLinkAttr_gen (net : Net) (V : Nat → Nat → Rat)
    (hV : net.directed = false → ∀ i j, rel false net.graph i j = true → V j i = V i j) :
    ∃ f, linkAttr (setLinkAttr net V) = some f ∧
      ∀ i j, f i j = if rel net.directed net.graph i j then V i j else 0 := by
  unfold linkAttr setLinkAttr
  simp only
  by_cases hE : net.graph.isEmpty = true
  · refine ⟨fun _ _ => 0, by simp [hE], ?_⟩
    intro i j
    have : net.graph = [] := List.isEmpty_iff.1 hE
    simp [rel, this]
  · simp only [hE, Bool.false_eq_true, if_false, Option.map_some]
    refine ⟨_, rfl, ?_⟩
    intro i j
    by_cases hr : rel net.directed net.graph i j = true
    · exact lastVal_map net.directed net.graph (fun e => V e.1 e.2) i j
        (fun hd => hV hd i j (by rw [← hd]; exact hr))
    · -- no edge at the cell: `lastVal` finds nothing
      have hr' : rel net.directed net.graph i j = false := by simpa using hr
      have hnone : lastVal net.graph (net.graph.map fun e => V e.1 e.2)
          (fun e => e == (i, j) || (!net.directed && e == (j, i))) = none := by
        unfold lastVal
        rw [Option.map_eq_none_iff, List.find?_eq_none]
        intro q hq hp
        have hmem : q.1 ∈ net.graph := (List.of_mem_zip (List.mem_reverse.1 hq)).1
        unfold rel at hr'
        simp only [Bool.or_eq_false_iff, decide_eq_false_iff_not, Bool.and_eq_false_iff,
          Bool.not_eq_eq_eq_not, Bool.not_false] at hr'
        simp only [Bool.or_eq_true, beq_iff_eq, Bool.and_eq_true, Bool.not_eq_true'] at hp
        rcases hp with hp | ⟨hd, hp⟩
        · exact hr'.1 (hp ▸ hmem)
        · rcases hr'.2 with h2 | h2
          · rw [hd] at h2; cases h2
          · exact h2 (hp ▸ hmem)
      rw [hnone, hr']
      simp

theorem linkAttr_exists (net : Net) (vs : List Rat) (h : net.eattr = some vs) :
    ∃ f, linkAttr net = some f := by
  unfold linkAttr
  split
  · exact ⟨_, rfl⟩
  · rw [h]; exact ⟨_, rfl⟩

/-! ### an arbitrary sparse matrix that stores each cell at most once -/

def coordOf (e : Entry) : Nat × Nat := (e.1, e.2.1)

/-- the relation a 0/1 sparse matrix describes -/
def relOf (s : Sparse) (i j : Nat) : Bool := valAt s.ents i j != 0

theorem valAt_not_stored (es : List Entry) (i j : Nat) (h : (i, j) ∉ es.map coordOf) :
    valAt es i j = 0 := by
  induction es with
  | nil => rfl
  | cons e es ih =>
    rw [valAt_cons]
    simp only [List.map_cons, List.mem_cons, not_or] at h
    have h1 : ¬ (e.1 = i ∧ e.2.1 = j) := fun ⟨a, b⟩ => h.1 (by simp [coordOf, a, b])
    simp [h1, ih h.2]

theorem valAt_stored (es : List Entry) (hnd : (es.map coordOf).Nodup) (e : Entry) (he : e ∈ es) :
    valAt es e.1 e.2.1 = e.2.2 := by
  induction es with
  | nil => cases he
  | cons x es ih =>
    rw [List.map_cons, List.nodup_cons] at hnd
    rw [valAt_cons]
    rcases List.mem_cons.1 he with rfl | he'
    · have : valAt es e.1 e.2.1 = 0 := valAt_not_stored es _ _ hnd.1
      simp [this]
    · have hne : ¬ (x.1 = e.1 ∧ x.2.1 = e.2.1) := by
        rintro ⟨a, b⟩
        apply hnd.1
        have : coordOf x = coordOf e := by simp [coordOf, a, b]
        rw [this]
        exact List.mem_map_of_mem he'
      simp [hne, ih hnd.2 he']

/-- a square sparse matrix that stores each cell at most once, with values 0 or 1
(explicitly stored zeros allowed, any storage order: csc, csr, coo, lil, dok) -/
structure SimpleSparse (N : Nat) (s : Sparse) : Prop where
  rows : s.rows = N
  cols : s.cols = N
  nodup : (s.ents.map coordOf).Nodup
  range : ∀ e ∈ s.ents, e.1 < N ∧ e.2.1 < N
  vals : ∀ e ∈ s.ents, e.2.2 = 0 ∨ e.2.2 = 1

theorem nzCoords_eq (s : Sparse) :
    nzCoords s = (s.ents.filter fun e => e.2.2 != 0).map coordOf := rfl

theorem mem_nzCoords_iff {N : Nat} {s : Sparse} (h : SimpleSparse N s) (i j : Nat) :
    (i, j) ∈ nzCoords s ↔ relOf s i j = true := by
  rw [nzCoords_eq, List.mem_map]
  unfold relOf
  constructor
  · rintro ⟨e, he, hc⟩
    rw [List.mem_filter] at he
    have h1 := valAt_stored s.ents h.nodup e he.1
    have hi : e.1 = i := by have := congrArg Prod.fst hc; simpa [coordOf] using this
    have hj : e.2.1 = j := by have := congrArg Prod.snd hc; simpa [coordOf] using this
    rw [hi, hj] at h1
    rw [h1]; exact he.2
  · intro hv
    by_cases hm : (i, j) ∈ s.ents.map coordOf
    · rw [List.mem_map] at hm
      obtain ⟨e, he, hc⟩ := hm
      have h1 := valAt_stored s.ents h.nodup e he
      have hi : e.1 = i := by have := congrArg Prod.fst hc; simpa [coordOf] using this
      have hj : e.2.1 = j := by have := congrArg Prod.snd hc; simpa [coordOf] using this
      rw [hi, hj] at h1
      refine ⟨e, ?_, hc⟩
      rw [List.mem_filter]
      exact ⟨he, by rw [← h1]; exact hv⟩
    · rw [valAt_not_stored s.ents i j hm] at hv
      simp at hv

theorem valAt_simpleSparse {N : Nat} {s : Sparse} (h : SimpleSparse N s) (i j : Nat) :
    valAt s.ents i j = ind (relOf s) i j := by
  unfold ind relOf
  by_cases hm : (i, j) ∈ s.ents.map coordOf
  · rw [List.mem_map] at hm
    obtain ⟨e, he, hc⟩ := hm
    have h1 := valAt_stored s.ents h.nodup e he
    have hi : e.1 = i := by have := congrArg Prod.fst hc; simpa [coordOf] using this
    have hj : e.2.1 = j := by have := congrArg Prod.snd hc; simpa [coordOf] using this
    rw [hi, hj] at h1
    rw [h1]
    rcases h.vals e he with h0 | h0 <;> simp [h0]
  · rw [valAt_not_stored s.ents i j hm]; simp

theorem nodup_nzCoords {N : Nat} {s : Sparse} (h : SimpleSparse N s) : (nzCoords s).Nodup := by
  rw [nzCoords_eq]
  exact h.nodup.sublist ((List.filter_sublist).map coordOf)

theorem range_nzCoords {N : Nat} {s : Sparse} (h : SimpleSparse N s) :
    ∀ p ∈ nzCoords s, p.1 < N ∧ p.2 < N := by
  intro p hp
  rw [nzCoords_eq, List.mem_map] at hp
  obtain ⟨e, he, rfl⟩ := hp
  exact h.range e (List.mem_filter.1 he).1

/-- **the adjacency setter on any such matrix** -/
theorem setAdjacency_simpleSparse (net : Net) (N : Nat) (hN : 2 ≤ N) (s : Sparse)
    (h : SimpleSparse N s) :
    setAdjacency net s = .ok { net with
      N := N
      spA := table N (ind (relOf s))
      density := linkDensity (cells N (relOf s)).length N
      nLinks := if net.directed then (cells N (relOf s)).length
                else (cells N (relOf s)).length / 2
      graph := graphEdges net.directed N (cells N (relOf s))
      eattr := none
      gvw := none } := by
  have hrel : ∀ i j, i < N → j < N → memRel (nzCoords s) i j = relOf s i j := by
    intro i j _ _
    unfold memRel
    rw [Bool.eq_iff_iff, decide_eq_true_eq]
    exact mem_nzCoords_iff h i j
  have hperm := cells_memRel_perm N (nzCoords s) (nodup_nzCoords h) (range_nzCoords h)
  rw [cells_congr hrel] at hperm
  have hlen : (nzCoords s).length = (cells N (relOf s)).length := hperm.length_eq.symm
  have hg : graphEdges net.directed N (nzCoords s)
      = graphEdges net.directed N (cells N (relOf s)) :=
    graphEdges_congr_mem _ _ _ _ fun p => (hperm.mem_iff).symm
  obtain ⟨r, c, es⟩ := s
  have hr : r = N := h.rows
  have hc : c = N := h.cols
  subst hr hc
  unfold setAdjacency
  have h0 : ¬ (c == 0 || c == 1) = true := by simp; omega
  simp only [bne_self_eq_false, Bool.false_eq_true, if_false, h0, hlen, hg]
  congr 2
  apply table_congr (f := fun i j => valAt es i j)
  intro i j _ _
  exact valAt_simpleSparse h i j

theorem init_simpleSparse (d : Bool) (N : Nat) (hN : 2 ≤ N) (s : Sparse) (h : SimpleSparse N s)
    (w : List Rat) (hw : w.length = N) :
    init d (.sparse s) (some w) = .ok (ofGraph d N (relOf s) w none) := by
  unfold init construct
  simp only [setAdjacency_simpleSparse _ N hN s h]
  simp only [bind, Except.bind, Net.blank]
  rw [setWeights_some _ _ (by simpa using hw)]
  rfl

theorem map_coordOf_entsOf (l : List (Nat × Nat)) (c v) :
    (entsOf l c v).map coordOf = l.filter fun p => c p.1 p.2 := by
  induction l with
  | nil => rfl
  | cons p l ih =>
    rw [entsOf_cons, List.filter_cons]
    split <;> simp_all [coordOf]

theorem mem_entsOf {l : List (Nat × Nat)} {c v} {e : Entry} (h : e ∈ entsOf l c v) :
    (e.1, e.2.1) ∈ l ∧ e.2.2 = v e.1 e.2.1 := by
  induction l with
  | nil => simp [entsOf] at h
  | cons p l ih =>
    rw [entsOf_cons] at h
    split at h
    · rcases List.mem_cons.1 h with rfl | h
      · simp
      · have := ih h; exact ⟨List.mem_cons_of_mem _ this.1, this.2⟩
    · have := ih h; exact ⟨List.mem_cons_of_mem _ this.1, this.2⟩

/-- the sparse matrix of a dense 0/1 matrix is such a matrix -/
theorem simpleSparse_dense (N : Nat) (a : Nat → Nat → Bool) :
    SimpleSparse N (ofDenseMat N N (ind a)) := by
  rw [ofDenseMat_eq]
  refine ⟨rfl, rfl, ?_, ?_, ?_⟩
  · show ((entsOf (pairs N N) (fun i j => ind a i j != 0) (ind a)).map coordOf).Nodup
    rw [map_coordOf_entsOf]
    exact (nodup_pairs N N).filter _
  · intro e he
    have he' : e ∈ entsOf (pairs N N) (fun i j => ind a i j != 0) (ind a) := he
    have := (mem_entsOf he').1
    rw [mem_pairs] at this
    exact this
  · intro e he
    have he' : e ∈ entsOf (pairs N N) (fun i j => ind a i j != 0) (ind a) := he
    have := (mem_entsOf he').2
    rw [this]
    unfold ind
    split <;> simp

/-- the COO matrix of a duplicate-free in-range edge list is such a matrix -/
theorem simpleSparse_cooOnes (N : Nat) (E : List (Nat × Nat)) (hnd : E.Nodup)
    (hr : ∀ p ∈ E, p.1 < N ∧ p.2 < N) : SimpleSparse N (cooOnes N E) := by
  refine ⟨rfl, rfl, ?_, ?_, ?_⟩
  · show ((E.map fun p => ((p.1, p.2, 1) : Entry)).map coordOf).Nodup
    rw [List.map_map]
    have : (coordOf ∘ fun p : Nat × Nat => ((p.1, p.2, 1) : Entry)) = id := by
      funext p; rfl
    rw [this, List.map_id]
    exact hnd
  · intro e he
    simp only [cooOnes, List.mem_map] at he
    obtain ⟨p, hp, rfl⟩ := he
    exact hr p hp
  · intro e he
    simp only [cooOnes, List.mem_map] at he
    obtain ⟨p, _, rfl⟩ := he
    right; rfl

theorem relOf_dense (N : Nat) (a : Nat → Nat → Bool) (i j : Nat) (hi : i < N) (hj : j < N) :
    relOf (ofDenseMat N N (ind a)) i j = a i j := by
  unfold relOf
  rw [ofDenseMat_eq]
  simp only
  rw [valAt_entsOf _ (nodup_pairs N N)]
  have : (i, j) ∈ pairs N N := mem_pairs.2 ⟨hi, hj⟩
  unfold ind
  cases a i j <;> simp [this]

theorem setAdjacency_form_sparse {d N g ea vw w} (h : Good d N g ea vw w) (s : Sparse)
    (hs : SimpleSparse N s) (hsim : Simple d N (relOf s)) :
    setAdjacency (form d N g ea vw w) s
      = .ok (form d N (graphEdges d N (cells N (relOf s))) none none w) := by
  rw [setAdjacency_simpleSparse _ N h.size s hs, ← ofGraph_eq_form d N (relOf s) hsim w none]
  rfl

/-! ### abstract state of a history -/

/-- what a history is specified on: the relation, the node weights, the link
attribute matrix (if any) and the weights stored on the embedded graph object (if any) -/
structure Abs where
  a : Nat → Nat → Bool
  w : List Rat
  V : Option (Nat → Nat → Rat)
  gvw : Option (List Rat)

/-- the link attribute of `net` is the matrix `V` on the links and 0 elsewhere
(`none`: there is no such attribute) -/
def AttrIs (net : Net) : Option (Nat → Nat → Rat) → Prop
  | none => net.eattr = none
  | some V => (∃ vs, net.eattr = some vs) ∧ ∃ f, linkAttr net = some f ∧
      ∀ i j, f i j = if rel net.directed net.graph i j then V i j else 0

/-- the live object `net` represents the abstract state `σ` -/
structure Reprs (net : Net) (σ : Abs) : Prop where
  coh : Coherent net
  adj : ∀ i j, i < net.N → j < net.N → rel net.directed net.graph i j = σ.a i j
  w : net.w = σ.w
  gvw : net.gvw = σ.gvw
  attr : AttrIs net σ.V

/-- specification of one statement -/
def specStep (N : Nat) (σ : Abs) : Op → Abs
  | .setW w => { σ with w := weightsOf N w }
  | .setAttr v => { σ with V := some v }
  | .delAttr => { σ with V := none }
  | .setAdj s => { σ with a := relOf s, V := none, gvw := none }
  | .save => { σ with gvw := some σ.w }
  | .reload => { σ with gvw := some σ.w }
  | .copy => { σ with gvw := none }
  | .regraph => { σ with w := weightsOf N σ.gvw }

def spec (N : Nat) (σ : Abs) (ops : List Op) : Abs := ops.foldl (specStep N) σ

/-- the statements the property speaks about: a weight vector has one entry per
node, an attribute matrix is symmetric when the network is undirected, a new
adjacency matrix is a 0/1 matrix (dense, or sparse in any storage) of a simple
graph on the same nodes -/
def ValidOp (d : Bool) (N : Nat) : Op → Prop
  | .setW (some w) => w.length = N
  | .setAttr v => d = false → ∀ i j, v j i = v i j
  | .setAdj s => SimpleSparse N s ∧ Simple d N (relOf s)
  | _ => True

theorem attrIs_congr_w {d N g ea vw w w'} (V) (h : AttrIs (form d N g ea vw w) V) (vw') :
    AttrIs (form d N g ea vw' w') V := h

/-- one statement keeps the object in step with the specification -/
theorem step_reprs (store : IGraph → IGraph) (hstore : ∀ g, store g = g) (net : Net) (σ : Abs)
    (h : Reprs net σ) (op : Op) (hv : ValidOp net.directed net.N op) :
    ∃ net', step store net op = .ok net' ∧ Reprs net' (specStep net.N σ op)
      ∧ net'.N = net.N ∧ net'.directed = net.directed := by
  obtain ⟨hc, hadj, hw, hgvw, hattr⟩ := h
  obtain ⟨d, N, g, ea, vw, w, rfl, hg⟩ := hc.exists_form
  have hadj' : ∀ i j, i < N → j < N → rel d g i j = σ.a i j := hadj
  have hw' : w = σ.w := hw
  have hgvw' : vw = σ.gvw := hgvw
  cases op with
  | setW w' =>
    have hl : ∀ x, w' = some x → x.length = N := by
      intro x hx; subst hx; exact hv
    refine ⟨_, setWeights_form w' hl, ⟨coherent_form ⟨hg.size, hg.simple, hg.noloop, hg.range, ?_,
      hg.alen, hg.vlen⟩, hadj, rfl, hgvw, hattr⟩, rfl, rfl⟩
    cases w' with
    | none => simp [weightsOf]
    | some x => exact hl x rfl
  | setAttr v =>
    refine ⟨_, rfl, ⟨?_, hadj, hw, hgvw, ?_⟩, rfl, rfl⟩
    · rw [setLinkAttr_form]
      exact coherent_form ⟨hg.size, hg.simple, hg.noloop, hg.range, hg.wlen,
        (fun vs h => by simp only [Option.some.injEq] at h; subst h; simp), hg.vlen⟩
    · refine ⟨⟨_, rfl⟩, ?_⟩
      exact linkAttr_setLinkAttr_gen (form d N g ea vw w) v (fun hd i j _ => hv hd i j)
  | delAttr =>
    refine ⟨_, rfl, ⟨?_, hadj, hw, hgvw, rfl⟩, rfl, rfl⟩
    rw [delLinkAttr_form]
    exact coherent_form ⟨hg.size, hg.simple, hg.noloop, hg.range, hg.wlen,
      (fun _ h => by cases h), hg.vlen⟩
  | setAdj s =>
    obtain ⟨hss, hsim⟩ := hv
    have hss' : SimpleSparse N s := hss
    have hsim' : Simple d N (relOf s) := hsim
    refine ⟨_, setAdjacency_form_sparse hg s hss' hsim', ⟨coherent_form
      (good_graphEdges d N hg.size (relOf s) w hg.wlen none (fun _ h => by cases h)), ?_, hw, rfl,
      rfl⟩, rfl, rfl⟩
    intro i j hi hj
    exact rel_graphEdges d N (relOf s) hsim' i j hi hj
  | save =>
    refine ⟨_, rfl, ⟨?_, hadj, hw, ?_, hattr⟩, rfl, rfl⟩
    · rw [save_form]
      exact coherent_form ⟨hg.size, hg.simple, hg.noloop, hg.range, hg.wlen, hg.alen,
        fun v h => by simp only [Option.some.injEq] at h; subst h; exact hg.wlen⟩
    · show some w = some σ.w
      rw [hw']
  | reload =>
    have hgood : Good d N g ea (some w) w := ⟨hg.size, hg.simple, hg.noloop, hg.range, hg.wlen,
      hg.alen, fun v h => by simp only [Option.some.injEq] at h; subst h; exact hg.wlen⟩
    have hrun : step store (form d N g ea vw w) .reload = .ok (form d N g ea (some w) w) := by
      show fromIGraph (store (save (form d N g ea vw w)).2) = _
      rw [hstore, save_form]
      exact fromIGraph_form hg (some w) hgood.vlen
    refine ⟨_, hrun, ⟨coherent_form hgood, hadj, hw, ?_, hattr⟩, rfl, rfl⟩
    show some w = some σ.w
    rw [hw']
  | regraph =>
    have hwl : (weightsOf N vw).length = N := by
      cases hvw : vw with
      | none => simp [weightsOf]
      | some x => exact hg.vlen x hvw
    have hgood : Good d N g ea vw (weightsOf N vw) :=
      ⟨hg.size, hg.simple, hg.noloop, hg.range, hwl, hg.alen, hg.vlen⟩
    have hrun : step store (form d N g ea vw w) .regraph
        = .ok (form d N g ea vw (weightsOf N vw)) := by
      show fromIGraph (graphOf (form d N g ea vw w)) = _
      rw [graphOf_form]
      exact fromIGraph_form hg vw hg.vlen
    refine ⟨_, hrun, ⟨coherent_form hgood, hadj, ?_, hgvw, hattr⟩, rfl, rfl⟩
    show weightsOf N vw = weightsOf N σ.gvw
    rw [hgvw']
  | copy =>
    have hgood0 : Good d N (graphEdges d N (cells N (rel d g))) none none w :=
      good_graphEdges d N hg.size _ w hg.wlen none (fun _ h => by cases h)
    have hadj0 : ∀ i j, i < N → j < N →
        rel d (graphEdges d N (cells N (rel d g))) i j = σ.a i j := by
      intro i j hi hj
      rw [rel_copy_graph hg, hadj' i j hi hj]
    cases hea : ea with
    | none =>
      have hrun : step store (form d N g none vw w) .copy
          = .ok (form d N (graphEdges d N (cells N (rel d g))) none none w) := by
        show copy _ = _
        unfold copy
        have hg' : Good d N g none vw w := hea ▸ hg
        have := init_sparse_form hg'
        have e1 : (form d N g none vw w).directed = d := rfl
        have e2 : (form d N g none vw w).w = w := rfl
        have e3 : (form d N g none vw w).eattr = none := rfl
        rw [e1, e2, e3, this]
        rfl
      refine ⟨_, hrun, ⟨coherent_form hgood0, hadj0, hw, rfl, ?_⟩, rfl, rfl⟩
      subst hea
      show AttrIs _ σ.V
      cases hV : σ.V with
      | none => rfl
      | some V =>
        rw [hV] at hattr
        obtain ⟨⟨vs, h1⟩, _⟩ := hattr
        cases h1
    | some vs =>
      subst hea
      obtain ⟨f, hf⟩ := linkAttr_exists (form d N g (some vs) vw w) vs rfl
      have hrun : step store (form d N g (some vs) vw w) .copy
          = .ok (setLinkAttr (form d N (graphEdges d N (cells N (rel d g))) none none w) f) := by
        show copy _ = _
        unfold copy
        have := init_sparse_form hg
        have e1 : (form d N g (some vs) vw w).directed = d := rfl
        have e2 : (form d N g (some vs) vw w).w = w := rfl
        have e3 : (form d N g (some vs) vw w).eattr = some vs := rfl
        rw [e1, e2, e3, this, hf]
        rfl
      have hsym : d = false → ∀ i j, f j i = f i j := fun hd i j =>
        linkAttr_symm (form d N g (some vs) vw w) hd f hf i j
      refine ⟨_, hrun, ⟨?_, hadj0, hw, rfl, ?_⟩, rfl, rfl⟩
      · rw [setLinkAttr_form]
        exact coherent_form ⟨hg.size, hgood0.simple, hgood0.noloop, hgood0.range, hg.wlen,
          (fun vs h => by simp only [Option.some.injEq] at h; subst h; simp), (fun _ h => by cases h)⟩
      · -- the attribute of the copy
        show AttrIs _ σ.V
        cases hV : σ.V with
        | none =>
          rw [hV] at hattr
          cases (hattr : some vs = none)
        | some V =>
          rw [hV] at hattr
          obtain ⟨_, f0, hf0, hV0⟩ := hattr
          rw [hf] at hf0
          simp only [Option.some.injEq] at hf0
          subst hf0
          obtain ⟨f', h1, h2⟩ := linkAttr_setLinkAttr_gen
            (form d N (graphEdges d N (cells N (rel d g))) none none w) f
            (fun hd i j _ => hsym hd i j)
          refine ⟨⟨_, rfl⟩, f', h1, ?_⟩
          intro i j
          rw [h2 i j]
          show (if rel d (graphEdges d N (cells N (rel d g))) i j = true then f i j else 0)
            = if rel d (graphEdges d N (cells N (rel d g))) i j = true then V i j else 0
          rw [rel_copy_graph hg]
          have := hV0 i j
          split
          · rename_i hr
            rw [this]
            show (if rel d g i j = true then V i j else 0) = V i j
            rw [hr]; rfl
          · rfl

theorem run_reprs (store : IGraph → IGraph) (hstore : ∀ g, store g = g) (ops : List Op) :
    ∀ (net : Net) (σ : Abs), Reprs net σ → (∀ op ∈ ops, ValidOp net.directed net.N op) →
    ∃ net', run store net ops = .ok net' ∧ Reprs net' (spec net.N σ ops)
      ∧ net'.N = net.N ∧ net'.directed = net.directed := by
  induction ops with
  | nil => intro net σ h _; exact ⟨net, rfl, h, rfl, rfl⟩
  | cons op ops ih =>
    intro net σ h hv
    obtain ⟨n1, h1, hr1, hN1, hd1⟩ := step_reprs store hstore net σ h op (hv op (by simp))
    obtain ⟨n2, h2, hr2, hN2, hd2⟩ := ih n1 _ hr1 (by
      intro o ho
      rw [hN1, hd1]
      exact hv o (by simp [ho]))
    refine ⟨n2, ?_, ?_, by rw [hN2, hN1], by rw [hd2, hd1]⟩
    · show (match step store net op with
        | .ok net' => run store net' ops
        | .error e => .error e) = _
      rw [h1]; exact h2
    · rw [hN1] at hr2
      exact hr2

/-- everything observable of an object representing `σ` is determined by `σ` -/
theorem Reprs.eq_ofGraph {net : Net} {σ : Abs} (h : Reprs net σ) :
    net = { ofGraph net.directed net.N σ.a σ.w none with
            graph := net.graph, eattr := net.eattr, gvw := σ.gvw } := by
  have h1 := h.coh.eq
  have h2 : ofGraph net.directed net.N (rel net.directed net.graph) net.w none
      = ofGraph net.directed net.N σ.a σ.w none := by
    rw [h.w]
    exact ofGraph_congr σ.w none h.adj
  unfold form at h1
  rw [h2, h.gvw] at h1
  exact h1

/-- every coherent object represents some abstract state -/
theorem Coherent.reprs {net : Net} (h : Coherent net) : ∃ σ : Abs, Reprs net σ ∧
    σ.a = rel net.directed net.graph ∧ σ.w = net.w ∧ σ.gvw = net.gvw := by
  cases hea : net.eattr with
  | none =>
    exact ⟨⟨rel net.directed net.graph, net.w, none, net.gvw⟩,
      ⟨h, fun _ _ _ _ => rfl, rfl, rfl, hea⟩, rfl, rfl, rfl⟩
  | some vs =>
    obtain ⟨f, hf⟩ := linkAttr_exists net vs hea
    refine ⟨⟨rel net.directed net.graph, net.w, some f, net.gvw⟩,
      ⟨h, fun _ _ _ _ => rfl, rfl, rfl, ⟨vs, hea⟩, f, hf, ?_⟩, rfl, rfl, rfl⟩
    intro i j
    split
    · rfl
    · rename_i hr
      exact linkAttr_zero net f hf i j (by simpa using hr)

/-! ### edge list without `n_nodes` -/

theorem le_foldl_max (E : List (Nat × Nat)) (m : Nat) :
    m ≤ E.foldl (fun m p => max m (max p.1 p.2)) m
    ∧ ∀ p ∈ E, p.1 ≤ E.foldl (fun m p => max m (max p.1 p.2)) m
        ∧ p.2 ≤ E.foldl (fun m p => max m (max p.1 p.2)) m := by
  induction E generalizing m with
  | nil => exact ⟨Nat.le_refl _, fun _ h => by cases h⟩
  | cons q E ih =>
    simp only [List.foldl_cons]
    obtain ⟨h1, h2⟩ := ih (max m (max q.1 q.2))
    refine ⟨by omega, ?_⟩
    intro p hp
    rcases List.mem_cons.1 hp with rfl | hp
    · omega
    · exact h2 p hp

theorem lt_maxNode (E : List (Nat × Nat)) : ∀ p ∈ E, p.1 < maxNode E + 1 ∧ p.2 < maxNode E + 1 := by
  intro p hp
  have := (le_foldl_max E 0).2 p hp
  unfold maxNode
  omega

theorem setEdgeList_inferred (net : Net) (E : List (Nat × Nat)) (hE : E ≠ []) :
    setEdgeList net E none = setEdgeList net E (some (maxNode E + 1)) := by
  unfold setEdgeList
  cases E with
  | nil => exact absurd rfl hE
  | cons p E => rfl

end Pyunicorn.Repr
