import Pyunicorn.Model.CircuitPy
/-! Lemmas about the vocabulary of the regenerated method bodies (C18, round 5): the filling loop
of `update_admittance` over `edge_list()`. -/
namespace Pyunicorn.Circuit

/-- the adjacency matrix held by the network has no entries outside `n × n` -/
def AdjIn (n : Nat) (adj : Adj) : Prop := ∀ i j, adj i j = true → i < n ∧ j < n

theorem mem_nzCoords (n : Nat) (adj : Adj) (i j : Nat) :
    (i, j) ∈ nzCoords n adj ↔ i < n ∧ j < n ∧ adj i j = true := by
  unfold nzCoords
  simp only [List.mem_flatMap, List.mem_map, List.mem_filter, List.mem_range, Prod.mk.injEq]
  constructor
  · rintro ⟨a, ha, b, ⟨hb, hab⟩, rfl, rfl⟩
    exact ⟨ha, hb, hab⟩
  · rintro ⟨hi, hj, h⟩
    exact ⟨i, hi, j, ⟨hj, h⟩, rfl, rfl⟩

/-- a loop over the object that only assigns into `sparse_Adm` (reading `resistances` and
`sparse_Adm`) is a loop over that matrix -/
theorem foldl_fill_py (es : List (Nat × Nat)) (g : Mat → Mat → Nat × Nat → Mat) (p : Py) :
    es.foldl (fun (s : Py) e => { s with sparse_Adm := g s.resistances s.sparse_Adm e }) p
      = { p with sparse_Adm := es.foldl (fun A e => g p.resistances A e) p.sparse_Adm } := by
  induction es generalizing p with
  | nil => rfl
  | cons e es ih => simp only [List.foldl_cons]; rw [ih]

/-- an entry no assignment of the loop addresses keeps its value -/
theorem foldl_setItem_miss (es : List (Nat × Nat)) (vl : Nat × Nat → Rat) (A0 : Mat) (i j : Nat)
    (h : (i, j) ∉ es) :
    (es.foldl (fun A e => setItem A e.1 e.2 (vl e)) A0) i j = A0 i j := by
  induction es generalizing A0 with
  | nil => rfl
  | cons e es ih =>
    simp only [List.foldl_cons]
    rw [ih _ (fun hm => h (List.mem_cons_of_mem _ hm))]
    unfold setItem
    have : ¬ (i = e.1 ∧ j = e.2) := by
      rintro ⟨rfl, rfl⟩
      exact h (List.mem_cons_self ..)
    simp [this]

/-- an entry addressed by the loop holds the value assigned to it (whatever the order and however
often the pair occurs in the list) -/
theorem foldl_setItem_hit (es : List (Nat × Nat)) (vl : Nat × Nat → Rat) (A0 : Mat) (i j : Nat)
    (h : (i, j) ∈ es) :
    (es.foldl (fun A e => setItem A e.1 e.2 (vl e)) A0) i j = vl (i, j) := by
  induction es generalizing A0 with
  | nil => cases h
  | cons e es ih =>
    simp only [List.foldl_cons]
    by_cases hm : (i, j) ∈ es
    · exact ih _ hm
    · rw [foldl_setItem_miss es vl _ i j hm]
      have he : e = (i, j) := by
        rcases List.mem_cons.mp h with h | h
        · exact h.symm
        · exact absurd h hm
      subst he
      simp [setItem]

/-- **the filling loop of `update_admittance`**: starting from an empty `lil_matrix`, assigning
`1/res[e0, e1]` at `[e0, e1]` for every entry of *any* list enumerating the stored adjacency
entries gives the model's admittance matrix (on the `n × n` block) -/
theorem fill_eq_admittance (n : Nat) (adj : Adj) (res : Mat) (es : List (Nat × Nat))
    (hes : ∀ i j, (i, j) ∈ es ↔ i < n ∧ j < n ∧ adj i j = true) (i j : Nat) :
    (es.foldl (fun A e => setItem A e.1 e.2 ((1 : Rat) / res e.1 e.2)) lilZeros) i j
      = if i < n ∧ j < n then admittance adj res i j else 0 := by
  by_cases hm : (i, j) ∈ es
  · rw [foldl_setItem_hit es (fun e => (1 : Rat) / res e.1 e.2) _ i j hm]
    obtain ⟨hi, hj, ha⟩ := (hes i j).mp hm
    simp [admittance, hi, hj, ha]
  · rw [foldl_setItem_miss es (fun e => (1 : Rat) / res e.1 e.2) _ i j hm]
    by_cases hij : i < n ∧ j < n
    · have : adj i j = false := by
        cases h : adj i j with
        | false => rfl
        | true => exact absurd ((hes i j).mpr ⟨hij.1, hij.2, h⟩) hm
      simp [admittance, lilZeros, this]
    · simp [lilZeros, hij]

theorem fill_nzCoords (n : Nat) (adj : Adj) (res : Mat) (h : AdjIn n adj) :
    (nzCoords n adj).foldl (fun A e => setItem A e.1 e.2 ((1 : Rat) / res e.1 e.2)) lilZeros
      = admittance adj res := by
  funext i j
  rw [fill_eq_admittance n adj res _ (mem_nzCoords n adj) i j]
  by_cases hij : i < n ∧ j < n
  · simp [hij]
  · have : adj i j = false := by
      cases ha : adj i j with
      | false => rfl
      | true => exact absurd (h i j ha) hij
    simp [hij, admittance, this]

end Pyunicorn.Circuit
