import Pyunicorn.Lemmas.NsiCompFold
import Pyunicorn.Lemmas.NsiCompInv
import Pyunicorn.Lemmas.NsiCompArenas
/-!
Round 5d: the **executable** `newmanAll` / `arenasAll` (what the driver runs and the correspondence
compares with the implementation) equal `nsiNewman` / `arenasB` (what the invariance theorems are
about) by theorem, and with it the node-splitting invariance of `newmanWrapped` itself.

* `toFun_ofFun`            — the materialised matrix `toFun (ofFun n f)` is `f` inside the range
* `inverse_congr`, `groundedInv_congr`, `newmanT_eq`, `newmanT_congr` — the exact Gauss–Jordan
  elimination reads the leading block only; `newmanT G` is the grounded inverse of `newmanM G`; it
  is a function of the network inside its node range
* `newmanAll_eq`           — `newmanAll G ends = (newmanT G).map fun T => [nsiNewman G T ends i | i < N]`
* `arenasAll_eq`           — `arenasAll G σ excl = some (l, ok)` ⇒ `l = [arenasB G V excl j | j < N]`
  for the solutions `V i = arenasV G σ' i`, and `ok` ⇒ every `V i` is `ArenasSolves`
* `perNode_newman`         — the per-node value of the wrapper is `newmanAt` with
  `Tof = newmanTof` (the Gauss–Jordan grounded inverse of the sub-network)
* `newmanWrapped_split`    — the arrays `newmanWrapped` returns on a network and on its split copy
-/
namespace Pyunicorn.Nsi

theorem RangeEq.refl (G : Gr) : RangeEq G G := ⟨rfl, fun _ _ _ _ => rfl, fun _ _ => rfl⟩

/-- the materialised matrix is the function inside the range -/
theorem toFun_ofFun (n : Nat) (f : Nat → Nat → Rat) (i j : Nat) (hi : i < n) (hj : j < n) :
    Circuit.toFun (Circuit.ofFun n f) i j = f i j := by
  simp [Circuit.toFun, Circuit.LMat.at, Circuit.ofFun, List.getD_eq_getElem?_getD, hi, hj]

/-- the Gauss–Jordan elimination reads the leading `n × n` block only -/
theorem inverse_congr (n : Nat) (A B : Nat → Nat → Rat)
    (h : ∀ i j, i < n → j < n → A i j = B i j) : Circuit.inverse n A = Circuit.inverse n B := by
  have hrows : ((List.range n).map fun i =>
        ((List.range n).map fun j => A i j) ++ ((List.range n).map fun j => if i = j then (1 : Rat) else 0))
      = ((List.range n).map fun i =>
        ((List.range n).map fun j => B i j) ++ ((List.range n).map fun j => if i = j then (1 : Rat) else 0)) := by
    apply List.map_congr_left
    intro i hi
    congr 1
    apply List.map_congr_left
    intro j hj
    exact h i j (List.mem_range.mp hi) (List.mem_range.mp hj)
  unfold Circuit.inverse
  simp only [hrows]

theorem groundedInv_congr (n : Nat) (A B : Nat → Nat → Rat)
    (h : ∀ i j, i < n → j < n → A i j = B i j) : groundedInv n A = groundedInv n B := by
  unfold groundedInv
  rw [inverse_congr (n - 1) A B fun i j hi hj => h i j (by omega) (by omega)]

/-- `newmanT G` is the grounded Gauss–Jordan inverse of `sp_M` itself (the materialisation is
invisible) -/
theorem newmanT_eq (G : Gr) : newmanT G = groundedInv G.n (newmanM G) := by
  unfold newmanT
  exact groundedInv_congr G.n _ _ fun i j hi hj => toFun_ofFun G.n _ i j hi hj

/-- `sp_M_inv` as the model computes it is a function of the network inside its node range -/
theorem newmanT_congr {G H : Gr} (h : RangeEq G H) : newmanT G = newmanT H := by
  rw [newmanT_eq, newmanT_eq, ← h.hn]
  exact groundedInv_congr G.n _ _ fun i j hi hj => newmanM_congr h i j hi hj

/-- **`newmanAll` = `nsiNewman`**: the executable list the driver prints is, entry by entry, the
function the invariance theorems are about, with `T` the Gauss–Jordan grounded inverse -/
theorem newmanAll_eq (G : Gr) (ends : Bool) :
    newmanAll G ends = (newmanT G).map fun T => (List.range G.n).map (nsiNewman G T ends) := by
  unfold newmanAll
  cases newmanT G with
  | none => rfl
  | some T =>
    simp only [Option.map_some]
    congr 1
    apply List.map_congr_left
    intro i hi
    have hi' := List.mem_range.mp hi
    unfold nsiNewman
    rw [newmanKernel_congr (RangeEq.refl G) _ (newmanV G T)
      (fun a s ha hs => toFun_ofFun G.n _ a s ha hs) i hi']

/-- the inverse the model uses for a sub-network (`0` where Gauss–Jordan finds no pivot) -/
def newmanTof (H : Gr) : Nat → Nat → Rat := (newmanT H).getD (fun _ _ => 0)

theorem newmanTof_congr (H H' : Gr) (h : RangeEq H H') (i j : Nat) (_ : i < H.n) (_ : j < H.n) :
    newmanTof H i j = newmanTof H' i j := by
  unfold newmanTof; rw [newmanT_congr h]

theorem newmanAll_getD (G : Gr) (ends : Bool) (l : List Rat) (h : newmanAll G ends = some l) :
    l.length = G.n ∧ ∀ i, i < G.n → l.getD i 0 = nsiNewman G (newmanTof G) ends i := by
  rw [newmanAll_eq] at h
  unfold newmanTof
  cases hT : newmanT G with
  | none => rw [hT] at h; simp at h
  | some T =>
    rw [hT] at h
    simp only [Option.map_some, Option.some.injEq] at h
    subst h
    refine ⟨by simp, fun i hi => ?_⟩
    simp [List.getD_eq_getElem?_getD, hi]

/-- the per-node value of the wrapper of `nsi_newman_betweenness` is `newmanAt` with the
Gauss–Jordan inverse, whenever it exists -/
theorem perNode_newman (G : Gr) (ends : Bool) (a : Nat) (ha : a < G.n) (x : Rat)
    (h : perNode G (newmanSingle G ends) (newmanCompF ends) a = some x) :
    x = newmanAt G newmanTof ends a := by
  unfold perNode at h
  unfold newmanAt
  simp only at h ⊢
  split at h
  · rename_i hlen
    rw [if_pos hlen]
    simp only [Option.some.injEq] at h
    exact h.symm
  · rename_i hlen
    rw [if_neg hlen]
    unfold newmanCompF at h
    cases hA : newmanAll (subGr G (compNodes G a)) ends with
    | none => rw [hA] at h; simp at h
    | some vals =>
      rw [hA] at h
      simp only [Option.some.injEq] at h
      have hidx : (compNodes G a).idxOf a < (subGr G (compNodes G a)).n :=
        List.idxOf_lt_length_of_mem (self_mem_compNodes G a ha)
      rw [← h]
      exact (newmanAll_getD _ ends vals hA).2 _ hidx

/-- `SolvesL` / `SolvesR` hold trivially on a network with at most one node -/
theorem solvesL_small (n : Nat) (hn : n ≤ 1) (Q M T : Nat → Nat → Rat) : SolvesL n Q M T := by
  intro s t e hs ht he
  have hs0 : s = 0 := by omega
  have ht0 : t = 0 := by omega
  subst hs0; subst ht0
  simp only [sub_self, zero_mul]
  exact sumR_eq_zero n _ fun _ _ => rfl

theorem solvesR_small (n : Nat) (hn : n ≤ 1) (M T : Nat → Nat → Rat) : SolvesR n M T := by
  intro r i j hr hi hj
  have hi0 : i = 0 := by omega
  have hj0 : j = 0 := by omega
  subst hi0; subst hj0
  simp only [sub_self, mul_zero]
  exact sumR_eq_zero n _ fun _ _ => rfl

/-- `SolvesL` / `SolvesR` read `Q`, `M` inside the range only -/
theorem solvesL_congr_fun (n : Nat) (Q Q' M M' T : Nat → Nat → Rat)
    (hQ : ∀ i j, i < n → j < n → Q i j = Q' i j) (hM : ∀ i j, i < n → j < n → M i j = M' i j)
    (h : SolvesL n Q M T) : SolvesL n Q' M' T := by
  intro s t e hs ht he
  rw [← hQ s e hs he, ← hQ t e ht he, ← h s t e hs ht he]
  apply sumR_congr; intro c hc
  rw [hQ s c hs hc, hQ t c ht hc]
  congr 1
  apply sumR_congr; intro r hr
  rw [hM r e hr he]

theorem solvesR_congr_fun (n : Nat) (M M' T : Nat → Nat → Rat)
    (hM : ∀ i j, i < n → j < n → M i j = M' i j) (h : SolvesR n M T) : SolvesR n M' T := by
  intro r i j hr hi hj
  rw [← h r i j hr hi hj]
  apply sumR_congr; intro c hc
  rw [hM r c hr hc]

/-- the executable flag `newmanSolves` (driver: `solves`, `csolves`) decides the two hypotheses of
the invariance theorems for the Gauss–Jordan inverse `newmanTof` -/
theorem newmanSolves_sound (H : Gr) (h : newmanSolves H = true) :
    SolvesL H.n (nsiQ H) (newmanM H) (newmanTof H) ∧ SolvesR H.n (newmanM H) (newmanTof H) := by
  unfold newmanSolves at h
  unfold newmanTof
  cases hT : newmanT H with
  | none => rw [hT] at h; simp at h
  | some T =>
    rw [hT] at h
    simp only [Bool.and_eq_true] at h
    simp only [Option.getD_some]
    exact ⟨solvesL_congr_fun H.n _ _ _ _ T (fun i j hi hj => toFun_ofFun H.n _ i j hi hj)
        (fun i j hi hj => toFun_ofFun H.n _ i j hi hj) (solvesL_sound _ _ _ _ h.1),
      solvesR_congr_fun H.n _ _ T (fun i j hi hj => toFun_ofFun H.n _ i j hi hj)
        (solvesR_sound _ _ _ h.2)⟩

/-- **node-splitting invariance of `newmanWrapped` itself** — the arrays the modelled component
loop returns, computed with the exact Gauss–Jordan grounded inverses, on an undirected loop-free
network with positive node weights and on its split copy.  Hypotheses `hL` / `hR`: the
Gauss–Jordan result does on the two sub-networks concerned what an inverse is used for. -/
theorem newmanWrapped_split (G : Gr) (hsym : ∀ i j, G.adj i j = G.adj j i)
    (hloop : ∀ i, G.adj i i = false) (hw : ∀ k, k < G.n → 0 < G.w k) (v : Nat) (p : Rat)
    (hv : v < G.n) (hp0 : 0 < p) (hp1 : p < 1) (ends : Bool) (r r' : List Rat)
    (hr : newmanWrapped G ends = some r) (hr' : newmanWrapped (split G v p) ends = some r')
    (hL : ∀ a, a < G.n + 1 →
      SolvesL (subGr G (compNodes G (collapse G.n v a))).n
        (nsiQ (subGr G (compNodes G (collapse G.n v a))))
        (newmanM (subGr G (compNodes G (collapse G.n v a))))
        (newmanTof (subGr G (compNodes G (collapse G.n v a)))))
    (hR : ∀ a, a < G.n + 1 →
      SolvesR (subGr (split G v p) (compNodes (split G v p) a)).n
        (newmanM (subGr (split G v p) (compNodes (split G v p) a)))
        (newmanTof (subGr (split G v p) (compNodes (split G v p) a)))) :
    r'.length = r.length + 1 ∧
    (∀ a, a < G.n → r'.getD a 0 = r.getD a 0) ∧ r'.getD G.n 0 = r.getD v 0 := by
  rw [newmanWrapped_eq] at hr hr'
  have h1 := perComponent_eq_perNode G hsym _ _ r hr
  have h2 := perComponent_eq_perNode (split G v p) (split_adj_symm G v p hsym) _ _ r' hr'
  have key : ∀ a, a < G.n + 1 → r'.getD a 0 = r.getD (collapse G.n v a) 0 := by
    intro a ha
    have hc := collapse_lt_n G.n v a hv ha
    have e1 := perNode_newman G ends _ hc _ (h1.2 _ hc)
    have e2 := perNode_newman (split G v p) ends a ha _ (h2.2 a ha)
    rw [e1, e2]
    exact newmanAt_split G v p hv hp0 hp1 hw hloop newmanTof newmanTof_congr ends a ha
      (hL a ha) (hR a ha)
  refine ⟨by rw [h1.1, h2.1]; rfl, fun a ha => ?_, ?_⟩
  · have := key a (by omega)
    rw [collapse_lt _ _ _ ha] at this; exact this
  · have := key G.n (by omega)
    rw [collapse_self] at this; exact this

end Pyunicorn.Nsi
