import Pyunicorn.Model.SimilarityHilbertX
import Pyunicorn.Lemmas.SimilarityHilbert
import Pyunicorn.Lemmas.SimilarityRounding
/-! Lemmas about the float32 / NaN model of `HilbertClimateNetwork` (C09, round 5): the phase mask
with NaN phases, the closed form of the reachable states, the embedding of the exact model. -/
namespace Pyunicorn.Similarity

theorem length_phaseMaskX (P : XSim) (N : Nat) (A : List Bool) :
    (phaseMaskX P N A).length = A.length := by simp [phaseMaskX]

theorem getElem?_phaseMaskX (P : XSim) (N : Nat) (A : List Bool) (p : Nat) :
    (phaseMaskX P N A)[p]? = A[p]?.map fun b => b && gtX (P (p / N) (p % N)) (some 0) := by
  simp [phaseMaskX, List.getElem?_mapIdx]

theorem phaseMaskX_idem (P : XSim) (N : Nat) (A : List Bool) :
    phaseMaskX P N (phaseMaskX P N A) = phaseMaskX P N A := by
  apply List.ext_getElem?
  intro p
  rw [getElem?_phaseMaskX, getElem?_phaseMaskX]
  cases A[p]? <;> simp

theorem nnz_phaseMaskX_le (P : XSim) (N : Nat) (A : List Bool) :
    nnz (phaseMaskX P N A) ≤ nnz A := by
  unfold nnz phaseMaskX
  rw [List.count_eq_countP, List.count_eq_countP, List.mapIdx_eq_zipIdx_map, List.countP_map]
  have h : A.countP (· == true) = (A.zipIdx).countP ((· == true) ∘ Prod.fst) := by
    rw [← List.countP_map]; simp
  rw [h]
  apply List.countP_mono_left
  intro x _
  simp only [Function.comp, beq_iff_eq, Bool.and_eq_true]
  exact fun hx => hx.1

/-- the adjacency a float32 Hilbert network with settings `(d, P, W, θ)` has; `θ` is the threshold
the comparison sees (already rounded) -/
def hilbertAdjacencyX (d : Bool) (P W : XSim) (θ : Option Rat) (N : Nat) : List Bool :=
  if d then phaseMaskX P N (thresholdAdjacencyX W θ N) else thresholdAdjacencyX W θ N

/-- the state of a float32 Hilbert network with the given settings, in closed form -/
def hilbertStateX (fl : Rat → Rat) (N : Nat) (d : Bool) (S P : XSim) (damp : Sim) (nl : Bool)
    (θ : Option Rat) : XHNet :=
  let A := hilbertAdjacencyX d P (weightedX fl nl S damp) (θ.map fl) N
  { net := { N := N, directed := d, S := S, damp := damp, nonLocal := nl, θ := θ, A := A,
             nLinks := countLinks d A, density := linkDensity A N },
    phase := P }

theorem setThresholdX_eq_state (fl : Rat → Rat) (h : XHNet) (θ : Option Rat) :
    h.setThreshold fl θ
      = hilbertStateX fl h.net.N h.net.directed h.net.S h.phase h.net.damp h.net.nonLocal θ := by
  obtain ⟨⟨N, d, S, damp, nl, θ0, A, n, dens⟩, P⟩ := h
  cases d <;>
    simp [XHNet.setThreshold, XHNet.maskIf, XNet.setThreshold, XNet.assignAdjacency, hilbertStateX,
      hilbertAdjacencyX]

theorem maskIfX_state (fl : Rat → Rat) (N : Nat) (d : Bool) (S P : XSim) (damp : Sim) (nl : Bool)
    (θ : Option Rat) :
    (hilbertStateX fl N d S P damp nl θ).maskIf d = hilbertStateX fl N d S P damp nl θ := by
  cases d <;>
    simp [XHNet.maskIf, hilbertStateX, hilbertAdjacencyX, XNet.assignAdjacency, phaseMaskX_idem]

theorem reassignX_state (fl : Rat → Rat) (N : Nat) (d : Bool) (S P : XSim) (damp : Sim) (nl : Bool)
    (θ : Option Rat) :
    ({ hilbertStateX fl N d S P damp nl θ with
        net := (hilbertStateX fl N d S P damp nl θ).net.assignAdjacency
          (hilbertStateX fl N d S P damp nl θ).net.A } : XHNet)
      = hilbertStateX fl N d S P damp nl θ := by
  simp [hilbertStateX, XNet.assignAdjacency]

theorem mkHilbertX_eq_state (fl : Rat → Rat) (N : Nat) (d : Bool) (S0 P : XSim) (damp : Sim)
    (nl : Bool) (θ : Option Rat) :
    mkHilbertX fl N d S0 P damp nl θ = hilbertStateX fl N d (absX fl S0) P damp nl θ := by
  unfold mkHilbertX
  simp only [setThresholdX_eq_state, xhblank]
  rw [reassignX_state, maskIfX_state]

theorem setDirectedX_eq_state (fl : Rat → Rat) (h : XHNet) (d : Bool) (S1 P1 : XSim) :
    h.setDirected fl d S1 P1
      = hilbertStateX fl h.net.N d (absX fl S1) P1 h.net.damp h.net.nonLocal h.net.θ := by
  unfold XHNet.setDirected XHNet.regenerate XHNet.storeCoherence
  simp only [setThresholdX_eq_state]
  rw [reassignX_state, maskIfX_state]

theorem setNonLocalX_eq_state (fl : Rat → Rat) (h : XHNet) (b : Bool)
    (hc : h = hilbertStateX fl h.net.N h.net.directed h.net.S h.phase h.net.damp h.net.nonLocal
      h.net.θ) :
    h.setNonLocal fl b
      = hilbertStateX fl h.net.N h.net.directed h.net.S h.phase h.net.damp b h.net.θ := by
  unfold XHNet.setNonLocal
  by_cases hb : (h.net.nonLocal != b) = true
  · rw [if_pos hb, setThresholdX_eq_state]
  · rw [if_neg hb]
    have : h.net.nonLocal = b := by simpa using hb
    rw [← this]; exact hc

/-! ### the exact model is the special case -/

theorem phaseMaskX_embed (P : Sim) (N : Nat) (A : List Bool) :
    phaseMaskX (embedSim P) N A = phaseMask P N A := by
  simp [phaseMaskX, phaseMask, embedSim, gtX]

theorem hilbertStateX_embed (N : Nat) (d : Bool) (S P damp : Sim) (nl : Bool) (θ : Rat) :
    hilbertStateX id N d (embedSim S) (embedSim P) damp nl (some θ)
      = hembed (hilbertState N d S P damp nl θ) := by
  cases d <;>
    simp [hilbertStateX, hilbertState, hembed, embed, hilbertAdjacencyX, hilbertAdjacency,
      weightedX_embed, thresholdAdjacencyX_embed, phaseMaskX_embed]

theorem hembed_setThreshold (h : HNet) (θ : Rat) :
    (hembed h).setThreshold id (some θ) = hembed (h.setThreshold θ) := by
  rw [setThresholdX_eq_state, setThreshold_eq_state]
  exact hilbertStateX_embed h.net.N h.net.directed h.net.S h.phase h.net.damp h.net.nonLocal θ

theorem hembed_setDirected (h : HNet) (d : Bool) (S1 P1 : Sim) :
    (hembed h).setDirected id d (embedSim S1) (embedSim P1) = hembed (h.setDirected d S1 P1) := by
  rw [setDirectedX_eq_state, setDirected_eq_state, absX_embed]
  exact hilbertStateX_embed h.net.N d (absSim S1) P1 h.net.damp h.net.nonLocal h.net.θ

theorem hembed_step (h : HNet) (o : HOp) :
    (hembed h).step id (hembedOp o) = (h.step o).map hembed := by
  cases o with
  | thr θ => simp [XHNet.step, HNet.step, hembedOp, hembed_setThreshold]
  | dens k =>
    simp only [XHNet.step, HNet.step, hembedOp, XHNet.setLinkDensity, HNet.setLinkDensity]
    have : thresholdFromIndexX (hembed h).net.S (hembed h).net.N k
        = (thresholdFromIndex h.net.S h.net.N k).map some := thresholdFromIndexX_embed _ _ _
    rw [this]
    cases thresholdFromIndex h.net.S h.net.N k with
    | none => rfl
    | some θ => simp [hembed_setThreshold]
  | nl b =>
    simp only [XHNet.step, HNet.step, hembedOp, XHNet.setNonLocal, HNet.setNonLocal, Option.map_some]
    have e1 : (hembed h).net.nonLocal = h.net.nonLocal := rfl
    rw [e1]
    by_cases hb : (h.net.nonLocal != b) = true
    · rw [if_pos hb, if_pos hb]
      exact congrArg some
        (hembed_setThreshold ({ h with net := { h.net with nonLocal := b } } : HNet) h.net.θ)
    · rw [if_neg hb, if_neg hb]
  | dir d S1 P1 => simp [XHNet.step, HNet.step, hembedOp, hembed_setDirected]

/-- running an exact Hilbert history on the embedded object is embedding the exact run -/
theorem hembed_run (ops : List HOp) (h : HNet) :
    (hembed h).run id (ops.map hembedOp) = (h.run ops).map hembed := by
  induction ops generalizing h with
  | nil => rfl
  | cons o os ih =>
    simp only [List.map_cons, XHNet.run, HNet.run, hembed_step]
    cases h.step o with
    | none => rfl
    | some h1 => simpa using ih h1

end Pyunicorn.Similarity
