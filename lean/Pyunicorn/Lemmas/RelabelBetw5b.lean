import Pyunicorn.Lemmas.RelabelBetw5
import Pyunicorn.Lemmas.RelabelCross
import Pyunicorn.Lemmas.NetBetwKernel
/-! C04, round 5b: the Brandes kernel model of `_nsi_betweenness` commutes with renumbering for
*every* undirected network with positive node weights.  Round 5 had this only under C03's then open
obligation `sweepDiff = contribDef` for both numberings; C03 has since proved that obligation
(`NetBetw.sweepDiff_eq_contribDef`, for symmetric `A`, positive weights, target `< N`).  The three
hypotheses are carried over to the renumbered network here (`mat_symm`, `vec_pos`, `nodes_lt`), and
the wrapper `Network.nsi_betweenness(sources, targets, nsi)` with its defaults is added: the source
mask of a renumbered node list is the renumbered mask, and the default target list `np.arange(N)` —
which is *not* the renumbered old default, but a rearrangement of it — gives the same result because
the definition sums over the targets. -/
namespace Pyunicorn.Relabel
open Pyunicorn.Net Pyunicorn.NetBetw

variable {n : Nat} {idx : Nat → Nat}

/-- a renumbered undirected network is undirected -/
theorem mat_symm (a : Adj) (hsym : ∀ x y, a x y = a y x) (idx : Nat → Nat) :
    ∀ x y, mat a idx x y = mat a idx y x := fun x y => hsym (idx x) (idx y)

/-- renumbered positive node weights are positive -/
theorem vec_pos (h : IsPerm n idx) (w : Nat → Rat) (hw : ∀ v, v < n → 0 < w v) :
    ∀ v, v < n → 0 < vec w idx v := fun v hv => hw (idx v) (h.lt hv)

/-- the kernel model, unconditionally (up to what the real code enforces) -/
theorem nsiBetweenness_relabel (h : IsPerm n idx) (a : Adj) (hsym : ∀ x y, a x y = a y x)
    (w : Nat → Rat) (hw : ∀ v, v < n → 0 < w v) (isSrc : List Bool) (targets : List Nat)
    (ht : ∀ k ∈ targets, k < n) :
    nsiBetweenness n (mat a idx) (vec w idx) (nodeList n idx false isSrc) (nodes n idx targets)
      = nodeList n idx 0 (nsiBetweenness n a w isSrc targets) :=
  nsiBetweenness_relabel_of_sweeps h a w isSrc targets ht
    (fun j hj l hl => sweepDiff_eq_contribDef n a hsym w hw isSrc j (ht j hj) l hl)
    (fun j hj l hl => sweepDiff_eq_contribDef n (mat a idx) (mat_symm a hsym idx) (vec w idx)
      (vec_pos h w hw) _ j (nodes_lt h targets ht j hj) l hl)

/-! ### the wrapper `Network.nsi_betweenness(sources, targets, nsi)` -/

/-- `is_source[sources] = 1` for the renumbered source list is the renumbered mask -/
theorem srcMaskOf_some_relabel (h : IsPerm n idx) (S : List Nat) (hS : ∀ s ∈ S, s < n) :
    srcMaskOf n (some (nodes n idx S)) = nodeList n idx false (srcMaskOf n (some S)) := by
  unfold srcMaskOf nodeList
  apply List.map_congr_left
  intro v hv
  have hv' : v < n := List.mem_range.mp hv
  rw [getD_map_range n _ false (idx v) (h.lt hv')]
  rw [Bool.eq_iff_iff]
  simp only [List.contains_iff_mem, nodes, List.mem_map]
  constructor
  · rintro ⟨s, hs, e⟩
    have := (h.idx_inv (hS s hs)).1
    rw [e] at this
    rw [this]; exact hs
  · intro hm
    exact ⟨idx v, hm, h.inv_idx hv'⟩

/-- `sources=None`: all ones, in either numbering -/
theorem srcMaskOf_none_relabel (h : IsPerm n idx) :
    srcMaskOf n none = nodeList n idx false (srcMaskOf n none) := by
  unfold srcMaskOf nodeList
  apply List.ext_getElem
  · simp
  · intro i h1 h2
    have hi : i < n := by simpa using h1
    simp [List.getD_eq_getElem?_getD, h.lt hi]

theorem srcMaskOf_relabel (h : IsPerm n idx) (S : Option (List Nat))
    (hS : ∀ L, S = some L → ∀ s ∈ L, s < n) :
    srcMaskOf n (S.map (nodes n idx)) = nodeList n idx false (srcMaskOf n S) := by
  cases S with
  | none => exact srcMaskOf_none_relabel h
  | some L => exact srcMaskOf_some_relabel h L (hS L rfl)

/-- the definition sums over the targets: their order in the list does not matter -/
theorem nsiBetweennessDef_perm (a : Adj) (w : Nat → Rat) (d : DistFn) (isSrc : List Bool)
    {T T' : List Nat} (hp : T.Perm T') :
    nsiBetweennessDef n a w d isSrc T = nsiBetweennessDef n a w d isSrc T' := by
  unfold nsiBetweennessDef betwTimesWDef
  apply List.map_congr_left
  intro v _
  rw [(hp.map _).sum_eq]

/-- all nodes, renumbered through the inverse permutation, are all nodes in another order -/
theorem nodes_range_perm (h : IsPerm n idx) :
    (nodes n idx (List.range n)).Perm (List.range n) := by
  have hr : ∀ k ∈ List.range n, k < n := fun k hk => List.mem_range.mp hk
  have hnd : (nodes n idx (List.range n)).Nodup := by
    apply List.Nodup.of_map idx
    rw [nodes_map_idx h (List.range n) hr]
    exact List.nodup_range
  have hsub : nodes n idx (List.range n) ⊆ List.range n := fun k hk =>
    List.mem_range.mpr (nodes_lt h (List.range n) hr k hk)
  exact (List.subperm_of_subset hnd hsub).perm_of_length_le (by simp [nodes])

/-- the kernel model does not depend on the order of the target list (through the definition) -/
theorem nsiBetweenness_targets_perm (a : Adj) (hsym : ∀ x y, a x y = a y x) (w : Nat → Rat)
    (hw : ∀ v, v < n → 0 < w v) (isSrc : List Bool) {T T' : List Nat} (hp : T.Perm T')
    (hT : ∀ k ∈ T, k < n) :
    nsiBetweenness n a w isSrc T = nsiBetweenness n a w isSrc T' := by
  rw [nsiBetweenness_eq_def_full n a hsym w hw isSrc T hT,
    nsiBetweenness_eq_def_full n a hsym w hw isSrc T' (fun k hk => hT k (hp.mem_iff.mpr hk))]
  exact nsiBetweennessDef_perm a w (dist n a) isSrc hp

/-- `Network.nsi_betweenness(sources, targets, nsi)` of the renumbered network called with the
renumbered node lists (or the defaults) returns the renumbered array -/
theorem apiBetweenness_relabel (h : IsPerm n idx) (a : Adj) (hsym : ∀ x y, a x y = a y x)
    (nodeW : Nat → Rat) (hw : ∀ v, v < n → 0 < nodeW v) (S T : Option (List Nat))
    (hS : ∀ L, S = some L → ∀ s ∈ L, s < n) (hT : ∀ L, T = some L → ∀ t ∈ L, t < n)
    (nsi : Bool) :
    apiBetweenness n (mat a idx) (vec nodeW idx) (S.map (nodes n idx)) (T.map (nodes n idx)) nsi
      = nodeList n idx 0 (apiBetweenness n a nodeW S T nsi) := by
  unfold apiBetweenness
  have hw1 : ∀ v, v < n → 0 < (if nsi then nodeW else fun _ => 1) v := by
    intro v hv
    cases nsi
    · simp
    · simpa using hw v hv
  have ew : (if nsi then vec nodeW idx else fun _ => (1 : Rat))
      = vec (if nsi then nodeW else fun _ => 1) idx := by
    cases nsi <;> rfl
  have hTT : ∀ k ∈ T.getD (List.range n), k < n := by
    cases T with
    | none => exact fun k hk => List.mem_range.mp hk
    | some L => exact hT L rfl
  rw [ew, srcMaskOf_relabel h S hS,
    ← nsiBetweenness_relabel h a hsym _ hw1 (srcMaskOf n S) (T.getD (List.range n)) hTT]
  cases T with
  | some L => rfl
  | none =>
    exact (nsiBetweenness_targets_perm (mat a idx) (mat_symm a hsym idx) _ (vec_pos h _ hw1) _
      (nodes_range_perm h) (nodes_lt h _ hTT)).symm

end Pyunicorn.Relabel
