import Pyunicorn.Model.Coupling5
import Pyunicorn.Lemmas.CouplingGJ
import Pyunicorn.Lemmas.Coupling3
import Mathlib.Algebra.BigOperators.Ring.Finset
import Mathlib.Algebra.Order.BigOperators.Group.Finset
import Mathlib.LinearAlgebra.Matrix.NonsingularInverse
/-!
# C10 round 5: Gauss–Jordan elimination (`gjInverse`) is **complete**

Round 4 proved soundness (`gjInverse C N = some P → P · C = I`).  Here: the elimination returns
`none` **only for singular matrices**.

* `KerInv`: the row operations of a column step are reversible, so the left half `A` of the
  augmented matrix `[A | B]` keeps the kernel of `C` (`A v = 0 → C v = 0`), `kerInv_step`.
* `gjStep_none`: the pivot search fails exactly when column `col` vanishes from row `col` on.
* at that moment the first `col` columns of `A` are unit vectors (`GJInv`, round 4), so column
  `col` is a combination of them: `gjKernelAt` is a non-zero vector with `A w = 0`, hence
  `C w = 0` (`gjKernel_spec`).
* `gjInverse_none_iff`, `gjInverse_some_iff`: exact dichotomy.
* `gram_kernel_collinear`: for a covariance matrix, `C w = 0` means `Σ_a w_a x_a(t)` is constant.
-/
namespace Pyunicorn.Coupling

/-- `A v = 0 → C v = 0` for the left half `A` (columns `< N`) of the augmented matrix -/
def KerInv (C : Nat → Nat → Rat) (N : Nat) (F : Nat → Nat → Rat) : Prop :=
  ∀ v : Nat → Rat, (∀ k, k < N → sumTo N (fun l => F k l * v l) = 0) →
    ∀ k, k < N → sumTo N (fun l => C k l * v l) = 0

theorem kerInv_step (C : Nat → Nat → Rat) (N col r : Nat) (F F' : Nat → Nat → Rat)
    (hI : KerInv C N F) (hc : col < N) (hr : r < N) (hp : F r col ≠ 0)
    (hF : ∀ k c, k < N → c < 2 * N → F' k c =
      if k = col then F r c / F r col
      else F (if k = r then col else k) c - F (if k = r then col else k) col * (F r c / F r col)) :
    KerInv C N F' := by
  intro v hv
  apply hI v
  -- the pivot row
  have hrow : sumTo N (fun l => F r l * v l) = 0 := by
    have h1 := hv col hc
    rw [sumTo_congr (g := fun l => (1 / F r col) * (F r l * v l)) (fun l hl => by
      rw [hF col l hc (by omega), if_pos rfl]; ring), sumTo_mul_left] at h1
    rcases mul_eq_zero.mp h1 with h | h
    · exact absurd h (one_div_ne_zero hp)
    · exact h
  -- every other source row
  have hsrc : ∀ k, k < N → k ≠ col →
      sumTo N (fun l => F (if k = r then col else k) l * v l) = 0 := by
    intro k hk hkc
    have h1 := hv k hk
    generalize hs : (if k = r then col else k) = src at *
    rw [sumTo_congr (g := fun l => (F src l - (F src col / F r col) * F r l) * v l) (fun l hl => by
      rw [hF k l hk (by omega), if_neg hkc, hs]; ring), sumTo_lin, hrow] at h1
    simpa using h1
  intro k0 hk0
  by_cases e1 : k0 = r
  · subst e1; exact hrow
  · by_cases e2 : k0 = col
    · subst e2
      have hrc : r ≠ k0 := fun e => e1 e.symm
      have := hsrc r hr hrc
      simpa using this
    · have := hsrc k0 hk0 e2
      simpa [e1] using this

theorem gjStep_none (M : List (List Rat)) (N W col : Nat) (hS : Shape M N W)
    (h : gjStep M col = none) : ∀ r, col ≤ r → r < N → matFn M r col = 0 := by
  intro r hcr hr
  obtain ⟨hN, _⟩ := hS
  unfold gjStep at h
  simp only at h
  split at h
  · rename_i hidx
    by_contra hne
    have hmem : r ∈ (List.range M.length).filter
        (fun r => decide (col ≤ r) && decide ((M.getD r []).getD col 0 ≠ 0)) := by
      simp only [List.mem_filter, List.mem_range, Bool.and_eq_true, decide_eq_true_eq]
      exact ⟨by rw [hN]; exact hr, hcr, hne⟩
    rw [hidx] at hmem
    cases hmem
  · cases h

theorem gjLoop_ker (C : Nat → Nat → Rat) (N : Nat) (M : List (List Rat)) (hS : Shape M N (2 * N))
    (hG : GJInv C N 0 (matFn M)) (h0 : KerInv C N (matFn M)) :
    ∀ c, c ≤ N → ∀ M', gjLoop N c M = some M' → KerInv C N (matFn M') := by
  intro c
  induction c with
  | zero =>
    intro _ M' h
    simp only [gjLoop] at h
    injection h with h; subst h
    exact h0
  | succ c ih =>
    intro hc M' h
    simp only [gjLoop] at h
    cases h1 : gjLoop N c M with
    | none => rw [h1] at h; cases h
    | some M1 =>
      rw [h1] at h
      simp only [Option.bind_some] at h
      have hI1 := ih (by omega) M1 h1
      have hS1 : Shape M1 N (2 * N) := (gjLoop_spec C N M hS hG c (by omega) M1 h1).1
      obtain ⟨r, _, hr, hp, _, hF⟩ := gjStep_spec M1 M' N (2 * N) c hS1 (by omega) h
      exact kerInv_step C N c r (matFn M1) (matFn M') hI1 (by omega) hr hp hF

/-! ### the start matrix -/

theorem gjAug_eq (C : Nat → Nat → Rat) (N : Nat) : gjAug C N = augOf C N := rfl

theorem augOf_left (C : Nat → Nat → Rat) (N k j : Nat) (hk : k < N) (hj : j < N) :
    matFn (augOf C N) k j = C k j := by
  unfold matFn augOf
  rw [getD_map_range _ _ _ _ hk]
  rw [getD_append_l _ _ _ _ (by rw [List.length_map, List.length_range]; exact hj)]
  exact getD_map_range _ _ _ _ hj

theorem augOf_ker (C : Nat → Nat → Rat) (N : Nat) : KerInv C N (matFn (augOf C N)) := by
  intro v hv k hk
  rw [← hv k hk]
  apply sumTo_congr
  intro l hl
  rw [augOf_left C N k l hk hl]

/-! ### the kernel vector at the failing column -/

theorem kernelAt_sum (N c : Nat) (F : Nat → Nat → Rat) (hc : c < N)
    (hB : ∀ k j, k < N → j < c → F k j = if k = j then 1 else 0)
    (hz : ∀ r, c ≤ r → r < N → F r c = 0) (k : Nat) (hk : k < N) :
    sumTo N (fun l => F k l * (if l < c then F l c else if l = c then -1 else 0)) = 0 := by
  have hpt : ∀ l, l < N → F k l * (if l < c then F l c else if l = c then -1 else 0) =
      (if l = k then (if k < c then F k c else 0) else 0) + (if l = c then -F k c else 0) := by
    intro l hl
    by_cases h1 : l < c
    · rw [if_pos h1, hB k l hk h1, if_neg (show ¬ l = c by omega)]
      by_cases h2 : k = l
      · subst h2; simp [h1]
      · have h2' : ¬ l = k := fun e => h2 e.symm
        simp [h2, h2']
    · rw [if_neg h1]
      by_cases h2 : l = c
      · subst h2
        by_cases h3 : l = k
        · subst h3; simp
        · simp [h3]
      · rw [if_neg h2, if_neg h2]
        by_cases h3 : l = k
        · subst h3; simp [h1]
        · simp [h3]
  rw [sumTo_congr hpt]
  rw [sumTo_add, sumTo_pick N k _ hk, sumTo_pick N c _ hc]
  by_cases h : k < c
  · rw [if_pos h]; ring
  · rw [if_neg h, hz k (by omega) hk]; ring

theorem getD_kernel (M : List (List Rat)) (N c l : Nat) (hl : l < N) :
    ((List.range N).map (gjKernelAt M c)).getD l 0 = gjKernelAt M c l :=
  getD_map_range _ _ _ _ hl

/-- what `gjKernel` returns is a non-zero vector of the kernel of `C` -/
theorem gjKernel_spec (C : Nat → Nat → Rat) (N c : Nat) (w : List Rat)
    (h : gjKernel C N = some (c, w)) :
    c < N ∧ w.length = N ∧ w.getD c 0 = -1 ∧ (∀ l, c < l → l < N → w.getD l 0 = 0) ∧
      (∃ M, gjLoop N c (gjAug C N) = some M ∧ gjStep M c = none) ∧
      ∀ k, k < N → sumTo N (fun l => C k l * w.getD l 0) = 0 := by
  unfold gjKernel at h
  obtain ⟨c', hmem, hf⟩ := List.exists_of_findSome?_eq_some h
  rw [List.mem_range] at hmem
  cases hl : gjLoop N c' (gjAug C N) with
  | none => rw [hl] at hf; cases hf
  | some M =>
    rw [hl] at hf
    simp only at hf
    split at hf
    · rename_i hnone
      injection hf with hf
      injection hf with h1 h2
      subst h1
      rw [Option.isNone_iff_eq_none] at hnone
      obtain ⟨hS, hA, hB⟩ := gjLoop_spec C N (augOf C N) (augOf_shape C N) (augOf_inv C N) c'
        (by omega) M hl
      have hK := gjLoop_ker C N (augOf C N) (augOf_shape C N) (augOf_inv C N) (augOf_ker C N) c'
        (by omega) M hl
      have hz := gjStep_none M N (2 * N) c' hS hnone
      refine ⟨hmem, ?_, ?_, ?_, ⟨M, hl, hnone⟩, ?_⟩
      · rw [← h2]; simp
      · rw [← h2, getD_kernel M N c' c' hmem]; simp [gjKernelAt]
      · intro l hcl hlN
        rw [← h2, getD_kernel M N c' l hlN]
        simp only [gjKernelAt]
        rw [if_neg (by omega), if_neg (by omega)]
      · intro k hk
        rw [sumTo_congr (g := fun l => C k l * gjKernelAt M c' l) (fun l hl' => by
          rw [← h2, getD_kernel M N c' l hl'])]
        apply hK (gjKernelAt M c')
        · intro k' hk'
          exact kernelAt_sum N c' (matFn M) hmem hB hz k' hk'
        · exact hk
    · cases hf

/-! ### failure of the loop -/

theorem gjLoop_none (N : Nat) (M : List (List Rat)) :
    ∀ n, gjLoop N n M = none → ∃ c, c < n ∧ ∃ M1, gjLoop N c M = some M1 ∧ gjStep M1 c = none := by
  intro n
  induction n with
  | zero => intro h; simp [gjLoop] at h
  | succ n ih =>
    intro h
    simp only [gjLoop] at h
    cases h1 : gjLoop N n M with
    | none =>
      obtain ⟨c, hc, M1, h2, h3⟩ := ih h1
      exact ⟨c, by omega, M1, h2, h3⟩
    | some M1 =>
      rw [h1] at h
      simp only [Option.bind_some] at h
      exact ⟨n, by omega, M1, h1, h⟩

theorem gjInverse_none_loop (C : Nat → Nat → Rat) (N : Nat) :
    gjInverse C N = none ↔ gjLoop N N (gjAug C N) = none := by
  unfold gjInverse
  simp only
  change (gjLoop N N (gjAug C N)).map _ = none ↔ _
  rw [Option.map_eq_none_iff]

theorem gjInverse_none_kernel (C : Nat → Nat → Rat) (N : Nat) (h : gjInverse C N = none) :
    ∃ c w, gjKernel C N = some (c, w) := by
  rw [gjInverse_none_loop] at h
  obtain ⟨c, hc, M1, h2, h3⟩ := gjLoop_none N (gjAug C N) N h
  have : (gjKernel C N).isSome := by
    unfold gjKernel
    rw [List.findSome?_isSome_iff]
    refine ⟨c, List.mem_range.mpr hc, ?_⟩
    rw [h2]
    simp [h3]
  obtain ⟨⟨c', w⟩, hw⟩ := Option.isSome_iff_exists.mp this
  exact ⟨c', w, hw⟩

/-! ### a matrix with a left inverse has a trivial kernel -/

theorem left_inverse_kernel (C P : Nat → Nat → Rat) (N : Nat)
    (hP : ∀ i j, i < N → j < N → sumTo N (fun l => P i l * C l j) = if i = j then 1 else 0)
    (v : Nat → Rat) (hv : ∀ k, k < N → sumTo N (fun l => C k l * v l) = 0) :
    ∀ i, i < N → v i = 0 := by
  intro i hi
  have e1 : v i = sumTo N (fun j => sumTo N (fun l => P i l * C l j) * v j) := by
    rw [sumTo_congr (g := fun j => if j = i then v i else 0) (fun j hj => by
      rw [hP i j hi hj]
      by_cases e : i = j
      · subst e; simp
      · have e' : ¬ j = i := fun x => e x.symm
        simp [e, e']), sumTo_pick N i _ hi]
  have e2 : sumTo N (fun j => sumTo N (fun l => P i l * C l j) * v j) =
      sumTo N (fun l => P i l * sumTo N (fun j => C l j * v j)) := by
    simp only [sumTo_eq_finset, Finset.sum_mul, Finset.mul_sum]
    rw [Finset.sum_comm]
    apply Finset.sum_congr rfl; intro l _
    apply Finset.sum_congr rfl; intro j _
    ring
  rw [e1, e2, sumTo_congr (g := fun _ => 0) (fun l hl => by rw [hv l hl]; ring), sumTo_const]
  ring

/-- **completeness**: `gjInverse` returns `none` exactly when `C` has a non-zero kernel vector on
the indices `< N` -/
theorem gjInverse_none_iff (C : Nat → Nat → Rat) (N : Nat) :
    gjInverse C N = none ↔
      ∃ v : Nat → Rat, (∃ l, l < N ∧ v l ≠ 0) ∧ ∀ k, k < N → sumTo N (fun l => C k l * v l) = 0 := by
  constructor
  · intro h
    obtain ⟨c, w, hw⟩ := gjInverse_none_kernel C N h
    obtain ⟨hc, _, h1, _, _, hk⟩ := gjKernel_spec C N c w hw
    exact ⟨fun l => w.getD l 0, ⟨c, hc, by show w.getD c 0 ≠ 0; rw [h1]; decide⟩, hk⟩
  · intro ⟨v, ⟨l, hl, hne⟩, hk⟩
    cases hP : gjInverse C N with
    | none => rfl
    | some P =>
      exact absurd (left_inverse_kernel C P N (fun i j hi hj => gjInverse_left C N P hP i j hi hj)
        v hk l hl) hne

theorem gjKernel_none_iff (C : Nat → Nat → Rat) (N : Nat) :
    gjKernel C N = none ↔ (gjInverse C N).isSome := by
  constructor
  · intro h
    cases hP : gjInverse C N with
    | none =>
      obtain ⟨c, w, hw⟩ := gjInverse_none_kernel C N hP
      rw [h] at hw; cases hw
    | some P => rfl
  · intro h
    cases hK : gjKernel C N with
    | none => rfl
    | some cw =>
      obtain ⟨c, w⟩ := cw
      obtain ⟨hc, _, h1, _, _, hk⟩ := gjKernel_spec C N c w hK
      have hn : gjInverse C N = none :=
        (gjInverse_none_iff C N).mpr ⟨fun l => w.getD l 0, ⟨c, hc, by show w.getD c 0 ≠ 0; rw [h1]; decide⟩, hk⟩
      rw [hn] at h; cases h

/-! ### the kernel of a covariance matrix: exactly collinear series -/

open Finset in
theorem gram_quadratic (u : Nat → Nat → Rat) (T N : Nat) (v : Nat → Rat) :
    sumTo N (fun k => v k * sumTo N (fun l => sumTo T (fun t => u k t * u l t) * v l)) =
      sumTo T (fun t => sumTo N (fun a => v a * u a t) * sumTo N (fun a => v a * u a t)) := by
  simp only [sumTo_eq_finset]
  calc ∑ k ∈ range N, v k * ∑ l ∈ range N, (∑ t ∈ range T, u k t * u l t) * v l
      = ∑ k ∈ range N, ∑ t ∈ range T, ∑ l ∈ range N, (v k * u k t) * (v l * u l t) := by
        apply sum_congr rfl; intro k _
        rw [mul_sum, sum_comm]
        apply sum_congr rfl; intro l _
        rw [sum_mul, mul_sum]
        apply sum_congr rfl; intro t _
        ring
    _ = ∑ t ∈ range T, ∑ k ∈ range N, ∑ l ∈ range N, (v k * u k t) * (v l * u l t) := sum_comm
    _ = ∑ t ∈ range T, (∑ a ∈ range N, v a * u a t) * ∑ a ∈ range N, v a * u a t := by
        apply sum_congr rfl; intro t _
        rw [sum_mul_sum]

/-- `C · v = 0` for the covariance matrix of the series `x_a` (`T` samples) **iff-direction used
here**: the combination `Σ_a v_a (x_a(t) - mean_a)` vanishes at every sample -/
theorem gram_kernel_collinear (x : Nat → Nat → Rat) (T N : Nat) (v : Nat → Rat)
    (hv : ∀ k, k < N → sumTo N (fun l => covTo T (x k) (x l) * v l) = 0) :
    ∀ t, t < T → combCentred x T N v t = 0 := by
  have hq := gram_quadratic (fun a t => x a t - meanTo T (x a)) T N v
  have h0 : sumTo N (fun k => v k * sumTo N (fun l =>
      sumTo T (fun t => (x k t - meanTo T (x k)) * (x l t - meanTo T (x l))) * v l)) = 0 := by
    rw [sumTo_congr (g := fun _ => 0) (fun k hk => by
      have := hv k hk
      simp only [covTo] at this
      rw [this]; ring), sumTo_const]
    ring
  rw [h0, sumTo_eq_finset] at hq
  have hz := (Finset.sum_eq_zero_iff_of_nonneg (fun t _ => mul_self_nonneg _)).mp hq.symm
  intro t ht
  exact mul_self_eq_zero.mp (hz t (Finset.mem_range.mpr ht))

/-- conversely a vanishing combination of the centred series is in the kernel -/
theorem collinear_gram_kernel (x : Nat → Nat → Rat) (T N : Nat) (v : Nat → Rat)
    (h : ∀ t, t < T → combCentred x T N v t = 0) :
    ∀ k, k < N → sumTo N (fun l => covTo T (x k) (x l) * v l) = 0 := by
  intro k _
  have e : sumTo N (fun l => covTo T (x k) (x l) * v l) =
      sumTo T (fun t => (x k t - meanTo T (x k)) * combCentred x T N v t) := by
    simp only [covTo, combCentred, sumTo_eq_finset, Finset.sum_mul, Finset.mul_sum]
    rw [Finset.sum_comm]
    apply Finset.sum_congr rfl; intro t _
    apply Finset.sum_congr rfl; intro l _
    ring
  rw [e, sumTo_congr (g := fun _ => 0) (fun t ht => by rw [h t ht]; ring), sumTo_const]
  ring

/-! ### a left inverse of a square matrix is a right inverse (Mathlib: matrices over a field are
Dedekind-finite) -/

theorem sumTo_fin' (n : Nat) (f : Nat → Rat) : sumTo n f = ∑ k : Fin n, f k := by
  rw [sumTo_eq_finset, Finset.sum_range]

/-- a left inverse on the indices `< N` is a right inverse (square matrices over a field) -/
theorem left_inverse_is_right (C P : Nat → Nat → Rat) (N : Nat)
    (h : ∀ i j, i < N → j < N → sumTo N (fun l => P i l * C l j) = if i = j then 1 else 0) :
    ∀ i j, i < N → j < N → sumTo N (fun l => C i l * P l j) = if i = j then 1 else 0 := by
  let A : Matrix (Fin N) (Fin N) Rat := fun i j => P i j
  let B : Matrix (Fin N) (Fin N) Rat := fun i j => C i j
  have hAB : A * B = 1 := by
    ext i j
    rw [Matrix.mul_apply, Matrix.one_apply]
    have := h i j i.2 j.2
    rw [sumTo_fin'] at this
    simp only [A, B]
    rw [this]
    simp [Fin.ext_iff]
  have hBA : B * A = 1 := mul_eq_one_comm.mp hAB
  intro i j hi hj
  have := congrFun (congrFun hBA ⟨i, hi⟩) ⟨j, hj⟩
  rw [Matrix.mul_apply, Matrix.one_apply] at this
  rw [sumTo_fin']
  simp only [A, B] at this
  rw [this]
  simp [Fin.ext_iff]

/-- the columns before the failing one are linearly independent: a kernel vector of `C` that
vanishes from column `c` on is zero -/
theorem gjKernel_first (C : Nat → Nat → Rat) (N c : Nat) (w : List Rat)
    (h : gjKernel C N = some (c, w)) (v : Nat → Rat) (hsup : ∀ l, c ≤ l → v l = 0)
    (hk : ∀ k, k < N → sumTo N (fun l => C k l * v l) = 0) : ∀ l, v l = 0 := by
  obtain ⟨hc, _, _, _, ⟨M, hM, _⟩, _⟩ := gjKernel_spec C N c w h
  obtain ⟨_, hA, hB⟩ := gjLoop_spec C N (augOf C N) (augOf_shape C N) (augOf_inv C N) c
    (by omega) M hM
  intro k
  by_cases hkc : c ≤ k
  · exact hsup k hkc
  · have hkN : k < N := by omega
    have e1 : sumTo N (fun j => matFn M k j * v j) = v k := by
      rw [sumTo_congr (g := fun j => if j = k then v k else 0) (fun j hj => by
        by_cases hjc : j < c
        · rw [hB k j hkN hjc]
          by_cases e : k = j
          · subst e; simp
          · have e' : ¬ j = k := fun x => e x.symm
            simp [e, e']
        · rw [hsup j (by omega), if_neg (by omega)]; ring), sumTo_pick N k _ hkN]
    have e2 : sumTo N (fun j => matFn M k j * v j) = 0 := by
      rw [sumTo_congr (g := fun j => sumTo N (fun l => matFn M k (N + l) * C l j) * v j)
        (fun j hj => by rw [hA k j hkN hj])]
      have sw : sumTo N (fun j => sumTo N (fun l => matFn M k (N + l) * C l j) * v j) =
          sumTo N (fun l => matFn M k (N + l) * sumTo N (fun j => C l j * v j)) := by
        simp only [sumTo_eq_finset, Finset.sum_mul, Finset.mul_sum]
        rw [Finset.sum_comm]
        apply Finset.sum_congr rfl; intro l _
        apply Finset.sum_congr rfl; intro j _
        ring
      rw [sw, sumTo_congr (g := fun _ => 0) (fun l hl => by rw [hk l hl]; ring), sumTo_const]
      ring
    rw [← e1, e2]

end Pyunicorn.Coupling
