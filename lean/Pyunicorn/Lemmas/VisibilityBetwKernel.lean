import Pyunicorn.Lemmas.VisibilityBetw
import Pyunicorn.Lemmas.VisibilityGeom
import Pyunicorn.Lemmas.NetBetwKernel
/-!
Round 5b: **the kernel model of the three betweenness-type measures of `VisibilityGraph` equals the
published count over enumerated shortest paths** — property C03's round-5 kernel proof
(`NetBetw.nsiBetweenness_eq_def_full`: forward phase, backward sweep and loop over the targets of
`_nsi_betweenness`, for every undirected network, positive node weights, targets `< N`) applied to
`nsiBetwAt` (unit weights, `is_source[sources] = 1`, `np.arange` index arrays).  C03's lemmas are
imported, not repeated.  The three hypotheses are discharged here for what `VisibilityGraph`
hands to `nsi_betweenness`: the adjacency matrix of a write log is symmetric (also outside the
matrix, where every entry reads `false`), unit weights are positive, `np.arange(i)` and
`np.arange(i+1, N)` stay below `N`.
-/
namespace Pyunicorn.Visibility
open Pyunicorn Pyunicorn.Net Pyunicorn.NetBetw

/-- reading outside an `N × N` matrix built by `adjMat` gives `false` -/
theorem mat_adjMat_out (N : Nat) (log : List (Nat × Nat)) (i j : Nat) (h : N ≤ i ∨ N ≤ j) :
    Mat.at (adjMat N log) i j = false := by
  unfold Mat.at adjMat
  rcases Nat.lt_or_ge i N with hi | hi
  · have hj : N ≤ j := by omega
    simp [List.getD, hi, hj]
  · simp [List.getD, hi]

/-- the network of a visibility graph is undirected: `sp_A` of a write log is symmetric at every
index pair (hypothesis `hsym` of C03's kernel theorem) -/
theorem adjFn_adjMat_symm (N : Nat) (log : List (Nat × Nat)) (x y : Nat) :
    adjFn (adjMat N log) x y = adjFn (adjMat N log) y x := by
  unfold adjFn
  by_cases hx : x < N
  · by_cases hy : y < N
    · rw [mat_adjMat N log x y hx hy, mat_adjMat N log y x hy hx]
      simp [entry, Bool.or_comm]
    · rw [mat_adjMat_out N log x y (by omega), mat_adjMat_out N log y x (by omega)]
  · rw [mat_adjMat_out N log x y (by omega), mat_adjMat_out N log y x (by omega)]

theorem pastIdx_lt (N i : Nat) (hi : i < N) : ∀ t, t ∈ pastIdx i → t < N := by
  intro t ht
  have := List.mem_range.mp ht
  omega

theorem futureIdx_lt (N i : Nat) : ∀ t, t ∈ futureIdx N i → t < N := by
  intro t ht
  unfold futureIdx at ht
  rw [List.mem_range'_1] at ht
  omega

/-- **`self.nsi_betweenness(sources=S, targets=T)[i]` on a unit-weight undirected network is the
published count** `Σ_{t ∈ T, t ≠ i} Σ_{s ∈ S, s ≠ i} #(shortest t–s paths through i) / #(shortest t–s paths)`
over the explicitly enumerated shortest paths (C03's `interregionalCount`, distances = the BFS
`Net.dist`), for every symmetric matrix, every list of sources and every list of targets `< N`. -/
theorem nsiBetwAt_eq_count (N : Nat) (A : List (List Bool))
    (hsym : ∀ x y, adjFn A x y = adjFn A y x) (S T : List Nat) (hT : ∀ t, t ∈ T → t < N)
    (i : Nat) (hi : i < N) :
    nsiBetwAt N A S T i = interregionalCount N (adjFn A) (dist N (adjFn A)) S T i := by
  unfold nsiBetwAt
  rw [nsiBetweenness_eq_def_full N (adjFn A) hsym (fun _ => 1) (fun _ _ => by decide) _ T hT,
    nsiBetweennessDef_getD_enum N (adjFn A) (fun _ => 1) (dist N (adjFn A)) _ T i hi]
  exact enum_unit N (adjFn A) (dist N (adjFn A)) S T i

end Pyunicorn.Visibility
