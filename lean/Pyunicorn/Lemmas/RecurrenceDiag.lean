import Pyunicorn.Model.RecurrenceRqa
/-!
Round 4 (C07): what `diagline_dist` is on an asymmetric (fixed local rate) matrix.
-/
namespace Pyunicorn.Recurrence
open Pyunicorn.LineDist

theorem diagCoords_lower (n : Nat) : ∀ cs ∈ diagCoords n, ∀ c ∈ cs, c.2 < c.1 ∧ c.1 < n := by
  intro cs hcs c hc
  simp only [diagCoords, List.mem_map, List.mem_range] at hcs
  obtain ⟨i, hi, rfl⟩ := hcs
  simp only [List.mem_map, List.mem_range] at hc
  obtain ⟨j, hj, rfl⟩ := hc
  simp only
  omega

theorem cellsOf_congr (R R' : Mat) (M : List Bool) (b : Bool) (cs : List (Nat × Nat))
    (h : ∀ c ∈ cs, R.at c.1 c.2 = R'.at c.1 c.2) : cellsOf R M b cs = cellsOf R' M b cs := by
  unfold cellsOf
  apply List.map_congr_left
  intro c hc
  simp [h c hc]

/-- the diagonal-line kernels read the strict lower triangle only -/
theorem diag_cells_congr (R R' : Mat) (M : List Bool) (n : Nat)
    (h : ∀ i j, j < i → i < n → R.at i j = R'.at i j) :
    (diagCoords n).map (cellsOf R M true) = (diagCoords n).map (cellsOf R' M true) := by
  apply List.map_congr_left
  intro cs hcs
  apply cellsOf_congr
  intro c hc
  obtain ⟨h1, h2⟩ := diagCoords_lower n cs hcs c hc
  exact h c.1 c.2 h1 h2

theorem diaglineDist_congr (R R' : List (List Bool)) (n : Nat) (mask : Option (List Bool))
    (h : ∀ i j, j < i → i < n → Mat.at R i j = Mat.at R' i j) :
    diaglineDist R n mask = diaglineDist R' n mask := by
  cases mask with
  | none => simp only [diaglineDist, diagline, diag_cells_congr R R' [] n h]
  | some M => simp only [diaglineDist, diaglineMV, diag_cells_congr R R' M n h]

theorem at_tab_transpose (R : List (List Bool)) (n i j : Nat) (hi : i < n) (hj : j < n) :
    Mat.at (tab n n fun a b => Mat.at R b a) i j = Mat.at R j i := by
  simp [Mat.at, tab, List.getD_eq_getElem?_getD, hi, hj]

theorem zipWith_add_self (l : List Nat) : List.zipWith (· + ·) l l = l.map (2 * ·) := by
  induction l with
  | nil => rfl
  | cons a t ih =>
    simp only [List.zipWith_cons_cons, List.map_cons, ih]
    congr 1; omega

/-- on a matrix that is symmetric (within its first `n` rows / columns) doubling the lower
triangle counts every off-main diagonal once -/
theorem diaglineDist_symm (R : List (List Bool)) (n : Nat)
    (hs : ∀ i j, i < n → j < n → Mat.at R i j = Mat.at R j i) :
    diaglineDist R n none = diaglineAll R n := by
  have ht : diagline (tab n n fun i j => Mat.at R j i) n = diagline R n := by
    simp only [diagline]
    rw [diag_cells_congr (tab n n fun i j => Mat.at R j i) R [] n]
    intro i j hji hi
    rw [at_tab_transpose R n i j hi (by omega)]
    exact hs j i (by omega) hi
  simp only [diaglineDist, diaglineAll, ht, zipWith_add_self]

end Pyunicorn.Recurrence
