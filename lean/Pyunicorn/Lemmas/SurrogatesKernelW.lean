import Pyunicorn.Model.SurrogatesKernelW
import Pyunicorn.Lemmas.SurrogatesKernel
/-!
Round 3 (C15): the twin kernels with the machine counter and the source's subscripts
(`Model/SurrogatesKernelW.lean`) compute what the `Int`-counter model of
`Model/SurrogatesKernel.lean` computes — the work arrays are those with every counter wrapped —,
the row scan reads rows `j` and `k` of an arbitrary square matrix, and the twin test on the wrapped
counters is the exact one whenever `n_time ≤ 2^bits`.
-/
namespace Pyunicorn.Surrogates
open Pyunicorn.Generated

/-! ### the wrapped counter -/

theorem wrapInt_sub_one (bits : Nat) (x : Int) :
    wrapInt bits (wrapInt bits x - 1) = wrapInt bits (x - 1) := by
  unfold wrapInt
  have : (x + 2 ^ (bits - 1)) % 2 ^ bits - 2 ^ (bits - 1) - 1 + 2 ^ (bits - 1)
      = (x + 2 ^ (bits - 1)) % 2 ^ bits - 1 := by omega
  rw [this, Int.emod_sub_emod]
  have : x + 2 ^ (bits - 1) - 1 = x - 1 + 2 ^ (bits - 1) := by omega
  rw [this]

theorem two_pow_split (bits : Nat) (hb : 1 ≤ bits) : (2 : Int) ^ bits = 2 * 2 ^ (bits - 1) := by
  have : bits = (bits - 1) + 1 := by omega
  conv => lhs; rw [this, Int.pow_succ]
  omega

/-- for counts `0 ≤ a ≤ 2^bits` the wrapped counter is one exactly when the count is one -/
theorem wrapInt_eq_one_iff (bits : Nat) (hb : 2 ≤ bits) (a : Int) (h0 : 0 ≤ a)
    (h1 : a ≤ 2 ^ bits) : wrapInt bits a = 1 ↔ a = 1 := by
  unfold wrapInt
  rw [two_pow_split bits (by omega)] at h1 ⊢
  have hh : (2 : Int) ≤ 2 ^ (bits - 1) := by
    have : bits - 1 = (bits - 2) + 1 := by omega
    rw [this, Int.pow_succ]
    have : (0 : Int) < 2 ^ (bits - 2) := Int.pow_pos (by omega)
    omega
  generalize (2 : Int) ^ (bits - 1) = h at *
  by_cases hc : a + h < 2 * h
  · rw [Int.emod_eq_of_lt (by omega) hc]; omega
  · have : (a + h) % (2 * h) = a - h := by
      have e : a + h = (a - h) + (2 * h) * 1 := by omega
      rw [e, Int.add_mul_emod_self_left, Int.emod_eq_of_lt (by omega) (by omega)]
    rw [this]; omega

/-- the work arrays with every counter wrapped -/
def wrapW (bits : Nat) (w : Work) : Work := ⟨w.R, w.nR.map (wrapInt bits)⟩

theorem modify_wrap (bits : Nat) (l : List Int) (i : Nat) :
    (l.map (wrapInt bits)).modify i (fun x => wrapInt bits (x - 1))
      = (l.modify i (· - 1)).map (wrapInt bits) := by
  apply List.ext_getElem?
  intro a
  simp only [List.getElem?_modify, List.getElem?_map]
  cases l[a]? with
  | none => simp
  | some x => by_cases h : i = a <;> simp [h, wrapInt_sub_one]

theorem pairStepW_wrap (bits : Nat) (thr : Rat) (emb : List (List Rat)) (w : Work) (j k : Nat) :
    pairStepW bits thr emb (wrapW bits w) j k = wrapW bits (pairStep thr emb w j k) := by
  unfold pairStepW pairStep
  cases emb[j]? <;> cases emb[k]? <;> try rfl
  next u v =>
    simp only
    split
    · rfl
    · simp only [wrapW, ArithC15.kZeroStoreARow, ArithC15.kZeroStoreACol, ArithC15.kZeroStoreBRow,
        ArithC15.kZeroStoreBCol, ArithC15.kDecA, ArithC15.kDecB, Int.toNat_natCast, modify_wrap]

theorem foldl_wrap {ι : Type} (bits : Nat) (f g : Work → ι → Work)
    (h : ∀ w i, g (wrapW bits w) i = wrapW bits (f w i)) (l : List ι) (w : Work) :
    l.foldl g (wrapW bits w) = wrapW bits (l.foldl f w) := by
  induction l generalizing w with
  | nil => rfl
  | cons i l ih => rw [List.foldl_cons, List.foldl_cons, h, ih]

theorem recLoopW_wrap (bits : Nat) (thr : Rat) (emb : List (List Rat)) (w : Work) :
    recLoopW bits thr emb (wrapW bits w) = wrapW bits (recLoop thr emb w) := by
  unfold recLoopW recLoop
  apply foldl_wrap
  intro w j
  apply foldl_wrap
  intro w k
  exact pairStepW_wrap bits thr emb w j k

theorem initLoopW_eq (bits n : Nat) (w0 : Work) (h : w0.Shaped n) :
    initLoopW bits n w0
      = wrapW bits ⟨List.replicate n (List.replicate n true), List.replicate n (n : Int)⟩ := by
  have hR := initLoop_eq n w0 h
  rw [initLoop_split] at hR
  have hsplit : initLoopW bits n w0 = ⟨(initPairs n).foldl (mark true) w0.R,
      (List.range n).foldl (fun nR j => nR.set j (wrapInt bits n)) w0.nR⟩ := by
    unfold initLoopW
    rw [foldl_work_split
      (fun R (j : Nat) => (List.range (ArithC15.kInitRange (j : Int)).toNat).foldl
          (fun R (k : Nat) =>
            setCell (setCell R (ArithC15.kInitStoreARow j k).toNat (ArithC15.kInitStoreACol j k).toNat true)
              (ArithC15.kInitStoreBRow j k).toNat (ArithC15.kInitStoreBCol j k).toNat true) R)
      (fun nR (j : Nat) => nR.set j (wrapInt bits n))]
    simp only [initPairs, List.foldl_flatMap, List.foldl_map, kInitRange_toNat, mark,
      ArithC15.kInitStoreARow, ArithC15.kInitStoreACol, ArithC15.kInitStoreBRow,
      ArithC15.kInitStoreBCol, Int.toNat_natCast]
  rw [hsplit]
  have hR' : (initPairs n).foldl (mark true) w0.R = List.replicate n (List.replicate n true) :=
    congrArg Work.R hR
  simp only [wrapW, hR', List.map_replicate]
  congr 1
  apply List.ext_getElem?
  intro a
  rw [getElem?_foldl_set, List.getElem?_replicate]
  by_cases ha : a < n
  · have : a < w0.nR.length := by rw [h.2.2]; exact ha
    simp [ha, List.getElem?_eq_getElem this]
  · have : w0.nR[a]? = none := by simp; rw [h.2.2]; omega
    simp [ha, this]

/-- after the two loops: the recurrence matrix, and the row sums wrapped into the counter type -/
theorem recLoopW_initLoopW (bits : Nat) (thr : Rat) (emb : List (List Rat)) (w0 : Work)
    (h : w0.Shaped emb.length) :
    recLoopW bits thr emb (initLoopW bits emb.length w0)
      = wrapW bits ⟨recMatrix thr emb, (rowCounts (recMatrix thr emb)).map (fun c : Nat => (c : Int))⟩ := by
  rw [initLoopW_eq bits _ w0 h, recLoopW_wrap, recLoop_eq]

/-! ### the row scan reads rows `j` and `k` -/

theorem cellI_nat (R : List (List Bool)) (a b : Nat) :
    cellI R (a : Int) (b : Int) = R[a]?.bind (·[b]?) := by
  unfold cellI
  have : ¬ ((a : Int) < 0 ∨ (b : Int) < 0) := by omega
  simp only [this, if_false, Int.toNat_natCast]

/-- for subscript functions that are `(j, l)` and `(k, l)` and the end test `l == n`: the scan from
column `l` decides whether the rows agree from `l` on -/
theorem scanK_rows {rowA colA rowB colB : Int → Int → Int → Int} {endT : Int → Int → Bool}
    (hA : ∀ j k l : Nat, rowA j k l = j ∧ colA j k l = l ∧ rowB j k l = k ∧ colB j k l = l)
    (hE : ∀ l n : Nat, endT l n = decide (l = n))
    (R : List (List Bool)) (n j k : Nat) (rj rk : List Bool) (hrj : R[j]? = some rj)
    (hrk : R[k]? = some rk) (hlj : rj.length = n) (hlk : rk.length = n) :
    ∀ f l, l + f = n → 0 < f →
      scanK rowA colA rowB colB endT R n j k f l = some (sameRow (rj.drop l) (rk.drop l)) := by
  intro f
  induction f with
  | zero => intro l _ h; omega
  | succ f ih =>
    intro l hl _
    have hlj' : l < rj.length := by omega
    have hlk' : l < rk.length := by omega
    obtain ⟨h1, h2, h3, h4⟩ := hA j k l
    unfold scanK
    rw [h1, h2, h3, h4, cellI_nat, cellI_nat, hrj, hrk]
    simp only [Option.bind_some, List.getElem?_eq_getElem hlj', List.getElem?_eq_getElem hlk']
    rw [List.drop_eq_getElem_cons hlj', List.drop_eq_getElem_cons hlk']
    simp only [sameRow]
    by_cases hxy : rj[l] = rk[l]
    · simp only [hxy, beq_self_eq_true, if_true, Bool.true_and, hE]
      by_cases hend : l + 1 = n
      · simp only [hend, decide_true, if_true]
        rw [List.drop_eq_nil_of_le (by omega), List.drop_eq_nil_of_le (by omega)]
        rfl
      · simp only [hend, decide_false]
        exact ih (l + 1) (by omega) (by omega)
    · have : (rj[l] == rk[l]) = false := by simpa using hxy
      simp [this]

/-- the twin test with the source's condition and scan equals the test of the loop-level model,
for every square matrix (symmetric or not) and every content of `nR` -/
theorem isTwinScan_eq {rowA colA rowB colB : Int → Int → Int → Int} {endT : Int → Int → Bool}
    {cond : Int → Int → Bool}
    (hA : ∀ j k l : Nat, rowA j k l = j ∧ colA j k l = l ∧ rowB j k l = k ∧ colB j k l = l)
    (hE : ∀ l n : Nat, endT l n = decide (l = n))
    (hC : ∀ a b : Int, cond a b = (a == b && a != 1))
    (n : Nat) (R : List (List Bool)) (hS : Square n R) (nR : List Int) (j k : Nat) :
    isTwinScan cond (fun j k => scanK rowA colA rowB colB endT R n j k n 0) nR j k
      = isTwinW ⟨R, nR⟩ j k := by
  unfold isTwinScan isTwinW
  cases hnj : nR[j]? with
  | none => cases R[j]? <;> cases R[k]? <;> rfl
  | some a =>
    cases hnk : nR[k]? with
    | none => cases R[j]? <;> cases R[k]? <;> rfl
    | some b =>
      simp only [hC]
      cases hrj : R[j]? with
      | none =>
        have : scanK rowA colA rowB colB endT R n j k n 0 = none := by
          cases n with
          | zero => rfl
          | succ m =>
            obtain ⟨h1, h2, _, _⟩ := hA j k 0
            unfold scanK
            rw [h1, h2, cellI_nat, hrj]
            rfl
        simp [this]
      | some rj =>
        cases hrk : R[k]? with
        | none =>
          have : scanK rowA colA rowB colB endT R n j k n 0 = none := by
            cases n with
            | zero => rfl
            | succ m =>
              obtain ⟨h1, h2, h3, h4⟩ := hA j k 0
              unfold scanK
              rw [h1, h2, h3, h4, cellI_nat, cellI_nat, hrj, hrk]
              cases (some rj : Option (List Bool)).bind (·[0]?) <;> rfl
          simp [this]
        | some rk =>
          have hj : j < n := by
            have := (List.getElem?_eq_some_iff.1 hrj).1; rw [hS.1] at this; exact this
          have hlj := hS.2 rj (List.mem_of_getElem? hrj)
          have hlk := hS.2 rk (List.mem_of_getElem? hrk)
          have := scanK_rows hA hE R n j k rj rk hrj hrk hlj hlk n 0 (by omega) (by omega)
          simp only [this, List.drop_zero, Option.getD_some]

theorem scanS_hA : ∀ j k l : Nat, ArithC15.kScanSARow j k l = j ∧ ArithC15.kScanSACol j k l = l ∧
    ArithC15.kScanSBRow j k l = k ∧ ArithC15.kScanSBCol j k l = l := by
  intro j k l
  simp [ArithC15.kScanSARow, ArithC15.kScanSACol, ArithC15.kScanSBRow, ArithC15.kScanSBCol]

theorem scanR_hA : ∀ j k l : Nat, ArithC15.kScanRARow j k l = j ∧ ArithC15.kScanRACol j k l = l ∧
    ArithC15.kScanRBRow j k l = k ∧ ArithC15.kScanRBCol j k l = l := by
  intro j k l
  simp [ArithC15.kScanRARow, ArithC15.kScanRACol, ArithC15.kScanRBRow, ArithC15.kScanRBCol]

theorem condS_eq (a b : Int) : ArithC15.kTwinCondS a b = (a == b && a != 1) := by
  simp only [ArithC15.kTwinCondS]
  rw [Bool.eq_iff_iff]
  simp

theorem condR_eq (a b : Int) : ArithC15.kTwinCondR a b = (a == b && a != 1) := by
  simp only [ArithC15.kTwinCondR]
  rw [Bool.eq_iff_iff]
  simp

theorem endS_eq (l n : Nat) : ArithC15.kScanEndS l n = decide (l = n) := by
  simp only [ArithC15.kScanEndS]
  rw [Bool.eq_iff_iff]
  simp
  omega

theorem endR_eq (l n : Nat) : ArithC15.kScanEndR l n = decide (l = n) := by
  simp only [ArithC15.kScanEndR]
  rw [Bool.eq_iff_iff]
  simp
  omega

/-! ### `_twins_r` on arbitrary square matrices -/

theorem twinsRKW_eq (md n : Nat) (R : List (List Bool)) (hS : Square n R) (nR : List Nat) :
    twinsRKW md n R (nR.map fun c : Nat => (c : Int)) = twinsR md n R nR := by
  unfold twinsRKW twinsR
  rw [twinListsK_R_eq]
  congr 2
  funext j k
  have := isTwinScan_eq scanR_hA endR_eq condR_eq n R hS (nR.map fun c : Nat => (c : Int)) j k
  unfold scanR
  rw [this]
  unfold isTwinW isTwin
  simp only [List.getElem?_map]
  cases R[j]? <;> cases R[k]? <;> cases nR[j]? <;> cases nR[k]? <;>
    simp only [Option.map_some, Option.map_none]
  next rj rk a b =>
    have h1 : ((a : Int) == (b : Int)) = (a == b) := by
      rw [Bool.eq_iff_iff]; simp only [beq_iff_eq]; omega
    have h2 : ((a : Int) != 1) = (a != 1) := by
      rw [Bool.eq_iff_iff]; simp only [bne_iff_ne, ne_eq]; omega
    rw [h1, h2]

theorem rpTwinsKW_eq (md : Nat) (R : List (List Bool)) (hS : Square R.length R) :
    rpTwinsKW md R = rpTwins md R := by
  unfold rpTwinsKW rpTwins
  exact twinsRKW_eq md R.length R hS (rowCounts R)

/-! ### the twin test on wrapped counters -/

/-- on the wrapped row sums the test says: identical rows whose wrapped count is not one -/
theorem isTwinW_wrap_iff (bits : Nat) (R : List (List Bool)) (j k : Nat) :
    isTwinW (wrapW bits ⟨R, (rowCounts R).map (fun c : Nat => (c : Int))⟩) j k = true ↔
      ∃ r, R[j]? = some r ∧ R[k]? = some r ∧ wrapInt bits (r.count true : Nat) ≠ 1 := by
  unfold isTwinW wrapW rowCounts
  simp only [List.getElem?_map]
  cases hj : R[j]? with
  | none => simp
  | some rj =>
    cases hk : R[k]? with
    | none => simp
    | some rk =>
      simp only [Option.map_some, Bool.and_eq_true, beq_iff_eq, bne_iff_ne, ne_eq, sameRow_iff,
        Option.some.injEq]
      constructor
      · rintro ⟨⟨_, h1⟩, rfl⟩
        exact ⟨rj, rfl, rfl, h1⟩
      · rintro ⟨r, rfl, rfl, h1⟩
        exact ⟨⟨rfl, h1⟩, rfl⟩

theorem count_le_of_square {n : Nat} {R : List (List Bool)} (hS : Square n R) {j : Nat}
    {r : List Bool} (h : R[j]? = some r) : r.count true ≤ n := by
  have := hS.2 r (List.mem_of_getElem? h)
  rw [← this]
  exact List.count_le_length

/-- **no wrap-around effect for `n_time ≤ 2^bits`**: the test on the wrapped counters is the exact
test -/
theorem isTwinW_wrap_eq (bits : Nat) (hb : 2 ≤ bits) (n : Nat) (hn : (n : Int) ≤ 2 ^ bits)
    (R : List (List Bool)) (hS : Square n R) (j k : Nat) :
    isTwinW (wrapW bits ⟨R, (rowCounts R).map (fun c : Nat => (c : Int))⟩) j k
      = isTwin R (rowCounts R) j k := by
  rw [Bool.eq_iff_iff, isTwinW_wrap_iff, isTwin_rowCounts_iff]
  constructor
  · rintro ⟨r, h1, h2, h3⟩
    refine ⟨r, h1, h2, ?_⟩
    intro hc
    apply h3
    rw [wrapInt_eq_one_iff bits hb _ (by omega) (by have := count_le_of_square hS h1; omega)]
    omega
  · rintro ⟨r, h1, h2, h3⟩
    refine ⟨r, h1, h2, ?_⟩
    intro hc
    rw [wrapInt_eq_one_iff bits hb _ (by omega) (by have := count_le_of_square hS h1; omega)] at hc
    omega

/-! ### `_twins_s` with the machine counter -/

theorem wrap_shaped (bits : Nat) (thr : Rat) (emb : List (List Rat)) :
    Work.Shaped emb.length
      (wrapW bits ⟨recMatrix thr emb, (rowCounts (recMatrix thr emb)).map (fun c : Nat => (c : Int))⟩) := by
  have h := recMatrix_square thr emb
  exact ⟨h.1, h.2, by simp [wrapW, rowCounts, h.1]⟩

/-- one series, every counter width and length: the lists are built from the test on the wrapped
row sums of the recurrence matrix; the arrays left behind are the matrix and the wrapped sums -/
theorem twinsKernelOneW_eq (bits : Nat) (thr : Rat) (md : Nat) (emb : List (List Rat)) (w0 : Work)
    (h : w0.Shaped emb.length) :
    twinsKernelOneW bits thr md emb w0 =
      (twinLists emb.length md (isTwinW (wrapW bits ⟨recMatrix thr emb,
          (rowCounts (recMatrix thr emb)).map (fun c : Nat => (c : Int))⟩)),
        wrapW bits ⟨recMatrix thr emb, (rowCounts (recMatrix thr emb)).map (fun c : Nat => (c : Int))⟩) := by
  unfold twinsKernelOneW
  simp only [recLoopW_initLoopW bits thr emb w0 h, twinListsK_S_eq]
  congr 2
  funext j k
  have := isTwinScan_eq scanS_hA endS_eq condS_eq emb.length (recMatrix thr emb)
    (recMatrix_square thr emb)
    (wrapW bits ⟨recMatrix thr emb, (rowCounts (recMatrix thr emb)).map (fun c : Nat => (c : Int))⟩).nR j k
  unfold scanS
  exact this

theorem twinsKernelOneW_exact (bits : Nat) (hb : 2 ≤ bits) (thr : Rat) (md : Nat)
    (emb : List (List Rat)) (hn : (emb.length : Int) ≤ 2 ^ bits) (w0 : Work)
    (h : w0.Shaped emb.length) :
    (twinsKernelOneW bits thr md emb w0).1 = twinsS thr md emb := by
  rw [twinsKernelOneW_eq bits thr md emb w0 h]
  unfold twinsS
  simp only
  congr 1
  funext j k
  exact isTwinW_wrap_eq bits hb emb.length hn _ (recMatrix_square thr emb) j k

theorem twinsKernelW_eq (bits : Nat) (hb : 2 ≤ bits) (thr : Rat) (md : Nat)
    (embs : List (List (List Rat))) (n : Nat) (hn : ∀ e ∈ embs, e.length = n)
    (hw : (n : Int) ≤ 2 ^ bits) (w0 : Work) (h : w0.Shaped n) :
    (twinsKernelW bits thr md embs w0).1 = embs.map (twinsS thr md) := by
  induction embs generalizing w0 with
  | nil => rfl
  | cons emb rest ih =>
    have he : emb.length = n := hn emb (List.mem_cons_self ..)
    subst he
    simp only [twinsKernelW, List.map_cons]
    rw [twinsKernelOneW_exact bits hb thr md emb hw w0 h]
    congr 1
    apply ih (fun e he => hn e (List.mem_cons_of_mem _ he))
    rw [twinsKernelOneW_eq bits thr md emb w0 h]
    exact wrap_shaped bits thr emb

theorem twinsMethodW_eq (bits : Nat) (hb : 2 ≤ bits) (thr : Rat) (md : Nat)
    (embs : List (List (List Rat))) (n : Nat) (hn : ∀ e ∈ embs, e.length = n)
    (hw : (n : Int) ≤ 2 ^ bits) (g : Nat → Nat → Bool) (gn : Nat → Int) :
    twinsMethodW bits thr md embs g gn = embs.map (twinsS thr md) := by
  unfold twinsMethodW
  cases embs with
  | nil => rfl
  | cons emb rest =>
    have he : emb.length = n := hn emb (List.mem_cons_self ..)
    simp only [List.headD_cons, he]
    apply twinsKernelW_eq bits hb thr md _ n hn hw
    refine ⟨by simp, ?_, by simp⟩
    intro r hr
    simp only [List.mem_map] at hr
    obtain ⟨j, _, rfl⟩ := hr
    simp

theorem twinSurrogatesKW_eq (bits : Nat) (hb : 2 ≤ bits) (data : List (List Rat))
    (n dim delay : Nat) (thr : Rat) (md : Nat) (pick : Nat → Nat → Nat) (g : Nat → Nat → Bool)
    (gn : Nat → Int) (hd : 1 ≤ dim) (hrows : ∀ r ∈ data, r.length = n)
    (hw : ((n - (dim - 1) * delay : Nat) : Int) ≤ 2 ^ bits) :
    twinSurrogatesKW bits data dim delay thr md pick g gn
      = twinSurrogates data dim delay thr md pick := by
  unfold twinSurrogatesKW twinSurrogates
  have hm : data.mapM (embedK · dim delay) = data.mapM (embed · dim delay) :=
    mapM_option_congr _ _ _ (fun row _ => embedK_eq_embed row dim delay hd)
  rw [hm]
  cases hE : data.mapM (embed · dim delay) with
  | none => rfl
  | some embs =>
    have hlen : ∀ e ∈ embs, e.length = n - (dim - 1) * delay := by
      intro e he
      obtain ⟨row, hrow, hre⟩ := mapM_option_mem _ _ _ hE e he
      rw [embed_length row dim delay e hre, hrows row hrow]
    simp only [twinsMethodW_eq bits hb thr md embs _ hlen hw g gn, twinLen_toNat _ dim delay hd]
    rfl

end Pyunicorn.Surrogates
