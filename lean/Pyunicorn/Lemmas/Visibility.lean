import Pyunicorn.Model.Visibility
/-! Helper lemmas for C14, part 1: the loops (core Lean only). -/
namespace Pyunicorn.Visibility

@[simp] theorem bind_ok {α β : Type} (a : α) (f : α → Except Err β) :
    (Except.ok a >>= f) = f a := rfl
@[simp] theorem bind_error {α β : Type} (e : Err) (f : α → Except Err β) :
    (Except.error e >>= f) = Except.error e := rfl

/-- the `while` loop stops at the first index at which the condition fails, or at `j` -/
theorem scan_spec (cond : Nat → Except Err Bool) (c : Nat → Bool) (j : Nat) :
    ∀ (f k : Nat), k ≤ j → j - k < f →
      (∀ m, k ≤ m → m ≤ j → cond m = .ok (c m)) →
      ∃ r, scan cond j f k = .ok r ∧ k ≤ r ∧ r ≤ j ∧
        (r = j ↔ ∀ m, k ≤ m → m < j → c m = true) := by
  intro f
  induction f with
  | zero => intro k _ h; omega
  | succ f ih =>
    intro k hk hf hc
    simp only [scan, hc k (Nat.le_refl _) hk, bind_ok]
    by_cases h1 : c k = true ∧ k < j
    · obtain ⟨r, hr, h2, h3, h4⟩ := ih (k + 1) (by omega) (by omega)
        (fun m hm1 hm2 => hc m (by omega) hm2)
      simp only [h1.1, h1.2, decide_true, Bool.and_self, if_true]
      refine ⟨r, hr, by omega, h3, ?_⟩
      rw [h4]
      constructor
      · intro h m hm1 hm2
        by_cases hmk : m = k
        · subst hmk; exact h1.1
        · exact h m (by omega) hm2
      · intro h m hm1 hm2
        exact h m (by omega) hm2
    · have : (c k && decide (k < j)) = false := by
        by_cases hck : c k = true
        · have : ¬ k < j := fun h => h1 ⟨hck, h⟩
          simp [this]
        · simp [hck]
      simp only [this]
      refine ⟨k, rfl, Nat.le_refl _, hk, ?_⟩
      constructor
      · intro h m hm1 hm2; omega
      · intro h
        by_cases hkj : k < j
        · have := h k (Nat.le_refl _) hkj
          exact absurd ⟨this, hkj⟩ h1
        · omega

/-- an error of the loop is an error of the condition at an index in `[k, j]`;
in particular the fuel `j - k + 1` is never exhausted -/
theorem scan_error (cond : Nat → Except Err Bool) (j : Nat) :
    ∀ (f k : Nat) (e : Err), k ≤ j → j - k < f → scan cond j f k = .error e →
      ∃ m, k ≤ m ∧ m ≤ j ∧ cond m = .error e := by
  intro f
  induction f with
  | zero => intro k e _ h; omega
  | succ f ih =>
    intro k e hk hf h
    simp only [scan] at h
    cases hc : cond k with
    | error e' =>
      rw [hc] at h
      simp only [bind_error] at h
      exact ⟨k, Nat.le_refl _, hk, by rw [hc]; cases h; rfl⟩
    | ok b =>
      rw [hc] at h
      simp only [bind_ok] at h
      by_cases h1 : (b && decide (k < j)) = true
      · rw [if_pos h1] at h
        have hkj : k < j := by simp at h1; exact h1.2
        obtain ⟨m, h2, h3, h4⟩ := ih (k + 1) e (by omega) (by omega) h
        exact ⟨m, by omega, h3, h4⟩
      · rw [if_neg h1] at h
        cases h

theorem filterE_spec {α : Type} (f : α → Except Err Bool) (P : α → Prop) :
    ∀ (l : List α), (∀ a ∈ l, ∃ b, f a = .ok b ∧ (b = true ↔ P a)) →
      ∃ r, filterE f l = .ok r ∧ ∀ a, a ∈ r ↔ a ∈ l ∧ P a := by
  intro l
  induction l with
  | nil => intro _; exact ⟨[], rfl, by simp⟩
  | cons a l ih =>
    intro h
    obtain ⟨b, hb, hP⟩ := h a (List.mem_cons_self)
    obtain ⟨r, hr, hmem⟩ := ih (fun a' ha' => h a' (List.mem_cons_of_mem _ ha'))
    simp only [filterE, hb, hr, bind_ok]
    refine ⟨_, rfl, ?_⟩
    intro a'
    cases b with
    | true =>
      have : P a := hP.mp rfl
      simp only [if_true, List.mem_cons, hmem]
      constructor
      · rintro (rfl | ⟨h1, h2⟩)
        · exact ⟨Or.inl rfl, this⟩
        · exact ⟨Or.inr h1, h2⟩
      · rintro ⟨rfl | h1, h2⟩
        · exact Or.inl rfl
        · exact Or.inr ⟨h1, h2⟩
    | false =>
      have : ¬ P a := fun hp => by have := hP.mpr hp; cases this
      simp only [Bool.false_eq_true, if_false, List.mem_cons, hmem]
      constructor
      · rintro ⟨h1, h2⟩; exact ⟨Or.inr h1, h2⟩
      · rintro ⟨rfl | h1, h2⟩
        · exact absurd h2 this
        · exact ⟨h1, h2⟩

/-- an error of `filterE` is an error of `f` on some element -/
theorem filterE_error {α : Type} (f : α → Except Err Bool) (e : Err) :
    ∀ (l : List α), filterE f l = .error e → ∃ a ∈ l, f a = .error e := by
  intro l
  induction l with
  | nil => intro h; cases h
  | cons a l ih =>
    intro h
    simp only [filterE] at h
    cases hc : f a with
    | error e' =>
      rw [hc] at h; simp only [bind_error] at h
      exact ⟨a, List.mem_cons_self, by rw [hc]; cases h; rfl⟩
    | ok b =>
      rw [hc] at h; simp only [bind_ok] at h
      cases hr : filterE f l with
      | error e' =>
        rw [hr] at h; simp only [bind_error] at h
        obtain ⟨a', h1, h2⟩ := ih (by rw [hr]; exact h)
        exact ⟨a', List.mem_cons_of_mem _ h1, h2⟩
      | ok r => rw [hr] at h; simp only [bind_ok] at h; cases h

theorem farPairs_mem (N i j : Nat) : (i, j) ∈ farPairs N ↔ i + 2 ≤ j ∧ j < N := by
  simp only [farPairs, List.mem_flatMap, List.mem_range, List.mem_map, List.mem_range'_1,
    Prod.mk.injEq]
  constructor
  · rintro ⟨i', h1, j', ⟨h2, h3⟩, rfl, rfl⟩
    omega
  · rintro ⟨h1, h2⟩
    exact ⟨i, by omega, j, ⟨by omega, by omega⟩, rfl, rfl⟩

theorem adjPairs_mem (N i j : Nat) : (i, j) ∈ adjPairs N ↔ j = i + 1 ∧ j < N := by
  simp only [adjPairs, List.mem_map, List.mem_range, Prod.mk.injEq]
  constructor
  · rintro ⟨i', h1, rfl, rfl⟩; omega
  · rintro ⟨h1, h2⟩; exact ⟨i, by omega, rfl, h1.symm⟩

theorem rd_lt {α : Type} (l : List α) (k : Nat) (h : k < l.length) : rd l k = .ok l[k] := by
  simp [rd, List.getElem?_eq_getElem h]

/-! ### the kernels under their precondition -/

/-- timing `k` (used with `k < N ≤ t.length` only) -/
def tAt (t : List Rat) (k : Nat) : Rat := t.getD k 0

/-- the mathematical value of `(x[k] - x[i]) / (t[k] - t[i])` -/
def slopeVal (x : List Val) (t : List Rat) (i k : Nat) : Val :=
  vdivR (vsub (valAt x k) (valAt x i)) (tAt t k - tAt t i)

/-- `mv_indices[k]` (no mask: nothing is masked) -/
def masked (mv : Option (List Bool)) (k : Nat) : Bool :=
  match mv with
  | none => false
  | some m => m.getD k false

/-- what the kernels require of their arguments: arrays at least `N` long and
strictly increasing timings -/
structure Good (x : List Val) (t : List Rat) (mv : Option (List Bool)) (N : Nat) : Prop where
  lx : N ≤ x.length
  lt : N ≤ t.length
  lm : ∀ m, mv = some m → N ≤ m.length
  inc : ∀ a b, a < b → b < N → tAt t a < tAt t b

theorem valAt_lt (x : List Val) (k : Nat) (h : k < x.length) : valAt x k = x[k] := by
  simp [valAt, List.getElem?_eq_getElem h]

theorem tAt_lt (t : List Rat) (k : Nat) (h : k < t.length) : tAt t k = t[k] := by
  simp [tAt, List.getD, List.getElem?_eq_getElem h]

theorem slope_ok (x : List Val) (t : List Rat) (i k : Nat) (hi : i < x.length)
    (hk : k < x.length) (hi' : i < t.length) (hk' : k < t.length)
    (hne : tAt t k ≠ tAt t i) : slope x t i k = .ok (slopeVal x t i k) := by
  have h0 : ¬ (t[k] - t[i] = 0) := by
    rw [tAt_lt t k hk', tAt_lt t i hi'] at hne
    intro h; exact hne (by grind)
  simp only [slope, rd_lt x k hk, rd_lt x i hi, rd_lt t k hk', rd_lt t i hi', bind_ok, h0,
    if_false, slopeVal, valAt_lt x k hk, valAt_lt x i hi, tAt_lt t k hk', tAt_lt t i hi']

theorem condN_ok (x : List Val) (t : List Rat) (mv : Option (List Bool)) (N i k : Nat)
    (test : Val) (g : Good x t mv N) (hik : i < k) (hk : k < N) :
    condN x t mv i test k = .ok (!masked mv k && vlt (slopeVal x t i k) test) := by
  have hs := slope_ok x t i k (by have := g.lx; omega) (by have := g.lx; omega)
    (by have := g.lt; omega) (by have := g.lt; omega) (Ne.symm (Rat.ne_of_lt (g.inc i k hik hk)))
  cases mv with
  | none => simp [condN, masked, hs]
  | some m =>
    have hm : k < m.length := by have := g.lm m rfl; omega
    simp only [condN, rd_lt m k hm, bind_ok, masked, List.getD, List.getElem?_eq_getElem hm,
      Option.getD_some]
    cases m[k] <;> simp [hs]

/-- far pair of the natural kernels: every intermediate sample is unmasked and
its slope seen from `i` is smaller than the slope of `j` -/
def FarN (x : List Val) (t : List Rat) (mv : Option (List Bool)) (i j : Nat) : Prop :=
  ∀ m, i < m → m < j → masked mv m = false ∧ vlt (slopeVal x t i m) (slopeVal x t i j) = true

theorem farN_spec (x : List Val) (t : List Rat) (mv : Option (List Bool)) (N i j : Nat)
    (g : Good x t mv N) (hij : i < j) (hj : j < N) :
    ∃ b, farN x t mv i j = .ok b ∧ (b = true ↔ FarN x t mv i j) := by
  have hs := slope_ok x t i j (by have := g.lx; omega) (by have := g.lx; omega)
    (by have := g.lt; omega) (by have := g.lt; omega) (Ne.symm (Rat.ne_of_lt (g.inc i j hij hj)))
  obtain ⟨r, hr, _, _, h4⟩ := scan_spec (condN x t mv i (slopeVal x t i j))
    (fun k => !masked mv k && vlt (slopeVal x t i k) (slopeVal x t i j)) j (j - i) (i + 1)
    (by omega) (by omega)
    (fun m h1 h2 => condN_ok x t mv N i m _ g (by omega) (by omega))
  refine ⟨r == j, by simp only [farN, hs, bind_ok, hr], ?_⟩
  rw [beq_iff_eq, h4]
  constructor
  · intro h m h1 h2
    have := h m (by omega) h2
    simpa using this
  · intro h m h1 h2
    have := h m (by omega) h2
    simp [this.1, this.2]

/-- far pair of the horizontal kernel -/
def FarH (x : List Val) (i j : Nat) : Prop :=
  ∀ m, i < m → m < j → vlt (valAt x m) (cmin (valAt x i) (valAt x j)) = true

theorem farH_spec (x : List Val) (N i j : Nat) (lx : N ≤ x.length) (hij : i < j) (hj : j < N) :
    ∃ b, farH x i j = .ok b ∧ (b = true ↔ FarH x i j) := by
  have hi' : i < x.length := by omega
  have hj' : j < x.length := by omega
  obtain ⟨r, hr, _, _, h4⟩ := scan_spec (condH x (cmin x[i] x[j]))
    (fun k => vlt (valAt x k) (cmin x[i] x[j])) j (j - i) (i + 1) (by omega) (by omega)
    (fun m h1 h2 => by
      have hm : m < x.length := by omega
      simp [condH, rd_lt x m hm, valAt_lt x m hm])
  refine ⟨r == j, by simp only [farH, rd_lt x i hi', rd_lt x j hj', bind_ok, hr], ?_⟩
  rw [beq_iff_eq, h4, FarH, valAt_lt x i hi', valAt_lt x j hj']
  constructor
  · intro h m h1 h2; exact h m (by omega) h2
  · intro h m h1 h2; exact h m (by omega) h2

theorem adjCond_spec (mv : Option (List Bool)) (N i : Nat) (lm : ∀ m, mv = some m → N ≤ m.length)
    (hi : i + 1 < N) :
    ∃ b, adjCond mv (i, i + 1) = .ok b ∧
      (b = true ↔ masked mv i = false ∧ masked mv (i + 1) = false) := by
  cases mv with
  | none => exact ⟨true, rfl, by simp [masked]⟩
  | some m =>
    have h1 : i < m.length := by have := lm m rfl; omega
    have h2 : i + 1 < m.length := by have := lm m rfl; omega
    simp only [adjCond, rd_lt m i h1, rd_lt m (i + 1) h2, bind_ok, masked, List.getD,
      List.getElem?_eq_getElem h1, List.getElem?_eq_getElem h2, Option.getD_some]
    cases m[i] <;> cases m[i + 1] <;> simp

/-- **the natural kernels**: the write log holds exactly the far pairs satisfying
the slope criterion and the unmasked adjacent pairs -/
theorem kernelN_spec (x : List Val) (t : List Rat) (mv : Option (List Bool)) (N : Nat)
    (g : Good x t mv N) :
    ∃ log, kernelN x t mv N = .ok log ∧ ∀ a b, (a, b) ∈ log ↔
      (a + 2 ≤ b ∧ b < N ∧ FarN x t mv a b) ∨
      (b = a + 1 ∧ b < N ∧ masked mv a = false ∧ masked mv b = false) := by
  obtain ⟨far, hfar, hfm⟩ := filterE_spec (fun p => farN x t mv p.1 p.2)
    (fun p => FarN x t mv p.1 p.2) (farPairs N) (by
      rintro ⟨i, j⟩ hp
      rw [farPairs_mem] at hp
      exact farN_spec x t mv N i j g (by omega) hp.2)
  obtain ⟨adj, hadj, ham⟩ := filterE_spec (adjCond mv)
    (fun p => masked mv p.1 = false ∧ masked mv p.2 = false) (adjPairs N) (by
      rintro ⟨i, j⟩ hp
      rw [adjPairs_mem] at hp
      obtain ⟨rfl, h2⟩ := hp
      exact adjCond_spec mv N i g.lm h2)
  refine ⟨far ++ adj, by simp only [kernelN, hfar, hadj, bind_ok], ?_⟩
  intro a b
  rw [List.mem_append, hfm, ham, farPairs_mem, adjPairs_mem]
  constructor
  · rintro (⟨⟨h1, h2⟩, h3⟩ | ⟨⟨h1, h2⟩, h3⟩)
    · exact Or.inl ⟨h1, h2, h3⟩
    · exact Or.inr ⟨h1, h2, h3⟩
  · rintro (⟨h1, h2, h3⟩ | ⟨h1, h2, h3⟩)
    · exact Or.inl ⟨⟨h1, h2⟩, h3⟩
    · exact Or.inr ⟨⟨h1, h2⟩, h3⟩

/-- **the horizontal kernel** -/
theorem kernelH_spec (x : List Val) (N : Nat) (lx : N ≤ x.length) :
    ∃ log, kernelH x N = .ok log ∧ ∀ a b, (a, b) ∈ log ↔
      (a + 2 ≤ b ∧ b < N ∧ FarH x a b) ∨ (b = a + 1 ∧ b < N) := by
  obtain ⟨far, hfar, hfm⟩ := filterE_spec (fun p => farH x p.1 p.2)
    (fun p => FarH x p.1 p.2) (farPairs N) (by
      rintro ⟨i, j⟩ hp
      rw [farPairs_mem] at hp
      exact farH_spec x N i j lx (by omega) hp.2)
  refine ⟨far ++ adjPairs N, by simp only [kernelH, hfar, bind_ok], ?_⟩
  intro a b
  rw [List.mem_append, hfm, farPairs_mem, adjPairs_mem]
  constructor
  · rintro (⟨⟨h1, h2⟩, h3⟩ | ⟨h1, h2⟩)
    · exact Or.inl ⟨h1, h2, h3⟩
    · exact Or.inr ⟨h1, h2⟩
  · rintro (⟨h1, h2, h3⟩ | ⟨h1, h2⟩)
    · exact Or.inl ⟨⟨h1, h2⟩, h3⟩
    · exact Or.inr ⟨h1, h2⟩

/-! ### errors -/

theorem slope_error (x : List Val) (t : List Rat) (i k : Nat) (e : Err) (hi : i < x.length)
    (hk : k < x.length) (hi' : i < t.length) (hk' : k < t.length)
    (h : slope x t i k = .error e) : e = .zeroDiv ∧ tAt t k = tAt t i := by
  simp only [slope, rd_lt x k hk, rd_lt x i hi, rd_lt t k hk', rd_lt t i hi', bind_ok] at h
  by_cases h0 : t[k] - t[i] = 0
  · rw [if_pos h0] at h
    cases h
    exact ⟨rfl, by rw [tAt_lt t k hk', tAt_lt t i hi']; grind⟩
  · rw [if_neg h0] at h
    cases h

theorem condN_error (x : List Val) (t : List Rat) (mv : Option (List Bool)) (N i k : Nat)
    (test : Val) (e : Err) (lx : N ≤ x.length) (lt : N ≤ t.length)
    (lm : ∀ m, mv = some m → N ≤ m.length) (hi : i < N) (hk : k < N)
    (h : condN x t mv i test k = .error e) : e = .zeroDiv ∧ tAt t k = tAt t i := by
  have hs : ∀ e', slope x t i k = .error e' → e' = .zeroDiv ∧ tAt t k = tAt t i := fun e' =>
    slope_error x t i k e' (by omega) (by omega) (by omega) (by omega)
  cases mv with
  | none =>
    simp only [condN, pure, Except.pure, bind_ok, Bool.false_eq_true, if_false] at h
    cases hsl : slope x t i k with
    | error e' => rw [hsl] at h; cases h; exact hs _ hsl
    | ok s => rw [hsl] at h; cases h
  | some m =>
    have hm : k < m.length := by have := lm m rfl; omega
    simp only [condN, rd_lt m k hm, bind_ok] at h
    cases hmk : m[k] with
    | true => rw [hmk] at h; cases h
    | false =>
      rw [hmk] at h
      simp only [Bool.false_eq_true, if_false] at h
      cases hsl : slope x t i k with
      | error e' => rw [hsl] at h; cases h; exact hs _ hsl
      | ok s => rw [hsl] at h; cases h

theorem farN_error (x : List Val) (t : List Rat) (mv : Option (List Bool)) (N i j : Nat)
    (e : Err) (lx : N ≤ x.length) (lt : N ≤ t.length)
    (lm : ∀ m, mv = some m → N ≤ m.length) (hij : i < j) (hj : j < N)
    (h : farN x t mv i j = .error e) :
    e = .zeroDiv ∧ ∃ k, i < k ∧ k ≤ j ∧ tAt t k = tAt t i := by
  simp only [farN] at h
  cases hsl : slope x t i j with
  | error e' =>
    rw [hsl] at h; cases h
    have := slope_error x t i j _ (by omega) (by omega) (by omega) (by omega) hsl
    exact ⟨this.1, j, hij, Nat.le_refl _, this.2⟩
  | ok test =>
    rw [hsl] at h
    simp only [bind_ok] at h
    cases hsc : scan (condN x t mv i test) j (j - i) (i + 1) with
    | ok r => rw [hsc] at h; cases h
    | error e' =>
      rw [hsc] at h; cases h
      obtain ⟨m, h1, h2, h3⟩ := scan_error _ j (j - i) (i + 1) _ (by omega) (by omega) hsc
      have := condN_error x t mv N i m test _ lx lt lm (by omega) (by omega) h3
      exact ⟨this.1, m, by omega, h2, this.2⟩

/-- **error branch of the natural kernels**: with arrays of matching size the only
possible failure is `ZeroDivisionError`, and it needs two equal timings; neither an
`IndexError` nor an exhausted loop can occur, whatever the timings are. -/
theorem kernelN_error (x : List Val) (t : List Rat) (mv : Option (List Bool)) (N : Nat)
    (e : Err) (lx : N ≤ x.length) (lt : N ≤ t.length) (lm : ∀ m, mv = some m → N ≤ m.length)
    (h : kernelN x t mv N = .error e) :
    e = .zeroDiv ∧ ∃ i k, i < k ∧ k < N ∧ tAt t k = tAt t i := by
  simp only [kernelN] at h
  cases hf : filterE (fun p => farN x t mv p.1 p.2) (farPairs N) with
  | error e' =>
    rw [hf] at h; cases h
    obtain ⟨⟨i, j⟩, hp, he⟩ := filterE_error _ _ _ hf
    rw [farPairs_mem] at hp
    obtain ⟨h1, k, h2, h3, h4⟩ := farN_error x t mv N i j _ lx lt lm (by omega) hp.2 he
    exact ⟨h1, i, k, h2, by omega, h4⟩
  | ok far =>
    rw [hf] at h
    simp only [bind_ok] at h
    cases ha : filterE (adjCond mv) (adjPairs N) with
    | ok adj => rw [ha] at h; cases h
    | error e' =>
      exfalso
      obtain ⟨⟨i, j⟩, hp, he⟩ := filterE_error _ _ _ ha
      rw [adjPairs_mem] at hp
      obtain ⟨rfl, h2⟩ := hp
      obtain ⟨b, hb, _⟩ := adjCond_spec mv N i lm h2
      rw [hb] at he
      cases he

/-! ### clustering loops -/

theorem retPairs_mem (i j k : Nat) : (j, k) ∈ retPairs i ↔ k < j ∧ j < i := by
  simp only [retPairs, List.mem_flatMap, List.mem_range, List.mem_map, Prod.mk.injEq]
  constructor
  · rintro ⟨j', h1, k', h2, rfl, rfl⟩; exact ⟨h2, h1⟩
  · rintro ⟨h1, h2⟩; exact ⟨j, h2, k, h1, rfl, rfl⟩

theorem advPairs_mem (N i j k : Nat) : (j, k) ∈ advPairs N i ↔ i < k ∧ k < j ∧ j < N := by
  simp only [advPairs, List.mem_flatMap, List.mem_range'_1, List.mem_map, Prod.mk.injEq]
  constructor
  · rintro ⟨j', ⟨h1, h2⟩, k', ⟨h3, h4⟩, rfl, rfl⟩; omega
  · rintro ⟨h1, h2, h3⟩; exact ⟨j, ⟨by omega, by omega⟩, k, ⟨by omega, by omega⟩, rfl, rfl⟩

end Pyunicorn.Visibility
