import Mathlib.Analysis.SpecialFunctions.Pow.Real
import Mathlib.Analysis.SpecialFunctions.Sqrt
import Pyunicorn.Lemmas.Geo
/-! Rounded arithmetic for the Euclidean kernel (C12): the model `sumsq` instantiated with
operations that round their exact result (`rnd`), under the standard model of floating
point arithmetic `|rnd v - v| ≤ u |v|` (no overflow / underflow). -/
namespace Pyunicorn.Geo

/-- the standard model: every operation returns its exact result with relative error `≤ u` -/
def StdRound (rnd : ℝ → ℝ) (u : ℝ) : Prop := 0 ≤ u ∧ u ≤ 1 ∧ ∀ v, |rnd v - v| ≤ u * |v|

/-- `sumsq` as the compiled kernel evaluates it: every `-`, `*`, `+` rounded -/
noncomputable def rsumsq (rnd : ℝ → ℝ) (x : Nat → Nat → ℝ) (d i j : Nat) : ℝ :=
  @sumsq ℝ ⟨fun a b => rnd (a + b)⟩ ⟨fun a b => rnd (a * b)⟩ ⟨fun a b => rnd (a - b)⟩ ⟨0⟩ x d i j

theorem StdRound.nonneg_bounds {rnd : ℝ → ℝ} {u : ℝ} (h : StdRound rnd u) (v : ℝ) (hv : 0 ≤ v) :
    (1 - u) * v ≤ rnd v ∧ rnd v ≤ (1 + u) * v := by
  have := abs_le.1 (h.2.2 v)
  rw [abs_of_nonneg hv] at this
  constructor <;> nlinarith [this.1, this.2]

theorem StdRound.sq_bounds {rnd : ℝ → ℝ} {u : ℝ} (h : StdRound rnd u) (v : ℝ) :
    (1 - u) ^ 2 * (v * v) ≤ rnd v * rnd v ∧ rnd v * rnd v ≤ (1 + u) ^ 2 * (v * v) := by
  have h0 := h.1
  have h1 := h.2.1
  -- |rnd v| ∈ |v| [1-u, 1+u]
  have hb := h.2.2 v
  have hlo : (1 - u) * |v| ≤ |rnd v| := by
    have := abs_sub_abs_le_abs_sub v (rnd v)
    rw [abs_sub_comm] at this
    nlinarith
  have hhi : |rnd v| ≤ (1 + u) * |v| := by
    have := abs_sub_abs_le_abs_sub (rnd v) v
    nlinarith
  have e1 : rnd v * rnd v = |rnd v| * |rnd v| := (abs_mul_abs_self _).symm
  have e2 : v * v = |v| * |v| := (abs_mul_abs_self _).symm
  rw [e1, e2]
  have hv := abs_nonneg v
  have hr := abs_nonneg (rnd v)
  have h1u : 0 ≤ 1 - u := by linarith
  constructor
  · have := mul_le_mul hlo hlo (mul_nonneg h1u hv) hr
    nlinarith
  · have := mul_le_mul hhi hhi hr (mul_nonneg (by linarith) hv)
    nlinarith

/-- one summand `(x[k,i] - x[k,j])**2`: three rounded operations -/
theorem StdRound.term_bounds {rnd : ℝ → ℝ} {u : ℝ} (h : StdRound rnd u) (a b : ℝ) :
    (1 - u) ^ 3 * ((a - b) * (a - b)) ≤ rnd (rnd (a - b) * rnd (a - b)) ∧
      rnd (rnd (a - b) * rnd (a - b)) ≤ (1 + u) ^ 3 * ((a - b) * (a - b)) := by
  have hs := h.sq_bounds (a - b)
  have hp : 0 ≤ rnd (a - b) * rnd (a - b) := mul_self_nonneg _
  have hr := h.nonneg_bounds _ hp
  have h0 := h.1
  have h1 := h.2.1
  have hq : 0 ≤ (a - b) * (a - b) := mul_self_nonneg _
  constructor
  · calc (1 - u) ^ 3 * ((a - b) * (a - b)) = (1 - u) * ((1 - u) ^ 2 * ((a - b) * (a - b))) := by ring
      _ ≤ (1 - u) * (rnd (a - b) * rnd (a - b)) := mul_le_mul_of_nonneg_left hs.1 (by linarith)
      _ ≤ _ := hr.1
  · calc rnd (rnd (a - b) * rnd (a - b)) ≤ (1 + u) * (rnd (a - b) * rnd (a - b)) := hr.2
      _ ≤ (1 + u) * ((1 + u) ^ 2 * ((a - b) * (a - b))) :=
          mul_le_mul_of_nonneg_left hs.2 (by linarith)
      _ = _ := by ring

/-- **the accumulated sum of squares**: after `d` coordinates the computed value lies within
the factors `(1 ∓ u)^(d+3)` of the exact `sumsq` -/
theorem rsumsq_bounds {rnd : ℝ → ℝ} {u : ℝ} (h : StdRound rnd u) (x : Nat → Nat → ℝ) (d i j : Nat) :
    (1 - u) ^ (d + 3) * sumsq x d i j ≤ rsumsq rnd x d i j ∧
      rsumsq rnd x d i j ≤ (1 + u) ^ (d + 3) * sumsq x d i j := by
  have h0 := h.1
  have h1 := h.2.1
  have h1u : 0 ≤ 1 - u := by linarith
  induction d with
  | zero => simp [rsumsq, sumsq]
  | succ d ih =>
    have eS : sumsq x (d + 1) i j = sumsq x d i j + (x d i - x d j) * (x d i - x d j) := by
      unfold sumsq; rw [List.range_succ, List.foldl_append]; rfl
    have eR : rsumsq rnd x (d + 1) i j
        = rnd (rsumsq rnd x d i j + rnd (rnd (x d i - x d j) * rnd (x d i - x d j))) := by
      unfold rsumsq sumsq; rw [List.range_succ, List.foldl_append]; rfl
    have hS : 0 ≤ sumsq x d i j := by
      unfold sumsq; rw [foldl_add_eq_sum]
      exact Finset.sum_nonneg fun k _ => mul_self_nonneg _
    have ht := h.term_bounds (x d i) (x d j)
    set t := (x d i - x d j) * (x d i - x d j) with htdef
    have htn : 0 ≤ t := mul_self_nonneg _
    set t' := rnd (rnd (x d i - x d j) * rnd (x d i - x d j))
    set S := sumsq x d i j
    set R := rsumsq rnd x d i j
    -- lower / upper bounds of the pre-rounded sum
    have p3 : (1 - u) ^ (d + 3) ≤ (1 - u) ^ 3 :=
      pow_le_pow_of_le_one h1u (by linarith) (by omega)
    have q3 : (1 + u) ^ 3 ≤ (1 + u) ^ (d + 3) :=
      pow_le_pow_right₀ (by linarith) (by omega)
    have lo : (1 - u) ^ (d + 3) * (S + t) ≤ R + t' := by
      have : (1 - u) ^ (d + 3) * t ≤ (1 - u) ^ 3 * t := mul_le_mul_of_nonneg_right p3 htn
      nlinarith [ih.1, ht.1]
    have hi : R + t' ≤ (1 + u) ^ (d + 3) * (S + t) := by
      have : (1 + u) ^ 3 * t ≤ (1 + u) ^ (d + 3) * t := mul_le_mul_of_nonneg_right q3 htn
      nlinarith [ih.2, ht.2]
    have hpos : 0 ≤ R + t' :=
      le_trans (mul_nonneg (pow_nonneg h1u _) (add_nonneg hS htn)) lo
    have hr := h.nonneg_bounds _ hpos
    rw [eS, eR]
    constructor
    · calc (1 - u) ^ (d + 1 + 3) * (S + t) = (1 - u) * ((1 - u) ^ (d + 3) * (S + t)) := by ring
        _ ≤ (1 - u) * (R + t') := mul_le_mul_of_nonneg_left lo h1u
        _ ≤ _ := hr.1
    · calc rnd (R + t') ≤ (1 + u) * (R + t') := hr.2
        _ ≤ (1 + u) * ((1 + u) ^ (d + 3) * (S + t)) := mul_le_mul_of_nonneg_left hi (by linarith)
        _ = _ := by ring

/-- **accuracy of one Euclidean distance under the standard model**: with every operation of
the kernel rounded (`u`) and a final power `pw` (`expr ** 0.5`, `powf`) of relative error
`w`, the stored distance lies within the factors `(1 ∓ w) √((1 ∓ u)^(d+3))` of `√sumsq`. -/
theorem rdist_bounds {rnd : ℝ → ℝ} {u w : ℝ} (h : StdRound rnd u) (pw : ℝ → ℝ) (hw0 : 0 ≤ w)
    (hw1 : w ≤ 1) (hpw : ∀ v, 0 ≤ v → |pw v - √v| ≤ w * √v) (x : Nat → Nat → ℝ) (d i j : Nat) :
    (1 - w) * √((1 - u) ^ (d + 3)) * √(sumsq x d i j) ≤ pw (rsumsq rnd x d i j) ∧
      pw (rsumsq rnd x d i j) ≤ (1 + w) * √((1 + u) ^ (d + 3)) * √(sumsq x d i j) := by
  have hb := rsumsq_bounds h x d i j
  have h0 := h.1
  have h1u : 0 ≤ 1 - u := by linarith [h.2.1]
  have hS : 0 ≤ sumsq x d i j := by
    unfold sumsq; rw [foldl_add_eq_sum]
    exact Finset.sum_nonneg fun k _ => mul_self_nonneg _
  have hR : 0 ≤ rsumsq rnd x d i j := le_trans (mul_nonneg (pow_nonneg h1u _) hS) hb.1
  have hp := abs_le.1 (hpw _ hR)
  have s1 : √((1 - u) ^ (d + 3)) * √(sumsq x d i j) ≤ √(rsumsq rnd x d i j) := by
    rw [← Real.sqrt_mul (pow_nonneg h1u _)]
    exact Real.sqrt_le_sqrt hb.1
  have s2 : √(rsumsq rnd x d i j) ≤ √((1 + u) ^ (d + 3)) * √(sumsq x d i j) := by
    rw [← Real.sqrt_mul (pow_nonneg (by linarith) _)]
    exact Real.sqrt_le_sqrt hb.2
  have hs := Real.sqrt_nonneg (rsumsq rnd x d i j)
  constructor
  · calc (1 - w) * √((1 - u) ^ (d + 3)) * √(sumsq x d i j)
        = (1 - w) * (√((1 - u) ^ (d + 3)) * √(sumsq x d i j)) := by ring
      _ ≤ (1 - w) * √(rsumsq rnd x d i j) := mul_le_mul_of_nonneg_left s1 (by linarith)
      _ ≤ _ := by nlinarith [hp.1]
  · calc pw (rsumsq rnd x d i j) ≤ (1 + w) * √(rsumsq rnd x d i j) := by nlinarith [hp.2]
      _ ≤ (1 + w) * (√((1 + u) ^ (d + 3)) * √(sumsq x d i j)) :=
          mul_le_mul_of_nonneg_left s2 (by linarith)
      _ = _ := by ring

/-- the whole compiled kernel with rounded operations and the final power `pw` -/
noncomputable def rEuclKernel (rnd pw : ℝ → ℝ) (x : Nat → Nat → ℝ) (d N : Nat) : Nat → Nat → ℝ :=
  @euclKernel ℝ ⟨fun a b => rnd (a + b)⟩ ⟨fun a b => rnd (a * b)⟩ ⟨fun a b => rnd (a - b)⟩ ⟨0⟩
    pw x d N

theorem rEuclKernel_apply (rnd pw : ℝ → ℝ) (x : Nat → Nat → ℝ) (d N a b : Nat)
    (ha : a < N) (hb : b < N) :
    rEuclKernel rnd pw x d N a b = pw (rsumsq rnd x d (max a b) (min a b)) := by
  simp [rEuclKernel, euclKernel, fillSym_apply, ha, hb, rsumsq]

/-- float32 constants: `u = 2⁻²⁴` (round to nearest), `powf` within one ulp (`w = 2⁻²³`),
at most 6 dimensions: the factors stay within `1 ∓ 2⁻²⁰` -/
theorem float32_factors (d : Nat) (hd : d ≤ 6) :
    (1 - (2⁻¹ : ℝ) ^ 20) ≤ (1 - 2⁻¹ ^ 23) * √((1 - 2⁻¹ ^ 24) ^ (d + 3)) ∧
      (1 + (2⁻¹ : ℝ) ^ 23) * √((1 + 2⁻¹ ^ 24) ^ (d + 3)) ≤ 1 + 2⁻¹ ^ 20 := by
  have hu0 : (0 : ℝ) ≤ 1 - 2⁻¹ ^ 24 := by norm_num
  have hu1 : (1 : ℝ) - 2⁻¹ ^ 24 ≤ 1 := by norm_num
  have hlo : (1 - 5 * (2⁻¹ : ℝ) ^ 24) ≤ √((1 - 2⁻¹ ^ 24) ^ (d + 3)) := by
    apply Real.le_sqrt_of_sq_le
    calc (1 - 5 * (2⁻¹ : ℝ) ^ 24) ^ 2 ≤ (1 - 2⁻¹ ^ 24) ^ 9 := by norm_num
      _ ≤ (1 - 2⁻¹ ^ 24) ^ (d + 3) := pow_le_pow_of_le_one hu0 hu1 (by omega)
  have hhi : √((1 + (2⁻¹ : ℝ) ^ 24) ^ (d + 3)) ≤ 1 + 5 * 2⁻¹ ^ 24 := by
    rw [show (1 + 5 * (2⁻¹ : ℝ) ^ 24) = √((1 + 5 * 2⁻¹ ^ 24) ^ 2) from
      (Real.sqrt_sq (by norm_num)).symm]
    apply Real.sqrt_le_sqrt
    calc (1 + (2⁻¹ : ℝ) ^ 24) ^ (d + 3) ≤ (1 + 2⁻¹ ^ 24) ^ 9 :=
          pow_le_pow_right₀ (by norm_num) (by omega)
      _ ≤ (1 + 5 * 2⁻¹ ^ 24) ^ 2 := by norm_num
  constructor
  · calc (1 - (2⁻¹ : ℝ) ^ 20) ≤ (1 - 2⁻¹ ^ 23) * (1 - 5 * 2⁻¹ ^ 24) := by norm_num
      _ ≤ _ := mul_le_mul_of_nonneg_left hlo (by norm_num)
  · calc (1 + (2⁻¹ : ℝ) ^ 23) * √((1 + 2⁻¹ ^ 24) ^ (d + 3))
        ≤ (1 + 2⁻¹ ^ 23) * (1 + 5 * 2⁻¹ ^ 24) := mul_le_mul_of_nonneg_left hhi (by norm_num)
      _ ≤ _ := by norm_num

end Pyunicorn.Geo
