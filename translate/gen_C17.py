#!/usr/bin/env python3
"""Structural translator for C17: regenerates lean/Pyunicorn/Generated/StructC17.lean from the
*current* working tree on every run.  `Model/Random.lean` is *defined through* these
definitions, so an edit of a condition, of a subscript or of the order of the array writes in
the source changes the model the theorems are about (and breaks their proofs if an invariant
is lost), not only the replay.

From `core/_ext/numerics.pyx` (Cython; C declarations are stripped, the statements are parsed
with Python's `ast`):

  cond_len_c1, cond_len_c2, cond_deg_corr   -> condLenC1, condLenC2, condDegCorr (the returned
      boolean expressions; `abs(x) < eps` on integer-scaled distances)
  cond_deg_true = NULL                        -> (checked) `DegCond.null`
  _randomly_rewire_geomodel                   -> geoWhile (the `while` test), geoDraw (the draw
      expression `np.floor(rd.random() * E)`, both draws must have it), geoIf (the `if` of the
      loop body, with `cond_deg is NULL`, `cond_deg(degree, s, t, k, l)`, `cond_len(D, eps, s,
      t, k, l)` as parameters applied to the arguments in source order), geoWrites (the array
      writes to `A` in program order), geoEdge1 / geoEdge2 (the rows written back to `edges`)
  _randomly_rewire_geomodel_I/II/III          -> wrapperI/II/III (which conditions are handed over)
  overwriteAdjacency                          -> owLoops (loop variables and bounds), owRead (the
      indices read from nodes1 / nodes2), owCell (the cell of cross_A), owWrites
  _randomlySetCrossLinks                      -> setBreak, setWrites
  _randomlyRewireCrossLinks                   -> rewBreak, rewWrites, rewMoves (the three-statement
      exchange of the second column of `cross_links` as a list of moves between locations)

From `core/network.py` (round 5): `Network.ErdosRenyi` — the two tests of its if / elif chain over
`link_probability is (not) None` / `n_links is (not) None` (erTest1/2), which igraph call each branch makes
(erBranch1/2; arguments normalised: positional -> names, default-valued options dropped), `else: raise
ValueError`, the returned expression (erReturn); `Network.WattsStrogatz` — the arguments handed to igraph
(wsCall) and the returned expression (wsReturn).

From `core/interacting_networks.py` (plain Python):

  RandomlySetCrossLinks_sparse                -> sparseDraw1/2, sparseBreak, sparseWrites,
      sparseOwRead, sparseOwWrites (its own Python copy of the kernel and of overwriteAdjacency)
  RandomlyRewireCrossLinks                    -> swapCountSrc (`NODE(swaps * number_cross_links)`),
      rewireArgs (the arguments handed to the kernel, as text, for the shape check)

Anything that no longer has the expected *shape* raises and the check reports a broken tie;
content is compared by the theorems (`Lemmas/RandomSrc.lean`, `Properties/C17.lean`).
"""
import ast
import os
import re
import sys
import textwrap

REPO = os.environ.get("VERIF_REPO", "/repo")
OUT = sys.argv[1]


class Shape(Exception):
    pass


def need(c, msg):
    if not c:
        raise Shape(msg)


INT_ARR = {"D": 2, "degree": 1}                    # integer-valued arrays (scaled distances, degrees)
BOOL_ARR = {"A": 2, "cross_A": 2, "cross_A_new": 2, "A_new": 2}   # 0/1 arrays


def idx_list(sl):
    return list(sl.elts) if isinstance(sl, ast.Tuple) else [sl]


class Tr:
    """expression -> (Lean text, kind) with kind in {node, int, bool, prop}"""

    def __init__(self, nodes, funcs=(), flags=(), rnd=None):
        self.nodes, self.funcs, self.flags = set(nodes), dict(funcs), dict(flags)
        self.rnd = rnd      # name of the rounding function applied to every float subtraction (round 4)

    def node(self, e):
        need(isinstance(e, ast.Name) and e.id in self.nodes, f"index `{ast.unparse(e)}` is not a plain node variable")
        return e.id

    def tr(self, e):
        u = ast.unparse(e)
        if u in self.flags:                             # e.g. `cond_deg is NULL`
            return f"({self.flags[u]} = true)", "prop"
        if isinstance(e, ast.Name):
            need(e.id in self.nodes, f"free name {e.id}")
            return e.id, "node"
        if isinstance(e, ast.Subscript) and isinstance(e.value, ast.Name):
            arr = e.value.id
            ix = [self.node(x) for x in idx_list(e.slice)]
            if arr in INT_ARR:
                need(len(ix) == INT_ARR[arr], f"{u}: rank")
                return f"({arr} {' '.join(ix)})", "int"
            if arr in BOOL_ARR:
                need(len(ix) == BOOL_ARR[arr], f"{u}: rank")
                return f"({arr} {' '.join(ix)})", "bool"
            raise Shape(f"subscript of unknown array {arr}")
        if isinstance(e, ast.BinOp) and isinstance(e.op, ast.Sub):
            a, ta = self.tr(e.left)
            b, tb = self.tr(e.right)
            need(ta == "int" and tb == "int", f"{u}: difference of non-integers")
            if self.rnd:
                return f"({self.rnd} ({a} - {b}))", "int"
            return f"({a} - {b})", "int"
        if isinstance(e, ast.Call) and isinstance(e.func, ast.Name):
            if e.func.id == "abs" and len(e.args) == 1:
                a, ta = self.tr(e.args[0])
                need(ta == "int", f"{u}: abs of non-integer")
                return f"(({a}).natAbs : Int)", "int"
            if e.func.id in self.funcs:
                lead = self.funcs[e.func.id]
                got = [ast.unparse(a) for a in e.args[:len(lead)]]
                need(got == list(lead), f"{u}: leading arguments {got}, expected {list(lead)}")
                rest = [self.node(a) for a in e.args[len(lead):]]
                need(len(rest) == 4 and not e.keywords, f"{u}: four node arguments expected")
                return f"({e.func.id} {' '.join(rest)} = true)", "prop"
        if isinstance(e, ast.Compare) and len(e.ops) == 1:
            l, r, op = e.left, e.comparators[0], e.ops[0]
            a, ta = self.tr(l)
            if ta == "bool":
                need(isinstance(op, ast.Eq) and isinstance(r, ast.Constant) and r.value in (0, 1), f"{u}: 0/1 test")
                return f"({a} = {'true' if r.value == 1 else 'false'})", "prop"
            if isinstance(r, ast.Name) and r.id == "eps":
                need(ta == "int" and isinstance(op, ast.Lt), f"{u}: `< eps` expected")
                return f"({a} < eps)", "prop"
            b, tb = self.tr(r)
            need(ta == tb and ta in ("node", "int"), f"{u}: comparison of {ta} with {tb}")
            sym = {ast.Eq: "=", ast.NotEq: "≠", ast.Lt: "<"}.get(type(op))
            need(sym, f"{u}: operator")
            return f"({a} {sym} {b})", "prop"
        if isinstance(e, ast.BoolOp):
            parts = [self.prop(v) for v in e.values]
            return "(" + (" ∧ " if isinstance(e.op, ast.And) else " ∨ ").join(parts) + ")", "prop"
        if isinstance(e, ast.UnaryOp) and isinstance(e.op, ast.Not):
            return f"(¬ {self.prop(e.operand)})", "prop"
        raise Shape(f"expression `{u}`")

    def prop(self, e):
        a, t = self.tr(e)
        if t == "bool":
            return f"({a} = true)"
        need(t == "prop", f"`{ast.unparse(e)}` is not a condition")
        return a


def writes_of(stmts, arr, tr, value=None):
    """`arr[x, y] = arr[y, x] = c` statements -> [(x, y, lean-bool)] in program order
    (Python assigns the targets of a chained assignment from left to right)."""
    out = []
    for s in stmts:
        need(isinstance(s, ast.Assign), f"`{ast.unparse(s)}`: plain assignment expected")
        if value is not None:
            need(ast.unparse(s.value) == value, f"`{ast.unparse(s)}`: assigned value is not `{value}`")
            v = "v"
        else:
            need(isinstance(s.value, ast.Constant) and s.value.value in (0, 1), f"`{ast.unparse(s)}`: writes 0 or 1")
            v = "true" if s.value.value == 1 else "false"
        for t in s.targets:
            need(isinstance(t, ast.Subscript) and isinstance(t.value, ast.Name) and t.value.id == arr,
                 f"`{ast.unparse(s)}`: target is not {arr}[..]")
            ix = [tr.node(x) for x in idx_list(t.slice)]
            need(len(ix) == 2, f"`{ast.unparse(s)}`: two indices")
            out.append(f"({ix[0]}, {ix[1]}, {v})")
    return out


def block(src, start_re, what):
    """text of the top-level Cython/Python definition starting at the line matching start_re"""
    m = re.search(start_re, src, re.M)
    need(m, f"{what} not found")
    rest = src[m.start():]
    nxt = re.search(r"^\S", rest[rest.index("\n") + 1:], re.M)
    return rest if not nxt else rest[: rest.index("\n") + 1 + nxt.start()]


def body_stmts(text, what):
    """the statements of a Cython function body: signature, `cdef` blocks / lines and the
    docstring dropped, the rest parsed as Python"""
    lines = text.split("\n")
    sig_end = next(k for k, ln in enumerate(lines) if ln.rstrip().endswith("):"))
    out, i = [], sig_end + 1
    while i < len(lines):
        ln = lines[i]
        if ln.strip() == "cdef:":
            ind = len(ln) - len(ln.lstrip())
            i += 1
            while i < len(lines) and (not lines[i].strip() or len(lines[i]) - len(lines[i].lstrip()) > ind):
                i += 1
            continue
        if ln.strip().startswith("cdef "):
            i += 1
            continue
        out.append(ln)
        i += 1
    try:
        tree = ast.parse(textwrap.dedent("\n".join(out)))
    except SyntaxError as e:
        raise Shape(f"{what}: body does not parse ({e})")
    return [s for s in tree.body
            if not (isinstance(s, ast.Expr) and isinstance(s.value, ast.Constant) and isinstance(s.value.value, str))]


def inline_return(src, name):
    m = re.search(r"inline bint %s\(\s*([^)]*)\):\s*return\b" % name, src)
    need(m, f"{name} not found")
    rest = src[m.end():]
    depth, j = 0, 0
    for j, ch in enumerate(rest):
        if ch == "(":
            depth += 1
        elif ch == ")":
            depth -= 1
            if depth == 0:
                break
    decls = [p.strip().split() for p in re.sub(r"\[[^\]]*\]", "", m.group(1)).split(",")]
    params = [d[-1] for d in decls]
    CTYPES[name] = [(d[-1], " ".join(d[:-1])) for d in decls]
    text = " ".join(rest[: j + 1].split())
    return params, ast.parse(text, mode="eval").body, text


CTYPES = {}      # C declarations of the parameters of the inline conditions (round 4)


def main():
    pyx = open(os.path.join(REPO, "src/pyunicorn/core/_ext/numerics.pyx")).read()
    L = ["/- generated by translate/gen_C17.py from the current source — do not edit -/",
         "set_option linter.unusedVariables false",
         "namespace Pyunicorn.Generated.StructC17", "",
         "inductive LenCond | cond_len_c1 | cond_len_c2", "deriving DecidableEq, Repr",
         "inductive DegCond | null | cond_deg_corr", "deriving DecidableEq, Repr",
         "/-- locations of the exchange of the link ends: the local `b`, `cross_links[e1, 1]`, `cross_links[e2, 1]` -/",
         "inductive Loc | tmp | l1 | l2", "deriving DecidableEq, Repr", ""]
    NODES = ["s", "t", "k", "l"]

    # ---- the three conditions
    for nm, lean, want in (("cond_len_c1", "condLenC1", ["D", "eps"] + NODES),
                           ("cond_len_c2", "condLenC2", ["D", "eps"] + NODES),
                           ("cond_deg_corr", "condDegCorr", ["degree"] + NODES)):
        params, expr, text = inline_return(pyx, nm)
        need(params == want, f"{nm}: parameters {params}")
        sig = "(D : Nat → Nat → Int) (eps : Int)" if want[0] == "D" else "(degree : Nat → Int)"
        L += [f"/-- `{nm}`: `return {text}` -/",
              f"def {lean} {sig} (s t k l : Nat) : Bool :=",
              f"  decide {Tr(NODES).prop(expr)}", ""]
        if want[0] == "D":
            # round 4: the same expression as the C compiler evaluates it — operands `FIELD_t` (binary32),
            # so every subtraction is rounded to binary32 (`rnd`); `abs` and `<` are exact
            L += [f"/-- `{nm}` with every floating-point subtraction rounded by `rnd` (`D`, `eps` counted in "
                  "units of a power of two) -/",
                  f"def {lean}R (rnd : Int → Int) {sig} (s t k l : Nat) : Bool :=",
                  f"  decide {Tr(NODES, rnd='rnd').prop(expr)}", ""]
    need(re.search(r"^\s*rewire_cond_deg\s+cond_deg_true\s*=\s*NULL\s*$", pyx, re.M),
         "cond_deg_true = NULL not found")
    # ---- round 4: the C types the conditions compute in
    ty = open(os.path.join(REPO, "src/pyunicorn/core/_ext/types.pxd")).read()
    tdef = {new: old for old, new in re.findall(r"^ctypedef\s+([\w.]+)\s+(\w+)\s*$", ty, re.M)}

    def resolve(t):
        seen = 0
        while t in tdef and seen < 5:
            t, seen = tdef[t], seen + 1
        return t
    for nm in ("cond_len_c1", "cond_len_c2"):
        need(dict(CTYPES[nm]).get("eps") == "float", f"{nm}: eps is declared `{dict(CTYPES[nm]).get('eps')}`")
        need(dict(CTYPES[nm]).get("D") == "FIELD_t", f"{nm}: D is declared `{dict(CTYPES[nm]).get('D')}`")
    L += ["/-- the C element type of `D` in `cond_len_c1/2` (`FIELD_t` resolved through `types.pxd`) and the type of `eps` -/",
          f'def condFieldType : String := "{resolve("FIELD_t")}"',
          'def condEpsType : String := "float"', ""]

    # ---- the rewiring loop
    st = body_stmts(block(pyx, r"^cdef void _randomly_rewire_geomodel\(", "_randomly_rewire_geomodel"),
                    "_randomly_rewire_geomodel")
    need(len(st) == 1 and isinstance(st[0], ast.While), "_randomly_rewire_geomodel: body is one `while`")
    w = st[0]
    need(ast.unparse(w.test) == "i < iterations", f"while test `{ast.unparse(w.test)}`")
    L += ["/-- `while (i < iterations)` -/",
          "def geoWhile (i iterations : Nat) : Bool := decide (i < iterations)", ""]
    need(len(w.body) == 5, "_randomly_rewire_geomodel: loop body = 2 draws, 2 reads, 1 if")
    d1, d2, r1, r2, iff = w.body
    for d, nm in ((d1, "edge1"), (d2, "edge2")):
        need(isinstance(d, ast.Assign) and ast.unparse(d.targets[0]) == nm, f"draw of {nm}")
        need(ast.unparse(d.value) == "np.floor(rd.random() * E)", f"{nm} = `{ast.unparse(d.value)}`")
    L += ["/-- `edge = np.floor(rd.random() * E)` for the value `u` of `rd.random()` (both draws) -/",
          "def geoDraw (u : Rat) (E : Int) : Int := Rat.floor (u * (E : Rat))",
          "/-- the same with the binary64 product rounded by `rnd` (round 4) -/",
          "def geoDrawR (rnd : Rat → Rat) (u : Rat) (E : Int) : Int := Rat.floor (rnd (u * (E : Rat)))", ""]
    need(ast.unparse(r1) == "(s, t) = edges[edge1, [0, 1]]" or ast.unparse(r1) == "s, t = edges[edge1, [0, 1]]",
         f"read of edge1: `{ast.unparse(r1)}`")
    need(ast.unparse(r2) in ("(k, l) = edges[edge2, [0, 1]]", "k, l = edges[edge2, [0, 1]]"),
         f"read of edge2: `{ast.unparse(r2)}`")
    need(isinstance(iff, ast.If) and not iff.orelse, "loop body ends with an `if` without else")
    tr = Tr(NODES, funcs={"cond_deg": ["degree"], "cond_len": ["D", "eps"]},
            flags={"cond_deg is NULL": "degNull"})
    L += [f"/-- the `if` of the loop body: `{' '.join(ast.unparse(iff.test).split())}` -/",
          "def geoIf (A : Nat → Nat → Bool) (degNull : Bool) (cond_deg cond_len : Nat → Nat → Nat → Nat → Bool)",
          "    (s t k l : Nat) : Bool :=",
          f"  decide {tr.prop(iff.test)}", ""]
    body = iff.body
    nA = 0
    while nA < len(body) and isinstance(body[nA], ast.Assign) and isinstance(body[nA].targets[0], ast.Subscript) \
            and ast.unparse(body[nA].targets[0].value) == "A":
        nA += 1
    need(nA >= 1 and len(body) == nA + 3, "if-body: writes to A, then 2 writes to edges, then i += 1")
    ws = writes_of(body[:nA], "A", tr)
    tail = body[nA:]
    L += ["/-- the array writes to `A` of an accepted rewiring, in program order -/",
          "def geoWrites (s t k l : Nat) : List (Nat × Nat × Bool) :=",
          "  [" + ", ".join(ws) + "]", ""]
    for s_, nm, lean in ((tail[0], "edge1", "geoEdge1"), (tail[1], "edge2", "geoEdge2")):
        need(isinstance(s_, ast.Assign) and ast.unparse(s_.targets[0]) == f"edges[{nm}, [0, 1]]"
             and isinstance(s_.value, ast.Tuple) and len(s_.value.elts) == 2, f"write back of {nm}")
        a, b = (tr.node(x) for x in s_.value.elts)
        L += [f"/-- `{ast.unparse(s_)}` -/", f"def {lean} (s t k l : Nat) : Nat × Nat := ({a}, {b})", ""]
    need(ast.unparse(tail[2]) == "i += 1", "i += 1")

    # ---- wrappers
    for mode in ("I", "II", "III"):
        stw = body_stmts(block(pyx, r"^def _randomly_rewire_geomodel_%s\(" % mode, f"wrapper {mode}"), f"wrapper {mode}")
        need(len(stw) == 1 and isinstance(stw[0], ast.Expr) and isinstance(stw[0].value, ast.Call)
             and ast.unparse(stw[0].value.func) == "_randomly_rewire_geomodel", f"wrapper {mode}: one call")
        args = [ast.unparse(a) for a in stw[0].value.args]
        need(args[:6] == ["iterations", "eps", "A", "D", "E", "edges"] and len(args) == 9, f"wrapper {mode}: arguments {args}")
        need(args[6] == ("degree" if args[8] != "cond_deg_true" else "null"), f"wrapper {mode}: degree array {args[6]}")
        need(args[7] in ("cond_len_c1", "cond_len_c2") and args[8] in ("cond_deg_true", "cond_deg_corr"),
             f"wrapper {mode}: conditions {args[7:]}")
        L += [f"/-- `_randomly_rewire_geomodel_{mode}` hands over `{args[7]}`, `{args[8]}` -/",
              f"def wrapper{mode} : LenCond × DegCond := (.{args[7]}, "
              f"{'.null' if args[8] == 'cond_deg_true' else '.cond_deg_corr'})", ""]

    # ---- overwriteAdjacency
    st = body_stmts(block(pyx, r"^cdef void overwriteAdjacency\(", "overwriteAdjacency"), "overwriteAdjacency")
    need(len(st) == 1 and isinstance(st[0], ast.For), "overwriteAdjacency: one outer loop")
    fo = st[0]
    need(len(fo.body) == 1 and isinstance(fo.body[0], ast.For), "overwriteAdjacency: one inner loop")
    fi = fo.body[0]
    loops = [(ast.unparse(f.target), ast.unparse(f.iter)) for f in (fo, fi)]
    need(loops == [("i", "range(m)"), ("j", "range(n)")], f"overwriteAdjacency loops {loops}")
    need(len(fi.body) == 2, "overwriteAdjacency: read + write")
    rd, wr = fi.body
    need(isinstance(rd, ast.Assign) and ast.unparse(rd.targets[0]) in ("(n1, n2)", "n1, n2")
         and isinstance(rd.value, ast.Tuple) and len(rd.value.elts) == 2, "overwriteAdjacency: n1, n2 = ...")
    ij = Tr(["i", "j"])
    reads = []
    for e, arr in zip(rd.value.elts, ("nodes1", "nodes2")):
        need(isinstance(e, ast.Subscript) and ast.unparse(e.value) == arr, f"overwriteAdjacency: read of {arr}")
        reads.append(ij.node(e.slice))
    need(isinstance(wr, ast.Assign) and isinstance(wr.value, ast.Subscript)
         and ast.unparse(wr.value.value) == "cross_A", "overwriteAdjacency: value written is cross_A[..]")
    cell = [ij.node(x) for x in idx_list(wr.value.slice)]
    need(len(cell) == 2, "overwriteAdjacency: cross_A[i, j]")
    ows = writes_of([wr], "A", Tr(["n1", "n2"]), value=ast.unparse(wr.value))
    L += ["/-- `for i in range(m): for j in range(n):` -/",
          'def owLoops : List (String × String) := [("i", "m"), ("j", "n")]',
          f"/-- `{ast.unparse(rd)}`: positions read in `nodes1`, `nodes2` -/",
          f"def owRead (i j : Nat) : Nat × Nat := ({reads[0]}, {reads[1]})",
          f"/-- the cell of `cross_A` that is written: `{ast.unparse(wr.value)}` -/",
          f"def owCell (i j : Nat) : Nat × Nat := ({cell[0]}, {cell[1]})",
          f"/-- `{ast.unparse(wr)}` with `v` the value of that cell -/",
          "def owWrites (n1 n2 : Nat) (v : Bool) : List (Nat × Nat × Bool) :=",
          "  [" + ", ".join(ows) + "]", ""]

    # ---- _randomlySetCrossLinks
    st = body_stmts(block(pyx, r"^def _randomlySetCrossLinks\(", "_randomlySetCrossLinks"), "_randomlySetCrossLinks")
    need(len(st) == 2 and isinstance(st[0], ast.For) and ast.unparse(st[0].iter) == "range(number_cross_links)",
         "_randomlySetCrossLinks: for _ in range(number_cross_links) + overwrite")
    need(ast.unparse(st[1]) == "overwriteAdjacency(A, cross_A, nodes1, nodes2, m, n)",
         f"_randomlySetCrossLinks: `{ast.unparse(st[1])}`")
    wl, wrs = st[0].body[0], st[0].body[1:]
    need(isinstance(wl, ast.While) and ast.unparse(wl.test) == "True" and len(wl.body) == 2, "set: while True")
    need(ast.unparse(wl.body[0]) in ("(i, j) = (randint(m), randint(n))", "i, j = (randint(m), randint(n))"),
         f"set: draws `{ast.unparse(wl.body[0])}`")
    brk = wl.body[1]
    need(isinstance(brk, ast.If) and ast.unparse(brk.body[0]) == "break" and not brk.orelse, "set: if …: break")
    L += [f"/-- `if {ast.unparse(brk.test)}: break` -/",
          "def setBreak (cross_A : Nat → Nat → Bool) (i j : Nat) : Bool :=",
          f"  decide {ij.prop(brk.test)}",
          "def setWrites (i j : Nat) : List (Nat × Nat × Bool) :=",
          "  [" + ", ".join(writes_of(wrs, "cross_A", ij)) + "]", ""]

    # ---- _randomlyRewireCrossLinks
    st = body_stmts(block(pyx, r"^def _randomlyRewireCrossLinks\(", "_randomlyRewireCrossLinks"),
                    "_randomlyRewireCrossLinks")
    need(len(st) == 2 and isinstance(st[0], ast.For) and ast.unparse(st[0].iter) == "range(number_swaps)",
         "_randomlyRewireCrossLinks: for _ in range(number_swaps) + overwrite")
    need(ast.unparse(st[1]) == "overwriteAdjacency(A, cross_A, nodes1, nodes2, m, n)",
         f"_randomlyRewireCrossLinks: `{ast.unparse(st[1])}`")
    wl, rest = st[0].body[0], st[0].body[1:]
    need(isinstance(wl, ast.While) and ast.unparse(wl.test) == "True" and len(wl.body) == 4, "rewire: while True")
    need(ast.unparse(wl.body[0]).endswith("= (randint(number_cross_links), randint(number_cross_links))")
         and ast.unparse(wl.body[0].targets[0]) in ("(e1, e2)", "e1, e2"), f"rewire: draws `{ast.unparse(wl.body[0])}`")
    need(ast.unparse(wl.body[1]) in ("(a, b) = cross_links[e1]", "a, b = cross_links[e1]"), "rewire: a, b = cross_links[e1]")
    need(ast.unparse(wl.body[2]) in ("(c, d) = cross_links[e2]", "c, d = cross_links[e2]"), "rewire: c, d = cross_links[e2]")
    brk = wl.body[3]
    need(isinstance(brk, ast.If) and ast.unparse(brk.body[0]) == "break" and not brk.orelse, "rewire: if …: break")
    ab = Tr(["a", "b", "c", "d"])
    nC = 0
    while nC < len(rest) and isinstance(rest[nC].targets[0], ast.Subscript) \
            and ast.unparse(rest[nC].targets[0].value) == "cross_A":
        nC += 1
    need(nC >= 1 and len(rest) > nC, "rewire: writes to cross_A, then the exchange of the link ends")
    cw, mv = rest[:nC], rest[nC:]
    locs = {"b": ".tmp", "cross_links[e1, 1]": ".l1", "cross_links[e2, 1]": ".l2"}
    moves = []
    for s_ in mv:
        need(isinstance(s_, ast.Assign) and len(s_.targets) == 1, f"rewire: `{ast.unparse(s_)}`")
        dst, srcl = ast.unparse(s_.targets[0]), ast.unparse(s_.value)
        need(dst in locs and srcl in locs, f"rewire: move `{ast.unparse(s_)}`")
        moves.append(f"({locs[dst]}, {locs[srcl]})")
    L += [f"/-- `if {ast.unparse(brk.test)}: break` -/",
          "def rewBreak (cross_A : Nat → Nat → Bool) (a b c d : Nat) : Bool :=",
          f"  decide {ab.prop(brk.test)}",
          "def rewWrites (a b c d : Nat) : List (Nat × Nat × Bool) :=",
          "  [" + ", ".join(writes_of(cw, "cross_A", ab)) + "]",
          "/-- " + "; ".join(ast.unparse(s_) for s_ in mv) + " — (destination, source) -/",
          "def rewMoves : List (Loc × Loc) := [" + ", ".join(moves) + "]", ""]

    # ---- interacting_networks.py
    path = os.path.join(REPO, "src/pyunicorn/core/interacting_networks.py")
    tree = ast.parse(open(path).read())
    cls = [n for n in tree.body if isinstance(n, ast.ClassDef) and n.name == "InteractingNetworks"][0]
    fn = {n.name: n for n in cls.body if isinstance(n, ast.FunctionDef)}
    sp = fn["RandomlySetCrossLinks_sparse"]
    fors = [s for s in sp.body if isinstance(s, ast.For)]
    need(len(fors) == 2, "sparse: two top-level loops")
    f1, f2 = fors
    need(ast.unparse(f1.iter) == "range(number_cross_links)" and len(f1.body) == 2
         and isinstance(f1.body[0], ast.While) and ast.unparse(f1.body[0].test) == "True", "sparse: placement loop")
    wb = f1.body[0].body
    need(len(wb) == 3, "sparse: two draws + break test")
    for s_, nm, N in ((wb[0], "n_1", "N1"), (wb[1], "n_2", "N2")):
        need(ast.unparse(s_) == f"{nm} = int(random.random() * {N})", f"sparse draw `{ast.unparse(s_)}`")
    L += ["/-- `n_1 = int(random.random() * N1)`, `n_2 = int(random.random() * N2)` -/",
          "def sparseDraw (u : Rat) (N : Int) : Int := Rat.floor (u * (N : Rat))",
          "def sparseDrawR (rnd : Rat → Rat) (u : Rat) (N : Int) : Int := Rat.floor (rnd (u * (N : Rat)))"]
    brk = wb[2]
    need(isinstance(brk, ast.If) and ast.unparse(brk.body[0]) == "break" and not brk.orelse, "sparse: if …: break")
    n12 = Tr(["n_1", "n_2"])
    L += [f"/-- `if {ast.unparse(brk.test)}: break` -/",
          "def sparseBreak (cross_A_new : Nat → Nat → Bool) (n_1 n_2 : Nat) : Bool :=",
          f"  decide {n12.prop(brk.test)}",
          "def sparseWrites (n_1 n_2 : Nat) : List (Nat × Nat × Bool) :=",
          "  [" + ", ".join(writes_of(f1.body[1:], "cross_A_new", n12)) + "]"]
    need(ast.unparse(f2.iter) == "range(N1)" and ast.unparse(f2.target) == "i" and len(f2.body) == 1
         and isinstance(f2.body[0], ast.For) and ast.unparse(f2.body[0].iter) == "range(N2)"
         and ast.unparse(f2.body[0].target) == "j", "sparse: write-back loops")
    ob = f2.body[0].body
    need(len(ob) == 4, "sparse: two reads + two writes")
    reads = []
    for s_, nm, arr in ((ob[0], "node1", "nodes1"), (ob[1], "node2", "nodes2")):
        m = re.fullmatch(r"%s = int\(%s\[(\w+)\]\)" % (nm, arr), ast.unparse(s_))
        need(m and m.group(1) in ("i", "j"), f"sparse: `{ast.unparse(s_)}`")
        reads.append(m.group(1))
    vals = {ast.unparse(s_.value) for s_ in ob[2:]}
    need(len(vals) == 1 and re.fullmatch(r"cross_A_new\[(\w+), (\w+)\]", next(iter(vals))), "sparse: value written")
    cell = re.fullmatch(r"cross_A_new\[(\w+), (\w+)\]", next(iter(vals))).groups()
    need(set(cell) <= {"i", "j"}, "sparse: cell indices")
    L += [f"def sparseOwRead (i j : Nat) : Nat × Nat := ({reads[0]}, {reads[1]})",
          f"def sparseOwCell (i j : Nat) : Nat × Nat := ({cell[0]}, {cell[1]})",
          "def sparseOwWrites (node1 node2 : Nat) (v : Bool) : List (Nat × Nat × Bool) :=",
          "  [" + ", ".join(writes_of(ob[2:], "A_new", Tr(["node1", "node2"]), value=next(iter(vals)))) + "]", ""]

    rw = fn["RandomlyRewireCrossLinks"]
    asg = {ast.unparse(s.targets[0]): s.value for s in rw.body if isinstance(s, ast.Assign) and len(s.targets) == 1}
    need(ast.unparse(asg.get("number_swaps")) == "NODE(swaps * number_cross_links)",
         f"number_swaps = `{ast.unparse(asg.get('number_swaps'))}`")
    need(ast.unparse(asg.get("number_cross_links")) == "cross_A.sum()", "number_cross_links = cross_A.sum()")
    exprs = {k: ast.unparse(v) for k, v in asg.items()}
    call = [s.value for s in rw.body if isinstance(s, ast.Expr) and isinstance(s.value, ast.Call)
            and ast.unparse(s.value.func) == "_randomlyRewireCrossLinks"]
    need(len(call) == 1, "RandomlyRewireCrossLinks: one kernel call")
    args = [ast.unparse(a) for a in call[0].args]
    L += ["/-- `number_swaps = NODE(swaps * number_cross_links)` (a C-style truncation; the product is",
          "non-negative for the documented `swaps ≥ 0`) -/",
          "def swapCountSrc (swaps : Rat) (number_cross_links : Int) : Int :=",
          "  Rat.floor (swaps * (number_cross_links : Rat))",
          "/-- how `RandomlyRewireCrossLinks` builds what it hands to the kernel: (argument, expression) -/",
          "def rewireArgs : List (String × String) := ["
          + ", ".join(f'("{a}", "{exprs.get(a, a)}")' for a in args) + "]", ""]
    for name, kern, lean in (("RandomlySetCrossLinks", "_randomlySetCrossLinks", "setArgs"),):
        f = fn[name]
        ex = {}
        for s_ in f.body:                      # top-level, unconditional assignments only
            if isinstance(s_, ast.Assign) and len(s_.targets) == 1:
                t = s_.targets[0]
                if isinstance(t, ast.Tuple) and isinstance(s_.value, ast.Tuple):
                    for tt, vv in zip(t.elts, s_.value.elts):
                        ex[ast.unparse(tt)] = ast.unparse(vv)
                else:
                    ex[ast.unparse(t)] = ast.unparse(s_.value)
        call = [s_.value for s_ in f.body if isinstance(s_, ast.Expr) and isinstance(s_.value, ast.Call)
                and ast.unparse(s_.value.func) == kern]
        need(len(call) == 1, f"{name}: one kernel call")
        args = [ast.unparse(a) for a in call[0].args]
        L += [f"/-- how `{name}` builds what it hands to the kernel: (argument, expression) -/",
              f"def {lean} : List (String × String) := ["
              + ", ".join(f'("{a}", "{ex.get(a, a)}")' for a in args) + "]",
              f"/-- the cross adjacency `{name}` counts the current links in -/",
              f"def setCrossA : String := \"{ex.get('cross_A', '?')}\"", ""]
    # ---- round 5: network.py, the igraph-backed generators ErdosRenyi / WattsStrogatz
    path = os.path.join(REPO, "src/pyunicorn/core/network.py")
    tree = ast.parse(open(path).read())
    cls = [n for n in tree.body if isinstance(n, ast.ClassDef) and n.name == "Network"][0]
    fn = {n.name: n for n in cls.body if isinstance(n, ast.FunctionDef)}
    GIVEN = {"link_probability": "pGiven", "n_links": "mGiven"}

    def given(e):
        """`X is None` / `X is not None` / and / or / not over the two optional arguments"""
        if isinstance(e, ast.BoolOp):
            op = " && " if isinstance(e.op, ast.And) else " || "
            return "(" + op.join(given(v) for v in e.values) + ")"
        if isinstance(e, ast.UnaryOp) and isinstance(e.op, ast.Not):
            return f"(!{given(e.operand)})"
        need(isinstance(e, ast.Compare) and len(e.ops) == 1 and isinstance(e.left, ast.Name)
             and e.left.id in GIVEN and isinstance(e.comparators[0], ast.Constant)
             and e.comparators[0].value is None and isinstance(e.ops[0], (ast.Is, ast.IsNot)),
             f"ErdosRenyi: test `{ast.unparse(e)}`")
        return GIVEN[e.left.id] if isinstance(e.ops[0], ast.IsNot) else f"(!{GIVEN[e.left.id]})"

    def is_print(s_):
        """`print(…)` or `if silence_level …: print(…)`"""
        if isinstance(s_, ast.Expr) and isinstance(s_.value, ast.Call) and ast.unparse(s_.value.func) == "print":
            return True
        return isinstance(s_, ast.If) and "silence_level" in ast.unparse(s_.test) and not s_.orelse \
            and all(is_print(b) for b in s_.body)

    def igraph_call(stmts, func, names, defaults, what):
        """the single statement `graph = igraph.Graph.<func>(…)` of a branch (progress output ignored):
        positional arguments mapped to their names, default-valued options dropped"""
        rest = [s_ for s_ in stmts if not is_print(s_)]
        need(len(rest) == 1 and isinstance(rest[0], ast.Assign) and ast.unparse(rest[0].targets[0]) == "graph"
             and isinstance(rest[0].value, ast.Call)
             and ast.unparse(rest[0].value.func) == f"igraph.Graph.{func}", f"{what}: graph = igraph.Graph.{func}(…)")
        c = rest[0].value
        need(len(c.args) <= len(names) and all(k.arg for k in c.keywords), f"{what}: arguments of {func}")
        d = {nm: ast.unparse(a) for nm, a in zip(names, c.args)}
        d.update({k.arg: ast.unparse(k.value) for k in c.keywords})
        return {k: v for k, v in d.items() if not (k in defaults and v == defaults[k])}

    er = fn["ErdosRenyi"]
    need([a.arg for a in er.args.args] == ["n_nodes", "link_probability", "n_links", "silence_level"]
         and [ast.unparse(d_) for d_ in er.args.defaults][1:3] == ["None", "None"], "ErdosRenyi: signature")
    body = [s_ for s_ in er.body if not (isinstance(s_, ast.Expr) and isinstance(s_.value, ast.Constant))]
    need(len(body) == 2 and isinstance(body[0], ast.If) and isinstance(body[1], ast.Return),
         "ErdosRenyi: if / elif / else, return")
    if1 = body[0]
    need(len(if1.orelse) == 1 and isinstance(if1.orelse[0], ast.If), "ErdosRenyi: elif")
    if2 = if1.orelse[0]
    need(len(if2.orelse) == 1 and isinstance(if2.orelse[0], ast.Raise)
         and ast.unparse(if2.orelse[0].exc).startswith("ValueError("), "ErdosRenyi: else raise ValueError")
    ER_N, ER_D = ("n", "p", "m", "directed", "loops"), {"directed": "False", "loops": "False"}
    KIND = {(("n", "n_nodes"), ("p", "link_probability")): ".byProbability",
            (("m", "n_links"), ("n", "n_nodes")): ".byLinkCount"}
    L += ["/-- which igraph call `Network.ErdosRenyi` makes: `Erdos_Renyi(n=n_nodes, p=link_probability)` /",
          "`Erdos_Renyi(n=n_nodes, m=n_links)` -/",
          "inductive ERCall | byProbability | byLinkCount", "deriving DecidableEq, Repr"]
    for i_, br in ((1, if1), (2, if2)):
        kw = igraph_call(br.body, "Erdos_Renyi", ER_N, ER_D, f"ErdosRenyi branch {i_}")
        key = tuple(sorted(kw.items()))
        need(key in KIND, f"ErdosRenyi branch {i_}: igraph is called with {kw}")
        L += [f"/-- `{'if' if i_ == 1 else 'elif'} {ast.unparse(br.test)}:` (`pGiven` = `link_probability is not None`, "
              "`mGiven` = `n_links is not None`) -/",
              f"def erTest{i_} (pGiven mGiven : Bool) : Bool := {given(br.test)}",
              f"/-- the call of that branch: `{ast.unparse([s_ for s_ in br.body if not is_print(s_)][0])}` -/",
              f"def erBranch{i_} : ERCall := {KIND[key]}"]
    L += ["/-- what `Network.ErdosRenyi` returns -/",
          f"def erReturn : String := \"{ast.unparse(body[1].value)}\""]
    ws = fn["WattsStrogatz"]
    need([a.arg for a in ws.args.args] == ["N", "k", "p"], "WattsStrogatz: signature")
    wbody = [s_ for s_ in ws.body if not (isinstance(s_, ast.Expr) and isinstance(s_.value, ast.Constant))]
    need(isinstance(wbody[-1], ast.Return), "WattsStrogatz: return")
    kw = igraph_call(wbody[:-1], "Watts_Strogatz", ("dim", "size", "nei", "p", "loops", "multiple"),
                     {"loops": "False", "multiple": "False"}, "WattsStrogatz")
    L += ["/-- the arguments `Network.WattsStrogatz(N, k, p)` hands to `igraph.Graph.Watts_Strogatz` (sorted by name) -/",
          "def wsCall : List (String × String) := ["
          + ", ".join(f'("{k}", "{v}")' for k, v in sorted(kw.items())) + "]",
          "/-- what `Network.WattsStrogatz` returns -/",
          f"def wsReturn : String := \"{ast.unparse(wbody[-1].value)}\"", ""]
    L += [
          "end Pyunicorn.Generated.StructC17", ""]
    os.makedirs(os.path.dirname(OUT), exist_ok=True)
    with open(OUT, "w") as fh:
        fh.write("\n".join(L))


if __name__ == "__main__":
    try:
        main()
    except Shape as e:
        print(f"gen_C17: the source no longer has the modelled shape: {e}", file=sys.stderr)
        sys.exit(1)
