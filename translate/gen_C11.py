#!/usr/bin/env python3
"""Structural translator for C11: regenerates lean/Pyunicorn/Generated/StructC11.lean from the
*current* working tree on every run.

From `core/interacting_networks.py` (every cross_/internal_/nsi_ method of InteractingNetworks,
i.e. everything but the constructors, `__str__` and the three random cross-link generators of
C17) it lists **every explicit dtype conversion**:

    to_cy(<value>, <T>)          -> callee "to_cy"
    <value>.astype(<T>)          -> callee "astype"
    np.f(<value>, ..., dtype=<T>) -> callee = dotted name of f (np.array, np.zeros, np.eye, ...)
    <value>.m(..., dtype=<T>)    -> callee = method name (sum, mean, ...)

as `Cast` records (method, callee, source text of the value, type name, kind int/float, bits);
type names are resolved through `core/_ext/types.py` (ADJ -> BOOLTYPE -> np.int8 ...).

From `core/_ext/numerics.pyx` it lists the C declarations of the `cdef:` blocks of the four
kernels `_cross_transitivity`, `_nsi_cross_transitivity`, `_cross_local_clustering`,
`_nsi_cross_local_clustering` as `CDecl` records (kernel, C type, variable).

`Properties/C11.lean` proves `casts_safe` (each conversion is applied to a value its type can
hold: float64 / 64-bit integers anything, int32 node lists, int8 0/1 adjacency data, freshly
created zero / identity arrays) and `counters_are_long` about these tables, next to the
arithmetic theorems (`norm_int64_exact`, `counters_fit_long`, `crossDegree_le`) that say why the
wider types suffice.  Anything that no longer has the expected *shape* raises, and the check
reports a broken tie.
"""
import ast
import os
import re
import sys

REPO = os.environ.get("VERIF_REPO", "/repo")
OUT = sys.argv[1]

SKIP = {"__init__", "__str__", "SmallTestNetwork", "SmallDirectedTestNetwork",
        "RandomlySetCrossLinks", "RandomlySetCrossLinks_sparse", "RandomlyRewireCrossLinks"}
KERNELS = ["_cross_transitivity", "_nsi_cross_transitivity", "_cross_local_clustering",
           "_nsi_cross_local_clustering"]
NP_TYPES = {"int8": ("int", 8), "int16": ("int", 16), "int32": ("int", 32), "int64": ("int", 64),
            "uint8": ("uint", 8), "uint16": ("uint", 16), "uint32": ("uint", 32),
            "uint64": ("uint", 64), "intp": ("int", 64), "int_": ("int", 64),
            "float16": ("float", 16), "float32": ("float", 32), "float64": ("float", 64),
            "float_": ("float", 64), "bool_": ("uint", 8), "bool": ("uint", 8)}
PY_TYPES = {"int": ("int", 64), "float": ("float", 64), "bool": ("uint", 8)}


class Shape(Exception):
    pass


def need(c, msg):
    if not c:
        raise Shape(msg)


def dotted(node):
    if isinstance(node, ast.Name):
        return node.id
    if isinstance(node, ast.Attribute):
        b = dotted(node.value)
        return None if b is None else b + "." + node.attr
    return None


def type_table():
    """names of core/_ext/types.py -> (kind, bits)"""
    src = open(os.path.join(REPO, "src/pyunicorn/core/_ext/types.py")).read()
    raw = {}
    for st in ast.parse(src).body:
        if isinstance(st, ast.Assign) and len(st.targets) == 1 and \
                isinstance(st.targets[0], ast.Name):
            d = dotted(st.value)
            if d is not None:
                raw[st.targets[0].id] = d
    need(raw, "no type aliases found in core/_ext/types.py")

    def resolve(name, depth=0):
        need(depth < 10, f"type alias cycle at {name}")
        if name.startswith("np.") or name.startswith("numpy."):
            base = name.split(".", 1)[1]
            need(base in NP_TYPES, f"unknown numpy type {name}")
            return NP_TYPES[base]
        if name in raw:
            return resolve(raw[name], depth + 1)
        if name in PY_TYPES:
            return PY_TYPES[name]
        raise Shape(f"cannot resolve dtype name {name}")
    return resolve


def lean_str(s):
    return '"' + s.replace("\\", "\\\\").replace('"', '\\"') + '"'


def collect_casts(resolve):
    path = os.path.join(REPO, "src/pyunicorn/core/interacting_networks.py")
    tree = ast.parse(open(path).read())
    cls = [n for n in tree.body if isinstance(n, ast.ClassDef) and n.name == "InteractingNetworks"]
    need(len(cls) == 1, "class InteractingNetworks not found")
    out = []
    nmeth = 0
    for f in cls[0].body:
        if not isinstance(f, ast.FunctionDef) or f.name in SKIP:
            continue
        nmeth += 1
        for node in ast.walk(f):
            if not isinstance(node, ast.Call):
                continue
            callee = dotted(node.func)
            ty = val = None
            if callee == "to_cy":
                need(len(node.args) == 2, f"{f.name}: to_cy with {len(node.args)} arguments")
                val, ty, how = node.args[0], node.args[1], "to_cy"
            elif isinstance(node.func, ast.Attribute) and node.func.attr == "astype":
                val = node.func.value
                if node.args:
                    ty = node.args[0]
                else:
                    kws = [k.value for k in node.keywords if k.arg == "dtype"]
                    need(kws, f"{f.name}: astype without a type")
                    ty = kws[0]
                how = "astype"
            else:
                kws = [k.value for k in node.keywords if k.arg == "dtype"]
                if not kws:
                    continue
                ty = kws[0]
                if callee is None:
                    # a method of a computed value: `<expr>.sum(dtype=T)`, `<expr>.mean(dtype=T)`
                    need(isinstance(node.func, ast.Attribute),
                         f"{f.name}: dtype= on a computed callee {ast.unparse(node.func)}")
                    how, val = node.func.attr, node.func.value
                elif callee.split(".")[0] in ("np", "numpy"):
                    how = callee
                    val = node.args[0] if node.args else None
                else:
                    # `x.sum(dtype=T)` on a plain name / attribute chain
                    need(isinstance(node.func, ast.Attribute), f"{f.name}: dtype= on {callee}")
                    how, val = node.func.attr, node.func.value
            tname = dotted(ty)
            need(tname is not None, f"{f.name}: dtype is not a name: {ast.unparse(ty)}")
            kind, bits = resolve(tname)
            out.append((f.name, how, ast.unparse(val) if val is not None else "", tname, kind, bits,
                        node.lineno))
    need(nmeth >= 50, f"only {nmeth} methods of InteractingNetworks scanned")
    out.sort(key=lambda c: c[-1])
    return out, nmeth


def collect_cdecls():
    src = open(os.path.join(REPO, "src/pyunicorn/core/_ext/numerics.pyx")).read()
    out = []
    for k in KERNELS:
        m = re.search(r"^def %s\(" % re.escape(k), src, re.M)
        need(m, f"{k} not found in numerics.pyx")
        rest = src[m.start():]
        nxt = re.search(r"^(def |cdef |cpdef )", rest[4:], re.M)
        text = rest[: 4 + nxt.start()] if nxt else rest
        lines = text.split("\n")
        idx = [i for i, ln in enumerate(lines) if ln.strip() == "cdef:"]
        need(len(idx) == 1, f"{k}: expected exactly one cdef: block")
        i = idx[0] + 1
        base_indent = None
        ndecl = 0
        while i < len(lines):
            ln = lines[i]
            if not ln.strip():
                break
            ind = len(ln) - len(ln.lstrip())
            if base_indent is None:
                base_indent = ind
            if ind < base_indent:
                break
            body = ln.strip()
            mm = re.match(r"^((?:unsigned\s+)?(?:long\s+long|[A-Za-z_][A-Za-z_0-9]*))\s+(.*)$", body)
            need(mm, f"{k}: cannot read declaration {body!r}")
            ctype, rest_ = mm.group(1), mm.group(2)
            # split the declarators at top-level commas
            depth, cur, parts = 0, "", []
            for ch in rest_:
                if ch in "([":
                    depth += 1
                if ch in ")]":
                    depth -= 1
                if ch == "," and depth == 0:
                    parts.append(cur)
                    cur = ""
                else:
                    cur += ch
            parts.append(cur)
            for p in parts:
                name = p.split("=")[0].strip()
                need(re.match(r"^[A-Za-z_][A-Za-z_0-9]*$", name), f"{k}: declarator {p!r}")
                out.append((k, ctype, name))
                ndecl += 1
            i += 1
        need(ndecl >= 4, f"{k}: only {ndecl} C declarations read")
        # every name assigned with += in the kernel must have been declared in the block
        for mm in re.finditer(r"^\s+([A-Za-z_][A-Za-z_0-9]*)\s*\+=", text, re.M):
            need(any(d[0] == k and d[2] == mm.group(1) for d in out),
                 f"{k}: accumulator {mm.group(1)} has no C declaration")
    return out


def class_methods(relpath, cname):
    tree = ast.parse(open(os.path.join(REPO, relpath)).read())
    cls = [n for n in tree.body if isinstance(n, ast.ClassDef) and n.name == cname]
    need(len(cls) == 1, f"class {cname} not found in {relpath}")
    return {f.name: f for f in cls[0].body if isinstance(f, ast.FunctionDef)}


def single_return_call(fn):
    """the call of a method whose body is (docstring +) one `return <call>`, else None"""
    body = [st for st in fn.body
            if not (isinstance(st, ast.Expr) and isinstance(st.value, ast.Constant))]
    if len(body) == 1 and isinstance(body[0], ast.Return) and isinstance(body[0].value, ast.Call):
        return body[0].value
    return None


def call_record(name, call):
    callee = dotted(call.func)
    need(callee is not None, f"{name}: computed callee {ast.unparse(call.func)}")
    args = [ast.unparse(a) for a in call.args]
    args += [f"{k.arg}={ast.unparse(k.value)}" for k in call.keywords]
    return (name, callee, args)


def collect_delegates():
    """round 4: every method of InteractingNetworks (outside SKIP) that only returns one call of
    another method (`self.…` / `InteractingNetworks.…`) — the pure delegates — and the two
    Network methods the betweenness delegates go through; plus the statements of
    `Network.nsi_betweenness` / `_nsi_betweenness` that the model `Cross.srcMask` /
    `crossBetweenness` mirrors"""
    out = []
    meths = class_methods("src/pyunicorn/core/interacting_networks.py", "InteractingNetworks")
    for name, fn in meths.items():
        if name in SKIP:
            continue
        call = single_return_call(fn)
        if call is None:
            continue
        callee = dotted(call.func)
        if callee is None or callee.split(".")[0] not in ("self", "InteractingNetworks"):
            continue
        out.append(call_record(name, call))
    for nm in ("cross_betweenness", "internal_betweenness", "nsi_cross_betweenness"):
        need(any(d[0] == nm for d in out), f"{nm} is no longer a pure delegate")
    net = class_methods("src/pyunicorn/core/network.py", "Network")
    for nm in ("interregional_betweenness", "nsi_interregional_betweenness"):
        need(nm in net, f"Network.{nm} not found")
        call = single_return_call(net[nm])
        need(call is not None, f"Network.{nm} is no longer a pure delegate")
        out.append(call_record("Network." + nm, call))
    facts = []
    need("nsi_betweenness" in net and "_nsi_betweenness" in net, "Network.nsi_betweenness not found")
    fn = net["nsi_betweenness"]
    sig = [a.arg for a in fn.args.args] + \
        [f"default:{ast.unparse(d)}" for d in fn.args.defaults]
    facts.append(("nsi_betweenness.signature", ", ".join(sig)))
    for st in ast.walk(fn):
        if isinstance(st, ast.Assign) and len(st.targets) == 1 and \
                isinstance(st.targets[0], ast.Subscript) and dotted(st.targets[0].value) == "is_source":
            facts.append(("nsi_betweenness.is_source[" + ast.unparse(st.targets[0].slice) + "]",
                          ast.unparse(st.value)))
        if isinstance(st, ast.Assign) and len(st.targets) == 1 and dotted(st.targets[0]) in (
                "is_source", "targets"):
            facts.append(("nsi_betweenness." + dotted(st.targets[0]), ast.unparse(st.value)))
        if isinstance(st, ast.Return) and st.value is not None:
            facts.append(("nsi_betweenness.return", ast.unparse(st.value)))
    fn = net["_nsi_betweenness"]
    for st in ast.walk(fn):
        if isinstance(st, ast.Assign) and len(st.targets) == 1 and dotted(st.targets[0]) in (
                "w", "k", "flat_neighbors", "links", "worker"):
            facts.append(("_nsi_betweenness." + dotted(st.targets[0]), ast.unparse(st.value)))
        if isinstance(st, ast.Assign) and len(st.targets) == 1 and dotted(st.targets[0]) == "betw_w" \
                and "pool" not in ast.unparse(st.value):
            facts.append(("_nsi_betweenness.betw_w", ast.unparse(st.value)))
        if isinstance(st, ast.Assert) and "n_links" in ast.unparse(st.test):
            facts.append(("_nsi_betweenness.assert", ast.unparse(st.test)))
        if isinstance(st, ast.Return) and st.value is not None:
            facts.append(("_nsi_betweenness.return", ast.unparse(st.value)))
    need(len(facts) >= 10, f"only {len(facts)} statements of nsi_betweenness read")
    return out, facts


def collect_ccn():
    """round 5: `CoupledClimateNetwork` (climate/coupled_climate_network.py): the assignments of
    `self.N`, `self.N_1`, `self.N_2`, `self.nodes_1`, `self.nodes_2` in the constructor, and for
    every other method (but `__str__`) every call of a method of `self` / `InteractingNetworks` in
    source order with its arguments (the routing of the two node lists) plus every `return`
    expression — the statements the model `Pyunicorn.CrossCCN` mirrors"""
    meths = class_methods("src/pyunicorn/climate/coupled_climate_network.py",
                          "CoupledClimateNetwork")
    need("__init__" in meths, "CoupledClimateNetwork.__init__ not found")
    facts = []
    for st in ast.walk(meths["__init__"]):
        if isinstance(st, ast.Assign) and len(st.targets) == 1 and dotted(st.targets[0]) in (
                "self.N", "self.N_1", "self.N_2", "self.nodes_1", "self.nodes_2"):
            facts.append(("__init__." + dotted(st.targets[0]), ast.unparse(st.value)))
        if isinstance(st, ast.Call) and dotted(st.func) == "InteractingNetworks.__init__":
            facts.append(("__init__.InteractingNetworks.__init__",
                          ", ".join(call_record("", st)[2])))
    need(len(facts) >= 6, f"only {len(facts)} constructor statements of CoupledClimateNetwork read")
    calls = []
    for name, fn in meths.items():
        if name in ("__init__", "__str__"):
            continue
        found = []
        for node in ast.walk(fn):
            if isinstance(node, ast.Call):
                callee = dotted(node.func)
                if callee is not None and callee.split(".")[0] in ("self", "InteractingNetworks"):
                    found.append((node.lineno, node.col_offset, call_record(name, node)))
            if isinstance(node, ast.Return) and node.value is not None:
                facts.append((name + ".return", ast.unparse(node.value)))
            if isinstance(node, ast.Assign):
                need(len(node.targets) == 1 and isinstance(node.targets[0], ast.Name),
                     f"{name}: assignment to something else than a local name: "
                     f"{ast.unparse(node)}")
                facts.append((name + "." + node.targets[0].id, ast.unparse(node.value)))
            if isinstance(node, ast.If):
                facts.append((name + ".if", ast.unparse(node.test)))
                facts.append((name + ".then", "; ".join(ast.unparse(x) for x in node.body)))
                facts.append((name + ".else", "; ".join(ast.unparse(x) for x in node.orelse)))
            need(not isinstance(node, (ast.For, ast.While, ast.AugAssign, ast.Try)),
                 f"{name}: a wrapper with a loop / augmented assignment / try")
        found.sort(key=lambda t: (t[0], t[1]))
        calls += [t[2] for t in found]
    need(len(calls) >= 30, f"only {len(calls)} wrapper calls of CoupledClimateNetwork read")
    return calls, facts


def collect_isrn():
    """round 5: `InterSystemRecurrenceNetwork` (timeseries/inter_system_recurrence_network.py):
    sizes, the assembly of the inter-system recurrence matrix from its four blocks, the removal of
    the self-loops through the flat view, the call of `InteractingNetworks.__init__`, the wrappers;
    and `CrossRecurrencePlot.cross_recurrence_rate` — the statements the model
    `Pyunicorn.CrossISRN` mirrors"""
    rel = "src/pyunicorn/timeseries/inter_system_recurrence_network.py"
    meths = class_methods(rel, "InterSystemRecurrenceNetwork")
    facts = []
    need("__init__" in meths, "InterSystemRecurrenceNetwork.__init__ not found")
    for st in ast.walk(meths["__init__"]):
        if isinstance(st, ast.Assign) and len(st.targets) == 1 and dotted(st.targets[0]) in (
                "self.N", "self.N_x", "self.N_y"):
            facts.append(("__init__." + dotted(st.targets[0]), ast.unparse(st.value)))
        if isinstance(st, ast.Call) and dotted(st.func) == "InteractingNetworks.__init__":
            facts.append(("__init__.InteractingNetworks.__init__",
                          ", ".join(call_record("", st)[2])))
    whole = ["inter_system_recurrence_matrix", "internal_recurrence_rates", "cross_recurrence_rate",
             "cross_global_clustering_xy", "cross_global_clustering_yx", "cross_transitivity_xy",
             "cross_transitivity_yx"]
    for name in whole + ["set_fixed_threshold", "set_fixed_recurrence_rate"]:
        need(name in meths, f"InterSystemRecurrenceNetwork.{name} not found")
        stmts = []
        for node in ast.walk(meths[name]):
            if isinstance(node, (ast.Assign, ast.AugAssign, ast.Return)):
                stmts.append(node)
            if name in whole:
                need(not isinstance(node, (ast.For, ast.While, ast.AugAssign, ast.Try, ast.If)),
                     f"ISRN.{name}: control flow / augmented assignment in a wrapper")
        stmts.sort(key=lambda n: (n.lineno, n.col_offset))
        for node in stmts:
            if isinstance(node, ast.Return):
                if node.value is not None:
                    facts.append((name + ".return", ast.unparse(node.value)))
                continue
            need(isinstance(node, ast.Assign) and len(node.targets) == 1,
                 f"ISRN.{name}: {ast.unparse(node)}")
            tgt = ast.unparse(node.targets[0])
            if name in whole or tgt.startswith("ISRM"):
                facts.append((name + "." + tgt, ast.unparse(node.value)))
    crp = class_methods("src/pyunicorn/timeseries/cross_recurrence_plot.py", "CrossRecurrencePlot")
    need("cross_recurrence_rate" in crp, "CrossRecurrencePlot.cross_recurrence_rate not found")
    for node in ast.walk(crp["cross_recurrence_rate"]):
        if isinstance(node, ast.Return) and node.value is not None:
            facts.append(("CrossRecurrencePlot.cross_recurrence_rate.return",
                          ast.unparse(node.value)))
    need(len(facts) >= 20, f"only {len(facts)} statements of InterSystemRecurrenceNetwork read")
    return facts


def main():
    resolve = type_table()
    casts, nmeth = collect_casts(resolve)
    cdecls = collect_cdecls()
    delegates, facts = collect_delegates()
    ccn_calls, ccn_facts = collect_ccn()
    isrn_facts = collect_isrn()
    L = ["/- generated by translate/gen_C11.py from the current source tree — do not edit -/",
         "namespace Pyunicorn.Generated.StructC11", "",
         "structure Cast where",
         "  func : String", "  callee : String", "  value : String", "  ty : String",
         "  kind : String", "  bits : Nat", "deriving DecidableEq, Repr", "",
         "structure CDecl where",
         "  kernel : String", "  ctype : String", "  name : String", "deriving DecidableEq, Repr", "",
         f"/-- number of methods of InteractingNetworks scanned -/",
         f"def methodsScanned : Nat := {nmeth}", "",
         "/-- every explicit dtype conversion of the cross_/internal_/nsi_ methods, in source order -/",
         "def casts : List Cast := ["]
    rows = []
    for fn, how, val, tname, kind, bits, line in casts:
        rows.append(f"  -- interacting_networks.py:{line}\n"
                    f"  ⟨{lean_str(fn)}, {lean_str(how)}, {lean_str(val)}, {lean_str(tname)}, "
                    f"{lean_str(kind)}, {bits}⟩")
    L.append(",\n".join(rows) + "]")
    L += ["", "/-- C declarations of the `cdef:` blocks of the four kernels -/",
          "def cdecls : List CDecl := ["]
    L.append(",\n".join(f"  ⟨{lean_str(k)}, {lean_str(t)}, {lean_str(n)}⟩" for k, t, n in cdecls)
             + "]")
    L += ["", "structure Delegate where", "  func : String", "  callee : String",
          "  args : List String", "deriving DecidableEq, Repr", "",
          "/-- round 4: every pure delegate (`return <one call>`) among the scanned methods, and the",
          "two `Network` methods the betweenness delegates pass through -/",
          "def delegates : List Delegate := ["]
    L.append(",\n".join(
        f"  ⟨{lean_str(f)}, {lean_str(c)}, [{', '.join(lean_str(a) for a in args)}]⟩"
        for f, c, args in delegates) + "]")
    L += ["", "/-- round 4: the statements of `Network.nsi_betweenness` / `_nsi_betweenness` mirrored by",
          "`Cross.srcMask`, `Cross.crossBetweenness` and `NetBetw.nsiBetweenness` (source text) -/",
          "def betwFacts : List (String × String) := ["]
    L.append(",\n".join(f"  ({lean_str(a)}, {lean_str(b)})" for a, b in facts) + "]")
    L += ["", f"/-- round 5: number of calls of methods of `self` / `InteractingNetworks` inside the",
          "wrappers of `CoupledClimateNetwork` -/",
          f"def ccnCallsScanned : Nat := {len(ccn_calls)}", "",
          "/-- round 5: the constructor's layer bookkeeping and every assignment, `if` and `return` of",
          "the wrappers of `CoupledClimateNetwork` (source text; the translator refuses loops,",
          "augmented assignments and `try` there) -/",
          "def ccnFacts : List (String × String) := ["]
    L.append(",\n".join(f"  ({lean_str(a)}, {lean_str(b)})" for a, b in ccn_facts) + "]")
    L += ["", "/-- round 5: sizes, matrix assembly, self-loop removal, constructor call and wrappers of",
          "`InterSystemRecurrenceNetwork`, and `CrossRecurrencePlot.cross_recurrence_rate` (source text) -/",
          "def isrnFacts : List (String × String) := ["]
    L.append(",\n".join(f"  ({lean_str(a)}, {lean_str(b)})" for a, b in isrn_facts) + "]")
    L += ["", "end Pyunicorn.Generated.StructC11", ""]
    os.makedirs(os.path.dirname(OUT), exist_ok=True)
    tmp = OUT + ".tmp"
    with open(tmp, "w") as fh:
        fh.write("\n".join(L))
    os.replace(tmp, OUT)


if __name__ == "__main__":
    try:
        main()
    except Shape as e:
        print(f"gen_C11: source no longer has the expected shape: {e}", file=sys.stderr)
        sys.exit(1)
