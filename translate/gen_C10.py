#!/usr/bin/env python3
"""Structural translator for C10: the *declared type of the lag matrices*.

Reads, from the current source ($VERIF_REPO or /repo),

* core/_ext/types.py      `LAG = <NAME>` and `<NAME> = np.<dtype>`           -> lagBitsPy / lagSignedPy
* core/_ext/types.pxd     `ctypedef <X>_t LAG_t`, `ctypedef cnp.<c>_t <X>_t`  -> lagBitsC / lagSignedC
* funcnet/_ext/numerics.pyx  every buffer declaration `ndarray[<T>, ...] lag_matrix`, the dtype of
                          `lag_matrix = np.zeros(...)`, the cast `<T> (expr)` of the store
                          `lag_matrix[i, j] = ...` in `_cross_correlation_max` and the expression stored;
                          the mirrored store `lag_matrix[J, I] = -lag_matrix[I, J]` of
                          `_symmetrize_by_absmax`
* funcnet/coupling_analysis.py  `lag_matrix = numpy.zeros(..., dtype=<T>)` (mutual_information,
                          information_transfer) and `to_cy(lag_matrix, <T>)` (symmetrize_by_absmax)

* climate/partial_correlation.py  `_calculate_correlation` (round 5): the matrix function applied to
                          the anomalies (`corrcoef` / `cov`), the guard and the two library calls of
                          the `inv` / `pinv` branch, and the returned expression `- C_inv / norm`
                          with `norm = sqrt(abs(outer(diag, diag)))`, `diag = C_inv.diagonal()`,
                          evaluated symbolically entry by entry -> pcorrNumer / pcorrDenomSq

and writes lean/Pyunicorn/Generated/StructC10.lean.  The theorems `lag_dtype_*` / `lag_store_*` of
Properties/C10.lean are stated about these definitions: a widened / narrowed / unsigned `LAG`, a
site that uses another type, or another stored expression breaks them (or this translation).
"""
import ast
import os
import re
import sys

REPO = os.environ.get("VERIF_REPO", "/repo")
OUT = sys.argv[1]
SRC = os.path.join(REPO, "src", "pyunicorn")

NP = {"int8": (8, True), "int16": (16, True), "int32": (32, True), "int64": (64, True),
      "uint8": (8, False), "uint16": (16, False), "uint32": (32, False), "uint64": (64, False),
      "intc": (32, True), "int_": (64, True), "byte": (8, True), "ubyte": (8, False),
      "short": (16, True), "longlong": (64, True)}


class Untranslatable(Exception):
    pass


def read(rel):
    with open(os.path.join(SRC, rel)) as f:
        return f.read()


def py_lag():
    """LAG of types.py, resolved through the module-level assignments to a numpy integer dtype"""
    tree = ast.parse(read("core/_ext/types.py"))
    env = {}
    for st in tree.body:
        if isinstance(st, ast.Assign) and len(st.targets) == 1 and isinstance(st.targets[0], ast.Name):
            env[st.targets[0].id] = st.value
    chain = ["LAG"]
    v = env.get("LAG")
    for _ in range(8):
        if isinstance(v, ast.Name):
            chain.append(v.id)
            v = env.get(v.id)
        elif isinstance(v, ast.Attribute) and isinstance(v.value, ast.Name) and v.value.id in ("np", "numpy"):
            chain.append("np." + v.attr)
            if v.attr not in NP:
                raise Untranslatable(f"types.py: LAG resolves to np.{v.attr}, not an integer dtype")
            return NP[v.attr], " = ".join(chain)
        else:
            break
    raise Untranslatable("types.py: cannot resolve LAG")


def pxd_lag():
    txt = read("core/_ext/types.pxd")
    defs = dict((m.group(2), m.group(1)) for m in re.finditer(r"^ctypedef\s+([\w.]+)\s+(\w+)\s*$", txt, re.M))
    chain = ["LAG_t"]
    v = defs.get("LAG_t")
    for _ in range(8):
        if v is None:
            break
        chain.append(v)
        m = re.fullmatch(r"cnp\.(\w+)_t", v)
        if m:
            if m.group(1) not in NP:
                raise Untranslatable(f"types.pxd: LAG_t resolves to {v}, not an integer type")
            return NP[m.group(1)], " <- ".join(chain)
        v = defs.get(v)
    raise Untranslatable("types.pxd: cannot resolve LAG_t")


def lean_expr(src, rename=None):
    """integer expression over names with + - unary minus"""
    rename = rename or {}

    def go(e):
        if isinstance(e, ast.Name):
            return e.id
        if isinstance(e, ast.Constant) and isinstance(e.value, int):
            return f"({e.value} : Int)"
        if isinstance(e, ast.BinOp) and isinstance(e.op, (ast.Add, ast.Sub, ast.Mult)):
            op = {ast.Add: "+", ast.Sub: "-", ast.Mult: "*"}[type(e.op)]
            return f"({go(e.left)} {op} {go(e.right)})"
        if isinstance(e, ast.UnaryOp) and isinstance(e.op, ast.USub):
            return f"(-{go(e.operand)})"
        txt = ast.unparse(e)
        if txt in rename:
            return rename[txt]
        raise Untranslatable(f"expression {txt!r}")
    tree = ast.parse(src.strip(), mode="eval").body
    names = sorted({n.id for n in ast.walk(tree) if isinstance(n, ast.Name)} - set())
    return go(tree), names


def func_text(txt, name):
    m = re.search(rf"^def\s+{name}\s*\(", txt, re.M)
    if not m:
        raise Untranslatable(f"numerics.pyx: def {name} not found")
    nxt = re.search(r"^def\s+\w+\s*\(", txt[m.end():], re.M)
    return txt[m.start(): m.end() + nxt.start() if nxt else len(txt)]


def pyx_sites():
    txt = read("funcnet/_ext/numerics.pyx")
    sites = []
    for fn in ("_symmetrize_by_absmax", "_cross_correlation_max"):
        body = func_text(txt, fn)
        decl = re.findall(r"ndarray\[\s*(\w+)\s*,[^\]]*\]\s*lag_matrix\b", body)
        if len(decl) != 1:
            raise Untranslatable(f"numerics.pyx:{fn}: {len(decl)} buffer declarations of lag_matrix")
        sites.append((f"numerics.pyx:{fn}:buffer", decl[0]))
    body = func_text(txt, "_cross_correlation_max")
    z = re.search(r"lag_matrix\s*=\s*np\.zeros\(\s*\(N,\s*N\),\s*dtype=(\w+)\)", body)
    if not z:
        raise Untranslatable("numerics.pyx:_cross_correlation_max: allocation of lag_matrix not found")
    sites.append(("numerics.pyx:_cross_correlation_max:zeros", z.group(1)))
    st = re.findall(r"^\s*lag_matrix\[i,\s*j\]\s*=\s*(.*)$", body, re.M)
    if len(st) != 1:
        raise Untranslatable(f"numerics.pyx:_cross_correlation_max: {len(st)} stores into lag_matrix[i, j]")
    m = re.fullmatch(r"<(\w+)>\s*\((.*)\)\s*", st[0])
    if m:
        sites.append(("numerics.pyx:_cross_correlation_max:cast", m.group(1)))
        store = m.group(2)
    else:
        store = st[0]
    body2 = func_text(txt, "_symmetrize_by_absmax")
    mir = re.findall(r"^\s*lag_matrix\[(\w+),\s*(\w+)\]\s*=\s*(.*)$", body2, re.M)
    if len(mir) != 1:
        raise Untranslatable(f"numerics.pyx:_symmetrize_by_absmax: {len(mir)} stores into lag_matrix")
    mirrors = []
    for a, b, rhs in mir:
        e, _ = lean_expr(rhs, {f"lag_matrix[{b}, {a}]": "l"})
        mirrors.append((f"[{a},{b}] = {rhs.strip()}", e))
    return sites, store, mirrors


def py_sites():
    tree = ast.parse(read("funcnet/coupling_analysis.py"))
    cls = next(n for n in tree.body if isinstance(n, ast.ClassDef) and n.name == "CouplingAnalysis")
    sites = []
    for fn in cls.body:
        if not isinstance(fn, ast.FunctionDef):
            continue
        for n in ast.walk(fn):
            if (isinstance(n, ast.Assign) and len(n.targets) == 1 and isinstance(n.targets[0], ast.Name)
                    and n.targets[0].id == "lag_matrix" and isinstance(n.value, ast.Call)):
                kw = {k.arg: k.value for k in n.value.keywords}
                if "dtype" not in kw:
                    raise Untranslatable(f"coupling_analysis.py:{fn.name}: lag_matrix allocated without dtype")
                sites.append((f"coupling_analysis.py:{fn.name}:zeros", ast.unparse(kw["dtype"])))
            if (isinstance(n, ast.Call) and ast.unparse(n.func) == "to_cy" and len(n.args) == 2
                    and ast.unparse(n.args[0]) == "lag_matrix"):
                sites.append((f"coupling_analysis.py:{fn.name}:to_cy", ast.unparse(n.args[1])))
    if len(sites) < 3:
        raise Untranslatable(f"coupling_analysis.py: only {len(sites)} lag_matrix sites found")
    return sites


def pcorr_source():
    """`PartialCorrelationClimateNetwork._calculate_correlation`, entry (i, j) of the returned matrix
    as numerator / sqrt(denominator-squared) over the entries `P a b` of `C_inv`"""
    tree = ast.parse(read("climate/partial_correlation.py"))
    cls = next((n for n in tree.body if isinstance(n, ast.ClassDef)
                and n.name == "PartialCorrelationClimateNetwork"), None)
    fn = next((n for n in (cls.body if cls else []) if isinstance(n, ast.FunctionDef)
               and n.name == "_calculate_correlation"), None)
    if fn is None:
        raise Untranslatable("partial_correlation.py: _calculate_correlation not found")
    env, branch, ret = {}, None, None
    for st in fn.body:
        if isinstance(st, ast.Assign) and len(st.targets) == 1 and isinstance(st.targets[0], ast.Name):
            env[st.targets[0].id] = st.value
        elif isinstance(st, ast.If) and branch is None:
            def single(body):
                if (len(body) == 1 and isinstance(body[0], ast.Assign) and len(body[0].targets) == 1
                        and isinstance(body[0].targets[0], ast.Name)):
                    return body[0].targets[0].id, ast.unparse(body[0].value)
                raise Untranslatable("partial_correlation.py: branch of the inverse is not a single assignment")
            try:
                (t1, c1), (t2, c2) = single(st.body), single(st.orelse)
            except Untranslatable:
                continue        # e.g. the `if self.silence_level <= 1: print(...)` at the top
            if t1 != t2:
                raise Untranslatable("partial_correlation.py: the two branches assign different names")
            branch = (t1, ast.unparse(st.test), c1, c2)
        elif isinstance(st, ast.Return):
            ret = st.value
    if branch is None or ret is None or "C" not in env:
        raise Untranslatable("partial_correlation.py: _calculate_correlation has not the expected statements")
    inv_name = branch[0]
    # the matrix that is inverted: np.<fn>(anomaly.transpose()) [.astype(...)]
    m = env["C"]
    while isinstance(m, ast.Call) and isinstance(m.func, ast.Attribute) and m.func.attr == "astype":
        m = m.func.value
    if not (isinstance(m, ast.Call) and isinstance(m.func, ast.Attribute) and isinstance(m.func.value, ast.Name)
            and m.func.value.id in ("np", "numpy") and len(m.args) == 1
            and ast.unparse(m.args[0]) in ("anomaly.transpose()", "anomaly.T")):
        raise Untranslatable(f"partial_correlation.py: C = {ast.unparse(env['C'])}")
    matfn = m.func.attr

    def is_np(e, name):
        return (isinstance(e, ast.Call) and isinstance(e.func, ast.Attribute) and e.func.attr == name
                and isinstance(e.func.value, ast.Name) and e.func.value.id in ("np", "numpy"))

    def vec(e, idx, depth=0):
        """entry `idx` of a vector expression"""
        if depth > 8:
            raise Untranslatable("partial_correlation.py: cyclic definitions")
        if isinstance(e, ast.Subscript) and ast.unparse(e.slice) == ":":
            return vec(e.value, idx, depth + 1)
        if (isinstance(e, ast.Call) and isinstance(e.func, ast.Attribute) and e.func.attr == "diagonal"
                and not e.args and isinstance(e.func.value, ast.Name) and e.func.value.id == inv_name):
            return f"P {idx} {idx}"
        if is_np(e, "diag") and len(e.args) == 1 and isinstance(e.args[0], ast.Name) and e.args[0].id == inv_name:
            return f"P {idx} {idx}"
        if isinstance(e, ast.Name) and e.id in env and e.id != inv_name:
            return vec(env[e.id], idx, depth + 1)
        raise Untranslatable(f"partial_correlation.py: vector expression {ast.unparse(e)!r}")

    def ent(e, depth=0):
        """entry (i, j) of a matrix expression: (expression, is-a-square-root-of)"""
        if depth > 8:
            raise Untranslatable("partial_correlation.py: cyclic definitions")
        if isinstance(e, ast.Name):
            if e.id == inv_name:
                return "(P i j)", False
            if e.id in env:
                return ent(env[e.id], depth + 1)
        if isinstance(e, ast.UnaryOp) and isinstance(e.op, ast.USub):
            x, r = ent(e.operand, depth + 1)
            if r:
                raise Untranslatable("partial_correlation.py: negated square root")
            return f"(-{x})", False
        if is_np(e, "sqrt") and len(e.args) == 1:
            x, r = ent(e.args[0], depth + 1)
            if r:
                raise Untranslatable("partial_correlation.py: nested square roots")
            return x, True
        if ((isinstance(e, ast.Call) and isinstance(e.func, ast.Name) and e.func.id == "abs")
                or is_np(e, "abs") or is_np(e, "absolute")) and len(e.args) == 1:
            x, r = ent(e.args[0], depth + 1)
            if r:
                raise Untranslatable("partial_correlation.py: abs of a square root")
            return f"(qabs {x})", False
        if is_np(e, "outer") and len(e.args) == 2:
            return f"(({vec(e.args[0], 'i')}) * ({vec(e.args[1], 'j')}))", False
        raise Untranslatable(f"partial_correlation.py: matrix expression {ast.unparse(e)!r}")

    if not (isinstance(ret, ast.BinOp) and isinstance(ret.op, ast.Div)):
        raise Untranslatable(f"partial_correlation.py: return {ast.unparse(ret)}")
    num, r1 = ent(ret.left)
    den, r2 = ent(ret.right)
    if r1 or not r2:
        raise Untranslatable("partial_correlation.py: returned expression is not <matrix> / sqrt(<matrix>)")
    return matfn, branch, num, den, ast.unparse(ret), ast.unparse(env.get("norm", ret.right))


def main():
    (bp, sp), chain_py = py_lag()
    (bc, sc), chain_c = pxd_lag()
    s_pyx, store, mirrors = pyx_sites()
    s_py = py_sites()
    store_e, names = lean_expr(store)
    if names != ["argmax", "tau_max"]:
        raise Untranslatable(f"stored lag expression uses {names}")
    L = ["-- generated by translate/gen_C10.py from the current source — do not edit",
         "namespace Pyunicorn.Generated.StructC10", "",
         f"/-- core/_ext/types.py: `{chain_py}` -/",
         f"def lagBitsPy : Nat := {bp}",
         f"def lagSignedPy : Bool := {'true' if sp else 'false'}", "",
         f"/-- core/_ext/types.pxd: `{chain_c}` -/",
         f"def lagBitsC : Nat := {bc}",
         f"def lagSignedC : Bool := {'true' if sc else 'false'}", "",
         "/-- every declaration / allocation / cast / conversion of a lag matrix in `funcnet`:",
         "(site, type name used there) -/",
         "def lagSites : List (String × String) := ["]
    allsites = s_pyx + s_py
    L += [f'  ("{a}", "{b}")' + ("," if k + 1 < len(allsites) else "") for k, (a, b) in enumerate(allsites)]
    L += ["]", "",
          f"/-- `_cross_correlation_max`: `lag_matrix[i, j] = {store.strip()}` (before the cast) -/",
          f"def lagStoreExpr (tau_max argmax : Int) : Int := {store_e}", ""]
    for txt, e in mirrors:
        L += [f"/-- `_symmetrize_by_absmax`: `lag_matrix{txt}` (`l` = the cell read) -/",
              f"def symLagExpr (l : Int) : Int := {e}", ""]
    matfn, (inv_name, guard, call1, call2), num, den, ret_txt, norm_txt = pcorr_source()
    L += ["/-! ### `PartialCorrelationClimateNetwork._calculate_correlation` (round 5) -/", "",
          "def qabs (x : Rat) : Rat := if x < 0 then -x else x", "",
          "/-- the matrix function applied to `anomaly.transpose()` -/",
          f'def pcorrMatrixFn : String := "{matfn}"', "",
          f"/-- `if {guard}: {inv_name} = {call1}  else: {inv_name} = {call2}` -/",
          f'def pcorrGuard : String := "{guard}"',
          f'def pcorrThen : String := "{call1}"',
          f'def pcorrElse : String := "{call2}"', "",
          f"/-- `return {ret_txt}`, entry `(i, j)`: the numerator over the entries `P a b` of `{inv_name}` -/",
          f"def pcorrNumer (P : Nat → Nat → Rat) (i j : Nat) : Rat := {num}", "",
          f"/-- the denominator is the square root of this (`norm = {norm_txt}`) -/",
          f"def pcorrDenomSq (P : Nat → Nat → Rat) (i j : Nat) : Rat := {den}", ""]
    L += ["end Pyunicorn.Generated.StructC10", ""]
    os.makedirs(os.path.dirname(OUT), exist_ok=True)
    with open(OUT, "w") as f:
        f.write("\n".join(L))


if __name__ == "__main__":
    try:
        main()
    except Untranslatable as e:
        print(f"gen_C10: untranslatable: {e}", file=sys.stderr)
        sys.exit(1)
