#!/usr/bin/env python3
"""Structural translator for C07 ("every quantification method is applicable to each of them"):
the *bodies* of all non-setter methods of the six recurrence classes
(timeseries/{recurrence_plot, cross_recurrence_plot, joint_recurrence_plot, recurrence_network,
joint_recurrence_network, inter_system_recurrence_network}.py) are regenerated from the current
source into lean/Pyunicorn/Generated/StructC07.lean as programs of a small statement language that
keeps exactly what decides whether a call returns or raises a documented error:

  * `raise E(...)`                                   -> .raise
  * `if <test>: … else: …` / conditional expressions -> .ite (test as a formula over the object's
    switches: sparse_rqa, metric == "supremum", threshold is not None, missing_values,
    dim / tau is None, `<parameter> is None`; anything else is `.opaque`, and the interpreter
    must then get the same result on both branches)
  * `self.m(...)`                                    -> .call m   (dynamic dispatch through the MRO)
  * `self.<sub>.m(...)` for a sub-object `self.<sub> = <RecurrenceClass>(...)` -> .callSub
  * reads of the stored matrix attribute (`self.R`, `self.CR`, `self.JR` — the attributes some
    `recurrence_matrix` returns) and uses of variables holding such a value -> .stored / .var with
    a `deref` flag (the value is used, so `None` would be an undocumented TypeError / AttributeError)
  * `return e`                                        -> .ret
  * loops -> .ite opaque body []; `try`, nested functions -> .unknown (the interpreter crashes)

plus the tables that say which construction *provides* which stored matrix: the setter calls each
`__init__` dispatches to (with the part of their guard that mentions `sparse_rqa` /
`skip_recurrence`), the attribute each setter stores, the `Parent.__init__(self, …)` calls (does it
pass `skip_recurrence=True`, does it pass `dim` / `tau` on), the sub-objects, the MRO restricted to
the timeseries package and the list of public non-setter methods of each class.

`Model/RecurrenceStruct.lean` interprets these programs; `Properties/C07.lean: outcome_derived`
proves that the result is the `outcome` table for every public method, class and switch setting.
"""
import ast
import os
import sys

REPO = os.environ.get("VERIF_REPO", "/repo")
OUT = sys.argv[1]
BASE = os.path.join(REPO, "src/pyunicorn/timeseries")
FILES = ["recurrence_plot.py", "cross_recurrence_plot.py", "joint_recurrence_plot.py",
         "recurrence_network.py", "joint_recurrence_network.py",
         "inter_system_recurrence_network.py"]
CLASSES = ["RecurrencePlot", "CrossRecurrencePlot", "JointRecurrencePlot", "RecurrenceNetwork",
           "JointRecurrenceNetwork", "InterSystemRecurrenceNetwork"]


def lit(s):
    return '"' + s.replace("\\", "\\\\").replace('"', '\\"').replace("\n", "\\n") + '"'


def is_self_attr(n, attr=None):
    return isinstance(n, ast.Attribute) and isinstance(n.value, ast.Name) and n.value.id == "self" \
        and (attr is None or n.attr == attr)


class Tr:
    """translation of one method body"""

    def __init__(self, cls, fn, matrix_attrs, subobjs):
        self.cls, self.fn = cls, fn
        self.matrix_attrs = matrix_attrs
        self.subobjs = subobjs            # attr -> class, of this class
        a = fn.args
        self.params = {x.arg for x in a.args + a.kwonlyargs}
        self.tainted = set()

    # -- conditions -----------------------------------------------------------
    def cond(self, t):
        if isinstance(t, ast.UnaryOp) and isinstance(t.op, ast.Not):
            return f"(.not {self.cond(t.operand)})"
        if isinstance(t, ast.BoolOp):
            op = ".and" if isinstance(t.op, ast.And) else ".or"
            out = self.cond(t.values[0])
            for v in t.values[1:]:
                out = f"({op} {out} {self.cond(v)})"
            return out
        if is_self_attr(t, "sparse_rqa") or (isinstance(t, ast.Name) and t.id == "sparse_rqa"):
            return ".sparse"
        if isinstance(t, ast.Name) and t.id == "skip_recurrence":
            return ".skip"
        if is_self_attr(t, "missing_values"):
            return ".missing"
        if isinstance(t, ast.Compare) and len(t.ops) == 1:
            l, op, r = t.left, t.ops[0], t.comparators[0]
            if is_self_attr(l, "metric") and isinstance(op, ast.Eq) \
                    and isinstance(r, ast.Constant) and r.value == "supremum":
                return ".supremum"
            if isinstance(r, ast.Constant) and r.value is None and isinstance(op, (ast.Is, ast.IsNot)):
                atom = None
                if is_self_attr(l, "threshold"):
                    atom = "(.not .thrGiven)"
                elif is_self_attr(l, "dim"):
                    atom = ".dimNone"
                elif is_self_attr(l, "tau"):
                    atom = ".tauNone"
                elif isinstance(l, ast.Name) and l.id in self.params:
                    atom = f"(.paramNone {lit(l.id)})"
                if atom is not None:
                    if isinstance(op, ast.IsNot):
                        return ".thrGiven" if atom == "(.not .thrGiven)" else f"(.not {atom})"
                    return atom
        return f"(.opaque {lit(ast.unparse(t))})"

    # -- expressions ------------------------------------------------------------
    def top(self, e):
        """the expression as a source of a possibly-None matrix value, or None"""
        if isinstance(e, ast.Constant) and e.value is None:
            return ".noneLit"
        if is_self_attr(e) and e.attr in self.matrix_attrs:
            return f"(.stored {lit(e.attr)})"
        if isinstance(e, ast.Name) and e.id in self.tainted:
            return f"(.var {lit(e.id)})"
        if isinstance(e, ast.Call) and isinstance(e.func, ast.Attribute):
            f = e.func
            if isinstance(f.value, ast.Name) and f.value.id == "self":
                return f"(.call {lit(f.attr)})"
            if is_self_attr(f.value) and f.value.attr in self.subobjs:
                return f"(.callSub {lit(f.value.attr)} {lit(f.attr)})"
        return None

    def events(self, e, out, is_top=False):
        """statements for the interesting sub-expressions of `e` in evaluation order; the
        top-level expression itself is left to the caller when `is_top`"""
        if e is None:
            return
        if isinstance(e, ast.IfExp):
            a, b = [], []
            self.events(e.body, a)
            self.events(e.orelse, b)
            t = []
            self.events(e.test, t)
            out.extend(t)
            if a or b:
                out.append(f".ite {self.cond(e.test)} [{', '.join(a)}] [{', '.join(b)}]")
            return
        if isinstance(e, (ast.Lambda, ast.ListComp, ast.SetComp, ast.DictComp, ast.GeneratorExp)):
            sub = []
            for c in ast.iter_child_nodes(e):
                if isinstance(c, ast.expr):
                    self.events(c, sub)
                elif isinstance(c, ast.comprehension):
                    self.events(c.iter, sub)
                    for i in c.ifs:
                        self.events(i, sub)
            if sub:
                out.append(f".unknown {lit(ast.unparse(e))}")
            return
        t = self.top(e)
        if isinstance(e, ast.Call):
            # arguments first, then the call itself
            f = e.func
            if t is None:
                self.events(f, out)
            for a in e.args:
                self.events(a.value if isinstance(a, ast.Starred) else a, out)
            for k in e.keywords:
                self.events(k.value, out)
            if t is not None and not is_top:
                out.append(f".eval {t} true")
            return
        if t is not None:
            if not is_top and t != ".noneLit":
                out.append(f".eval {t} true")
            return
        for c in ast.iter_child_nodes(e):
            if isinstance(c, ast.expr):
                self.events(c, out)

    # -- statements ---------------------------------------------------------------
    def block(self, body):
        out = []
        for st in body:
            self.stmt(st, out)
        return out

    def stmt(self, st, out):
        if isinstance(st, ast.Expr) and isinstance(st.value, ast.Constant) \
                and isinstance(st.value.value, str):
            return                                                  # docstring
        if isinstance(st, (ast.Assert, ast.Pass, ast.Delete, ast.Import, ast.ImportFrom)):
            return
        if isinstance(st, ast.Raise):
            nm = ""
            if st.exc is not None:
                f = st.exc.func if isinstance(st.exc, ast.Call) else st.exc
                nm = ast.unparse(f)
            err = {"NotImplementedError": ".notImplemented", "ValueError": ".valueError"}.get(
                nm, f"(.other {lit(nm)})")
            out.append(f".raise {err}")
            return
        if isinstance(st, ast.If):
            pre = []
            self.events(st.test, pre)
            out.extend(pre)
            t, e = self.block(st.body), self.block(st.orelse)
            if t or e:
                out.append(f".ite {self.cond(st.test)} [{', '.join(t)}] [{', '.join(e)}]")
            return
        if isinstance(st, ast.Return):
            if st.value is None:
                out.append(".ret .noneLit")
                return
            self.events(st.value, out, is_top=True)
            out.append(f".ret {self.top(st.value) or '.other'}")
            return
        if isinstance(st, ast.Assign) and len(st.targets) == 1 and isinstance(st.targets[0], ast.Name):
            x = st.targets[0].id
            self.events(st.value, out, is_top=True)
            t = self.top(st.value)
            if t is not None:
                out.append(f".assign {lit(x)} {t}")
                self.tainted.add(x)
            else:
                self.tainted.discard(x)
            return
        if isinstance(st, (ast.Assign, ast.AugAssign, ast.AnnAssign, ast.Expr)):
            for c in ast.iter_child_nodes(st):
                if isinstance(c, ast.expr):
                    self.events(c, out)
            return
        if isinstance(st, (ast.For, ast.While)):
            self.events(st.iter if isinstance(st, ast.For) else st.test, out)
            b = self.block(st.body) + self.block(st.orelse)
            if b:
                out.append(f".ite (.opaque {lit('loop: ' + ast.unparse(st).splitlines()[0])}) "
                           f"[{', '.join(b)}] []")
            return
        if isinstance(st, ast.With):
            for it in st.items:
                self.events(it.context_expr, out)
            out.extend(self.block(st.body))
            return
        out.append(f".unknown {lit(ast.unparse(st).splitlines()[0])}")


def decorators(fn):
    return {ast.unparse(d).split("(")[0] for d in fn.decorator_list}


def plain_method(fn):
    d = decorators(fn)
    return not (d & {"staticmethod", "classmethod", "property"}) and \
        not any(x.endswith(".setter") for x in d)


def main():
    trees = {}
    for fn in FILES:
        for n in ast.parse(open(os.path.join(BASE, fn)).read()).body:
            if isinstance(n, ast.ClassDef) and n.name in CLASSES:
                trees[n.name] = n
    missing = [c for c in CLASSES if c not in trees]
    if missing:
        sys.exit(f"gen_C07: classes not found: {missing}")

    def funcs(c):
        return [n for n in trees[c].body if isinstance(n, ast.FunctionDef)]

    # MRO restricted to the six classes (each has at most one base among them, listed first)
    mro = {}
    for c in CLASSES:
        chain, k = [], c
        while k is not None:
            chain.append(k)
            nxt = [ast.unparse(b) for b in trees[k].bases if ast.unparse(b) in trees]
            k = nxt[0] if nxt else None
        mro[c] = chain

    # the stored matrix attributes: what some `recurrence_matrix` returns
    matrix_attrs = set()
    for c in CLASSES:
        for f in funcs(c):
            if f.name == "recurrence_matrix":
                for n in ast.walk(f):
                    if isinstance(n, ast.Return) and is_self_attr(n.value):
                        matrix_attrs.add(n.value.attr)

    # sub-objects `self.a = <RecurrenceClass>(...)`
    subobjs = {c: {} for c in CLASSES}
    sub_rows = []
    for c in CLASSES:
        for f in funcs(c):
            for n in ast.walk(f):
                if isinstance(n, ast.Assign) and len(n.targets) == 1 and is_self_attr(n.targets[0]) \
                        and isinstance(n.value, ast.Call) and ast.unparse(n.value.func) in trees:
                    a, k = n.targets[0].attr, ast.unparse(n.value.func)
                    switches = any(kw.arg in ("sparse_rqa", "missing_values", None)
                                   for kw in n.value.keywords)
                    if a in subobjs[c] and subobjs[c][a] != k:
                        switches = True                 # two different classes: not modelled
                    subobjs[c][a] = k
                    row = f"({lit(c)}, {lit(a)}, {lit(k)}, {'true' if switches else 'false'})"
                    if row not in sub_rows:
                        sub_rows.append(row)

    methods, public = [], []
    for c in CLASSES:
        inherited_subs = {}
        for k in reversed(mro[c]):
            inherited_subs.update(subobjs[k])
        for f in funcs(c):
            if f.name.startswith("__") or f.name.startswith("set_") or not plain_method(f):
                continue
            tr = Tr(c, f, matrix_attrs, inherited_subs)
            body = tr.block(f.body)
            methods.append(f"  ⟨{lit(c)}, {lit(f.name)},\n    [" + ",\n     ".join(body) + "]⟩")
        seen = []
        for k in mro[c]:
            for f in funcs(k):
                if f.name.startswith("_") or f.name.startswith("set_") or f.name in seen \
                        or not plain_method(f):
                    continue
                seen.append(f.name)
                public.append(f"({lit(c)}, {lit(f.name)})")

    # provision: setter calls of each __init__, what setters store, parent constructors
    init_calls, stores, supers, delegates = [], [], [], []
    sparse_stored = False
    for c in CLASSES:
        for f in funcs(c):
            if f.name.startswith("set_"):
                def stored(body):
                    """matrix attributes assigned a value on every path through `body`"""
                    got = set()
                    for st in body:
                        if isinstance(st, ast.Assign) and len(st.targets) == 1 \
                                and is_self_attr(st.targets[0]) and st.targets[0].attr in matrix_attrs \
                                and not (isinstance(st.value, ast.Constant) and st.value.value is None):
                            got.add(st.targets[0].attr)
                        elif isinstance(st, ast.If) and st.orelse:
                            got |= stored(st.body) & stored(st.orelse)
                    return got
                for a in sorted(stored(f.body)):
                    stores.append(f"({lit(c)}, {lit(f.name)}, {lit(a)})")
                for st in f.body:
                    if isinstance(st, ast.Expr) and isinstance(st.value, ast.Call) \
                            and isinstance(st.value.func, ast.Attribute) \
                            and st.value.func.attr.startswith("set_"):
                        owner = ast.unparse(st.value.func.value)
                        if owner == "self" or (owner in trees and st.value.args
                                               and ast.unparse(st.value.args[0]) == "self"):
                            delegates.append(f"({lit(c)}, {lit(f.name)}, "
                                             f"{lit(c if owner == 'self' else owner)}, "
                                             f"{lit(st.value.func.attr)})")
            if f.name != "__init__":
                continue
            tr = Tr(c, f, matrix_attrs, {})
            if c == "RecurrencePlot":
                sparse_stored = any(ast.unparse(st) == "self.sparse_rqa = sparse_rqa" for st in f.body)

            def walk(body, guard):
                for st in body:
                    if isinstance(st, ast.If):
                        t = tr.cond(st.test)
                        keep = ".sparse" in t or ".skip" in t
                        walk(st.body, guard + [t] if keep else guard)
                        walk(st.orelse, guard + [f"(.not {t})"] if keep else guard)
                        continue
                    for n in ast.walk(st):
                        if not (isinstance(n, ast.Call) and isinstance(n.func, ast.Attribute)):
                            continue
                        fa = n.func
                        owner = ast.unparse(fa.value)
                        static = owner in trees and n.args and ast.unparse(n.args[0]) == "self"
                        g = ".tt"
                        for x in guard:
                            g = f"(.and {g} {x})"
                        if fa.attr.startswith("set_") and (static or owner == "self"):
                            init_calls.append(f"({lit(c)}, {g}, "
                                              f"{lit(owner if static else c)}, {lit(fa.attr)})")
                        if fa.attr == "__init__" and static:
                            kws = {k.arg: k.value for k in n.keywords}
                            skip = "skip_recurrence" in kws and \
                                isinstance(kws["skip_recurrence"], ast.Constant) and \
                                kws["skip_recurrence"].value is True
                            dimtau = None in kws or ("dim" in kws and "tau" in kws)
                            supers.append(f"({lit(c)}, {lit(owner)}, {'true' if skip else 'false'}, "
                                          f"{'true' if dimtau else 'false'})")
            walk(f.body, [])

    os.makedirs(os.path.dirname(OUT), exist_ok=True)
    with open(OUT, "w") as f:
        f.write(PRELUDE)
        f.write("/-- the non-setter methods of the six classes -/\ndef methods : List Method := [\n"
                + ",\n".join(methods) + "]\n\n")
        f.write("/-- method resolution order restricted to the six classes -/\n"
                "def mro : List (String × List String) := ["
                + ", ".join(f"({lit(c)}, [{', '.join(lit(k) for k in mro[c])}])" for c in CLASSES)
                + "]\n\n")
        f.write("/-- every public non-setter method reachable on each class -/\n"
                "def publicMethods : List (String × String) := [\n  " + ",\n  ".join(public) + "]\n\n")
        f.write("/-- the attributes some `recurrence_matrix` returns -/\n"
                "def matrixAttrs : List String := [" + ", ".join(lit(a) for a in sorted(matrix_attrs))
                + "]\n\n")
        f.write("/-- `self.<attr> = <Class>(…)`: (owner, attr, class, passes sparse_rqa / "
                "missing_values / **kwds) -/\n"
                "def subObjects : List (String × String × String × Bool) := ["
                + ", ".join(sub_rows) + "]\n\n")
        f.write("/-- setter calls in `__init__`: (class, guard on sparse_rqa / skip_recurrence, "
                "class of the setter, setter) -/\n"
                "def initSetterCalls : List (String × Cond × String × String) := [\n  "
                + ",\n  ".join(init_calls) + "]\n\n")
        f.write("/-- top-level `self.<matrix attr> = <value>` of the setters -/\n"
                "def setterStores : List (String × String × String) := [\n  "
                + ",\n  ".join(stores) + "]\n\n")
        f.write("/-- a setter whose body calls another setter as a statement: (class, setter, class of "
                "the target, target) -/\n"
                "def setterDelegates : List (String × String × String × String) := [\n  "
                + ",\n  ".join(delegates) + "]\n\n")
        f.write("/-- `Parent.__init__(self, …)` calls: (class, parent, passes skip_recurrence=True, "
                "passes dim / tau on) -/\n"
                "def superInit : List (String × String × Bool × Bool) := [\n  "
                + ",\n  ".join(supers) + "]\n\n")
        f.write("/-- `RecurrencePlot.__init__` stores its parameter: `self.sparse_rqa = sparse_rqa` -/\n"
                f"def sparseStored : Bool := {'true' if sparse_stored else 'false'}\n\n")
        f.write("end Pyunicorn.Generated.StructC07\n")


PRELUDE = '''/- GENERATED by translate/gen_C07.py from the current /repo working tree — do not edit. -/
namespace Pyunicorn.Generated.StructC07

inductive Err where
  | notImplemented | valueError | other (name : String)

/-- tests on the switches of the object -/
inductive Cond where
  | tt | sparse | supremum | thrGiven | missing | dimNone | tauNone | skip
  | paramNone (p : String)
  | opaque (src : String)
  | not (c : Cond)
  | and (a b : Cond)
  | or (a b : Cond)

/-- where a possibly-`None` matrix value comes from -/
inductive Expr where
  | stored (attr : String)
  | call (m : String)
  | callSub (attr m : String)
  | var (x : String)
  | noneLit
  | other

inductive Stmt where
  | raise (e : Err)
  | assign (x : String) (e : Expr)
  | eval (e : Expr) (deref : Bool)
  | ite (c : Cond) (t e : List Stmt)
  | ret (e : Expr)
  | unknown (src : String)

structure Method where
  cls : String
  name : String
  body : List Stmt

'''

if __name__ == "__main__":
    main()
